import Mouette.Lemmas.AttrInv
/-
Step-wise simulation: the invariant is preserved by every operation, and every operation of the heap model is
matched by the total-map specification.
-/
namespace Mouette.Attr
set_option linter.unusedSimpArgs false
set_option linter.unusedVariables false

/-! ### equations of `step` -/
section eqs
variable {dense : Bool} {s : State}

theorem step_create_some_ok {ty k x} (h : x.ty = ty) : step dense s (.create ty k (some x)) = (mkAttr dense s ty k x, .ok) := by
  simp only [step, h, if_true]
theorem step_create_some_bad {ty k x} (h : ¬ x.ty = ty) : step dense s (.create ty k (some x)) = (s, .err .dfltType) := by
  simp only [step, h, if_false]
theorem step_create_none {ty k} : step dense s (.create ty k none) = (mkAttr dense s ty k ty.zero, .ok) := by
  simp only [step]
theorem step_set_none {i v} (h : s.attr = none) : step dense s (.set i v) = (s, .err .noAttr) := by
  simp only [step, h]
theorem step_set_oob {a i v} (h : s.attr = some a) (hb : boundsFail a i = true) : step dense s (.set i v) = (s, .err .oob) := by
  simp only [step, h, hb]
theorem step_set_bad {a i v e} (h : s.attr = some a) (hb : boundsFail a i = false) (hc : checkVal a.ty a.k v = .error e) :
    step dense s (.set i v) = (s, .err e) := by
  simp only [step, h, hb, hc]
theorem step_set_ok {a i v val s' a'} (h : s.attr = some a) (hb : boundsFail a i = false) (hc : checkVal a.ty a.k v = .ok val)
    (hp : put s a i val = .ok (s', a')) : step dense s (.set i v) = ({ s' with attr := some a' }, .ok) := by
  simp only [step, h, hb, hc, hp]
theorem step_get_none {i} (h : s.attr = none) : step dense s (.get i) = (s, .err .noAttr) := by
  simp only [step, h]
theorem step_get_err {a i e} (h : s.attr = some a) (hg : get s a i = .error e) : step dense s (.get i) = (s, .err e) := by
  simp only [step, h, hg]
theorem step_get_ok {a i s' hd v} (h : s.attr = some a) (hg : get s a i = .ok (s', hd, v)) : step dense s (.get i) = (s', .val v) := by
  simp only [step, h, hg]
theorem step_mut_none {i c x} (h : s.attr = none) : step dense s (.upd i c x) = (s, .err .noAttr) := by
  simp only [step, h]
theorem step_mut_err {a i c x e} (h : s.attr = some a) (hg : get s a i = .error e) : step dense s (.upd i c x) = (s, .err e) := by
  simp only [step, h, hg]
theorem step_mut_ok {a i c x s' hd v} (h : s.attr = some a) (hg : get s a i = .ok (s', hd, v)) (hk : a.k > 1) (hc : c < a.k) :
    step dense s (.upd i c x) = ({ s' with heap := mutate s'.heap hd c x }, .ok) := by
  simp only [step, h, hg, hk, hc, if_true]
theorem step_mut_index {a i c x s' hd v} (h : s.attr = some a) (hg : get s a i = .ok (s', hd, v)) (hk : a.k > 1) (hc : ¬ c < a.k) :
    step dense s (.upd i c x) = (s', .err .index) := by
  simp only [step, h, hg, hk, hc, if_true, if_false]
theorem step_mut_scalar {a i c x s' hd v} (h : s.attr = some a) (hg : get s a i = .ok (s', hd, v)) (hk : ¬ a.k > 1) :
    step dense s (.upd i c x) = (s', .ok) := by
  simp only [step, h, hg, hk, if_false]
theorem step_clear_none (h : s.attr = none) : step dense s .clear = (s, .err .noAttr) := by
  simp only [step, h]
theorem step_clear_some {a} (h : s.attr = some a) :
    step dense s .clear = ({ s with heap := (clearAttr s.heap a).1, attr := some (clearAttr s.heap a).2 }, .ok) := by
  simp only [step, h]
theorem step_arr_none (h : s.attr = none) : step dense s .asArray = (s, .err .noAttr) := by
  simp only [step, h]
theorem step_arr_ok {a rows} (h : s.attr = some a) (ha : asArray s a = .ok rows) : step dense s .asArray = (s, .arr rows) := by
  simp only [step, h, ha]
theorem step_arr_err {a e} (h : s.attr = some a) (ha : asArray s a = .error e) : step dense s .asArray = (s, .err e) := by
  simp only [step, h, ha]

theorem grow_none {m} (h : s.attr = none) : grow s m = { s with size := s.size + m } := by
  simp only [grow, h]
theorem grow_some {m a} (h : s.attr = some a) :
    grow s m = { heap := (expandAttr s.heap a m).1, size := s.size + m, attr := some (expandAttr s.heap a m).2 } := by
  simp only [grow, h]
end eqs

/-- dense `put` cannot fail once the guard passed; sparse `put` never fails -/
theorem put_ok_of_guard {s : State} {a : Attr} {i : Int} (v : Val) (hb : boundsFail a i = false) :
    ∃ s' a', put s a i v = .ok (s', a') := by
  unfold boundsFail at hb; unfold put
  cases hst : a.store with
  | sparse data => exact ⟨_, _, rfl⟩
  | dense n arr => rw [hst] at hb; simp only at hb; simp only [hb]; exact ⟨_, _, rfl⟩

theorem get_err_iff {s : State} {a : Attr} {i : Int} {e : Err} (hg : get s a i = .error e) :
    e = .oob ∧ boundsFail a i = true := by
  unfold get at hg; unfold boundsFail
  cases hst : a.store with
  | sparse data =>
    rw [hst] at hg; simp only at hg
    cases hl : data.lookup i <;> rw [hl] at hg <;> cases hg
  | dense n arr =>
    rw [hst] at hg; simp only at hg
    by_cases hb : oobGuard i n = true
    · rw [if_pos hb] at hg; injection hg with hg; exact ⟨hg.symm, hb⟩
    · rw [if_neg hb] at hg; cases hg

theorem get_ok_of_guard {s : State} {a : Attr} {i : Int} (hb : boundsFail a i = false) :
    ∃ s' hd v, get s a i = .ok (s', hd, v) := by
  unfold boundsFail at hb; unfold get
  cases hst : a.store with
  | sparse data =>
    simp only
    cases hl : data.lookup i
    · exact ⟨_, _, _, rfl⟩
    · exact ⟨_, _, _, rfl⟩
  | dense n arr => rw [hst] at hb; simp only at hb; simp only [hb]; exact ⟨_, _, _, rfl⟩

/-! ### the invariant is preserved by every operation, in both storage modes, for every script -/

theorem inv_grow {s : State} (m : Nat) (hinv : Inv s) : Inv (grow s m) := by
  cases ha : s.attr with
  | none => rw [grow_none ha]; intro a h; simp only at h; rw [ha] at h; cases h
  | some a =>
    rw [grow_some ha]; intro a' h; simp only at h ⊢
    injection h with h
    obtain ⟨_, _, _, hok, _⟩ := expand_spec (m := m) (hinv a ha) (rfl : expandAttr s.heap a m = (_, _))
    rw [← h]; exact hok

theorem inv_mkAttr (dense : Bool) (s : State) (ty : Ty) (k : Nat) (d : Scalar) : Inv (mkAttr dense s ty k d) := by
  obtain ⟨hs, a', ha', _, _, _, hok, _⟩ := mkAttr_spec dense s ty k d
  intro a h; rw [ha'] at h; injection h with h; rw [← h, hs]; exact hok

theorem inv_step (dense : Bool) (s : State) (op : Op) (hinv : Inv s) : Inv (step dense s op).1 := by
  cases op with
  | create ty k d =>
    cases d with
    | none => rw [step_create_none]; exact inv_mkAttr dense s ty k _
    | some x =>
      by_cases h : x.ty = ty
      · rw [step_create_some_ok h]; exact inv_mkAttr dense s ty k _
      · rw [step_create_some_bad h]; exact hinv
  | delete => intro a h; simp [step] at h
  | cclear => intro a h; simp [step] at h
  | append => exact inv_grow 1 hinv
  | extendList n => exact inv_grow n hinv
  | extendCont m => exact inv_grow m hinv
  | extendSelf => exact inv_grow s.size hinv
  | set i v =>
    cases ha : s.attr with
    | none => rw [step_set_none ha]; exact hinv
    | some a =>
      cases hb : boundsFail a i with
      | true => rw [step_set_oob ha hb]; exact hinv
      | false =>
        cases hc : checkVal a.ty a.k v with
        | error e => rw [step_set_bad ha hb hc]; exact hinv
        | ok val =>
          obtain ⟨s', a', hp⟩ := put_ok_of_guard (s := s) val hb
          rw [step_set_ok ha hb hc hp]
          obtain ⟨hsz, _, _, _, _, hok, _⟩ := put_spec (hinv a ha) hp
          intro a'' h; simp only at h ⊢; injection h with h; rw [← h, hsz]; exact hok
  | get i =>
    cases ha : s.attr with
    | none => rw [step_get_none ha]; exact hinv
    | some a =>
      cases hg : get s a i with
      | error e => rw [step_get_err ha hg]; exact hinv
      | ok r =>
        obtain ⟨s', hd, v⟩ := r
        rw [step_get_ok ha hg]
        obtain ⟨_, hsz, hat, hok, _⟩ := get_spec (hinv a ha) hg
        intro a'' h; simp only at h ⊢; rw [hat, ha] at h; injection h with h; rw [← h, hsz]; exact hok
  | upd i c x =>
    cases ha : s.attr with
    | none => rw [step_mut_none ha]; exact hinv
    | some a =>
      cases hg : get s a i with
      | error e => rw [step_mut_err ha hg]; exact hinv
      | ok r =>
        obtain ⟨s', hd, v⟩ := r
        obtain ⟨_, hsz, hat, hok, _, hmu⟩ := get_spec (hinv a ha) hg
        have hinv' : Inv s' := by
          intro a'' h; rw [hat, ha] at h; injection h with h; rw [← h, hsz]; exact hok
        by_cases hk : a.k > 1
        · by_cases hc : c < a.k
          · rw [step_mut_ok ha hg hk hc]
            intro a'' h; simp only at h ⊢; rw [hat, ha] at h; injection h with h; rw [← h, hsz]; exact (hmu c x).1
          · rw [step_mut_index ha hg hk hc]; exact hinv'
        · rw [step_mut_scalar ha hg hk]; exact hinv'
  | clear =>
    cases ha : s.attr with
    | none => rw [step_clear_none ha]; exact hinv
    | some a =>
      rw [step_clear_some ha]
      obtain ⟨_, _, _, hok, _⟩ := clear_spec (hinv a ha) (rfl : clearAttr s.heap a = (_, _))
      intro a'' h; simp only at h ⊢; injection h with h; rw [← h]; exact hok
  | asArray =>
    cases ha : s.attr with
    | none => rw [step_arr_none ha]; exact hinv
    | some a =>
      cases hr : asArray s a with
      | ok rows => rw [step_arr_ok ha hr]; exact hinv
      | error e => rw [step_arr_err ha hr]; exact hinv

theorem inv_init (n0 : Nat) : Inv (init n0) := by intro a h; cases h

theorem inv_final (dense : Bool) : ∀ (ops : List Op) (s : State), Inv s → Inv (final dense s ops) := by
  intro ops
  induction ops with
  | nil => intro s h; exact h
  | cons op ops ih => intro s h; exact ih _ (inv_step dense s op h)

/-! ### every attribute of a run lives in the storage mode of the run -/

def isDense (a : Attr) : Bool := match a.store with | .dense _ _ => true | .sparse _ => false

def ModeOk (dense : Bool) (s : State) : Prop := ∀ a, s.attr = some a → isDense a = dense

theorem isDense_put {s s' : State} {a a' : Attr} {i : Int} {v : Val} (hp : put s a i v = .ok (s', a')) :
    isDense a' = isDense a := by
  unfold put at hp; unfold isDense
  cases hst : a.store with
  | sparse data => rw [hst] at hp; simp only at hp; injection hp with hp; injection hp with _ h2; rw [← h2]
  | dense n arr =>
    rw [hst] at hp; simp only at hp
    by_cases hb : oobGuard i n = true
    · rw [if_pos hb] at hp; cases hp
    · rw [if_neg hb] at hp; injection hp with hp; injection hp with _ h2; rw [← h2, hst]

theorem isDense_expand (h : Heap) (a : Attr) (m : Nat) : isDense (expandAttr h a m).2 = isDense a := by
  unfold expandAttr isDense; cases hst : a.store <;> simp [hst]

theorem isDense_clear (h : Heap) (a : Attr) : isDense (clearAttr h a).2 = isDense a := by
  unfold clearAttr isDense; cases hst : a.store <;> simp [hst]

theorem modeOk_mkAttr (dense : Bool) (s : State) (ty : Ty) (k : Nat) (d : Scalar) : ModeOk dense (mkAttr dense s ty k d) := by
  intro a h; cases dense <;> simp [mkAttr] at h <;> rw [← h] <;> rfl

theorem modeOk_grow {dense : Bool} {s : State} (m : Nat) (hm : ModeOk dense s) : ModeOk dense (grow s m) := by
  cases ha : s.attr with
  | none => rw [grow_none ha]; intro a h; simp only at h; rw [ha] at h; cases h
  | some a =>
    rw [grow_some ha]; intro a' h; simp only at h; injection h with h
    rw [← h, isDense_expand]; exact hm a ha

theorem modeOk_step (dense : Bool) (s : State) (op : Op) (hinv : Inv s) (hm : ModeOk dense s) : ModeOk dense (step dense s op).1 := by
  cases op with
  | create ty k d =>
    cases d with
    | none => rw [step_create_none]; exact modeOk_mkAttr dense s ty k _
    | some x =>
      by_cases h : x.ty = ty
      · rw [step_create_some_ok h]; exact modeOk_mkAttr dense s ty k _
      · rw [step_create_some_bad h]; exact hm
  | delete => intro a h; simp [step] at h
  | cclear => intro a h; simp [step] at h
  | append => exact modeOk_grow 1 hm
  | extendList n => exact modeOk_grow n hm
  | extendCont m => exact modeOk_grow m hm
  | extendSelf => exact modeOk_grow s.size hm
  | set i v =>
    cases ha : s.attr with
    | none => rw [step_set_none ha]; exact hm
    | some a =>
      cases hb : boundsFail a i with
      | true => rw [step_set_oob ha hb]; exact hm
      | false =>
        cases hc : checkVal a.ty a.k v with
        | error e => rw [step_set_bad ha hb hc]; exact hm
        | ok val =>
          obtain ⟨s', a', hp⟩ := put_ok_of_guard (s := s) val hb
          rw [step_set_ok ha hb hc hp]
          intro a'' h; simp only at h; injection h with h; rw [← h, isDense_put hp]; exact hm a ha
  | get i =>
    cases ha : s.attr with
    | none => rw [step_get_none ha]; exact hm
    | some a =>
      cases hg : get s a i with
      | error e => rw [step_get_err ha hg]; exact hm
      | ok r =>
        obtain ⟨s', hd, v⟩ := r
        rw [step_get_ok ha hg]
        obtain ⟨_, _, hat, _⟩ := get_spec (hinv a ha) hg
        intro a'' h; simp only at h; rw [hat] at h; exact hm a'' h
  | upd i c x =>
    cases ha : s.attr with
    | none => rw [step_mut_none ha]; exact hm
    | some a =>
      cases hg : get s a i with
      | error e => rw [step_mut_err ha hg]; exact hm
      | ok r =>
        obtain ⟨s', hd, v⟩ := r
        obtain ⟨_, _, hat, _⟩ := get_spec (hinv a ha) hg
        have hm' : ModeOk dense s' := by intro a'' h; rw [hat] at h; exact hm a'' h
        by_cases hk : a.k > 1
        · by_cases hc : c < a.k
          · rw [step_mut_ok ha hg hk hc]; exact hm'
          · rw [step_mut_index ha hg hk hc]; exact hm'
        · rw [step_mut_scalar ha hg hk]; exact hm'
  | clear =>
    cases ha : s.attr with
    | none => rw [step_clear_none ha]; exact hm
    | some a =>
      rw [step_clear_some ha]
      intro a'' h; simp only at h; injection h with h; rw [← h, isDense_clear]; exact hm a ha
  | asArray =>
    cases ha : s.attr with
    | none => rw [step_arr_none ha]; exact hm
    | some a =>
      cases hr : asArray s a with
      | ok rows => rw [step_arr_ok ha hr]; exact hm
      | error e => rw [step_arr_err ha hr]; exact hm

theorem boundsFail_eq {dense : Bool} {h : Heap} {size : Nat} {a : Attr} {i : Int}
    (hmode : isDense a = dense) (hok : StoreOk h size a) (hidx : dense = false → inRange i size = true) :
    boundsFail a i = !inRange i size := by
  unfold boundsFail; unfold isDense at hmode; unfold StoreOk at hok
  cases hst : a.store with
  | sparse data =>
    rw [hst] at hmode; simp only at hmode
    rw [hidx hmode.symm]; rfl
  | dense n arr =>
    rw [hst] at hok; simp only at hok
    simp only [oobGuard, inRange, hok.1]
    by_cases h1 : i < 0 <;> by_cases h2 : (size : Int) ≤ i <;> simp [h1, h2] <;> omega

/-! ### refinement relation -/

inductive RA (h : Heap) (size : Nat) : Option Attr → Option TAttr → Prop
  | none : RA h size none none
  | some {a : Attr} {ta : TAttr} (hty : a.ty = ta.ty) (hk : a.k = ta.k) (hd : a.dflt = ta.dflt)
      (hki : KeysIn (keysOf a) size)
      (hout : ∀ i : Int, (size : Int) ≤ i → ta.f i = some (List.replicate ta.k ta.dflt))
      (hf : ∀ i : Int, 0 ≤ i → i < (size : Int) → ∀ w, ta.f i = some w → lookupVal h a i = w) :
      RA h size (some a) (some ta)

def R (s : State) (t : Spec) : Prop := s.size = t.size ∧ RA s.heap s.size s.attr t.attr

theorem R_init (n0 : Nat) : R (init n0) (specInit n0) := ⟨rfl, RA.none⟩

theorem inRange_iff {i : Int} {n : Nat} : inRange i n = true ↔ 0 ≤ i ∧ i < (n : Int) := by
  unfold inRange; simp

theorem R_mkAttr (dense : Bool) {s : State} {t : Spec} (ty : Ty) (k : Nat) (d : Scalar) (hsz : s.size = t.size) :
    R (mkAttr dense s ty k d) (specMk t ty k d) := by
  obtain ⟨hs, a', ha', h1, h2, h3, _, hkeys, hl⟩ := mkAttr_spec dense s ty k d
  refine ⟨by rw [hs]; exact hsz, ?_⟩
  rw [ha', hs]; unfold specMk; simp only
  refine RA.some h1 h2 h3 (by rw [hkeys]; intro p hp; cases hp) (fun i _ => rfl) ?_
  intro i h0 hi w hw
  simp only at hw; injection hw with hw
  rw [hl i h0 hi]; exact hw

theorem R_grow {s : State} {t : Spec} (m : Nat) (hinv : Inv s) (hR : R s t) : R (grow s m) { t with size := t.size + m } := by
  obtain ⟨hsz, hra⟩ := hR
  cases ha : s.attr with
  | none =>
    rw [grow_none ha]; rw [ha] at hra
    cases hta : t.attr with
    | none => exact ⟨by simp only [hsz], by simp only [ha, hta]; exact RA.none⟩
    | some ta => rw [hta] at hra; cases hra
  | some a =>
    rw [grow_some ha]; rw [ha] at hra
    cases hta : t.attr with
    | none => rw [hta] at hra; cases hra
    | some ta =>
      rw [hta] at hra
      cases hra with
      | some hty hk hd hki hout hf =>
        obtain ⟨e1, e2, e3, _, ekeys, hold, hnew⟩ := expand_spec (h' := (expandAttr s.heap a m).1) (a' := (expandAttr s.heap a m).2) (m := m) (hinv a ha) rfl
        refine ⟨by simp only [hsz], ?_⟩
        simp only [hta]
        refine RA.some (by rw [e1]; exact hty) (by rw [e2]; exact hk) (by rw [e3]; exact hd) ?_ ?_ ?_
        · rw [ekeys]; intro p hp; have := hki p hp; constructor <;> omega
        · intro i hi; apply hout; omega
        · intro i h0 hi w hw
          by_cases hlt : i < (s.size : Int)
          · rw [hold i h0 hlt]; exact hf i h0 hlt w hw
          · have hge : (s.size : Int) ≤ i := by omega
            rw [hnew i hge hi (fun p hp e => by have := hki p hp; omega)]
            rw [hout i hge] at hw; injection hw with hw
            rw [← hw]; unfold Attr.dfltRow; rw [hk, hd]

theorem R_cases {s : State} {t : Spec} (hR : R s t) :
    (s.attr = none ∧ t.attr = none) ∨
    ∃ a ta, s.attr = some a ∧ t.attr = some ta ∧ a.ty = ta.ty ∧ a.k = ta.k ∧ a.dflt = ta.dflt ∧
      KeysIn (keysOf a) s.size ∧
      (∀ i : Int, (s.size : Int) ≤ i → ta.f i = some (List.replicate ta.k ta.dflt)) ∧
      (∀ i : Int, 0 ≤ i → i < (s.size : Int) → ∀ w, ta.f i = some w → lookupVal s.heap a i = w) := by
  obtain ⟨_, hra⟩ := hR
  cases ha : s.attr with
  | none =>
    rw [ha] at hra
    cases hta : t.attr with
    | none => exact Or.inl ⟨rfl, rfl⟩
    | some ta => rw [hta] at hra; cases hra
  | some a =>
    rw [ha] at hra
    cases hta : t.attr with
    | none => rw [hta] at hra; cases hra
    | some ta =>
      rw [hta] at hra
      cases hra with
      | some hty hk hd hki hout hf => exact Or.inr ⟨a, ta, rfl, rfl, hty, hk, hd, hki, hout, hf⟩

theorem R_mk {s' : State} {t' : Spec} {a' : Attr} {ta' : TAttr} (hsz : s'.size = t'.size)
    (ha : s'.attr = some a') (hta : t'.attr = some ta')
    (hty : a'.ty = ta'.ty) (hk : a'.k = ta'.k) (hd : a'.dflt = ta'.dflt) (hki : KeysIn (keysOf a') s'.size)
    (hout : ∀ i : Int, (s'.size : Int) ≤ i → ta'.f i = some (List.replicate ta'.k ta'.dflt))
    (hf : ∀ i : Int, 0 ≤ i → i < (s'.size : Int) → ∀ w, ta'.f i = some w → lookupVal s'.heap a' i = w) : R s' t' :=
  ⟨hsz, by rw [ha, hta]; exact RA.some hty hk hd hki hout hf⟩

theorem R_none {s' : State} {t' : Spec} (hsz : s'.size = t'.size) (ha : s'.attr = none) (hta : t'.attr = none) : R s' t' :=
  ⟨hsz, by rw [ha, hta]; exact RA.none⟩

/-- one step of either storage is matched by one step of the total-map specification -/
theorem sim_step (dense : Bool) (s : State) (t : Spec) (op : Op)
    (hinv : Inv s) (hm : ModeOk dense s) (hR : R s t) (hidx : dense = false → opInRange s.size op = true) :
    R (step dense s op).1 (specStep t op).1 ∧ Matches (specStep t op).2 (step dense s op).2 := by
  have hsz : s.size = t.size := hR.1
  cases op with
  | create ty k d =>
    cases d with
    | none => rw [step_create_none]; simp only [specStep]; exact ⟨R_mkAttr dense ty k _ hsz, trivial⟩
    | some x =>
      by_cases h : x.ty = ty
      · rw [step_create_some_ok h]; simp only [specStep, h, if_true]; exact ⟨R_mkAttr dense ty k _ hsz, trivial⟩
      · rw [step_create_some_bad h]; simp only [specStep, h, if_false]; exact ⟨hR, rfl⟩
  | delete => simp only [step, specStep]; exact ⟨R_none hsz rfl rfl, trivial⟩
  | cclear => simp only [step, specStep]; exact ⟨R_none rfl rfl rfl, trivial⟩
  | append => simp only [step, specStep]; exact ⟨R_grow 1 hinv hR, trivial⟩
  | extendList n => simp only [step, specStep]; exact ⟨R_grow n hinv hR, trivial⟩
  | extendCont m => simp only [step, specStep]; exact ⟨R_grow m hinv hR, trivial⟩
  | extendSelf =>
    simp only [step, specStep]; rw [show grow s s.size = grow s t.size by rw [hsz]]
    exact ⟨R_grow t.size hinv hR, trivial⟩
  | set i v =>
    rcases R_cases hR with ⟨ha, hta⟩ | ⟨a, ta, ha, hta, hty, hk, hd, hki, hout, hf⟩
    · rw [step_set_none ha]; simp only [specStep, hta]; exact ⟨hR, rfl⟩
    · have hbf := boundsFail_eq (i := i) (hm a ha) (hinv a ha) (fun hd => by simpa [opInRange] using hidx hd)
      cases hir : inRange i s.size with
      | false =>
        rw [hir] at hbf; simp only [Bool.not_false] at hbf
        rw [step_set_oob ha hbf]
        rw [hsz] at hir
        simp only [specStep, hta, hir, Bool.false_eq_true, if_false]; exact ⟨hR, rfl⟩
      | true =>
        rw [hir] at hbf; simp only [Bool.not_true] at hbf
        have hirT := hir; rw [hsz] at hirT
        cases hc : checkVal a.ty a.k v with
        | error e =>
          rw [step_set_bad ha hbf hc]
          rw [hty, hk] at hc
          simp only [specStep, hta, hirT, if_true, hc]; exact ⟨hR, rfl⟩
        | ok val =>
          obtain ⟨s', a', hp⟩ := put_ok_of_guard (s := s) val hbf
          rw [step_set_ok ha hbf hc hp]
          rw [hty, hk] at hc
          simp only [specStep, hta, hirT, if_true, hc]
          obtain ⟨e0, _, e1, e2, e3, _, hsame, hother, hkeys⟩ := put_spec (hinv a ha) hp
          obtain ⟨hi0, hi1⟩ := inRange_iff.mp hir
          refine ⟨R_mk (by simp only [e0, hsz]) rfl rfl (by rw [e1]; exact hty) (by rw [e2]; exact hk) (by rw [e3]; exact hd)
            ?_ ?_ ?_, trivial⟩
          · simp only [e0]; intro p hp'
            rcases hkeys p hp' with h | h
            · rw [h]; exact ⟨hi0, hi1⟩
            · exact hki p h
          · simp only [e0]; intro j hj
            have : ¬ j = i := by omega
            simp only [this, if_false]; exact hout j hj
          · simp only [e0]; intro j h0 hj w hw
            by_cases hji : j = i
            · simp only [hji, if_true] at hw; injection hw with hw; rw [hji, hsame]; exact hw
            · simp only [hji, if_false] at hw; rw [hother j hji h0]; exact hf j h0 hj w hw
  | get i =>
    rcases R_cases hR with ⟨ha, hta⟩ | ⟨a, ta, ha, hta, hty, hk, hd, hki, hout, hf⟩
    · rw [step_get_none ha]; simp only [specStep, hta]; exact ⟨hR, rfl⟩
    · have hbf := boundsFail_eq (i := i) (hm a ha) (hinv a ha) (fun hd => by simpa [opInRange] using hidx hd)
      cases hir : inRange i s.size with
      | false =>
        rw [hir] at hbf; simp only [Bool.not_false] at hbf
        cases hg : get s a i with
        | ok r => obtain ⟨s', hd', v⟩ := r
                  exfalso
                  cases hst : a.store with
                  | sparse data => unfold boundsFail at hbf; rw [hst] at hbf; cases hbf
                  | dense n arr =>
                    have := get_dense_inRange (r := (s', hd', v)) hst hg
                    unfold boundsFail at hbf; rw [hst] at hbf; simp only [oobGuard] at hbf
                    simp at hbf; omega
        | error e =>
          rw [step_get_err ha hg]
          obtain ⟨he, _⟩ := get_err_iff hg
          rw [hsz] at hir
          simp only [specStep, hta, hir, Bool.false_eq_true, if_false, he]; exact ⟨hR, rfl⟩
      | true =>
        rw [hir] at hbf; simp only [Bool.not_true] at hbf
        have hirT := hir; rw [hsz] at hirT
        obtain ⟨s', hd', v, hg⟩ := get_ok_of_guard (s := s) (a := a) (i := i) hbf
        rw [step_get_ok ha hg]
        simp only [specStep, hta, hirT, if_true]
        obtain ⟨hv, e0, eat, _, hsame, _⟩ := get_spec (hinv a ha) hg
        obtain ⟨hi0, hi1⟩ := inRange_iff.mp hir
        refine ⟨R_mk (by rw [e0]; exact hsz) (by rw [eat]; exact ha) hta hty hk hd (by rw [e0]; exact hki)
          (by rw [e0]; exact hout) ?_, ?_⟩
        · rw [e0]; intro j h0 hj w hw; rw [hsame j]; exact hf j h0 hj w hw
        · intro w hw; rw [hv]; exact hf i hi0 hi1 w hw
  | upd i c x =>
    rcases R_cases hR with ⟨ha, hta⟩ | ⟨a, ta, ha, hta, hty, hk, hd, hki, hout, hf⟩
    · rw [step_mut_none ha]; simp only [specStep, hta]; exact ⟨hR, rfl⟩
    · have hbf := boundsFail_eq (i := i) (hm a ha) (hinv a ha) (fun hd => by simpa [opInRange] using hidx hd)
      cases hir : inRange i s.size with
      | false =>
        rw [hir] at hbf; simp only [Bool.not_false] at hbf
        cases hg : get s a i with
        | ok r => obtain ⟨s', hd', v⟩ := r
                  exfalso
                  cases hst : a.store with
                  | sparse data => unfold boundsFail at hbf; rw [hst] at hbf; cases hbf
                  | dense n arr =>
                    have := get_dense_inRange (r := (s', hd', v)) hst hg
                    unfold boundsFail at hbf; rw [hst] at hbf; simp only [oobGuard] at hbf
                    simp at hbf; omega
        | error e =>
          rw [step_mut_err ha hg]
          obtain ⟨he, _⟩ := get_err_iff hg
          rw [hsz] at hir
          simp only [specStep, hta, hir, Bool.false_eq_true, if_false, he]; exact ⟨hR, rfl⟩
      | true =>
        rw [hir] at hbf; simp only [Bool.not_true] at hbf
        have hirT := hir; rw [hsz] at hirT
        obtain ⟨s', hd', v, hg⟩ := get_ok_of_guard (s := s) (a := a) (i := i) hbf
        obtain ⟨hv, e0, eat, _, hsame, hmu⟩ := get_spec (hinv a ha) hg
        obtain ⟨hi0, hi1⟩ := inRange_iff.mp hir
        have hR' : R s' t := R_mk (by rw [e0]; exact hsz) (by rw [eat]; exact ha) hta hty hk hd (by rw [e0]; exact hki)
          (by rw [e0]; exact hout) (by rw [e0]; intro j h0 hj w hw; rw [hsame j]; exact hf j h0 hj w hw)
        by_cases hk1 : a.k > 1
        · have hk1' : ta.k > 1 := by rw [← hk]; exact hk1
          by_cases hc : c < a.k
          · have hc' : c < ta.k := by rw [← hk]; exact hc
            rw [step_mut_ok ha hg hk1 hc]
            simp only [specStep, hta, hirT, if_true, hk1', hc']
            refine ⟨R_mk (by simp only [e0, hsz]) (by simp only [eat, ha]) rfl hty hk hd (by simp only [e0]; exact hki) ?_ ?_, trivial⟩
            · simp only [e0]; intro j hj
              have : ¬ j = i := by omega
              simp only [this, if_false]; exact hout j hj
            · simp only [e0]; intro j h0 hj w hw
              by_cases hji : j = i
              · simp only [hji, if_true] at hw; cases hw
              · simp only [hji, if_false] at hw; rw [(hmu c x).2 j hji h0]; exact hf j h0 hj w hw
          · have hc' : ¬ c < ta.k := by rw [← hk]; exact hc
            rw [step_mut_index ha hg hk1 hc]
            simp only [specStep, hta, hirT, if_true, hk1', hc', if_false]; exact ⟨hR', rfl⟩
        · have hk1' : ¬ ta.k > 1 := by rw [← hk]; exact hk1
          rw [step_mut_scalar ha hg hk1]
          simp only [specStep, hta, hirT, if_true, hk1', if_false]; exact ⟨hR', trivial⟩
  | clear =>
    rcases R_cases hR with ⟨ha, hta⟩ | ⟨a, ta, ha, hta, hty, hk, hd, hki, hout, hf⟩
    · rw [step_clear_none ha]; simp only [specStep, hta]; exact ⟨hR, rfl⟩
    · rw [step_clear_some ha]; simp only [specStep, hta]
      obtain ⟨e1, e2, e3, _, ekeys, hl⟩ := clear_spec (h' := (clearAttr s.heap a).1) (a' := (clearAttr s.heap a).2) (hinv a ha) rfl
      refine ⟨R_mk hsz rfl rfl (by rw [e1]; exact hty) (by rw [e2]; exact hk) (by rw [e3]; exact hd)
        (by simp only [ekeys]; intro p hp; cases hp) (fun j _ => rfl) ?_, trivial⟩
      intro j h0 hj w hw
      simp only at hw; injection hw with hw
      rw [hl j h0 hj, ← hw]; unfold Attr.dfltRow TAttr.dfltRow; rw [hk, hd]
  | asArray =>
    rcases R_cases hR with ⟨ha, hta⟩ | ⟨a, ta, ha, hta, hty, hk, hd, hki, hout, hf⟩
    · rw [step_arr_none ha]; simp only [specStep, hta]; exact ⟨hR, rfl⟩
    · obtain ⟨rows, hr, hlen, hrows⟩ := asArray_spec (hinv a ha) hki
      rw [step_arr_ok ha hr]; simp only [specStep, hta]
      refine ⟨hR, by rw [hlen]; exact hsz, ?_⟩
      intro j hj w hw
      rw [← hsz] at hj
      rw [hrows j hj]; exact hf (j : Int) (by omega) (by omega) w hw

end Mouette.Attr
