import Mouette.Lemmas.SubdivSource4
import Mouette.Lemmas.SubdivArea2
/-
C13 (round 5): BRIDGE for `split_double_boundary_edges_triangles` (degree count over the edge list, scan of every face with
`raise` / `break`, the editing block that fans the problem faces) against the hand model `Subdiv.splitDoubleBoundary`.
-/
namespace Mouette.SubdivSrc
open Mouette.Subdiv
open Mouette.Generated

theorem foldE_congr {σ α} (g g' : σ → α → Except Err σ) (Inv : σ → Prop)
    (h : ∀ s a, Inv s → g s a = g' s a) (hp : ∀ s a s', Inv s → g' s a = .ok s' → Inv s') :
    ∀ (l : List α) (s : σ), Inv s → foldE g s l = foldE g' s l := by
  intro l
  induction l with
  | nil => intro s _; rfl
  | cons a t ih =>
    intro s hs
    simp only [foldE, h s a hs]
    cases hg : g' s a with
    | error e => rfl
    | ok s' => exact ih s' (hp s a s' hs hg)

/-- `deg[a] += 1` as the source spells it (read, then store at the same index) -/
theorem bump_eq (deg : List Nat) (a : Nat) :
    (match idx deg a with | .error er => .error er | .ok t => setAt deg a (t + 1)) = bump deg a := by
  unfold bump
  cases h1 : deg[a]? with
  | none => simp only [idx_none h1]
  | some d => simp only [idx_some h1]; exact setAt_lt _ (lt_of_getElem? h1)

/-- the inner loop `for v in f: if deg[v] < 2: raise ..; if deg[v] == 2: pb_faces.append(i); break` -/
theorem scanLoop (deg : List Nat) (i : Nat) (g : List Nat × Bool → Nat → Except Err (List Nat × Bool))
    (hg : ∀ pb brk v, g (pb, brk) v = if brk = true then .ok (pb, brk) else
      match deg[v]? with
      | none => .error Err.index
      | some d => if d < 2 then .error Err.other else if d = 2 then .ok (pb ++ [i], true) else .ok (pb, false)) :
    (∀ (f : List Nat) (pb : List Nat), foldE g (pb, true) f = .ok (pb, true)) ∧
    (∀ (f : List Nat) (pb : List Nat), foldE g (pb, false) f = match scanFace deg f with
      | .error er => .error er
      | .ok b => .ok (if b then pb ++ [i] else pb, b)) := by
  have h1 : ∀ (f : List Nat) (pb : List Nat), foldE g (pb, true) f = .ok (pb, true) := by
    intro f
    induction f with
    | nil => intro pb; rfl
    | cons v t ih => intro pb; simp only [foldE, hg, if_true]; exact ih pb
  refine ⟨h1, ?_⟩
  intro f
  induction f with
  | nil => intro pb; simp [foldE, scanFace]
  | cons v t ih =>
    intro pb
    simp only [foldE, hg, scanFace, Bool.false_eq_true, if_false]
    cases deg[v]? with
    | none => rfl
    | some d =>
      simp only []
      by_cases hd : d < 2
      · simp only [hd, if_true]
      · simp only [hd, if_false]
        by_cases h2 : d = 2
        · simp only [h2, if_true, h1]
        · simp only [h2, if_false, ih]

/-- the outer loop `for i, f in enumerate(mesh.faces)` -/
theorem pbLoop (deg : List Nat) (g : List Nat → Nat × List Nat → Except Err (List Nat))
    (hg : ∀ pb e, g pb e = match scanFace deg e.2 with
      | .error er => .error er
      | .ok b => .ok (if b then pb ++ [e.1] else pb)) :
    ∀ (l : List (List Nat)) (k : Nat) (pb : List Nat), foldE g pb (number k l) = match mapE (scanFace deg) l with
      | .error er => .error er
      | .ok flags => .ok (pb ++ pbOf k flags) := by
  intro l
  induction l with
  | nil => intro k pb; simp [foldE, mapE, number, pbOf]
  | cons f fs ih =>
    intro k pb
    simp only [number, foldE, mapE, hg]
    cases scanFace deg f with
    | error er => rfl
    | ok b =>
      simp only [ih]
      cases mapE (scanFace deg) fs with
      | error er => rfl
      | ok flags => cases b <;> simp [pbOf]

theorem splitDoubleBoundary_bridge (m : Raw) (h2 : FacesGe2 m) :
    C13Src.splitDoubleBoundary m = Subdiv.splitDoubleBoundary m := by
  unfold C13Src.splitDoubleBoundary Subdiv.splitDoubleBoundary degrees
  simp only [bind, Except.bind]
  rw [foldE_congr _ (fun deg e => match bump deg e.1 with | .error er => .error er | .ok d => bump d e.2) (fun _ => True)
        ?hd (fun _ _ _ _ _ => trivial) _ _ trivial]
  case hd =>
    intro s e _
    rw [← bump_eq s e.1]
    cases h1 : idx s e.1 with
    | error er => rfl
    | ok t =>
      simp only []
      cases h3 : setAt s e.1 (t + 1) with
      | error er => rfl
      | ok d => simp only [pure, Except.pure]; rw [← bump_eq d e.2]; cases idx d e.2 <;> rfl
  generalize foldE (fun deg e => match bump deg e.1 with | .error er => .error er | .ok d => bump d e.2)
    (List.replicate m.verts.length 0) m.edges = rdeg
  cases rdeg with
  | error er => rfl
  | ok deg =>
    simp only []
    rw [pbLoop deg _ ?hp]
    case hp =>
      intro pb e
      rw [(scanLoop deg e.1 _ ?hs).2]
      case hs =>
        intro pb' brk v
        cases brk with
        | true => simp [pure, Except.pure]
        | false =>
          simp only [Bool.false_eq_true, if_false]
          unfold idx
          cases deg[v]? with
          | none => rfl
          | some d =>
            simp only []
            by_cases hd : d < 2
            · simp only [hd, if_true]
            · simp only [hd, if_false]
              by_cases hd2 : d = 2
              · subst hd2; simp [pure, Except.pure]
              · have : ¬ (2 = d) := fun h => hd2 h.symm
                simp [hd2, this, pure, Except.pure]
      cases scanFace deg e.2 with
      | error er => rfl
      | ok b => rfl
    cases mapE (scanFace deg) m.faces with
    | error er => rfl
    | ok flags =>
      simp only [List.nil_append]
      by_cases hpb : pbOf 0 flags = []
      · simp [hpb, pure, Except.pure]
      · simp only [hpb, ne_eq, not_false_eq_true, if_true, if_false]
        rw [foldE_congr _ Subdiv.splitFaceAsFan FacesGe2
              (fun s a hs => splitFaceAsFan_bridge s a (fun f hf => hs f (List.mem_of_getElem? hf)))
              (fun s a s' hs hg => fan_facesGe2 s s' a hg hs) _ m h2]
        cases foldE Subdiv.splitFaceAsFan m (pbOf 0 flags) <;> rfl

/-! ### what `split_double_boundary_edges_triangles` returns -/

theorem foldE_fan_runOps : ∀ (pb : List Nat) (m m1 : Raw) (i : Nat), foldE Subdiv.splitFaceAsFan m pb = .ok m1 →
    runOps m (pb.map Op.fan) i = (m1, none) ∧ m1.cells = m.cells := by
  intro pb
  induction pb with
  | nil => intro m m1 i h; simp [foldE] at h; subst h; exact ⟨rfl, rfl⟩
  | cons f fs ih =>
    intro m m1 i h
    simp only [foldE] at h
    cases hf : Subdiv.splitFaceAsFan m f with
    | error e => simp [hf] at h
    | ok m2 =>
      simp only [hf] at h
      obtain ⟨h1, h2⟩ := ih m2 m1 (i + 1) h
      obtain ⟨_, _, _, _, _, _, _, _, _, _, _, hcells⟩ := fan_spec m m2 f hf
      refine ⟨?_, by rw [h2, hcells]⟩
      simp only [List.map_cons, runOps, applyOp, hf]
      exact h1

theorem sdb_spec (m m' : Raw) (h : Subdiv.splitDoubleBoundary m = .ok m') :
    m' = m ∨ ∃ pb m1, pb ≠ [] ∧ runOps m (pb.map Op.fan) 0 = (m1, none) ∧ m1.cells = m.cells ∧ m' = prepare m1 := by
  unfold Subdiv.splitDoubleBoundary at h
  cases hd : degrees m with
  | error e => simp [hd] at h
  | ok deg =>
    simp only [hd] at h
    cases hs : mapE (scanFace deg) m.faces with
    | error e => simp [hs] at h
    | ok flags =>
      simp only [hs] at h
      by_cases hpb : pbOf 0 flags = []
      · simp only [hpb, if_true, Except.ok.injEq] at h; exact Or.inl h.symm
      · simp only [hpb, if_false] at h
        cases hf : foldE Subdiv.splitFaceAsFan m (pbOf 0 flags) with
        | error e => simp [hf] at h
        | ok m1 =>
          simp only [hf, Except.ok.injEq] at h
          obtain ⟨h1, h2⟩ := foldE_fan_runOps _ m m1 0 hf
          exact Or.inr ⟨_, m1, hpb, h1, h2, h.symm⟩

end Mouette.SubdivSrc
