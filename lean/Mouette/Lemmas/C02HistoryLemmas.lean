import Mouette.Lemmas.C02Histories
import Mouette.Lemmas.C02Prepare
/-
Histories on one object (round 3): corner records stay right when a built mesh (canonical records) gets new
elements appended and is prepared again; the same prepared data may be wrapped by any number of meshes. Core Lean only.
-/
set_option linter.unusedSimpArgs false
namespace Mouette.Prepare

theorem ownersFrom_append (a b : List (List Nat)) (i : Nat) :
    ownersFrom (a ++ b) i = ownersFrom a i ++ ownersFrom b (i + a.length) := by
  induction a generalizing i with
  | nil => simp [ownersFrom]
  | cons r rs ih =>
    simp only [List.cons_append, ownersFrom, ih, List.append_assoc, List.length_cons]
    have : i + 1 + rs.length = i + (rs.length + 1) := by omega
    rw [this]

/-- records that are canonical for a prefix `f0` of the rows are still canonical for `f0 ++ g` exactly when `g` brings
no entry; otherwise their number differs from the number of entries -/
theorem canonical_prefix (f0 g : List (List Nat))
    (hlen : f0.flatten.length = ((f0 ++ g).map List.length).sum) :
    f0.flatten = (f0 ++ g).flatten ∧ owners f0 = owners (f0 ++ g) := by
  have hg : g.flatten.length = 0 := by
    have := flatten_length_sum (f0 ++ g)
    simp only [List.flatten_append, List.length_append] at this
    omega
  have hg' : g.flatten = [] := List.eq_nil_of_length_eq_zero hg
  refine ⟨by simp [hg'], ?_⟩
  unfold owners
  rw [ownersFrom_append]
  have : ownersFrom g (0 + f0.length) = [] := by
    apply List.eq_nil_of_length_eq_zero
    rw [ownersFrom_length]; exact hg
  rw [this]; simp

/-- face corners after `genFaceCorners` are canonical whenever they were canonical for a prefix of the faces
(the n-th preparation of a used object) -/
theorem genFaceCorners_after_append (r : Raw) (f0 g : List (List Nat)) (hf : r.faces = f0 ++ g)
    (he : r.fcElem = f0.flatten) (ha : r.fcAdj = owners f0) :
    (genFaceCorners r).fcElem = r.faces.flatten ∧ (genFaceCorners r).fcAdj = owners r.faces := by
  unfold genFaceCorners
  split
  · exact ⟨rfl, rfl⟩
  · rename_i hc
    have hlen : f0.flatten.length = ((f0 ++ g).map List.length).sum := by
      have : ¬ (r.fcElem.length ≠ (r.faces.map List.length).sum) := fun h => hc (Or.inr h)
      rw [he, hf] at this; omega
    obtain ⟨h1, h2⟩ := canonical_prefix f0 g hlen
    rw [he, ha, hf]; exact ⟨h1, h2⟩

theorem genCellCorners_after_append (r : Raw) (c0 g : List (List Nat)) (hf : r.cells = c0 ++ g)
    (he : r.ccElem = c0.flatten) (ha : r.ccAdj = owners c0) :
    (genCellCorners r).ccElem = r.cells.flatten ∧ (genCellCorners r).ccAdj = owners r.cells := by
  have hl : r.ccAdj.length = r.ccElem.length := by rw [he, ha]; exact ownersFrom_length _ 0
  unfold genCellCorners
  split
  · split
    · omega
    · exact ⟨rfl, rfl⟩
  · rename_i hc
    have hlen : c0.flatten.length = ((c0 ++ g).map List.length).sum := by
      have : ¬ (r.ccElem.length ≠ (r.cells.map List.length).sum) := fun h => hc (Or.inr (Or.inr (Or.inl h)))
      rw [he, hf] at this; omega
    obtain ⟨h1, h2⟩ := canonical_prefix c0 g hlen
    rw [he, ha, hf]; exact ⟨h1, h2⟩

/-- corner containers of `appendElems`: those of the built mesh -/
theorem appendElems_fields (b : Built) (v2 e2 f2 c2) :
    (appendElems b v2 e2 f2 c2).fcElem = (rewrap b).fcElem ∧ (appendElems b v2 e2 f2 c2).fcAdj = (rewrap b).fcAdj ∧
    (appendElems b v2 e2 f2 c2).ccElem = (rewrap b).ccElem ∧ (appendElems b v2 e2 f2 c2).ccAdj = (rewrap b).ccAdj ∧
    (∃ g, (appendElems b v2 e2 f2 c2).faces = (rewrap b).faces ++ g) ∧
    (∃ g, (appendElems b v2 e2 f2 c2).cells = (rewrap b).cells ++ g) ∧
    (appendElems b v2 e2 f2 c2).prepared = false := by
  unfold appendElems
  refine ⟨rfl, rfl, rfl, rfl, ?_, ?_, rfl⟩
  · by_cases h : 2 ≤ b.dim
    · exact ⟨f2, by simp [h]⟩
    · exact ⟨[], by simp [h]⟩
  · by_cases h : 3 ≤ b.dim
    · exact ⟨c2, by simp [h]⟩
    · exact ⟨[], by simp [h]⟩

theorem rewrap_corners_canonical (b : Built)
    (hfc : b.raw.fcElem = b.raw.faces.flatten ∧ b.raw.fcAdj = owners b.raw.faces)
    (hcc : b.raw.ccElem = b.raw.cells.flatten ∧ b.raw.ccAdj = owners b.raw.cells) :
    ((rewrap b).fcElem = (rewrap b).faces.flatten ∧ (rewrap b).fcAdj = owners (rewrap b).faces) ∧
    ((rewrap b).ccElem = (rewrap b).cells.flatten ∧ (rewrap b).ccAdj = owners (rewrap b).cells) := by
  unfold rewrap
  by_cases h2 : 2 ≤ b.dim <;> by_cases h3 : 3 ≤ b.dim <;> simp [h2, h3, hfc, hcc, owners, ownersFrom]

/-- the completion stages append faces and keep cells and corner containers -/
theorem completed_faces_prefix (cfg : Cfg) (r : Raw) : ∃ g, (completed cfg r).faces = r.faces ++ g := by
  rw [completed_faces]; unfold facesAfter
  split
  · obtain ⟨ad, h, _⟩ := completeBy_prefix keyF r.faces (r.cells.flatMap cellFacesC)
    exact ⟨ad, h⟩
  · exact ⟨[], by simp⟩

/-- **n-th preparation of a used object**: a mesh whose corner records are canonical gets vertices / edges / faces /
cells appended through its containers and is built again from itself (any switches): the corner records of the result
are canonical again — one (element, owner) record per incidence in element order, for the old AND the new elements -/
theorem corner_records_after_append (cfg2 : Cfg) (b : Built) (v2 : List (List Rat)) (e2 : List (Int × Int))
    (f2 c2 : List (List Nat)) (p : Raw)
    (hfc : b.raw.fcElem = b.raw.faces.flatten ∧ b.raw.fcAdj = owners b.raw.faces)
    (hcc : b.raw.ccElem = b.raw.cells.flatten ∧ b.raw.ccAdj = owners b.raw.cells)
    (h : prepare cfg2 (appendElems b v2 e2 f2 c2) = .ok p) :
    p.fcElem = p.faces.flatten ∧ p.fcAdj = owners p.faces ∧ p.ccElem = p.cells.flatten ∧ p.ccAdj = owners p.cells := by
  obtain ⟨a1, a2, a3, a4, ⟨gf, af⟩, ⟨gc, ac⟩, a0⟩ := appendElems_fields b v2 e2 f2 c2
  obtain ⟨⟨r1, r2⟩, ⟨r3, r4⟩⟩ := rewrap_corners_canonical b hfc hcc
  obtain ⟨_, _, hf, hc, _, _, h1, h2, h3, h4⟩ := prepare_fields cfg2 _ p a0 h
  obtain ⟨c1, c2', c3, c4, _, _⟩ := completed_corners cfg2 (appendElems b v2 e2 f2 c2)
  obtain ⟨gcomp, hcomp⟩ := completed_faces_prefix cfg2 (appendElems b v2 e2 f2 c2)
  rw [h1, h2, h3, h4, hf, hc]
  unfold stages
  simp only [gcc_fcElem, gcc_fcAdj]
  have A := genFaceCorners_after_append (prepareEdges (prepareVertices (completed cfg2 (appendElems b v2 e2 f2 c2))))
    (rewrap b).faces (gf ++ gcomp)
    (by simp [hcomp, af]) (by simp [c1, a1, r1]) (by simp [c2', a2, r2])
  have B := genCellCorners_after_append
    (genFaceCorners (prepareEdges (prepareVertices (completed cfg2 (appendElems b v2 e2 f2 c2)))))
    (rewrap b).cells gc
    (by simp [completed_cells, ac]) (by simp [c3, a3, r3]) (by simp [c4, a4, r4])
  simp only [pe_faces, pv_faces, completed_faces] at A
  simp only [gfc_cells, pe_cells, pv_cells, completed_cells] at B
  exact ⟨A.1, A.2, B.1, B.2⟩

/-- the same prepared data wrapped by a second mesh of any class: nothing is recomputed, the second mesh shares
exactly the containers of the first -/
theorem direct_on_prepared (cfg cfg' : Cfg) (r p : Raw) (k : Nat) (h : prepare cfg r = .ok p) :
    direct cfg' p k = .ok ⟨k, p⟩ := by
  have hp : p.prepared = true := by
    unfold prepare at h
    split at h
    · rename_i hr; injection h with h; subst h; exact hr
    · split at h
      · injection h with h; subst h; rfl
      · cases h
  unfold direct prepare; simp [hp]

end Mouette.Prepare
