import Mouette.Lemmas.SubdivComponents3
/-
C13 (round 9): the vertex umbrella condition through `split_face_as_fan`.
A CORNER at `v` goes from the in-neighbour `p` to the out-neighbour `q` when some face has the consecutive directed sides
(p → v), (v → q).  The corners at `v` are the edges of the LINK of `v`; the umbrella condition says that the link is connected
(one fan of corners, open on the border, closed inside).
 * the corners at the NEW vertex are exactly the reversed directed sides of the split face: its link is the boundary cycle
   of the face, run backwards - one closed fan made of the sub-triangles;
 * at an OLD vertex the corners of the other faces are kept and the corner (p → v → q) of the split face is replaced by the
   two corners (p → v → new), (new → v → q): link walks of the input lift to the result.
-/
namespace Mouette.Subdiv

/-- a face has a corner at `v` going from `p` to `q` -/
def Corner (m : Raw) (v p q : Nat) : Prop := ∃ g ∈ m.faces, (p, v) ∈ cycPairs g ∧ (v, q) ∈ cycPairs g

/-- two neighbours of `v` are joined by a corner (in either direction) -/
def LinkAdj (m : Raw) (v p q : Nat) : Prop := Corner m v p q ∨ Corner m v q p

/-- walks in the link of `v` -/
def LinkConn (m : Raw) (v : Nat) : Nat → Nat → Prop := Relation.ReflTransGen (LinkAdj m v)

theorem mem_set_append_iff {α} (l r : List α) (i : Nat) (x y : α) (hi : i < l.length) :
    y ∈ l.set i x ++ r ↔ y = x ∨ (∃ j, j ≠ i ∧ l[j]? = some y) ∨ y ∈ r := by
  rw [List.mem_append, List.mem_iff_getElem?]
  constructor
  · rintro (⟨j, hj⟩ | hr)
    · by_cases hji : j = i
      · subst hji
        rw [List.getElem?_set_self hi] at hj
        exact Or.inl (Option.some.inj hj).symm
      · rw [List.getElem?_set_ne (fun e => hji e.symm)] at hj
        exact Or.inr (Or.inl ⟨j, hji, hj⟩)
    · exact Or.inr (Or.inr hr)
  · rintro (rfl | ⟨j, hji, hj⟩ | hr)
    · exact Or.inl ⟨i, by rw [List.getElem?_set_self hi]⟩
    · exact Or.inl ⟨j, by rw [List.getElem?_set_ne (fun e => hji e.symm)]; exact hj⟩
    · exact Or.inr hr

/-- the faces of the result of the fan: the faces of the input at the other positions, and one triangle per directed side
of the split face -/
theorem fan_faces_mem (m m' : Raw) (fid : Nat) (h : splitFaceAsFan m fid = .ok m') :
    ∃ f, m.faces[fid]? = some f ∧ ∀ g, g ∈ m'.faces ↔
      (∃ j, j ≠ fid ∧ m.faces[j]? = some g) ∨ ∃ s ∈ cycPairs f, g = [s.1, s.2, m.verts.length] := by
  obtain ⟨f, ps, a, b, rest, hf, _, hc, _, hfa, _, _⟩ := fan_spec m m' fid h
  refine ⟨f, hf, fun g => ?_⟩
  have hi : fid < m.faces.length := by
    by_contra hcn; rw [List.getElem?_eq_none (by omega)] at hf; cases hf
  rw [hfa, mem_set_append_iff _ _ _ _ _ hi, hc]
  simp only [List.mem_map, List.mem_cons]
  constructor
  · rintro (rfl | hj | ⟨s, hs, rfl⟩)
    · exact Or.inr ⟨(a, b), Or.inl rfl, rfl⟩
    · exact Or.inl hj
    · exact Or.inr ⟨s, Or.inr hs, rfl⟩
  · rintro (hj | ⟨s, hs | hs, rfl⟩)
    · exact Or.inr (Or.inl hj)
    · subst hs; exact Or.inl rfl
    · exact Or.inr (Or.inr ⟨s, hs, rfl⟩)

theorem tri_pairs (x y z : Nat) : cycPairs [x, y, z] = [(x, y), (y, z), (z, x)] := rfl

/-- **the corner fan of the new vertex is the boundary cycle of the split face, run backwards** -/
theorem fan_new_vertex_corners (m m' : Raw) (fid : Nat) (hwf : WF m) (h : splitFaceAsFan m fid = .ok m') :
    ∃ f, m.faces[fid]? = some f ∧ ∀ p q, Corner m' m.verts.length p q ↔ (q, p) ∈ cycPairs f := by
  obtain ⟨f, hf, hmem⟩ := fan_faces_mem m m' fid h
  have hfm : f ∈ m.faces := List.mem_of_getElem? hf
  refine ⟨f, hf, fun p q => ?_⟩
  constructor
  · rintro ⟨g, hg, h1, h2⟩
    rcases (hmem g).mp hg with ⟨j, _, hj⟩ | ⟨s, hs, rfl⟩
    · have := hwf g (List.mem_of_getElem? hj) _ (cycPairs_mem g _ h1).2
      simp at this
    · have b1 := hwf f hfm _ (cycPairs_mem f s hs).1
      have b2 := hwf f hfm _ (cycPairs_mem f s hs).2
      simp only [tri_pairs, List.mem_cons, Prod.mk.injEq, List.not_mem_nil, or_false] at h1 h2
      have e1 : p = s.2 := by rcases h1 with ⟨_, e⟩ | ⟨e, _⟩ | ⟨e, _⟩ <;> omega
      have e2 : q = s.1 := by rcases h2 with ⟨e, _⟩ | ⟨e, _⟩ | ⟨_, e⟩ <;> omega
      rw [e1, e2]; exact hs
  · intro hs
    exact ⟨[q, p, m.verts.length], (hmem _).mpr (Or.inr ⟨(q, p), hs, rfl⟩), by simp [tri_pairs], by simp [tri_pairs]⟩

/-- ... hence the link of the new vertex is connected: one closed fan through all the corners of the split face -/
theorem fan_new_vertex_umbrella (m m' : Raw) (fid : Nat) (hwf : WF m) (h : splitFaceAsFan m fid = .ok m') :
    ∃ f, m.faces[fid]? = some f ∧ ∀ u ∈ f, ∀ w ∈ f, LinkConn m' m.verts.length u w := by
  obtain ⟨f, hf, hc⟩ := fan_new_vertex_corners m m' fid hwf h
  refine ⟨f, hf, ?_⟩
  cases f with
  | nil => intro u hu; simp at hu
  | cons a t =>
    have hall : ∀ w ∈ a :: t, LinkConn m' m.verts.length a w := by
      apply cycGo_chain (LinkAdj m' m.verts.length) a t a
      intro s hs
      exact Or.inr ((hc s.2 s.1).mpr (by simpa [cycPairs] using hs))
    intro u hu w hw
    have hsymm : ∀ x y, LinkConn m' m.verts.length x y → LinkConn m' m.verts.length y x := by
      intro x y hxy
      induction hxy with
      | refl => exact Relation.ReflTransGen.refl
      | tail _ hbc ih => exact Relation.ReflTransGen.head (Or.symm hbc) ih
    exact (hsymm _ _ (hall u hu)).trans (hall w hw)

/-- **old vertices**: the corners of the faces that are not split are kept, the corner (p → v → q) of the split face is replaced
by the two corners (p → v → new) and (new → v → q) -/
theorem fan_old_vertex_corners (m m' : Raw) (fid : Nat) (hwf : WF m) (hn : ∀ f ∈ m.faces, ∀ s ∈ cycPairs f, s.1 ≠ s.2)
    (h : splitFaceAsFan m fid = .ok m') :
    ∃ f, m.faces[fid]? = some f ∧ ∀ v p q, v < m.verts.length →
      (Corner m' v p q ↔
        (∃ j g, j ≠ fid ∧ m.faces[j]? = some g ∧ (p, v) ∈ cycPairs g ∧ (v, q) ∈ cycPairs g) ∨
        (q = m.verts.length ∧ (p, v) ∈ cycPairs f) ∨ (p = m.verts.length ∧ (v, q) ∈ cycPairs f)) := by
  obtain ⟨f, hf, hmem⟩ := fan_faces_mem m m' fid h
  have hfm : f ∈ m.faces := List.mem_of_getElem? hf
  refine ⟨f, hf, fun v p q hv => ?_⟩
  constructor
  · rintro ⟨g, hg, h1, h2⟩
    rcases (hmem g).mp hg with ⟨j, hj1, hj⟩ | ⟨s, hs, rfl⟩
    · exact Or.inl ⟨j, g, hj1, hj, h1, h2⟩
    · have b1 := hwf f hfm _ (cycPairs_mem f s hs).1
      have b2 := hwf f hfm _ (cycPairs_mem f s hs).2
      have hd := hn f hfm s hs
      simp only [tri_pairs, List.mem_cons, Prod.mk.injEq, List.not_mem_nil, or_false] at h1 h2
      rcases h1 with ⟨e1, e2⟩ | ⟨e1, e2⟩ | ⟨e1, e2⟩
      · -- (p, v) = (s.1, s.2): the corner at s.2 goes on to the new vertex
        rcases h2 with ⟨e3, e4⟩ | ⟨e3, e4⟩ | ⟨e3, e4⟩
        · omega
        · exact Or.inr (Or.inl ⟨e4, by rw [e1, e2]; exact hs⟩)
        · omega
      · omega
      · -- (p, v) = (new, s.1): the corner at s.1 comes from the new vertex
        rcases h2 with ⟨e3, e4⟩ | ⟨e3, e4⟩ | ⟨e3, e4⟩
        · exact Or.inr (Or.inr ⟨e1, by rw [e3, e4]; exact hs⟩)
        · omega
        · omega
  · rintro (⟨j, g, hj1, hj, h1, h2⟩ | ⟨rfl, hs⟩ | ⟨rfl, hs⟩)
    · exact ⟨g, (hmem g).mpr (Or.inl ⟨j, hj1, hj⟩), h1, h2⟩
    · exact ⟨[p, v, m.verts.length], (hmem _).mpr (Or.inr ⟨(p, v), hs, rfl⟩), by simp [tri_pairs], by simp [tri_pairs]⟩
    · exact ⟨[v, q, m.verts.length], (hmem _).mpr (Or.inr ⟨(v, q), hs, rfl⟩), by simp [tri_pairs], by simp [tri_pairs]⟩

/-- ... hence the fan of an old vertex stays one fan: link walks of the input lift to the result (through the new vertex
where the split face's corner was) -/
theorem fan_old_vertex_umbrella (m m' : Raw) (fid : Nat) (hwf : WF m) (hn : ∀ f ∈ m.faces, ∀ s ∈ cycPairs f, s.1 ≠ s.2)
    (h : splitFaceAsFan m fid = .ok m') (v : Nat) (hv : v < m.verts.length) (a b : Nat) (hc : LinkConn m v a b) :
    LinkConn m' v a b := by
  obtain ⟨f, hf, hcor⟩ := fan_old_vertex_corners m m' fid hwf hn h
  have step : ∀ p q, Corner m v p q → LinkConn m' v p q := by
    rintro p q ⟨g, hg, h1, h2⟩
    obtain ⟨j, hj⟩ := List.mem_iff_getElem?.mp hg
    by_cases hjf : j = fid
    · subst hjf
      have : g = f := Option.some.inj (hj.symm.trans hf)
      subst this
      have c1 : Corner m' v p m.verts.length := (hcor v p _ hv).mpr (Or.inr (Or.inl ⟨rfl, h1⟩))
      have c2 : Corner m' v m.verts.length q := (hcor v _ q hv).mpr (Or.inr (Or.inr ⟨rfl, h2⟩))
      exact (Relation.ReflTransGen.single (show LinkAdj m' v p m.verts.length from Or.inl c1)).tail
        (show LinkAdj m' v m.verts.length q from Or.inl c2)
    · exact Relation.ReflTransGen.single (show LinkAdj m' v p q from Or.inl ((hcor v p q hv).mpr (Or.inl ⟨j, g, hjf, hj, h1, h2⟩)))
  have hsymm : ∀ x y, LinkConn m' v x y → LinkConn m' v y x := by
    intro x y hxy
    induction hxy with
    | refl => exact Relation.ReflTransGen.refl
    | tail _ hbc ih => exact Relation.ReflTransGen.head (Or.symm hbc) ih
  induction hc with
  | refl => exact Relation.ReflTransGen.refl
  | tail _ hbc ih =>
    rcases hbc with hbc | hbc
    · exact ih.trans (step _ _ hbc)
    · exact ih.trans (hsymm _ _ (step _ _ hbc))

end Mouette.Subdiv
