import Mouette.Lemmas.VolBorder
/-!
The boundary surface is closed: every pair of distinct vertices lies in an even number of border faces
(`∂∂ = 0 (mod 2)`: in a tetrahedron an edge lies in exactly 2 of the 4 faces; a face in two cells cancels).
-/
namespace Mouette.Vol
open Mesh

/-- both end points of the (undirected) edge `{u,v}` are vertices of `F` -/
def hasEdge (F : List Nat) (u v : Nat) : Bool := F.contains u && F.contains v

theorem hasEdge_perm {F G : List Nat} (h : F.Perm G) (u v : Nat) : hasEdge F u v = hasEdge G u v := by
  unfold hasEdge
  have hu : F.contains u = G.contains u := by
    rw [Bool.eq_iff_iff]; simp [h.mem_iff]
  have hv : F.contains v = G.contains v := by
    rw [Bool.eq_iff_iff]; simp [h.mem_iff]
  rw [hu, hv]

theorem hasEdge_comm (F : List Nat) (u v : Nat) : hasEdge F u v = hasEdge F v u := by
  unfold hasEdge; exact Bool.and_comm _ _

/-! ### generic sums over lists -/

theorem sum_map_add' {α : Type} (l : List α) (g h : α → Nat) :
    (l.map fun x => g x + h x).sum = (l.map g).sum + (l.map h).sum := by
  induction l with
  | nil => rfl
  | cons a t ih => simp only [List.map_cons, List.sum_cons, ih]; omega

theorem sum_range_ite_eq (n a c : Nat) :
    ((List.range n).map fun f => if f = a then c else 0).sum = if a < n then c else 0 := by
  induction n with
  | zero => simp
  | succ n ih =>
    rw [List.range_succ, List.map_append, List.sum_append, ih]
    by_cases h1 : a < n
    · have : n ≠ a := by omega
      simp [h1, this]; omega
    · by_cases h2 : n = a
      · subst h2; simp
      · have : ¬ a < n + 1 := by omega
        simp [h1, h2, this]

theorem sum_map_mod2 {α : Type} (l : List α) (g h : α → Nat) (hgh : ∀ x ∈ l, g x % 2 = h x % 2) :
    (l.map g).sum % 2 = (l.map h).sum % 2 := by
  induction l with
  | nil => rfl
  | cons a t ih =>
    simp only [List.map_cons, List.sum_cons]
    have h1 := hgh a (by simp)
    have h2 := ih (fun x hx => hgh x (by simp [hx]))
    omega

theorem sum_map_ite_one {α : Type} (l : List α) (q : α → Bool) :
    (l.map fun x => if q x then 1 else 0).sum = (l.filter q).length := by
  induction l with
  | nil => rfl
  | cons a t ih =>
    simp only [List.map_cons, List.sum_cons, List.filter_cons, ih]
    by_cases h : q a <;> simp [h]; omega

theorem length_filter_flatMap {α β : Type} (l : List α) (g : α → List β) (p : β → Bool) :
    ((l.flatMap g).filter p).length = (l.map fun x => ((g x).filter p).length).sum := by
  induction l with
  | nil => rfl
  | cons a t ih => simp only [List.flatMap_cons, List.filter_append, List.length_append, List.map_cons, List.sum_cons, ih]

/-- regrouping a list of (key, value) pairs by key -/
theorem length_filter_fst (n : Nat) (P : Nat → Bool) (ps : List (Nat × Nat)) (hps : ∀ p ∈ ps, p.1 < n) :
    (ps.filter fun p => P p.1).length
      = ((List.range n).map fun f => if P f then (ps.filter fun p => p.1 == f).length else 0).sum := by
  induction ps with
  | nil => simp
  | cons p t ih =>
    have hp : p.1 < n := hps p (by simp)
    have iht := ih (fun q hq => hps q (by simp [hq]))
    have hfun : (fun f => if P f then ((p :: t).filter fun q => q.1 == f).length else 0)
        = fun f => (if P f then (t.filter fun q => q.1 == f).length else 0) + (if f = p.1 then (if P p.1 then 1 else 0) else 0) := by
      funext f
      by_cases hf : f = p.1
      · subst hf; by_cases hP : P p.1 <;> simp [hP]
      · have : (p.1 == f) = false := by simpa using fun h => hf h.symm
        by_cases hP : P f <;> simp [hP, this, hf]
    rw [hfun, sum_map_add', sum_range_ite_eq, ← iht]
    by_cases hP : P p.1 <;> simp [hP, hp]

/-! ### a tetrahedron edge lies in exactly two of the four faces -/

theorem count_subfaces_with_edge {C : List Nat} (h4 : C.length = 4) (hn : C.Nodup) {u v : Nat} (huv : u ≠ v) :
    ((List.range 4).filter fun i => hasEdge (C.eraseIdx i) u v).length = if u ∈ C ∧ v ∈ C then 2 else 0 := by
  match C, h4 with
  | [a, b, c, d], _ =>
    simp only [List.nodup_cons, List.mem_cons, List.not_mem_nil, or_false, not_or, List.nodup_nil, and_true] at hn
    obtain ⟨⟨hab, hac, had⟩, ⟨hbc, hbd⟩, hcd⟩ := hn
    have hr : List.range 4 = [0, 1, 2, 3] := by decide
    rw [hr]
    simp only [List.filter_cons, List.filter_nil, hasEdge, List.eraseIdx_cons_zero, List.eraseIdx_cons_succ,
      List.contains_cons, List.contains_nil, Bool.or_false, List.mem_cons, List.not_mem_nil, or_false]
    by_cases hua : u = a <;> by_cases hub : u = b <;> by_cases huc : u = c <;> by_cases hud : u = d <;>
    by_cases hva : v = a <;> by_cases hvb : v = b <;> by_cases hvc : v = c <;> by_cases hvd : v = d <;>
    simp_all

/-! ### the counting argument -/

variable {m : Mesh}

theorem fst_lt_of_mem_cellAdjPairs (h : Conforming m) {p : Nat × Nat} (hp : p ∈ m.cellAdjPairs) : p.1 < m.nF := by
  rcases p with ⟨f, c⟩
  obtain ⟨hc, hf⟩ := mem_cellAdjPairs.1 hp
  obtain ⟨i, hi, hfi⟩ := mem_cellToFace.1 hf
  obtain ⟨g, hg⟩ := Option.isSome_iff_exists.1 (h.faceFound c hc i hi)
  have : m.faceIdD (subFace (m.cell c) i) = g := by unfold Mesh.faceIdD; rw [hg]; rfl
  rw [← hfi, this]; exact faceId_lt hg

/-- incidences (stored face, cell) whose face contains `u` and `v` -/
def edgeIncidences (m : Mesh) (u v : Nat) : Nat :=
  (m.cellAdjPairs.filter fun p => hasEdge (m.face p.1) u v).length

/-- per cell: 0 or 2 of its faces contain `u` and `v` -/
theorem cell_incidences (h : Conforming m) {u v c : Nat} (huv : u ≠ v) (hc : c < m.nC) :
    (((m.cellToFace c).map fun f => (f, c)).filter fun p => hasEdge (m.face p.1) u v).length
      = if u ∈ m.cell c ∧ v ∈ m.cell c then 2 else 0 := by
  rw [← count_subfaces_with_edge (h.cell4 c hc) (h.cellNodup c hc) huv]
  unfold Mesh.cellToFace
  rw [List.map_map, List.filter_map, List.length_map]
  congr 1
  apply List.filter_congr
  intro i hi
  have hi4 : i < 4 := List.mem_range.1 hi
  obtain ⟨f, hf, hget, hperm⟩ := cellToFace_spec h.faceKeys h.faceFound hc hi4
  have hfi : m.faceIdD (subFace (m.cell c) i) = f := by
    unfold Mesh.cellToFace at hget
    rw [List.getElem?_map, List.getElem?_range hi4] at hget
    simpa using hget
  simp only [Function.comp]
  rw [hfi]
  exact hasEdge_perm hperm u v

/-- the number of incidences is even -/
theorem edgeIncidences_even (h : Conforming m) {u v : Nat} (huv : u ≠ v) : edgeIncidences m u v % 2 = 0 := by
  unfold edgeIncidences Mesh.cellAdjPairs
  rw [length_filter_flatMap]
  have := sum_map_mod2 (List.range m.nC)
    (fun c => (((m.cellToFace c).map fun f => (f, c)).filter fun p => hasEdge (m.face p.1) u v).length)
    (fun _ => 0) (by
      intro c hc
      rw [cell_incidences h huv (List.mem_range.1 hc)]
      split <;> rfl)
  rw [this]
  simp

/-- regrouped by stored face: each face containing `u,v` counts once per incident cell -/
theorem edgeIncidences_by_face (h : Conforming m) (u v : Nat) :
    edgeIncidences m u v
      = ((List.range m.nF).map fun f => if hasEdge (m.face f) u v then (m.conn.faceToCells f).length else 0).sum := by
  unfold edgeIncidences
  rw [length_filter_fst m.nF (fun f => hasEdge (m.face f) u v) m.cellAdjPairs (fun p hp => fst_lt_of_mem_cellAdjPairs h hp)]
  congr 1
  apply List.map_congr_left
  intro f hf
  have hfl : f < m.nF := List.mem_range.1 hf
  have : m.conn.faceToCells f = (m.cellAdjPairs.filter fun kv => kv.1 == f).map (·.2) := by
    unfold Conn.faceToCells Mesh.conn
    rw [buckets_getD]; simp [hfl]
  rw [this, List.length_map]

/-- **closedness, on the volume side**: the number of border faces containing two given distinct vertices is even -/
theorem border_faces_with_edge_even (h : Conforming m) {u v : Nat} (huv : u ≠ v) :
    (m.conn.boundaryFaces.filter fun f => hasEdge (m.face f) u v).length % 2 = 0 := by
  have he := edgeIncidences_even h huv
  rw [edgeIncidences_by_face h u v] at he
  have hmod := sum_map_mod2 (List.range m.nF)
    (fun f => if hasEdge (m.face f) u v then (m.conn.faceToCells f).length else 0)
    (fun f => if (hasEdge (m.face f) u v && m.conn.isFaceOnBorder f) then 1 else 0) (by
      intro f hf
      have hfl : f < m.nF := List.mem_range.1 hf
      have h2 := h.atMostTwo f hfl
      have h1 : (m.conn.faceToCells f).length ≠ 0 := by
        intro h0; exact faceToCells_ne_nil h hfl (List.length_eq_zero_iff.1 h0)
      unfold Conn.isFaceOnBorder
      by_cases hP : hasEdge (m.face f) u v
      · by_cases hb : (m.conn.faceToCells f).length < 2
        · have : (m.conn.faceToCells f).length = 1 := by omega
          simp [hP, this]
        · have : (m.conn.faceToCells f).length = 2 := by omega
          simp [hP, this]
      · simp [hP])
  rw [hmod, sum_map_ite_one] at he
  unfold Conn.boundaryFaces
  rw [List.filter_filter]
  exact he

end Mouette.Vol
