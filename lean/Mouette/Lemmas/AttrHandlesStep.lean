import Mouette.Lemmas.AttrHandles
/-
Every operation of the extended model preserves the storage invariant, the mode invariant and the handle invariant.
-/
namespace Mouette.Attr
set_option linter.unusedSimpArgs false
set_option linter.unusedVariables false

theorem fresh_none {s s' : State} (hl : s.heap.length ≤ s'.heap.length) (ha : s'.attr = none) : Fresh s s' :=
  ⟨hl, fun a' h => by rw [ha] at h; cases h⟩

theorem fresh_mkAttr (dense : Bool) (s : State) (ty : Ty) (k : Nat) (d : Scalar) : Fresh s (mkAttr dense s ty k d) := by
  cases dense with
  | false =>
    refine ⟨by simp [mkAttr], ?_⟩
    intro a' ha'; simp [mkAttr] at ha'; rw [← ha']; simp only; intro p hp; cases hp
  | true =>
    refine ⟨by simp [mkAttr], ?_⟩
    intro a' ha'; simp [mkAttr] at ha'; rw [← ha']; simp only; exact Nat.le_refl _

theorem fresh_clear {s : State} {a : Attr} (ha : s.attr = some a) :
    Fresh s { s with heap := (clearAttr s.heap a).1, attr := some (clearAttr s.heap a).2 } := by
  cases hst : a.store with
  | sparse data =>
    refine ⟨by simp [clearAttr, hst], ?_⟩
    intro a' ha'; simp [clearAttr, hst] at ha'; rw [← ha']; simp only; intro p hp; cases hp
  | dense n arr =>
    refine ⟨by simp [clearAttr, hst], ?_⟩
    intro a' ha'; simp [clearAttr, hst] at ha'; rw [← ha']; simp only; exact Nat.le_refl _

theorem ext_put {s s' : State} {a a' : Attr} {i : Int} {v : Val} (ha : s.attr = some a)
    (hp : put s a i v = .ok (s', a')) : Ext s { s' with attr := some a' } := by
  unfold put at hp
  cases hst : a.store with
  | sparse data =>
    rw [hst] at hp; simp only at hp
    injection hp with hp; injection hp with h1 h2; subst h1; subst h2
    refine ⟨by simp, ?_⟩
    intro a'' ha''; simp only at ha''; injection ha'' with ha''; rw [← ha'']; simp only
    intro p hp
    rcases mem_dinsert hp with h | h
    · left; rw [h]; exact Nat.le_refl _
    · right; exact ⟨a, data, ha, hst, h⟩
  | dense n arr =>
    rw [hst] at hp; simp only at hp
    by_cases hb : oobGuard i n = true
    · rw [if_pos hb] at hp; cases hp
    · rw [if_neg hb] at hp
      injection hp with hp; injection hp with h1 h2; subst h1; subst h2
      refine ⟨by simp, ?_⟩
      intro a'' ha''; simp only at ha''; injection ha'' with ha''; rw [← ha'', hst]; simp only
      right; exact ⟨a, n, ha, hst⟩

theorem ext_grow (s : State) (m : Nat) : Ext s (grow s m) := by
  cases ha : s.attr with
  | none => rw [grow_none ha]; exact ⟨Nat.le_refl _, fun a' h => by simp only at h; rw [ha] at h; cases h⟩
  | some a =>
    rw [grow_some ha]
    cases hst : a.store with
    | sparse data =>
      refine ⟨by simp [expandAttr, hst], ?_⟩
      intro a' ha'; simp [expandAttr, hst] at ha'; rw [← ha', hst]; simp only
      intro p hp; right; exact ⟨a, data, ha, hst, hp⟩
    | dense n arr =>
      refine ⟨by simp [expandAttr, hst], ?_⟩
      intro a' ha'; simp [expandAttr, hst] at ha'; rw [← ha']; simp only
      left; exact Nat.le_refl _

theorem get_len {s s' : State} {a : Attr} {i : Int} {hd : Handle} {v : Val} (hg : get s a i = .ok (s', hd, v)) :
    s.heap.length ≤ s'.heap.length ∧ s'.attr = s.attr := by
  unfold get at hg
  cases hst : a.store with
  | sparse data =>
    rw [hst] at hg; simp only at hg
    cases hl : data.lookup i with
    | some r => rw [hl] at hg; simp only at hg; injection hg with hg; injection hg with h1 _; subst h1; exact ⟨Nat.le_refl _, rfl⟩
    | none => rw [hl] at hg; simp only at hg; injection hg with hg; injection hg with h1 _; subst h1; exact ⟨by simp, rfl⟩
  | dense n arr =>
    rw [hst] at hg; simp only at hg
    by_cases hb : oobGuard i n = true
    · rw [if_pos hb] at hg; cases hg
    · rw [if_neg hb] at hg; injection hg with hg; injection hg with h1 _; subst h1; exact ⟨Nat.le_refl _, rfl⟩

/-- every base operation extends the state; the invalidating ones, when they succeed, leave only fresh references -/
theorem ext_step (dense : Bool) (s : State) (op : Op) :
    Ext s (step dense s op).1 ∧ (op.invalidates = true → (step dense s op).2.isOk = true → Fresh s (step dense s op).1) := by
  cases op with
  | create ty k d =>
    cases d with
    | none => rw [step_create_none]; exact ⟨ext_of_fresh (fresh_mkAttr ..), fun _ _ => fresh_mkAttr ..⟩
    | some x =>
      by_cases h : x.ty = ty
      · rw [step_create_some_ok h]; exact ⟨ext_of_fresh (fresh_mkAttr ..), fun _ _ => fresh_mkAttr ..⟩
      · rw [step_create_some_bad h]; exact ⟨ext_refl s, fun _ h => by simp [Obs.isOk] at h⟩
  | delete =>
    have : Fresh s (step dense s .delete).1 := fresh_none (Nat.le_refl _) rfl
    exact ⟨ext_of_fresh this, fun _ _ => this⟩
  | cclear =>
    have : Fresh s (step dense s .cclear).1 := fresh_none (Nat.le_refl _) rfl
    exact ⟨ext_of_fresh this, fun _ _ => this⟩
  | append => exact ⟨ext_grow s 1, fun h => by simp [Op.invalidates] at h⟩
  | extendList n => exact ⟨ext_grow s n, fun h => by simp [Op.invalidates] at h⟩
  | extendCont m => exact ⟨ext_grow s m, fun h => by simp [Op.invalidates] at h⟩
  | extendSelf => exact ⟨ext_grow s s.size, fun h => by simp [Op.invalidates] at h⟩
  | set i v =>
    refine ⟨?_, fun h => by simp [Op.invalidates] at h⟩
    cases ha : s.attr with
    | none => rw [step_set_none ha]; exact ext_refl s
    | some a =>
      cases hb : boundsFail a i with
      | true => rw [step_set_oob ha hb]; exact ext_refl s
      | false =>
        cases hc : checkVal a.ty a.k v with
        | error e => rw [step_set_bad ha hb hc]; exact ext_refl s
        | ok val =>
          obtain ⟨s', a', hp⟩ := put_ok_of_guard (s := s) val hb
          rw [step_set_ok ha hb hc hp]; exact ext_put ha hp
  | get i =>
    refine ⟨?_, fun h => by simp [Op.invalidates] at h⟩
    cases ha : s.attr with
    | none => rw [step_get_none ha]; exact ext_refl s
    | some a =>
      cases hg : get s a i with
      | error e => rw [step_get_err ha hg]; exact ext_refl s
      | ok r =>
        obtain ⟨s', hd, v⟩ := r
        rw [step_get_ok ha hg]
        obtain ⟨h1, h2⟩ := get_len hg
        exact ext_of_attr_eq h2 h1
  | upd i c x =>
    refine ⟨?_, fun h => by simp [Op.invalidates] at h⟩
    cases ha : s.attr with
    | none => rw [step_mut_none ha]; exact ext_refl s
    | some a =>
      cases hg : get s a i with
      | error e => rw [step_mut_err ha hg]; exact ext_refl s
      | ok r =>
        obtain ⟨s', hd, v⟩ := r
        obtain ⟨h1, h2⟩ := get_len hg
        by_cases hk : a.k > 1
        · by_cases hc : c < a.k
          · rw [step_mut_ok ha hg hk hc]
            exact ext_of_attr_eq h2 (by simp only [mutate_length]; exact h1)
          · rw [step_mut_index ha hg hk hc]; exact ext_of_attr_eq h2 h1
        · rw [step_mut_scalar ha hg hk]; exact ext_of_attr_eq h2 h1
  | clear =>
    cases ha : s.attr with
    | none => rw [step_clear_none ha]; exact ⟨ext_refl s, fun _ h => by simp [Obs.isOk] at h⟩
    | some a => rw [step_clear_some ha]; exact ⟨ext_of_fresh (fresh_clear ha), fun _ _ => fresh_clear ha⟩
  | asArray =>
    refine ⟨?_, fun h => by simp [Op.invalidates] at h⟩
    cases ha : s.attr with
    | none => rw [step_arr_none ha]; exact ext_refl s
    | some a =>
      cases hr : asArray s a with
      | ok rows => rw [step_arr_ok ha hr]; exact ext_refl s
      | error e => rw [step_arr_err ha hr]; exact ext_refl s

end Mouette.Attr
