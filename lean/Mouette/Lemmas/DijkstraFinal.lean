import Mouette.Lemmas.DijkstraInv
/-
Consequences of the invariant: termination within fuel, back-tracking, optimality, the virtual sink.
-/
namespace Mouette.Dijkstra
open Mouette.PQ

/-! ### termination of the outer loop within `fuel` -/

/-- Σ deg over the unvisited ids `< n` -/
def unvDeg (adj : Adj) (vis : Nat → Bool) : Nat → Nat
  | 0 => 0
  | n+1 => unvDeg adj vis n + (if vis n then 0 else (adj n).length)

def measure (adj : Adj) (n : Nat) (s : State) : Nat := s.queue.length + unvDeg adj s.visited n

theorem unvDeg_upd_ge (adj : Adj) (vis : Nat → Bool) (v : Nat) : ∀ n, n ≤ v → unvDeg adj (upd vis v true) n = unvDeg adj vis n
  | 0, _ => rfl
  | n+1, h => by
    unfold unvDeg
    rw [unvDeg_upd_ge adj vis v n (by omega), upd_ne _ _ (by omega : n ≠ v)]

theorem unvDeg_upd (adj : Adj) (vis : Nat → Bool) (v : Nat) (hv : vis v = false) :
    ∀ n, v < n → unvDeg adj (upd vis v true) n + (adj v).length = unvDeg adj vis n
  | 0, h => by omega
  | n+1, h => by
    unfold unvDeg
    by_cases hvn : v = n
    · subst hvn
      rw [unvDeg_upd_ge adj vis v v (le_refl _)]
      simp [hv]
    · have := unvDeg_upd adj vis v hv n (by omega)
      rw [upd_ne _ _ (Ne.symm hvn)]
      omega

theorem unvDeg_init (adj : Adj) : ∀ n, unvDeg adj (fun _ => false) n = degSum adj n
  | 0 => rfl
  | n+1 => by unfold unvDeg degSum; rw [unvDeg_init adj n]; simp

theorem step_measure {pop : Pop} {adj : Adj} {start n : Nat} (hpop : PopOK pop) {s s' : State}
    (R : Reach adj start n s) (hstep : step pop adj s = some s') : measure adj n s' + 1 ≤ measure adj n s := by
  obtain ⟨v0, b, order, I⟩ := R
  unfold step at hstep
  cases hp : pop s.queue with
  | none => rw [hp] at hstep; simp at hstep
  | some r =>
    obtain ⟨e, q'⟩ := r
    rw [hp] at hstep
    simp only at hstep
    have hlen : q'.length + 1 = s.queue.length := by
      have := (hpop.perm _ _ _ hp).length_eq
      simpa using this
    by_cases hvis : s.visited e.1 = true
    · rw [if_pos hvis] at hstep
      simp at hstep; subst hstep
      unfold measure
      simp only
      omega
    · rw [if_neg hvis] at hstep
      simp at hstep; subst hstep
      have hvis' : s.visited e.1 = false := by simpa using hvis
      have hmem : (e.1, e.2) ∈ s.queue := by
        rw [← (hpop.perm _ _ _ hp).mem_iff]; simp
      have hvn : e.1 < n := (I.q_ok _ _ hmem).1
      unfold measure
      rw [fold_visited]
      have h1 := fold_queue_len e.1 (adj e.1)
        { s with visited := upd s.visited e.1 true, queue := q' }
      have h2 := unvDeg_upd adj s.visited e.1 hvis' n hvn
      simp only at h1 ⊢
      omega

theorem iter_queue_empty {pop : Pop} {adj : Adj} {start n : Nat} (hpop : PopOK pop) (hnn : NonNeg adj) (hwf : WF adj n) :
    ∀ (f : Nat) (s : State), Reach adj start n s → measure adj n s ≤ f → (iter pop adj f s).queue = []
  | 0, s, _, h => by
    unfold measure at h
    have : s.queue.length = 0 := by omega
    simpa [iter] using this
  | f+1, s, R, h => by
    unfold iter
    cases hs : step pop adj s with
    | none =>
      simp only
      unfold step at hs
      cases hp : pop s.queue with
      | none => exact (hpop.none_iff _).mp hp
      | some r =>
        rw [hp] at hs
        simp only at hs
        split at hs <;> simp at hs
    | some s' =>
      simp only
      have := step_measure hpop R hs
      exact iter_queue_empty hpop hnn hwf f s' (reach_step hpop hnn hwf R hs) (by omega)

theorem measure_init (adj : Adj) (n start : Nat) : measure adj n (init start) = fuel adj n := by
  unfold measure fuel init
  simp [unvDeg_init]

/-! ### final states -/

/-- a final state: reachable from `init` by loop iterations, queue empty -/
structure Final (adj : Adj) (start n : Nat) (s : State) : Prop where
  reach : Reach adj start n s
  empty : s.queue = []

theorem final_run {pop : Pop} {adj : Adj} {start n : Nat} (hpop : PopOK pop) (hnn : NonNeg adj) (hwf : WF adj n)
    (hs : start < n) : Final adj start n (run pop adj n start) :=
  ⟨reach_iter hpop hnn hwf _ _ (reach_init adj hs),
   iter_queue_empty hpop hnn hwf _ _ (reach_init adj hs) (le_of_eq (measure_init adj n start))⟩

theorem Final.visited_of_dist {adj : Adj} {start n : Nat} {s : State} (F : Final adj start n s) {x : Nat} {dx : Rat}
    (h : s.dist x = some dx) : s.visited x = true := by
  obtain ⟨v, b, order, I⟩ := F.reach
  cases hv : s.visited x with
  | true => rfl
  | false =>
    have := (I.unv x dx hv h).2
    rw [F.empty] at this
    simp at this

/-- Bellman's condition at the end gives the lower bound: every path from a labelled vertex `a` to `t` weighs at
least `dist t − dist a`. -/
theorem Final.lower_bound {adj : Adj} {start n : Nat} {s : State} (F : Final adj start n s) {a t : Nat} {l : List Nat}
    {W : Rat} (hp : PathW adj a t l W) : ∀ da, s.dist a = some da → ∃ dt, s.dist t = some dt ∧ dt ≤ da + W := by
  obtain ⟨v, b, order, I⟩ := F.reach
  induction hp with
  | single a => intro da h; exact ⟨da, h, by linarith⟩
  | @cons a b' t l w W hab _ ih =>
    intro da hda
    have hva := F.visited_of_dist hda
    rcases I.edges a hva _ hab with ⟨_, hm⟩ | ⟨dx, du, h1, h2, h3⟩
    · simp at hm
    · rw [hda] at h2
      simp at h2; subst h2
      obtain ⟨dt, hdt, hle⟩ := ih dx h1
      simp only at h3
      exact ⟨dt, hdt, by linarith⟩

/-! ### back-tracking -/

/-- rank used for the termination of back-tracking -/
noncomputable def rk (s : State) (order : List Nat) (u : Nat) : Nat :=
  if s.visited u = true then order.idxOf u else order.length

theorem back_ok {adj : Adj} {start n v : Nat} {b : Rat} {order : List Nat} {s : State}
    (I : Inv adj start n v [] b order s) (t : Nat) :
    ∀ (f u : Nat) (acc : List Nat) (du W : Rat), rk s order u < f → s.dist u = some du →
      PathW adj u t (u :: acc) W → (u :: acc).Nodup → (∀ x ∈ acc, rk s order u < rk s order x) →
      ∃ l, back s.pred start f u acc = .ok l ∧ PathW adj start t l (du + W) ∧ l.Nodup
  | 0, _, _, _, _, h, _, _, _, _ => by omega
  | f+1, u, acc, du, W, hf, hdu, hp, hnd, hacc => by
    unfold back
    by_cases hus : u = start
    · subst hus
      rw [if_pos rfl]
      rw [I.dist_start] at hdu
      simp at hdu; subst hdu
      refine ⟨u :: acc, rfl, ?_, hnd⟩
      simpa using hp
    · rw [if_neg hus]
      obtain ⟨p, hpu⟩ := I.pred_some u du hus hdu
      rw [hpu]
      simp only
      obtain ⟨hvp, _, ⟨w, dp, hmem, hdp, hdu'⟩, hidx⟩ := I.pred_ok u p hpu
      have hpo : p ∈ order := (I.vis_iff p).mp hvp
      have hrk : rk s order p < rk s order u := by
        unfold rk
        rw [if_pos hvp]
        by_cases hvu : s.visited u = true
        · rw [if_pos hvu]; exact hidx hvu
        · rw [if_neg hvu]; exact List.idxOf_lt_length_iff.mpr hpo
      rw [hdu] at hdu'
      simp at hdu'; subst hdu'
      have hpath : PathW adj p t (p :: u :: acc) (w + W) := PathW.cons hmem hp
      have hnd' : (p :: u :: acc).Nodup := by
        refine List.nodup_cons.mpr ⟨?_, hnd⟩
        intro hm
        rcases List.mem_cons.mp hm with h | h
        · subst h; omega
        · have := hacc p h; omega
      have hacc' : ∀ x ∈ u :: acc, rk s order p < rk s order x := by
        intro x hx
        rcases List.mem_cons.mp hx with h | h
        · subst h; exact hrk
        · have := hacc x h; omega
      obtain ⟨l, hl, hpl, hndl⟩ := back_ok I t f p (u :: acc) dp (w + W) (by omega) hdp hpath hnd' hacc'
      refine ⟨l, hl, ?_, hndl⟩
      have e : dp + w + W = dp + (w + W) := add_assoc _ _ _
      rw [e]; exact hpl

theorem rk_le {adj : Adj} {start n v : Nat} {b : Rat} {order : List Nat} {s : State}
    (I : Inv adj start n v [] b order s) (u : Nat) : rk s order u ≤ n := by
  have hlen := nodup_length_le I.order_nodup I.vis_lt
  unfold rk
  split
  · have : List.idxOf u order ≤ order.length := List.idxOf_le_length
    omega
  · exact hlen

/-- P0: for every labelled (= reachable) target the back-tracking terminates within fuel `n+1` and yields a
duplicate-free path from `start` to `t` along adjacencies whose weight is the label. -/
theorem Final.path_valid {adj : Adj} {start n : Nat} {s : State} (F : Final adj start n s) {t : Nat} {d : Rat}
    (h : s.dist t = some d) :
    ∃ l, pathTo s n start t = .ok l ∧ PathW adj start t l d ∧ l.Nodup := by
  obtain ⟨v, b, order, I⟩ := F.reach
  have := back_ok I t (n + 1) t [] d 0 (by have := rk_le I t; omega) h (PathW.single t) (by simp) (by simp)
  simpa [pathTo] using this

/-- unlabelled target: the code reads `path[None]` -/
theorem Final.path_keyError {adj : Adj} {start n : Nat} {s : State} (F : Final adj start n s) {t : Nat}
    (h : s.dist t = none) : pathTo s n start t = .keyError := by
  obtain ⟨v, b, order, I⟩ := F.reach
  have hts : t ≠ start := by intro e; rw [e, I.dist_start] at h; simp at h
  have hpred : s.pred t = none := by
    cases hp : s.pred t with
    | none => rfl
    | some p =>
      obtain ⟨_, _, ⟨w, dp, _, _, hd⟩, _⟩ := I.pred_ok t p hp
      rw [h] at hd; simp at hd
  unfold pathTo back
  rw [if_neg hts, hpred]

/-! ### the virtual sink -/

theorem sinkAdj_wf {adj : Adj} {n : Nat} {targets : List Nat} (hwf : WF adj n) (ht : ∀ t ∈ targets, t < n) :
    WF (sinkAdj adj n targets) (n + 1) := by
  intro u e he
  unfold sinkAdj at he
  split at he
  · simp at he
    obtain ⟨t, ht', rfl⟩ := he
    have := ht t ht'
    simp; omega
  · rcases List.mem_append.mp he with h | h
    · have := hwf u e h; omega
    · split at h
      · simp at h; subst h; simp
      · simp at h

theorem sinkAdj_nonneg {adj : Adj} {n : Nat} {targets : List Nat} (hnn : NonNeg adj) :
    NonNeg (sinkAdj adj n targets) := by
  intro u e he
  unfold sinkAdj at he
  split at he
  · simp at he
    obtain ⟨t, _, rfl⟩ := he
    exact le_refl _
  · rcases List.mem_append.mp he with h | h
    · exact hnn u e h
    · split at h
      · simp at h; subst h; exact le_refl _
      · simp at h

theorem sinkAdj_of_ne {adj : Adj} {n : Nat} {targets : List Nat} {u : Nat} (hu : u ≠ n) {e : Nat × Rat}
    (he : e ∈ sinkAdj adj n targets u) : e ∈ adj u ∨ (u ∈ targets ∧ e = (n, 0)) := by
  unfold sinkAdj at he
  rw [if_neg hu] at he
  rcases List.mem_append.mp he with h | h
  · exact Or.inl h
  · split at h
    · rename_i hc
      simp at h
      exact Or.inr ⟨by simpa using hc, h⟩
    · simp at h

theorem sinkAdj_sub {adj : Adj} {n : Nat} {targets : List Nat} {u : Nat} (hu : u ≠ n) {e : Nat × Rat}
    (he : e ∈ adj u) : e ∈ sinkAdj adj n targets u := by
  unfold sinkAdj
  rw [if_neg hu]
  exact List.mem_append_left _ he

theorem sinkAdj_sink {adj : Adj} {n : Nat} {targets : List Nat} {u : Nat} (hu : u ≠ n) (ht : u ∈ targets) :
    (n, (0 : Rat)) ∈ sinkAdj adj n targets u := by
  unfold sinkAdj
  rw [if_neg hu]
  apply List.mem_append_right
  have : targets.contains u = true := by simpa using ht
  rw [if_pos this]
  simp

/-- a duplicate-free path to the sink leaves the original graph only with its last step -/
theorem sink_path_drop {adj : Adj} {n : Nat} {targets : List Nat} (hwf : WF adj n) {a t : Nat} {l : List Nat} {W : Rat}
    (hp : PathW (sinkAdj adj n targets) a t l W) : t = n → a ≠ n → l.Nodup →
    ∃ ind, ind ∈ targets ∧ PathW adj a ind l.dropLast W ∧ l.dropLast.getLast? = some ind := by
  induction hp with
  | single a => intro h1 h2; exact absurd h1 h2
  | @cons a b t l w W hab hp ih =>
    intro ht ha hnd
    subst ht
    have hhead := hp.head
    have hne := hp.ne_nil
    by_cases hb : b = t
    · subst hb
      -- then `l = [b]`, otherwise the sink would occur twice
      have hl : l = [b] := by
        cases hp with
        | single _ => rfl
        | @cons _ c _ l' w' W' hbc hp' =>
          exfalso
          have hlast := hp'.last
          have hne' := hp'.ne_nil
          have hmem : b ∈ l' := List.mem_of_getLast? hlast
          have hnd2 := (List.nodup_cons.mp hnd).2
          exact (List.nodup_cons.mp hnd2).1 hmem
      subst hl
      have hW : W = 0 := by
        cases hp with
        | single _ => rfl
        | cons _ hp' => exact absurd rfl hp'.ne_nil
      subst hW
      rcases sinkAdj_of_ne ha hab with h | ⟨hat, he⟩
      · have := hwf a _ h; simp at this
      · simp at he
        refine ⟨a, hat, ?_, by simp⟩
        rw [he]
        simpa using PathW.single (adj := adj) a
    · obtain ⟨ind, hind, hpi, hlast⟩ := ih rfl hb (List.nodup_cons.mp hnd).2
      have hab' : (b, w) ∈ adj a := by
        rcases sinkAdj_of_ne ha hab with h | ⟨_, he⟩
        · exact h
        · simp at he; exact absurd he.1 hb
      refine ⟨ind, hind, ?_, ?_⟩
      · rw [List.dropLast_cons_of_ne_nil hne]
        exact PathW.cons hab' hpi
      · rw [List.dropLast_cons_of_ne_nil hne]
        have hne2 : l.dropLast ≠ [] := hpi.ne_nil
        cases hdl : l.dropLast with
        | nil => exact absurd hdl hne2
        | cons x xs => rw [hdl] at hlast; simpa [List.getLast?_cons_cons] using hlast

/-- a path of the original graph to a target extends to a path to the sink with the same weight -/
theorem path_to_sink {adj : Adj} {n : Nat} {targets : List Nat} (hwf : WF adj n) {a t : Nat} {l : List Nat} {W : Rat}
    (hp : PathW adj a t l W) (ha : a < n) (ht : t ∈ targets) :
    PathW (sinkAdj adj n targets) a n (l ++ [n]) W := by
  have hlt := hp.mem_lt hwf ha
  have h1 : PathW (sinkAdj adj n targets) a t l W :=
    hp.mono (fun u hu e he => sinkAdj_sub (by have := hlt u hu; omega) he)
  have htn : t < n := by
    have := hp.last
    exact hlt t (List.mem_of_getLast? this)
  have := h1.snoc (sinkAdj_sink (adj := adj) (by omega : t ≠ n) ht)
  simpa using this

end Mouette.Dijkstra
