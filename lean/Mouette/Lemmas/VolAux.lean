import Mouette.Lemmas.VolEdgeMap
/-!
The auxiliary accessors of the volume connectivity against direct inspection of the cell list:
`other_face_side`, `common_face`, `in_cell_index`, `in_cell_face_index`, `cell_to_edge`.
-/
namespace Mouette.Vol
open Mesh

variable {m : Mesh}

/-! ### `face_to_cells` lists every incident cell once -/

theorem eraseIdx_perm_inj {C : List Nat} (hn : C.Nodup) {i j : Nat} (hi : i < C.length) (hj : j < C.length)
    (h : (C.eraseIdx i).Perm (C.eraseIdx j)) : i = j := by
  by_contra hne
  have h1 : C[i] ∈ C.eraseIdx j := by
    rw [List.mem_eraseIdx_iff_getElem]; exact ⟨i, hi, hne, rfl⟩
  have h2 : C[i] ∉ C.eraseIdx i := by
    rw [List.mem_eraseIdx_iff_getElem]
    rintro ⟨i', hi', hne', heq⟩
    exact hne' ((List.Nodup.getElem_inj_iff hn).1 heq)
  exact h2 (h.mem_iff.2 h1)

/-- the four faces of a cell are four different stored faces -/
theorem cellToFace_nodup (h : Conforming m) {c : Nat} (hc : c < m.nC) : (m.cellToFace c).Nodup := by
  rw [List.nodup_iff_injective_getElem]
  intro ⟨i, hi⟩ ⟨j, hj⟩ hij
  have hi4 : i < 4 := by simpa [cellToFace_length] using hi
  have hj4 : j < 4 := by simpa [cellToFace_length] using hj
  obtain ⟨f, _, hgi, hpi⟩ := cellToFace_spec h.faceKeys h.faceFound hc hi4
  obtain ⟨g, _, hgj, hpj⟩ := cellToFace_spec h.faceKeys h.faceFound hc hj4
  have e1 : (m.cellToFace c)[i] = f := by
    have := List.getElem?_eq_getElem hi; rw [hgi] at this; exact (Option.some.inj this).symm
  have e2 : (m.cellToFace c)[j] = g := by
    have := List.getElem?_eq_getElem hj; rw [hgj] at this; exact (Option.some.inj this).symm
  have hfg : f = g := by rw [← e1, ← e2]; exact hij
  subst hfg
  have := eraseIdx_perm_inj (h.cellNodup c hc) (by rw [h.cell4 c hc]; exact hi4) (by rw [h.cell4 c hc]; exact hj4)
    (hpi.symm.trans hpj)
  exact Fin.ext this

theorem filter_beq_of_nodup {l : List Nat} (hn : l.Nodup) (f : Nat) :
    l.filter (· == f) = if f ∈ l then [f] else [] := by
  induction l with
  | nil => simp
  | cons a t ih =>
    rw [List.nodup_cons] at hn
    rw [List.filter_cons, ih hn.2]
    by_cases h : a = f
    · subst h; simp [hn.1]
    · have : (a == f) = false := by simpa using h
      have h' : ¬ f = a := fun e => h e.symm
      simp [this, h']

theorem faceToCells_eq_filter (h : Conforming m) {f : Nat} (hf : f < m.nF) :
    m.conn.faceToCells f = (List.range m.nC).filter fun c => (m.cellToFace c).contains f := by
  unfold Conn.faceToCells Mesh.conn
  rw [buckets_getD]
  simp only [hf, if_true]
  unfold Mesh.cellAdjPairs
  rw [List.filter_flatMap, List.map_flatMap]
  have : ∀ c ∈ List.range m.nC,
      (((m.cellToFace c).map fun g => (g, c)).filter fun kv => kv.1 == f).map (·.2)
        = if (m.cellToFace c).contains f then [c] else [] := by
    intro c hc
    rw [List.filter_map, List.map_map]
    have hfun : ((fun kv : Nat × Nat => kv.1 == f) ∘ fun g => (g, c)) = fun g => g == f := rfl
    rw [hfun, filter_beq_of_nodup (cellToFace_nodup h (List.mem_range.1 hc))]
    by_cases hm : f ∈ m.cellToFace c <;> simp [hm]
  rw [List.flatMap_congr this]
  clear this
  induction (List.range m.nC) with
  | nil => rfl
  | cons a t ih =>
    rw [List.flatMap_cons, List.filter_cons, ih]
    by_cases hm : f ∈ m.cellToFace a <;> simp [hm]

/-- **face → cells lists every incident cell exactly once, in increasing order** -/
theorem faceToCells_nodup (h : Conforming m) {f : Nat} (hf : f < m.nF) : (m.conn.faceToCells f).Nodup := by
  rw [faceToCells_eq_filter h hf]; exact List.Nodup.filter _ List.nodup_range

/-! ### `other_face_side` -/

/-- **other_face_side**: `c'` is returned for `(c, f)` iff `c ≠ c'` and both cells lie on the stored face `f`
(so `None` exactly for a border face or a cell not on `f`) -/
theorem otherFaceSide_spec (h : Conforming m) {c f c' : Nat} (hf : f < m.nF) :
    m.conn.otherFaceSide c f = some c' ↔ c ≠ c' ∧ c ∈ m.conn.faceToCells f ∧ c' ∈ m.conn.faceToCells f := by
  have hnd := faceToCells_nodup h hf
  have h2 := h.atMostTwo f hf
  unfold Conn.otherFaceSide
  cases hl : m.conn.faceToCells f with
  | nil => simp
  | cons a t =>
    cases t with
    | nil =>
      simp only [List.mem_singleton]
      constructor
      · intro hh; cases hh
      · rintro ⟨hne, rfl, rfl⟩; exact absurd rfl hne
    | cons b t' =>
      cases t' with
      | cons x y => rw [hl] at h2; simp at h2
      | nil =>
        rw [hl] at hnd
        have hab : a ≠ b := by simpa using hnd
        simp only [List.mem_cons, List.not_mem_nil, or_false]
        constructor
        · intro hh
          split at hh
          · rename_i h1; cases hh; subst h1; exact ⟨hab, Or.inl rfl, Or.inr rfl⟩
          · split at hh
            · rename_i h1 h2'; cases hh; subst h2'; exact ⟨fun e => hab e.symm, Or.inr rfl, Or.inl rfl⟩
            · cases hh
        · rintro ⟨hne, hc | hc, hc' | hc'⟩
          · subst hc; subst hc'; exact absurd rfl hne
          · subst hc; subst hc'; simp
          · subst hc; subst hc'; simp [hne]
          · subst hc; subst hc'; exact absurd rfl hne

/-! ### `common_face` -/

theorem eraseDups_of_nodup {l : List Nat} (hn : l.Nodup) : l.eraseDups = l := by
  induction l with
  | nil => rfl
  | cons a t ih =>
    rw [List.nodup_cons] at hn
    rw [List.eraseDups_cons]
    have : t.filter (fun b => !b == a) = t := by
      rw [List.filter_eq_self]
      intro b hb
      have : b ≠ a := fun e => hn.1 (e ▸ hb)
      simpa using this
    rw [this, ih hn.2]

/-- **common_face**: the stored face whose vertices are exactly the three vertices shared by the two cells;
`None` when they do not share exactly three vertices -/
theorem commonFace_spec (h : Conforming m) {c1 c2 f : Nat} (hc1 : c1 < m.nC) :
    m.commonFace c1 c2 = some f ↔
      ((m.cell c1).filter fun v => (m.cell c2).contains v).length = 3
      ∧ f < m.nF ∧ (m.face f).Perm ((m.cell c1).filter fun v => (m.cell c2).contains v) := by
  unfold Mesh.commonFace
  simp only
  rw [eraseDups_of_nodup (h.cellNodup c1 hc1)]
  split
  · rename_i h3
    rw [faceId_eq_some_iff h.faceKeys]
    exact ⟨fun ⟨a, b⟩ => ⟨h3, a, b⟩, fun ⟨_, a, b⟩ => ⟨a, b⟩⟩
  · rename_i h3
    constructor
    · intro hh; cases hh
    · rintro ⟨a, _, _⟩; exact absurd a h3

/-! ### `in_cell_index`, `in_cell_face_index` -/

/-- **in_cell_index**: the position of `v` in the cell (cells have distinct vertices), `None` iff `v` is not a vertex -/
theorem inCellIndex_spec (m : Mesh) (c v : Nat) (hn : (m.cell c).Nodup) :
    (∀ i, m.inCellIndex c v = some i ↔ ∃ hi : i < (m.cell c).length, (m.cell c)[i] = v)
    ∧ (m.inCellIndex c v = none ↔ v ∉ m.cell c) := by
  unfold Mesh.inCellIndex
  simp only
  constructor
  · intro i
    constructor
    · intro hh
      split at hh
      · rename_i hlt
        cases hh
        exact ⟨hlt, List.getElem_idxOf hlt⟩
      · cases hh
    · rintro ⟨hi, hv⟩
      have : (m.cell c).idxOf v = i := by rw [← hv]; exact List.Nodup.idxOf_getElem hn i hi
      rw [this, if_pos hi]
  · constructor
    · intro hh
      split at hh
      · cases hh
      · rename_i hnl
        intro hmem; exact hnl (List.idxOf_lt_length_iff.2 hmem)
    · intro hnm
      have : ¬ (m.cell c).idxOf v < (m.cell c).length := fun hlt => hnm (List.idxOf_lt_length_iff.1 hlt)
      rw [if_neg this]

theorem sameSet_iff_perm {a b : List Nat} (ha : a.Nodup) (hb : b.Nodup) : Mesh.sameSet a b = true ↔ a.Perm b := by
  unfold Mesh.sameSet
  rw [List.perm_ext_iff_of_nodup ha hb]
  simp only [Bool.and_eq_true, List.all_eq_true, List.contains_iff_mem]
  constructor
  · rintro ⟨h1, h2⟩ x; exact ⟨h1 x, h2 x⟩
  · intro hx; exact ⟨fun x => (hx x).1, fun x => (hx x).2⟩

/-- **in_cell_face_index**: the local index `i` such that the stored face `f` is the cell minus its `i`-th vertex
(unique when it exists); `None` iff `f` is not a face of the cell -/
theorem inCellFaceIndex_spec (h : Conforming m) {c f : Nat} (hc : c < m.nC) (hf : f < m.nF) :
    (∀ i, m.inCellFaceIndex c f = some i ↔ i < 4 ∧ (m.face f).Perm ((m.cell c).eraseIdx i))
    ∧ (m.inCellFaceIndex c f = none ↔ ∀ i < 4, ¬ (m.face f).Perm ((m.cell c).eraseIdx i)) := by
  have hfn : (m.face f).Nodup := by
    obtain ⟨c', hc', i, _, hk⟩ := h.faceInCell f hf
    have hp : (m.face f).Perm (subFace (m.cell c') i) := key_eq_iff_perm.1 hk.symm
    rw [hp.nodup_iff, subFace_eq_eraseIdx]
    exact (h.cellNodup c' hc').sublist (List.eraseIdx_sublist _ _)
  have hsub : ∀ i, (subFace (m.cell c) i).Nodup := fun i => by
    rw [subFace_eq_eraseIdx]; exact (h.cellNodup c hc).sublist (List.eraseIdx_sublist _ _)
  have hP : ∀ i, Mesh.sameSet (m.face f) (subFace (m.cell c) i) = true ↔ (m.face f).Perm ((m.cell c).eraseIdx i) := fun i => by
    rw [sameSet_iff_perm hfn (hsub i), subFace_eq_eraseIdx]
  unfold Mesh.inCellFaceIndex
  rw [h.cell4 c hc]
  constructor
  · intro i
    rw [List.find?_eq_some_iff_append]
    constructor
    · rintro ⟨hp, as, bs, hsplit, _⟩
      have hi : i ∈ List.range 4 := by rw [hsplit]; simp
      exact ⟨List.mem_range.1 hi, (hP i).1 hp⟩
    · rintro ⟨hi, hp⟩
      refine ⟨(hP i).2 hp, List.range i, (List.range' (i + 1) (4 - (i + 1))), ?_, ?_⟩
      · have : i = 0 ∨ i = 1 ∨ i = 2 ∨ i = 3 := by omega
        rcases this with rfl | rfl | rfl | rfl <;> decide
      · intro j hj
        have hji : j < i := List.mem_range.1 hj
        simp only [Bool.not_eq_true']
        cases hs : Mesh.sameSet (m.face f) (subFace (m.cell c) j) with
        | false => rfl
        | true =>
          have hpj := (hP j).1 hs
          have := eraseIdx_perm_inj (h.cellNodup c hc) (by rw [h.cell4 c hc]; omega) (by rw [h.cell4 c hc]; omega)
            (hpj.symm.trans hp)
          omega
  · rw [List.find?_eq_none]
    constructor
    · intro hh i hi hp
      exact hh i (List.mem_range.2 hi) ((hP i).2 hp)
    · intro hh i hi hs
      exact hh i (List.mem_range.1 hi) ((hP i).1 hs)

/-! ### `cell_to_edge` -/

/-- **cell_to_edge**: the stored edges joining two vertices of the cell (pairs `(C[i], C[j])`, `j < i`) -/
theorem mem_cellToEdge {c e : Nat} :
    e ∈ m.cellToEdge c ↔ ∃ i < (m.cell c).length, ∃ j < i, m.edgeId ((m.cell c).getD i 0) ((m.cell c).getD j 0) = some e := by
  unfold Mesh.cellToEdge
  simp only [List.mem_flatMap, List.mem_range, List.mem_filterMap]

theorem edgeId_eq_some_iff (hEK : (m.edges.map key).Nodup) {u v e : Nat} :
    m.edgeId u v = some e ↔ e < m.nE ∧ (m.edge e).Perm [u, v] := by
  unfold Mesh.edgeId
  rw [idOf_eq_some_iff_of_nodup hEK]
  constructor
  · rintro ⟨he, hk⟩
    exact ⟨he, by rw [edge_eq_getElem he]; exact key_eq_iff_perm.1 hk⟩
  · rintro ⟨he, hp⟩
    exact ⟨he, by rw [edge_eq_getElem he] at hp; exact key_eq_iff_perm.2 hp⟩

/-- with pairwise distinct edge keys: `e ∈ cell_to_edge(c)` iff the stored edge `e` joins two vertices of the cell -/
theorem cellToEdge_spec (hEK : (m.edges.map key).Nodup) {c e : Nat} :
    e ∈ m.cellToEdge c ↔ e < m.nE ∧ ∃ i < (m.cell c).length, ∃ j < i,
      (m.edge e).Perm [(m.cell c).getD i 0, (m.cell c).getD j 0] := by
  rw [mem_cellToEdge]
  constructor
  · rintro ⟨i, hi, j, hj, hid⟩
    obtain ⟨he, hp⟩ := (edgeId_eq_some_iff hEK).1 hid
    exact ⟨he, i, hi, j, hj, hp⟩
  · rintro ⟨he, i, hi, j, hj, hp⟩
    exact ⟨i, hi, j, hj, (edgeId_eq_some_iff hEK).2 ⟨he, hp⟩⟩

end Mouette.Vol
