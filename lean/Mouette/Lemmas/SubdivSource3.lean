import Mouette.Lemmas.SubdivSource2
/-
C13 (round 4): BRIDGES, part 3 - `split_tet_from_face_center` (the loop over the cells that contain the face, the
inner `for i in range(4)` building the three sub-cells) against the hand model's `splitOneCell` / `centreCells`.
-/
namespace Mouette.SubdivSrc
open Mouette.Subdiv
open Mouette.Generated

theorem foldE_cells (g : Raw → Nat → Except Err Raw) (step : List (List Nat) → Nat → Except Err (List (List Nat)))
    (hg : ∀ s k, g s k = match step s.cells k with | .error e => .error e | .ok c => .ok { s with cells := c }) :
    ∀ (l : List Nat) (s : Raw), foldE g s l = match foldE step s.cells l with
      | .error e => .error e
      | .ok c => .ok { s with cells := c } := by
  intro l
  induction l with
  | nil => intro s; rfl
  | cons k ks ih =>
    intro s
    simp only [foldE, hg]
    cases step s.cells k with
    | error e => rfl
    | ok c => simp only [ih]

theorem filterIdx_zero (f cell : List Nat) : (filterIdx (fun y => !List.elem y f) cell)[0]? = oppIndex f cell := by
  unfold filterIdx oppIndex
  rw [← List.head?_eq_getElem?, List.head?_filter]
  congr 1
  funext k
  cases cell[k]? <;> rfl

theorem idx_filterIdx_zero (f cell : List Nat) :
    idx (filterIdx (fun y => !List.elem y f) cell) 0 =
      match oppIndex f cell with | some i => .ok i | none => .error Err.index := by
  unfold idx
  rw [filterIdx_zero]
  cases oppIndex f cell <;> rfl

theorem oppIndex_lt (f cell : List Nat) (i : Nat) (h : oppIndex f cell = some i) : i < cell.length := by
  unfold oppIndex at h
  exact List.mem_range.mp (List.mem_of_find?_eq_some h)

theorem range4 : List.range 4 = [0, 1, 2, 3] := rfl

theorem splitTetFromFaceCenter_bridge (m : Raw) (fid : Nat) :
    C13Src.splitTetFromFaceCenter m fid = Subdiv.splitTetFromFaceCenter m fid := by
  unfold C13Src.splitTetFromFaceCenter Subdiv.splitTetFromFaceCenter
  cases hf : m.faces[fid]? with
  | none => simp only [idx_none hf, bind, Except.bind]; rfl
  | some f =>
    have hlt := lt_of_getElem? hf
    simp only [idx_some hf, bind, Except.bind, idx_eq_getPt]
    rcases f with _ | ⟨a, _ | ⟨b, _ | ⟨c, _ | ⟨d, t⟩⟩⟩⟩
    · simp
    · simp
    · simp
    · simp only [List.length_cons, List.length_nil, ne_eq, not_true_eq_false, if_false, unpack3]
      have e : mapE (fun y => getPt m y) [a, b, c] = pts m [a, b, c] := rfl
      rw [e]
      cases hp : pts m [a, b, c] with
      | error er => rfl
      | ok ps =>
        simp only []
        rw [foldE_cells _ (splitOneCell m.verts.length [a, b, c]) ?hg]
        case hg =>
          intro s k
          unfold splitOneCell
          cases hc : s.cells[k]? with
          | none => simp only [idx_none hc]; rfl
          | some cell =>
            have hk := lt_of_getElem? hc
            simp only [idx_some hc]
            by_cases h4 : cell.length = 4
            · have h4' : ¬ (¬ 4 = cell.length) := by omega
              have h4'' : ¬ (cell.length ≠ 4) := by omega
              simp only [h4', h4'', if_false, idx_filterIdx_zero]
              cases ho : oppIndex [a, b, c] cell with
              | none => rfl
              | some iF =>
                have hiF := oppIndex_lt _ _ _ ho
                rcases cell with _ | ⟨c0, _ | ⟨c1, _ | ⟨c2, _ | ⟨c3, _ | ⟨c4, t⟩⟩⟩⟩⟩ <;> simp at h4
                rcases iF with _ | _ | _ | _ | iF
                · simp [range4, foldE, setAt, idx, centreCells, pure, Except.pure, hk]
                · simp [range4, foldE, setAt, idx, centreCells, pure, Except.pure, hk]
                · simp [range4, foldE, setAt, idx, centreCells, pure, Except.pure, hk]
                · simp [range4, foldE, setAt, idx, centreCells, pure, Except.pure, hk]
                · simp at hiF; omega
            · have h4' : ¬ 4 = cell.length := by omega
              have h4'' : cell.length ≠ 4 := h4
              simp only [h4', h4'', not_false_eq_true, if_true, ne_eq, pure, Except.pure]
        have ha : filterIdx (fun y => isSubset [a, b, c] y) m.cells = adjacentCells m [a, b, c] := by
          unfold filterIdx adjacentCells
          congr 1
          funext k
          cases m.cells[k]? <;> rfl
        simp only [ha]
        cases foldE (splitOneCell m.verts.length [a, b, c]) m.cells (adjacentCells m [a, b, c]) with
        | error er => rfl
        | ok cells =>
          simp only []
          rw [setAt_lt _ (by simpa using hlt)]
          simp [pure, Except.pure]
    · simp

end Mouette.SubdivSrc
