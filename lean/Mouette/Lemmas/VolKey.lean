import Mouette.Model.Volume
import Mathlib.Data.List.Sort
/-!
Lemmas about `key` (= `utils.keyify`) and the dictionary look-up `idOf` of the volume model.
-/
namespace Mouette.Vol

theorem ins_eq_orderedInsert (a : Nat) (l : List Nat) : ins a l = l.orderedInsert (· ≤ ·) a := by
  induction l with
  | nil => rfl
  | cons b l ih => simp [ins, List.orderedInsert, ih]

theorem key_eq_insertionSort (l : List Nat) : key l = l.insertionSort (· ≤ ·) := by
  induction l with
  | nil => rfl
  | cons a l ih => simp [key, List.insertionSort, ih, ins_eq_orderedInsert]

theorem key_perm (l : List Nat) : (key l).Perm l := by
  rw [key_eq_insertionSort]; exact List.perm_insertionSort _ l

theorem key_pairwise (l : List Nat) : (key l).Pairwise (· ≤ ·) := by
  rw [key_eq_insertionSort]; exact List.pairwise_insertionSort _ l

/-- two vertex lists have the same key iff they are permutations of each other -/
theorem key_eq_iff_perm {a b : List Nat} : key a = key b ↔ a.Perm b := by
  constructor
  · intro h
    exact (key_perm a).symm.trans (h ▸ key_perm b)
  · intro h
    have hp : (key a).Perm (key b) := (key_perm a).trans (h.trans (key_perm b).symm)
    exact List.Perm.eq_of_pairwise (fun _ _ _ _ h1 h2 => Nat.le_antisymm h1 h2)
      (key_pairwise a) (key_pairwise b) hp

theorem key_length (l : List Nat) : (key l).length = l.length := (key_perm l).length_eq

theorem mem_key {l : List Nat} {v : Nat} : v ∈ key l ↔ v ∈ l := (key_perm l).mem_iff

/-! ### `idOf` -/

theorem idOf_some {l : List (List Nat)} {k : List Nat} {i : Nat} (h : idOf l k = some i) :
    ∃ hi : i < l.length, key l[i] = k := by
  induction l generalizing i with
  | nil => simp [idOf] at h
  | cons X r ih =>
    simp only [idOf] at h
    split at h
    · rename_i j hj
      cases h
      obtain ⟨hj', hk⟩ := ih hj
      exact ⟨by simp; omega, by simpa using hk⟩
    · split at h
      · cases h; exact ⟨by simp, by simpa⟩
      · cases h

theorem idOf_lt {l : List (List Nat)} {k : List Nat} {i : Nat} (h : idOf l k = some i) : i < l.length :=
  (idOf_some h).1

theorem idOf_isSome_of_mem {l : List (List Nat)} {k : List Nat} {X : List Nat} (hX : X ∈ l)
    (hk : key X = k) : (idOf l k).isSome := by
  induction l with
  | nil => cases hX
  | cons Y r ih =>
    simp only [idOf]
    cases h : idOf r k with
    | some j => simp
    | none =>
      simp only
      rcases List.mem_cons.1 hX with rfl | hr
      · simp [hk]
      · have := ih hr; simp [h] at this

theorem idOf_none_iff {l : List (List Nat)} {k : List Nat} : idOf l k = none ↔ ∀ X ∈ l, key X ≠ k := by
  constructor
  · intro h X hX hk
    have := idOf_isSome_of_mem hX hk
    simp [h] at this
  · intro h
    cases h' : idOf l k with
    | none => rfl
    | some i =>
      obtain ⟨hi, hk⟩ := idOf_some h'
      exact absurd hk (h _ (List.getElem_mem hi))

/-- with pairwise distinct keys the look-up returns *the* index carrying the key -/
theorem idOf_eq_of_nodup {l : List (List Nat)} (hn : (l.map key).Nodup) {i : Nat} (hi : i < l.length) :
    idOf l (key l[i]) = some i := by
  have hs : (idOf l (key l[i])).isSome := idOf_isSome_of_mem (List.getElem_mem hi) rfl
  obtain ⟨j, hj⟩ := Option.isSome_iff_exists.1 hs
  obtain ⟨hjl, hjk⟩ := idOf_some hj
  have : j = i := by
    have h1 : (l.map key)[j]'(by simpa using hjl) = (l.map key)[i]'(by simpa using hi) := by simpa using hjk
    exact (List.Nodup.getElem_inj_iff hn).1 h1
  rw [hj, this]

theorem idOf_eq_some_iff_of_nodup {l : List (List Nat)} (hn : (l.map key).Nodup) {k : List Nat} {i : Nat} :
    idOf l k = some i ↔ ∃ hi : i < l.length, key l[i] = k := by
  constructor
  · exact idOf_some
  · rintro ⟨hi, rfl⟩; exact idOf_eq_of_nodup hn hi

end Mouette.Vol
