import Mouette.Model.Operators
import Mouette.Lemmas.EdgeIncidence
/-
C07/C08: the handshake identity `3F + E_b = 2E` (premise of `gauss_bonnet`) DERIVED from the mesh hypotheses
`OrientedTriangulation` (triangles with distinct vertices, no directed side in two faces), `EdgesAreSides` (every undirected
side once in the edge list) and `EdgesFromSides` (every edge is a side).
-/
namespace Mouette.Ops
open Mouette.Geom

/-- every edge of the list is a side of some face, in one of its two orientations -/
def EdgesFromSides (faces : List Face) (es : List (Nat × Nat)) : Prop :=
  ∀ e ∈ es, e ∈ allSides faces ∨ swapP e ∈ allSides faces

/-- border edges: exactly one of the two orientations is a side of a face -/
def borderEdges (faces : List Face) (es : List (Nat × Nat)) : List (Nat × Nat) :=
  es.filter (fun e => decide (e ∈ allSides faces) != decide (swapP e ∈ allSides faces))

theorem allSides_length (faces : List Face) (h : ∀ f ∈ faces, ∃ a b c, f = [a, b, c] ∧ a ≠ b ∧ b ≠ c ∧ c ≠ a) :
    (allSides faces).length = 3 * faces.length := by
  induction faces with
  | nil => rfl
  | cons f fs ih =>
    obtain ⟨a, b, c, hf, _⟩ := h f (by simp)
    have := ih (fun g hg => h g (List.mem_cons_of_mem _ hg))
    simp only [allSides, List.map_cons, List.flatten_cons, List.length_append, List.length_cons] at this ⊢
    rw [this, hf, sides_tri]
    simp only [List.length_cons, List.length_nil]; omega

theorem sum_const_one {α} (L : List α) : (L.map (fun _ => 1)).sum = L.length := by
  induction L with
  | nil => rfl
  | cons a L ih => simp only [List.map_cons, List.sum_cons, List.length_cons, ih]; omega

theorem orientation_count (faces : List Face) (es : List (Nat × Nat)) (hfrom : EdgesFromSides faces es) :
    (es.map (fun e => if e ∈ allSides faces then 1 else 0)).sum
      + (es.map (fun e => if swapP e ∈ allSides faces then 1 else 0)).sum
      + (borderEdges faces es).length = 2 * es.length := by
  unfold borderEdges
  induction es with
  | nil => rfl
  | cons e es ih =>
    have h1 := ih (fun e' he' => hfrom e' (List.mem_cons_of_mem _ he'))
    have he := hfrom e (by simp)
    simp only [List.map_cons, List.sum_cons, List.filter_cons, List.length_cons]
    by_cases a : e ∈ allSides faces <;> by_cases b : swapP e ∈ allSides faces
    · have hd : (decide (e ∈ allSides faces) != decide (swapP e ∈ allSides faces)) = false := by simp [a, b]
      rw [hd, if_pos a, if_pos b]; simp only [Bool.false_eq_true, if_false]; omega
    · have hd : (decide (e ∈ allSides faces) != decide (swapP e ∈ allSides faces)) = true := by simp [a, b]
      rw [hd, if_pos a, if_neg b]; simp only [if_true, List.length_cons]; omega
    · have hd : (decide (e ∈ allSides faces) != decide (swapP e ∈ allSides faces)) = true := by simp [a, b]
      rw [hd, if_neg a, if_pos b]; simp only [if_true, List.length_cons]; omega
    · exact absurd he (by simp [a, b])

/-- **handshake**: `3F + E_b = 2E` on an oriented triangulated manifold with its edge list -/
theorem handshake_of_manifold (faces : List Face) (es : List (Nat × Nat)) (hm : OrientedTriangulation faces)
    (he : EdgesAreSides faces es) (hfrom : EdgesFromSides faces es) :
    3 * faces.length + (borderEdges faces es).length = 2 * es.length := by
  obtain ⟨htri, hn⟩ := hm
  have h1 := orientation_count faces es hfrom
  rw [sum_mem_eq_sum_count _ es hn, sum_swap_mem_eq_sum_count _ es hn, ← sum_map_add'] at h1
  have e2 : (allSides faces).map (fun s => es.count s + es.count (swapP s)) = (allSides faces).map (fun _ => 1) :=
    List.map_congr_left (fun s hs => he s hs)
  rw [e2, sum_const_one, allSides_length faces htri] at h1
  exact h1

end Mouette.Ops
