import Mouette.Lemmas.BorderWalk
/-! C15: the hypotheses of the abstract walk (`WalkHyp`) hold on an oriented face list whose border
vertices satisfy the umbrella condition. -/
namespace Mouette.Border
open Mouette.Surface Mouette.Props.C01

theorem key2_comm (u v : Nat) : key2 v u = key2 u v := by
  unfold key2
  by_cases h1 : v ≤ u <;> by_cases h2 : u ≤ v <;> simp [h1, h2]
  · have : u = v := by omega
    subst this; exact ⟨rfl, rfl⟩
  · omega

section mesh
variable {faces : Faces} {nv : Nat}

/-- every vertex index occurring in a face is `< nv` -/
def InRange (faces : Faces) (nv : Nat) : Prop := ∀ f i u v, IsSide faces f i u v → u < nv ∧ v < nv

/-- a side without reverse side is a border edge (in both argument orders) -/
theorem border_of_side (hO : Oriented faces) {f i u v : Nat} (hs : IsSide faces f i u v)
    (hno : ∀ g j, ¬ IsSide faces g j v u) :
    isEdgeOnBorder (build nv faces true) u v = true ∧ isEdgeOnBorder (build nv faces true) v u = true := by
  have hm : key2 u v ∈ (build nv faces true).edges := mem_edgesOf.mpr ⟨f, i, u, v, hs, rfl⟩
  obtain ⟨e, he⟩ := List.mem_iff_getElem?.mp hm
  constructor
  · exact (isEdgeOnBorder_spec nv true u v).mpr ⟨⟨e, he⟩, Or.inr hno⟩
  · exact (isEdgeOnBorder_spec nv true v u).mpr ⟨⟨e, by rw [key2_comm]; exact he⟩, Or.inl hno⟩

/-- … and both its end points are boundary vertices -/
theorem bv_of_side (hO : Oriented faces) (hR : InRange faces nv) {f i u v : Nat} (hs : IsSide faces f i u v)
    (hno : ∀ g j, ¬ IsSide faces g j v u) :
    u ∈ boundaryVertices (build nv faces true) ∧ v ∈ boundaryVertices (build nv faces true) := by
  have hm : key2 u v ∈ (build nv faces true).edges := mem_edgesOf.mpr ⟨f, i, u, v, hs, rfl⟩
  obtain ⟨e, he⟩ := List.mem_iff_getElem?.mp hm
  obtain ⟨hb1, hb2⟩ := border_of_side (nv := nv) hO hs hno
  obtain ⟨hu, hv⟩ := hR f i u v hs
  have hbe : e ∈ boundaryEdges (build nv faces true) := by
    rw [(border_partition (build nv faces true)).2.1 e]
    rcases key2_cases u v with h1 | h1
    · exact ⟨u, v, by rw [← h1]; exact he, hb1⟩
    · exact ⟨v, u, by rw [← h1]; exact he, hb2⟩
  have hvb := (vertex_border_iff (build nv faces true)).2.1
  constructor
  · rw [hvb u]
    refine ⟨hu, e, hbe, ?_⟩
    rcases key2_cases u v with h1 | h1
    · exact ⟨u, v, by rw [← h1]; exact he, Or.inl rfl⟩
    · exact ⟨v, u, by rw [← h1]; exact he, Or.inr rfl⟩
  · rw [hvb v]
    refine ⟨hv, e, hbe, ?_⟩
    rcases key2_cases u v with h1 | h1
    · exact ⟨u, v, by rw [← h1]; exact he, Or.inr rfl⟩
    · exact ⟨v, u, by rw [← h1]; exact he, Or.inl rfl⟩

/-- the umbrella condition at the border vertices: their corners form one open fan -/
def BorderUmbrella (faces : Faces) (nv : Nat) : Prop :=
  ∀ A ∈ boundaryVertices (build nv faces true), ∃ ring, RingOpen (build nv faces true) A ring ∧ ring ≠ []

/-- `vertex_to_vertices(A)[0]` -/
def w0 (faces : Faces) (nv : Nat) (A : Nat) : Nat := (vertexToVertices (build nv faces true) A).headD 0

theorem w0_spec (hO : Oriented faces) (hU : BorderUmbrella faces nv) {A : Nat}
    (hA : A ∈ boundaryVertices (build nv faces true)) :
    (∃ rest, vertexToVertices (build nv faces true) A = w0 faces nv A :: rest) ∧
    (∃ f i, IsSide faces f i (w0 faces nv A) A) ∧ (∀ f i, ¬ IsSide faces f i A (w0 faces nv A)) := by
  obtain ⟨ring, hr, hne⟩ := hU A hA
  obtain ⟨w, rest, h1, h2, h3⟩ := v2v_head_border hO hr hne
  have hw : w0 faces nv A = w := by unfold w0; rw [h1]; rfl
  rw [hw]
  exact ⟨⟨rest, h1⟩, h2, h3⟩

/-- two border sides leaving the same vertex coincide (the fan of that vertex ends only once) -/
theorem out_border_unique (hO : Oriented faces) {w A B : Nat} {ring : List Nat}
    (hr : RingOpen (build nv faces true) w ring)
    (hA : ∃ f i, IsSide faces f i w A) (hnA : ∀ f i, ¬ IsSide faces f i A w)
    (hB : ∃ f i, IsSide faces f i w B) (hnB : ∀ f i, ¬ IsSide faces f i B w) : A = B := by
  -- the corner starting a border side has `stepF = none`, hence is the last corner of the ring
  have key : ∀ X, (∃ f i, IsSide faces f i w X) → (∀ f i, ¬ IsSide faces f i X w) →
      ∃ f i, ∃ (h0 : 0 < ring.length), IsSide faces f i w X ∧ ring[ring.length - 1] = offset faces f + i := by
    intro X ⟨f, i, hs⟩ hn
    obtain ⟨hf, hi, hu, hv⟩ := hs
    have hstep : stepF (build nv faces true) (offset faces f + i) = none := by
      rw [stepF_eq nv true hO hf hi, hv, hu]
      cases hh : halfEdgeToCorner (build nv faces true) X w with
      | none => rfl
      | some c =>
        obtain ⟨g, j, hs', _⟩ := (halfEdgeToCorner_eq_spec nv true hO X w c).mp hh
        exact absurd hs' (hn g j)
    have hmem : offset faces f + i ∈ cornersAt (build nv faces true) w := mem_cornersAt.mpr ⟨f, i, hf, hi, hu, rfl⟩
    obtain ⟨t, ht, hrt⟩ := List.mem_iff_getElem.mp (hr.perm.mem_iff.mpr hmem)
    refine ⟨f, i, by omega, ⟨hf, hi, hu, hv⟩, ?_⟩
    rcases Nat.lt_or_ge (t + 1) ring.length with h1 | h1
    · have := hr.fwd t h1
      rw [hrt, hstep] at this; cases this
    · have : t = ring.length - 1 := by omega
      subst this; exact hrt
  obtain ⟨f, i, h0, hsA, hcA⟩ := key A hA hnA
  obtain ⟨g, j, _, hsB, hcB⟩ := key B hB hnB
  rw [hcA] at hcB
  obtain ⟨hfg, hij⟩ := corner_inj faces hsA.1 hsB.1 hsA.2.1 hsB.2.1 hcB
  subst hfg; subst hij
  rw [← hsA.2.2.2, ← hsB.2.2.2]

/-- two border sides entering the same vertex coincide (the fan of that vertex starts only once) -/
theorem in_border_unique (hO : Oriented faces) {w A B : Nat} {ring : List Nat}
    (hr : RingOpen (build nv faces true) w ring)
    (hA : ∃ f i, IsSide faces f i A w) (hnA : ∀ f i, ¬ IsSide faces f i w A)
    (hB : ∃ f i, IsSide faces f i B w) (hnB : ∀ f i, ¬ IsSide faces f i w B) : A = B := by
  have key : ∀ X, (∃ f i, IsSide faces f i X w) → (∀ f i, ¬ IsSide faces f i w X) →
      ∃ f i, ∃ (h0 : 0 < ring.length), IsSide faces f i X w ∧
        ring[0] = offset faces f + (i + 1) % (fa faces f).length := by
    intro X ⟨f, i, hs⟩ hn
    obtain ⟨hf, hi, hu, hv⟩ := hs
    have hi' : (i + 1) % (fa faces f).length < (fa faces f).length := Nat.mod_lt _ (by omega)
    have hstep : stepB (build nv faces true) (offset faces f + (i + 1) % (fa faces f).length) = none := by
      rw [stepB_eq nv true hO hf hi', succ_pred_mod hi, hv, hu]
      cases hh : halfEdgeToCorner (build nv faces true) w X with
      | none => rfl
      | some c =>
        obtain ⟨g, j, hs', _⟩ := (halfEdgeToCorner_eq_spec nv true hO w X c).mp hh
        exact absurd hs' (hn g j)
    have hmem : offset faces f + (i + 1) % (fa faces f).length ∈ cornersAt (build nv faces true) w :=
      mem_cornersAt.mpr ⟨f, _, hf, hi', hv, rfl⟩
    obtain ⟨t, ht, hrt⟩ := List.mem_iff_getElem.mp (hr.perm.mem_iff.mpr hmem)
    refine ⟨f, i, by omega, ⟨hf, hi, hu, hv⟩, ?_⟩
    cases t with
    | zero => exact hrt
    | succ t' =>
      have := hr.back t' ht
      rw [hrt, hstep] at this; cases this
  obtain ⟨f, i, h0, hsA, hcA⟩ := key A hA hnA
  obtain ⟨g, j, _, hsB, hcB⟩ := key B hB hnB
  rw [hcA] at hcB
  obtain ⟨hfg, hij⟩ := corner_inj faces hsA.1 hsB.1 (Nat.mod_lt _ (by have := hsA.2.1; omega))
    (Nat.mod_lt _ (by have := hsB.2.1; omega)) hcB
  subst hfg
  have h1 := succ_pred_mod hsA.2.1
  have h2 := succ_pred_mod hsB.2.1
  rw [hij, h2] at h1
  subst h1
  rw [← hsA.2.2.1, ← hsB.2.2.1]

/-- a border side has an edge id, the same in both argument orders, and it is a boundary edge -/
theorem edgeId_border (hO : Oriented faces) {f i u v : Nat} (hs : IsSide faces f i u v)
    (hno : ∀ g j, ¬ IsSide faces g j v u) :
    ∃ e, edgeId (build nv faces true) u v = some e ∧ edgeId (build nv faces true) v u = some e ∧
      e ∈ boundaryEdges (build nv faces true) := by
  have hm : key2 u v ∈ (build nv faces true).edges := mem_edgesOf.mpr ⟨f, i, u, v, hs, rfl⟩
  obtain ⟨e, he⟩ := List.mem_iff_getElem?.mp hm
  obtain ⟨hb1, hb2⟩ := border_of_side (nv := nv) hO hs hno
  refine ⟨e, (edgeId_eq_spec nv true u v e).mpr he, (edgeId_eq_spec nv true v u e).mpr (by rw [key2_comm]; exact he), ?_⟩
  rw [(border_partition (build nv faces true)).2.1 e]
  rcases key2_cases u v with h1 | h1
  · exact ⟨u, v, by rw [← h1]; exact he, hb1⟩
  · exact ⟨v, u, by rw [← h1]; exact he, hb2⟩

/-- what a border edge at `x` is, on the face list -/
theorem border_edge_cases (hO : Oriented faces) {x y : Nat}
    (h : isEdgeOnBorder (build nv faces true) x y = true) :
    ((∃ f i, IsSide faces f i x y) ∧ ∀ f i, ¬ IsSide faces f i y x) ∨
    ((∃ f i, IsSide faces f i y x) ∧ ∀ f i, ¬ IsSide faces f i x y) := by
  obtain ⟨⟨e, he⟩, hd⟩ := (isEdgeOnBorder_spec nv true x y).mp h
  have hm : key2 x y ∈ edgesOf faces := List.mem_iff_getElem?.mpr ⟨e, he⟩
  obtain ⟨f, i, u, v, hs, hk⟩ := mem_edgesOf.mp hm
  have huv : (u = x ∧ v = y) ∨ (u = y ∧ v = x) := by
    rcases key2_cases x y with h1 | h1 <;> rcases key2_cases u v with h2 | h2 <;>
      rw [h1, h2] at hk <;> simp only [Prod.mk.injEq] at hk <;> omega
  rcases huv with ⟨rfl, rfl⟩ | ⟨rfl, rfl⟩
  · rcases hd with hd | hd
    · exact absurd hs (hd f i)
    · exact Or.inl ⟨⟨f, i, hs⟩, hd⟩
  · rcases hd with hd | hd
    · exact Or.inr ⟨⟨f, i, hs⟩, hd⟩
    · exact absurd hs (hd f i)

/-- the hypotheses of the abstract walk hold -/
theorem walkHyp_of_mesh (hO : Oriented faces) (hR : InRange faces nv) (hU : BorderUmbrella faces nv) :
    WalkHyp (build nv faces true) (boundaryVertices (build nv faces true)) (w0 faces nv) := by
  refine { head := ?_, mem := ?_, noback := ?_, inj := ?_ }
  · intro A hA; exact (w0_spec hO hU hA).1
  · intro A hA
    obtain ⟨_, ⟨f, i, hs⟩, hn⟩ := w0_spec hO hU hA
    exact (bv_of_side hO hR hs hn).1
  · intro A hA hback
    obtain ⟨_, ⟨f, i, hs⟩, hn⟩ := w0_spec hO hU hA
    have hB := (bv_of_side hO hR hs hn).1
    obtain ⟨_, _, hnB⟩ := w0_spec hO hU hB
    rw [hback] at hnB
    exact hnB f i hs
  · intro A hA B hB hAB
    obtain ⟨_, hsA, hnA⟩ := w0_spec hO hU hA
    obtain ⟨_, hsB, hnB⟩ := w0_spec hO hU hB
    obtain ⟨f, i, hs⟩ := hsA
    have hw := (bv_of_side hO hR hs hnA).1
    obtain ⟨ring, hr, _⟩ := hU _ hw
    rw [← hAB] at hsB hnB
    exact out_border_unique hO hr ⟨f, i, hs⟩ hnA hsB hnB

end mesh

end Mouette.Border
