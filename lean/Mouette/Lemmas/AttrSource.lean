import Mouette.Generated.C05Src
import Mouette.Lemmas.AttrMulti
/-
Bridges from the TRANSLATED bodies of mesh_attributes.py / data_container.py (Generated/C05Src.lean) to the hand model
(Model/Attr.lean): helper lemmas.
-/
namespace Mouette.AttrSrc
open Mouette.Attr Mouette.Generated.C05Src
set_option linter.unusedSimpArgs false
set_option linter.unusedVariables false

/-- resolved scalar default of an attribute object -/
def Self.dflt (self : Self) : Scalar :=
  match self.dv with
  | some d => d
  | none => self.type.zero

/-- abstraction: the model's attribute record of an attribute object -/
def Self.toAttr (self : Self) : Attr :=
  { ty := self.type, k := self.elemsize, dflt := self.dflt,
    store := match self.data with
      | .dict d => .sparse d
      | .array r => .dense self.nElem r
      | .unset => .sparse [] }

theorem gen_zero_getD (t : Ty) : (Generated.C05.zero t).getD (.b false) = t.zero := by
  cases t <;> rfl

theorem gen_canCast (a b : Ty) : Generated.C05.canCast a b = canCast a b := by
  cases a <;> cases b <;> rfl

/-- the fill value broadcast to one row is the model's default row -/
theorem bcast_default (self : Self) : bcast self.elemsize (defaultValue self) = self.toAttr.dfltRow := by
  unfold defaultValue Attr.dfltRow Self.toAttr Self.dflt
  cases hdv : self.dv with
  | some d => simp [bcast]
  | none =>
    simp only [typeDefaultValue, gen_zero_getD]
    by_cases h1 : self.elemsize = 1
    · rw [if_pos h1]; simp [bcast]
    · rw [if_neg h1]; simp [bcast]

theorem row1_default (self : Self) (hk : self.elemsize = 1) : Dflt.row1 (defaultValue self) = self.toAttr.dfltRow := by
  unfold defaultValue Attr.dfltRow Self.toAttr Self.dflt
  cases hdv : self.dv with
  | some d => simp [Dflt.row1, hk]
  | none => simp [typeDefaultValue, gen_zero_getD, hk, Dflt.row1]

theorem npFull_default (n : Nat) (self : Self) :
    npFull n self.elemsize (defaultValue self) = List.replicate n self.toAttr.dfltRow := by
  unfold npFull; rw [bcast_default]

theorem forE_simple (ty : Ty) : ∀ (l : List Scalar),
    forE l (fun x => if canCast x.ty ty then .ok () else .error .type)
      = if l.all (fun x => canCast x.ty ty) then .ok () else .error .type := by
  intro l
  induction l with
  | nil => rfl
  | cons x t ih =>
    by_cases hc : canCast x.ty ty = true
    · simp only [forE, hc, if_true, List.all_cons, Bool.true_and]; exact ih
    · have hf : canCast x.ty ty = false := by simpa using hc
      simp [forE, hf]

/-- the checking loop of `__setitem__` is `List.all` -/
theorem forE_cast (ty : Ty) (l : List Scalar) :
    forE l (fun v3 =>
        let v4 := (pyTypeS v3)
        match attrType v4 with
        | .error e => .error e
        | .ok t2 =>
        let v5 := t2
        if (!(Generated.C05.canCast v5 ty)) then .error .type else .ok ())
      = if l.all (fun x => canCast x.ty ty) then .ok () else .error .type := by
  rw [← forE_simple]
  congr 1
  funext x
  simp only [pyTypeS, attrType, gen_canCast]
  cases canCast x.ty ty <;> rfl

/-- the same loop after `simp only [pyTypeS, attrType, gen_canCast]` -/
theorem forE_neg (ty : Ty) (l : List Scalar) :
    forE l (fun x => if (!canCast x.ty ty) = true then .error .type else .ok ())
      = if l.all (fun x => canCast x.ty ty) then .ok () else .error .type := by
  rw [← forE_simple]
  congr 1
  funext x
  cases canCast x.ty ty <;> rfl

/-! ### growth on a container with ANY number of attributes sharing one heap -/

def All2 {α β : Type} (R : α → β → Prop) : List α → List β → Prop
  | [], [] => True
  | a :: as, b :: bs => R a b ∧ All2 R as bs
  | _, _ => False

theorem All2_mono {α β : Type} {R S : α → β → Prop} :
    ∀ (l : List α) (l' : List β), (∀ a ∈ l, ∀ b, R a b → S a b) → All2 R l l' → All2 S l l'
  | [], [], _, _ => trivial
  | a :: as, b :: bs, hRS, h =>
    ⟨hRS a List.mem_cons_self b h.1, All2_mono as bs (fun x hx => hRS x (List.mem_cons_of_mem _ hx)) h.2⟩
  | [], _ :: _, _, h => h.elim
  | _ :: _, [], _, h => h.elim

/-- what `_expand(n)` does to one attribute object `p` (heap `h` before, `h'` after the WHOLE loop), result `q` -/
def ExpandRel (n : Nat) (h h' : Heap) (p q : String × Self) : Prop :=
  q.1 = p.1 ∧ q.2.cls = p.2.cls ∧ q.2.type = p.2.type ∧ q.2.elemsize = p.2.elemsize ∧ q.2.dv = p.2.dv ∧
  (p.2.cls = .sparse → q.2 = p.2) ∧
  (p.2.cls = .dense → q.2.nElem = p.2.nElem + n ∧ q.2.data.asRef < h'.length ∧ (∃ r, q.2.data = .array r) ∧
     cellMat h' q.2.data.asRef = cellMat h p.2.data.asRef ++ List.replicate n p.2.toAttr.dfltRow)

theorem heap_frame_append (h : Heap) (c : Cell) (r : Nat) (hr : r < h.length) : (h ++ [c])[r]? = h[r]? := by
  rw [List.getElem?_append_left hr]

theorem cellMat_frame {h h' : Heap} (hf : ∀ r, r < h.length → h'[r]? = h[r]?) {r : Nat} (hr : r < h.length) :
    cellMat h' r = cellMat h r := by
  unfold cellMat; rw [hf r hr]

theorem forAttrs_expand_spec (n : Nat) : ∀ (l : List (String × Self)) (h : Heap),
    (∀ p ∈ l, p.2.cls = .dense → p.2.data.asRef < h.length) →
    ∃ h' l', forAttrs h l (dispatchExpand n) = .ok (h', l') ∧ h.length ≤ h'.length ∧
      (∀ r, r < h.length → h'[r]? = h[r]?) ∧ All2 (ExpandRel n h h') l l' := by
  intro l
  induction l with
  | nil => intro h _; exact ⟨h, [], rfl, Nat.le_refl _, fun _ _ => rfl, trivial⟩
  | cons p t ih =>
    intro h hv
    obtain ⟨nm, a⟩ := p
    cases hc : a.cls with
    | sparse =>
      obtain ⟨h', t', e1, e2, e3, e4⟩ := ih h (fun q hq => hv q (List.mem_cons_of_mem _ hq))
      refine ⟨h', (nm, a) :: t', ?_, e2, e3, ?_, e4⟩
      · simp [forAttrs, dispatchExpand, hc, sparseExpand, e1]
      · exact ⟨rfl, rfl, rfl, rfl, rfl, fun _ => rfl, fun hd => by simp [hc] at hd⟩
    | dense =>
      have hra : a.data.asRef < h.length := hv (nm, a) List.mem_cons_self hc
      let m := cellMat h a.data.asRef ++ npFull n a.elemsize (defaultValue a)
      let h1 := h ++ [Cell.mat m]
      let a1 : Self := { a with data := .array h.length, nElem := n + a.nElem }
      have hlen1 : h1.length = h.length + 1 := by simp [h1]
      have hf1 : ∀ r, r < h.length → h1[r]? = h[r]? := fun r hr => heap_frame_append h _ r hr
      obtain ⟨h', t', e1, e2, e3, e4⟩ := ih h1 (fun q hq hd => by
        have := hv q (List.mem_cons_of_mem _ hq) hd; omega)
      refine ⟨h', (nm, a1) :: t', ?_, by omega, fun r hr => by rw [e3 r (by omega), hf1 r hr], ?_, ?_⟩
      · simp only [forAttrs, dispatchExpand, hc, denseExpand, allocMat]
        simp only [h1, m] at e1
        simp [e1, a1, hc]
      · refine ⟨rfl, by simp [a1, hc], rfl, rfl, rfl, fun hs => by simp [hc] at hs, fun _ => ⟨by simp [a1, Nat.add_comm], ?_, ⟨h.length, rfl⟩, ?_⟩⟩
        · simp only [a1, Data.asRef]; omega
        · simp only [a1, Data.asRef]
          rw [cellMat_frame e3 (by omega : h.length < h1.length)]
          simp only [h1, m]
          rw [Mouette.Attr.cellMat_new, npFull_default]
          rfl
      · refine All2_mono t t' ?_ e4
        intro p hp q hpq
        obtain ⟨r1, r2, r3, r4, r5, r6, r7⟩ := hpq
        refine ⟨r1, r2, r3, r4, r5, r6, fun hd => ?_⟩
        obtain ⟨s1, s2, s3, s4⟩ := r7 hd
        have hpr : p.2.data.asRef < h.length := hv p (List.mem_cons_of_mem _ hp) hd
        exact ⟨s1, s2, s3, by rw [s4, cellMat_frame hf1 hpr]⟩

/-! ### abstraction functions used by the bridge theorems of Props/C05Source.lean -/

/-- result of a translated attribute method, seen through the abstraction `Self.toAttr` -/
def absE {α : Type} : Except Err (α × Heap × Self) → Except Err (Heap × Attr)
  | .ok (_, h, self) => .ok (h, self.toAttr)
  | .error e => .error e

/-- result of a model primitive, heap and attribute only -/
def modE : Except Err (State × Attr) → Except Err (Heap × Attr)
  | .ok (s, a) => .ok (s.heap, a)
  | .error e => .error e

theorem toAttr_sparse {self : Self} {d : List (Int × Nat)} (hd : self.data = .dict d) : self.toAttr.store = .sparse d := by
  simp [Self.toAttr, hd]

theorem toAttr_dense {self : Self} {r : Nat} (hd : self.data = .array r) : self.toAttr.store = .dense self.nElem r := by
  simp [Self.toAttr, hd]

/-- class tag and storage kind of an attribute object agree (established by the constructors) -/
def ClsOk (self : Self) : Prop :=
  (self.cls = .dense ∧ ∃ r, self.data = .array r) ∨ (self.cls = .sparse ∧ ∃ d, self.data = .dict d)

/-- the container as the single-attribute model sees it: attribute `nm` only -/
def toState (h : Heap) (c : Cont) (nm : String) : State :=
  { heap := h, size := c.data.length, attr := (c.attr.lookup nm).map Self.toAttr }

/-- container result seen through the abstraction -/
def absC {α : Type} (nm : String) : Except Err (α × Heap × Cont) → Except Err State
  | .ok (_, h, c) => .ok (toState h c nm)
  | .error e => .error e

/-- every dense attribute has as many entries as the container and a live array object -/
def AlignedAll (h : Heap) (c : Cont) : Prop :=
  ∀ p ∈ c.attr, p.2.cls = .dense → p.2.nElem = c.data.length ∧ p.2.data.asRef < h.length

theorem all2_aligned (n : Nat) (h h' : Heap) (len : Nat) : ∀ (l l' : List (String × Self)),
    All2 (ExpandRel n h h') l l' → (∀ p ∈ l, p.2.cls = .dense → p.2.nElem = len) →
    ∀ q ∈ l', q.2.cls = .dense → q.2.nElem = len + n ∧ q.2.data.asRef < h'.length
  | [], [], _, _ => by intro q hq; cases hq
  | p :: ps, q :: qs, hr, hal => by
    intro x hx hd
    rcases List.mem_cons.1 hx with rfl | hx'
    · obtain ⟨_, r2, _, _, _, _, r7⟩ := hr.1
      have hpd : p.2.cls = .dense := by rw [← r2]; exact hd
      obtain ⟨s1, s2, _, _⟩ := r7 hpd
      exact ⟨by rw [s1, hal p List.mem_cons_self hpd], s2⟩
    · exact all2_aligned n h h' len ps qs hr.2 (fun p hp => hal p (List.mem_cons_of_mem _ hp)) x hx' hd
  | [], _ :: _, hr, _ => hr.elim
  | _ :: _, [], hr, _ => hr.elim

end Mouette.AttrSrc
