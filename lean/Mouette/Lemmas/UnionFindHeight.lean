import Mouette.Lemmas.UnionFindC
/-!
Union by size keeps the trees shallow (core Lean only): a RANK function `rk` that strictly increases along parent links and
such that a root of rank `k` has a size field `≥ 2 ^ k` exists after every history, for every comparison `c` that is a
`SizeOrder` (either spelling `<` / `<=` of the size test). Path halving keeps the SAME rank function (it only shortcuts a
link to the grandparent, whose rank is even larger) and never rewrites the parent cell of a root; `add` gives rank 0 to the
new singleton; a link of root `a` under root `b` (`siz a ≤ siz b`) raises `rk b` to `max (rk b) (rk a + 1)`.
Consequence (`findLoop_fuel`): the loop of `find` started at `p` stops after at most `rk (root) - rk p` iterations.
-/
namespace Mouette.UF

/-! ### ranks along parent links -/

/-- ranks strictly increase along (non-root) parent links -/
def RkInc (par : List Nat) (rk : Nat → Nat) : Prop :=
  ∀ i, parent par i ≠ i → rk i < rk (parent par i)

theorem Reach.rk_le {par : List Nat} {rk : Nat → Nat} (h : RkInc par rk) {p r : Nat} (hr : Reach par p r) :
    rk p ≤ rk r := by
  induction hr with
  | root _ => exact Nat.le_refl _
  | step hne _ ih => exact Nat.le_of_lt (Nat.lt_of_lt_of_le (h _ hne) ih)

theorem WF.toRkInc {par : List Nat} {rk : Nat → Nat} (w : WF par rk) : RkInc par rk :=
  fun i hne => w.rkInc i (lt_of_parent_ne hne) hne

/-! ### one step of path halving keeps the rank function and the set of roots -/

theorem halve_gp_ne {par : List Nat} {rk : Nat → Nat} (h : RkInc par rk) {p : Nat} (hp : parent par p ≠ p) :
    parent par (parent par p) ≠ p := by
  intro e
  have h1 := h p hp
  by_cases hq : parent par (parent par p) = parent par p
  · exact hp (hq.symm.trans e)
  · have h2 := h _ hq
    rw [e] at h2
    omega

theorem halve_parent {par : List Nat} {p : Nat} (hp : parent par p ≠ p) (i : Nat) :
    parent (par.set p (parent par (parent par p))) i
      = if i = p then parent par (parent par p) else parent par i := by
  rw [parent_set]
  have hpl := lt_of_parent_ne hp
  by_cases h : i = p
  · rw [if_pos ⟨h, hpl⟩, if_pos h]
  · rw [if_neg (fun hh => h hh.1), if_neg h]

theorem halve_rkInc {par : List Nat} {rk : Nat → Nat} (h : RkInc par rk) {p : Nat} (hp : parent par p ≠ p) :
    RkInc (par.set p (parent par (parent par p))) rk := by
  intro i
  rw [halve_parent hp]
  split
  · rename_i e
    rw [e]
    intro _
    have h1 := h p hp
    by_cases hq : parent par (parent par p) = parent par p
    · rw [hq]; exact h1
    · have h2 := h _ hq
      omega
  · exact h i

theorem halve_root_iff {par : List Nat} {rk : Nat → Nat} (h : RkInc par rk) {p : Nat} (hp : parent par p ≠ p)
    (i : Nat) : parent (par.set p (parent par (parent par p))) i = i ↔ parent par i = i := by
  rw [halve_parent hp]
  split
  · rename_i e
    rw [e]
    exact ⟨fun h' => absurd h' (halve_gp_ne h hp), fun h' => absurd h' hp⟩
  · exact Iff.rfl

/-- the whole loop of `find` (any fuel): same rank function, same roots -/
theorem findLoop_rkInc {rk : Nat → Nat} : ∀ (fuel : Nat) (par : List Nat) (p : Nat), RkInc par rk →
    RkInc (findLoop par fuel p).1 rk ∧ (∀ i, parent (findLoop par fuel p).1 i = i ↔ parent par i = i) := by
  intro fuel
  induction fuel with
  | zero =>
    intro par p h
    rw [findLoop_zero]
    exact ⟨h, fun _ => Iff.rfl⟩
  | succ fuel ih =>
    intro par p h
    by_cases hr : parent par p = p
    · rw [findLoop_succ_root fuel hr]
      exact ⟨h, fun _ => Iff.rfl⟩
    · rw [findLoop_succ_step fuel hr]
      obtain ⟨a, b⟩ := ih _ (parent par p) (halve_rkInc h hr)
      exact ⟨a, fun i => (b i).trans (halve_root_iff h hr i)⟩

/-! ### the fuel the loop really needs -/

/-- if the root `r` of `p` has rank at most `fuel + rk p`, then `fuel` iterations are enough: more fuel changes nothing,
the result is `r`, and the loop condition is false at exit -/
theorem findLoop_fuel {rk rk0 : Nat → Nat} : ∀ (fuel : Nat) (par : List Nat) (p r : Nat), RkInc par rk →
    WF par rk0 → Reach par p r → rk r ≤ fuel + rk p →
    (∀ k, findLoop par (fuel + k) p = findLoop par fuel p) ∧ (findLoop par fuel p).2 = r ∧
      parent (findLoop par fuel p).1 r = r := by
  intro fuel
  induction fuel with
  | zero =>
    intro par p r h w hr hb
    have hroot : parent par p = p := by
      apply Classical.byContradiction
      intro hne
      cases hr with
      | root h' => exact hne h'
      | step _ hr' =>
        have h1 := h p hne
        have h2 := hr'.rk_le h
        omega
    have e : r = p := hr.of_root hroot
    subst e
    refine ⟨?_, rfl, hroot⟩
    intro k
    cases k with
    | zero => rfl
    | succ k => rw [Nat.zero_add, findLoop_succ_root k hroot, findLoop_zero]
  | succ fuel ih =>
    intro par p r h w hr hb
    by_cases hroot : parent par p = p
    · have e : r = p := hr.of_root hroot
      subst e
      rw [findLoop_succ_root fuel hroot]
      refine ⟨?_, rfl, hroot⟩
      intro k
      have e : fuel + 1 + k = (fuel + k) + 1 := by omega
      rw [e, findLoop_succ_root _ hroot]
    · have he := halve_equiv w hroot
      have hw := halve_wf w hroot
      have h1 := h p hroot
      have hr' : Reach par (parent par p) r := by
        cases hr with
        | root h' => exact absurd h' hroot
        | step _ hr' => exact hr'
      obtain ⟨a, b, c⟩ := ih _ (parent par p) r (halve_rkInc h hroot) hw ((he.reach _ _).mpr hr') (by omega)
      rw [findLoop_succ_step fuel hroot]
      refine ⟨?_, b, c⟩
      intro k
      have e : fuel + 1 + k = (fuel + k) + 1 := by omega
      rw [e, findLoop_succ_step _ hroot]
      exact a k

/-! ### the rank witness of a state -/

/-- `rk` is a rank witness of `s`: ranks strictly increase along parent links and a root of rank `k` has size `≥ 2 ^ k` -/
structure HRank (s : State) (rk : Nat → Nat) : Prop where
  inc : RkInc s.par rk
  size : ∀ r, r < s.elts.length → parent s.par r = r → 2 ^ rk r ≤ s.siz.getD r 0

/-- the state has a rank witness -/
def HInv (s : State) : Prop := ∃ rk, HRank s rk

theorem hInv_init : HInv init :=
  ⟨fun _ => 0, fun i hne => absurd (parent_ge (par := init.par) (i := i) (Nat.zero_le _)) hne,
    fun r hr => absurd hr (by simp [init])⟩

theorem card_le (s : State) (r : Nat) : card s r ≤ s.elts.length := by
  have := List.countP_le_length (p := fun i => rootOf s i == r) (l := List.range s.elts.length)
  rw [List.length_range] at this
  exact this

/-- under the size invariant no rank exceeds `log2 n`: `2 ^ rk i ≤ n` for every stored index -/
theorem HRank.bound {s : State} {rk : Nat → Nat} (h : HRank s rk) (inv : Inv s) (hs : SizeInv s) :
    ∀ i, i < s.elts.length → 2 ^ rk i ≤ s.elts.length := by
  intro i hi
  have hr := rootOf_reach inv hi
  have h1 := hr.rk_le h.inc
  have h2 := h.size _ (rootOf_lt inv hi) hr.isRoot
  rw [hs _ (rootOf_lt inv hi) hr.isRoot] at h2
  have h3 := card_le s (rootOf s i)
  have h4 : 2 ^ rk i ≤ 2 ^ rk (rootOf s i) := Nat.pow_le_pow_right (by decide) h1
  omega

/-! ### preservation: queries (path halving) -/

theorem hRank_find {s s' : State} {rk : Nat → Nat} {x r : Nat} (h : HRank s rk) (hf : find s x = some (s', r)) :
    HRank s' rk := by
  by_cases hx : x ∈ s.elts
  · rw [find_of_mem hx] at hf
    injection hf with hf
    injection hf with h1 _
    subst h1
    obtain ⟨a, b⟩ := findLoop_rkInc (rk := rk) s.par.length s.par (s.elts.idxOf x) h.inc
    exact ⟨a, fun r hr hroot => h.size r hr ((b r).mp hroot)⟩
  · rw [find_of_not_mem hx] at hf
    cases hf

theorem hRank_connected {s s' : State} {rk : Nat → Nat} {x y : Nat} {b : Bool} (h : HRank s rk)
    (hc : connected s x y = some (s', b)) : HRank s' rk := by
  cases h1 : find s x with
  | none => simp [connected, h1] at hc
  | some p1 =>
    obtain ⟨s1, rx⟩ := p1
    cases h2 : find s1 y with
    | none => simp [connected, h1, h2] at hc
    | some p2 =>
      obtain ⟨s2, ry⟩ := p2
      simp only [connected, h1, h2, Option.some.injEq, Prod.mk.injEq] at hc
      rw [← hc.1]
      exact hRank_find (hRank_find h h1) h2

theorem hRank_compFold (root : Nat) {rk : Nat → Nat} : ∀ (l : List Nat) (acc : State × List Nat),
    HRank acc.1 rk → HRank (l.foldl (compStep root) acc).1 rk := by
  intro l
  induction l with
  | nil => intro acc h; exact h
  | cons e l ih =>
    intro acc h
    rw [List.foldl_cons]
    apply ih
    unfold compStep
    cases hf : find acc.1 e with
    | none => exact h
    | some pr =>
      obtain ⟨s', r⟩ := pr
      have := hRank_find h hf
      simp only []
      split <;> exact this

theorem hRank_component {s s' : State} {rk : Nat → Nat} {x : Nat} {l : List Nat} (h : HRank s rk)
    (hc : component s x = some (s', l)) : HRank s' rk := by
  unfold component at hc
  split at hc
  · cases h1 : find s x with
    | none => simp [h1] at hc
    | some p1 =>
      obtain ⟨s1, rx⟩ := p1
      simp only [h1, Option.some.injEq] at hc
      have := hRank_compFold rx (rk := rk) s1.elts (s1, []) (hRank_find h h1)
      rw [hc] at this
      exact this
  · cases hc

/-! ### preservation: `add` -/

theorem hRank_add {s : State} {rk : Nat → Nat} (inv : Inv s) (h : HRank s rk) (x : Nat) :
    ∃ rk', HRank (add s x) rk' := by
  by_cases hx : x ∈ s.elts
  · rw [add_of_mem hx]; exact ⟨rk, h⟩
  · have he : (add s x).elts.length = s.elts.length + 1 := by rw [add_of_not_mem hx]; simp
    have hp : (add s x).par = s.par ++ [s.par.length] := by
      rw [add_of_not_mem hx, inv.nextEq, inv.parLen]
    have hsz : (add s x).siz = s.siz ++ [1] := by rw [add_of_not_mem hx]
    obtain ⟨rk0, w⟩ := inv.wf
    refine ⟨fun i => if i = s.par.length then 0 else rk i, ?_, ?_⟩
    · intro i
      rw [hp, parent_append_self]
      intro hne
      have hil := lt_of_parent_ne hne
      have h1 := w.inRange i hil
      have h2 := h.inc i hne
      show (if i = s.par.length then 0 else rk i)
        < (if parent s.par i = s.par.length then 0 else rk (parent s.par i))
      rw [if_neg (by omega), if_neg (by omega)]
      exact h2
    · intro r hr hroot
      rw [he] at hr
      rw [hp, parent_append_self] at hroot
      rw [hsz]
      show 2 ^ (if r = s.par.length then 0 else rk r) ≤ _
      have hpl := inv.parLen
      by_cases hrn : r < s.elts.length
      · rw [if_neg (by omega)]
        have h1 : (s.siz ++ [1]).getD r 0 = s.siz.getD r 0 := by
          rw [List.getD_eq_getElem?_getD, List.getD_eq_getElem?_getD,
            List.getElem?_append_left (by rw [inv.sizLen]; exact hrn)]
        rw [h1]
        exact h.size r hrn hroot
      · have hr' : r = s.elts.length := by omega
        rw [if_pos (by omega)]
        subst hr'
        have h1 : (s.siz ++ [1]).getD s.elts.length 0 = 1 := by
          rw [List.getD_eq_getElem?_getD, ← inv.sizLen]; simp
        rw [h1]
        exact Nat.le_refl _

theorem hInv_add {s : State} (inv : Inv s) (h : HInv s) (x : Nat) : HInv (add s x) := by
  obtain ⟨rk, h⟩ := h
  exact hRank_add inv h x

/-! ### preservation: a link of the smaller root under the larger one -/

theorem hRank_link {s : State} {rk : Nat → Nat} (inv : Inv s) (h : HRank s rk) {a b : Nat}
    (ha : parent s.par a = a) (hb : parent s.par b = b) (hab : a ≠ b) (hal : a < s.elts.length)
    (hbl : b < s.elts.length) (hsz : s.siz.getD a 0 ≤ s.siz.getD b 0) :
    HRank { s with par := s.par.set a b, siz := s.siz.set b (s.siz.getD b 0 + s.siz.getD a 0),
                   nComps := s.nComps - 1 }
      (fun i => if i = b then max (rk b) (rk a + 1) else rk i) := by
  have hal' : a < s.par.length := by rw [inv.parLen]; exact hal
  refine ⟨?_, ?_⟩
  · intro i
    show parent (s.par.set a b) i ≠ i →
      (if i = b then max (rk b) (rk a + 1) else rk i)
        < (if parent (s.par.set a b) i = b then max (rk b) (rk a + 1) else rk (parent (s.par.set a b) i))
    rw [parent_set]
    split
    · rename_i hh
      intro _
      rw [hh.1, if_neg hab, if_pos rfl]
      omega
    · intro hne
      have h1 := h.inc i hne
      have hib : i ≠ b := fun e => hne (e ▸ hb)
      rw [if_neg hib]
      split
      · rename_i e; rw [e] at h1; omega
      · exact h1
  · intro r hr hroot
    have hr' : r < s.elts.length := hr
    have hroot' : parent (s.par.set a b) r = r := hroot
    have hra : r ≠ a := by
      intro e
      subst e
      rw [parent_set, if_pos ⟨rfl, hal'⟩] at hroot'
      exact hab hroot'.symm
    rw [parent_set, if_neg (fun hh => hra hh.1)] at hroot'
    show 2 ^ (if r = b then max (rk b) (rk a + 1) else rk r)
      ≤ (s.siz.set b (s.siz.getD b 0 + s.siz.getD a 0)).getD r 0
    by_cases hrb : r = b
    · subst hrb
      rw [if_pos rfl, List.getD_eq_getElem?_getD, List.getElem?_set_self (by rw [inv.sizLen]; exact hbl)]
      simp only [Option.getD_some]
      have h1 := h.size a hal ha
      have h2 := h.size r hbl hb
      have h3 : 2 ^ (rk a + 1) = 2 ^ rk a * 2 := Nat.pow_succ _ _
      by_cases hm : rk a + 1 ≤ rk r
      · rw [Nat.max_eq_left hm]; omega
      · rw [Nat.max_eq_right (by omega), h3]; omega
    · rw [if_neg hrb, List.getD_eq_getElem?_getD, List.getElem?_set_ne (fun e => hrb e.symm),
        ← List.getD_eq_getElem?_getD]
      exact h.size r hr' hroot'

theorem hInv_unionC (c : Nat → Nat → Bool) (hc : SizeOrder c) {s : State} (inv : Inv s) (h : HInv s)
    (x y : Nat) : HInv (unionC c s x y) := by
  obtain ⟨rk0, h0⟩ := h
  obtain ⟨rk1, h1⟩ := hRank_add inv h0 x
  obtain ⟨rk, h2⟩ := hRank_add (inv_add inv x) h1 y
  obtain ⟨s2, s3, hf1, hf2, _, inv3, pe12, pe23, hu⟩ := union_unfoldC inv c x y
  have pe := pe12.trans pe23
  have h3 : HRank s3 rk := hRank_find (hRank_find h2 hf1) hf2
  obtain ⟨hcx, hcy, hrx, hry⟩ := union_linkFactsC inv x y inv3 pe
  rw [hu]
  split
  · exact ⟨rk, h3⟩
  · rename_i hne
    split
    · rename_i hcmp
      exact ⟨_, hRank_link inv3 h3 hrx hry hne hcx hcy (hc.1 _ _ hcmp)⟩
    · rename_i hcmp
      have hcmp' : c (s3.siz.getD (classOf (add (add s x) y) x) 0) (s3.siz.getD (classOf (add (add s x) y) y) 0)
          = false := by
        cases hh : c (s3.siz.getD (classOf (add (add s x) y) x) 0) (s3.siz.getD (classOf (add (add s x) y) y) 0)
        · rfl
        · exact absurd hh hcmp
      exact ⟨_, hRank_link inv3 h3 hry hrx (fun e => hne e.symm) hcy hcx (hc.2 _ _ hcmp')⟩

/-! ### every operation, every history -/

theorem hInv_stepC (c : Nat → Nat → Bool) (hc : SizeOrder c) {s : State} (inv : Inv s) (h : HInv s) (op : Op) :
    HInv (stepC c s op) := by
  cases op with
  | add x => exact hInv_add inv h x
  | union x y => exact hInv_unionC c hc inv h x y
  | find x =>
    obtain ⟨rk, h⟩ := h
    cases hf : find s x with
    | none => simp only [stepC, hf]; exact ⟨rk, h⟩
    | some pr =>
      obtain ⟨s', r⟩ := pr
      simp only [stepC, hf]
      exact ⟨rk, hRank_find h hf⟩
  | connected x y =>
    obtain ⟨rk, h⟩ := h
    cases hf : connected s x y with
    | none => simp only [stepC, hf]; exact ⟨rk, h⟩
    | some pr =>
      obtain ⟨s', b⟩ := pr
      simp only [stepC, hf]
      exact ⟨rk, hRank_connected h hf⟩
  | component x =>
    obtain ⟨rk, h⟩ := h
    cases hf : component s x with
    | none => simp only [stepC, hf]; exact ⟨rk, h⟩
    | some pr =>
      obtain ⟨s', l⟩ := pr
      simp only [stepC, hf]
      exact ⟨rk, hRank_component h hf⟩

theorem hInv_foldlC (c : Nat → Nat → Bool) (hc : SizeOrder c) : ∀ (ops : List Op) (s : State), Inv s → HInv s →
    HInv (ops.foldl (stepC c) s) := by
  intro ops
  induction ops with
  | nil => intro s _ h; exact h
  | cons op ops ih => intro s i h; exact ih _ (inv_stepC c i op) (hInv_stepC c hc i h op)

theorem hInv_runC (c : Nat → Nat → Bool) (hc : SizeOrder c) (ops : List Op) : HInv (runC c ops) :=
  hInv_foldlC c hc ops init inv_init hInv_init

/-! ### height ≤ log2 (size): the fuel `find` needs on a state with a rank witness -/

/-- the rank of a root is at most `log2` of the cardinality of its class -/
theorem HRank.root_le_log2 {s : State} {rk : Nat → Nat} (h : HRank s rk) (hs : SizeInv s) {r : Nat}
    (hr : r < s.elts.length) (hroot : parent s.par r = r) : rk r ≤ Nat.log2 (card s r) := by
  have h1 := h.size r hr hroot
  rw [hs r hr hroot] at h1
  have h2 : 0 < 2 ^ rk r := Nat.pow_pos (by decide)
  exact (Nat.le_log2 (by omega)).mpr h1

/-- with `fuel ≥ rk (root of p)` the loop of `find` started at the stored index `p` is complete -/
theorem findLoop_of_rank {s : State} {rk : Nat → Nat} (inv : Inv s) (h : HRank s rk) {p : Nat}
    (hp : p < s.elts.length) {fuel : Nat} (hf : rk (rootOf s p) ≤ fuel) :
    (∀ k, findLoop s.par (fuel + k) p = findLoop s.par fuel p) ∧ (findLoop s.par fuel p).2 = rootOf s p ∧
      parent (findLoop s.par fuel p).1 (rootOf s p) = rootOf s p := by
  obtain ⟨rk0, w⟩ := inv.wf
  exact findLoop_fuel fuel s.par p (rootOf s p) h.inc w (rootOf_reach inv hp) (by omega)

end Mouette.UF
