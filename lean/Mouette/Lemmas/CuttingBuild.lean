import Mouette.Lemmas.CuttingUF
import Mouette.Lemmas.CuttingCorners
import Mouette.Lemmas.CuttingMap
/-!
Characterisation of a successful `_build_mesh_with_cuts` on a triangle list (core Lean only): the result is
determined by the class function `root = classOf s1` of the union-find state after all unions.
-/
namespace Mouette.Cutting
open Mouette Mouette.UF

def AllTri (F : List Face) : Prop := ∀ f, f ∈ F → f.length = 3

theorem flatten_length_tri : ∀ (F : List Face), AllTri F → F.flatten.length = 3 * F.length
  | [], _ => rfl
  | f :: fs, h => by
    rw [List.flatten_cons, List.length_append, h f List.mem_cons_self,
      flatten_length_tri fs (fun g hg => h g (List.mem_cons_of_mem _ hg)), List.length_cons]
    omega

theorem findAll_length : ∀ (l : List Nat) (s s' : State) (rs : List Nat),
    findAll s l = some (s', rs) → rs.length = l.length
  | [], _, _, rs, h => by simp only [findAll, Option.some.injEq, Prod.mk.injEq] at h; rw [← h.2]
  | x :: xs, s, s', rs, h => by
    unfold findAll at h
    split at h
    · cases h
    · rename_i s1 r _
      split at h
      · cases h
      · rename_i s2 rs' h2
        simp only [Option.some.injEq, Prod.mk.injEq] at h
        rw [← h.2, List.length_cons, List.length_cons, findAll_length xs s1 s2 rs' h2]

theorem findFaces_shape : ∀ (ls : List (List Nat)) (s s' : State) (rs : List (List Nat)),
    findFaces s ls = some (s', rs) → rs.map List.length = ls.map List.length
  | [], _, _, rs, h => by simp only [findFaces, Option.some.injEq, Prod.mk.injEq] at h; rw [← h.2]
  | l :: r, s, s', rs, h => by
    unfold findFaces at h
    split at h
    · cases h
    · rename_i s1 r1 h1
      split at h
      · cases h
      · rename_i s2 rs' h2
        simp only [Option.some.injEq, Prod.mk.injEq] at h
        rw [← h.2, List.map_cons, List.map_cons, findAll_length l s s1 r1 h1, findFaces_shape r s1 s2 rs' h2]

theorem mapFace_length : ∀ (m : List (Nat × Nat)) (f l : List Nat), mapFace m f = some l → l.length = f.length
  | m, f, l, h => by rw [(mapFace_spec m f l h).1, List.length_map]

theorem mapFaces_shape (m : List (Nat × Nat)) (fs ls : List (List Nat)) (h : mapFaces m fs = some ls) :
    ls.map List.length = fs.map List.length := by
  rw [(mapFaces_spec m fs ls h).1, List.map_map]
  apply List.map_congr_left
  intro f _; simp

/-- the shape of the face list survives every stage, whatever the input -/
theorem build_shape {nV : Nat} {F : List Face} {uncut : List (Nat × Nat)} {o : Out}
    (h : build nV F uncut = .ok o) : o.faces.map List.length = F.map List.length := by
  simp only [build] at h
  split at h
  · cases h
  · rename_i ps _
    split at h
    · cases h
    · rename_i s2 faces1 hff
      split at h
      · cases h
      · rename_i faces2 hmf
        split at h
        · cases h
        · split at h
          · cases h
          · rename_i ws _
            injection h with h
            subst h
            simp only []
            rw [mapFaces_shape _ _ _ hmf, findFaces_shape _ _ _ _ hff, cornerFaces_shape]

structure BuildChar (nV : Nat) (F : List Face) (uncut : List (Nat × Nat)) (o : Out) : Prop where
  ex : ∃ (ps : List (Nat × Nat)) (s1 : State),
    unionPairs (halfEdges F) (cornerFaces F) uncut = some ps ∧
    s1 = applyUnions (ufRange (3 * F.length)) ps ∧
    Inv s1 ∧ s1.elts = List.range (3 * F.length) ∧
    o.roots3 = (cornerFaces F).map (List.map (classOf s1)) ∧
    o.faces = o.roots3.map (List.map (look (buildImap o.roots3))) ∧
    (∀ v, v ∈ o.roots3.flatten → (buildImap o.roots3).lookup v = some (look (buildImap o.roots3) v)) ∧
    o.pos = orderVerts (buildImap o.roots3) (cornerVerts F) ∧
    o.cs7 = (List.range nV).flatMap (cornersOf (cornerVerts F)) ∧
    o.roots7 = o.cs7.map (classOf s1) ∧
    o.ref = o.cs7.map (fun c => (look (buildImap o.roots3) (classOf s1 c), (cornerVerts F).getD c 0)) ∧
    (∀ c, c ∈ o.cs7 → (buildImap o.roots3).lookup (classOf s1 c) = some (look (buildImap o.roots3) (classOf s1 c)))

theorem mem_cornersOf {cv : List Nat} {v c : Nat} : c ∈ cornersOf cv v ↔ c < cv.length ∧ cv.getD c 0 = v := by
  simp [cornersOf]

theorem build_char {nV : Nat} {F : List Face} {uncut : List (Nat × Nat)} {o : Out} (tri : AllTri F)
    (h : build nV F uncut = .ok o) : BuildChar nV F uncut o := by
  have hn : (cornerVerts F).length = 3 * F.length := flatten_length_tri F tri
  simp only [build] at h
  split at h
  · cases h
  · rename_i ps hps
    have ok : PairsOK (3 * F.length) (vertOf F) ps := by
      intro p hp
      have := unionPairs_spec uncut ps hps p hp
      rw [hn] at this; exact this
    obtain ⟨inv0, he0, r0⟩ := ufRange_spec (vertOf F) (3 * F.length)
    obtain ⟨inv1, he1, _⟩ := applyUnions_spec (vertOf F) (3 * F.length) ps _ inv0 he0 r0 ok
    have hCF : ∀ l, l ∈ cornerFaces F → ∀ x, x ∈ l →
        x ∈ (applyUnions (ufRange (3 * F.length)) ps).elts := by
      intro l hl x hx
      have : x ∈ (cornerFaces F).flatten := List.mem_flatten.mpr ⟨l, hl, hx⟩
      rw [cornerFaces_flatten] at this
      rw [he1, ← hn]; exact this
    obtain ⟨s2', hff', inv2, pe2⟩ := findFaces_spec (cornerFaces F) inv1 hCF
    split at h
    · rename_i hff; rw [hff'] at hff; cases hff
    · rename_i s2 faces1 hff
      rw [hff'] at hff
      injection hff with hff
      injection hff with hs2 hf1
      subst hs2; subst hf1
      split at h
      · cases h
      · rename_i faces2 hmf
        obtain ⟨e2, hl2⟩ := mapFaces_spec _ _ _ hmf
        have hcs : ∀ x, x ∈ (List.range nV).flatMap (cornersOf (cornerVerts F)) → x ∈ s2'.elts := by
          intro x hx
          rw [List.mem_flatMap] at hx
          obtain ⟨v, _, hxv⟩ := hx
          rw [mem_cornersOf] at hxv
          rw [pe2.elts, he1]
          rw [hn] at hxv
          simpa using hxv.1
        obtain ⟨s3, hfa, _, _⟩ := findAll_spec _ inv2 hcs
        have hmap : ((List.range nV).flatMap (cornersOf (cornerVerts F))).map (classOf s2') =
            ((List.range nV).flatMap (cornersOf (cornerVerts F))).map
              (classOf (applyUnions (ufRange (3 * F.length)) ps)) := by
          apply List.map_congr_left
          intro x hx
          have := hcs x hx
          rw [pe2.elts] at this
          exact PEquiv.classOf pe2 inv1 inv2 this
        rw [hmap] at hfa
        split at h
        · rename_i hfa2; rw [hfa] at hfa2; cases hfa2
        · rename_i s3' rs hfa2
          rw [hfa] at hfa2
          injection hfa2 with hfa2
          injection hfa2 with _ hrs
          subst hrs
          split at h
          · cases h
          · rename_i ws hws
            obtain ⟨ews, hlw⟩ := refWrites_spec _ _ _ _ _ hws
            injection h with h
            subst h
            exact ⟨ps, _, hps, rfl, inv1, he1, rfl, e2, hl2, rfl, rfl, rfl, ews, hlw⟩

end Mouette.Cutting
