import Mathlib.Tactic.Ring
import Mathlib.Tactic.Linarith
import Mathlib.Tactic.FieldSimp
import Mathlib.Tactic.LinearCombination
import Mathlib.Tactic.Positivity
import Mouette.Model.Sampling
/-
Helper lemmas for C19 (samplers). Core `Rat` is Mathlib's `ℚ`, so `ring`/`nlinarith`/`field_simp` apply.
-/
namespace Mouette.Lemmas.C19
open Mouette.Sampling

theorem boxCoord_mem {lo hi x : Rat} (h : lo ≤ hi) (h0 : 0 ≤ x) (h1 : x ≤ 1) :
    lo ≤ boxCoord lo hi x ∧ boxCoord lo hi x ≤ hi := by
  unfold boxCoord
  constructor <;> nlinarith

theorem boxMap_inBox : ∀ (lo hi u : List Rat), BoxLE lo hi → u.length = lo.length →
    (∀ x ∈ u, 0 ≤ x ∧ x ≤ 1) → InBox lo hi (boxMap lo hi u) := by
  intro lo
  induction lo with
  | nil =>
    intro hi u hb hl _
    cases hi with
    | nil =>
      cases u with
      | nil => simp [boxMap, InBox]
      | cons x u => simp at hl
    | cons h hi => simp [BoxLE] at hb
  | cons l lo ih =>
    intro hi u hb hl hu
    cases hi with
    | nil => simp [BoxLE] at hb
    | cons h hi =>
      cases u with
      | nil => simp at hl
      | cons x u =>
        simp only [boxMap, InBox]
        obtain ⟨h1, h2⟩ := hb
        have hx := hu x (List.mem_cons_self ..)
        refine ⟨boxCoord_mem h1 hx.1 hx.2, ih hi u h2 (by simpa using hl) ?_⟩
        intro y hy
        exact hu y (List.mem_cons_of_mem _ hy)

theorem boxEmpty_false_boxLE : ∀ (lo hi : List Rat), lo.length = hi.length → boxEmpty lo hi = false → BoxLE lo hi := by
  intro lo
  induction lo with
  | nil => intro hi hl _; cases hi with
    | nil => simp [BoxLE]
    | cons h hi => simp at hl
  | cons l lo ih => intro hi hl he; cases hi with
    | nil => simp at hl
    | cons h hi =>
      simp only [boxEmpty, Bool.or_eq_false_iff, decide_eq_false_iff_not, not_le] at he
      exact ⟨le_of_lt he.1, ih hi (by simpa using hl) he.2⟩

theorem linspace01_mem {res k : Nat} (hk : k < res) : 0 ≤ linspace01 res k ∧ linspace01 res k ≤ 1 := by
  unfold linspace01
  split
  · exact ⟨le_refl _, by norm_num⟩
  · rename_i h
    have h2 : (1 : Nat) ≤ res - 1 := by omega
    have hpos : (0 : Rat) < ((res - 1 : Nat) : Rat) := by exact_mod_cast h2
    have hk' : (k : Rat) ≤ ((res - 1 : Nat) : Rat) := by
      have : k ≤ res - 1 := by omega
      exact_mod_cast this
    refine ⟨div_nonneg (by positivity) hpos.le, ?_⟩
    rw [div_le_one hpos]; exact hk'

theorem length_flatMap_const {α β} (l : List α) (f : α → List β) (c : Nat) (h : ∀ x ∈ l, (f x).length = c) :
    (l.flatMap f).length = l.length * c := by
  induction l with
  | nil => simp
  | cons a l ih =>
    rw [List.flatMap_cons, List.length_append, ih (fun x hx => h x (List.mem_cons_of_mem _ hx)),
      h a (List.mem_cons_self ..), List.length_cons]
    ring

theorem digitTuples_length (res : Nat) : ∀ d, (digitTuples res d).length = res ^ d := by
  intro d
  induction d with
  | zero => simp [digitTuples]
  | succ d ih =>
    rw [digitTuples, length_flatMap_const _ _ (res ^ d)]
    · rw [List.length_range]; ring
    · intro k _; rw [List.length_map, ih]

theorem digitTuples_mem (res : Nat) : ∀ d, ∀ t ∈ digitTuples res d, t.length = d ∧ ∀ k ∈ t, k < res := by
  intro d
  induction d with
  | zero => intro t ht; simp [digitTuples] at ht; subst ht; simp
  | succ d ih =>
    intro t ht
    simp only [digitTuples, List.mem_flatMap, List.mem_range, List.mem_map] at ht
    obtain ⟨k, hk, t', ht', rfl⟩ := ht
    obtain ⟨h1, h2⟩ := ih t' ht'
    refine ⟨by simp [h1], ?_⟩
    intro x hx
    rcases List.mem_cons.mp hx with rfl | hx
    · exact hk
    · exact h2 x hx

theorem xySwap_length (t : List Nat) : (xySwap t).length = t.length := by
  unfold xySwap; split <;> simp

theorem xySwap_mem (t : List Nat) (x : Nat) : x ∈ xySwap t ↔ x ∈ t := by
  unfold xySwap; split
  · simp only [List.mem_cons]; tauto
  · rfl

theorem unitGrid_mem (d res : Nat) : ∀ p ∈ unitGrid d res, p.length = d ∧ ∀ x ∈ p, 0 ≤ x ∧ x ≤ 1 := by
  intro p hp
  simp only [unitGrid, List.mem_map] at hp
  obtain ⟨t, ht, rfl⟩ := hp
  obtain ⟨h1, h2⟩ := digitTuples_mem res d t ht
  refine ⟨by rw [List.length_map, xySwap_length, h1], ?_⟩
  intro x hx
  obtain ⟨k, hk, rfl⟩ := List.mem_map.mp hx
  exact linspace01_mem (h2 k ((xySwap_mem t k).mp hk))

theorem boxLE_length : ∀ (lo hi : List Rat), BoxLE lo hi → lo.length = hi.length := by
  intro lo
  induction lo with
  | nil => intro hi h; cases hi with
    | nil => rfl
    | cons _ _ => simp [BoxLE] at h
  | cons l lo ih => intro hi h; cases hi with
    | nil => simp [BoxLE] at h
    | cons x hi => simp [ih hi h.2]

theorem total_map_div (w : List Rat) (c : Rat) : total (w.map (· / c)) = total w / c := by
  induction w with
  | nil => simp [total]
  | cons a w ih =>
    simp only [total, List.map_cons, List.foldr_cons] at ih ⊢
    rw [ih]; ring

theorem total_nonneg (w : List Rat) (h : ∀ x ∈ w, 0 ≤ x) : 0 ≤ total w := by
  induction w with
  | nil => simp [total]
  | cons a w ih =>
    simp only [total, List.foldr_cons] at ih ⊢
    have := ih (fun x hx => h x (List.mem_cons_of_mem _ hx))
    have := h a (List.mem_cons_self ..)
    linarith

theorem cbrt_unit {cb u : Rat} (h : cb * cb * cb = u) (h0 : 0 ≤ u) (h1 : u ≤ 1) : 0 ≤ cb ∧ cb ≤ 1 := by
  constructor
  · by_contra hc
    replace hc := not_le.mp hc
    have h2 : 0 < cb * cb := mul_pos_of_neg_of_neg hc hc
    have h3 : cb * cb * cb < 0 := mul_neg_of_pos_of_neg h2 hc
    linarith
  · by_contra hc
    replace hc := not_le.mp hc
    have h2 : 1 < cb * cb := by nlinarith
    have h3 : 1 < cb * cb * cb := by nlinarith
    linarith

theorem sqrt_unit {sq u : Rat} (h : sq * sq = u) (hs : 0 ≤ sq) (h1 : u ≤ 1) : sq ≤ 1 := by
  by_contra hc
  replace hc := not_le.mp hc
  have : 1 < sq * sq := by nlinarith
  linarith

theorem segPoint_eq (t : Rat) : ∀ (A B : Pt), A.length = B.length →
    segPoint t A B = List.zipWith (fun a b => b + t * (a - b)) A B := by
  intro A
  induction A with
  | nil => intro B _; cases B <;> simp [segPoint]
  | cons a A ih =>
    intro B h
    cases B with
    | nil => simp at h
    | cons b B =>
      simp only [segPoint, List.zipWith_cons_cons]
      rw [ih B (by simpa using h)]
      congr 1
      unfold segCoord; ring

theorem triPoint_eq (sq u2 : Rat) : ∀ (A B C : Pt),
    triPoint sq u2 A B C = comb3 (sq * (1 - u2)) (1 - sq) (u2 * sq) A B C := by
  intro A
  induction A with
  | nil => intro B C; simp [triPoint, comb3]
  | cons a A ih =>
    intro B C
    cases B with
    | nil => simp [triPoint, comb3]
    | cons b B =>
      cases C with
      | nil => simp [triPoint, comb3]
      | cons c C =>
        simp only [triPoint, comb3]
        rw [ih B C]
        congr 1
        unfold triCoord; ring

end Mouette.Lemmas.C19
