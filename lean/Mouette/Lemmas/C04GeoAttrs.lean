import Mouette.Lemmas.C04GeoChunks
import Mouette.Model.IOGeogramRef
/-! C04 (round 2): geogram_ascii with user attributes IN CONTEXT, and mixed cell arities with `cell_ptr`.

The three passes of `importChunks` are folds; a block `userChunks attrs k` (any number of attribute chunks) is
transparent for the sizes pass and the pointer pass and appends its attributes in the main pass.  With these
three block lemmas the 16 shapes of the exported chunk list are evaluated as in C04GeoChunks. -/
namespace Mouette.IO.Geo
open Mouette.IO
variable {C : Type}

/-- names with a fixed meaning for the importer: a user attribute may not use them -/
def specialNames : List String :=
  ["\"point\"", "\"GEO::Mesh::edges::edge_vertex\"", "\"GEO::Mesh::facet_corners::corner_vertex\"",
   "\"GEO::Mesh::cell_corners::corner_vertex\"", "\"GEO::Mesh::cell_facets::adjacent_cell\"", facetPtrName, cellPtrName]

/-- a well-formed user attribute: positive arity, values already in the canonical token form of their type,
name not reserved -/
def GoodAttr (cd : Codec C) (a : GAttr) : Prop :=
  a.dim ≠ 0 ∧ convVals cd a.typ a.vals = some a.vals ∧ a.name ∉ specialNames

def attrsOn (attrs : List GAttr) (k : Cont) : List GAttr := attrs.filter (fun a => a.cont == k)

theorem userChunks_eq (attrs : List GAttr) (k : Cont) : userChunks attrs k = (attrsOn attrs k).map attrChunk := rfl

/-! ### the three passes as named folds -/

def szStep (s : Sizes) (ch : Chunk) : Sizes :=
  match ch with
  | .atts c n => (match contOf c with
      | some k => fun k' => if k' = k then n else s k'
      | none => s)
  | _ => s

theorem sizesOf_eq (cs : List Chunk) : sizesOf cs = cs.foldl szStep (fun _ => 0) := rfl

theorem szStep_user (s : Sizes) (l : List GAttr) : (l.map attrChunk).foldl szStep s = s := by
  induction l generalizing s with
  | nil => rfl
  | cons a t ih => simp only [List.map_cons, List.foldl_cons]; exact ih s

def ptrStep (sz : Sizes) (s : (List Nat × List Nat) × (List Nat × List Nat)) (ch : Chunk) :
    Option ((List Nat × List Nat) × (List Nat × List Nat)) :=
  match ch with
  | .attr _ nm ty _ data =>
    if nm = facetPtrName then
      match typeOf ty, mapOpt readIdx0 data with
      | some .int, some d =>
        match ptrSizes (sz .facets) (sz .facetCorners) d with
        | some l => some ((s.1.1 ++ l, d), s.2)
        | none => none
      | _, _ => none
    else if nm = cellPtrName then
      match typeOf ty, mapOpt readIdx0 data with
      | some .int, some d =>
        match ptrSizes (sz .cells) (sz .cellCorners) d with
        | some l => some (s.1, (s.2.1 ++ l, d))
        | none => none
      | _, _ => none
    else some s
  | _ => some s

theorem ptrPass_eq (sz : Sizes) (cs : List Chunk) : ptrPass sz cs = foldOpt (ptrStep sz) (([], []), ([], [])) cs := rfl

theorem good_names (cd : Codec C) (a : GAttr) (h : GoodAttr cd a) :
    a.name ≠ "\"point\"" ∧ a.name ≠ "\"GEO::Mesh::edges::edge_vertex\"" ∧
    a.name ≠ "\"GEO::Mesh::facet_corners::corner_vertex\"" ∧ a.name ≠ "\"GEO::Mesh::cell_corners::corner_vertex\"" ∧
    a.name ≠ "\"GEO::Mesh::cell_facets::adjacent_cell\"" ∧ a.name ≠ facetPtrName ∧ a.name ≠ cellPtrName := by
  have := h.2.2
  simp only [specialNames, List.mem_cons, List.not_mem_nil, or_false, not_or] at this
  exact this

theorem ptrStep_user (cd : Codec C) (sz : Sizes) (l : List GAttr) (hg : ∀ a ∈ l, GoodAttr cd a)
    (s : (List Nat × List Nat) × (List Nat × List Nat)) :
    foldOpt (ptrStep sz) s (l.map attrChunk) = some s := by
  induction l with
  | nil => rfl
  | cons a t ih =>
    obtain ⟨_, _, _, _, _, h6, h7⟩ := good_names cd a (hg a (by simp))
    have : ptrStep sz s (attrChunk a) = some s := by simp [ptrStep, attrChunk, h6, h7]
    simp only [List.map_cons, foldOpt, this]
    exact ih (fun x hx => hg x (by simp [hx]))

theorem mainStep_user (cd : Codec C) (sz : Sizes) (fp cp : List Nat × List Nat) (l : List GAttr)
    (hg : ∀ a ∈ l, GoodAttr cd a) (g : GMesh C) :
    foldOpt (stepImport cd sz fp cp) g (l.map attrChunk) = some { g with attrs := g.attrs ++ l } := by
  induction l generalizing g with
  | nil => simp [foldOpt]
  | cons a t ih =>
    have ha := hg a (by simp)
    obtain ⟨h1, h2, h3, h4, h5, _, _⟩ := good_names cd a ha
    have := stepImport_attrChunk cd sz fp cp g a ha.1 ha.2.1 ⟨h1, h2, h3, h4, h5⟩
    simp only [List.map_cons, foldOpt, this]
    rw [ih (fun x hx => hg x (by simp [hx]))]
    simp

/-! block lemmas in the shape simp meets them: a user block followed by the rest of the chunk list -/

theorem ptr_user_end' (cd : Codec C) (sz : Sizes) (attrs : List GAttr) (hg : ∀ a ∈ attrs, GoodAttr cd a) (k : Cont)
    (s : (List Nat × List Nat) × (List Nat × List Nat)) :
    foldOpt (ptrStep sz) s (userChunks attrs k) = some s := by
  rw [userChunks_eq]
  exact ptrStep_user cd sz _ (fun a ha => hg a (List.mem_filter.mp ha).1) s

theorem main_user_end' (cd : Codec C) (sz : Sizes) (fp cp : List Nat × List Nat) (attrs : List GAttr)
    (hg : ∀ a ∈ attrs, GoodAttr cd a) (k : Cont) (g : GMesh C) :
    foldOpt (stepImport cd sz fp cp) g (userChunks attrs k) = some { g with attrs := g.attrs ++ attrsOn attrs k } := by
  rw [userChunks_eq]
  exact mainStep_user cd sz fp cp _ (fun a ha => hg a (List.mem_filter.mp ha).1) g

theorem sz_user_app (s : Sizes) (attrs : List GAttr) (k : Cont) (rest : List Chunk) :
    (userChunks attrs k ++ rest).foldl szStep s = rest.foldl szStep s := by
  rw [List.foldl_append, userChunks_eq, szStep_user]

theorem ptr_user_app (cd : Codec C) (sz : Sizes) (attrs : List GAttr) (hg : ∀ a ∈ attrs, GoodAttr cd a) (k : Cont)
    (rest : List Chunk) (s : (List Nat × List Nat) × (List Nat × List Nat)) :
    foldOpt (ptrStep sz) s (userChunks attrs k ++ rest) = foldOpt (ptrStep sz) s rest := by
  have := ptr_user_end' cd sz attrs hg k s
  rw [foldOpt_append_some _ _ _ _ _ this]

theorem main_user_app (cd : Codec C) (sz : Sizes) (fp cp : List Nat × List Nat) (attrs : List GAttr)
    (hg : ∀ a ∈ attrs, GoodAttr cd a) (k : Cont) (rest : List Chunk) (g : GMesh C) :
    foldOpt (stepImport cd sz fp cp) g (userChunks attrs k ++ rest)
      = foldOpt (stepImport cd sz fp cp) { g with attrs := g.attrs ++ attrsOn attrs k } rest := by
  have := main_user_end' cd sz fp cp attrs hg k g
  rw [foldOpt_append_some _ _ _ _ _ this]

theorem sz_user_end (s : Sizes) (attrs : List GAttr) (k : Cont) :
    (userChunks attrs k).foldl szStep s = s := by
  rw [userChunks_eq, szStep_user]

theorem ptr_user_end (cd : Codec C) (sz : Sizes) (attrs : List GAttr) (hg : ∀ a ∈ attrs, GoodAttr cd a) (k : Cont)
    (s : (List Nat × List Nat) × (List Nat × List Nat)) :
    foldOpt (ptrStep sz) s (userChunks attrs k) = some s := by
  rw [userChunks_eq]
  exact ptrStep_user cd sz _ (fun a ha => hg a (List.mem_filter.mp ha).1) s

theorem main_user_end (cd : Codec C) (sz : Sizes) (fp cp : List Nat × List Nat) (attrs : List GAttr)
    (hg : ∀ a ∈ attrs, GoodAttr cd a) (k : Cont) (g : GMesh C) :
    foldOpt (stepImport cd sz fp cp) g (userChunks attrs k) = some { g with attrs := g.attrs ++ attrsOn attrs k } := by
  rw [userChunks_eq]
  exact mainStep_user cd sz fp cp _ (fun a ha => hg a (List.mem_filter.mp ha).1) g

/-! ### export with attributes -/

set_option maxHeartbeats 4000000 in
theorem sizesOf_exportA (cd : Codec C) (g : GMesh C) : sizesOf (exportChunks cd g) = szOf g := by
  funext k
  rw [sizesOf_eq]
  by_cases he : g.raw.edges = [] <;> by_cases hf : g.raw.faces = [] <;> by_cases hc : g.raw.cells = [] <;>
    by_cases ht : (g.raw.faces.all (fun f => f.length == 3)) = true <;>
    by_cases hq : (g.raw.cells.all (fun c => c.length == 4)) = true <;>
    cases k <;>
    simp [exportChunks, szStep, contOf, Cont.name, szOf, he, hf, hc, ht, hq, sz_user_app, sz_user_end, List.foldl_append]

/-- the pointer pair the importer derives for the cells of an exported mesh -/
def cpOf (g : GMesh C) : List Nat × List Nat :=
  if g.raw.cells = [] ∨ g.raw.cells.all (fun c => c.length == 4) = true then ([], [])
  else (g.raw.cells.map List.length, prefixSums 0 g.raw.cells)

theorem cpOf_eq (g : GMesh C) : cpOf g = ptrOf 4 g.raw.cells := rfl

set_option maxHeartbeats 4000000 in
theorem ptrPass_exportA (cd : Codec C) (g : GMesh C) (hg : ∀ a ∈ g.attrs, GoodAttr cd a) :
    ptrPass (szOf g) (exportChunks cd g) = some (fpOf g, cpOf g) := by
  have hp : ∀ fs : List (List Nat), mapOpt readIdx0 ((prefixSums 0 fs).map idx0) = some (prefixSums 0 fs) :=
    fun fs => mapOpt_idx0 _
  have hpsF : g.raw.faces ≠ [] → ptrSizes g.raw.faces.length (g.raw.faces.map List.length).sum (prefixSums 0 g.raw.faces)
      = some (g.raw.faces.map List.length) := by
    intro hf; have := ptrSizes_export g.raw.faces hf; simpa only [List.length_flatten] using this
  have hpsC : g.raw.cells ≠ [] → ptrSizes g.raw.cells.length (g.raw.cells.map List.length).sum (prefixSums 0 g.raw.cells)
      = some (g.raw.cells.map List.length) := by
    intro hc; have := ptrSizes_export g.raw.cells hc; simpa only [List.length_flatten] using this
  have pa := fun sz k rest s => ptr_user_app cd sz g.attrs hg k rest s
  have pe := fun sz k s => ptr_user_end cd sz g.attrs hg k s
  rw [ptrPass_eq]
  by_cases he : g.raw.edges = [] <;> by_cases hf : g.raw.faces = [] <;> by_cases hc : g.raw.cells = [] <;>
    by_cases ht : (g.raw.faces.all (fun f => f.length == 3)) = true <;>
    by_cases hq : (g.raw.cells.all (fun c => c.length == 4)) = true <;>
    simp [exportChunks, ptrStep, foldOpt, facetPtrName, cellPtrName, typeOf, szOf, fpOf, cpOf, he, hf, hc, ht, hq, hp, pa, pe,
      hpsF, hpsC]

/-- attributes of the mesh that the exporter writes (those on a non-empty element set), in file order, with the
`facet_ptr` / `cell_ptr` blocks (re-read as integer attributes of the facets / cells) at their place -/
def expectedAttrs (g : GMesh C) : List GAttr :=
  attrsOn g.attrs .vertices
  ++ (if g.raw.edges = [] then [] else attrsOn g.attrs .edges)
  ++ (if g.raw.faces = [] then [] else
      (if g.raw.faces.all (fun f => f.length == 3) = true then [] else
        [{ cont := .facets, name := facetPtrName, typ := .int, dim := 1, vals := (prefixSums 0 g.raw.faces).map idx0 }])
      ++ attrsOn g.attrs .facets ++ attrsOn g.attrs .facetCorners)
  ++ (if g.raw.cells = [] then [] else
      (if g.raw.cells.all (fun c => c.length == 4) = true then [] else
        [{ cont := .cells, name := cellPtrName, typ := .int, dim := 1, vals := (prefixSums 0 g.raw.cells).map idx0 }])
      ++ attrsOn g.attrs .cells ++ attrsOn g.attrs .cellCorners)

def expectedGA (g : GMesh C) : GMesh C :=
  { raw := { g.raw with hard := none }, attrs := expectedAttrs g, adj := if g.raw.cells = [] then [] else g.adj }

set_option maxHeartbeats 16000000 in
theorem mainPass_exportA (cd : Codec C) (h : RoundTrips cd) (g : GMesh C) (hg : ∀ a ∈ g.attrs, GoodAttr cd a) :
    foldOpt (stepImport cd (szOf g) (defaultPtr 3 g.raw.faces.length (fpOf g)) (defaultPtr 4 g.raw.cells.length (cpOf g)))
      {} (exportChunks cd g) = some (expectedGA g) := by
  have hF := facesBuild g
  have hC := elemsBuild 4 g.raw.cells
  rw [← cpOf_eq] at hC
  have hA : mapOpt readIdx0 (g.adj.map idx0) = some g.adj := mapOpt_idx0 _
  have hFc : mapOpt readIdx0 (g.raw.faces.flatten.map idx0) = some g.raw.faces.flatten := mapOpt_idx0 _
  have hCc : mapOpt readIdx0 (g.raw.cells.flatten.map idx0) = some g.raw.cells.flatten := mapOpt_idx0 _
  have hP := pts_read cd h g.raw.verts
  have hE := edges_read g.raw.edges
  have hE3 : (g.raw.edges.flatMap (fun e => [e.1, e.2])).take (2 * g.raw.edges.length)
      = g.raw.edges.flatMap (fun e => [e.1, e.2]) := by
    apply List.take_of_length_le; rw [flat_len]; omega
  have hE4 := pairs_flat g.raw.edges
  have hV := convVals_int cd (prefixSums 0 g.raw.faces)
  have hW := convVals_int cd (prefixSums 0 g.raw.cells)
  have ma := fun sz fp cp k rest g' => main_user_app cd sz fp cp g.attrs hg k rest g'
  have me := fun sz fp cp k g' => main_user_end cd sz fp cp g.attrs hg k g'
  by_cases he : g.raw.edges = [] <;> by_cases hf : g.raw.faces = [] <;> by_cases hc : g.raw.cells = [] <;>
    by_cases ht : (g.raw.faces.all (fun f => f.length == 3)) = true <;>
    by_cases hq : (g.raw.cells.all (fun c => c.length == 4)) = true <;>
    simp [exportChunks, stepImport, foldOpt, facetPtrName, cellPtrName, typeOf, contOf, Cont.name, szOf,
      expectedGA, expectedAttrs, he, hf, hc, ht, hq, hF, hC, hA, hFc, hCc, hP, hE, hE3, hE4, hV, hW, triples_flat, sum_two,
      ma, me, -List.map_flatten]

theorem importChunks_exportChunks_attrs (cd : Codec C) (h : RoundTrips cd) (g : GMesh C)
    (hg : ∀ a ∈ g.attrs, GoodAttr cd a) :
    importChunks cd (exportChunks cd g) = some (expectedGA g) := by
  unfold importChunks
  simp only [sizesOf_exportA cd g, ptrPass_exportA cd g hg]
  exact mainPass_exportA cd h g hg

/-- every user attribute on a non-empty element set is among the attributes read back, unchanged -/
theorem attrs_come_back (g : GMesh C) (a : GAttr) (ha : a ∈ g.attrs)
    (hne : (a.cont = .vertices) ∨ (a.cont = .edges ∧ g.raw.edges ≠ []) ∨
           ((a.cont = .facets ∨ a.cont = .facetCorners) ∧ g.raw.faces ≠ []) ∨
           ((a.cont = .cells ∨ a.cont = .cellCorners) ∧ g.raw.cells ≠ [])) :
    a ∈ expectedAttrs g := by
  have mem : ∀ k, a.cont = k → a ∈ attrsOn g.attrs k := by
    intro k hk
    simp only [attrsOn, List.mem_filter]
    exact ⟨ha, by simp [hk]⟩
  unfold expectedAttrs
  rcases hne with h | ⟨h, hn⟩ | ⟨h, hn⟩ | ⟨h, hn⟩
  · simp [mem _ h]
  · simp [hn, mem _ h]
  · rcases h with h | h <;> simp [hn, mem _ h]
  · rcases h with h | h <;> simp [hn, mem _ h]

/-- nothing else is read back: an attribute of the result is a user attribute of the mesh or a `*_ptr` block -/
theorem attrs_nothing_else (g : GMesh C) (a : GAttr) (ha : a ∈ expectedAttrs g) :
    a ∈ g.attrs ∨ a.name = facetPtrName ∨ a.name = cellPtrName := by
  have sub : ∀ k, a ∈ attrsOn g.attrs k → a ∈ g.attrs := fun k hk => (List.mem_filter.mp hk).1
  unfold expectedAttrs at ha
  simp only [List.mem_append] at ha
  rcases ha with ((ha | ha) | ha) | ha
  · exact Or.inl (sub _ ha)
  · split at ha
    · simp at ha
    · exact Or.inl (sub _ ha)
  · split at ha
    · simp at ha
    · simp only [List.mem_append] at ha
      rcases ha with (ha | ha) | ha
      · split at ha
        · simp at ha
        · simp at ha; right; left; rw [ha]
      · exact Or.inl (sub _ ha)
      · exact Or.inl (sub _ ha)
  · split at ha
    · simp at ha
    · simp only [List.mem_append] at ha
      rcases ha with (ha | ha) | ha
      · split at ha
        · simp at ha
        · simp at ha; right; right; rw [ha]
      · exact Or.inl (sub _ ha)
      · exact Or.inl (sub _ ha)

end Mouette.IO.Geo
