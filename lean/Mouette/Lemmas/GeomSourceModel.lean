import Mouette.Lemmas.GeomSource
import Mouette.Lemmas.OpLemmas
import Mouette.Lemmas.MassEdges
/-
Normal forms of the hand model `Model/Geom.lean` used by the bridges `Generated.C07Src.f = Model.f` (Props/C07Source.lean).
-/
namespace Mouette.GeomSrc
open Mouette.Geom

theorem faceAreaTerms_len3 (vs : List V3) (f : Face) (h : f.length = 3) :
    faceAreaTerms vs f = (1, [triArea2 ((facePts vs f).getD 0 V3.zero) ((facePts vs f).getD 1 V3.zero) ((facePts vs f).getD 2 V3.zero)]) := by
  rcases f with _ | ⟨a, _ | ⟨b, _ | ⟨c, _ | ⟨d, r⟩⟩⟩⟩ <;> simp at h
  simp [faceAreaTerms, facePts]

theorem faceAreaTerms_len4 (vs : List V3) (f : Face) (h : f.length = 4) :
    faceAreaTerms vs f = (1 / 2, [triArea2 ((facePts vs f).getD 0 V3.zero) ((facePts vs f).getD 1 V3.zero) ((facePts vs f).getD 2 V3.zero),
      triArea2 ((facePts vs f).getD 0 V3.zero) ((facePts vs f).getD 2 V3.zero) ((facePts vs f).getD 3 V3.zero),
      triArea2 ((facePts vs f).getD 1 V3.zero) ((facePts vs f).getD 2 V3.zero) ((facePts vs f).getD 3 V3.zero),
      triArea2 ((facePts vs f).getD 1 V3.zero) ((facePts vs f).getD 3 V3.zero) ((facePts vs f).getD 0 V3.zero)]) := by
  rcases f with _ | ⟨a, _ | ⟨b, _ | ⟨c, _ | ⟨d, _ | ⟨e, r⟩⟩⟩⟩⟩ <;> simp at h
  simp [faceAreaTerms, facePts]

theorem faceAreaTerms_fan (vs : List V3) (f : Face) (h3 : f.length ≠ 3) (h4 : f.length ≠ 4) :
    faceAreaTerms vs f = (1, (List.range f.length).map (fun i =>
      triArea2 ((facePts vs f).getD i V3.zero) ((facePts vs f).getD ((i + 1) % f.length) V3.zero) (bary (facePts vs f)))) := by
  rcases f with _ | ⟨a, _ | ⟨b, _ | ⟨c, _ | ⟨d, _ | ⟨e, r⟩⟩⟩⟩⟩ <;> simp at h3 h4 <;> simp [faceAreaTerms, facePts]

/-- accumulating one root per step appends one radicand per step -/
theorem radicands_forRange_add (n : Nat) (v : SSum) (s : Nat → SSum) (r : Nat → Rat) (h : ∀ i, SSum.radicands (s i) = [r i]) :
    SSum.radicands (forRange n v (fun v i => SSum.add v (s i))) = SSum.radicands v ++ (List.range n).map r := by
  induction n with
  | zero => simp [forRange_zero]
  | succ n ih => rw [forRange_succ, radicands_add, ih, h, List.range_succ]; simp

theorem coefs_forRange_add (n : Nat) (v : SSum) (s : Nat → SSum) (hv : SSum.coefsNonneg v = true)
    (h : ∀ i, SSum.coefsNonneg (s i) = true) :
    SSum.coefsNonneg (forRange n v (fun v i => SSum.add v (s i))) = true := by
  induction n with
  | zero => simpa [forRange_zero] using hv
  | succ n ih => rw [forRange_succ, coefs_add, ih, h]; rfl

theorem getD_take (l : List Nat) (n k : Nat) (h : k < n) : (l.take n).getD k 0 = l.getD k 0 := by
  simp [List.getD_eq_getElem?_getD, List.getElem?_take, h]

/-- `degree` as a fold: every edge adds one at both end points -/
theorem degree_cons (e : Nat × Nat) (es : List (Nat × Nat)) (v : Nat) :
    degree (e :: es) v = (if e.1 = v then 1 else 0) + (if e.2 = v then 1 else 0) + degree es v := by
  simp only [degree, List.filter_cons]
  by_cases h1 : e.1 = v <;> by_cases h2 : e.2 = v <;> simp [h1, h2] <;> omega

/-- a running sum over `range n` is `rsum` of the table -/
theorem forRange_sum (n : Nat) (x0 : Rat) (f : Nat → Rat) :
    forRange n x0 (fun x i => x + f i) = x0 + rsum ((List.range n).map f) := by
  induction n with
  | zero => simp [forRange_zero, rsum]
  | succ n ih =>
    rw [forRange_succ, ih, List.range_succ, List.map_append, Mouette.Ops.rsum_append]
    simp [rsum]; ring

/-- `for v in l: x += g(v)` -/
theorem forEach_sum {β : Type} (l : List β) (x0 : Rat) (g : β → Rat) :
    forEach l x0 (fun x v => x + g v) = x0 + rsum (l.map g) := by
  induction l generalizing x0 with
  | nil => simp [forEach, rsum]
  | cons v vs ih =>
    simp only [forEach, List.foldl_cons, List.map_cons] at ih ⊢
    rw [ih, Mouette.Ops.rsum_cons]; ring

/-- scatter-add: `for c, v in enumerate(l): a[v] += g(c)` adds at `j` the `g c` of the positions `c` holding `j` -/
theorem forEnumFrom_scatter_add (g : Nat → Rat) : ∀ (l : List Nat) (k : Nat) (a : Attr Rat) (j : Nat),
    forEnumFrom k l a (fun a c v => upd a v (fun t => t + g c)) j
      = a j + rsum ((l.zipIdx k).map (fun p => if p.1 = j then g p.2 else 0)) := by
  intro l
  induction l with
  | nil => intro k a j; simp [forEnumFrom, rsum]
  | cons v vs ih =>
    intro k a j
    rw [forEnumFrom, ih, List.zipIdx_cons, List.map_cons, Mouette.Ops.rsum_cons]
    by_cases h : v = j
    · subst h; simp [upd]; ring
    · have h' : ¬ j = v := fun e => h e.symm
      simp [upd, h, h']

/-- `for i in l: a[i] = c` -/
theorem forEach_wr_const {α : Type} (c : α) : ∀ (l : List Nat) (a : Attr α) (v : Nat),
    forEach l a (fun a i => wr a i c) v = if v ∈ l then c else a v := by
  intro l
  induction l with
  | nil => intro a v; simp [forEach]
  | cons i is ih =>
    intro a v
    simp only [forEach, List.foldl_cons] at ih ⊢
    rw [ih]
    by_cases h1 : v ∈ is <;> by_cases h2 : v = i <;> simp [wr, h1, h2]

/-- positions of `v` in `l`, numbered from `k` -/
theorem zipIdx_positions (v : Nat) : ∀ (l : List Nat) (k : Nat),
    (l.zipIdx k).filterMap (fun p => if p.1 = v then some p.2 else none) = (indicesWhere l v).map (· + k) := by
  intro l
  induction l with
  | nil => intro k; simp [indicesWhere]
  | cons x xs ih =>
    intro k
    rw [List.zipIdx_cons, List.filterMap_cons, ih (k + 1)]
    simp only [indicesWhere, List.length_cons, List.range_succ_eq_map, List.filter_cons, List.getD_cons_zero, List.filter_map,
      List.map_map]
    have hcomp : ((fun i => (x :: xs).getD i 0 == v) ∘ Nat.succ) = (fun i => xs.getD i 0 == v) := by
      funext i; simp
    by_cases h : x = v
    · simp [h, hcomp, Function.comp_def]; intro a _; omega
    · simp [h, hcomp, Function.comp_def]; intro a _; omega

/-- the corner loop of `angle_defects`: every corner whose vertex is not skipped is appended to the list of its vertex -/
theorem corner_scatter_append (P : Nat → Bool) : ∀ (l : List Nat) (k : Nat) (a : Attr (Nat × List Nat)) (v : Nat),
    forEnumFrom k l a (fun a c w => if P w then a else upd a w (fun d => (d.1, d.2 ++ [c]))) v
      = if P v then a v else ((a v).1, (a v).2 ++ (l.zipIdx k).filterMap (fun p => if p.1 = v then some p.2 else none)) := by
  intro l
  induction l with
  | nil => intro k a v; simp [forEnumFrom]
  | cons w ws ih =>
    intro k a v
    rw [forEnumFrom, ih, List.zipIdx_cons, List.filterMap_cons]
    by_cases hP : P v
    · by_cases hw : w = v
      · subst hw; simp [hP]
      · by_cases hPw : P w <;> simp [hP, hPw, upd, hw, Ne.symm hw]
    · by_cases hw : w = v
      · subst hw; simp [hP, upd]
      · by_cases hPw : P w <;> simp [hP, hPw, upd, hw, Ne.symm hw]

theorem vsum_components (l : List V3) :
    (vsum l).x = rsum (l.map (·.x)) ∧ (vsum l).y = rsum (l.map (·.y)) ∧ (vsum l).z = rsum (l.map (·.z)) := by
  induction l with
  | nil => simp [vsum, rsum, V3.zero]
  | cons p ps ih =>
    simp only [vsum, rsum, List.foldr_cons, List.map_cons, add] at ih ⊢
    exact ⟨by rw [ih.1], by rw [ih.2.1], by rw [ih.2.2]⟩

/-- on a triangle mesh the first corner of face `t` is `3t` -/
theorem firstCorner_tri (faces : List Face) (h : ∀ f ∈ faces, f.length = 3) : ∀ (t : Nat), t ≤ faces.length → firstCorner faces t = 3 * t := by
  induction faces with
  | nil => intro t ht; simp at ht; subst ht; simp [firstCorner]
  | cons f fs ih =>
    intro t ht
    cases t with
    | zero => simp [firstCorner]
    | succ t =>
      have hf : f.length = 3 := h f (by simp)
      have := ih (fun g hg => h g (by simp [hg])) t (by simpa using ht)
      simp only [firstCorner, List.take_succ_cons, List.map_cons, List.sum_cons, hf] at this ⊢
      omega

theorem directFace_lt (faces : List Face) (a b : Nat) (r : Nat × Nat × Nat) (h : directFace faces a b = some r) : r.1 < faces.length := by
  have := Mouette.Ops.directFaceAux_lt faces 0 a b r h
  omega

end Mouette.GeomSrc
