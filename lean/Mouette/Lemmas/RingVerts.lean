import Mouette.Lemmas.RingMesh
/-! The first element of the sorted vertex ring of a border vertex (`vertex_to_vertices(v)[0]`): the
neighbour without half-edge, i.e. the source of the border side entering `v`.  Used by C15. -/
namespace Mouette.Surface
open Mouette.Props.C01

/-! ### generic: the head of a sorted list is its strict minimum -/

theorem head_mergeSort_of_min {α} {le : α → α → Bool}
    (trans : ∀ a b c, le a b = true → le b c = true → le a c = true)
    (total : ∀ a b, (le a b || le b a) = true) {cs : List α} {x : α} (hx : x ∈ cs)
    (hmin : ∀ y ∈ cs, y ≠ x → le y x = false) : ∃ rest, cs.mergeSort le = x :: rest := by
  have hs := List.pairwise_mergeSort trans total cs
  have hp := List.mergeSort_perm cs le
  have hxm : x ∈ cs.mergeSort le := hp.mem_iff.mpr hx
  cases hM : cs.mergeSort le with
  | nil => rw [hM] at hxm; cases hxm
  | cons h t =>
    rw [hM] at hs hxm
    by_cases hhx : h = x
    · exact ⟨t, by rw [hhx]⟩
    · exfalso
      have hxt : x ∈ t := by
        rcases List.mem_cons.mp hxm with h1 | h1
        · exact absurd h1.symm hhx
        · exact h1
      have h1 : le h x = true := (List.pairwise_cons.mp hs).1 x hxt
      have hh : h ∈ cs := hp.mem_iff.mp (by rw [hM]; exact List.mem_cons_self)
      rw [hmin h hh hhx] at h1
      cases h1

theorem leOptInt_trans (a b c : Option Int) (h1 : leOptInt a b = true) (h2 : leOptInt b c = true) :
    leOptInt a c = true := by
  cases a <;> cases b <;> cases c <;> simp_all [leOptInt]
  omega

theorem leOptInt_total (a b : Option Int) : (leOptInt a b || leOptInt b a) = true := by
  cases a <;> cases b <;> simp [leOptInt]
  omega

/-! ### neighbours -/

/-- the `_adjV2V` contribution of one edge -/
def otherEnd (A : Nat) (ab : Nat × Nat) : Option Nat :=
  if ab.1 == A then some ab.2 else if ab.2 == A then some ab.1 else none

theorem mem_neighbours {S : Surf} {A w : Nat} :
    w ∈ neighbours S A ↔ ∃ ab ∈ S.edges, otherEnd A ab = some w := by
  unfold neighbours sortNat
  rw [(List.mergeSort_perm _ _).mem_iff, List.mem_filterMap]
  constructor
  · rintro ⟨⟨a, b⟩, hm, h⟩; exact ⟨(a, b), hm, h⟩
  · rintro ⟨⟨a, b⟩, hm, h⟩; exact ⟨(a, b), hm, h⟩

theorem key2_cases (u v : Nat) : key2 u v = (u, v) ∨ key2 u v = (v, u) := by
  unfold key2; split <;> simp

section mesh
variable {faces : Faces} {nv : Nat}

/-- a neighbour of `A` is joined to `A` by a side of some face, in one direction or the other -/
theorem neighbour_side {A w : Nat} (h : w ∈ neighbours (build nv faces true) A) :
    (∃ f i, IsSide faces f i A w) ∨ (∃ f i, IsSide faces f i w A) := by
  obtain ⟨⟨a, b⟩, hm, ho⟩ := mem_neighbours.mp h
  have hm' : (a, b) ∈ edgesOf faces := hm
  obtain ⟨f, i, u, v, hside, hk⟩ := mem_edgesOf.mp hm'
  unfold otherEnd at ho
  simp only at ho
  rcases key2_cases u v with h1 | h1 <;> rw [h1] at hk <;> simp only [Prod.mk.injEq] at hk <;>
    obtain ⟨rfl, rfl⟩ := hk
  · by_cases ha : (a == A) = true
    · rw [if_pos ha] at ho
      simp only [beq_iff_eq] at ha; subst ha
      exact Or.inl ⟨f, i, by rw [← Option.some.inj ho]; exact hside⟩
    · rw [if_neg ha] at ho
      by_cases hb : (b == A) = true
      · rw [if_pos hb] at ho
        simp only [beq_iff_eq] at hb; subst hb
        exact Or.inr ⟨f, i, by rw [← Option.some.inj ho]; exact hside⟩
      · rw [if_neg hb] at ho; cases ho
  · by_cases ha : (a == A) = true
    · rw [if_pos ha] at ho
      simp only [beq_iff_eq] at ha; subst ha
      exact Or.inr ⟨f, i, by rw [← Option.some.inj ho]; exact hside⟩
    · rw [if_neg ha] at ho
      by_cases hb : (b == A) = true
      · rw [if_pos hb] at ho
        simp only [beq_iff_eq] at hb; subst hb
        exact Or.inl ⟨f, i, by rw [← Option.some.inj ho]; exact hside⟩
      · rw [if_neg hb] at ho; cases ho

/-- both end points of a side are neighbours of each other -/
theorem side_neighbour {f i u v : Nat} (hside : IsSide faces f i u v) :
    u ∈ neighbours (build nv faces true) v ∧ v ∈ neighbours (build nv faces true) u := by
  have hm : key2 u v ∈ (build nv faces true).edges := mem_edgesOf.mpr ⟨f, i, u, v, hside, rfl⟩
  constructor
  · refine mem_neighbours.mpr ⟨key2 u v, hm, ?_⟩
    unfold otherEnd key2
    by_cases h : u ≤ v
    · simp only [if_pos h]
      by_cases h2 : (u == v) = true
      · rw [if_pos h2]; simp only [beq_iff_eq] at h2; rw [h2]
      · rw [if_neg h2]; simp
    · simp only [if_neg h]; simp
  · refine mem_neighbours.mpr ⟨key2 u v, hm, ?_⟩
    unfold otherEnd key2
    by_cases h : u ≤ v
    · simp only [if_pos h]; simp
    · simp only [if_neg h]
      by_cases h2 : (v == u) = true
      · rw [if_pos h2]; simp only [beq_iff_eq] at h2; rw [h2]
      · rw [if_neg h2]; simp

/-- **first ring neighbour of a border vertex**: with sorted rings, `vertex_to_vertices(A)` starts with
the vertex `w0` such that `(w0 → A)` is a side of a face and `(A → w0)` is not (the border side
entering `A`) -/
theorem v2v_head_border (hO : Oriented faces) {A : Nat} {ring : List Nat}
    (hr : RingOpen (build nv faces true) A ring) (hne : ring ≠ []) :
    ∃ w0 rest, vertexToVertices (build nv faces true) A = w0 :: rest ∧
      (∃ f i, IsSide faces f i w0 A) ∧ (∀ f i, ¬ IsSide faces f i A w0) := by
  have hlen : 0 < ring.length := List.length_pos_iff.mpr hne
  have hc0 : ring[0] ∈ cornersAt (build nv faces true) A := hr.perm.mem_iff.mp (List.getElem_mem hlen)
  obtain ⟨f, i, hf, hi, hv, hc⟩ := mem_cornersAt.mp hc0
  -- the vertex before `A` in the face of the first corner
  refine ⟨(fa faces f).getD ((i + (fa faces f).length - 1) % (fa faces f).length) 0, ?_⟩
  have hside0 : IsSide faces f ((i + (fa faces f).length - 1) % (fa faces f).length)
      ((fa faces f).getD ((i + (fa faces f).length - 1) % (fa faces f).length) 0) A :=
    ⟨hf, pred_lt hi, rfl, by rw [pred_succ_mod hi]; exact hv⟩
  have hfirst := hr.first hlen
  rw [hc, stepB_eq nv true hO hf hi, hv] at hfirst
  have hno : ∀ g j, ¬ IsSide faces g j A ((fa faces f).getD ((i + (fa faces f).length - 1) % (fa faces f).length) 0) := by
    intro g j hs
    have := (halfEdgeToCorner_eq_spec nv true hO _ _ _).mpr ⟨g, j, hs, rfl⟩
    rw [hfirst] at this; cases this
  -- unfold vertex_to_vertices
  have hcne : (cornersAt (build nv faces true) A).isEmpty = false := by
    cases hcs : cornersAt (build nv faces true) A with
    | nil => rw [hcs] at hc0; cases hc0
    | cons _ _ => rfl
  obtain ⟨p, _, hcons, hcover⟩ := sortIndex_open hr hne
  have hmain : ∃ rest, (neighbours (build nv faces true) A).mergeSort
      (fun a b => leOptInt (keyV (build nv faces true) (sortIndex (build nv faces true) A).1 A a)
        (keyV (build nv faces true) (sortIndex (build nv faces true) A).1 A b)) =
      (fa faces f).getD ((i + (fa faces f).length - 1) % (fa faces f).length) 0 :: rest := by
    apply head_mergeSort_of_min
    · intro a b c; exact leOptInt_trans _ _ _
    · intro a b; exact leOptInt_total _ _
    · exact (side_neighbour hside0).1
    · intro w hw hne'
      -- `w0` has key -inf, every other neighbour has a finite key
      have hk0 : keyV (build nv faces true) (sortIndex (build nv faces true) A).1 A
          ((fa faces f).getD ((i + (fa faces f).length - 1) % (fa faces f).length) 0) = none := by
        unfold keyV; rw [hfirst]; rfl
      rw [hk0]
      have hsome : ∃ k, keyV (build nv faces true) (sortIndex (build nv faces true) A).1 A w = some k := by
        by_cases hex : ∃ g j, IsSide faces g j A w
        · -- the half-edge (A → w) exists: its corner is a corner at A, hence in the dictionary
          obtain ⟨g, j, hs⟩ := hex
          have hcw := (halfEdgeToCorner_eq_spec nv true hO A w _).mpr ⟨g, j, hs, rfl⟩
          have hmem : offset faces g + j ∈ cornersAt (build nv faces true) A :=
            mem_cornersAt.mpr ⟨g, j, hs.1, hs.2.1, hs.2.2.1, rfl⟩
          obtain ⟨t, ht, hrt⟩ := List.mem_iff_getElem.mp (hr.perm.mem_iff.mpr hmem)
          have hin := hcover t ht
          rw [hrt] at hin
          obtain ⟨e, he, he1⟩ := List.mem_map.mp hin
          unfold keyV
          rw [hcw]
          simp only [Option.bind_some]
          have hsome : ((sortIndex (build nv faces true) A).1.find? fun e => e.1 == offset faces g + j).isSome := by
            rw [List.find?_isSome]; exact ⟨e, he, by simp [he1]⟩
          obtain ⟨e', he'⟩ := Option.isSome_iff_exists.mp hsome
          exact ⟨e'.2, by rw [he']; rfl⟩
        · -- only (w → A) exists: the corner after it has `stepB = none`, so it is ring[0] and w = w0
          exfalso
          have hnoAw : ∀ g j, ¬ IsSide faces g j A w := fun g j hs => hex ⟨g, j, hs⟩
          rcases neighbour_side hw with ⟨g, j, hs⟩ | ⟨g, j, hs⟩
          · exact hnoAw g j hs
          · obtain ⟨hg, hj, hGj, hGj1⟩ := hs
            have hj' : (j + 1) % (fa faces g).length < (fa faces g).length := Nat.mod_lt _ (by omega)
            have hstep : stepB (build nv faces true) (offset faces g + (j + 1) % (fa faces g).length) = none := by
              rw [stepB_eq nv true hO hg hj', succ_pred_mod hj, hGj1, hGj]
              cases hh : halfEdgeToCorner (build nv faces true) A w with
              | none => rfl
              | some c =>
                obtain ⟨g', j', hs', _⟩ := (halfEdgeToCorner_eq_spec nv true hO A w c).mp hh
                exact absurd hs' (hnoAw g' j')
            have hmem : offset faces g + (j + 1) % (fa faces g).length ∈ cornersAt (build nv faces true) A :=
              mem_cornersAt.mpr ⟨g, _, hg, hj', hGj1, rfl⟩
            obtain ⟨t, ht, hrt⟩ := List.mem_iff_getElem.mp (hr.perm.mem_iff.mpr hmem)
            cases t with
            | succ t' =>
              have := hr.back t' ht
              rw [hrt, hstep] at this; cases this
            | zero =>
              rw [hc] at hrt
              obtain ⟨hfg, hij⟩ := corner_inj faces hf hg hi hj' hrt
              subst hfg
              apply hne'
              rw [hij, succ_pred_mod hj, hGj]
      obtain ⟨k, hk⟩ := hsome
      rw [hk]; rfl
  obtain ⟨rest, hrest⟩ := hmain
  refine ⟨rest, ?_, ⟨f, _, hside0⟩, hno⟩
  unfold vertexToVertices
  have hsrt : (build nv faces true).sortOn = true := rfl
  simp only [hsrt, hcne, Bool.not_false, Bool.and_self, if_true]
  exact hrest

end mesh

end Mouette.Surface
