import Mouette.Lemmas.BorderAll
import Mouette.Lemmas.RingVerts2
import Mouette.Lemmas.Features
/-! C15: the edges collected by `extract_boundary_of_surface` are exactly the boundary edges, each once, and
the polyline is their image under the index map. -/
namespace Mouette.Border
open Mouette.Surface Mouette.Props.C01

theorem key2_eq {a b c d : Nat} (h : key2 a b = key2 c d) : (a = c ∧ b = d) ∨ (a = d ∧ b = c) := by
  rcases key2_cases a b with h1 | h1 <;> rcases key2_cases c d with h2 | h2 <;>
    rw [h1, h2] at h <;> simp only [Prod.mk.injEq] at h <;> omega

theorem key2_of_le {a b : Nat} (h : a ≤ b) : key2 a b = (a, b) := by unfold key2; simp [h]

theorem boundaryEdges_nodup (S : Surf) : (boundaryEdges S).Nodup := by
  unfold boundaryEdges
  have hsub : ((S.edges.zipIdx.filter fun e => isEdgeOnBorder S e.1.1 e.1.2).map (·.2)).Sublist (S.edges.zipIdx.map (·.2)) :=
    (List.filter_sublist).map _
  have hnd : (S.edges.zipIdx.map (·.2)).Nodup := by rw [List.zipIdx_map_snd]; exact List.nodup_range'
  exact hnd.sublist hsub

theorem mapM_option_eq {α β} (f : α → Option β) (g : α → β) :
    ∀ l : List α, (∀ x ∈ l, f x = some (g x)) → l.mapM f = some (l.map g) := by
  intro l
  induction l with
  | nil => intro _; rfl
  | cons a rest ih =>
    intro h
    rw [List.mapM_cons, h a List.mem_cons_self, ih (fun x hx => h x (List.mem_cons_of_mem _ hx))]
    rfl

section mesh
variable {faces : Faces} {nv : Nat}

/-- the edge joining a boundary vertex to its border predecessor -/
def bedge (faces : Faces) (nv : Nat) (x : Nat) : Option Nat := edgeId (build nv faces true) x (w0 faces nv x)

theorem bedge_spec (hO : Oriented faces) (hU : BorderUmbrella faces nv) {x : Nat}
    (hx : x ∈ boundaryVertices (build nv faces true)) :
    ∃ e, bedge faces nv x = some e ∧ e ∈ boundaryEdges (build nv faces true) ∧
      (build nv faces true).edges[e]? = some (key2 x (w0 faces nv x)) := by
  obtain ⟨_, ⟨f, i, hs⟩, hn⟩ := w0_spec hO hU hx
  obtain ⟨e, _, he2, he3⟩ := edgeId_border (nv := nv) hO hs hn
  exact ⟨e, he2, he3, (edgeId_eq_spec nv true _ _ e).mp he2⟩

/-- every cycle's edge list is the image of its vertex list under `bedge` -/
theorem cycle_edges (hO : Oriented faces) (hR : InRange faces nv) (hU : BorderUmbrella faces nv)
    {c : List Nat × List (Option Nat)}
    (hc : c ∈ cyclesAll (build nv faces true) (boundaryVertices (build nv faces true))) :
    c.2 = c.1.map (bedge faces nv) := by
  have H := walkHyp_of_mesh hO hR hU
  have hbvlen : (boundaryVertices (build nv faces true)).length ≤ (build nv faces true).nv := by
    unfold boundaryVertices
    exact (List.length_filter_le _ _).trans (by simp)
  have hnd : (boundaryVertices (build nv faces true)).Nodup := by
    unfold boundaryVertices; exact List.nodup_range.sublist List.filter_sublist
  obtain ⟨u, hu, hcu⟩ := (cyclesAll_correct H hbvlen hnd).2 c hc
  obtain ⟨d, hd, hret, hmin⟩ := orbit_returns H hu
  have := extractBorderCycle_eq H hu d (by omega) hret hmin
  rw [this] at hcu
  have hce := (Option.some.inj hcu).symm
  subst hce
  simp only [List.map_map]
  apply List.map_congr_left
  intro t _
  rfl

theorem all_edges_eq (hO : Oriented faces) (hR : InRange faces nv) (hU : BorderUmbrella faces nv) :
    (cyclesAll (build nv faces true) (boundaryVertices (build nv faces true))).flatMap (·.2) =
      ((cyclesAll (build nv faces true) (boundaryVertices (build nv faces true))).flatMap (·.1)).map (bedge faces nv) := by
  rw [List.map_flatMap]
  apply List.flatMap_congr
  intro c hc
  exact cycle_edges hO hR hU hc

/-- `bedge` is a bijection from the boundary vertices onto the boundary edges -/
theorem bedge_perm (hO : Oriented faces) (hR : InRange faces nv) (hU : BorderUmbrella faces nv) :
    ((boundaryVertices (build nv faces true)).map (bedge faces nv)).Perm
      ((boundaryEdges (build nv faces true)).map some) := by
  have H := walkHyp_of_mesh hO hR hU
  have hbnd : (boundaryVertices (build nv faces true)).Nodup := by
    unfold boundaryVertices; exact List.nodup_range.sublist List.filter_sublist
  have hinj : ∀ x ∈ boundaryVertices (build nv faces true), ∀ y ∈ boundaryVertices (build nv faces true),
      bedge faces nv x = bedge faces nv y → x = y := by
    intro x hx y hy hxy
    obtain ⟨e, he, _, hk⟩ := bedge_spec hO hU hx
    obtain ⟨e', he', _, hk'⟩ := bedge_spec hO hU hy
    rw [he, he'] at hxy
    have : e = e' := Option.some.inj hxy
    subst this
    rw [hk] at hk'
    rcases key2_eq (Option.some.inj hk') with ⟨h1, _⟩ | ⟨h1, h2⟩
    · exact h1
    · exfalso
      have := H.noback y hy
      rw [← h1, h2] at this
      exact this rfl
  have hnd1 : ((boundaryVertices (build nv faces true)).map (bedge faces nv)).Nodup := by
    rw [List.Nodup, List.pairwise_map]
    refine hbnd.imp_of_mem ?_
    intro a b ha hb hab he
    exact hab (hinj a ha b hb he)
  have hnd2 : ((boundaryEdges (build nv faces true)).map some).Nodup := by
    rw [List.Nodup, List.pairwise_map]
    exact (boundaryEdges_nodup _).imp (fun h he => h (Option.some.inj he))
  have hsub1 : (boundaryVertices (build nv faces true)).map (bedge faces nv) ⊆
      (boundaryEdges (build nv faces true)).map some := by
    intro o ho
    obtain ⟨x, hx, rfl⟩ := List.mem_map.mp ho
    obtain ⟨e, he, hb, _⟩ := bedge_spec hO hU hx
    rw [he]; exact List.mem_map.mpr ⟨e, hb, rfl⟩
  have hsub2 : (boundaryEdges (build nv faces true)).map some ⊆
      (boundaryVertices (build nv faces true)).map (bedge faces nv) := by
    intro o ho
    obtain ⟨e, he, rfl⟩ := List.mem_map.mp ho
    obtain ⟨a, b, hab, hbd⟩ := ((border_partition (build nv faces true)).2.1 e).mp he
    have hmem : (a, b) ∈ edgesOf faces := List.mem_iff_getElem?.mpr ⟨e, hab⟩
    have hle := edges_le hmem
    rcases border_edge_cases hO hbd with ⟨⟨f, i, hs⟩, hn⟩ | ⟨⟨f, i, hs⟩, hn⟩
    · -- side a → b without reverse: b is a boundary vertex whose predecessor is a
      have hb := (bv_of_side hO hR hs hn).2
      obtain ⟨ring, hr, _⟩ := hU b hb
      obtain ⟨_, hsb, hnb⟩ := w0_spec hO hU hb
      have hw : w0 faces nv b = a := in_border_unique hO hr hsb hnb ⟨f, i, hs⟩ hn
      refine List.mem_map.mpr ⟨b, hb, ?_⟩
      unfold bedge
      rw [hw]
      exact (edgeId_eq_spec nv true b a e).mpr (by rw [key2_comm, key2_of_le hle]; exact hab)
    · have ha := (bv_of_side hO hR hs hn).2
      obtain ⟨ring, hr, _⟩ := hU a ha
      obtain ⟨_, hsa, hna⟩ := w0_spec hO hU ha
      have hw : w0 faces nv a = b := in_border_unique hO hr hsa hna ⟨f, i, hs⟩ hn
      refine List.mem_map.mpr ⟨a, ha, ?_⟩
      unfold bedge
      rw [hw]
      exact (edgeId_eq_spec nv true a b e).mpr (by rw [key2_of_le hle]; exact hab)
  exact (List.subperm_of_subset hnd1 hsub1).antisymm (List.subperm_of_subset hnd2 hsub2)

/-- the edge ids collected over all cycles are a permutation of the boundary edges -/
theorem all_edges_perm (hO : Oriented faces) (hR : InRange faces nv) (hU : BorderUmbrella faces nv) :
    ((cyclesAll (build nv faces true) (boundaryVertices (build nv faces true))).flatMap (·.2)).Perm
      ((boundaryEdges (build nv faces true)).map some) := by
  have H := walkHyp_of_mesh hO hR hU
  have hbvlen : (boundaryVertices (build nv faces true)).length ≤ (build nv faces true).nv := by
    unfold boundaryVertices
    exact (List.length_filter_le _ _).trans (by simp)
  have hnd : (boundaryVertices (build nv faces true)).Nodup := by
    unfold boundaryVertices; exact List.nodup_range.sublist List.filter_sublist
  rw [all_edges_eq hO hR hU]
  exact ((cyclesAll_correct H hbvlen hnd).1.map _).trans (bedge_perm hO hR hU)

/-- the polyline edge computed for a collected edge id -/
def polyEdge (S : Surf) (m : List (Nat × Nat)) (oe : Option Nat) : Nat × Nat :=
  match oe with
  | some e => match S.edges[e]? with
    | some ab => key2 ((lookupMap m ab.1).getD 0) ((lookupMap m ab.2).getD 0)
    | none => (0, 0)
  | none => (0, 0)

/-- **`extract_boundary_of_surface`**: it succeeds; the polyline has one vertex per boundary vertex; the surface
edges it collects are a permutation of `boundary_edges`; the `k`-th polyline edge is `keyify(map[a], map[b])`
for the `k`-th collected surface edge `(a,b)`, and the inverse of the map sends it back to `(a,b)` -/
theorem extractBoundary_correct (hO : Oriented faces) (hR : InRange faces nv) (hU : BorderUmbrella faces nv) :
    ∃ pe m, extractBoundary (build nv faces true) (boundaryVertices (build nv faces true)) =
        some (pe, m, (boundaryVertices (build nv faces true)).length) ∧
      ∃ es : List (Option Nat), es.Perm ((boundaryEdges (build nv faces true)).map some) ∧ pe.length = es.length ∧
        ∀ k (hk : k < es.length), ∃ e a b i j, es[k] = some e ∧ (build nv faces true).edges[e]? = some (a, b) ∧
          lookupMap m a = some i ∧ lookupMap m b = some j ∧ pe[k]? = some (key2 i j) ∧
          invLookup m i = some a ∧ invLookup m j = some b := by
  have H := walkHyp_of_mesh hO hR hU
  have hbvlen : (boundaryVertices (build nv faces true)).length ≤ (build nv faces true).nv := by
    unfold boundaryVertices
    exact (List.length_filter_le _ _).trans (by simp)
  have hnd : (boundaryVertices (build nv faces true)).Nodup := by
    unfold boundaryVertices; exact List.nodup_range.sublist List.filter_sublist
  have hperm := (cyclesAll_correct H hbvlen hnd).1
  -- abbreviations
  generalize hcs : cyclesAll (build nv faces true) (boundaryVertices (build nv faces true)) = cs at hperm
  have hes : cs.flatMap (fun c => c.2) = (cs.flatMap (fun c => c.1)).map (bedge faces nv) := by rw [← hcs]; exact all_edges_eq hO hR hU
  have hvnd : (cs.flatMap (fun c => c.1)).Nodup := hperm.nodup_iff.mpr hnd
  have hvmem : ∀ x, x ∈ cs.flatMap (fun c => c.1) ↔ x ∈ boundaryVertices (build nv faces true) := fun x => hperm.mem_iff
  -- every collected edge is processed successfully
  have hok : ∀ oe ∈ cs.flatMap (fun c => c.2), ∃ e a b i j, oe = some e ∧ (build nv faces true).edges[e]? = some (a, b) ∧
      lookupMap (indexMap (cs.flatMap (fun c => c.1))) a = some i ∧ lookupMap (indexMap (cs.flatMap (fun c => c.1))) b = some j ∧
      invLookup (indexMap (cs.flatMap (fun c => c.1))) i = some a ∧ invLookup (indexMap (cs.flatMap (fun c => c.1))) j = some b := by
    intro oe hoe
    rw [hes] at hoe
    obtain ⟨x, hx, rfl⟩ := List.mem_map.mp hoe
    have hxb := (hvmem x).mp hx
    obtain ⟨e, he, _, hk⟩ := bedge_spec hO hU hxb
    have hwb : w0 faces nv x ∈ boundaryVertices (build nv faces true) := H.mem x hxb
    have hlook : ∀ y, y ∈ boundaryVertices (build nv faces true) →
        ∃ i, lookupMap (indexMap (cs.flatMap (fun c => c.1))) y = some i ∧ invLookup (indexMap (cs.flatMap (fun c => c.1))) i = some y := by
      intro y hy
      obtain ⟨i, hi, hyi⟩ := List.mem_iff_getElem.mp ((hvmem y).mpr hy)
      have h1 : (cs.flatMap (fun c => c.1))[i]? = some y := by rw [List.getElem?_eq_getElem hi, hyi]
      exact ⟨i, (find_zipIdx_reverse_nat hvnd y i).mpr h1, invLookup_indexMap _ i y h1⟩
    rcases key2_cases x (w0 faces nv x) with h1 | h1
    · obtain ⟨i, hi1, hi2⟩ := hlook x hxb
      obtain ⟨j, hj1, hj2⟩ := hlook _ hwb
      exact ⟨e, x, w0 faces nv x, i, j, he, by rw [hk, h1], hi1, hj1, hi2, hj2⟩
    · obtain ⟨i, hi1, hi2⟩ := hlook x hxb
      obtain ⟨j, hj1, hj2⟩ := hlook _ hwb
      exact ⟨e, w0 faces nv x, x, j, i, he, by rw [hk, h1], hj1, hi1, hj2, hi2⟩
  have hmap := mapM_option_eq
    (fun (oe : Option Nat) => do
      let e ← oe
      let (ab : Nat × Nat) ← (build nv faces true).edges[e]?
      let a ← lookupMap (indexMap (cs.flatMap (fun c => c.1))) ab.1
      let b ← lookupMap (indexMap (cs.flatMap (fun c => c.1))) ab.2
      pure (key2 a b))
    (polyEdge (build nv faces true) (indexMap (cs.flatMap (fun c => c.1)))) (cs.flatMap (fun c => c.2))
    (by
      intro oe hoe
      obtain ⟨e, a, b, i, j, rfl, hab, hi, hj, _, _⟩ := hok oe hoe
      simp [polyEdge, hab, hi, hj])
  refine ⟨(cs.flatMap (fun c => c.2)).map (polyEdge (build nv faces true) (indexMap (cs.flatMap (fun c => c.1)))),
    indexMap (cs.flatMap (fun c => c.1)), ?_, cs.flatMap (fun c => c.2), ?_, by simp, ?_⟩
  · unfold extractBoundary
    rw [hcs]
    simp only [hmap, Option.map_some, hperm.length_eq]
  · rw [← hcs]; exact all_edges_perm hO hR hU
  · intro k hk
    obtain ⟨e, a, b, i, j, he, hab, hi, hj, hi2, hj2⟩ := hok _ (List.getElem_mem hk)
    refine ⟨e, a, b, i, j, he, hab, hi, hj, ?_, hi2, hj2⟩
    rw [List.getElem?_map, List.getElem?_eq_getElem hk, he]
    simp [polyEdge, hab, hi, hj]

end mesh

end Mouette.Border
