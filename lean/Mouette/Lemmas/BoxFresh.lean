import Mouette.Lemmas.BoxHist
/-
Every operation of the (repaired) box history is of one of four kinds: it leaves the state alone, it allocates a FRESH
box, it pads one box in place, or it only touches numpy's error state.  Consequences: results are fresh, and every box the
caller holds - other than the one being padded - keeps its value.
-/
namespace Mouette.BoxHist
open Mouette.AABB

/-- what one operation can do to the state -/
inductive StepKind (s : State) (op : Op) (s' : State) : Prop where
  | same (h : s' = s)
  | alloc (bx : Box) (h : s' = s.allocBox bx) (hop : ∀ b x, op ≠ .padf b x) (hop' : ∀ b i, op ≠ .padv b i)
  | pad (b : Nat) (rb : BoxRef) (p : List Rat) (harg : s.boxArg b = some rb) (hp : padAt s rb p = some s')
      (hop : (∃ x, op = .padf b x) ∨ (∃ i, op = .padv b i))
  | err (e : Err) (h : s' = { s with err := e })

theorem step_kind (s : State) (op : Op) : StepKind s op (step s op).1 := by
  cases op <;> simp only [step, stepWith]
  case mk i j =>
    split
    · rename_i s' hs'; exact .alloc _ (mkCopy_eq hs') (by simp) (by simp)
    · exact .same rfl
  case inf d => exact .alloc _ rfl (by simp) (by simp)
  case cube d c => exact .alloc _ rfl (by simp) (by simp)
  case ofp is pad => split <;> [exact .alloc _ rfl (by simp) (by simp); exact .same rfl]
  case inter a b =>
    split
    · split <;> [exact .alloc _ rfl (by simp) (by simp); exact .same rfl]
    · exact .same rfl
  case union a b =>
    split
    · split <;> [exact .alloc _ rfl (by simp) (by simp); exact .same rfl]
    · exact .same rfl
  case doint a b =>
    split
    · split <;> exact .same rfl
    · exact .same rfl
  case padf b x =>
    split
    · rename_i rb hb
      split
      · rename_i s' hp; exact .pad b rb _ hb hp (Or.inl ⟨x, rfl⟩)
      · exact .same rfl
    · exact .same rfl
  case padv b i =>
    split
    · rename_i rb hb
      split
      · rename_i s' hp; exact .pad b rb _ hb hp (Or.inr ⟨i, rfl⟩)
      · exact .same rfl
    · exact .same rfl
  case contains b i =>
    split
    · split <;> exact .same rfl
    · exact .same rfl
  case project b i =>
    split
    · split <;> exact .same rfl
    · exact .same rfl
  case dist b i w =>
    split
    · split <;> exact .same rfl
    · exact .same rfl
  case empty b => split <;> exact .same rfl
  case center b =>
    split
    · split <;> exact .same rfl
    · exact .same rfl
  case span b =>
    split
    · split <;> exact .same rfl
    · exact .same rfl
  case get b => split <;> exact .same rfl
  case nrm i => exact .err _ rfl

theorem allocBox_get (s : State) (bx : Box) (r : Nat) (hr : r < s.heap.length) : (s.allocBox bx).get r = s.get r := by
  simp only [State.allocBox, State.get, List.getD_eq_getElem?_getD, List.getElem?_append_left hr]

theorem allocBox_new_box (s : State) (bx : Box) :
    (s.allocBox bx).box ⟨s.heap.length, s.heap.length + 1⟩ = bx := by
  simp only [State.allocBox, State.box, State.get, List.getD_eq_getElem?_getD]
  have h1 : (s.heap ++ [bx.lo, bx.hi])[s.heap.length]? = some bx.lo := by
    rw [List.getElem?_append_right (Nat.le_refl _)]; simp
  have h2 : (s.heap ++ [bx.lo, bx.hi])[s.heap.length + 1]? = some bx.hi := by
    rw [List.getElem?_append_right (by omega)]; simp
  rw [h1, h2]
  cases bx; rfl

end Mouette.BoxHist
