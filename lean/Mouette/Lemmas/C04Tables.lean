import Mouette.Model.IOTables
import Mouette.Lemmas.C04Basic
/-! C04 (round 2): the model's hand-written dispatch (`Geo.typeOf`, `Geo.AType.header`, `stepObj`) agrees with the
tables of Model/IOTables.lean (which are bridged to the tables extracted from the source in Props/C04). -/
namespace Mouette.IO.Tables
open Mouette.IO
variable {C : Type}

/-- every spelling the model's `typeOf` accepts is a spelling of `Attribute.Type.from_string`, with the same type -/
theorem typeOf_sound (s : String) (t : Geo.AType) (h : Geo.typeOf s = some t) :
    lookupStr geoTypeRows s = some (pyName t) := by
  unfold Geo.typeOf at h
  split at h
  · rename_i h1
    injection h with h; subst h
    rcases h1 with h1 | h1 <;> subst h1 <;> decide
  · split at h
    · rename_i h2
      injection h with h; subst h
      rcases h2 with h2 | h2 | h2 <;> subst h2 <;> decide
    · split at h
      · rename_i h3
        injection h with h; subst h
        subst h3; decide
      · exact absurd h (by simp)

/-- the type line and element size written by `export_attribute` are `"to_string()"` and `byte_size()` of the
tables, and `from_string` / the model's `typeOf` read that spelling back as the same type -/
theorem header_table (t : Geo.AType) :
    (lookupStr geoByteSize (pyName t)).map
        (fun n => [Tok.kw ("\"" ++ toStringOf geoToStringSpecial t ++ "\""), Tok.int n]) = some (Geo.AType.header t)
    ∧ Geo.typeOf ("\"" ++ toStringOf geoToStringSpecial t ++ "\"") = some t
    ∧ lookupStr geoTypeRows ("\"" ++ toStringOf geoToStringSpecial t ++ "\"") = some (pyName t) := by
  cases t <;> decide

/-- a line whose first token is not a prefix of the dispatch table is ignored by the model's obj reader -/
theorem stepObj_unlisted (cd : Codec C) (r : Raw C) (k : String) (rest : Line)
    (h : lookupStr objRows k = none) : stepObj cd r (.kw k :: rest) = some r := by
  have hv : k ≠ "v" := by intro e; subst e; simp [lookupStr, objRows] at h
  have hvn : k ≠ "vn" := by intro e; subst e; simp [lookupStr, objRows] at h
  have hvt : k ≠ "vt" := by intro e; subst e; simp [lookupStr, objRows] at h
  have hf : k ≠ "f" := by intro e; subst e; simp [lookupStr, objRows] at h
  have hl : k ≠ "l" := by intro e; subst e; simp [lookupStr, objRows] at h
  simp [stepObj, hv, hvn, hvt, hf, hl]

/-- a line with a listed prefix changes only the list named in its row (normals / texture coordinates are outside
the model: `none`) -/
theorem stepObj_listed (cd : Codec C) (r r' : Raw C) (k tgt : String) (rest : Line)
    (h : lookupStr objRows k = some tgt) (hs : stepObj cd r (.kw k :: rest) = some r') :
    (tgt ≠ "vertices" → r'.verts = r.verts) ∧ (tgt ≠ "faces" → r'.faces = r.faces) ∧
    (tgt ≠ "edges" → r'.edges = r.edges) ∧ r'.cells = r.cells := by
  simp only [lookupStr, objRows] at h
  split at h
  · rename_i hk; subst hk; injection h with h; subst h
    simp only [stepObj, if_true] at hs
    split at hs
    · split at hs
      · injection hs with hs; subst hs; simp
      · exact absurd hs (by simp)
    · exact absurd hs (by simp)
  · split at h
    · rename_i hk; subst hk
      simp [stepObj] at hs
    · split at h
      · rename_i hk; subst hk
        simp [stepObj] at hs
      · split at h
        · rename_i hk; subst hk; injection h with h; subst h
          simp only [stepObj] at hs
          simp at hs
          split at hs
          · injection hs with hs; subst hs; simp
          · exact absurd hs (by simp)
        · split at h
          · rename_i hk; subst hk; injection h with h; subst h
            simp only [stepObj] at hs
            simp at hs
            split at hs
            · split at hs
              · injection hs with hs; subst hs; simp
              · exact absurd hs (by simp)
            · exact absurd hs (by simp)
          · exact absurd h (by simp)

end Mouette.IO.Tables
