import Mouette.Model.AttrSpec
/-
Helper lemmas for C05 (core Lean only): heap cells, the insertion-ordered dict, the storage invariant.
-/
namespace Mouette.Attr
set_option linter.unusedSimpArgs false

/-! ### heap -/

theorem heap_append_some {h : Heap} {r : Nat} {x c : Cell} (hx : h[r]? = some x) : (h ++ [c])[r]? = some x := by
  have hlt : r < h.length := by
    rcases Nat.lt_or_ge r h.length with hlt | hge
    · exact hlt
    · simp [List.getElem?_eq_none hge] at hx
  rw [List.getElem?_append_left hlt]; exact hx

theorem heap_some_lt {h : Heap} {r : Nat} {x : Cell} (hx : h[r]? = some x) : r < h.length := by
  rcases Nat.lt_or_ge r h.length with hlt | hge
  · exact hlt
  · simp [List.getElem?_eq_none hge] at hx

theorem heap_append_new (h : Heap) (c : Cell) : (h ++ [c])[h.length]? = some c := by
  simp

theorem cellVec_append {h : Heap} {r : Nat} {v : Val} (c : Cell) (hx : h[r]? = some (.vec v)) :
    cellVec (h ++ [c]) r = cellVec h r := by
  unfold cellVec; rw [heap_append_some hx, hx]

theorem cellMat_append {h : Heap} {r : Nat} {m : List Val} (c : Cell) (hx : h[r]? = some (.mat m)) :
    cellMat (h ++ [c]) r = cellMat h r := by
  unfold cellMat; rw [heap_append_some hx, hx]

theorem cellVec_new (h : Heap) (v : Val) : cellVec (h ++ [.vec v]) h.length = v := by
  unfold cellVec; rw [heap_append_new]

theorem cellMat_new (h : Heap) (m : List Val) : cellMat (h ++ [.mat m]) h.length = m := by
  unfold cellMat; rw [heap_append_new]

theorem heap_set_ne {h : Heap} {r r' : Nat} (c : Cell) (hne : r ≠ r') : (h.set r c)[r']? = h[r']? := by
  rw [List.getElem?_set_ne hne]

theorem heap_set_same {h : Heap} {r : Nat} {x : Cell} (c : Cell) (hx : h[r]? = some x) : (h.set r c)[r]? = some c := by
  rw [List.getElem?_set_self (heap_some_lt hx)]

/-! ### the dict -/

theorem lookup_cons_eq (k' k0 : Int) (r0 : Nat) (t : List (Int × Nat)) :
    List.lookup k' ((k0, r0) :: t) = if k' = k0 then some r0 else List.lookup k' t := by
  by_cases h : k' = k0
  · subst h; simp [List.lookup]
  · have : (k' == k0) = false := by simp [h]
    simp only [List.lookup, this, h, if_false]

theorem lookup_dinsert (d : List (Int × Nat)) (k : Int) (r : Nat) (k' : Int) :
    (dinsert d k r).lookup k' = if k' = k then some r else d.lookup k' := by
  induction d with
  | nil =>
    simp only [dinsert, lookup_cons_eq, List.lookup]
  | cons p t ih =>
    obtain ⟨k0, r0⟩ := p
    by_cases h0 : k0 = k
    · simp only [dinsert, h0, if_true, lookup_cons_eq]
      by_cases h : k' = k <;> simp [h]
    · simp only [dinsert, h0, if_false, lookup_cons_eq, ih]
      by_cases h : k' = k
      · subst h
        have hk : ¬ k' = k0 := fun e => h0 e.symm
        simp [hk]
      · simp [h]

theorem mem_dinsert {d : List (Int × Nat)} {k : Int} {r : Nat} {p : Int × Nat} (hp : p ∈ dinsert d k r) :
    p = (k, r) ∨ p ∈ d := by
  induction d with
  | nil => simp [dinsert] at hp; exact Or.inl hp
  | cons q t ih =>
    obtain ⟨k0, r0⟩ := q
    by_cases h0 : k0 = k
    · simp [dinsert, h0] at hp
      rcases hp with hp | hp
      · exact Or.inl hp
      · exact Or.inr (List.mem_cons_of_mem _ hp)
    · simp [dinsert, h0] at hp
      rcases hp with hp | hp
      · exact Or.inr (by rw [hp]; exact List.mem_cons_self)
      · rcases ih hp with h | h
        · exact Or.inl h
        · exact Or.inr (List.mem_cons_of_mem _ h)

def KeysDistinct (d : List (Int × Nat)) : Prop := d.Pairwise (fun p q => p.1 ≠ q.1)

theorem keysDistinct_dinsert {d : List (Int × Nat)} (hd : KeysDistinct d) (k : Int) (r : Nat) :
    KeysDistinct (dinsert d k r) := by
  induction d with
  | nil => simp [dinsert, KeysDistinct]
  | cons q t ih =>
    obtain ⟨k0, r0⟩ := q
    unfold KeysDistinct at hd ih ⊢
    rw [List.pairwise_cons] at hd
    by_cases h0 : k0 = k
    · simp only [dinsert, h0, if_true]
      rw [List.pairwise_cons]
      refine ⟨?_, hd.2⟩
      intro q hq; have := hd.1 q hq; rw [h0] at this; exact this
    · simp only [dinsert, h0, if_false]
      rw [List.pairwise_cons]
      refine ⟨?_, ih hd.2⟩
      intro q hq
      rcases mem_dinsert hq with h | h
      · rw [h]; exact h0
      · exact hd.1 q h

theorem lookup_none_of_not_key {d : List (Int × Nat)} {k : Int} (h : ∀ q ∈ d, k ≠ q.1) : d.lookup k = none := by
  induction d with
  | nil => rfl
  | cons q t ih =>
    obtain ⟨k0, r0⟩ := q
    have h0 : ¬ k = k0 := h (k0, r0) List.mem_cons_self
    have : (k == k0) = false := by simp [h0]
    simp only [List.lookup, this]
    exact ih (fun q hq => h q (List.mem_cons_of_mem _ hq))

theorem mem_of_lookup {d : List (Int × Nat)} {k : Int} {r : Nat} (h : d.lookup k = some r) : (k, r) ∈ d := by
  induction d with
  | nil => simp [List.lookup] at h
  | cons q t ih =>
    obtain ⟨k0, r0⟩ := q
    by_cases h0 : k = k0
    · have : (k == k0) = true := by simp [h0]
      simp only [List.lookup, this] at h
      injection h with h; rw [h0, h]; exact List.mem_cons_self
    · have : (k == k0) = false := by simp [h0]
      simp only [List.lookup, this] at h
      exact List.mem_cons_of_mem _ (ih h)

end Mouette.Attr
