import Mouette.Model.SamplingSource
import Mouette.Model.Bezier
/-
C19 round 5 — vocabulary of the WHOLE-FUNCTION translation of the exports and constructors of `mouette/splines/bezier.py`
(`Generated/C19Bez*.lean`, written by `vlib/gen/c19_bez_translate.py` from the working tree on every run) and the hand
models they are bridged to. Core Lean only.

Meaning given to the recognised operations:
  `RawMeshData()`                                   `RawOut.new`
  `out.vertices.append(v)` / `.edges` / `.faces`    `RawOut.appendVert out v` / `appendEdge` / `appendFace`  (append at the end)
  `h = out.vertices.create_attribute(name, float[, n])`; `h[k] = v`     `RawOut.setAttr out k v`  (stores in order; name / size in a descriptor)
  `PolyLine(out)` / `SurfaceMesh(out)`              the containers of `out` (mesh construction is outside the anchor files)
  `self.evaluate(t)`, `self._evaluate_row(u)`, `de_casteljau(q, v)`     injected functions returning `Res` (they may raise)
  `x = <call that may raise>; REST`                 `Res.bind <call> (fun x => REST)`
  `for x in xs: BODY`                               `Res.bind (forE xs <carried state> (fun st x => BODY … .ok st')) (fun st => REST)`:
                                                    the carried state is the tuple of outer names the body re-binds or mutates;
                                                    a raise inside the body ends the loop and the function
  `U[i]`, `pt[0]`                                   `U.getD i 0`   (out-of-range reads totalised; they do not occur: indices come from `range`)
  `Vec(a, b, c)`                                    `[a, b, c]`
  `[Vec(x) for x in cps]`, `DataContainer(l, id=..)`   `cps.map vec` (the conversion `vec` of one control point to a float vector is injected)
-/
namespace Mouette.BezierSrc
open Mouette.SamplingSrc

def Res.bind {α β : Type} (r : Res α) (f : α → Res β) : Res β :=
  match r with
  | .raised e => .raised e
  | .ok v => f v

/-- a `for` loop whose body may raise: the state is threaded, the first exception ends everything -/
def forE {α σ : Type} : List α → σ → (σ → α → Res σ) → Res σ
  | [], s, _ => .ok s
  | x :: xs, s, body =>
    match body s x with
    | .raised e => .raised e
    | .ok s' => forE xs s' body

/-- the `RawMeshData` under construction: its three containers and the one vertex attribute the export creates -/
structure RawOut where
  verts : List Row := []
  edges : List (List Nat) := []
  faces : List (List Nat) := []
  attr : List (Nat × Row) := []
deriving DecidableEq, Repr

def RawOut.new : RawOut := {}
def RawOut.appendVert (o : RawOut) (v : Row) : RawOut := { o with verts := o.verts ++ [v] }
def RawOut.appendEdge (o : RawOut) (e : List Nat) : RawOut := { o with edges := o.edges ++ [e] }
def RawOut.appendFace (o : RawOut) (f : List Nat) : RawOut := { o with faces := o.faces ++ [f] }
def RawOut.setAttr (o : RawOut) (k : Nat) (v : Row) : RawOut := { o with attr := o.attr ++ [(k, v)] }

/-! ### hand models of the exports (whole functions) -/

/-- evaluate all, first exception wins -/
def mapE {α β : Type} (f : α → Res β) : List α → Res (List β)
  | [] => .ok []
  | x :: xs =>
    match f x with
    | .raised e => .raised e
    | .ok y =>
      match mapE f xs with
      | .raised e => .raised e
      | .ok ys => .ok (y :: ys)

/-- what `as_polyline` appends for an evaluated point: 2-D points get `z = 0`, 3-D points are kept, anything else is dropped -/
def padVert (v : Row) : List Row :=
  if v.length = 2 then [[v.getD 0 0, v.getD 1 0, 0]] else if v.length = 3 then [v] else []

/-- `BezierCurve.as_polyline(n_pts, custom_pos)` -/
def asPolyline (evaluate : Rat → Res Row) (n : Nat) (custom : Option (List Rat)) : Res RawOut :=
  let points := custom.getD (linspaceV n)
  match mapE evaluate points with
  | .raised e => .raised e
  | .ok vs => .ok { verts := vs.flatMap padVert, edges := Mouette.Bezier.polyEdges points.length, faces := [],
                    attr := points.zipIdx.map (fun ix => (ix.2, [ix.1])) }

/-- `BezierPatch.as_surface(n1, n2)` -/
def asSurface (evaluate_row : Rat → Res (List Row)) (dcv : List Row → Rat → Res Row) (n1 n2 : Nat) : Res RawOut :=
  let U := linspaceV n1
  let V := linspaceV n2
  match mapE (fun i => Res.bind (evaluate_row (U.getD i 0)) (fun q => mapE (fun j => dcv q (V.getD j 0)) (List.range n2)))
      (List.range n1) with
  | .raised e => .raised e
  | .ok rows => .ok { verts := rows.flatten, edges := [], faces := Mouette.Bezier.surfFaces n1 n2,
                      attr := (Mouette.Bezier.gridPairs n1 n2).zipIdx.map
                        (fun pk => (pk.2, [U.getD pk.1.1 0, V.getD pk.1.2 0])) }

/-- numpy vector arithmetic is coordinatewise: a scalar evaluation `dc` (range guard included, `none` = it raised) lifted to
control points that are rows; the dimension is that of the first control point -/
def evalVec (dc : List Rat → Rat → Option Rat) (pts : List Row) (t : Rat) : Res Row :=
  mapE (fun k => match dc (pts.map (fun p => p.getD k 0)) t with
                 | none => .raised "InvalidRangeArgumentError"
                 | some v => .ok v) (List.range (pts.headD []).length)

end Mouette.BezierSrc
