import Mouette.Model.IO
/-
C04 (P1, interoperability) — INDEPENDENT reference writers and readers for the text formats obj, off, tet, xyz,
written from the format definitions (not from mouette's code), at the same token level as Model/IO.lean.
They are specifications, not models of mouette: the theorems of Props/C04 state
  `import_f (refExport_f m) = restrict_f m`   (a file laid out by an independent writer loads correctly) and
  `refImport_f (export_f m) = restrict_f m`   (a file written by mouette means the same to an independent reader).
The reference writers deliberately use other legal layouts than mouette's exporters (comments, group statements,
another statement order, a homogeneous coordinate, normals columns, 0 edge count …).
Core Lean only; nothing here is used by the protocol driver.
-/
namespace Mouette.IO
variable {C : Type}

/-! ### obj -/

/-- reference obj writer: comment + object statement, `v x y z w` with the homogeneous coordinate, the faces in a
group BEFORE the line elements (mouette writes `l` before `f`), every edge as a 2-vertex `l` polyline -/
def refExportObj (cd : Codec C) (m : Raw C) : File :=
  [.kw "#", .kw "reference", .kw "writer"] :: [.kw "o", .kw "mesh"] ::
    (m.verts.map (fun v => .kw "v" :: (coordLine cd v ++ [.int 1]))
      ++ (([.kw "g", .kw "faces"] :: m.faces.map (fun f => .kw "f" :: f.map idx1))
      ++ ([.kw "g", .kw "lines"] :: m.edges.map (fun e => [.kw "l", idx1 e.1, idx1 e.2]))))

/-- what an obj file with these statements means: vertices, undirected edges, faces -/
def refObjContent (m : Raw C) : Raw C := { verts := m.verts, edges := m.edges.map keyify, faces := m.faces }

/-- consecutive pairs of a polyline `l v1 v2 … vn` -/
def consec : List Nat → List (Nat × Nat)
  | a :: b :: t => (a, b) :: consec (b :: t)
  | _ => []

/-- reference obj reader, statement by statement: `v` (first three numbers), `f` (1-based vertex indices),
`l` (polyline: consecutive undirected edges), the statements it does not need are skipped, anything else is an
error -/
def refStepObj (cd : Codec C) (r : Raw C) (l : Line) : Option (Raw C) :=
  match l with
  | [] => some r
  | .kw k :: rest =>
    if k = "v" then
      match rest with
      | a :: b :: c :: _ =>
        match readNum cd a, readNum cd b, readNum cd c with
        | some x, some y, some z => some { r with verts := r.verts ++ [(x, y, z)] }
        | _, _, _ => none
      | _ => none
    else if k = "f" then
      match mapOpt readIdx1 rest with
      | some f => some { r with faces := r.faces ++ [f] }
      | none => none
    else if k = "l" then
      match mapOpt readIdx1 rest with
      | some (a :: b :: t) => some { r with edges := r.edges ++ (consec (a :: b :: t)).map keyify }
      | _ => none
    else if k = "#" ∨ k = "vn" ∨ k = "vt" ∨ k = "vp" ∨ k = "g" ∨ k = "o" ∨ k = "s" ∨ k = "usemtl" ∨ k = "mtllib" then some r
    else none
  | _ => none

def refImportObj (cd : Codec C) (file : File) : Option (Raw C) := foldOpt (refStepObj cd) Raw.empty file

/-! ### off -/

/-- reference OFF writer: header, `nv nf 0` (the edge count may be 0), vertices, arity-prefixed faces -/
def refExportOff (cd : Codec C) (m : Raw C) : File :=
  [.kw "OFF"] :: [idx0 m.verts.length, idx0 m.faces.length, idx0 0]
    :: (m.verts.map (coordLine cd) ++ m.faces.map (fun f => idx0 f.length :: f.map idx0))

/-- one face record `n i1 … in` (what follows the n indices, e.g. a colour, is ignored) -/
def refReadFace : Line → Option (List Nat)
  | t :: ids =>
    match readIdx0 t with
    | some n => if ids.length < n then none else mapOpt readIdx0 (ids.take n)
    | none => none
  | [] => none

/-- reference OFF reader: every record is a FACE of the stated arity (this is what OFF means) -/
def refImportOff (cd : Codec C) (file : File) : Option (Raw C) :=
  match file with
  | [.kw k] :: [a, b, c] :: rest =>
    if k = "OFF" then
      match readIdx0 a, readIdx0 b, readIdx0 c with
      | some nv, some nf, some _ =>
        if rest.length ≠ nv + nf then none else
        match mapOpt (readCoords cd) (rest.take nv), mapOpt refReadFace (rest.drop nv) with
        | some vs, some fs => some { verts := vs, faces := fs }
        | _, _ => none
      | _, _, _ => none
    else none
  | _ => none

/-! ### tet -/

def refExportTet (cd : Codec C) (m : Raw C) : File :=
  [idx0 m.verts.length, .kw "vertices"] :: [idx0 m.cells.length, .kw "tets"]
    :: (m.verts.map (coordLine cd) ++ m.cells.map (fun c => idx0 c.length :: c.map idx0))

/-- a cell record: the arity prefix must be the number of indices that follow -/
def refReadCell : Line → Option (List Nat)
  | t :: ids =>
    match readIdx0 t with
    | some n => if ids.length = n then mapOpt readIdx0 ids else none
    | none => none
  | [] => none

/-- reference .tet reader: checks the two header keywords, the record count and every arity prefix -/
def refImportTet (cd : Codec C) (file : File) : Option (Raw C) :=
  match file with
  | [a, .kw k1] :: [b, .kw k2] :: rest =>
    if k1 = "vertices" ∧ k2 = "tets" then
      match readIdx0 a, readIdx0 b with
      | some nv, some nc =>
        if rest.length ≠ nv + nc then none else
        match mapOpt (readCoords cd) (rest.take nv), mapOpt refReadCell (rest.drop nv) with
        | some vs, some cs => some { verts := vs, cells := cs }
        | _, _ => none
      | _, _ => none
    else none
  | _ => none

/-! ### xyz -/

/-- reference xyz writer: the six-column layout `x y z nx ny nz` with null normals -/
def refExportXyz (cd : Codec C) (m : Raw C) : File :=
  m.verts.map (fun v => coordLine cd v ++ [num cd cd.zero, num cd cd.zero, num cd cd.zero])

/-- reference xyz reader: records of exactly 3 or 6 numbers; the point is the first three -/
def refStepXyz (cd : Codec C) (r : Raw C) (l : Line) : Option (Raw C) :=
  match mapOpt (readNum cd) l with
  | some [x, y, z] => some { r with verts := r.verts ++ [(x, y, z)] }
  | some [x, y, z, _, _, _] => some { r with verts := r.verts ++ [(x, y, z)] }
  | _ => none

def refImportXyz (cd : Codec C) (file : File) : Option (Raw C) := foldOpt (refStepXyz cd) Raw.empty file

end Mouette.IO
