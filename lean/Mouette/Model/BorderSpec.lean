import Mouette.Model.RingSpec
import Mouette.Model.SurfaceSpec
import Mouette.Model.Border
/-! Decidable forms of the hypotheses of C15 `border_cycle_correct`, evaluated by the C15 driver on every
generated surface (core Lean only).  Soundness w.r.t. the propositions: Props/C15Border.lean. -/
namespace Mouette.Border
open Mouette.Surface

/-- every vertex index of every face is `< nv` -/
def inRangeB (faces : Faces) (nv : Nat) : Bool := faces.all fun F => F.all fun v => decide (v < nv)

/-- at every boundary vertex the corners form one non-empty open fan (witness: the ring the model computes) -/
def borderUmbrellaB (faces : Faces) (nv : Nat) : Bool :=
  (boundaryVertices (build nv faces true)).all fun A =>
    ringOpenB (build nv faces true) A (vertexToCorners (build nv faces true) A) &&
      !(vertexToCorners (build nv faces true) A).isEmpty

def borderWfB (faces : Faces) (nv : Nat) : Bool :=
  decide (Oriented faces) && inRangeB faces nv && borderUmbrellaB faces nv

end Mouette.Border
