import Mouette.Model.IO
/-
C04 (round 4) — vocabulary of the TRANSLATED codec functions (`Generated/C04Writers.lean`, `Generated/C04Readers.lean`,
written by `vlib/gen/c04_translate.py` from `mouette/mesh/io/{obj,off,tet,xyz,medit,stl,io}.py` and `mesh.py` on every
run).  Core Lean only.

The translator reads each function body imperatively and emits a Lean definition over the token-level file type of
`Model/IO.lean`.  Meaning given to the Python operations it recognises:

  WRITERS (the file is opened in 'w' mode and only appended to: a block denotes the lines it writes, `a; b` is `a ++ b`)
  `f.write(<string expr>)`            `[line, …]`          the string expression is evaluated symbolically by the translator:
                                      literals, `+`, f-strings, `"…{}…".format(a, b)`, `"…".format(*(g for x in xs))`, `str(e)`,
                                      `' '.join([… for x in xs])`, local string accumulators (`s = ""`, `s += …` in a loop);
                                      it is cut into lines at `\n` and into tokens at white space; a placeholder carrying a
                                      format spec / conversion, or glued to other text, is NOT recognised (TranslateError)
  `'{}'.format(c)` / `str(c)` of a coordinate      `fmtC cd c`       (= `Tok.txt (cd.fmt c)`; `cd.fmt` is the shortest-repr formatter)
  `str(i)` / `'{}'.format(i)` of an index / count  `fmtI i`
  `for x in mesh.<container>: body`   `List.flatMap (fun x => body) m.<container>`
  `for a, b in mesh.edges`            the same with a pair pattern
  `for e in mesh.edges.get_attribute("hard_edges")`  fold over `hardKeys m`
  `a, b = mesh.edges[e]`              `withEdge m.edges[e]? [] (fun a b => …)`
                                      (IndexError is not modelled: every hard-edge key is an edge index)
  `"{} {} {} 1".format(*(g for i in face))`   `starArgs 3 (face.map g)`  (IndexError on a shorter generator is not modelled:
                                      every such call is guarded by `len(face) == 3` in the source)
  `mesh.<c>.empty()`, `len(mesh.<c>)`, `len(face)`, `X.has_attribute("hard_edges")`, `config.<switch>`
  counters (`count_faces`, `count_cells`, `Binary_STL_Writer.counter`)   `Nat` components of the fold state

  READERS (state: the deque of remaining lines + the `RawMeshData` being filled, in `Option`: `none` = the Python raises or
  the input leaves the modelled domain)
  `data.popleft()`                    `popLine`
  `int(tok)`, `float(tok)`            `readInt`, `readNum cd` of Model/IO.lean
  `[int(u) for u in toks[a:b]]`       `mapOpt … (slice a b toks)`
  `for _ in range(n): body`           `iter n body` (an `Option` state transformer applied `n` times)
-/
namespace Mouette.IOS
open Mouette.IO
variable {C : Type}

/-- `'{}'.format(c)` / `str(c)` of a coordinate (numpy float64 / Python float: shortest repr) -/
def fmtC (cd : Codec C) (c : C) : Tok := .txt (cd.fmt c)
/-- `'{}'.format(i)` / `str(i)` of a non-negative Python int -/
def fmtI (i : Nat) : Tok := .int (i : Int)
/-- `for c in vtx` -/
def coords (v : C × C × C) : List C := [v.1, v.2.1, v.2.2]
/-- keys of the `hard_edges` attribute, in iteration order (`[]` when absent) -/
def hardKeys (m : Raw C) : List Nat := m.hard.getD []
/-- `"{} … {}".format(*args)` with `k` placeholders: the first `k` arguments -/
def starArgs (k : Nat) (args : List Tok) : List Tok := args.take k

/-- `a, b = mesh.edges[e]` followed by the rest of the block (`k`); `dflt` when the index is out of range -/
def withEdge (o : Option (Nat × Nat)) (dflt : File) (k : Nat → Nat → File) : File :=
  match o with
  | some (a, b) => k a b
  | none => dflt

/-- `struct.pack('f', x)` seen through the harness tokeniser: the text of the binary32 rounding -/
def packF (cd : Codec C) (c : C) : Tok := .txt (cd.fmt (cd.r32 c))
/-- `struct.pack('f', 0.)` -/
def packZero (cd : Codec C) : Tok := .txt (cd.fmt cd.zero)

/-! ### dispatch tables -/

/-- (file extension, codec module of mouette/mesh/io) for the formats of the property (+ ply, outside the property), sorted -/
def formatModules : List (String × String) :=
  [("geogram_ascii", "geogram_ascii"), ("mesh", "medit"), ("obj", "obj"), ("off", "off"), ("ply", "ply"), ("stl", "stl"),
   ("tet", "tet"), ("xyz", "xyz")]

/-- the rows `read_by_extension` / `write_by_extension` must hold: extension -> `<prefix><module>` of that module -/
def expectedRows (pre : String) : List (String × String × String) :=
  formatModules.map (fun r => (r.1, r.2, pre ++ r.2))

/-- the class implied by a dimensionality -/
def className (d : Nat) : String :=
  if d = 0 then "PointCloud" else if d = 1 then "PolyLine" else if d = 2 then "SurfaceMesh" else "VolumeMesh"

/-! ### readers -/

/-- reader state: remaining lines (the deque), the mesh under construction -/
abbrev RSt (C : Type) := File × Raw C

/-- `data.popleft()`: IndexError on an empty deque -/
def popLine (d : File) : Option (Line × File) :=
  match d with
  | [] => none
  | l :: rest => some (l, rest)

/-- `toks[a:b]` (`b = none`: to the end) -/
def slice (a : Nat) (b : Option Nat) (l : Line) : Line :=
  match b with
  | none => l.drop a
  | some b => (l.take b).drop a

/-- `toks[k]`: IndexError when absent -/
def tokAt (l : Line) (k : Nat) : Option Tok := l[k]?

/-- `for _ in range(n): body` on an `Option` state -/
def iter {σ : Type} (body : σ → Option σ) : Nat → σ → Option σ
  | 0, s => some s
  | n + 1, s => match body s with
    | none => none
    | some s' => iter body n s'

/-- `for _ in range(n): x = <parse>(data.popleft()); <container>.append(x)`: one line popped, parsed by `g` and stored by `upd`
per iteration -/
def popStep {β : Type} (g : Line → Option β) (upd : Raw C → β → Raw C) (s : RSt C) : Option (RSt C) :=
  match popLine s.1 with
  | none => none
  | some (l, d) => match g l with
    | none => none
    | some x => some (d, upd s.2 x)

def popEach {β : Type} (g : Line → Option β) (upd : Raw C → β → Raw C) (n : Nat) (s : RSt C) : Option (RSt C) :=
  iter (popStep g upd) n s

/-- `for _ in range(n): rec = data.popleft(); <body that may raise>`: one line popped and handed to `step` per iteration -/
def popFoldStep (step : Raw C → Line → Option (Raw C)) (s : RSt C) : Option (RSt C) :=
  match popLine s.1 with
  | none => none
  | some (l, d) => match step s.2 l with
    | none => none
    | some r => some (d, r)

def popFold (step : Raw C → Line → Option (Raw C)) (n : Nat) (s : RSt C) : Option (RSt C) :=
  iter (popFoldStep step) n s

/-- `a, b, c = (… for u in line)`: exactly three items (ValueError otherwise) -/
def three {α : Type} : List α → Option (α × α × α)
  | [a, b, c] => some (a, b, c)
  | _ => none

/-- `int(u) - 1` of a parsed integer (1-based index): results below 0 leave the modelled domain -/
def decr1 (i : Int) : Option Nat := if 1 ≤ i then some (i - 1).toNat else none

/-- `int(<whole line>)`: the line is one token (anything else: ValueError) -/
def one {α : Type} : List α → Option α
  | [a] => some a
  | _ => none

/-- a vertex record handed to `vertices.append`: exactly three coordinates (anything else leaves the modelled domain) -/
def vec3 : List C → Option (C × C × C)
  | [x, y, z] => some (x, y, z)
  | _ => none

/-- `int(tok)` used as an index without offset -/
def readNat : Tok → Option Nat := readIdx0

end Mouette.IOS
