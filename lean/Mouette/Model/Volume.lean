/-
Executable model of `mouette/mesh/datatypes/volume.py` (`VolumeMesh`, its `_Connectivity` and
`_BoundaryConnectivity`) and of `mouette/processing/border.py: extract_boundary_of_volume`, for
tetrahedral meshes.  Core Lean only.

Conventions
* the mesh is given *after* `RawMeshData.prepare()` : vertices, edges, faces, cells as stored
  (the faces/edges containers are what the face/edge ids index; C02 owns how they are produced).
* Python dicts whose keys are `range(n)` are `List`s indexed by the key (`buckets`);
  `dict.get(keyify(..))` look-ups are `idOf` (last write wins).
* every function is total.  Where the Python code would raise (a `None` face id used as a key, an
  empty incident list, a failed unpacking) the model returns the sentinel documented at the
  function and the separate Boolean `raises…` predicates say so; under the hypotheses of the
  theorems (`Props/C03.lean`) no predicate fires.
* coordinates are exact `Rat`s; the only geometric quantity is the sign of a 3×3 determinant.
-/
namespace Mouette.Vol

/-! ### `utils.keyify`: the sorted tuple of the arguments (insertion sort) -/

def ins (a : Nat) : List Nat → List Nat
  | [] => [a]
  | b :: l => if a ≤ b then a :: b :: l else b :: ins a l

def key : List Nat → List Nat
  | [] => []
  | a :: l => ins a (key l)

/-- `d.get(k)` for `d = { keyify(X) : i  for i, X in enumerate(elems) }` (later writes win). -/
def idOf : List (List Nat) → List Nat → Option Nat
  | [], _ => none
  | X :: r, k =>
    match idOf r k with
    | some j => some (j + 1)
    | none => if key X = k then some 0 else none

/-- `d[k].append(v)` for every `(k, v)` in program order, on `d = {i: [] for i in range(n)}`. -/
def buckets (n : Nat) (kvs : List (Nat × Nat)) : List (List Nat) :=
  kvs.foldl (fun d kv => d.modify kv.1 (· ++ [kv.2])) (List.replicate n [])

structure Pt where
  x : Rat
  y : Rat
  z : Rat
deriving Repr, DecidableEq

def Pt.sub (p q : Pt) : Pt := ⟨p.x - q.x, p.y - q.y, p.z - q.z⟩

/-- `geometry.det_3x3(A,B,C)` (rule of Sarrus on the matrix whose rows are A, B, C) -/
def det3 (a b c : Pt) : Rat :=
  a.x * b.y * c.z + a.y * b.z * c.x + a.z * b.x * c.y
    - a.x * b.z * c.y - a.y * b.x * c.z - a.z * b.y * c.x

structure Mesh where
  verts : List Pt
  edges : List (List Nat)
  faces : List (List Nat)
  cells : List (List Nat)

namespace Mesh
variable (m : Mesh)

def nV : Nat := m.verts.length
def nE : Nat := m.edges.length
def nF : Nat := m.faces.length
def nC : Nat := m.cells.length
def cell (c : Nat) : List Nat := m.cells.getD c []
def face (f : Nat) : List Nat := m.faces.getD f []
def edge (e : Nat) : List Nat := m.edges.getD e []
def pt (v : Nat) : Pt := m.verts.getD v ⟨0, 0, 0⟩

/-- `connectivity.face_id(*vs)` -/
def faceId (vs : List Nat) : Option Nat := idOf m.faces (key vs)
/-- `connectivity.edge_id(u, v)` (the sorting pass of `_compute_edge_id` is accounted for separately) -/
def edgeId (u v : Nat) : Option Nat := idOf m.edges (key [u, v])

/-- face id with Python's `None` mapped to the out-of-range sentinel `nF` -/
def faceIdD (vs : List Nat) : Nat := (m.faceId vs).getD m.nF
def edgeIdD (u v : Nat) : Nat := (m.edgeId u v).getD m.nE

/-! ### `_compute_cell_adj` -/

/-- `C[:i] + C[i+1:]` -/
def subFace (C : List Nat) (i : Nat) : List Nat := C.take i ++ C.drop (i + 1)

/-- `_adjC2F[iC]` : the i-th entry is `face_id(*(C[:i]+C[i+1:]))` -/
def cellToFace (c : Nat) : List Nat :=
  (List.range 4).map fun i => m.faceIdD (subFace (m.cell c) i)

/-- the `(iF, iC)` pairs appended to `_adjF2C`, in program order -/
def cellAdjPairs : List (Nat × Nat) :=
  (List.range m.nC).flatMap fun c => (m.cellToFace c).map fun f => (f, c)

/-- `_compute_cell_adj` raises (KeyError on `_adjF2C[None]`, or the non-tetrahedral branch which is
not modelled) -/
def raisesCellAdj : Bool :=
  (List.range m.nC).any fun c =>
    (m.cell c).length != 4 || (m.cellToFace c).any (fun f => decide (m.nF ≤ f))

/-! ### `_compute_adjacent_cell`: the face table -/

/-- the literal table of `_compute_adjacent_cell`: `f0 = face_id(v1,v3,v2)`, … (hand-written normal
form; `Generated.C03.adjTable` is the translated one) -/
def tetTable : List (List Nat) := [[1, 3, 2], [0, 2, 3], [3, 1, 0], [0, 1, 2]]

def tableFace (C : List Nat) (row : List Nat) : List Nat := row.map fun j => C.getD j 0

/-- `(f0, f1, f2, f3)` of `_compute_adjacent_cell` -/
def adjFaces (c : Nat) : List Nat := tetTable.map fun row => m.faceIdD (tableFace (m.cell c) row)

def raisesAdjacentCell : Bool :=
  m.raisesCellAdj || (List.range m.nC).any fun c => (m.adjFaces c).any (fun f => decide (m.nF ≤ f))

/-- `connectivity.common_face(C1, C2)` -/
def commonFace (c1 c2 : Nat) : Option Nat :=
  let cv := (m.cell c1).eraseDups.filter (fun v => (m.cell c2).contains v)
  if cv.length = 3 then m.faceId cv else none

/-! ### `vertex_to_cell`, `in_cell_index`, `in_cell_face_index`, `cell_to_edge` -/

def v2cPairs : List (Nat × Nat) :=
  (List.range m.nC).flatMap fun c => (m.cell c).map fun v => (v, c)

/-- `connectivity.vertex_to_cell(v)` (a `set` turned into a list: order unspecified) -/
def vertexToCell (v : Nat) : List Nat := ((buckets m.nV m.v2cPairs).getD v []).eraseDups

def raisesVertexToCell : Bool := (List.range m.nC).any fun c => (m.cell c).any (fun v => decide (m.nV ≤ v))

def inCellIndex (c v : Nat) : Option Nat :=
  let i := (m.cell c).idxOf v
  if i < (m.cell c).length then some i else none

def sameSet (a b : List Nat) : Bool := a.all (b.contains ·) && b.all (a.contains ·)

def inCellFaceIndex (c f : Nat) : Option Nat :=
  (List.range (m.cell c).length).find? fun i => sameSet (m.face f) (subFace (m.cell c) i)

/-- `connectivity.cell_to_edge(c)` -/
def cellToEdge (c : Nat) : List Nat :=
  let vs := m.cell c
  (List.range vs.length).flatMap fun i =>
    (List.range i).filterMap fun j => m.edgeId (vs.getD i 0) (vs.getD j 0)

/-! ### `_compute_edge_id`: edge → faces before the rotational sort -/

/-- `connectivity.face_to_edges(f)` with `None` → `nE` -/
def faceToEdges (f : Nat) : List Nat :=
  let F := m.face f
  (List.range F.length).map fun i => m.edgeIdD (F.getD i 0) (F.getD ((i + 1) % F.length) 0)

def e2fPairs : List (Nat × Nat) :=
  (List.range m.nF).flatMap fun f => (m.faceToEdges f).map fun e => (e, f)

def raisesEdgeRaw : Bool :=
  m.raisesCellAdj || (List.range m.nF).any fun f => (m.faceToEdges f).any (fun e => decide (m.nE ≤ e))

def isTetrahedral : Bool := m.cells.all (·.length == 4)

end Mesh

/-- The connectivity object with its two dictionary caches filled: `_adjF2C` (by `_compute_cell_adj`)
and the unsorted `_adjE2F` (by `_compute_edge_id`).  Everything that reads these dictionaries is
defined on `Conn`, so that the executable model looks them up instead of recomputing them. -/
structure Conn where
  m : Mesh
  f2c : List (List Nat)
  e2f : List (List Nat)

def Mesh.conn (m : Mesh) : Conn :=
  { m := m, f2c := buckets m.nF m.cellAdjPairs, e2f := buckets m.nE m.e2fPairs }

namespace Conn
variable (k : Conn)

/-- `connectivity.face_to_cells(f)` -/
def faceToCells (f : Nat) : List Nat := k.f2c.getD f []

/-- the value left in `_adjC2C[(iC, iF)]`: the last cell of `face_to_cells(F)` different from `iC` -/
def adjCell (c : Nat) (f : Nat) : Option Nat := ((k.faceToCells f).filter (· != c)).getLast?

/-- `connectivity.cell_to_cell(c)` -/
def cellToCell (c : Nat) : List Nat := (k.m.adjFaces c).filterMap (k.adjCell c)

/-- `connectivity.other_face_side(C, F)` -/
def otherFaceSide (c f : Nat) : Option Nat :=
  match k.faceToCells f with
  | [c1, c2] => if c = c1 then some c2 else if c = c2 then some c1 else none
  | _ => none

/-- `_adjE2C[e]` before sorting: union (a `set`) of the cells of the faces around `e` -/
def e2cRaw (e : Nat) : List Nat := ((k.e2f.getD e []).flatMap k.faceToCells).eraseDups

/-! ### `_sort_edge_neighborhoods` -/

/-- One direction of the walk around edge `(A,B)`: from cell `c` through the face `(A,B,p)`.
Returns the cells entered and the faces crossed, in order; `none` where Python raises. `seen` is
`keys_cell`'s key set. -/
def walk (A B : Nat) : Nat → Nat → Nat → List Nat → Option (List Nat × List Nat)
  | 0, _, _, _ => none
  | fuel + 1, c, p, seen =>
    match k.m.faceId [A, B, p] with
    | none => none
    | some face =>
      match k.otherFaceSide c face with
      | none => some ([], [face])
      | some c' =>
        if seen.contains c' then some ([], [face]) else
        match (k.m.cell c').filter (fun x => x != A && x != B && x != p) with
        | [] => none
        | p' :: _ =>
          match walk A B fuel c' p' (c' :: seen) with
          | none => none
          | some (cs, fs) => some (c' :: cs, face :: fs)

/-- `l.sort(key = lambda x: keys.get(x, inf))` with `keys` an association list in which later pairs
win; elements without a key go last (Python's sort is stable, so is `mergeSort`) -/
def sortByKey (l : List Nat) (keys : List (Nat × Int)) : List Nat :=
  let rk := keys.reverse
  let ks := l.map fun x => (rk.lookup x, x)
  (ks.mergeSort (fun a b =>
      match a.1, b.1 with
      | some x, some y => decide (x ≤ y)
      | none, some _ => false
      | _, none => true)).map (·.2)

def enumFrom1 (l : List Nat) (sign : Int) : List (Nat × Int) :=
  l.zipIdx.map fun (x, i) => (x, sign * ((i : Int) + 1))

/-- sorted `(_adjE2C[e], _adjE2F[e])`; `none` where Python raises -/
def sortEdge (e : Nat) : Option (List Nat × List Nat) :=
  match k.m.edge e, k.e2cRaw e with
  | [A, B], c0 :: _ =>
    match (k.m.cell c0).filter (fun x => x != A && x != B) with
    | [p1, p2] =>
      match k.walk A B (k.m.nC + 1) c0 p1 [c0] with
      | none => none
      | some (cs1, fs1) =>
        match k.walk A B (k.m.nC + 1) c0 p2 (cs1.reverse ++ [c0]) with
        | none => none
        | some (cs2, fs2) =>
          let keysC := (c0, (0 : Int)) :: enumFrom1 cs1 1 ++ enumFrom1 cs2 (-1)
          let keysF := enumFrom1 fs1 1 ++ enumFrom1 fs2 (-1)
          some (sortByKey (k.e2cRaw e) keysC, sortByKey (k.e2f.getD e []) keysF)
    | _ => none
  | _, _ => none

/-- `connectivity.edge_to_cell(e)` / `edge_to_face(e)` (`sorted` = `config.sort_neighborhoods`) -/
def edgeToCellFace (sorted : Bool) (e : Nat) : Option (List Nat × List Nat) :=
  if sorted && k.m.isTetrahedral then k.sortEdge e else some (k.e2cRaw e, k.e2f.getD e [])

/-- `_compute_edge_id` raises: then *every* edge query of the volume connectivity raises -/
def raisesEdgeId (sorted : Bool) : Bool :=
  k.m.raisesEdgeRaw || (List.range k.m.nE).any fun e => (k.edgeToCellFace sorted e).isNone

/-! ### border / interior classification (`VolumeMesh._compute_interior_boundary_*`) -/

def isFaceOnBorder (f : Nat) : Bool := (k.faceToCells f).length < 2
def boundaryFaces : List Nat := (List.range k.m.nF).filter k.isFaceOnBorder
def interiorFaces : List Nat := (List.range k.m.nF).filter (fun f => !k.isFaceOnBorder f)

/-- the vertices flagged by `_compute_interior_boundary_vertices` -/
def borderVertexFlags : List Nat := k.boundaryFaces.flatMap k.m.face
def isVertexOnBorder (v : Nat) : Bool := k.borderVertexFlags.contains v
def boundaryVertices : List Nat :=
  let fl := k.borderVertexFlags
  (List.range k.m.nV).filter (fl.contains ·)
def interiorVertices : List Nat :=
  let fl := k.borderVertexFlags
  (List.range k.m.nV).filter (fun v => !fl.contains v)

/-- the edges flagged by `_compute_interior_boundary_edges` -/
def borderEdgeFlags : List Nat := k.boundaryFaces.flatMap k.m.faceToEdges
def isEdgeOnBorder (e : Nat) : Bool := k.borderEdgeFlags.contains e
def boundaryEdges : List Nat :=
  let fl := k.borderEdgeFlags
  (List.range k.m.nE).filter (fl.contains ·)
def interiorEdges : List Nat :=
  let fl := k.borderEdgeFlags
  (List.range k.m.nE).filter (fun e => !fl.contains e)

/-! ### boundary surface: `_BoundaryConnectivity._extract_surface_boundary`,
`extract_boundary_of_volume` (both orient each border face with the same determinant test) -/

/-- the vertices of the border faces in first-occurrence order (Python iterates a `set`: the
numbering of the boundary vertices is unspecified and forgotten by the comparator) -/
def boundaryVertexList : List Nat := k.borderVertexFlags.eraseDups

/-- `m2b[v] = i ; b2m[i] = v  for i, v in enumerate(l)` for a duplicate-free `l` -/
def enumM2B (l : List Nat) (v : Nat) : Option Nat :=
  let i := l.idxOf v
  if i < l.length then some i else none
def enumB2M (l : List Nat) (i : Nat) : Option Nat := l[i]?

def m2bVertex (v : Nat) : Option Nat := enumM2B k.boundaryVertexList v
def b2mVertex (i : Nat) : Option Nat := enumB2M k.boundaryVertexList i
def m2bFace (f : Nat) : Option Nat := enumM2B k.boundaryFaces f
def b2mFace (i : Nat) : Option Nat := enumB2M k.boundaryFaces i

/-- `D = [x for x in cells[iC] if x not in faces[iF]][0]` -/
def fourth (C F : List Nat) : Option Nat := (C.filter (fun x => !F.contains x)).head?

/-- the orientation test `det_3x3(pA-pD, pB-pD, pC-pD) > 0` -/
def keepOrientation (a b c d : Nat) : Bool :=
  decide (0 < det3 ((k.m.pt a).sub (k.m.pt d)) ((k.m.pt b).sub (k.m.pt d)) ((k.m.pt c).sub (k.m.pt d)))

/-- the border face `f` as it is put in the boundary surface, in *volume* vertex ids;
`none` where Python raises (no incident cell, not a triangle, no fourth vertex) -/
def orientedFace (f : Nat) : Option (List Nat) :=
  match k.faceToCells f, k.m.face f with
  | c :: _, [a, b, c'] =>
    match fourth (k.m.cell c) [a, b, c'] with
    | some d => if k.keepOrientation a b c' d then some [a, b, c'] else some [a, c', b]
    | none => none
  | _, _ => none

/-- faces of the boundary surface in volume vertex ids, in the order of `boundary_faces` -/
def boundarySurface : List (Option (List Nat)) := k.boundaryFaces.map k.orientedFace

/-- `_complete_edges_from_faces` of the boundary surface (what `SurfaceMesh(boundary)` does), on
faces in volume vertex ids: first occurrence of each undirected side, as a sorted pair -/
def surfaceEdges (faces : List (List Nat)) : List (List Nat) :=
  (faces.flatMap fun F => (List.range F.length).map fun i =>
      key [F.getD i 0, F.getD ((i + 1) % F.length) 0]).eraseDups

def boundarySurfaceEdges : List (List Nat) := surfaceEdges (k.boundarySurface.filterMap id)

/-- `(e, m2b_edge[e])` for `e in boundary_edges` : the index, among the edges of the boundary
surface, of the edge joining the images of the end points of `e` -/
def m2bEdgeTable : List (Nat × Option Nat) :=
  let bse := k.boundarySurfaceEdges
  k.boundaryEdges.map fun e => (e, idOf bse (key (k.m.edge e)))
/-- `b2m_edge[be]` from the table (later writes win) -/
def b2mEdgeOf (tbl : List (Nat × Option Nat)) (be : Nat) : Option Nat :=
  ((tbl.filter fun p => p.2 == some be).getLast?).map (·.1)
/-- per boundary edge: `b2m_edge[m2b_edge[e]] == e` -/
def edgeMapRoundTrip : List Bool :=
  let tbl := k.m2bEdgeTable
  tbl.map fun p => (p.2.bind (b2mEdgeOf tbl)) == some p.1

end Conn

/-- signed "outwardness" of the oriented triangle `(a,b,c)` seen from `d`:
`((pB−pA)×(pC−pA))·(pA−pD)` -/
def cross (u v : Pt) : Pt := ⟨u.y * v.z - u.z * v.y, u.z * v.x - u.x * v.z, u.x * v.y - u.y * v.x⟩
def dot (u v : Pt) : Rat := u.x * v.x + u.y * v.y + u.z * v.z
def outwardValue (pa pb pc pd : Pt) : Rat := dot (cross (pb.sub pa) (pc.sub pa)) (pa.sub pd)

namespace Mesh
variable (m : Mesh)

/-- orientation determinant of a cell: `det(v1−v0, v2−v0, v3−v0)` -/
def cellDet (c : Nat) : Rat :=
  match m.cell c with
  | [v0, v1, v2, v3] => det3 ((m.pt v1).sub (m.pt v0)) ((m.pt v2).sub (m.pt v0)) ((m.pt v3).sub (m.pt v0))
  | _ => 0

/-! ### decidable hypotheses of the theorems (`Conforming`) -/

/-- cells are tetrahedra with 4 distinct in-range vertices -/
def cellsOk : Bool := m.cells.all fun C => C.length == 4 && decide C.Nodup && C.all (· < m.nV)

/-- the face container is exactly the set of vertex triples of the cells, each once -/
def facesComplete : Bool :=
  decide (m.faces.map key).Nodup
  && m.faces.all (fun F => F.length == 3 &&
       m.cells.any fun C => (List.range 4).any fun i => key (subFace C i) == key F)
  && m.cells.all (fun C => (List.range 4).all fun i => (m.faceId (subFace C i)).isSome)

/-- every triangle lies in at most two cells -/
def atMostTwo : Bool := let k := m.conn; (List.range m.nF).all fun f => (k.faceToCells f).length ≤ 2

/-- the edge container is exactly the set of sides of the faces, each once, as sorted pairs -/
def edgesComplete : Bool :=
  decide (m.edges.map key).Nodup
  && m.edges.all (fun E => E.length == 2 && key E == E &&
       m.faces.any fun F => (List.range F.length).any fun i =>
         key [F.getD i 0, F.getD ((i + 1) % F.length) 0] == E)
  && m.faces.all (fun F => (List.range F.length).all fun i =>
       (m.edgeId (F.getD i 0) (F.getD ((i + 1) % F.length) 0)).isSome)

def nondegenerate : Bool := (List.range m.nC).all fun c => m.cellDet c != 0

def conforming : Bool := m.cellsOk && m.facesComplete && m.atMostTwo && m.edgesComplete

end Mesh
end Mouette.Vol
