import Mouette.Model.Geom
/-
C07/C08 — vocabulary of the IMPERATIVELY translated function bodies (core Lean only).

The translator (`vlib/gen/c07_translate.py`) reads the bodies of `geometry/geometry.py`, `attributes/attr_*.py`,
`attributes/glob.py`, `attributes/interpolate.py`, `operators/adjacency.py`, `operators/mass.py` statement by statement and
emits state-passing Lean definitions over the combinators below (`Generated/C07Src.lean`, `Generated/C08Src.lean`):

  * an attribute / numpy work array is a TOTAL MAP `Nat → α` (what C05 proves an Attribute is: a total map with a default;
    dense and sparse storage agree on it); `a[i] = v` is `wr`, `a[i] += v` / `a[i] = a[i] + v` is `upd`;
  * `for k in range(n)` is `forRange`, `for x in <list>` is `forEach`, `for i,x in enumerate(<list>)` is `forEnum`
    (all left folds in source order, the state is the tuple of containers the loop writes);
  * square roots are never evaluated: `X.norm()`, `geom.norm(X)`, `geom.distance` produce a formal root
    (`SSum` = formal `Σ cᵢ·√rᵢ`), `atan2(√s, c)` and `c/√s` produce the pair `(s, c)`.
-/
namespace Mouette.GeomSrc
open Mouette.Geom

/-! ### attributes as total maps -/

abbrev Attr (α : Type) := Nat → α

/-- `a[i] = v` -/
def wr {α : Type} (a : Attr α) (i : Nat) (v : α) : Attr α := fun j => if j = i then v else a j
/-- `a[i] = f(a[i])` (`+=`, `-=`, `/=`, `a[i] = a[i] + ..`) -/
def upd {α : Type} (a : Attr α) (i : Nat) (f : α → α) : Attr α := fun j => if j = i then f (a j) else a j

/-- a `scipy.sparse.lil_matrix`: a total map on index pairs; `mat[i,j] = v` -/
abbrev Attr2 (α : Type) := Nat → Nat → α
def wr2 {α : Type} (m : Attr2 α) (i j : Nat) (v : α) : Attr2 α := fun a b => if a = i ∧ b = j then v else m a b

/-- `for k in range(n): body` -/
def forRange {σ : Type} (n : Nat) (s : σ) (body : σ → Nat → σ) : σ := (List.range n).foldl body s
/-- `for x in l: body` -/
def forEach {σ β : Type} (l : List β) (s : σ) (body : σ → β → σ) : σ := l.foldl body s
/-- `for i, x in enumerate(l): body`, counting from `k` -/
def forEnumFrom {σ β : Type} : Nat → List β → σ → (σ → Nat → β → σ) → σ
  | _, [], s, _ => s
  | k, x :: xs, s, body => forEnumFrom (k + 1) xs (body s k x) body
def forEnum {σ β : Type} (l : List β) (s : σ) (body : σ → Nat → β → σ) : σ := forEnumFrom 0 l s body

/-- the first `n` values (what the harness reads from an attribute on a container with `n` elements) -/
def tab {α : Type} (a : Attr α) (n : Nat) : List α := (List.range n).map a

/-! ### formal sums of square roots -/

/-- `Σ cᵢ·√rᵢ` as the list of `(cᵢ, rᵢ)` -/
abbrev SSum := List (Rat × Rat)
def SSum.root (r : Rat) : SSum := [(1, r)]
def SSum.scale (k : Rat) (s : SSum) : SSum := s.map (fun p => (k * p.1, p.2))
def SSum.add (a b : SSum) : SSum := a ++ b
/-- normal form when every `cᵢ ≥ 0`: `cᵢ·√rᵢ = √(cᵢ²·rᵢ)`, as the list of radicands -/
def SSum.radicands (s : SSum) : List Rat := s.map (fun p => p.1 * p.1 * p.2)
def SSum.coefsNonneg (s : SSum) : Bool := s.all (fun p => decide (0 ≤ p.1))
/-- the model's `(weight, terms)` = `weight · Σ √term` in the same normal form -/
def radicandsOf (wt : Rat × List Rat) : List Rat := wt.2.map (fun t => wt.1 * wt.1 * t)

/-! ### mesh containers as the translated code reads them -/

/-- the `face_corners` container: corner → vertex (`mesh.face_corners[c]`), corner → face (`mesh.face_corners.adj(c)`) -/
def cornerVertex (faces : List Face) (c : Nat) : Nat := (cornerVerts faces).getD c 0
def cornerFace (faces : List Face) (c : Nat) : Nat := (cornerFaces faces).getD c 0

/-- `connectivity.face_to_first_corner(T)`: corners are numbered face after face -/
def firstCorner (faces : List Face) (t : Nat) : Nat := ((faces.take t).map List.length).sum
/-- `connectivity.face_to_corners(T)` -/
def faceCorners (faces : List Face) (t : Nat) : List Nat := (List.range (faces.getD t []).length).map (fun k => firstCorner faces t + k)
/-- `mesh.boundary_vertices` (as the increasing list of the vertices that are on the border) -/
def boundaryVertices (faces : List Face) (nV : Nat) : List Nat := (List.range nV).filter (isBorderVertex faces)

/-- `enumerate(mesh.faces)` on a triangle mesh as `(id, p, q, r)` records, counting from `t` -/
def faceIds : List (Nat × Nat × Nat) → Nat → List (Nat × Nat × Nat × Nat)
  | [], _ => []
  | f :: fs, t => (t, f.1, f.2.1, f.2.2) :: faceIds fs (t + 1)

/-- `edge_to_faces(A,B) = (direct_face(A,B), direct_face(B,A))` -/
def edgeFacesOpt (faces : List Face) (e : Nat × Nat) : Option Nat × Option Nat :=
  ((directFace faces e.1 e.2).map (·.1), (directFace faces e.2 e.1).map (·.1))
/-- `enumerate(mesh.edges)` with the two faces of each edge, as `(id, T1, T2)` records, counting from `k` -/
def edgeIds (faces : List Face) : List (Nat × Nat) → Nat → List (Nat × Option Nat × Option Nat)
  | [], _ => []
  | e :: es, k => (k, (edgeFacesOpt faces e).1, (edgeFacesOpt faces e).2) :: edgeIds faces es (k + 1)

/-- the row of `Nabla` contributed by the edge record `(id, T1, T2)`: entries `a` at `T1`, `b` at `T2` when both faces exist, nothing otherwise -/
def pairRow {γ : Type} (a b : γ) (it : Nat × Option Nat × Option Nat) : List (Nat × List (Nat × γ)) :=
  match it.2.1, it.2.2 with
  | some t1, some t2 => [(it.1, [(t1, a), (t2, b)])]
  | _, _ => []

/-- a scalar interpolation (sums, products by scalar weights, divisions by scalars) applied to a VECTOR attribute: numpy does it component by
component -/
def liftV3 (F : Attr Rat → Attr Rat → Attr Rat) (fa va : Attr V3) : Attr V3 :=
  fun v => ⟨F (fun t => (fa t).x) (fun t => (va t).x) v, F (fun t => (fa t).y) (fun t => (va t).y) v, F (fun t => (fa t).z) (fun t => (va t).z) v⟩

end Mouette.GeomSrc
