import Mouette.Model.Dijkstra
/-
Vocabulary for the `connectivity` dict of dicts of `shortest_path_to_vertex_set` (mouette/processing/paths.py), core Lean only.
A Python dict is the list of its `(key, value)` items IN INSERTION ORDER (language guarantee since Python 3.7: iteration
follows insertion order; assigning to an existing key replaces the value and keeps the position). This is the only
iteration-order assumption the translated construction (Generated/C09Glue.lean: `connBuild`) rests on.
-/
namespace Mouette.Dijkstra

/-- `d[k] = w` -/
def dset (d : List (Nat × Rat)) (k : Nat) (w : Rat) : List (Nat × Rat) :=
  if d.any (fun p => p.1 == k) then d.map (fun p => if p.1 == k then (k, w) else p) else d ++ [(k, w)]

/-- `connectivity`: one inner dict per key; keys never assigned read as the empty dict they were created with -/
abbrev Conn := Nat → List (Nat × Rat)

/-- `connectivity[u][v] = w` -/
def cset (c : Conn) (u v : Nat) (w : Rat) : Conn := upd c u (dset (c u) v w)

end Mouette.Dijkstra
