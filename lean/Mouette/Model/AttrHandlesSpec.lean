import Mouette.Model.AttrHandles
/-
Total-map specification of the extended operations (C05 round 2). The attribute is still a total map
`Int → Option Val` (`none` = unconstrained); the specification additionally remembers, per registered read result,
whether it is a vector object and which entry it was read from (`none`: a caller-owned vector, or a read made before the
attribute object / its storage was replaced).

* `hold i` answers like `get i`;
* `updH h …` through a vector handle read from entry `i` makes entry `i` unconstrained and NOTHING else — through a
  caller-owned or invalidated handle it changes nothing; whether the item assignment itself succeeds is not constrained
  (`any`);
* `setFromRead i j` writes to `j` the value read at `i`, re-validated exactly like any other written value; if entry
  `i` is unconstrained so is entry `j` afterwards;
* `setShared v keys` is the sequence of writes `set key v`, stopping at the first rejected one.
-/
namespace Mouette.Attr

structure SHeld where
  vec : Bool
  orig : Option Int

structure Spec2 where
  sp : Spec
  handles : List SHeld

def specInit2 (n0 : Nat) : Spec2 := { sp := specInit n0, handles := [] }

inductive SObs2 where
  | base (o : SObs)
  | any

def Matches2 : SObs2 → Obs → Prop
  | .base so, o => Matches so o
  | .any, _ => True

def SObs.isOk : SObs → Bool
  | .ok => true
  | _ => false

def sforget (l : List SHeld) : List SHeld := l.map (fun h => { h with orig := none })

/-- entry `j` becomes unconstrained (only if it is an element of the container) -/
def taintAt (j : Int) (t : Spec) : Spec :=
  match t.attr with
  | none => t
  | some a => if inRange j t.size then { t with attr := some { a with f := fun x => if x = j then none else a.f x } } else t

def specK (t : Spec) : Nat := match t.attr with | some a => a.k | none => 0

def specWriteAll : Spec → List Int → InVal → Spec × SObs
  | t, [], _ => (t, .ok)
  | t, key :: r, v =>
    match specStep t (.set key v) with
    | (t', .ok) => specWriteAll t' r v
    | (t', o) => (t', o)

def specStep2 (t : Spec2) : Op2 → Spec2 × SObs2
  | .base op =>
    let (sp', o) := specStep t.sp op
    ({ sp := sp', handles := if op.invalidates && o.isOk then sforget t.handles else t.handles }, .base o)
  | .hold i =>
    match specStep t.sp (.get i) with
    | (sp', .val o) => ({ sp := sp', handles := t.handles ++ [{ vec := decide (specK t.sp > 1), orig := some i }] }, .base (.val o))
    | (sp', o) => ({ t with sp := sp' }, .base o)
  | .updH h _ _ =>
    match t.handles[h]? with
    | none => (t, .base (.err .index))
    | some sh =>
      if sh.vec then
        match sh.orig with
        | some i => ({ t with sp := taintAt i t.sp }, .any)
        | none => (t, .any)
      else (t, .base .ok)
  | .setFromRead i j =>
    match specStep t.sp (.get i) with
    | (sp', .val (some w)) =>
      let (sp'', o) := specStep sp' (.set j (toInVal (specK t.sp) w))
      ({ t with sp := sp'' }, .base o)
    | (sp', .val none) => ({ t with sp := taintAt j sp' }, .any)
    | (sp', o) => ({ t with sp := sp' }, .base o)
  | .setShared v keys =>
    match t.sp.attr with
    | none => (t, .base (.err .noAttr))
    | some _ =>
      let (sp', o) := specWriteAll t.sp keys v
      ({ sp := sp', handles := t.handles ++ [{ vec := (match v with | .vec _ => true | .sc _ => false), orig := none }] }, .base o)

def specRun2 : Spec2 → List Op2 → List SObs2
  | _, [] => []
  | t, op :: ops => (specStep2 t op).2 :: specRun2 (specStep2 t op).1 ops

def op2InRange (n : Nat) : Op2 → Bool
  | .base op => opInRange n op
  | .hold i => inRange i n
  | .updH _ _ _ => true
  | .setFromRead i j => inRange i n && inRange j n
  | .setShared _ keys => keys.all (fun key => inRange key n)

def sizeAfter2 (n : Nat) : Op2 → Nat
  | .base op => sizeAfter n op
  | _ => n

def wellIndexed2 : Nat → List Op2 → Bool
  | _, [] => true
  | n, op :: ops => op2InRange n op && wellIndexed2 (sizeAfter2 n op) ops

end Mouette.Attr
