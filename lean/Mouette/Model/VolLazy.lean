/-
Guard-table state machine for the lazily computed caches of a `_Connectivity` object
(`VolumeMesh._Connectivity` after method-override resolution).  Core Lean only.

A method body is abstracted to the sequence of its *events* in source order (the translator
`vlib/props/c03.py: translate()` extracts them from the Python AST; every statement of a body is
assumed to execute, so branches are over-approximated):

* `guard x f`   — `if self.x is None: self.f()`          (AttributeError when `x` was never created)
* `read x`      — any other load of `self.x`              (AttributeError / "None is not subscriptable")
* `call f`      — `self.f(..)` or `super().f(..)` (resolved)
* `write x`     — `self.x = <not None>` ;  `writeNone x` — `self.x = None`

The state only records, per cache attribute, whether it does not exist (0), is `None` (1) or holds
a value (2).
-/
namespace Mouette.VolLazy

inductive Ev where
  | guard (x f : Nat) | read (x : Nat) | call (f : Nat) | write (x : Nat) | writeNone (x : Nat)
deriving DecidableEq, Repr

inductive Outcome where
  | ok | errAttr | errNone | fuel
deriving DecidableEq, Repr

abbrev State := List Nat

structure Table where
  attrNames : List String
  methodNames : List String          -- index = method id (`Class.method`)
  methods : List (List Ev)
  initId : Nat                       -- `__init__` of the concrete class
  alphabet : List Nat                -- public accessors of the concrete class (+ `clear`)
  fuel : Nat                         -- call depth bound (≥ number of methods suffices without recursion)

namespace Table
variable (t : Table)

def nAttr : Nat := t.attrNames.length

/-- run method `f` (call depth ≤ fuel) -/
def execM : Nat → Nat → State → State × Outcome
  | 0, _, s => (s, .fuel)
  | fuel + 1, f, s =>
    (t.methods.getD f []).foldl (fun acc ev =>
      match acc with
      | (s, .ok) =>
        (match ev with
         | .guard x g =>
           (match s.getD x 0 with
            | 0 => (s, .errAttr)
            | 1 => execM fuel g s
            | _ => (s, .ok))
         | .read x =>
           (match s.getD x 0 with
            | 0 => (s, .errAttr)
            | 1 => (s, .errNone)
            | _ => (s, .ok))
         | .call g => execM fuel g s
         | .write x => (s.set x 2, .ok)
         | .writeNone x => (s.set x 1, .ok))
      | bad => bad) (s, .ok)

/-- the state right after the constructor -/
def fresh : State × Outcome := t.execM t.fuel t.initId (List.replicate t.nAttr 0)

/-- one public query -/
def stepQ (s : State) (q : Nat) : State × Outcome := t.execM t.fuel q s

/-- outcomes of a history of public queries from the fresh state; a failed query leaves the state
it reached (as Python does) -/
def run (s : State) : List Nat → List Outcome
  | [] => []
  | q :: qs => let r := t.stepQ s q; r.2 :: run r.1 qs

/-- `R` contains the successors of all its states and no query fails on a state of `R` -/
def closedUnder (R : List State) : Bool :=
  R.all fun s => t.alphabet.all fun q =>
    let r := t.stepQ s q
    r.2 == .ok && R.contains r.1

/-- states reachable from `S` in ≤ n rounds (each round adds all successors) -/
def reachFrom : Nat → List State → List State
  | 0, S => S
  | n + 1, S =>
    let S' := (S ++ S.flatMap fun s => t.alphabet.map fun q => (t.stepQ s q).1).eraseDups
    reachFrom n S'

def reach : List State := t.reachFrom (t.alphabet.length + 2) [t.fresh.1]

/-- every cache that an accessor tests or reads exists after `__init__`, and on every state
reachable by any history every accessor runs without touching a missing / `None` cache -/
def wellGuarded : Bool :=
  t.fresh.2 == .ok && (t.reach).contains t.fresh.1 && t.closedUnder t.reach

end Table

def fmtOutcome : Outcome → String
  | .ok => "ok" | .errAttr => "err:Attribute" | .errNone => "err:NoneRead" | .fuel => "err:Fuel"

/-- history given by method names (as the harness sends them) -/
def runNames (t : Table) (qs : List String) : List String :=
  let ids := qs.map fun q => t.methodNames.idxOf q
  if ids.any (fun i => !t.alphabet.contains i) then ["bad-name"] else
  (t.run t.fresh.1 ids).map fmtOutcome

end Mouette.VolLazy
