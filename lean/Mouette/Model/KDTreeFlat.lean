import Mouette.Model.KDTree
/-
Second, FLAT model of `mouette/spatial/kdtree.py`, mirroring the code's data structures as they are (core Lean only):

* `self.nodes` is a flat list of `FNode`s (`KDTree.Node` / `KDTree.Leaf` records with id, split axis, parent id,
  children ids, box); ids are handed out by `_new_leaf` (`self._nid`), the list is appended to in dequeue order;
* `__init__` runs a FIFO queue (`deque`, `popleft`/`append`) of pending leaves; a pending leaf of size
  `≤ max_leaf_size` is appended as a leaf, otherwise it is split (`splitIdx`, the repaired rule), replaced by a
  node and its two children are created (ids `nid`, `nid+1`) and appended to the queue;
* `query` runs an explicit stack of node ids (`deque`, `pop`/`append`): the pruning decision for both children is
  taken when the parent is popped, the children are pushed in the order of `sorted([(dist_left,left),(dist_right,right)])`;
* `query_radius` runs a FIFO queue of node ids.
The only ghost component is `Pending.path` (heap-path id: root 1, children 2p / 2p+1), used to key the pivot
parameter exactly as the harness records it; it does not influence the control flow.
`Model/KDTree.lean` (the recursive model about which the C11 theorems are proved) is unchanged;
`Props/C11F.lean` proves that this flat model refines to it.
-/
namespace Mouette.KD
open Mouette.AABB Mouette.AABB.EQ

/-- a leaf waiting in the construction queue (`KDTree.Leaf` at build time) -/
structure Pending where
  id : Nat
  axis : Nat
  parent : Option Nat
  path : Nat
  idx : List Nat
  box : Box
deriving Repr

/-- an entry of `self.nodes` -/
inductive FNode where
  | leaf (id axis : Nat) (parent : Option Nat) (idx : List Nat) (box : Box)
  | node (id axis : Nat) (parent : Option Nat) (split : Rat) (left right : Nat) (box : Box)
deriving Repr

namespace FNode
def box : FNode → Box
  | leaf _ _ _ _ b => b
  | node _ _ _ _ _ _ b => b
def id : FNode → Nat
  | leaf i _ _ _ _ => i
  | node i _ _ _ _ _ _ => i
def isLeaf : FNode → Bool
  | leaf .. => true
  | node .. => false
end FNode

/-- leaves of a flat node list, in list (= id) order -/
def leavesF : List FNode → List (List Nat × Box)
  | [] => []
  | .leaf _ _ _ idx b :: ns => (idx, b) :: leavesF ns
  | .node .. :: ns => leavesF ns

def Pending.less (P : Nat → Pt) (dim : Nat) (piv : Nat → List Rat → Rat) (it : Pending) (nid : Nat) : Pending :=
  let s := splitIdx P it.axis (piv it.path (it.idx.map (fun i => coord (P i) it.axis))) it.idx
  ⟨nid, (it.axis + 1) % dim, some it.id, 2 * it.path, s.2.1, boxLess it.box it.axis s.1⟩

def Pending.more (P : Nat → Pt) (dim : Nat) (piv : Nat → List Rat → Rat) (it : Pending) (nid : Nat) : Pending :=
  let s := splitIdx P it.axis (piv it.path (it.idx.map (fun i => coord (P i) it.axis))) it.idx
  ⟨nid + 1, (it.axis + 1) % dim, some it.id, 2 * it.path + 1, s.2.2, boxMore it.box it.axis s.1⟩

def Pending.toNode (P : Nat → Pt) (piv : Nat → List Rat → Rat) (it : Pending) (nid : Nat) : FNode :=
  let s := splitIdx P it.axis (piv it.path (it.idx.map (fun i => coord (P i) it.axis))) it.idx
  .node it.id it.axis it.parent s.1 nid (nid + 1) it.box

def Pending.toLeaf (it : Pending) : FNode := .leaf it.id it.axis it.parent it.idx it.box

/-- the `while len(queue) > 0` loop of `__init__`: `queue` (FIFO, head = next `popleft`), `nid` = `self._nid`,
`nodes` = `self.nodes`; `fuel` bounds the number of iterations -/
def buildBFS (P : Nat → Pt) (dim leafSize : Nat) (piv : Nat → List Rat → Rat) :
    Nat → List Pending → Nat → List FNode → Option (List FNode)
  | _, [], _, nodes => some nodes
  | 0, _ :: _, _, _ => none
  | fuel + 1, it :: rest, nid, nodes =>
    if it.idx.length ≤ leafSize then
      buildBFS P dim leafSize piv fuel rest nid (nodes ++ [it.toLeaf])
    else
      buildBFS P dim leafSize piv fuel (rest ++ [it.less P dim piv nid, it.more P dim piv nid]) (nid + 2)
        (nodes ++ [it.toNode P piv nid])

/-- the root pending leaf: id 0, axis 0, no parent, all indices, infinite box -/
def rootPending (n dim : Nat) : Pending := ⟨0, 0, none, 1, List.range n, Box.infinite dim⟩

/-- `KDTree(points, leafSize)` as coded: at most `2n+1` loop iterations are ever needed -/
def buildBFSRoot (P : Nat → Pt) (n dim leafSize : Nat) (piv : Nat → List Rat → Rat) : Option (List FNode) :=
  buildBFS P dim leafSize piv (2 * n + 1) [rootPending n dim] 1 []

/-- read the tree rooted at node `id` back from the flat list (`fuel` bounds the depth) -/
def toTree (nodes : List FNode) : Nat → Nat → Option Tree
  | 0, _ => none
  | f + 1, id =>
    match nodes[id]? with
    | some (.leaf _ _ _ idx box) => some (.leaf idx box)
    | some (.node _ ax _ sv l r box) =>
      (match toTree nodes f l, toTree nodes f r with
       | some tl, some tr => some (.node ax sv box tl tr)
       | _, _ => none)
    | none => none

/-! ### queries over the flat list -/

/-- children to push, in `append` order: `for dist,child in sorted([(dl,left),(dr,right)]): if furthest > dist: append(child)` -/
def pushOrder (fz dl dr : EQ) (l r : Nat) : List Nat :=
  if dl ≤ dr then (if dl < fz then [l] else []) ++ (if dr < fz then [r] else [])
  else (if dr < fz then [r] else []) ++ (if dl < fz then [l] else [])

/-- `query`: `stack` head = next `pop()`; `st` = the candidate heap -/
def queryFlat (P : Nat → Pt) (q : Pt) (k : Nat) (nodes : List FNode) : Nat → List Nat → List Cand → Option (List Cand)
  | _, [], st => some st
  | 0, _ :: _, _ => none
  | f + 1, id :: stack, st =>
    match nodes[id]? with
    | some (.leaf _ _ _ idx _) => queryFlat P q k nodes f stack (visitLeaf P q k idx st)
    | some (.node _ _ _ _ l r _) =>
      (match nodes[l]?, nodes[r]? with
       | some nl, some nr =>
         queryFlat P q k nodes f ((pushOrder (furthest k st) (nl.box.dist2 q) (nr.box.dist2 q) l r).reverse ++ stack) st
       | _, _ => none)
    | none => none

/-- `tree.query(q, k)` on the flat list -/
def knnFlat (P : Nat → Pt) (q : Pt) (k : Nat) (nodes : List FNode) (fuel : Nat) : Option (List Cand) :=
  queryFlat P q k nodes fuel [0] []

/-- `query_radius`: FIFO queue of node ids, answer in visiting order -/
def radiusFlat (P : Nat → Pt) (q : Pt) (r2 : Rat) (nodes : List FNode) : Nat → List Nat → List Nat → Option (List Nat)
  | _, [], acc => some acc
  | 0, _ :: _, _ => none
  | f + 1, id :: queue, acc =>
    match nodes[id]? with
    | none => none
    | some nd =>
      if fin r2 < nd.box.dist2 q then radiusFlat P q r2 nodes f queue acc
      else match nd with
        | .leaf _ _ _ idx _ => radiusFlat P q r2 nodes f queue (acc ++ idx.filter (fun i => decide (sqDist (P i) q ≤ r2)))
        | .node _ _ _ _ l r _ => radiusFlat P q r2 nodes f (queue ++ [l, r]) acc

end Mouette.KD
