import Mouette.Model.Proto
import Mouette.Model.IO
import Mouette.Model.IOGeogram
/-
Protocol front-end for C04.  Coordinates are opaque strings (the harness sends `float.hex()` spellings), so
the codec is `fmt = id`, `parse = some`: what the model does with a coordinate is exactly "carry its text".

  rt  <fmt> <exportEdges> <completeEdges> <ignE> <ignF> <ignC> <mesh>
        mesh = nv (x y z)* ne (a b)* (N | H k id*) nf (len id*)* nc (len id*)*
               [geogram only:  nattr (cont name type dim nvals tok*)*  nadj adj*]
        reply: <tokens written> ;; <content read back from these tokens> ;; <dimensionality = class>
  imp <fmt> <file>        file = nlines (ntoks tok*)*      tok = k:<kw> | i:<int> | x:<number text>
        reply: <content> ;; <dimensionality>
-/
namespace Mouette.DriveC04
open Mouette.Proto Mouette.IO

def cd : Codec String := { fmt := id, parse := some, r32 := id, zero := "0x0.0p+0" }

def pTok : P Tok := do
  let t ← tok
  let body := (t.drop 2).toString
  if t.startsWith "k:" then pure (.kw body)
  else if t.startsWith "x:" then pure (.txt body)
  else if t.startsWith "i:" then (match body.toInt? with | some i => pure (.int i) | none => failure)
  else failure

def fmtTok : Tok → String
  | .kw s => "k:" ++ s
  | .int i => "i:" ++ toString i
  | .txt s => "x:" ++ s

def fmtFile (f : File) : String :=
  " | ".intercalate (f.map (fun l => " ".intercalate (l.map fmtTok)))

def pFile : P File := listOf (listOf pTok)

def pVert : P (String × String × String) := do
  let x ← tok; let y ← tok; let z ← tok; pure (x, y, z)

def pEdge : P (Nat × Nat) := do let a ← nat; let b ← nat; pure (a, b)

def pHard : P (Option (List Nat)) := do
  let t ← tok
  if t = "N" then pure none else if t = "H" then (do let l ← listOf nat; pure (some l)) else failure

def pRaw : P (Raw String) := do
  let vs ← listOf pVert
  let es ← listOf pEdge
  let h ← pHard
  let fs ← listOf (listOf nat)
  let cs ← listOf (listOf nat)
  pure { verts := vs, edges := es, hard := h, faces := fs, cells := cs }

def fmtElems (l : List (List Nat)) : String := fmtList fmtNats l

def fmtRaw (r : Raw String) : String :=
  s!"V {fmtList (fun (v : String × String × String) => s!"{v.1} {v.2.1} {v.2.2}") r.verts} " ++
  s!"E {fmtList (fun (e : Nat × Nat) => s!"{e.1} {e.2}") r.edges} F {fmtElems r.faces} C {fmtElems r.cells}"

def contOfTag (s : String) : Option Geo.Cont :=
  match s with
  | "vertices" => some .vertices | "edges" => some .edges | "faces" => some .facets
  | "face_corners" => some .facetCorners | "cells" => some .cells | "cell_corners" => some .cellCorners
  | "cell_faces" => some .cellFacets | _ => none

def tagOfCont : Geo.Cont → String
  | .vertices => "vertices" | .edges => "edges" | .facets => "faces" | .facetCorners => "face_corners"
  | .cells => "cells" | .cellCorners => "cell_corners" | .cellFacets => "cell_faces"

def typeOfTag (s : String) : Option Geo.AType :=
  match s with | "bool" => some .bool | "int" => some .int | "float" => some .float | _ => none

def tagOfType : Geo.AType → String | .bool => "bool" | .int => "int" | .float => "float"

def pAttr : P Geo.GAttr := do
  let c ← tok; let nm ← tok; let ty ← tok; let d ← nat; let vals ← listOf pTok
  match contOfTag c, typeOfTag ty with
  | some k, some t => pure { cont := k, name := "\"" ++ nm ++ "\"", typ := t, dim := d, vals := vals }
  | _, _ => failure

def fmtAttr (a : Geo.GAttr) : String :=
  s!"{tagOfCont a.cont} {a.name} {tagOfType a.typ} {a.dim} {fmtList fmtTok a.vals}"

def fmtG (g : Geo.GMesh String) : String :=
  fmtRaw g.raw ++ " A " ++ fmtList fmtAttr g.attrs ++ " J " ++ fmtNats g.adj

inductive Fmt where | obj | mesh | geogram | off | tet | xyz | stl

def pFmt : P Fmt := do
  let t ← tok
  match t with
  | "obj" => pure .obj | "mesh" => pure .mesh | "geogram_ascii" => pure .geogram | "off" => pure .off
  | "tet" => pure .tet | "xyz" => pure .xyz | "stl" => pure .stl | _ => failure

def importPlain (f : Fmt) (file : File) : Option (Raw String) :=
  match f with
  | .obj => importObj cd file
  | .mesh => importMedit cd file
  | .off => importOff cd file
  | .tet => importTet cd file
  | .xyz => importXyz cd file
  | .stl => importStl cd file
  | .geogram => none

def replyImport (f : Fmt) (file : File) : String :=
  match f with
  | .geogram => (match Geo.importGeo cd file with
      | some g => s!"{fmtG g} ;; {dim g.raw}"
      | none => "err ;; -")
  | _ => (match importPlain f file with
      | some r => s!"{fmtRaw r} ;; {dim r}"
      | none => "err ;; -")

def exportPlain (f : Fmt) (cfg : Cfg) (m : Raw String) : Option File :=
  match f with
  | .obj => some (exportObj cd cfg m)
  | .mesh => some (exportMedit cd m)
  | .off => some (exportOff cd m)
  | .tet => some (exportTet cd m)
  | .xyz => some (exportXyz cd m)
  | .stl => exportStl cd m
  | .geogram => none

def handleRt : P String := do
  let f ← pFmt
  let ee ← bool; let ce ← bool
  let ie ← bool; let iff ← bool; let ic ← bool
  let m ← pRaw
  let cfg : Cfg := { exportEdges := ee, completeEdges := ce }
  let m' := applyIgnore { edges := ie, faces := iff, cells := ic } m
  match f with
  | .geogram => do
    let attrs ← listOf pAttr
    let adj ← listOf nat
    let drop (k : Geo.Cont) : Bool :=
      (ie && k == .edges) || (iff && (k == .facets || k == .facetCorners)) ||
      (ic && (k == .cells || k == .cellCorners || k == .cellFacets))
    let g : Geo.GMesh String := { raw := m', attrs := attrs.filter (fun a => !drop a.cont), adj := if ic then [] else adj }
    let file := Geo.exportGeo cd g
    pure s!"{fmtFile file} ;; {replyImport .geogram file}"
  | _ =>
    match exportPlain f cfg m' with
    | some file => pure s!"{fmtFile file} ;; {replyImport f file}"
    | none => pure "err ;; - ;; -"

def handleImp : P String := do
  let f ← pFmt
  let file ← pFile
  pure (replyImport f file)

def handle (ts : List String) : Option String :=
  match ts with
  | "rt" :: r => runP handleRt r
  | "imp" :: r => runP handleImp r
  | _ => none

end Mouette.DriveC04
