import Mouette.Model.FrameField
/-
C18, vertex-based field (`vertex2d.py`, `connection.py: SurfaceConnectionVertices`, `attr_faces.py:
parallel_transport_curvature`): executable model, core Lean only, added beside `Model/FrameField.lean`.
Angles in TURNS (π = 1/2). Hand-written normal forms; the source-shaped terms are in `Generated/C18Vertex.lean`
and are tied to these definitions by bridge theorems in `Props/C18.lean`.
-/
namespace Mouette.FFV
open Mouette.FF

/-! ## constraint initialisation at feature vertices (`_initialize_variables`) -/

/-- `self.smooth_normals and self.order % 2 != 1` -/
def guardedBranch (smoothNormals : Bool) (order : Nat) : Bool := smoothNormals && (order % 2 == 0)

/-- `if abs(self.var[A]) > 1e-8` -/
def featThreshold : Rat := 1 / 100000000

/-- `for A in feature_vertices: if abs(var[A]) > 1e-8: var[A] /= abs(var[A])`; `rs[A]` is `abs(var[A])` (a square root,
supplied from outside) -/
def normalizeFeature (var : List Cpx) (featV : List Nat) (rs : List Rat) : List Cpx :=
  featV.foldl (fun v A => if featThreshold < rs.getD A 0 then v.set A (cdivR (v.getD A czero) (rs.getD A 0)) else v) var

/-- the whole initialisation: accumulation of the representation powers of the incident feature edges (with the
cancellation guard in the projection branch), then normalisation of the feature vertices -/
def initVertsFull (order n : Nat) (smoothNormals : Bool) (contribs : List (Nat × Cpx)) (featV : List Nat) (rs : List Rat) : List Cpx :=
  normalizeFeature (initVerts order n (guardedBranch smoothNormals order) contribs) featV rs

/-! ## branch matching on an edge (`flag_singularities`) -/

/-- a mesh edge `(A,B)` as stored, with the phases of the two frames and the two transports
`aA = transport(A,B)`, `aB = transport(B,A)` -/
structure VEdge where
  a : Nat
  b : Nat
  thA : Rat
  aA : Rat
  thB : Rat
  aB : Rat

/-- `angles = [angle_diff(phase(uB) - aB - pi, phase(uA) - aA) for uA in roots(fA, order)]`, `uB = roots(fB, order)[0]` -/
def candidatesV (n : Nat) (e : VEdge) : List Rat :=
  (List.range n).map (fun (k : Nat) => angleDiff (e.thB / (n : Rat) - e.aB - 1/2) ((e.thA + (k : Rat)) / (n : Rat) - e.aA))

/-- `angles[np.argmin(abs_angles)]` -/
def edgeRotV (n : Nat) (e : VEdge) : Rat := argminAbs (candidatesV n e)

/-- an edge with the rotation kept on it -/
structure RE where
  a : Nat
  b : Nat
  r : Rat

def VEdge.toRE (n : Nat) (e : VEdge) : RE := { a := e.a, b := e.b, r := edgeRotV n e }

/-- `edge_rot[(A,B)] = r`, `edge_rot[(B,A)] = -r` : what edge `e` puts at the directed key `(u,v)` -/
def dirContrib (e : RE) (u v : Nat) : Rat :=
  if e.a = u ∧ e.b = v then e.r else if e.b = u ∧ e.a = v then -e.r else 0

/-- `edge_rot[(u,v)]` (every undirected edge occurs once in `mesh.edges`: `uniqueEdges`) -/
def rotD (es : List RE) (u v : Nat) : Rat := es.foldr (fun e acc => dirContrib e u v + acc) 0

def sameUndirected (e f : RE) : Bool := (e.a == f.a && e.b == f.b) || (e.a == f.b && e.b == f.a)

/-- well-formedness of the edge list: no self loop, no undirected edge twice -/
def uniqueEdges : List RE → Bool
  | [] => true
  | e :: es => (e.a != e.b) && !(es.any (sameUndirected e)) && uniqueEdges es

structure Face where
  A : Nat
  B : Nat
  C : Nat

/-- `for u,v in [(A,B),(B,C),(C,A)]: angle += edge_rot[(u,v)]` -/
def holonomy (es : List RE) (f : Face) : Rat := rotD es f.A f.B + rotD es f.B f.C + rotD es f.C f.A

/-! ## curvature of the vertex connection on a face (`parallel_transport_curvature`) -/
def ceilR (x : Rat) : Int := -((-x).floor)

/-- `cmath.phase` of `exp(2πi x)`, in turns: the representative of `x` in `(-1/2, 1/2]` -/
def wrapPhase (x : Rat) : Rat := x - (ceilR (x - 1/2) : Rat)

/-- one factor of the product: `transport(b,a) - transport(a,b) - pi` for the half-edge `(a,b)` -/
def curvTerm (tba tab : Rat) : Rat := tba - tab - 1/2

def curvSum (t : Nat → Nat → Rat) (f : Face) : Rat :=
  curvTerm (t f.B f.A) (t f.A f.B) + curvTerm (t f.C f.B) (t f.B f.C) + curvTerm (t f.A f.C) (t f.C f.A)

def curvature (t : Nat → Nat → Rat) (f : Face) : Rat := wrapPhase (curvSum t f)

/-- the quantity whose sign is stored in `singuls[id_face]` -/
def faceAngle (es : List RE) (t : Nat → Nat → Rat) (f : Face) : Rat := holonomy es f + curvature t f

/-! ## sums over faces -/
def sumF (g : Face → Rat) (fs : List Face) : Rat := fs.foldr (fun f acc => g f + acc) 0

def ind (p : Prop) [Decidable p] : Rat := if p then 1 else 0

/-- number of faces having the directed half-edge `(u,v)` -/
def cnt (fs : List Face) (u v : Nat) : Rat :=
  sumF (fun f => ind (f.A = u ∧ f.B = v) + ind (f.B = u ∧ f.C = v) + ind (f.C = u ∧ f.A = v)) fs

/-- Σ_e r_e (cnt(a,b) − cnt(b,a)): what is left of the holonomies after the interior edges cancelled -/
def borderTerm (es : List RE) (fs : List Face) : Rat :=
  es.foldr (fun e acc => e.r * (cnt fs e.a e.b - cnt fs e.b e.a) + acc) 0

/-- transports as an association list keyed by directed vertex pairs (`conn._transport`) -/
def trOf (ts : List ((Nat × Nat) × Rat)) (u v : Nat) : Rat :=
  match ts.find? (fun p => p.1 == (u, v)) with
  | some p => p.2
  | none => 0

end Mouette.FFV
