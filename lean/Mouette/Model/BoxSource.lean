import Mouette.Model.AABB
/-
Vocabulary for the definitions that `vlib/gen/c12_source.py` extracts from the BODIES of the methods of
`mouette/geometry/aabb.py` (`Generated/C12Box.lean`).  Core Lean only.  What each numpy construct is read as:

Python                                   | here
-----------------------------------------|----------------------------------------------------------------------------
a bound array of a box (`_p1`, `_p2`)    | `V = List EQ` (rationals extended with ±∞; NaN excluded)
a point / padding argument               | `List Rat` (finite), read as a bound array through `ofPt`
`np.maximum(a, b)` / `np.minimum(a, b)`  | `vmax` / `vmin` (componentwise, truncating to the shorter operand)
`np.max((a, b), axis=0)`, `np.min(..)`   | `vmax` / `vmin`
`np.maximum(a, 0.)`                      | `vmax0`
`a - pt`, `pt - a`, `a + p`, `a - p`     | `vsubPt`, `ptSubV`, `vaddPt`, `vsubPt`   (one operand finite: never ∞ − ∞)
`p2 - p1`, `(p1 + p2)/2`                 | `vsubFin`, `vmid` on the FINITE parts (`span`/`center` are claimed for finite boxes only)
`a <= b`, `a < b` then `.all()`/`np.any` | `vle`, `vlt` then `ball` / `bany`
`np.full(n, x)`                          | `full n x`
`norm(vec, which)`                       | `normOf which vec` (the three norms of `Model/AABB.lean`; l2 SQUARED)
`raise ..`                               | `none`
-/
namespace Mouette.BoxS
open Mouette.AABB Mouette.AABB.EQ

abbrev V := List EQ

def ofPt (p : List Rat) : V := p.map fin
def vmax (a b : V) : V := List.zipWith EQ.max a b
def vmin (a b : V) : V := List.zipWith EQ.min a b
def vmax0 (a : V) : V := a.map (fun x => EQ.max x (fin 0))
def vsubPt (a : V) (p : List Rat) : V := List.zipWith EQ.subR a p
def ptSubV (p : List Rat) (a : V) : V := List.zipWith EQ.rsub p a
def vaddPt (a : V) (p : List Rat) : V := List.zipWith EQ.addR a p
def vsubFin (a b : V) : List Rat := List.zipWith (fun x y => Box.toRat x - Box.toRat y) a b
def vmid (a b : V) : List Rat := List.zipWith (fun x y => (Box.toRat x + Box.toRat y) / 2) a b
def vle (a b : V) : List Bool := List.zipWith (fun x y => decide (x ≤ y)) a b
def vlt (a b : V) : List Bool := List.zipWith (fun x y => decide (x < y)) a b
def ball (m : List Bool) : Bool := m.all id
def bany (m : List Bool) : Bool := m.any id
def full (n : Nat) (x : Rat) : List Rat := List.replicate n x
/-- `np.maximum(pad, 0)` on a finite padding vector -/
def clamp0 (p : List Rat) : List Rat := p.map (fun x => Box.rmax x 0)
/-- `np.min(points, axis=0)` / `np.max(points, axis=0)` of a NON-EMPTY point list -/
def colMin (p : List Rat) (ps : List (List Rat)) : List Rat := Box.colFold Box.rmin p ps
def colMax (p : List Rat) (ps : List (List Rat)) : List Rat := Box.colFold Box.rmax p ps
def psub (a b : List Rat) : List Rat := List.zipWith (· - ·) a b
def padd (a b : List Rat) : List Rat := List.zipWith (· + ·) a b

/-- `norm(vec, which)` for a `which` accepted by `check_argument` -/
def normOf (which : String) (v : V) : EQ :=
  if which = "l1" then Box.normL1 v else if which = "linf" then Box.normLinf v else Box.normL2sq v

end Mouette.BoxS
