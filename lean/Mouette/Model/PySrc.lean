import Mouette.Model.Border
/-
Vocabulary of the C01 / C15 fragments TRANSLATED imperatively from the Python source (`Generated/C15Border.lean`, …,
written by `vlib/gen/c15_source.py` / `c01_source.py` with the compiler `vlib/gen/c01_pylean.py` on every run).  Core Lean only.

  a `dict` / `Attribute(bool)` used as a set of flagged keys        `BoolMap` = the list of the keys set to `True`, in
                                                                    the order they were set (`boolGet`, `boolSet`)
  a `dict()` from vertex ids to ids                                 `NatDict` = association list, most recent binding
                                                                    first (`Border.lookupMap`; a missing key raises)
  `mesh.edges[e]` with `e` possibly `None`                          `edgeAt` (`none` = raises)
-/
namespace Mouette.PySrc
open Mouette.Surface

abbrev BoolMap := List Nat
def boolGet (m : BoolMap) (k : Nat) : Bool := m.contains k
def boolSet (m : BoolMap) (k : Nat) (v : Bool) : BoolMap := if v then m ++ [k] else m.filter (· != k)

abbrev NatDict := List (Nat × Nat)

def edgeAt (S : Surf) (e : Option Nat) : Option (Nat × Nat) := e.bind fun i => S.edges[i]?

end Mouette.PySrc
