import Mouette.Model.Volume
/-!
Vocabulary of the definitions that `vlib/props/c03_source.py` compiles from the *bodies* of
`mouette/mesh/datatypes/volume.py` (statement by statement, on every run) into
`Generated/C03S.lean`.  Core Lean only.  This file fixes what a Python container operation means;
everything else in `Generated/C03S.lean` comes from the source text.

* `dict([(i, []) for i in range(n)])`, `dict([(i, set()) for i in range(n)])` : a `Dict` — the list of
  the `n` values, indexed by the key (as in `Model/Volume.lean: buckets`).  A store under a key that is
  not in the dictionary (Python: `KeyError`; e.g. a `None` face id, modelled by the out-of-range
  sentinel) leaves the dictionary unchanged: the `raises…` predicates of the hand model say when this
  happens, and it never does under the hypotheses of the theorems.
* a Python `set` of ints is represented by the LOG of its insertions (a list); membership is
  membership in the log; `list(s)` / iteration observe `log.eraseDups` (first-insertion order — Python's
  order is unspecified and forgotten by every comparator).
* an `Attribute` with a default value (`_adjC2C`, default `NOT_AN_ID`; `_is_vertex_on_border`, default
  `False`) is the association list of its stores, later stores win.
* an `int -> int` dict built by stores (`m2b_face[iF] = i`) is an association list, later stores win.
-/
namespace Mouette.VolS
open Mouette.Vol

abbrev Dict := List (List Nat)

/-- `dict([(i, []) for i in range(n)])` -/
def dictOfLists (n : Nat) : Dict := List.replicate n []
/-- `dict([(i, set()) for i in range(n)])` -/
def dictOfSets (n : Nat) : Dict := List.replicate n []
/-- `d[k]` -/
def dGet (d : Dict) (k : Nat) : List Nat := d.getD k []
/-- `d[k].append(v)` -/
def dAppend (d : Dict) (k v : Nat) : Dict := d.modify k (· ++ [v])
/-- `d[k].add(v)` (set value: insertion log) -/
def dAdd (d : Dict) (k v : Nat) : Dict := d.modify k (· ++ [v])
/-- `d[k] |= vs` -/
def dUnion (d : Dict) (k : Nat) (vs : List Nat) : Dict := d.modify k (· ++ vs)
/-- `d[k] = list(d[k])` for a set value -/
def dListOfSet (d : Dict) (k : Nat) : Dict := d.modify k List.eraseDups

/-- association list with later stores winning: `a[k] = v` / `a[k]` (`none` = never stored: the default value of an
`Attribute`, a `KeyError` for a dict) -/
abbrev AMap (κ : Type) := List (κ × Nat)
def aSet {κ : Type} (a : AMap κ) (k : κ) (v : Nat) : AMap κ := a ++ [(k, v)]
def aGet {κ : Type} [BEq κ] (a : AMap κ) (k : κ) : Option Nat := a.reverse.lookup k

/-- a Boolean `Attribute` with default `False`: the list of the keys stored `True` -/
abbrev Flags := List Nat
def flagSet (fl : Flags) (k : Nat) : Flags := fl ++ [k]
def flagGet (fl : Flags) (k : Nat) : Bool := fl.contains k

/-- `v0, v1, v2, v3 = cell` : the i-th unpacked value (`ValueError` when the length differs: not modelled, the
hypotheses of the theorems give 4-vertex cells) -/
def unpack (l : List Nat) (i : Nat) : Nat := l.getD i 0

/-- `[x for x in xs if x not in ys][0]` (`IndexError` → `none`) -/
def firstNotIn (xs ys : List Nat) : Option Nat := (xs.filter (fun x => !ys.contains x)).head?

/-- `a[k]` used as a value (`KeyError` → 0: never under the hypotheses of the theorems) -/
def aGetD {κ : Type} [BEq κ] (a : AMap κ) (k : κ) : Nat := (aGet a k).getD 0

/-- `[x for x in xs if x not in ys][0]` as a value (`IndexError` → 0) -/
def firstNotInD (xs ys : List Nat) : Nat := (firstNotIn xs ys).getD 0

/-- `faces[i] = F` on a list of faces -/
def listSet (l : List (List Nat)) (i : Nat) (F : List Nat) : List (List Nat) := l.set i F

/-! ### round 6: `while True` loops, dicts with integer values, `list.sort(key=..)` -/

/-- `int -> int` dict whose values may be negative (`keys_cell`, `keys_face`): association list, later stores win -/
abbrev IMap := List (Nat × Int)
/-- `d[k] = v` -/
def iSet (d : IMap) (k : Nat) (v : Int) : IMap := d ++ [(k, v)]
/-- `k in d` -/
def iHas (d : IMap) (k : Nat) : Bool := (d.map (·.1)).contains k

/-- `while True: body` with `break`: `body` sets the flag read by `brk`; the loop runs on a fuel argument (the bridges show
that the flag is raised within the fuel) -/
def whileTrue {σ : Type} (brk : σ → Bool) (body : σ → σ) : Nat → σ → σ
  | 0, s => s
  | n + 1, s => let s' := body s; if brk s' then s' else whileTrue brk body n s'

/-- `d[k].sort(key = lambda x: keys.get(x, float("inf")))`: stable sort by key, elements without a key last
(`Conn.sortByKey` of the hand model is this very function; it is vocabulary here) -/
def dSortBy (d : Dict) (k : Nat) (keys : IMap) : Dict := d.modify k (fun l => Conn.sortByKey l keys)

/-! ### round 8: sets as values -/

/-- `set(a).intersection(b)`: the distinct elements of `a` that are in `b` -/
def setInter (a b : List Nat) : List Nat := a.eraseDups.filter (fun v => b.contains v)
/-- `set(a) == set(b)` -/
def setEq (a b : List Nat) : Bool := a.all (b.contains ·) && b.all (a.contains ·)

/-- `try: return obj.attr  except Exception: return None` where `obj` may be `None`: reading an attribute of `None` raises
`AttributeError`, which the handler turns into `None` -/
def tryAttr {β μ : Type} (obj : Option β) (attr : β → μ) : Option μ := obj.map attr

end Mouette.VolS
