import Mouette.Model.AttrSpec
/-
Extension of the attribute model (C05, round 2): reads whose result STAYS ALIVE and write-side aliasing.

* `hold i`            `h = a[i]`: the handle (object identity of the read result) is kept in a register;
* `updH h c x`        `held[h][c] = x`: in-place update of a value read EARLIER — possibly after later writes, growth,
                      `clear`, re-creation (stale handle) — or of a vector the caller wrote with `setShared`;
* `setFromRead i j`   `a[j] = a[i]`: the object obtained by reading `i` is offered to `j`;
* `setShared v keys`  `w = Vec(v); for key in keys: a[key] = w`: ONE caller object written under several keys; `w` stays
                      registered so that the caller can update it in place afterwards.
What the code does: `__setitem__` always builds a fresh `Vec(list(value))` (sparse) or copies into the row (dense), so
neither write shares storage; a dense read is a VIEW of the current matrix, which `_expand`/`clear` REPLACE
(`np.concatenate` / `np.full`), so a dense handle taken before growth or clear is dead afterwards, while a sparse handle
to a written entry stays live until that key is written again or the attribute is cleared.
The base operations and their semantics are those of Model/Attr.lean, unchanged (`Op2.base`).
`Held.orig` is ghost information (the entry the handle was read from; `none` = caller object or invalidated).
-/
namespace Mouette.Attr

structure Held where
  orig : Option Int
  hd : Option Handle       -- `none`: an immutable scalar was read (arity 1)
  deriving Repr

structure State2 where
  st : State
  held : List Held

def init2 (n0 : Nat) : State2 := { st := init n0, held := [] }

inductive Op2 where
  | base (op : Op)
  | hold (i : Int)
  | updH (h c : Nat) (x : Scalar)
  | setFromRead (i j : Int)
  | setShared (v : InVal) (keys : List Int)

/-- number of components of the object behind a handle -/
def handleLen (h : Heap) : Handle → Nat
  | .whole r => (cellVec h r).length
  | .row arr i => ((cellMat h arr).getD i []).length

/-- a value read from the attribute, offered back to `__setitem__` -/
def toInVal (k : Nat) (v : Val) : InVal :=
  if k > 1 then .vec v else match v with
    | [x] => .sc x
    | _ => .vec v

def Obs.isOk : Obs → Bool
  | .ok => true
  | _ => false

/-- operations after which no earlier read result can reach the attribute any more: a new attribute object, no
attribute, or (`clear`) a new dict / a new matrix -/
def Op.invalidates : Op → Bool
  | .create _ _ _ => true
  | .delete => true
  | .cclear => true
  | .clear => true
  | _ => false

def forget (l : List Held) : List Held := l.map (fun hl => { hl with orig := none })

/-- `for key in keys: a[key] = w`, stopping at the first exception -/
def writeAll (dense : Bool) : State → List Int → InVal → State × Obs
  | s, [], _ => (s, .ok)
  | s, key :: t, v =>
    match step dense s (.set key v) with
    | (s', .ok) => writeAll dense s' t v
    | (s', o) => (s', o)

def step2 (dense : Bool) (s : State2) : Op2 → State2 × Obs
  | .base op =>
    let (st', o) := step dense s.st op
    ({ st := st', held := if op.invalidates && o.isOk then forget s.held else s.held }, o)
  | .hold i =>
    match s.st.attr with
    | none => (s, .err .noAttr)
    | some a =>
      match get s.st a i with
      | .error e => (s, .err e)
      | .ok (st', hd, v) =>
        ({ st := st', held := s.held ++ [{ orig := some i, hd := if a.k > 1 then some hd else none }] }, .val v)
  | .updH h c x =>
    match s.held[h]? with
    | none => (s, .err .index)
    | some hl =>
      match hl.hd with
      | none => (s, .ok)
      | some hd =>
        if c < handleLen s.st.heap hd then ({ s with st := { s.st with heap := mutate s.st.heap hd c x } }, .ok)
        else (s, .err .index)
  | .setFromRead i j =>
    match s.st.attr with
    | none => (s, .err .noAttr)
    | some a =>
      match get s.st a i with
      | .error e => (s, .err e)
      | .ok (st', _, v) =>
        let (st'', o) := step dense st' (.set j (toInVal a.k v))
        ({ s with st := st'' }, o)
  | .setShared v keys =>
    match s.st.attr with
    | none => (s, .err .noAttr)
    | some _ =>
      match v with
      | .sc _ =>
        let (st', o) := writeAll dense s.st keys v
        ({ st := st', held := s.held ++ [{ orig := none, hd := none }] }, o)
      | .vec l =>
        -- the caller's vector object lives in its own cell
        let st0 : State := { s.st with heap := s.st.heap ++ [.vec l] }
        let (st', o) := writeAll dense st0 keys v
        ({ st := st', held := s.held ++ [{ orig := none, hd := some (.whole s.st.heap.length) }] }, o)

def run2 (dense : Bool) : State2 → List Op2 → List Obs
  | _, [] => []
  | s, op :: ops => (step2 dense s op).2 :: run2 dense (step2 dense s op).1 ops

def final2 (dense : Bool) : State2 → List Op2 → State2
  | s, [] => s
  | s, op :: ops => final2 dense (step2 dense s op).1 ops

end Mouette.Attr
