import Mouette.Model.PQueue
/-
Model of `mouette/processing/paths.py` (core Lean only).

* The three dicts `visited`, `path`/`parent`, `distance` (initialised over all vertex ids) are total maps
  `Nat → _` with point update `upd` (`d[k] = v`); `float("inf")` is `none` in `Option Rat`; `None` predecessor
  is `none`.
* The loop (paths.py:72-84 and its copy 178-190) is `step`: pop an item; if its vertex is visited skip it
  (lazy deletion); else mark it and relax *every* neighbour `nv` in adjacency order:
  `d = distance[v] + w; if distance[nv] > d: distance[nv] = d; path[nv] = v; if not visited[nv]: push(nv, distance[nv])`.
* `heapq` is abstracted to a parameter `pop : Pop` ("returns some pending item of minimum priority", contract
  `PopOK` in Lemmas/DijkstraLemmas); the executable instance is `PQ.pop` (first minimum).
* The `while` loop takes fuel `1 + Σ deg` (`fuel`); `run_terminates` (Props/C09) shows the queue is empty then.
* Back-tracking (`while v != start: … v = path[v]`) is `back` with fuel `n+1`; reading `path[None]` is the
  `KeyError` of the code (`Res.keyError`) — it happens exactly for targets not connected to `start`.
* `shortest_path_to_vertex_set`: virtual sink `TARGET` (python id −1, here the fresh id `n`) joined to every
  target with weight 0; the path is back-tracked from the sink and the sink itself is not part of it.
  The single-target shortcut calls the point-to-point query (after the repair: with the target itself).
-/
namespace Mouette.Dijkstra
open Mouette.PQ

/-- weighted adjacency: `adj u` = list of `(neighbour, weight)` in iteration order -/
abbrev Adj := Nat → List (Nat × Rat)

def upd {α : Type} (f : Nat → α) (i : Nat) (a : α) : Nat → α := fun j => if j = i then a else f j

structure State where
  visited : Nat → Bool
  pred    : Nat → Option Nat
  dist    : Nat → Option Rat
  queue   : Queue

def prioOf : Option Rat → Prio
  | none => .posInf
  | some d => .fin d

def init (start : Nat) : State :=
  { visited := fun _ => false, pred := fun _ => none,
    dist := upd (fun _ => none) start (some 0), queue := [(start, .fin 0)] }

/-- `a > b` on floats with `inf` = `none` -/
def gt : Option Rat → Option Rat → Bool
  | _, none => false
  | none, some _ => true
  | some a, some b => decide (b < a)

def addW : Option Rat → Rat → Option Rat
  | none, _ => none
  | some a, w => some (a + w)

/-- body of `for nv in neighbours(v)` -/
def relax (v : Nat) (s : State) (e : Nat × Rat) : State :=
  let d := addW (s.dist v) e.2
  let s1 : State := if gt (s.dist e.1) d then
      { s with dist := upd s.dist e.1 d, pred := upd s.pred e.1 (some v) } else s
  if s1.visited e.1 then s1 else { s1 with queue := push s1.queue e.1 (prioOf (s1.dist e.1)) }

abbrev Pop := Queue → Option ((Nat × Prio) × Queue)

/-- one iteration of `while not queue.empty()`; `none` when the queue is empty -/
def step (pop : Pop) (adj : Adj) (s : State) : Option State :=
  match pop s.queue with
  | none => none
  | some (e, q') =>
    if s.visited e.1 then some { s with queue := q' }
    else some ((adj e.1).foldl (relax e.1) { s with visited := upd s.visited e.1 true, queue := q' })

def iter (pop : Pop) (adj : Adj) : Nat → State → State
  | 0, s => s
  | f+1, s => match step pop adj s with
    | none => s
    | some s' => iter pop adj f s'

def degSum (adj : Adj) : Nat → Nat
  | 0 => 0
  | n+1 => degSum adj n + (adj n).length

def fuel (adj : Adj) (n : Nat) : Nat := 1 + degSum adj n

/-- the whole loop on a graph with vertex ids `< n` -/
def run (pop : Pop) (adj : Adj) (n start : Nat) : State := iter pop adj (fuel adj n) (init start)

inductive Res where
  | ok (p : List Nat)
  | keyError
  | outOfFuel
deriving Repr, DecidableEq

/-- `while v != start: l.append(v); v = path[v]` then append start and reverse; `acc` is the reversed tail. -/
def back (pred : Nat → Option Nat) (start : Nat) : Nat → Nat → List Nat → Res
  | 0, _, _ => .outOfFuel
  | f+1, v, acc =>
    if v = start then .ok (start :: acc) else
    match pred v with
    | none => .keyError
    | some p => back pred start f p (v :: acc)

def pathTo (s : State) (n start t : Nat) : Res := back s.pred start (n + 1) t []

/-- adjacency induced by an undirected weighted edge list (both directions, edge-list order) -/
def adjOf (edges : List (Nat × Nat × Rat)) : Adj := fun u =>
  edges.filterMap (fun e => if e.1 = u then some (e.2.1, e.2.2) else if e.2.1 = u then some (e.1, e.2.2) else none)

/-- weight of a vertex list along `adj` (first matching adjacency); `none` if some step is not an adjacency -/
def pathWeight (adj : Adj) : List Nat → Option Rat
  | [] => none
  | [_] => some 0
  | a :: b :: l =>
    match (adj a).find? (fun e => e.1 == b), pathWeight adj (b :: l) with
    | some e, some W => some (e.2 + W)
    | _, _ => none

/-- `shortest_path`: one run, then one back-tracking per target -/
def shortestPath (pop : Pop) (adj : Adj) (n start : Nat) (targets : List Nat) : State × List Res :=
  let s := run pop adj n start
  (s, targets.map (pathTo s n start))

/-- graph with the virtual sink `n` -/
def sinkAdj (adj : Adj) (n : Nat) (targets : List Nat) : Adj := fun u =>
  if u = n then targets.map (fun t => (t, 0))
  else adj u ++ (if targets.contains u then [(n, 0)] else [])

/-- `shortest_path_to_vertex_set` (general branch): returns `(index, path)`; the sink is dropped from the path -/
def toVertexSet (pop : Pop) (adj : Adj) (n start : Nat) (targets : List Nat) : State × Res :=
  let s := run pop (sinkAdj adj n targets) (n + 1) start
  match back s.pred start (n + 2) n [] with
  | .ok p => (s, .ok p.dropLast)
  | r => (s, r)

/-- `shortest_path_to_vertex_set` with the single-target shortcut (as repaired: the point-to-point query is
called with the target itself); returns the path and the index `start if not path else path[-1]`. -/
def vertexSet (pop : Pop) (adj : Adj) (n start : Nat) (targets : List Nat) : Res × Nat :=
  match targets with
  | [t] => (pathTo (run pop adj n start) n start t, t)
  | _ =>
    match (toVertexSet pop adj n start targets).2 with
    | .ok p => (.ok p, p.getLast?.getD start)
    | r => (r, start)

end Mouette.Dijkstra
