import Mouette.Model.IOGeogram
/-
C04 — hand-written normal forms of two more dispatch tables of the source; `Generated/C04Tables.lean` is
re-extracted from the source tree on every run and bridged to these by `decide` (Props/C04).
-/
namespace Mouette.IO.Tables
open Mouette.IO

/-- `Attribute.Type.from_string` (mesh_attributes.py): `(spelling, Type member)`; the spellings of one
`if txt in {…}` set are sorted, the sets are in source order -/
def geoTypeRows : List (String × String) :=
  [("\"complex\"", "Complex"), ("complex", "Complex"),
   ("\"double\"", "Float"), ("\"float\"", "Float"), ("double", "Float"), ("float", "Float"),
   ("\"index_t\"", "Int"), ("\"int\"", "Int"), ("\"signed_index_t\"", "Int"), ("index_t", "Int"), ("int", "Int"),
   ("\"bool\"", "Bool"), ("bool", "Bool"),
   ("str", "String"), ("string", "String")]

/-- `Attribute.Type.byte_size` -/
def geoByteSize : List (String × Nat) := [("Bool", 1), ("Int", 4), ("Float", 8)]

/-- `Attribute.Type.to_string`: lower-cased member name, except the listed ones -/
def geoToStringSpecial : List (String × String) := [("float", "double")]

/-- the `if toks[0] == '…'` dispatch of `parse_obj_data` (obj.py): `(line prefix, list the branch appends to)` -/
def objRows : List (String × String) :=
  [("v", "vertices"), ("vn", "normals"), ("vt", "uv_coords"), ("f", "faces"), ("l", "edges")]

def lookupStr {β : Type} (rows : List (String × β)) (k : String) : Option β :=
  match rows with
  | [] => none
  | (k', v) :: rest => if k = k' then some v else lookupStr rest k

/-- Python name of the `Attribute.Type` member behind a model type -/
def pyName : Geo.AType → String
  | .bool => "Bool" | .int => "Int" | .float => "Float"

def lowerName : Geo.AType → String
  | .bool => "bool" | .int => "int" | .float => "float"

/-- `to_string()` computed from the table -/
def toStringOf (special : List (String × String)) (t : Geo.AType) : String :=
  (lookupStr special (lowerName t)).getD (lowerName t)

/-! ### `mouette.mesh.save`: the `ignore_elements` guards and what they do to the caller's mesh -/

/-- how `save` gets rid of ignored elements: `replace` = the re-wrapped RawMeshData gets fresh empty containers
(repaired code); `clearShared` = `.clear()` on containers shared with the mesh (pinned tree) -/
inductive IgnoreMode where | replace | clearShared
deriving DecidableEq, Repr

/-- `(keyword, containers emptied)` rows of the `if "<kw>" in ignore_elements:` guards of `save` -/
def saveIgnoreRows : List (String × List String) :=
  [("edges", ["edges"]), ("faces", ["faces", "face_corners"]), ("cells", ["cells", "cell_corners", "cell_faces"])]

def flagOf (ig : Ignore) (kw : String) : Bool :=
  if kw = "edges" then ig.edges else if kw = "faces" then ig.faces else if kw = "cells" then ig.cells else false

def clearedBy (rows : List (String × List String)) (ig : Ignore) (container : String) : Bool :=
  rows.any (fun r => flagOf ig r.1 && r.2.contains container)

/-- `applyIgnore` computed from a guard table -/
def applyIgnoreWith {C : Type} (rows : List (String × List String)) (ig : Ignore) (m : Raw C) : Raw C :=
  { verts := m.verts,
    edges := if clearedBy rows ig "edges" then [] else m.edges,
    hard := if clearedBy rows ig "edges" then none else m.hard,
    faces := if clearedBy rows ig "faces" then [] else m.faces,
    cells := if clearedBy rows ig "cells" then [] else m.cells }

/-- one call of `save`: (content handed to the writer, the caller's mesh afterwards) -/
def saveMesh {C : Type} (mode : IgnoreMode) (ig : Ignore) (m : Raw C) : Raw C × Raw C :=
  (applyIgnore ig m, match mode with | .replace => m | .clearShared => applyIgnore ig m)

/-- a history of saves on ONE mesh object: the contents written, in order, and the mesh at the end -/
def saveHistory {C : Type} (mode : IgnoreMode) : List Ignore → Raw C → List (Raw C) × Raw C
  | [], m => ([], m)
  | ig :: rest, m =>
    let r := saveMesh mode ig m
    let h := saveHistory mode rest r.2
    (r.1 :: h.1, h.2)

end Mouette.IO.Tables
