import Mouette.Model.IOGeogram
/-
C04 — hand-written normal forms of two more dispatch tables of the source; `Generated/C04Tables.lean` is
re-extracted from the source tree on every run and bridged to these by `decide` (Props/C04).
-/
namespace Mouette.IO.Tables
open Mouette.IO

/-- `Attribute.Type.from_string` (mesh_attributes.py): `(spelling, Type member)`; the spellings of one
`if txt in {…}` set are sorted, the sets are in source order -/
def geoTypeRows : List (String × String) :=
  [("\"complex\"", "Complex"), ("complex", "Complex"),
   ("\"double\"", "Float"), ("\"float\"", "Float"), ("double", "Float"), ("float", "Float"),
   ("\"index_t\"", "Int"), ("\"int\"", "Int"), ("\"signed_index_t\"", "Int"), ("index_t", "Int"), ("int", "Int"),
   ("\"bool\"", "Bool"), ("bool", "Bool"),
   ("str", "String"), ("string", "String")]

/-- `Attribute.Type.byte_size` -/
def geoByteSize : List (String × Nat) := [("Bool", 1), ("Int", 4), ("Float", 8)]

/-- `Attribute.Type.to_string`: lower-cased member name, except the listed ones -/
def geoToStringSpecial : List (String × String) := [("float", "double")]

/-- the `if toks[0] == '…'` dispatch of `parse_obj_data` (obj.py): `(line prefix, list the branch appends to)` -/
def objRows : List (String × String) :=
  [("v", "vertices"), ("vn", "normals"), ("vt", "uv_coords"), ("f", "faces"), ("l", "edges")]

def lookupStr {β : Type} (rows : List (String × β)) (k : String) : Option β :=
  match rows with
  | [] => none
  | (k', v) :: rest => if k = k' then some v else lookupStr rest k

/-- Python name of the `Attribute.Type` member behind a model type -/
def pyName : Geo.AType → String
  | .bool => "Bool" | .int => "Int" | .float => "Float"

def lowerName : Geo.AType → String
  | .bool => "bool" | .int => "int" | .float => "float"

/-- `to_string()` computed from the table -/
def toStringOf (special : List (String × String)) (t : Geo.AType) : String :=
  (lookupStr special (lowerName t)).getD (lowerName t)

end Mouette.IO.Tables
