import Mouette.Model.SamplingSource
/-
C19 round 4 — the hand model of the five samplers as WHOLE functions (all `n` points, guards, option dispatch), written
with the per-coordinate / per-point functions of `Model/Sampling.lean` on which the round 1–3 theorems are stated.
`Props/C19Fn.lean` proves `Generated.C19Fn.sample_* = SamplingFn.sample*` (the generated side is re-extracted from the
working tree on every run), so every theorem about these models is a theorem about what the source says. Core Lean only.
-/
namespace Mouette.SamplingFn
open Mouette.Sampling Mouette.SamplingWrap Mouette.SamplingSrc

/-- `radius * (g/|g|) + center` for one point (coordinates zipped with the centre's) -/
def spherePt (nrm : Row → Rat) (c : Row) (r : Rat) (g : Row) : Row :=
  List.zipWith (fun gk ck => sphereCoord ck r gk (nrm g)) g c

def sampleSphere (nrm : Row → Rat) (g : Nat → Row) (c : Row) (r : Rat) (n : Nat) (pc : Bool) : Res (Out Unit) :=
  .ok (wrapPts pc ((List.range n).map (fun i => spherePt nrm c r (g i))))

/-- `(g/|g|) * (radius * cbrt(u)) + center` for one point -/
def ballPt (nrm : Row → Rat) (cbrt : Rat → Rat) (c : Row) (r : Rat) (g : Row) (u : Rat) : Row :=
  List.zipWith (fun gk ck => ballCoord ck r gk (nrm g) (cbrt u)) g c

def sampleBall (nrm : Row → Rat) (cbrt : Rat → Rat) (g : Nat → Row) (u : Nat → Rat) (c : Row) (r : Rat) (n : Nat) (pc : Bool) :
    Res (Out Unit) :=
  .ok (wrapPts pc ((List.range n).map (fun i => ballPt nrm cbrt c r (g i) (u i))))

/-- the points of `sample_AABB` before wrapping; `root n d` = `round(n^(1/d))` as computed by numpy -/
def boxPoints (root : Nat → Nat → Nat) (x : Nat → Nat → Rat) (lo hi : Row) (n : Nat) (grid : Bool) : List Pt :=
  if grid then aabbGrid lo hi (root n lo.length) else aabbUniform lo hi (randomArr x n lo.length)

/-- `sample_AABB`: argument check, empty-box guard, dimension guard, mode dispatch, wrapping -/
def sampleAABB (root : Nat → Nat → Nat) (x : Nat → Nat → Rat) (lo hi : Row) (n : Nat) (mode : String) (pc : Bool) :
    Res (Out Unit) :=
  if mode ≠ "uniform" ∧ mode ≠ "grid" then .raised "InvalidArgumentValueError"
  else if boxEmpty lo hi then .raised "Exception"
  else match wrapBox pc lo.length (boxPoints root x lo hi n (decide (mode = "grid"))) with
    | none => .raised "ValueError"
    | some o => .ok o

/-- the edges drawn for the `n` samples: `choice(NE, size=n, p=lengths/sum)` when `NE > 1`, else edge 0 every time -/
def drawnEdges (choice : Nat → Nat → List Rat → List Nat) (lens : List Rat) (NE n : Nat) : List Nat :=
  if 1 < NE then choice NE n (probs lens) else List.replicate n 0

/-- sample `i` of `sample_polyline` drawn on edge `e` -/
def polyPt (rnd : Nat → Rat) (V : Arr) (E : List (List Nat)) (e i : Nat) : Pt :=
  segPoint (rnd i) (corner V (E.getD e []) 0) (corner V (E.getD e []) 1)

def samplePolyline (choice : Nat → Nat → List Rat → List Nat) (rnd : Nat → Rat) (lens : List Rat) (V : Arr)
    (E : List (List Nat)) (n : Nat) (pc : Bool) : Res (Out Unit) :=
  .ok (wrapPts pc ((drawnEdges choice lens E.length n).zipIdx.map (fun ei => polyPt rnd V E ei.1 ei.2)))

/-- sample `i` of `sample_surface` drawn on face `f`; `sqrt` injected -/
def surfPt (sqrt : Rat → Rat) (rnd2 : Nat → Rat × Rat) (V : Arr) (F : List (List Nat)) (f i : Nat) : Pt :=
  triPoint (sqrt (rnd2 i).1) (rnd2 i).2 (corner V (F.getD f []) 0) (corner V (F.getD f []) 1) (corner V (F.getD f []) 2)

def sampleSurface {N : Type} (sqrt : Rat → Rat) (choice : Nat → Nat → List Rat → List Nat) (rnd2 : Nat → Rat × Rat)
    (areas : List Rat) (normals : List N) (dflt : N) (isTri : Bool) (V : Arr) (F : List (List Nat)) (n : Nat)
    (pc rn : Bool) : Res (Out N) :=
  if isTri then
    let fs := choice F.length n (probs areas)
    .ok (wrapSurface pc rn (fs.zipIdx.map (fun fi => surfPt sqrt rnd2 V F fi.1 fi.2)) (sampledNormals dflt normals fs))
  else .raised "AssertionError"

end Mouette.SamplingFn
