import Mouette.Model.Proto
import Mouette.Model.KDTree
import Mouette.Model.KDTreeFlat
/-
Protocol front-end for C11 (one request = one complete case).

  `kd <dim> <leafSize> <n> <n*dim coords> <npiv> (<path> <pivot>)* <nq> (<dim coords> <k> <r>)*`

  * `<path> <pivot>`: recorded pivot of the cell with heap-path id `path` (root 1, children 2p / 2p+1);
    a cell without a recorded pivot uses the exact median of its coordinates.
  * reply: `ok part=<0/1> box=<0/1> size=<0/1> | <k-NN squared distances, in answer order> ; <radius answer, sorted indices> | …`
    `part` = the concatenated leaves are a permutation of `0..n-1`; `box` = every index lies in the closed box of
    every cell above it; `size` = every leaf holds at most `leafSize` indices.
  * then ` || <shape> || flat=<0/1>`: `<shape>` is the FLAT node list of `buildBFSRoot` (the code's `tree.nodes`) in id order,
    `N <axis> <split> <left> <right>` / `L <sorted indices>` separated by `,` (informational: an equivalent split rule shows
    up here only); `flat` = the flat list reads back (`toTree`) as the recursive tree AND the stack-based `knnFlat` and the
    FIFO `radiusFlat` give the answers of the recursive traversals on every query of the request (an executable instance of
    the refinement theorems of `Props/C11F.lean`).
-/
namespace Mouette.DriveC11
open Mouette.Proto Mouette.KD Mouette.AABB

structure Query where
  q : List Rat
  k : Nat
  r : Rat

def query (dim : Nat) : P Query := do
  let q ← repeatP rat dim
  let k ← nat
  let r ← rat
  pure ⟨q, k, r⟩

def pivRec : P (Nat × Rat) := do let p ← nat; let v ← rat; pure (p, v)

def request : P String := do
  let dim ← nat
  let leaf ← nat
  let n ← nat
  let pts ← repeatP (repeatP rat dim) n
  let pivs ← listOf pivRec
  let qs ← listOf (query dim)
  let arr := pts.toArray
  let Pf : Nat → Pt := fun i => arr.getD i []
  let piv : Nat → List Rat → Rat := fun path cs =>
    match pivs.find? (fun pr => pr.1 == path) with
    | some pr => pr.2
    | none => median cs
  match buildRoot Pf n dim leaf piv (n + 1) with
  | none => pure "nofuel"
  | some t =>
    let idxSorted := t.indices.mergeSort (· ≤ ·)
    let part := idxSorted == List.range n
    let head := s!"ok part={fmtBool part} box={fmtBool (boxesOk Pf t)} size={fmtBool (decide (maxLeaf t ≤ leaf))}"
    let answers := qs.map (fun qu =>
      let nn := knn Pf t qu.q qu.k
      let rad := (radius Pf qu.q (qu.r * qu.r) t).mergeSort (· ≤ ·)
      s!"{fmtRats (nn.map (·.1))} ; {fmtNats rad}")
    let flat := buildBFSRoot Pf n dim leaf piv
    let shape := match flat with
      | none => "nofuel"
      | some out => ",".intercalate (out.map (fun nd => match nd with
          | .leaf _ _ _ idx _ => s!"L {fmtNats (idx.mergeSort (· ≤ ·))}"
          | .node _ ax _ sv l r _ => s!"N {ax} {fmtRat sv} {l} {r}"))
    let flatOk := match flat with
      | none => false
      | some out =>
        (toTree out (n + 1) 0 == some t) &&
        qs.all (fun qu =>
          (knnFlat Pf qu.q qu.k out (out.length + 1) == some (knn Pf t qu.q qu.k)) &&
          ((radiusFlat Pf qu.q (qu.r * qu.r) out (out.length + 1) [0] []).map (·.mergeSort (· ≤ ·))
            == some ((radius Pf qu.q (qu.r * qu.r) t).mergeSort (· ≤ ·))))
    pure (" | ".intercalate (head :: answers) ++ " || " ++ shape ++ " || flat=" ++ fmtBool flatOk)

def handle (ts : List String) : Option String :=
  match ts with
  | "kd" :: r => runP request r
  | _ => none

end Mouette.DriveC11
