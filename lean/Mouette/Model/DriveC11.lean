import Mouette.Model.Proto
import Mouette.Model.KDTree
/-
Protocol front-end for C11 (one request = one complete case).

  `kd <dim> <leafSize> <n> <n*dim coords> <npiv> (<path> <pivot>)* <nq> (<dim coords> <k> <r>)*`

  * `<path> <pivot>`: recorded pivot of the cell with heap-path id `path` (root 1, children 2p / 2p+1);
    a cell without a recorded pivot uses the exact median of its coordinates.
  * reply: `ok part=<0/1> box=<0/1> size=<0/1> | <k-NN squared distances, in answer order> ; <radius answer, sorted indices> | …`
    `part` = the concatenated leaves are a permutation of `0..n-1`; `box` = every index lies in the closed box of
    every cell above it; `size` = every leaf holds at most `leafSize` indices.  The shape of the tree is NOT part of the reply.
-/
namespace Mouette.DriveC11
open Mouette.Proto Mouette.KD Mouette.AABB

structure Query where
  q : List Rat
  k : Nat
  r : Rat

def query (dim : Nat) : P Query := do
  let q ← repeatP rat dim
  let k ← nat
  let r ← rat
  pure ⟨q, k, r⟩

def pivRec : P (Nat × Rat) := do let p ← nat; let v ← rat; pure (p, v)

def request : P String := do
  let dim ← nat
  let leaf ← nat
  let n ← nat
  let pts ← repeatP (repeatP rat dim) n
  let pivs ← listOf pivRec
  let qs ← listOf (query dim)
  let arr := pts.toArray
  let Pf : Nat → Pt := fun i => arr.getD i []
  let piv : Nat → List Rat → Rat := fun path cs =>
    match pivs.find? (fun pr => pr.1 == path) with
    | some pr => pr.2
    | none => median cs
  match buildRoot Pf n dim leaf piv (n + 1) with
  | none => pure "nofuel"
  | some t =>
    let idxSorted := t.indices.mergeSort (· ≤ ·)
    let part := idxSorted == List.range n
    let head := s!"ok part={fmtBool part} box={fmtBool (boxesOk Pf t)} size={fmtBool (decide (maxLeaf t ≤ leaf))}"
    let answers := qs.map (fun qu =>
      let nn := knn Pf t qu.q qu.k
      let rad := (radius Pf qu.q (qu.r * qu.r) t).mergeSort (· ≤ ·)
      s!"{fmtRats (nn.map (·.1))} ; {fmtNats rad}")
    pure (" | ".intercalate (head :: answers))

def handle (ts : List String) : Option String :=
  match ts with
  | "kd" :: r => runP request r
  | _ => none

end Mouette.DriveC11
