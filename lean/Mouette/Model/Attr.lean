/-
Model of mouette/mesh/mesh_attributes.py (`Attribute` = sparse storage, `ArrayAttribute` = dense storage) and of the
growth operations of mouette/mesh/data_container.py, over an explicit heap (core Lean only).

* heap cells are either one vector object (`Vec`, what the sparse dict stores per key) or one matrix object (the
  `(n,k)` numpy array of the dense storage, whose rows are handed out as *views*);
* a read returns a `Handle` (the object identity of what `a[i]` evaluates to) together with its current content;
  `mutate` is the in-place item assignment `v[c] = x` on such a handle;
* the sparse dict is an insertion-ordered association list with replace-in-place `dinsert`;
* values are stored after widening to the attribute's type (`True == 1 == 1.0` in Python; the dense storage and
  `as_array` perform this widening, the sparse dict keeps the narrower object — not distinguished here).
The model follows the code as repaired by the `fix:` commits of C05 (bounds guard `>=`, fresh copy of the vector
default, broadcast scalar custom default, growth by the number of appended elements, all components type-checked).
-/
namespace Mouette.Attr

inductive Ty where
  | bool | int | float | complex | str
  deriving DecidableEq, Repr, Inhabited

inductive Scalar where
  | b (v : Bool) | i (v : Int) | f (v : Rat) | c (re im : Rat) | s (v : String)
  deriving DecidableEq, Repr, Inhabited

def Scalar.ty : Scalar → Ty
  | .b _ => .bool | .i _ => .int | .f _ => .float | .c _ _ => .complex | .s _ => .str

/-- `_can_be_casted` in normal form (the translated table is `Generated.C05.canCast`) -/
def canCast : Ty → Ty → Bool
  | .bool, .bool | .int, .int | .float, .float | .complex, .complex | .str, .str => true
  | .bool, .int | .bool, .float | .int, .float => true
  | _, _ => false

/-- value after widening to the attribute's type -/
def castTo : Ty → Scalar → Scalar
  | .int, .b v => .i (if v then 1 else 0)
  | .float, .b v => .f (if v then 1 else 0)
  | .float, .i v => .f (v : Rat)
  | _, x => x

/-- `Type.default_value(1)` -/
def Ty.zero : Ty → Scalar
  | .bool => .b false | .int => .i 0 | .float => .f 0 | .complex => .c 0 0 | .str => .s ""

abbrev Val := List Scalar

/-- what the caller offers to `a[i] = …`: a bare scalar or a list -/
inductive InVal where
  | sc (x : Scalar) | vec (l : List Scalar)

inductive Err where
  | oob        -- Attribute.OutOfBoundsError
  | index      -- IndexError
  | type       -- TypeNotMatchingError
  | size       -- InvalidSizeError
  | value      -- ValueError (`Type(list)`)
  | typeError  -- TypeError (`list(scalar)`)
  | dfltType   -- DefaultValueTypeDoesNotMatchError
  | noAttr     -- Exception("Attribute does not exist")
  deriving DecidableEq, Repr

/-- the value check shared (textually) by `Attribute.__setitem__` and `ArrayAttribute.__setitem__` -/
def checkVal (ty : Ty) (k : Nat) : InVal → Except Err Val
  | .sc x =>
    if k > 1 then .error .typeError
    else if canCast x.ty ty then .ok [castTo ty x] else .error .type
  | .vec l =>
    if k > 1 then
      if l.length ≠ k then .error .size
      else if l.all (fun x => canCast x.ty ty) then .ok (l.map (castTo ty)) else .error .type
    else .error .value

inductive Cell where
  | vec (v : Val)
  | mat (rows : List Val)
  deriving Inhabited

abbrev Heap := List Cell

def cellVec (h : Heap) (r : Nat) : Val := match h[r]? with | some (.vec v) => v | _ => []
def cellMat (h : Heap) (r : Nat) : List Val := match h[r]? with | some (.mat m) => m | _ => []

inductive Store where
  | sparse (data : List (Int × Nat))   -- dict: key ↦ reference of the stored vector object
  | dense (n : Nat) (arr : Nat)        -- n_elem, reference of the `_data` array
  deriving Inhabited

structure Attr where
  ty : Ty
  k : Nat
  dflt : Scalar
  store : Store
  deriving Inhabited

def Attr.dfltRow (a : Attr) : Val := List.replicate a.k a.dflt

structure State where
  heap : Heap
  size : Nat
  attr : Option Attr
  deriving Inhabited

def init (n0 : Nat) : State := { heap := [], size := n0, attr := none }

/-- `d[key] = r` keeping the insertion order of Python dicts -/
def dinsert : List (Int × Nat) → Int → Nat → List (Int × Nat)
  | [], key, r => [(key, r)]
  | (k', r') :: t, key, r => if k' = key then (key, r) :: t else (k', r') :: dinsert t key r

/-- `ArrayAttribute._check_out_of_bounds` in normal form (translated guard: `Generated.C05.oobGuard`) -/
def oobGuard (key : Int) (n : Nat) : Bool := decide (key < 0) || decide ((n : Int) ≤ key)

inductive Handle where
  | whole (r : Nat)            -- a vector object
  | row (arr : Nat) (i : Nat)  -- a row view into a matrix object
  deriving DecidableEq, Repr

/-- `a[key]`: new state (a fresh copy of the default may be allocated), identity and content of the result -/
def get (s : State) (a : Attr) (key : Int) : Except Err (State × Handle × Val) :=
  match a.store with
  | .sparse data =>
    match data.lookup key with
    | some r => .ok (s, .whole r, cellVec s.heap r)
    | none => .ok ({ s with heap := s.heap ++ [.vec a.dfltRow] }, .whole s.heap.length, a.dfltRow)
  | .dense n arr =>
    if oobGuard key n then .error .oob
    else .ok (s, .row arr key.toNat, (cellMat s.heap arr).getD key.toNat [])

/-- pure read used by specifications: what `a[key]` answers -/
def read (s : State) (a : Attr) (key : Int) : Except Err Val :=
  match get s a key with
  | .ok (_, _, v) => .ok v
  | .error e => .error e

/-- in-place `v[c] = x` on a handle -/
def mutate (h : Heap) (hd : Handle) (c : Nat) (x : Scalar) : Heap :=
  match hd with
  | .whole r => match h[r]? with
    | some (.vec v) => h.set r (.vec (v.set c x))
    | _ => h
  | .row arr i => match h[arr]? with
    | some (.mat m) => h.set arr (.mat (m.set i ((m.getD i []).set c x)))
    | _ => h

/-- `a[key] = v` (value already checked) -/
def put (s : State) (a : Attr) (key : Int) (v : Val) : Except Err (State × Attr) :=
  match a.store with
  | .sparse data =>
    .ok ({ s with heap := s.heap ++ [.vec v] }, { a with store := .sparse (dinsert data key s.heap.length) })
  | .dense n arr =>
    if oobGuard key n then .error .oob
    else .ok ({ s with heap := s.heap.set arr (.mat ((cellMat s.heap arr).set key.toNat v)) }, a)

/-- `attr._expand(m)` -/
def expandAttr (h : Heap) (a : Attr) (m : Nat) : Heap × Attr :=
  match a.store with
  | .sparse _ => (h, a)
  | .dense n arr =>
    (h ++ [.mat (cellMat h arr ++ List.replicate m a.dfltRow)], { a with store := .dense (n + m) h.length })

/-- container growth by `m` elements: `append` (m = 1), `+= list`, `+= container` -/
def grow (s : State) (m : Nat) : State :=
  match s.attr with
  | none => { s with size := s.size + m }
  | some a =>
    let (h, a') := expandAttr s.heap a m
    { heap := h, size := s.size + m, attr := some a' }

/-- `attr.clear()` -/
def clearAttr (h : Heap) (a : Attr) : Heap × Attr :=
  match a.store with
  | .sparse _ => (h, { a with store := .sparse [] })
  | .dense n _ => (h ++ [.mat (List.replicate n a.dfltRow)], { a with store := .dense n h.length })

def setRow (out : List Val) (i : Nat) (v : Val) : List Val := out.set i v

/-- sparse `as_array(size)`: `np.full` then `out[i,:] = x` in dict order (negative keys wrap, as numpy does) -/
def sparseArray (h : Heap) (size : Nat) (dfltRow : Val) : List (Int × Nat) → List Val → Except Err (List Val)
  | [], out => .ok out
  | (key, r) :: t, out =>
    let idx : Int := if key < 0 then key + size else key
    if idx < 0 || (size : Int) ≤ idx then .error .index
    else sparseArray h size dfltRow t (out.set idx.toNat (cellVec h r))

def asArray (s : State) (a : Attr) : Except Err (List Val) :=
  match a.store with
  | .sparse data => sparseArray s.heap s.size a.dfltRow data (List.replicate s.size a.dfltRow)
  | .dense _ arr => .ok (cellMat s.heap arr)

def attrLen (a : Attr) : Nat :=
  match a.store with
  | .sparse data => data.length
  | .dense n _ => n

inductive Op where
  | create (ty : Ty) (k : Nat) (dflt : Option Scalar)
  | delete
  | cclear
  | set (i : Int) (v : InVal)
  | get (i : Int)
  | upd (i : Int) (c : Nat) (x : Scalar)
  | append
  | extendList (n : Nat)
  | extendCont (m : Nat)
  | extendSelf
  | clear
  | asArray

inductive Obs where
  | ok
  | val (v : Val)
  | arr (rows : List Val)
  | err (e : Err)

def mkAttr (dense : Bool) (s : State) (ty : Ty) (k : Nat) (d : Scalar) : State :=
  if dense then
    { s with heap := s.heap ++ [.mat (List.replicate s.size (List.replicate k d))],
             attr := some { ty := ty, k := k, dflt := d, store := .dense s.size s.heap.length } }
  else
    { s with attr := some { ty := ty, k := k, dflt := d, store := .sparse [] } }

/-- `_check_out_of_bounds(key)` is the first statement of the dense accessors only -/
def boundsFail (a : Attr) (i : Int) : Bool :=
  match a.store with
  | .dense n _ => oobGuard i n
  | .sparse _ => false

/-- one operation of the script on the storage mode `dense` -/
def step (dense : Bool) (s : State) : Op → State × Obs
  | .create ty k d =>
    match d with
    | some x => if x.ty = ty then (mkAttr dense s ty k x, .ok) else (s, .err .dfltType)
    | none => (mkAttr dense s ty k ty.zero, .ok)
  | .delete => ({ s with attr := none }, .ok)
  | .cclear => ({ s with size := 0, attr := none }, .ok)
  | .append => (grow s 1, .ok)
  | .extendList n => (grow s n, .ok)
  | .extendCont m => (grow s m, .ok)
  | .extendSelf => (grow s s.size, .ok)
  | .set i v =>
    match s.attr with
    | none => (s, .err .noAttr)
    | some a =>
      -- dense: the bounds guard comes first, then the value check
      match boundsFail a i with
      | true => (s, .err .oob)
      | false =>
        match checkVal a.ty a.k v with
        | .error e => (s, .err e)
        | .ok val =>
          match put s a i val with
          | .ok (s', a') => ({ s' with attr := some a' }, .ok)
          | .error e => (s, .err e)
  | .get i =>
    match s.attr with
    | none => (s, .err .noAttr)
    | some a =>
      match get s a i with
      | .ok (s', _, v) => (s', .val v)
      | .error e => (s, .err e)
  | .upd i c x =>
    match s.attr with
    | none => (s, .err .noAttr)
    | some a =>
      match get s a i with
      | .error e => (s, .err e)
      | .ok (s', hd, _) =>
        if a.k > 1 then
          if c < a.k then ({ s' with heap := mutate s'.heap hd c x }, .ok) else (s', .err .index)
        else (s', .ok)       -- scalar entries are immutable Python objects: `v += x` only rebinds the local name
  | .clear =>
    match s.attr with
    | none => (s, .err .noAttr)
    | some a => let (h, a') := clearAttr s.heap a; ({ s with heap := h, attr := some a' }, .ok)
  | .asArray =>
    match s.attr with
    | none => (s, .err .noAttr)
    | some a =>
      match asArray s a with
      | .ok rows => (s, .arr rows)
      | .error e => (s, .err e)

/-- run a script, collecting per-operation observations together with the state reached -/
def run (dense : Bool) : State → List Op → List (Obs × State)
  | _, [] => []
  | s, op :: ops => let (s', o) := step dense s op; (o, s') :: run dense s' ops

def runObs (dense : Bool) (s : State) (ops : List Op) : List Obs := (run dense s ops).map (·.1)

def final (dense : Bool) : State → List Op → State
  | s, [] => s
  | s, op :: ops => final dense (step dense s op).1 ops

end Mouette.Attr
