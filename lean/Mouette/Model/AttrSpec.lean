import Mouette.Model.Attr
/-
The abstract specification of C05: an attribute is a TOTAL MAP index ↦ value with a default, reads have copy
semantics, the container is just a size. One specification serves both storage modes.

The only liberty: after an in-place update of a value obtained by reading entry `i` (`mut i c x`) the statement
constrains every OTHER entry ("never changes what any other entry reads"), not entry `i` itself — the specification
forgets entry `i` (`none` = unconstrained) until it is written again or the attribute is cleared.
-/
namespace Mouette.Attr

structure TAttr where
  ty : Ty
  k : Nat
  dflt : Scalar
  f : Int → Option Val

def TAttr.dfltRow (a : TAttr) : Val := List.replicate a.k a.dflt

structure Spec where
  size : Nat
  attr : Option TAttr

def specInit (n0 : Nat) : Spec := { size := n0, attr := none }

def inRange (i : Int) (n : Nat) : Bool := decide (0 ≤ i) && decide (i < (n : Int))

/-- specification-level observations: `none` entries are unconstrained -/
inductive SObs where
  | ok
  | val (v : Option Val)
  | arr (n : Nat) (g : Nat → Option Val)
  | err (e : Err)

def specMk (t : Spec) (ty : Ty) (k : Nat) (d : Scalar) : Spec :=
  { t with attr := some { ty := ty, k := k, dflt := d, f := fun _ => some (List.replicate k d) } }

def specStep (t : Spec) : Op → Spec × SObs
  | .create ty k d =>
    match d with
    | some x => if x.ty = ty then (specMk t ty k x, .ok) else (t, .err .dfltType)
    | none => (specMk t ty k ty.zero, .ok)
  | .delete => ({ t with attr := none }, .ok)
  | .cclear => ({ size := 0, attr := none }, .ok)
  | .append => ({ t with size := t.size + 1 }, .ok)
  | .extendList n => ({ t with size := t.size + n }, .ok)
  | .extendCont m => ({ t with size := t.size + m }, .ok)
  | .extendSelf => ({ t with size := t.size + t.size }, .ok)
  | .set i v =>
    match t.attr with
    | none => (t, .err .noAttr)
    | some a =>
      if inRange i t.size then
        match checkVal a.ty a.k v with
        | .error e => (t, .err e)
        | .ok val => ({ t with attr := some { a with f := fun j => if j = i then some val else a.f j } }, .ok)
      else (t, .err .oob)
  | .get i =>
    match t.attr with
    | none => (t, .err .noAttr)
    | some a => if inRange i t.size then (t, .val (a.f i)) else (t, .err .oob)
  | .upd i c _ =>
    match t.attr with
    | none => (t, .err .noAttr)
    | some a =>
      if inRange i t.size then
        if a.k > 1 then
          if c < a.k then ({ t with attr := some { a with f := fun j => if j = i then none else a.f j } }, .ok)
          else (t, .err .index)
        else (t, .ok)
      else (t, .err .oob)
  | .clear =>
    match t.attr with
    | none => (t, .err .noAttr)
    | some a => ({ t with attr := some { a with f := fun _ => some a.dfltRow } }, .ok)
  | .asArray =>
    match t.attr with
    | none => (t, .err .noAttr)
    | some a => (t, .arr t.size (fun i => a.f (i : Int)))

def specRun : Spec → List Op → List SObs
  | _, [] => []
  | t, op :: ops => let (t', o) := specStep t op; o :: specRun t' ops

/-- an implementation observation is allowed by a specification observation -/
def Matches : SObs → Obs → Prop
  | .ok, .ok => True
  | .err e, .err e' => e = e'
  | .val o, .val v => ∀ w, o = some w → v = w
  | .arr n g, .arr rows => rows.length = n ∧ ∀ i, i < n → ∀ w, g i = some w → rows.getD i [] = w
  | _, _ => False

/-- pointwise relation between two lists (core Lean has no `List.Forall₂`) -/
inductive Forall2 {α β : Type} (r : α → β → Prop) : List α → List β → Prop
  | nil : Forall2 r [] []
  | cons {a b l1 l2} : r a b → Forall2 r l1 l2 → Forall2 r (a :: l1) (b :: l2)

/-- size of the container after an operation (independent of the attribute) -/
def sizeAfter (n : Nat) : Op → Nat
  | .cclear => 0
  | .append => n + 1
  | .extendList m => n + m
  | .extendCont m => n + m
  | .extendSelf => n + n
  | _ => n

def opInRange (n : Nat) : Op → Bool
  | .set i _ => inRange i n
  | .get i => inRange i n
  | .upd i _ _ => inRange i n
  | _ => true

/-- every indexed operation of the script addresses an element of the container (as it is at that moment) -/
def wellIndexed : Nat → List Op → Bool
  | _, [] => true
  | n, op :: ops => opInRange n op && wellIndexed (sizeAfter n op) ops

def Op.isMut : Op → Bool
  | .upd _ _ _ => true
  | _ => false

def mutFree (ops : List Op) : Bool := ops.all (fun o => !o.isMut)

end Mouette.Attr
