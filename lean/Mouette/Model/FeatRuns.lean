import Mouette.Model.Features
/-
C15, histories: `FeatureEdgeDetector.run` on a mesh / with a detector object that were used before.
What persists between runs is modelled as state:
  * on the mesh: the keys of the edge attribute `feature` (`none` = the attribute does not exist yet), and the face
    attribute `normals` (written by the caller, or by `run` itself if it computes its normals persistently);
  * on the detector object: `feature_edges`, `feature_vertices` (sets), `feature_degrees` (attribute),
    the keys of `local_feat_edges` (dict).
`run` starts with `self.clear()` and with the has_attribute / get_attribute + `.clear()` / create_attribute
branch; whether these two resets are present is a parameter (`RunFlags`), translated from the source into
`Generated/C15Run.lean`.  Core Lean only.
-/
namespace Mouette.Features

structure RunFlags where
  selfClear : Bool     -- `run` starts with `self.clear()` (and `clear` re-creates the four containers)
  edgeClear : Bool     -- an existing `mesh.edges` attribute "feature" is `.clear()`ed before the passes
  normalsPersistent : Bool  -- the normals `run` computes itself are STORED on the mesh as face attribute "normals"
                            -- (`face_normals(mesh, persistent=True)`), where the next run finds them
deriving Repr, Inhabited, DecidableEq

/-- the detector object's containers -/
structure DetState where
  fe : List Nat
  fv : List Nat
  deg : List (Nat × Nat)
  locKeys : List Nat
deriving Repr, Inhabited

def DetState.fresh : DetState := { fe := [], fv := [], deg := [], locKeys := [] }

structure RunState where
  featE : Option (List Nat)    -- keys of `mesh.edges.feature`
  normals : Option (List (Rat × Rat))   -- face attribute "normals" on the mesh, seen through the per-edge `(d,q)` it yields
  det : DetState
deriving Repr, Inhabited

def RunState.fresh : RunState := { featE := none, normals := none, det := DetState.fresh }

/-- `es` carries, per edge, the `(d,q)` of the normals the caller provides for this run: those of the CURRENT
geometry (`inj = false`), or those of a "normals" attribute the caller has just written on the mesh (`inj = true`) -/
structure RunInput where
  onlyBorder : Bool
  inj : Bool
  es : List EdgeInfo
deriving Repr, Inhabited

def dqOf (es : List EdgeInfo) : List (Rat × Rat) := es.map fun e => (e.d, e.q)
def withDQ (es : List EdgeInfo) (dq : List (Rat × Rat)) : List EdgeInfo :=
  List.zipWith (fun e x => { e with d := x.1, q := x.2 }) es dq

/-- `has_attribute` ? `get_attribute` (+ `.clear()`) : `create_attribute` -/
def openAttr (clears : Bool) : Option (List Nat) → List Nat
  | none => []
  | some old => if clears then [] else old

/-- the three passes starting from the attribute as opened -/
def flaggedFrom (th : Thresholds) (ob : Bool) (es : List EdgeInfo) (init : List Nat) : List Nat :=
  borderPass es (sharpPass th ob es (hardPass th ob es init))

def addAll (s : List Nat) (xs : List Nat) : List Nat := xs.foldl (fun acc x => if acc.contains x then acc else acc ++ [x]) s

/-- one `run(mesh)`; `nv` vertices -/
def runOn (fl : RunFlags) (th : Thresholds) (nv : Nat) (st : RunState) (inp0 : RunInput) : RunState :=
  -- `if mesh.faces.has_attribute("normals"): use it  else: face_normals(mesh, persistent=…)`
  let attr : Option (List (Rat × Rat)) := if inp0.inj then some (dqOf inp0.es) else st.normals
  let inp : RunInput := match attr with
    | some dq => { inp0 with es := withDQ inp0.es dq }
    | none => inp0
  let normals' : Option (List (Rat × Rat)) := match attr with
    | some a => some a
    | none => if fl.normalsPersistent then some (dqOf inp0.es) else none
  let det0 := if fl.selfClear then DetState.fresh else st.det
  let flags := flaggedFrom th inp.onlyBorder inp.es (openAttr fl.edgeClear st.featE)
  -- "Build set containers": `for e in feature: feature_edges.add(e); feature_vertices.add(A); .add(B)`
  let feNew := (List.range inp.es.length).filter fun e => flags.contains e
  let fe := addAll det0.fe feNew
  let fv := addAll det0.fv (featureVertices nv inp.es feNew)
  -- `for v in feature_vertices: local_feat_edges[v] = [...]`, `for e in feature_edges: degrees[A] += 1 …`
  let locKeys := addAll det0.locKeys fv
  let deg := fe.foldl (degStep inp.es) det0.deg
  { featE := some flags, normals := normals', det := { fe := fe, fv := fv, deg := deg, locKeys := locKeys } }

/-- a history of runs on the same mesh; `sameDet = false` = that run used another detector object, which
leaves the final detector's containers alone (but not the mesh attribute) -/
def runHistory (fl : RunFlags) (th : Thresholds) (nv : Nat) : RunState → List (Bool × RunInput) → RunState
  | st, [] => st
  | st, (sameDet, inp) :: rest =>
    let st' := runOn fl th nv (if sameDet then st else { st with det := DetState.fresh }) inp
    runHistory fl th nv (if sameDet then st' else { st' with det := st.det }) rest

end Mouette.Features
