import Mouette.Model.AttrSpec
/-
Several attributes on ONE container (C05 round 3).

Each attribute object of the library owns its storage (its own dict / its own matrix; defaults are built per attribute),
so attribute `a` is modelled by its own single-attribute `State` (Model/Attr.lean, unchanged), all of them living on the
same container: an attribute operation `on a op` steps component `a` only, a container operation (`append`, `+=`,
container `clear`) steps EVERY component. Attribute `a` is stored sparse when `a` is even, dense when `a` is odd (so that
both storages coexist on one container). That the components really do not interfere in the code is what the
correspondence checks on every run (every attribute is observed after every operation).
-/
namespace Mouette.Attr

def modeOf (a : Nat) : Bool := a % 2 == 1

def Op.isCont : Op → Bool
  | .append => true
  | .extendList _ => true
  | .extendCont _ => true
  | .extendSelf => true
  | .cclear => true
  | _ => false

inductive OpM where
  | on (a : Nat) (op : Op)
  | cont (op : Op)

structure StateM where
  sts : List State

def initM (n0 K : Nat) : StateM := { sts := List.replicate K (init n0) }

def stepAll : Nat → List State → Op → List State
  | _, [], _ => []
  | a, st :: rest, op => (step (modeOf a) st op).1 :: stepAll (a + 1) rest op

def stepM (s : StateM) : OpM → StateM × Obs
  | .on a op =>
    match s.sts[a]? with
    | none => (s, .err .noAttr)
    | some st => let (st', o) := step (modeOf a) st op; ({ sts := s.sts.set a st' }, o)
  | .cont op => ({ sts := stepAll 0 s.sts op }, .ok)

def runM : StateM → List OpM → List Obs
  | _, [] => []
  | s, op :: ops => (stepM s op).2 :: runM (stepM s op).1 ops

def finalM : StateM → List OpM → StateM
  | s, [] => s
  | s, op :: ops => finalM (stepM s op).1 ops

/-- the script as attribute `a` sees it: its own operations and every container operation -/
def proj (a : Nat) : List OpM → List Op
  | [] => []
  | .on b op :: rest => if b = a then op :: proj a rest else proj a rest
  | .cont op :: rest => op :: proj a rest

/-- the observations of the operations attribute `a` sees -/
def projObs (a : Nat) : List OpM → List Obs → List Obs
  | .on b _ :: rest, o :: os => if b = a then o :: projObs a rest os else projObs a rest os
  | .cont _ :: rest, o :: os => o :: projObs a rest os
  | _, _ => []

/-- well-formed scripts: `on` carries attribute operations, `cont` container operations -/
def wfM : List OpM → Bool
  | [] => true
  | .on _ op :: rest => !op.isCont && wfM rest
  | .cont op :: rest => op.isCont && wfM rest

end Mouette.Attr
