import Mouette.Model.UnionFind
/-!
`union` with the SIZE COMPARISON AS A PARAMETER (core Lean only).

`unionfind.py` links the root of the smaller tree under the root of the larger one: `if self._siz[xroot] < self._siz[yroot]`.
Whether that test is spelt `<` or `<=` only decides which root survives when the two sizes are EQUAL; both are correct
weighted unions. `unionC c` is `UF.union` with the test `c (size of x's root) (size of y's root)`; `true` hangs x's root under
y's root. The comparison actually written in the source is re-extracted on every run (`Generated.C20.sizCmp`) and the
history theorems of `Props/C20Source.lean` are proved for `runC c` with an ARBITRARY `c` (partition, counters, sizes) or for
any `c` that is a size order (`SizeOrder c`: heights, `Props/C20Height.lean`).
-/
namespace Mouette.UF

def unionC (c : Nat → Nat → Bool) (s : State) (x y : Nat) : State :=
  let s := add s x
  let s := add s y
  match find s x with
  | none => s
  | some (s1, xr) =>
    match find s1 y with
    | none => s1
    | some (s2, yr) =>
      if xr = yr then s2
      else if c (s2.siz.getD xr 0) (s2.siz.getD yr 0) = true then
        { s2 with par := s2.par.set xr yr,
                  siz := s2.siz.set yr (s2.siz.getD yr 0 + s2.siz.getD xr 0),
                  nComps := s2.nComps - 1 }
      else
        { s2 with par := s2.par.set yr xr,
                  siz := s2.siz.set xr (s2.siz.getD xr 0 + s2.siz.getD yr 0),
                  nComps := s2.nComps - 1 }

/-- state transition of one operation, `union` with the comparison `c` -/
def stepC (c : Nat → Nat → Bool) (s : State) : Op → State
  | .add x => add s x
  | .union x y => unionC c s x y
  | .find x => match find s x with | some (s', _) => s' | none => s
  | .connected x y => match connected s x y with | some (s', _) => s' | none => s
  | .component x => match component s x with | some (s', _) => s' | none => s

def runC (c : Nat → Nat → Bool) (ops : List Op) : State := ops.foldl (stepC c) init

/-- the comparison the source uses today … -/
def ltCmp (a b : Nat) : Bool := decide (a < b)
/-- … and the other spelling of union by size -/
def leCmp (a b : Nat) : Bool := decide (a ≤ b)

/-- `c` orders by size: it answers `true` only when the first tree is not larger, `false` only when it is not smaller
(so the smaller tree always goes under the larger one; on equal sizes either answer is allowed) -/
def SizeOrder (c : Nat → Nat → Bool) : Prop :=
  (∀ a b, c a b = true → a ≤ b) ∧ (∀ a b, c a b = false → b ≤ a)

end Mouette.UF
