/-
The float operations the angle utilities and the rotations of mouette call, as ONE structure (core Lean only).
Every definition extracted from `mouette/utils/maths.py` (`Generated/C12Maths.lean`) and `mouette/geometry/rotations.py`
(`Generated/C12Rot.lean`) takes a `FloatOps α`; nothing is assumed about its fields in the definitions.  What the angle / rotation
theorems ASSUME about floats is the single predicate `FloatOps.Exact` (over ℝ, `Lemmas/FloatOpsR.lean`) resp. `FloatOps.TrigLaws`
(any commutative ring: unit circle + addition formulas), and each theorem takes it as a hypothesis.
-/
namespace Mouette

structure FloatOps (α : Type) where
  /-- `math.pi` -/
  pi : α
  /-- the float operator `%` -/
  fmod : α → α → α
  /-- `math.cos` / `math.sin` -/
  cos : α → α
  sin : α → α

end Mouette
