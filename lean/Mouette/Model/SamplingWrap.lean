import Mouette.Model.Sampling
/-
C19 — the output-wrapping options of the samplers (`return_point_cloud`, `return_normals`) and the list-level
model of `sample_polyline` / `sample_surface` (all `n` samples at once), core Lean only.
Added in round 2; `Model/Sampling.lean` (per-sample functions, used by the driver) is unchanged.
-/
namespace Mouette.SamplingWrap
open Mouette.Sampling

/-- what a sampler hands back -/
inductive Out (N : Type) where
  /-- `return pts` -/
  | array (pts : List Pt)
  /-- `return sampled_pts, sampled_normals` -/
  | arrayNormals (pts : List Pt) (normals : List N)
  /-- `PointCloud` whose vertex container holds `verts`; `normalsAttr` = data of the dense attribute "normals" -/
  | cloud (verts : List Pt) (normalsAttr : Option (List N))
deriving DecidableEq

def Out.points {N} : Out N → List Pt
  | .array p => p
  | .arrayNormals p _ => p
  | .cloud v _ => v

def Out.normals {N} : Out N → Option (List N)
  | .array _ => none
  | .arrayNormals _ n => some n
  | .cloud _ a => a

def Out.isCloud {N} : Out N → Bool
  | .cloud _ _ => true
  | _ => false

/-- trailing `if return_point_cloud: pointcloud.vertices += list(pts) … else: return pts`
(sample_sphere, sample_ball, sample_polyline) -/
def wrapPts (pc : Bool) (pts : List Pt) : Out Unit := if pc then .cloud pts none else .array pts

/-- trailing block of `sample_surface` -/
def wrapSurface {N} (pc rn : Bool) (pts : List Pt) (sn : List N) : Out N :=
  if pc then .cloud pts (if rn then some sn else none)
  else if rn then .arrayNormals pts sn else .array pts

/-- `from_arrays` pads rows of dimension < 3 with zeros -/
def pad3 (p : Pt) : Pt := p ++ List.replicate (3 - p.length) 0

/-- trailing block of `sample_AABB` incl. the guard `box.dim>3 and return_point_cloud → ValueError` -/
def wrapBox (pc : Bool) (d : Nat) (pts : List Pt) : Option (Out Unit) :=
  if d > 3 && pc then none else some (if pc then .cloud (pts.map pad3) none else .array pts)

abbrev V3 := Rat × Rat × Rat
def toL (p : V3) : Pt := [p.1, p.2.1, p.2.2]

/-- all points of `sample_polyline`: draw `i` = (edge drawn by choice, `t`) -/
def polylinePoints (V : List V3) (E : List (Nat × Nat)) (draws : List (Nat × Rat)) : List Pt :=
  draws.map (fun d =>
    let e := E.getD d.1 (0, 0)
    segPoint d.2 (toL (V.getD e.1 (0, 0, 0))) (toL (V.getD e.2 (0, 0, 0))))

def samplePolyline (pc : Bool) (V : List V3) (E : List (Nat × Nat)) (draws : List (Nat × Rat)) : Out Unit :=
  wrapPts pc (polylinePoints V E draws)

/-- all points of `sample_surface`: draw `i` = (face drawn by choice, recorded `sqrt(u1)`, `u2`) -/
def surfacePoints (V : List V3) (F : List (Nat × Nat × Nat)) (draws : List (Nat × Rat × Rat)) : List Pt :=
  draws.map (fun d =>
    let f := F.getD d.1 (0, 0, 0)
    triPoint d.2.1 d.2.2 (toL (V.getD f.1 (0, 0, 0))) (toL (V.getD f.2.1 (0, 0, 0))) (toL (V.getD f.2.2 (0, 0, 0))))

/-- `sample_surface` with both options; `normals` = one normal per face (`face_normals`) -/
def sampleSurface {N} (dflt : N) (pc rn : Bool) (V : List V3) (F : List (Nat × Nat × Nat)) (normals : List N)
    (draws : List (Nat × Rat × Rat)) : Out N :=
  wrapSurface pc rn (surfacePoints V F draws) (sampledNormals dflt normals (draws.map (·.1)))

/-- a history of calls on ONE mesh object (options and draws per call): the model carries no state from one call to
the next — the samplers only read the mesh (checked on the source by the translator: no store into `mesh`, attributes
computed with `persistent=False`) -/
def surfaceCalls {N} (dflt : N) (V : List V3) (F : List (Nat × Nat × Nat)) (normals : List N)
    (calls : List (Bool × Bool × List (Nat × Rat × Rat))) : List (Out N) :=
  calls.map (fun c => sampleSurface dflt c.1 c.2.1 V F normals c.2.2)

def polylineCalls (V : List V3) (E : List (Nat × Nat)) (calls : List (Bool × List (Nat × Rat))) : List (Out Unit) :=
  calls.map (fun c => samplePolyline c.1 V E c.2)

end Mouette.SamplingWrap
