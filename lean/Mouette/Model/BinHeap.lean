import Mouette.Model.PQueue
/-
Model of CPython's `heapq.heappush` / `heapq.heappop` on a list (Lib/heapq.py; the C accelerator `_heapq` implements
the same algorithm), core Lean only. Items are the pairs `(x, priority)` of `PriorityItem`; the only comparison used is
`lt` (`PriorityItem.__lt__`: strict comparison of the priorities).

heapq moves a "hole" instead of exchanging cells; the exchange formulation below performs the same comparisons in the
same order and ends with the same array (the item travelling with the hole is the one written at the end), so that the
pop ORDER - ties included - is heapq's. The C20 driver runs this model and the harness compares, pop by pop, WHICH item
comes out (and `front`) with the real `PriorityQueue`.

  `_siftdown(heap, 0, pos)`  = `bubbleUp h pos`   (towards the root while `lt` its parent `(pos-1)/2`)
  `_siftup(heap, 0)`         = `sink` to a leaf along the smaller children (right child when it exists and
                               `not heap[left] < heap[right]`), unconditionally, then `bubbleUp` from that leaf
-/
namespace Mouette.BinHeap
open Mouette.PQ

abbrev Item := Nat × Prio

/-- `PriorityItem.__lt__` -/
def lt (a b : Item) : Bool := Prio.lt a.2 b.2

def dflt : Item := (0, .posInf)

/-- cell `i` (reads are always in range in the algorithms below) -/
def at_ (h : List Item) (i : Nat) : Item := h.getD i dflt

/-- exchange cells `i` and `j` -/
def swap (h : List Item) (i j : Nat) : List Item := (h.set i (at_ h j)).set j (at_ h i)

/-- `_siftdown(heap, 0, pos)` -/
def bubbleUp (h : List Item) (pos : Nat) : List Item :=
  if hp : pos = 0 then h else
    if lt (at_ h pos) (at_ h ((pos - 1) / 2)) then bubbleUp (swap h pos ((pos - 1) / 2)) ((pos - 1) / 2) else h
termination_by pos
decreasing_by omega

/-- the smaller child of `pos` among `n` cells, as `_siftup` picks it (`l = 2*pos+1 < n`) -/
def child (h : List Item) (n pos : Nat) : Nat :=
  if 2 * pos + 2 < n ∧ lt (at_ h (2 * pos + 1)) (at_ h (2 * pos + 2)) = false then 2 * pos + 2 else 2 * pos + 1

/-- first phase of `_siftup`: move down to a leaf; returns the array and the leaf position (`n` = number of cells) -/
def sink (n : Nat) (h : List Item) (pos : Nat) : List Item × Nat :=
  if 2 * pos + 1 < n then sink n (swap h pos (child h n pos)) (child h n pos) else (h, pos)
termination_by n - pos
decreasing_by
  unfold child
  split <;> omega

/-- `heappush(heap, x)` -/
def heappush (h : List Item) (x : Item) : List Item := bubbleUp (h ++ [x]) h.length

/-- `heappop(heap)`; `none` = IndexError on the empty heap -/
def heappop (h : List Item) : Option (Item × List Item) :=
  match h.getLast? with
  | none => none
  | some last =>
    match h.dropLast with
    | [] => some (last, [])
    | ret :: tl =>
      let r := sink (tl.length + 1) (last :: tl) 0
      some (ret, bubbleUp r.1 r.2)

end Mouette.BinHeap
