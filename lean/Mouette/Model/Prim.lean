/-
Model of the closed-form primitives of `mouette/geometry/geometry.py` and `rotations.py` over exact rationals
(core Lean only).  Square roots and trigonometric functions are never evaluated: rotations take `(c, s)` =
`(cos angle, sin angle)` and a unit axis as inputs; angles are output as the pair `(|cross|², dot)`.
-/
namespace Mouette.Prim

structure V2 where
  x : Rat
  y : Rat
deriving Repr, DecidableEq

structure V3 where
  x : Rat
  y : Rat
  z : Rat
deriving Repr, DecidableEq

namespace V3
def add (a b : V3) : V3 := ⟨a.x + b.x, a.y + b.y, a.z + b.z⟩
def sub (a b : V3) : V3 := ⟨a.x - b.x, a.y - b.y, a.z - b.z⟩
def smul (t : Rat) (a : V3) : V3 := ⟨t * a.x, t * a.y, t * a.z⟩
def dot (a b : V3) : Rat := a.x * b.x + a.y * b.y + a.z * b.z
def norm2 (a : V3) : Rat := dot a a
/-- `geometry.cross`, component by component as coded -/
def cross (A B : V3) : V3 := ⟨A.y * B.z - A.z * B.y, B.x * A.z - B.z * A.x, A.x * B.y - A.y * B.x⟩
end V3

namespace V2
def add (a b : V2) : V2 := ⟨a.x + b.x, a.y + b.y⟩
def sub (a b : V2) : V2 := ⟨a.x - b.x, a.y - b.y⟩
def smul (t : Rat) (a : V2) : V2 := ⟨t * a.x, t * a.y⟩
def dot (a b : V2) : Rat := a.x * b.x + a.y * b.y
def norm2 (a : V2) : Rat := dot a a
end V2

/-- `det_2x2(A,B) = ax*by - ay*bx` -/
def det2 (A B : V2) : Rat := A.x * B.y - A.y * B.x

/-- `det_3x3(A,B,C)` by the rule of Sarrus on the matrix whose ROWS are A, B, C (as coded) -/
def det3 (A B C : V3) : Rat :=
  A.x * B.y * C.z + A.y * B.z * C.x + A.z * B.x * C.y - A.x * B.z * C.y - A.y * B.x * C.z - A.z * B.y * C.x

/-- `rotate_2d(v, angle)` with `c = cos angle`, `s = sin angle` -/
def rot2 (v : V2) (c s : Rat) : V2 := ⟨v.x * c - v.y * s, v.x * s + v.y * c⟩

/-- `rotate_around_axis(inp, axis, angle)`: the Rodrigues matrix as coded, `u` the normalised axis -/
def rotAxis (inp u : V3) (c s : Rat) : V3 :=
  ⟨(c + u.x * u.x * (1 - c)) * inp.x + (u.x * u.y * (1 - c) - u.z * s) * inp.y + (u.x * u.z * (1 - c) + u.y * s) * inp.z,
   (u.x * u.y * (1 - c) + u.z * s) * inp.x + (c + u.y * u.y * (1 - c)) * inp.y + (u.y * u.z * (1 - c) - u.x * s) * inp.z,
   (u.x * u.z * (1 - c) - u.y * s) * inp.x + (u.y * u.z * (1 - c) + u.x * s) * inp.y + (c + u.z * u.z * (1 - c)) * inp.z⟩

/-- threshold `1e-12` of `intersect_2lines2D` and `distance_to_segment2D` -/
def eps12 : Rat := 1 / 1000000000000

def rabs (x : Rat) : Rat := if x < 0 then -x else x

/-- `intersect_2lines2D(p1,d1,p2,d2)`; `none` for (nearly) parallel lines.  The code tests `|det(d1,d2)| ≤ 1e-12·|d1|·|d2|`
(the sine of the angle of the directions, independent of their lengths); both sides are non-negative, so the test is the
same on the SQUARES: `det² ≤ (1e-12)²·|d1|²·|d2|²` - no square root is taken.  A zero direction is always "parallel". -/
def parallel2 (d1 d2 : V2) : Bool := decide (det2 d1 d2 * det2 d1 d2 ≤ eps12 * eps12 * V2.norm2 d1 * V2.norm2 d2)

def intersect2 (p1 d1 p2 d2 : V2) : Option V2 :=
  if parallel2 d1 d2 then none
  else
    let n2 : V2 := ⟨d2.y, -d2.x⟩
    let t := V2.dot (V2.sub p2 p1) n2 / V2.dot d1 n2
    some (V2.add p1 (V2.smul t d1))

/-- circumcentre of the 3-D triangle in exact arithmetic: `v1 + ((|b|² (a×b)×a … )` written through the
in-plane 2×2 system; returns `(centre, normal)`; `none` when the triangle is degenerate (normal = 0) -/
def circumcenter (v1 v2 v3 : V3) : Option (V3 × V3) :=
  let a := V3.sub v2 v1
  let b := V3.sub v3 v1
  let n := V3.cross a b
  let n2 := V3.norm2 n
  if n2 = 0 then none
  else
    -- centre = v1 + ( |a|² (b × n) + |b|² (n × a) ) / (2 |n|²)
    let w := V3.add (V3.smul (V3.norm2 a) (V3.cross b n)) (V3.smul (V3.norm2 b) (V3.cross n a))
    some (V3.add v1 (V3.smul (1 / (2 * n2)) w), n)

/-- `project_to_plane(P, N, orig)` -/
def projectToPlane (P N o : V3) : V3 :=
  V3.sub P (V3.smul (V3.dot (V3.sub P o) N / V3.dot N N) N)

def clamp01 (t : Rat) : Rat := if t < 0 then 0 else if 1 < t then 1 else t

/-- `distance_to_segment2D(P,A,B)` SQUARED -/
def distSeg2 (P A B : V2) : Rat :=
  let seg := V2.sub B A
  let l2 := V2.dot seg seg
  if l2 < eps12 then V2.norm2 (V2.sub A P)
  else
    let t := clamp01 (V2.dot (V2.sub P A) seg / l2)
    V2.norm2 (V2.sub (V2.add A (V2.smul t seg)) P)

/-- `triangle_area_2D(A,B,C) = |det(B-A, C-A)| / 2` -/
def area2 (A B C : V2) : Rat := rabs (det2 (V2.sub B A) (V2.sub C A) / 2)

/-- `angle_3pts(A,B,C) = atan2(|BA × BC|, BA · BC)`: the pair (|BA × BC|², BA · BC) -/
def angle3 (A B C : V3) : Rat × Rat :=
  let BA := V3.sub A B
  let BC := V3.sub C B
  (V3.norm2 (V3.cross BA BC), V3.dot BA BC)

/-- `signed_angle_2vec3D(V1,V2,N) = sign0(S·N) · atan2(|S|, V1·V2)`, `S = V1 × V2`: (sign, |S|², dot) -/
def signedAngle (V1 V2 N : V3) : Int × Rat × Rat :=
  let S := V3.cross V1 V2
  ((if 0 ≤ V3.dot S N then 1 else -1), V3.norm2 S, V3.dot V1 V2)

/-- `cotan(A,B,C) = cos/sin` of the angle at `B`: the pair `(BA · BC, |BA × BC|²)`; `cotan = first / sqrt second`.
(The code normalises `BA`, `BC` first; the ratio does not depend on that, see `cotanPair_scale`.) -/
def cotanPair (A B C : V3) : Rat × Rat :=
  let BA := V3.sub A B
  let BC := V3.sub C B
  (V3.dot BA BC, V3.norm2 (V3.cross BA BC))

end Mouette.Prim
