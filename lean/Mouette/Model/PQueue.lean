/-
Model of `mouette/utils/priority_queue.py`. The binary heap of `heapq` is abstracted to a list of
pending `(item, priority)` pairs; `pop` removes *a* pending pair of minimum priority, chosen by a
parameter `choose` (so that the theorems hold for every tie-breaking, in particular `heapq`'s).
Priorities are in `Int` scaled or `Rat`; we use an ordered key type `Prio` = Rat extended by ±∞.
-/
namespace Mouette.PQ

inductive Prio where
  | negInf
  | fin (q : Rat)
  | posInf
deriving Repr, DecidableEq

def Prio.le : Prio → Prio → Bool
  | .negInf, _ => true
  | _, .posInf => true
  | .fin a, .fin b => decide (a ≤ b)
  | .posInf, _ => false
  | _, .negInf => false

/-- strict order derived from `le` (floats: `a < b`; the harness never pushes NaN) -/
def Prio.lt (a b : Prio) : Bool := !(Prio.le b a)

abbrev Queue := List (Nat × Prio)

def empty (q : Queue) : Bool := q.isEmpty

def push (q : Queue) (x : Nat) (w : Prio) : Queue := q ++ [(x, w)]

/-- index of the first pending pair whose priority is ≤ all others -/
def isMin (q : Queue) (e : Nat × Prio) : Bool := q.all (fun e' => Prio.le e.2 e'.2)

/-- canonical choice: first minimal pending pair -/
def firstMin (q : Queue) : Option (Nat × Prio) := q.find? (isMin q)

/-- `pop` with the canonical choice; `none` models `IndexError` on an empty queue. -/
def pop (q : Queue) : Option ((Nat × Prio) × Queue) :=
  match firstMin q with
  | none => none
  | some e => some (e, q.erase e)

end Mouette.PQ
