import Mouette.Model.FrameFieldV
import Mouette.Model.FrameFieldH
/-
C18, round 4 — vocabulary for the IMPERATIVE translation of the frame-field code
(`base.py: normalize / run / _check_init`, `faces2d.py` and `vertex2d.py: _initialize_variables / initialize / optimize /
flag_singularities / export_as_mesh`) into `Generated/C18Src.lean`, and the hand-written NORMAL FORMS the generated
definitions are bridged to (`Props/C18Source.lean`). Core Lean only.

What is a parameter (never evaluated here): `abs` of a complex number (a square root), the sparse solvers
(`spsolve`, `factorized`, `inverse_power_method`), the geometry (projection of a feature edge on a local basis, transports,
phases). Their CONTRACTS are hypotheses of the theorems (e.g. `A x = b` for the linear solve).
-/
namespace Mouette.FFS
open Mouette.FF

abbrev Vec := List Cpx
/-- a sparse matrix, abstractly: its coefficient function -/
abbrev Mat := Nat → Nat → Cpx
/-- an extracted block `M[rows,:][:,cols]`, as its list of rows -/
abbrev DMat := List (List Cpx)

/-- the numeric oracles (trusted-base items T6 / T7): NOT modelled -/
structure Num where
  /-- python `abs(z)` of a complex number -/
  abs : Cpx → Rat
  /-- `scipy.sparse.linalg.spsolve(M, b)`; `factorized(M)(b)` is the same map -/
  spsolve : DMat → Vec → Vec
  /-- `optimize.inverse_power_method(lap)` / `inverse_power_method(lap, A)` on an `n × n` operator -/
  ipm : Nat → Mat → Option Mat → Vec

/-! ## vectors and blocks -/
def vneg (v : Vec) : Vec := v.map cneg
def vsmul (a : Rat) (v : Vec) : Vec := v.map (csmul a)
def vsub : Vec → Vec → Vec
  | x :: xs, y :: ys => csub x y :: vsub xs ys
  | _, _ => []
def rowDotL : List Cpx → Vec → Cpx
  | a :: as, x :: xs => cadd (cmul a x) (rowDotL as xs)
  | _, _ => czero
/-- `M.dot(x)` -/
def dot (M : DMat) (x : Vec) : Vec := M.map (fun row => rowDotL row x)
/-- `M[rows,:][:,cols]` -/
def sub (M : Mat) (rows cols : List Nat) : DMat := rows.map (fun a => cols.map (fun b => M a b))
/-- the whole `n × n` operator as a block -/
def full (n : Nat) (M : Mat) : DMat := sub M (List.range n) (List.range n)
def dsmul (a : Rat) (M : DMat) : DMat := M.map (fun row => row.map (csmul a))
def dsubRow : List Cpx → List Cpx → List Cpx
  | x :: xs, y :: ys => csub x y :: dsubRow xs ys
  | _, _ => []
def dsub : DMat → DMat → DMat
  | r :: rs, s :: ss => dsubRow r s :: dsub rs ss
  | _, _ => []
def msmul (a : Rat) (M : Mat) : Mat := fun i j => csmul a (M i j)
def msub (M K : Mat) : Mat := fun i j => csub (M i j) (K i j)
/-- `var[idx]` -/
def gather (var : Vec) (idx : List Nat) : Vec := idx.map (fun i => var.getD i czero)
/-- `n` repetitions of a loop body -/
def iter {α : Type} (f : α → α) : Nat → α → α
  | 0, x => x
  | k + 1, x => iter f k (f x)

/-- a loop `for i in range(lo, hi): var[i] = f(var[i])` whose body touches index `i` only -/
def mapFrom (lo hi : Nat) (f : Cpx → Cpx) : Nat → Vec → Vec
  | _, [] => []
  | i, z :: zs => (if lo ≤ i ∧ i < hi then f z else z) :: mapFrom lo hi f (i + 1) zs
def mapRange (lo hi : Nat) (f : Cpx → Cpx) (var : Vec) : Vec := mapFrom lo hi f 0 var

/-- `if x is not None: fl[x] = True` -/
def setSome (fl : List Bool) (t : Option Nat) : List Bool :=
  match t with | some t => fl.set t true | none => fl

/-! ## inputs of `optimize` (what the method reads from `self` / the mesh) -/
structure OptIn where
  /-- number of elements (`len(mesh.faces)` resp. `len(mesh.vertices)`) -/
  n : Nat
  nSmooth : Nat
  /-- `self.smooth_attach_weight or self._compute_attach_weight(A)` (see `FFH.alphaOf`) -/
  alpha : Rat
  /-- `len(self.feat.feature_vertices)` -/
  nFeatV : Nat
  /-- `self.feat.feature_vertices` -/
  featV : List Nat
  /-- `edge_to_faces(*mesh.edges[ie])` for `ie` in `self.feat.feature_edges`, in iteration order -/
  featAdj : List (Option Nat × Option Nat)
  /-- `operators.laplacian_triangles(mesh, cotan=use_cotan, connection=conn, order=order)` resp. `operators.laplacian(..)` -/
  lap : Mat
  /-- `operators.area_weight_matrix_faces(mesh)` resp. `area_weight_matrix(mesh)` -/
  area : Mat

/-! ## normal forms (hand-written): what the generated definitions are proved equal to -/
/-- one entry of `normalize` -/
def norm1 (N : Num) (z : Cpx) : Cpx := normalize1 z (N.abs z)
/-- `FrameField.normalize` -/
def normalizeM (N : Num) (var : Vec) : Vec := var.map (norm1 N)

/-- one pass of the smoothing loop on a bordered surface -/
def smoothStepM (N : Num) (lap area : Mat) (alpha : Rat) (free : List Nat) (valB : Vec) (var : Vec) : Vec :=
  scatter (normalizeM N var) free
    (N.spsolve (dsub (sub lap free free) (dsmul alpha (sub area free free)))
      (vsub (vneg valB) (vsmul alpha (dot (sub area free free) (gather (normalizeM N var) free)))))

/-- the pre-normalisation field of the linear-solve branch without smoothing -/
def harmonicM (N : Num) (lap : Mat) (free fixed : List Nat) (var : Vec) : Vec :=
  scatter var free (N.spsolve (sub lap free free) (vneg (dot (sub lap free fixed) (gather var fixed))))

/-- `for T in range(n): if flags[T]: fixedInds.append(T) else: freeInds.append(T)` -/
def freeOf (n : Nat) (flags : List Bool) : List Nat := (List.range n).filter (fun i => !(flags.getD i false))
def fixedOf (n : Nat) (flags : List Bool) : List Nat := (List.range n).filter (fun i => flags.getD i false)

/-- linear-solve branch of `optimize` for a given fixed/free partition -/
def optimizeBorderedM (N : Num) (lap area : Mat) (nSmooth : Nat) (alpha : Rat) (free fixed : List Nat) (var : Vec) : Vec :=
  normalizeM N
    (if 0 < nSmooth then
      iter (smoothStepM N lap area alpha free (dot (sub lap free fixed) (gather var fixed))) nSmooth
        (harmonicM N lap free fixed var)
     else harmonicM N lap free fixed var)

/-- eigen-solve branch (closed surface, no feature) -/
def optimizeClosedM (N : Num) (n : Nat) (lap area : Mat) (withMass : Bool) (nSmooth : Nat) (alpha : Rat) : Vec :=
  normalizeM N
    (if 0 < nSmooth then
      iter (fun var => N.spsolve (full n (msub lap (msmul alpha area))) (vneg (vsmul alpha (dot (full n area) (normalizeM N var)))))
        nSmooth (N.ipm n lap (if withMass then some area else none))
     else N.ipm n lap (if withMass then some area else none))

/-- `FrameField2DFaces.optimize` -/
def optimizeFacesM (N : Num) (P : OptIn) (var : Vec) : Vec :=
  if 0 < P.nFeatV then
    (if (freeOf P.n (fixedFlagsFaces P.n P.featAdj)).length = 0 then var
     else optimizeBorderedM N P.lap P.area P.nSmooth P.alpha
            (freeOf P.n (fixedFlagsFaces P.n P.featAdj)) (fixedOf P.n (fixedFlagsFaces P.n P.featAdj)) var)
  else optimizeClosedM N P.n P.lap P.area false P.nSmooth P.alpha

/-- vertices: `v in self.feat.feature_vertices` -/
def flagsVertsM (n : Nat) (featV : List Nat) : List Bool := (List.range n).map (fun v => featV.contains v)

/-- `FrameField2DVertices.optimize` (no early return when every vertex is constrained) -/
def optimizeVertsM (N : Num) (P : OptIn) (var : Vec) : Vec :=
  if 0 < P.nFeatV then
    optimizeBorderedM N P.lap P.area P.nSmooth P.alpha
      ((List.range P.n).filter (fun v => !(P.featV.contains v))) ((List.range P.n).filter (fun v => P.featV.contains v)) var
  else optimizeClosedM N P.n P.lap P.area true P.nSmooth P.alpha

/-! ## the harmonic-extension equation, row by row, on fields given as functions of the element index -/
def csum : List Cpx → Cpx
  | [] => czero
  | x :: xs => cadd x (csum xs)

/-- row `a` of `L_II y_I + L_IB y_B = 0` -/
def harmonicAt (L : Mat) (free fixed : List Nat) (y : Nat → Cpx) (a : Nat) : Prop :=
  cadd (csum (free.map (fun b => cmul (L a b) (y b)))) (csum (fixed.map (fun b => cmul (L a b) (y b)))) = czero

/-- a field stored as a list, read as a function of the index -/
def asFun (y : Vec) : Nat → Cpx := fun i => y.getD i czero

/-! ## inputs of the face-based `flag_singularities` (angles in TURNS) -/
structure FlagFacesIn where
  order : Nat
  nV : Nat
  /-- `edge_to_faces(A,B)` for every `(A,B)` of `mesh.edges`, in order -/
  edges : List (Option Nat × Option Nat)
  /-- phase of `var[T]` -/
  theta : Nat → Rat
  /-- `atan2(Y_T.dot(E), X_T.dot(E))` for edge `ie` and face `T` -/
  ang : Nat → Nat → Rat
  /-- `self.defect[v]` -/
  defect : Nat → Rat
  /-- `connectivity.vertex_to_edges(v)` -/
  vertexEdges : Nat → List Nat
  /-- `connectivity.other_edge_end(e, v)` -/
  otherEnd : Nat → Nat → Nat
  /-- `ZERO_THRESHOLD / 2π` -/
  thrTurns : Rat

/-- normal form of the edge loop: the writes of this call -/
def rotWritesM (P : FlagFacesIn) : FFH.Attr :=
  (List.zip (List.range P.edges.length) P.edges).filterMap (fun it =>
    match it.2.1, it.2.2 with
    | some T1, some T2 => some (it.1, edgeRot P.order (P.theta T1) (P.ang it.1 T1) (P.theta T2) (P.ang it.1 T2))
    | _, _ => none)

/-- normal form of the holonomy sum at `v`, in adjacency form (as the source computes it) -/
def holonomyAdjM (P : FlagFacesIn) (rot : Nat → Rat) (v : Nat) : Rat :=
  (P.vertexEdges v).foldl (fun acc e => acc + (if P.otherEnd e v < v then rot e else -(rot e))) (P.defect v)

/-- normal form of the vertex loop: the writes of this call -/
def singulsM (P : FlagFacesIn) (rot : Nat → Rat) : FFH.Attr :=
  (List.range P.nV).filterMap (fun v =>
    if P.thrTurns < rabs (holonomyAdjM P rot v) then some (v, indexOf (holonomyAdjM P rot v)) else none)

/-! ## inputs of the face-based `_initialize_variables` -/
/-- a feature edge as `_initialize_variables` sees it: the faces `edge_to_faces(e1,e2)` returns (in that order) -/
structure FeatEdge where
  id : Nat
  adj : List (Option Nat)

/-- flattening of the two loops into the write list of `FF.initFaces` -/
def writesOf (N : Num) (proj : Nat → Nat → Cpx) (fes : List FeatEdge) : List (Nat × Cpx × Rat) :=
  (fes.map (fun e => e.adj.filterMap (fun t => t.map (fun T => (T, proj e.id T, N.abs (proj e.id T)))))).flatten

/-! ## inputs of the vertex-based `_initialize_variables` -/
structure VFeatEdge where
  id : Nat
  a : Nat
  b : Nat

/-- what the vertex loop of the face-based `flag_singularities` must see at `v`: for every edge incident to `v`, its other end and its rotation -/
def incidentPairs (es : List REdge) (v : Nat) : List (Nat × Rat) :=
  es.filterMap (fun x => if x.a = v then some (x.b, x.rot) else if x.b = v then some (x.a, x.rot) else none)

/-! ## `_initialize_attributes` (round 7) -/
/-- what `_initialize_attributes` decides: the feature set, the connection, and whether the mesh's `cotan` attribute is refreshed -/
structure AttrSt (F C : Type) where
  feat : Option F
  conn : Option C
  cotOnMesh : Bool

/-! ## connection / operator assembly (round 6) -/
/-- `utils.offset([A,B,C], k)` -/
def rotl3 (A B C : Nat) (k : Nat) : Nat × Nat × Nat := if k = 0 then (A, B, C) else if k = 1 then (B, C, A) else (C, A, B)
/-- `np.argmax` of a list of booleans: index of the first `True` (0 when there is none) -/
def argmaxB : List Bool → Nat
  | [] => 0
  | true :: _ => 0
  | false :: bs => if bs.any id then argmaxB bs + 1 else 0

/-- coefficient `(a,b)` of `sp.csc_matrix((coeffs,(rows,cols)))`: duplicates are summed -/
def tripCoeff (ts : List (Nat × Nat × Cpx)) (a b : Nat) : Cpx :=
  ts.foldr (fun t acc => cadd (if a = t.1 ∧ b = t.2.1 then t.2.2 else czero) acc) czero

/-- the four triplets one half-edge contributes, from an assembled `Entry` of the round-1 model -/
def trip4 (e : Entry) : List (Nat × Nat × Cpx) := [(e.i, e.i, ofReal e.dii), (e.j, e.j, ofReal e.djj), (e.i, e.j, e.oij), (e.j, e.i, e.oji)]

/-- contract of `U x = cmath.rect(1, 2*pi*x)`: conjugate of the opposite phase, period one turn -/
structure UnitContract (U : Rat → Cpx) : Prop where
  conj : ∀ x, U (-x) = cconj (U x)
  period : ∀ (x : Rat) (k : Int), U (x + (k : Rat)) = U x

/-- phases of `operators.laplacian` -/
def lapPhase (order : Nat) (tr : Nat → Nat → Rat) (i j : Nat) : Rat := (order : Rat) * ((tr i j - tr j i) - 1 / 2)

/-- the three half-edges of a face, as entries of the round-1 model (`FF.entryVert`) -/
def lapFaceEntriesM (U : Rat → Cpx) (order : Nat) (cotan : Bool) (cot : Nat → Nat → Rat) (tr : Nat → Nat → Rat) (it : Nat × Nat × Nat × Nat) : List Entry :=
  let w := fun v => if cotan then cot it.1 v / 2 else (1 : Rat) / 2
  [entryVert it.2.1 it.2.2.1 (w it.2.2.2) (U (lapPhase order tr it.2.1 it.2.2.1)) (U (lapPhase order tr it.2.2.1 it.2.1)),
   entryVert it.2.2.1 it.2.2.2 (w it.2.1) (U (lapPhase order tr it.2.2.1 it.2.2.2)) (U (lapPhase order tr it.2.2.2 it.2.2.1)),
   entryVert it.2.2.2 it.2.1 (w it.2.2.1) (U (lapPhase order tr it.2.2.2 it.2.1)) (U (lapPhase order tr it.2.1 it.2.2.2))]

def lapEntriesM (U : Rat → Cpx) (order : Nat) (cotan : Bool) (faces : List (Nat × Nat × Nat × Nat)) (cot : Nat → Nat → Rat) (tr : Nat → Nat → Rat) : List Entry :=
  faces.flatMap (lapFaceEntriesM U order cotan cot tr)

/-- `(Nabla.conj().T @ D @ Nabla)[a,b]` restricted to one row of `Nabla` with weight `w` -/
def rowGram (w : Rat) (row : List (Nat × Cpx)) (a b : Nat) : Cpx :=
  csum (row.flatMap (fun x => row.map (fun y => if a = x.1 ∧ b = y.1 then csmul w (cmul (cconj x.2) y.2) else czero)))

def gramCoeff (weight : Nat → Rat) (rows : List (Nat × List (Nat × Cpx))) (a b : Nat) : Cpx :=
  rows.foldr (fun r acc => cadd (rowGram (weight r.1) r.2 a b) acc) czero

/-- interior edges as entries of the round-1 model (`FF.entryFace`) -/
def triEntriesM (U : Rat → Cpx) (order : Nat) (weight : Nat → Rat) (edges : List (Nat × Option Nat × Option Nat)) (tr : Nat → Nat → Rat) : List Entry :=
  edges.filterMap (fun it => match it.2.1, it.2.2 with
    | some T1, some T2 => some (entryFace T1 T2 (weight it.1) (U ((order : Rat) * tr T1 T2)))
    | _, _ => none)

/-! ## the vertex-based `flag_singularities` (angles in TURNS) -/
/-- the python dict `edge_rot` keyed by directed vertex pairs (a missing key reads 0; the source never reads one) -/
abbrev Dict := Nat → Nat → Rat
/-- `d[(u,v)] = x` -/
def dset (d : Dict) (u v : Nat) (x : Rat) : Dict := fun p q => if p = u ∧ q = v then x else d p q

structure FlagVertsIn where
  order : Nat
  /-- `enumerate(mesh.edges)`: `(ie, A, B)` -/
  edges : List (Nat × Nat × Nat)
  /-- `enumerate(mesh.faces)`: `(id_face, A, B, C)` -/
  faces : List (Nat × Nat × Nat × Nat)
  /-- phase of `var[v]` -/
  theta : Nat → Rat
  /-- `conn.transport(a, b)` -/
  tr : Nat → Nat → Rat
  /-- `parallel_transport_curvature(mesh, conn)[id_face]` -/
  curv : Nat → Rat
  /-- `ZERO_THRESHOLD / 2π` -/
  thrTurns : Rat

/-- the data of the matching on edge `(A,B)` -/
def vedgeOf (P : FlagVertsIn) (A B : Nat) : FFV.VEdge :=
  { a := A, b := B, thA := P.theta A, aA := P.tr A B, thB := P.theta B, aB := P.tr B A }

/-- the matched rotations, edge by edge (round-2 model `FFV.edgeRotV`) -/
def resM (P : FlagVertsIn) : List FFV.RE := P.edges.map (fun it => (vedgeOf P it.2.1 it.2.2).toRE P.order)

/-- the dict the loop builds from them -/
def dictOfM (es : List FFV.RE) : Dict := es.foldl (fun d e => dset (dset d e.a e.b e.r) e.b e.a (-e.r)) (fun _ _ => 0)

/-- the writes into the `angles` edge attribute -/
def attrWritesM (P : FlagVertsIn) : FFH.Attr := P.edges.map (fun it => (it.1, -(FFV.edgeRotV P.order (vedgeOf P it.2.1 it.2.2))))

/-- holonomy of the dict around a face + curvature, as the source accumulates it -/
def faceAngleAdjM (d : Dict) (curv : Nat → Rat) (it : Nat × Nat × Nat × Nat) : Rat :=
  (((0 + d it.2.1 it.2.2.1) + d it.2.2.1 it.2.2.2) + d it.2.2.2 it.2.1) + curv it.1

def singulsVM (P : FlagVertsIn) (d : Dict) : FFH.Attr :=
  P.faces.filterMap (fun it =>
    if P.thrTurns < faceAngleAdjM d P.curv it then some (it.1, 1)
    else if faceAngleAdjM d P.curv it < -P.thrTurns then some (it.1, -1) else none)

/-! ## the vertex-based `_initialize_variables`: contract of `abs`, contributions in code order -/
/-- what `abs` of a complex number is: non-negative, and its square is the squared modulus -/
structure AbsContract (N : Num) : Prop where
  nonneg : ∀ z, 0 ≤ N.abs z
  sq : ∀ z, N.abs z * N.abs z = normSq z

/-- guarded (projection) branch: for every feature edge first `B` then `A`, each with the normalised projection of the edge -/
def contribsGuarded (N : Num) (proj : Nat → Nat → Cpx) (fes : List VFeatEdge) : List (Nat × Cpx) :=
  (fes.map (fun e => [(e.b, cdivR (proj e.id e.b) (N.abs (proj e.id e.b))), (e.a, cdivR (proj e.id e.a) (N.abs (proj e.id e.a)))])).flatten

/-- transport branch: `A` with `rect(1, transport(A,B))`, then `B` with `rect(1, transport(B,A))` -/
def contribsPlain (rect : Nat → Nat → Cpx) (fes : List VFeatEdge) : List (Nat × Cpx) :=
  (fes.map (fun e => [(e.a, rect e.a e.b), (e.b, rect e.b e.a)])).flatten

end Mouette.FFS
