/-
Model of `mouette/geometry/aabb.py` (class `AABB`) over exact rationals extended with ±∞
(`AABB.infinite`, k-d tree cells).  Core Lean only (linked into the driver).

Python            | model
------------------|------------------------------------------------------------
`AABB(p1,p2)`     | `Box.mk? lo hi` (error when the sizes differ)
`b.mini/b.maxi`   | `b.lo / b.hi`
`of_points`       | `ofPoints`
`intersection`    | `inter`   (`np.maximum(mini)`, `np.minimum(maxi)`)
`union`           | `union`
`do_intersect`    | `doIntersect`
`pad`             | `pad`     (finite pads, clamped at 0)
`contains_point`  | `contains` (half-open: `lo ≤ p < hi`)
`project`         | `project`
`distance`        | `distVec` then `normL1 / normLinf / normL2sq`  (l2 is output *squared*)
`is_empty`        | `isEmpty`
`center/span`     | `center / span` (finite boxes)
-/
namespace Mouette.AABB

/-- rationals extended with −∞ and +∞ (what a float64 bound of a box can be, NaN excluded) -/
inductive EQ where
  | ninf
  | fin (q : Rat)
  | pinf
deriving DecidableEq, Repr, Inhabited

namespace EQ

def leB : EQ → EQ → Bool
  | ninf, _ => true
  | fin _, ninf => false
  | fin x, fin y => decide (x ≤ y)
  | fin _, pinf => true
  | pinf, pinf => true
  | pinf, _ => false

instance : LE EQ := ⟨fun a b => leB a b = true⟩
instance : LT EQ := ⟨fun a b => leB b a = false⟩
instance (a b : EQ) : Decidable (a ≤ b) := inferInstanceAs (Decidable (leB a b = true))
instance (a b : EQ) : Decidable (a < b) := inferInstanceAs (Decidable (leB b a = false))

/-- `np.maximum` -/
def max (a b : EQ) : EQ := if a ≤ b then b else a
/-- `np.minimum` -/
def min (a b : EQ) : EQ := if a ≤ b then a else b

/-- `a - q` for a finite `q` -/
def subR : EQ → Rat → EQ
  | ninf, _ => ninf
  | fin x, q => fin (x - q)
  | pinf, _ => pinf

/-- `q - a` for a finite `q` -/
def rsub (q : Rat) : EQ → EQ
  | ninf => pinf
  | fin x => fin (q - x)
  | pinf => ninf

/-- `a + q` for a finite `q` -/
def addR : EQ → Rat → EQ
  | ninf, _ => ninf
  | fin x, q => fin (x + q)
  | pinf, _ => pinf

/-- sum of two values that are not of opposite infinite sign (used on non-negative values) -/
def add : EQ → EQ → EQ
  | fin x, fin y => fin (x + y)
  | pinf, _ => pinf
  | _, pinf => pinf
  | _, _ => ninf

/-- square (of a value; ±∞ ↦ +∞) -/
def sq : EQ → EQ
  | fin x => fin (x * x)
  | _ => pinf

def abs : EQ → EQ
  | fin x => fin (if x < 0 then -x else x)
  | _ => pinf

def isFin : EQ → Bool
  | fin _ => true
  | _ => false

end EQ

open EQ

/-- squared euclidean distance between two points (`distance(A,B)**2`) -/
def sqDistR : List Rat → List Rat → Rat
  | a :: as, b :: bs => (a - b) * (a - b) + sqDistR as bs
  | _, _ => 0

structure Box where
  lo : List EQ
  hi : List EQ
deriving Repr, DecidableEq

namespace Box

def dim (b : Box) : Nat := b.lo.length

/-- constructor: `raise Exception` when sizes differ -/
def mk? (lo hi : List EQ) : Option Box :=
  if lo.length = hi.length then some ⟨lo, hi⟩ else none

/-- `AABB.infinite(dim)` -/
def infinite (d : Nat) : Box := ⟨List.replicate d ninf, List.replicate d pinf⟩

def finBox (lo hi : List Rat) : Box := ⟨lo.map fin, hi.map fin⟩

/-- column-wise fold of a non-empty list of points -/
def colFold (f : Rat → Rat → Rat) : List Rat → List (List Rat) → List Rat
  | acc, [] => acc
  | acc, p :: ps => colFold f (List.zipWith f acc p) ps

def rmin (a b : Rat) : Rat := if a ≤ b then a else b
def rmax (a b : Rat) : Rat := if a ≤ b then b else a

/-- `AABB.of_points(points, padding)`; `none` for an empty point list (numpy raises) -/
def ofPoints (pts : List (List Rat)) (pad : Rat) : Option Box :=
  match pts with
  | [] => none
  | p :: ps =>
    some ⟨(colFold rmin p ps).map (fun x => fin (x - pad)), (colFold rmax p ps).map (fun x => fin (x + pad))⟩

def inter (a b : Box) : Option Box :=
  if a.dim = b.dim then some ⟨List.zipWith EQ.max a.lo b.lo, List.zipWith EQ.min a.hi b.hi⟩ else none

def union (a b : Box) : Option Box :=
  if a.dim = b.dim then some ⟨List.zipWith EQ.min a.lo b.lo, List.zipWith EQ.max a.hi b.hi⟩ else none

/-- per-dimension predicate of `do_intersect` -/
def overlap1 (alo ahi blo bhi : EQ) : Bool := decide (alo ≤ bhi) && decide (blo ≤ ahi)

def overlapAll : List EQ → List EQ → List EQ → List EQ → Bool
  | al :: als, ah :: ahs, bl :: bls, bh :: bhs => overlap1 al ah bl bh && overlapAll als ahs bls bhs
  | _, _, _, _ => true

def doIntersect (a b : Box) : Option Bool :=
  if a.dim = b.dim then some (overlapAll a.lo a.hi b.lo b.hi) else none

/-- `pad` with a vector of finite pads (a float pad is replicated by the front-end); values clamped at 0 -/
def pad (b : Box) (p : List Rat) : Option Box :=
  if p.length = b.dim then
    let p0 := p.map (fun x => rmax x 0)
    some ⟨List.zipWith (fun l x => l.addR (-x)) b.lo p0, List.zipWith (fun h x => h.addR x) b.hi p0⟩
  else none

def containsAux : List EQ → List EQ → List Rat → Bool
  | l :: ls, h :: hs, q :: qs => decide (l ≤ fin q) && decide (fin q < h) && containsAux ls hs qs
  | _, _, _ => true

/-- half-open membership `lo ≤ p < hi` -/
def contains (b : Box) (p : List Rat) : Option Bool :=
  if p.length = b.dim then some (containsAux b.lo b.hi p) else none

def clampVec : List EQ → List EQ → List Rat → List EQ
  | l :: ls, h :: hs, q :: qs => EQ.max l (EQ.min h (fin q)) :: clampVec ls hs qs
  | _, _, _ => []

/-- `project`: the point itself when contained, otherwise the clamp `max(lo, min(hi, p))` -/
def project (b : Box) (p : List Rat) : Option (List EQ) :=
  if p.length = b.dim then
    some (if containsAux b.lo b.hi p then p.map fin else clampVec b.lo b.hi p)
  else none

/-- one coordinate of `np.maximum(np.maximum(mini - pt, pt - maxi), 0)` -/
def excess (l h : EQ) (q : Rat) : EQ := EQ.max (EQ.max (l.subR q) (EQ.rsub q h)) (fin 0)

def distVec : List EQ → List EQ → List Rat → List EQ
  | l :: ls, h :: hs, q :: qs => excess l h q :: distVec ls hs qs
  | _, _, _ => []

def normL1 : List EQ → EQ
  | [] => fin 0
  | x :: xs => EQ.add x.abs (normL1 xs)

def normLinf : List EQ → EQ
  | [] => fin 0
  | x :: xs => EQ.max x.abs (normLinf xs)

def normL2sq : List EQ → EQ
  | [] => fin 0
  | x :: xs => EQ.add x.sq (normL2sq xs)

/-- squared l2 distance point–box (never evaluates a square root) -/
def dist2 (b : Box) (q : List Rat) : EQ := normL2sq (distVec b.lo b.hi q)

/-- `distance(pt, which)`; `which` ∈ l1 | linf | l2 (squared) -/
def distance (b : Box) (q : List Rat) (which : String) : Option EQ :=
  if q.length = b.dim then
    let v := distVec b.lo b.hi q
    if which = "l1" then some (normL1 v) else if which = "linf" then some (normLinf v)
    else if which = "l2" then some (normL2sq v) else none
  else none

def anyGe : List EQ → List EQ → Bool
  | l :: ls, h :: hs => decide (h ≤ l) || anyGe ls hs
  | _, _ => false

/-- `np.any(mini >= maxi)` -/
def isEmpty (b : Box) : Bool := anyGe b.lo b.hi

def allFin (l : List EQ) : Bool := l.all EQ.isFin

def toRat : EQ → Rat
  | fin x => x
  | _ => 0

/-- `(p1+p2)/2` (finite boxes only) -/
def center (b : Box) : Option (List Rat) :=
  if allFin b.lo && allFin b.hi then some (List.zipWith (fun l h => (toRat l + toRat h) / 2) b.lo b.hi) else none

/-- `p2 - p1` (finite boxes only) -/
def span (b : Box) : Option (List Rat) :=
  if allFin b.lo && allFin b.hi then some (List.zipWith (fun l h => toRat h - toRat l) b.lo b.hi) else none

/-- closed membership `lo ≤ p ≤ hi` with matching sizes (used for the k-d tree cells and the projection theorems) -/
def insideClosed : List EQ → List EQ → List Rat → Bool
  | l :: ls, h :: hs, q :: qs => decide (l ≤ fin q) && decide (fin q ≤ h) && insideClosed ls hs qs
  | [], [], [] => true
  | _, _, _ => false

end Box
end Mouette.AABB
