import Mouette.Model.KDTreeFlat
/-
Vocabulary for the definitions that `vlib/gen/c11_source.py` extracts from the BODIES of `mouette/spatial/kdtree.py`
(`Generated/C11Src.lean`).  Core Lean only.  What each Python construct is read as:

Python                                   | here
-----------------------------------------|----------------------------------------------------------------------------
`self.nodes`, `self._nid`                | the record `BSt` (state threaded through `__init__` and `_new_leaf`)
`self.points[i]`, `self.points[I, ax]`   | `P i`, `takeAx P I ax` (the stored copy of the points; `P : Nat → Pt`)
`KDTree.Leaf(..)` (dataclass)            | `Pending` (`Model/KDTreeFlat.lean`), plus the GHOST field `path` (heap-path id of the cell,
                                         |   root 1, children 2p / 2p+1) that only keys the pivot parameter
`KDTree.Node(..)` (dataclass)            | `SNode`; `self.nodes.append(x)` stores `x.toLeaf` / `x.toF`
`self.nodes[i]`                          | `s.nodes[i]?`, `none` = IndexError (negative indices never occur: ids are `Nat`)
`deque` used with append/popleft         | list, head = next `popleft`, `append e` = `q ++ [e]`
`deque` used with append/pop             | list, head = next `pop`, `append e` = `e :: q`
`AABB(lo, hi)`, `.mini`, `.maxi`         | `Box.mk lo hi`, `.lo`, `.hi`   (the constructor copies its arguments: value semantics)
`bb.distance(pt)`, `distance(a, b)`      | `Box.dist2`, `sqDist`: SQUARED distances; a radius parameter `r ≥ 0` is read as `r2 = r²`
                                         |   (sqrt is monotone on non-negative numbers: every comparison is the same on squares)
`PriorityQueue` keyed by `-distance`     | candidate list sorted by non-decreasing squared distance: `push` = sorted insertion
                                         |   (`ins`), `pop` removes the LAST entry (largest distance = smallest priority), `front` = last
                                         |   entry.  This is the one assumption made about `heapq`: `pop` returns an entry of minimal
                                         |   priority; WHICH of several entries of equal priority is not observable in the statement.
`sorted([(d1, c1), (d2, c2)])`           | `sorted2`: lexicographic order of Python tuples, stable
`float("inf")`                           | `pinf`
`np.median(xs)`                          | `median xs` (`Model/KDTree.lean`: exact, mean of the two middle values for an even count)
`np.random.choice(xs, n, replace=False)` | `sample xs n`: a PARAMETER - any function (no assumption on what numpy draws)
`np.random.choice(xs, 1)[0]`             | `pick xs`: a PARAMETER - any function
-/
namespace Mouette.KD

/-! total accessors on an entry of `self.nodes` (the attribute of the other record kind reads as a default) -/
def FNode.points : FNode → List Nat
  | .leaf _ _ _ idx _ => idx
  | .node .. => []
def FNode.left : FNode → Nat
  | .node _ _ _ _ l _ _ => l
  | .leaf .. => 0
def FNode.right : FNode → Nat
  | .node _ _ _ _ _ r _ => r
  | .leaf .. => 0

end Mouette.KD

namespace Mouette.KDS
open Mouette.KD Mouette.AABB Mouette.AABB.EQ

/-- `KDTree.BuildStrategy` -/
inductive Strategy where
  | balanced | fast | random
deriving DecidableEq, Repr

/-- the attributes `__init__` and `_new_leaf` write: `self.nodes`, `self._nid` -/
structure BSt where
  nodes : List FNode
  nid : Nat
deriving Repr

/-- a `KDTree.Node` record while it is being filled in by `__init__` (`left`/`right` default to `None`, read as 0) -/
structure SNode where
  id : Nat
  axis : Nat
  parent : Option Nat
  split : Rat
  left : Nat
  right : Nat
  box : Box
deriving Repr

def SNode.toF (n : SNode) : FNode := .node n.id n.axis n.parent n.split n.left n.right n.box

/-- `bb = None` of a freshly made `KDTree.Leaf` -/
def noBox : Box := ⟨[], []⟩

/-! `PriorityQueue` keyed by `-distance` -/
def pqPush (st : List Cand) (d : Rat) (i : Nat) : List Cand := ins (d, i) st
def pqPop (st : List Cand) : List Cand := st.dropLast
def pqEmpty (st : List Cand) : Bool := st.isEmpty
/-- `-found.front.priority` -/
def pqFrontDist (st : List Cand) : Rat := match st.getLast? with | some c => c.1 | none => 0
/-- `found.pop().x` -/
def pqPopX (st : List Cand) : Nat := match st.getLast? with | some c => c.2 | none => 0
/-- `[found.pop().x for _ in range(n)][::-1]` -/
def pqDrainRev (st : List Cand) (n : Nat) : List Nat :=
  ((List.range n).foldl (fun (acc : List Nat × List Cand) _ => (acc.1 ++ [pqPopX acc.2], pqPop acc.2)) ([], st)).1.reverse

/-- `sorted([a, b])` on two `(distance, child id)` tuples -/
def sorted2 (a b : EQ × Nat) : List (EQ × Nat) :=
  if b.1 < a.1 || (decide (b.1 = a.1) && decide (b.2 < a.2)) then [b, a] else [a, b]

end Mouette.KDS
