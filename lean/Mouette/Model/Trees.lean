import Mouette.Model.Dijkstra
import Mouette.Model.UnionFind
/-
Model of `mouette/processing/trees/{base,edge_sp,face_sp,cell_sp}.py` (core Lean only).

* One generic breadth-first tree over elements `0..n-1` (vertices / faces / cells). `adj u` lists, in the
  iteration order of the code, the pairs `(neighbour, connector)`: for vertices the connector is the edge id
  (`vertex_to_vertices` + `edge_id`), for faces the edge id of `face_to_edges` whose `opposite_face` exists, for
  cells the face id of `cell_to_face` whose `other_face_side` exists. `excl k` is the exclusion predicate on
  connectors (`avoid_edges` ∪ border edges when `avoid_boundary`; `forbidden_edges`; `forbidden_faces`).
* `put` = `put_neighbours_in_queue`; `binit` = the three lines before the loop (note: neighbours of the root are
  queued *before* the root is flagged); `bstep` = one iteration of `while len(queue)>0` with the `(parent, child)`
  queue, the `seen` flags and the `dist_to_root[v] + 1 < dist_to_root[nv]` test as coded (`none` = `inf`).
* `mkChildren` / `mkEdges` = the final loop (`skipInf` = the `isinf` test present in the edge version only).
* `trav` = `SpanningTree.traverse` (deque; BFS pops left, DFS pops right — the work list is kept with its next
  element at the head, so DFS pushes the children reversed in front).
* `kruskal` + `orient` = `EdgeMinimalSpanningTree.compute` on the union-find model of C20.
* `forest` = `*SpanningForest.compute`.
Maps are total functions with point update (`Dijkstra.upd`), as in Model/Dijkstra.
-/
namespace Mouette.Trees
open Mouette.Dijkstra (upd)

abbrev Adj := Nat → List (Nat × Nat)

structure Cfg where
  adj : Adj
  excl : Nat → Bool

/-- admissible neighbours of `u` in iteration order -/
def nbrs (g : Cfg) (u : Nat) : List Nat := ((g.adj u).filter (fun e => !g.excl e.2)).map (·.1)

structure BState where
  seen : Nat → Bool
  parent : Nat → Option Nat
  dist : Nat → Option Nat
  queue : List (Nat × Nat)

/-- `put_neighbours_in_queue(v)` -/
def put (g : Cfg) (seen : Nat → Bool) (v : Nat) (q : List (Nat × Nat)) : List (Nat × Nat) :=
  q ++ ((nbrs g v).filter (fun x => !seen x)).map (fun x => (v, x))

def binit (g : Cfg) (root : Nat) : BState :=
  { seen := upd (fun _ => false) root true, parent := fun _ => none,
    dist := upd (fun _ => none) root (some 0), queue := put g (fun _ => false) root [] }

def succOpt : Option Nat → Option Nat
  | none => none
  | some d => some (d + 1)

/-- `a < b` with `inf` = `none` -/
def ltOpt : Option Nat → Option Nat → Bool
  | none, _ => false
  | some _, none => true
  | some a, some b => decide (a < b)

def bstep (g : Cfg) (s : BState) : Option BState :=
  match s.queue with
  | [] => none
  | (v, nv) :: q' =>
    if s.seen nv then some { s with queue := q' }
    else
      let seen' := upd s.seen nv true
      let s1 : BState := if ltOpt (succOpt (s.dist v)) (s.dist nv) then
          { s with parent := upd s.parent nv (some v), dist := upd s.dist nv (succOpt (s.dist v)) } else s
      some { s1 with seen := seen', queue := put g seen' nv q' }

def biter (g : Cfg) : Nat → BState → BState
  | 0, s => s
  | f+1, s => match bstep g s with
    | none => s
    | some s' => biter g f s'

def degSum (g : Cfg) : Nat → Nat
  | 0 => 0
  | n+1 => degSum g n + (nbrs g n).length

def bfuel (g : Cfg) (n : Nat) : Nat := degSum g n + 1

def brun (g : Cfg) (n root : Nat) : BState := biter g (bfuel g n) (binit g root)

def keyify (a b : Nat) : Nat × Nat := if a ≤ b then (a, b) else (b, a)

/-- the `children[p].append(v)` part of the final loop over `for v in ids`: the appends, in order, as
`(p, v)` pairs; `children[p]` is the sub-list of the `v` appended to `p` -/
def childPairs (parent : Nat → Option Nat) (keep : Nat → Bool) (ids : List Nat) : List (Nat × Nat) :=
  ids.filterMap (fun v => if keep v then (parent v).map (fun p => (p, v)) else none)

def mkChildren (parent : Nat → Option Nat) (keep : Nat → Bool) (ids : List Nat) : Nat → List Nat :=
  let ps := childPairs parent keep ids
  fun p => (ps.filter (fun e => e.1 == p)).map (·.2)

/-- the `edges.append(keyify(p,v))` part -/
def mkEdges (parent : Nat → Option Nat) (keep : Nat → Bool) (ids : List Nat) : List (Nat × Nat) :=
  ids.filterMap (fun v => if keep v then (parent v).map (fun p => keyify p v) else none)

structure Tree where
  root : Nat
  parent : Nat → Option Nat
  children : Nat → List Nat
  edges : List (Nat × Nat)
  reached : Nat → Bool
  depth : Nat → Option Nat

/-- `compute()` of Edge/Face/CellSpanningTree; `skipInf` is the `isinf(dist_to_root[v])` test (edge version) -/
def bfsTree (g : Cfg) (n root : Nat) (skipInf : Bool) : Tree :=
  let s := brun g n root
  let keep : Nat → Bool := fun v => if skipInf then (s.dist v).isSome else true
  { root := root, parent := s.parent, children := mkChildren s.parent keep (List.range n),
    edges := mkEdges s.parent keep (List.range n), reached := s.seen, depth := s.dist }

/-- `traverse(order)`: work list with its next element at the head -/
def trav (bfs : Bool) (children : Nat → List Nat) :
    Nat → List (Nat × Option Nat) → List (Nat × Option Nat) → List (Nat × Option Nat) × List (Nat × Option Nat)
  | 0, W, O => (O, W)
  | _+1, [], O => (O, [])
  | f+1, x :: W, O =>
    let cs := (children x.1).map (fun c => (c, some x.1))
    trav bfs children f (if bfs then W ++ cs else cs.reverse ++ W) (O ++ [x])

def traverse (bfs : Bool) (n : Nat) (t : Tree) : List (Nat × Option Nat) × List (Nat × Option Nat) :=
  trav bfs t.children (n + 1) [(t.root, none)] []

/-! ### Kruskal + orientation (EdgeMinimalSpanningTree) -/

/-- the Kruskal loop over the (already sorted) admissible edges on the union-find model -/
def kruskalLoop (es : List (Nat × Nat × Rat)) (s : UF.State) : UF.State × List (Nat × Nat) :=
  es.foldl (fun (acc : UF.State × List (Nat × Nat)) e =>
    match UF.connected acc.1 e.1 e.2.1 with
    | some (s1, true) => (s1, acc.2)
    | some (s1, false) => (UF.union s1 e.1 e.2.1, acc.2 ++ [keyify e.1 e.2.1])
    | none => acc) (s, [])

def ufInit (n : Nat) : UF.State := (List.range n).foldl UF.add UF.init

/-- `edges.sort(key=edge_length)` (stable) then the loop; returns the tree edges in order of insertion -/
def kruskal (n : Nat) (es : List (Nat × Nat × Rat)) : List (Nat × Nat) :=
  (kruskalLoop (es.mergeSort (fun a b => decide (a.2.2 ≤ b.2.2))) (ufInit n)).2

def treeNbrs (tes : List (Nat × Nat)) (u : Nat) : List Nat :=
  tes.filterMap (fun e => if e.1 = u then some e.2 else if e.2 = u then some e.1 else none)

structure OState where
  parent : Nat → Option Nat
  children : Nat → List Nat
  queue : List (Nat × Nat)

/-- BFS orientation from the root over the tree neighbours (`children[v] = [x for x in neighbours[v] if x != prev]`) -/
def orient (tes : List (Nat × Nat)) : Nat → OState → OState
  | 0, s => s
  | f+1, s =>
    match s.queue with
    | [] => s
    | (v, prev) :: q' =>
      let cs := (treeNbrs tes v).filter (· != prev)
      orient tes f { parent := upd s.parent v (some prev), children := upd s.children v cs,
                     queue := q' ++ cs.map (fun c => (c, v)) }

def mst (n root : Nat) (es : List (Nat × Nat × Rat)) : List (Nat × Nat) × OState :=
  let tes := kruskal n es
  let c0 := treeNbrs tes root
  (tes, orient tes (n + 1) { parent := fun _ => none, children := upd (fun _ => []) root c0,
                             queue := c0.map (fun c => (c, root)) })

/-! ### forests -/

/-- `*SpanningForest.compute`: a new tree for every element not visited by the traversal of an earlier tree -/
def forest (g : Cfg) (n : Nat) (skipInf : Bool) : List Tree :=
  ((List.range n).foldl (fun (acc : (Nat → Bool) × List Tree) v =>
    if acc.1 v then acc else
      let t := bfsTree g n v skipInf
      let nodes := (traverse true n t).1.map (·.1)
      (fun x => acc.1 x || nodes.contains x, acc.2 ++ [t])) (fun _ => false, [])).2

end Mouette.Trees
