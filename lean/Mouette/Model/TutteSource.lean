import Mouette.Model.Tutte
/-
Vocabulary of the C17 fragments translated in round 4 (`Generated/C17Sys.lean`, written by `vlib/gen/c17_translate.py` from
`laplacian_op.py: laplacian`, `tutte.py: TutteEmbedding.run`, `BoundaryMode.from_string`, `base.py: flat_mesh`). Core Lean only.

  `M.dot(x)` (one row)            `dotL row x`
  `lap[rows, :][:, cols]`         `rows.map (fun r => cols.map (fun c => L r c))` with `L r c` the matrix entry (`entry T r c`)
  `scipy.sparse.linalg.spsolve`   NOT translated: an answer `x` with `A x = rhs` is what the bridge theorems assume
  `csc_matrix((coeffs,(rows,cols)))`   duplicates are summed (`entry`)
-/
namespace Mouette.Tutte

/-- dot product of two lists (`zip`, the shorter length) -/
def dotL (a b : List Rat) : Rat := (List.zipWith (· * ·) a b).sum

end Mouette.Tutte
