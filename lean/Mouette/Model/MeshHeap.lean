/-
Model of mesh value semantics (C06): mouette/mesh/mesh.py `copy`, `merge`; mouette/geometry/transform.py; over an
explicit heap of coordinate vectors (core Lean only, coordinates in `Rat`).

A mesh is a list of REFERENCES into the heap (one per vertex id: the numpy buffer behind `mesh.vertices[i]`) plus
element lists. `mesh.vertices[i] = <expr>` REBINDS (allocates a fresh cell), `mesh.vertices[i] += tr` and
`mesh.vertices[i][c] = x` UPDATE IN PLACE (every mesh listing that reference sees the change).
The model follows the code as repaired by the `fix:` commits of C06: `translate` rebinds, `merge` copies its inputs.
The pre-repair behaviours are kept as `legacyTranslate` / `legacyMerge` (used only to state, in Props/C06.lean, that the
heap model expresses the defects: in-place translate of a sharing merge moves the inputs, and twice when listed twice).
-/
namespace Mouette.MeshHeap

structure V3 where
  x : Rat
  y : Rat
  z : Rat
  deriving DecidableEq, Repr, Inhabited

def V3.zero : V3 := ⟨0, 0, 0⟩
def V3.add (a b : V3) : V3 := ⟨a.x + b.x, a.y + b.y, a.z + b.z⟩
def V3.sub (a b : V3) : V3 := ⟨a.x - b.x, a.y - b.y, a.z - b.z⟩
def V3.neg (a : V3) : V3 := ⟨-a.x, -a.y, -a.z⟩
def V3.smul (s : Rat) (a : V3) : V3 := ⟨s * a.x, s * a.y, s * a.z⟩
def V3.get (a : V3) : Nat → Rat
  | 0 => a.x | 1 => a.y | _ => a.z
def V3.set (a : V3) (c : Nat) (v : Rat) : V3 :=
  match c with
  | 0 => { a with x := v } | 1 => { a with y := v } | _ => { a with z := v }

/-- 3×3 matrix, row-major -/
structure M3 where
  r1 : V3
  r2 : V3
  r3 : V3
  deriving DecidableEq, Repr, Inhabited

def V3.dot (a b : V3) : Rat := a.x * b.x + a.y * b.y + a.z * b.z
def M3.apply (m : M3) (v : V3) : V3 := ⟨m.r1.dot v, m.r2.dot v, m.r3.dot v⟩
def M3.transpose (m : M3) : M3 :=
  ⟨⟨m.r1.x, m.r2.x, m.r3.x⟩, ⟨m.r1.y, m.r2.y, m.r3.y⟩, ⟨m.r1.z, m.r2.z, m.r3.z⟩⟩

abbrev Heap := List V3

structure Mesh where
  verts : List Nat
  edges : List (List Nat)
  faces : List (List Nat)
  cells : List (List Nat)
  deriving DecidableEq, Repr, Inhabited

structure State where
  heap : Heap
  meshes : List Mesh
  deriving Inhabited

def init : State := { heap := [], meshes := [] }

def deref (h : Heap) (r : Nat) : V3 := h.getD r V3.zero
def coords (h : Heap) (m : Mesh) : List V3 := m.verts.map (deref h)

/-- class of the mesh: 3 volume, 2 surface, 1 polyline, 0 point cloud -/
def Mesh.dim (m : Mesh) : Nat :=
  if m.cells ≠ [] then 3 else if m.faces ≠ [] then 2 else if m.edges ≠ [] then 1 else 0

/-- fresh cells for the given vectors -/
def alloc (h : Heap) (vs : List V3) : Heap × List Nat := (h ++ vs, List.range' h.length vs.length)

def newMesh (s : State) (vs : List V3) (e f c : List (List Nat)) : State :=
  let (h, refs) := alloc s.heap vs
  { heap := h, meshes := s.meshes ++ [{ verts := refs, edges := e, faces := f, cells := c }] }

/-- `copy(mesh)`: deepcopy of the vertex data and of the element lists -/
def copyMesh (s : State) (i : Nat) : State :=
  match s.meshes[i]? with
  | none => s
  | some m => newMesh s (coords s.heap m) m.edges m.faces m.cells

def shift (k : Nat) (l : List (List Nat)) : List (List Nat) := l.map (fun e => e.map (· + k))

/-- accumulator of the `merge` loop: running vertex offset, vertex payload, elements -/
structure MergeAcc (α : Type) where
  offset : Nat
  verts : List α
  edges : List (List Nat)
  faces : List (List Nat)
  cells : List (List Nat)

def mergeStep {α : Type} (payload : Mesh → List α) (acc : MergeAcc α) (m : Mesh) : MergeAcc α :=
  { offset := acc.offset + m.verts.length,
    verts := acc.verts ++ payload m,
    edges := acc.edges ++ shift acc.offset m.edges,
    faces := acc.faces ++ shift acc.offset m.faces,
    cells := acc.cells ++ shift acc.offset m.cells }

def mergeLoop {α : Type} (payload : Mesh → List α) (ms : List Mesh) : MergeAcc α :=
  ms.foldl (mergeStep payload) { offset := 0, verts := [], edges := [], faces := [], cells := [] }

def lookupAll (meshes : List Mesh) (ids : List Nat) : Option (List Mesh) := ids.mapM (fun i => meshes[i]?)

/-- `merge(mesh_list)` (repaired): the coordinates of the inputs are COPIED into fresh cells -/
def mergeMeshes (s : State) (ids : List Nat) : State :=
  match lookupAll s.meshes ids with
  | none => s
  | some ms =>
    let acc := mergeLoop (coords s.heap) ms
    newMesh s acc.verts acc.edges acc.faces acc.cells

/-- `merge` as it was written (`merged.vertices += m.vertices`, then `Vec(x)` views): the merged mesh lists the
REFERENCES of its inputs -/
def legacyMerge (s : State) (ids : List Nat) : State :=
  match lookupAll s.meshes ids with
  | none => s
  | some ms =>
    let acc := mergeLoop (fun m => m.verts) ms
    { s with meshes := s.meshes ++ [{ verts := acc.verts, edges := acc.edges, faces := acc.faces, cells := acc.cells }] }

def setMesh (s : State) (i : Nat) (m : Mesh) : State := { s with meshes := s.meshes.set i m }

/-- `for i: mesh.vertices[i] = f(mesh.vertices[i])` — rebinding loop: fresh cells, nobody else sees the change -/
def mapRebind (f : V3 → V3) (s : State) (i : Nat) : State :=
  match s.meshes[i]? with
  | none => s
  | some m =>
    let (h, refs) := alloc s.heap ((coords s.heap m).map f)
    { heap := h, meshes := s.meshes.set i { m with verts := refs } }

/-- `for i: <in-place update of mesh.vertices[i]>` in list order: a reference listed twice is updated twice, and every
mesh listing it sees the change -/
def mapInPlace (f : V3 → V3) (s : State) (i : Nat) : State :=
  match s.meshes[i]? with
  | none => s
  | some m => { s with heap := m.verts.foldl (fun h r => h.set r (f (deref h r))) s.heap }

def translate (t : V3) : State → Nat → State := mapRebind (fun p => p.add t)
def legacyTranslate (t : V3) : State → Nat → State := mapInPlace (fun p => p.add t)

def scaleMap (k : Rat) (o : V3) (p : V3) : V3 := o.add (V3.smul k (p.sub o))
def scale (k : Rat) (o : V3) : State → Nat → State := mapRebind (scaleMap k o)

def scaleXyzMap (fx fy fz : Rat) (o : V3) (p : V3) : V3 :=
  o.add ⟨fx * (p.x - o.x), fy * (p.y - o.y), fz * (p.z - o.z)⟩
def scaleXyz (fx fy fz : Rat) (o : V3) : State → Nat → State := mapRebind (scaleXyzMap fx fy fz o)

def rotateMap (r : M3) (o : V3) (p : V3) : V3 := o.add (r.apply (p.sub o))
def rotate (r : M3) (o : V3) : State → Nat → State := mapRebind (rotateMap r o)

/-- `flatten` (repaired): rebinds every vertex to a copy with component `dim` set to 0 (it used to assign into the stored vector:
`legacyFlatten`, which also flattened every mesh sharing that vector) -/
def flatten (dim : Nat) : State → Nat → State := mapRebind (fun p => p.set dim 0)
def legacyFlatten (dim : Nat) : State → Nat → State := mapInPlace (fun p => p.set dim 0)

/-- `mesh.vertices[v][c] = x` -/
def editVertex (s : State) (i v c : Nat) (x : Rat) : State :=
  match s.meshes[i]? with
  | none => s
  | some m =>
    match m.verts[v]? with
    | none => s
    | some r => { s with heap := s.heap.set r ((deref s.heap r).set c x) }

/-! bounding box, barycentre -/
def minL : List Rat → Rat
  | [] => 0
  | a :: t => t.foldl min a
def maxL : List Rat → Rat
  | [] => 0
  | a :: t => t.foldl max a

def bbMin (cs : List V3) : V3 := ⟨minL (cs.map (·.x)), minL (cs.map (·.y)), minL (cs.map (·.z))⟩
def bbMax (cs : List V3) : V3 := ⟨maxL (cs.map (·.x)), maxL (cs.map (·.y)), maxL (cs.map (·.z))⟩
def span (cs : List V3) : V3 := (bbMax cs).sub (bbMin cs)
def maxSpan (cs : List V3) : Rat := max (max (span cs).x (span cs).y) (span cs).z
def center (cs : List V3) : V3 := V3.smul (1/2) ((bbMin cs).add (bbMax cs))
def sumV (cs : List V3) : V3 := cs.foldl V3.add V3.zero
def barycenter (cs : List V3) : V3 := V3.smul (1 / (cs.length : Rat)) (sumV cs)

/-- `normalize(mesh, center_at_zero)` = `scale(translate(mesh, -c), k)` with the box of the INPUT -/
def normalize (centered : Bool) (s : State) (i : Nat) : State :=
  match s.meshes[i]? with
  | none => s
  | some m =>
    let cs := coords s.heap m
    let sc := 1 / maxSpan cs
    if centered then scale (2 * sc) V3.zero (translate (center cs).neg s i) i
    else scale sc V3.zero (translate (bbMin cs).neg s i) i

def translateToOrigin (s : State) (i : Nat) : State :=
  match s.meshes[i]? with
  | none => s
  | some m => translate (barycenter (coords s.heap m)).neg s i

inductive Op where
  | new (vs : List V3) (e f c : List (List Nat))
  | copy (i : Nat)
  | merge (ids : List Nat)
  | translate (i : Nat) (t : V3)
  | scale (i : Nat) (k : Rat) (o : Option V3)
  | scaleXyz (i : Nat) (fx fy fz : Rat) (o : Option V3)
  | rotate (i : Nat) (r : M3) (o : Option V3)
  | flatten (i : Nat) (dim : Nat)
  | normalize (i : Nat) (centered : Bool)
  | toOrigin (i : Nat)
  | edit (i v c : Nat) (x : Rat)

def step (s : State) : Op → State
  | .new vs e f c => newMesh s vs e f c
  | .copy i => copyMesh s i
  | .merge ids => mergeMeshes s ids
  | .translate i t => translate t s i
  | .scale i k o => scale k (o.getD V3.zero) s i
  | .scaleXyz i fx fy fz o =>
    -- default origin: `mesh.vertices[0]` (the object bound before the loop)
    let o' := match o with
      | some v => v
      | none => match s.meshes[i]? with
        | some m => (coords s.heap m).getD 0 V3.zero
        | none => V3.zero
    scaleXyz fx fy fz o' s i
  | .rotate i r o => rotate r (o.getD V3.zero) s i
  | .flatten i d => flatten d s i
  | .normalize i c => normalize c s i
  | .toOrigin i => translateToOrigin s i
  | .edit i v c x => editVertex s i v c x

def run (s : State) (ops : List Op) : State := ops.foldl step s

end Mouette.MeshHeap
