import Mouette.Model.Surface
/-!
Specification vocabulary for the rotational order of the corners around a vertex (C01 `ring_sorted`,
C15 `border_cycle_correct`).  Core Lean only.  Nothing here is used by the drivers' answers.

`stepB c = opposite(previous c)` and `stepF c = next(opposite c)` are the two moves of
`_sort_vertex_neighborhoods`; both stay at the same vertex.  The *umbrella condition* at a vertex says
that the graph of `stepB` on the corners of the vertex is one path (border vertex) or one cycle
(interior vertex); it is stated by exhibiting the path/cycle as a list `ring`.
-/
namespace Mouette.Surface

def stepB (S : Surf) (c : Nat) : Option Nat := (previousCorner S c).bind (oppositeCorner S)
def stepF (S : Surf) (c : Nat) : Option Nat := (oppositeCorner S c).bind (nextCorner S)

/-- the vertex a corner points to: the end of its half-edge (`corner_to_half_edge(c)[1]`) -/
def spoke (S : Surf) (c : Nat) : Nat := ((cornerToHalfEdge S c).map (·.2)).getD 0

/-- `ring` lists the corners of `v` once each, and going one position down the list is `stepB`,
    one position up is `stepF` -/
structure RingChain (S : Surf) (v : Nat) (ring : List Nat) : Prop where
  perm : ring.Perm (cornersAt S v)
  nodup : ring.Nodup
  back : ∀ j (h : j + 1 < ring.length), stepB S ring[j+1] = some ring[j]
  fwd : ∀ j (h : j + 1 < ring.length), stepF S ring[j] = some ring[j+1]

/-- border vertex: the path starts at the corner whose previous side is a border side and ends at
    the corner whose own side is a border side -/
structure RingOpen (S : Surf) (v : Nat) (ring : List Nat) : Prop extends RingChain S v ring where
  first : ∀ (h : 0 < ring.length), stepB S ring[0] = none
  last : ∀ (h : 0 < ring.length), stepF S ring[ring.length - 1] = none

/-- interior vertex: the path closes up -/
structure RingClosed (S : Surf) (v : Nat) (ring : List Nat) : Prop extends RingChain S v ring where
  close : ∀ (h : 0 < ring.length), stepB S ring[0] = some ring[ring.length - 1]

/-- what `ring_sorted` asserts of a list `L` returned for vertex `v`: a permutation of the corners at
`v` in rotational order (`stepB L[j+1] = L[j]`), which for a border vertex starts at the border corner
and ends at the other border side, and for an interior vertex is cyclic -/
structure SortedRing (S : Surf) (v : Nat) (L : List Nat) : Prop where
  perm : L.Perm (cornersAt S v)
  chain : ∀ j (hj : j + 1 < L.length), stepB S L[j+1] = some L[j]
  ends : (∀ h0 : 0 < L.length, stepB S L[0] = none ∧ stepF S L[L.length - 1] = none) ∨
         (∀ j (hj : j < L.length), stepB S (L[(j + 1) % L.length]'(Nat.mod_lt _ (by omega))) = some L[j])

/-! decidable checkers (evaluated by the C01 driver on every generated input, with the ring the
model itself produces as the witness) -/

def chainB (S : Surf) (ring : List Nat) : Bool :=
  (List.range (ring.length - 1)).all fun j =>
    stepB S (ring.getD (j+1) 0) == some (ring.getD j 0) && stepF S (ring.getD j 0) == some (ring.getD (j+1) 0)

def ringOpenB (S : Surf) (v : Nat) (ring : List Nat) : Bool :=
  decide (ring.Perm (cornersAt S v)) && decide ring.Nodup && chainB S ring &&
    (ring.isEmpty || (stepB S (ring.getD 0 0) == none && stepF S (ring.getD (ring.length - 1) 0) == none))

def ringClosedB (S : Surf) (v : Nat) (ring : List Nat) : Bool :=
  decide (ring.Perm (cornersAt S v)) && decide ring.Nodup && chainB S ring &&
    (ring.isEmpty || stepB S (ring.getD 0 0) == some (ring.getD (ring.length - 1) 0))

/-- the umbrella condition at `v`, witnessed by the ring the model computes -/
def umbrellaB (S : Surf) (v : Nat) : Bool :=
  ringOpenB S v (vertexToCorners S v) || ringClosedB S v (vertexToCorners S v)

end Mouette.Surface
