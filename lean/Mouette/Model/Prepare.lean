/-
Executable model of mesh construction (C02): `RawMeshData.prepare` and its stages
(mouette/mesh/mesh_data.py), `_instanciate_raw_mesh_data` / `from_arrays` (mouette/mesh/mesh.py),
`Mesh.__init__` (datatypes/base.py) and the re-wrap `RawMeshData(mesh)`.

Core Lean only. Conventions
  * vertex rows are `List Rat`; declared edges are pairs of `Int` (they may be negative / out of range
    before `prepareEdges`); faces and cells are `List Nat`;
  * Python `set`s of keys are modelled by membership in the list of keys of what has been stored so far
    (`completeBy`: the code keeps `seen = {key x | x stored}` as an invariant);
  * the `dict` `face_id` (last write wins) is `lastIdx`;
  * edge attributes hold one `Int` per element, sparse (`dict`, keys unique) or dense (array).
The model follows the code as repaired by the `fix:` commits listed in known_findings.d/C02.json.
-/
namespace Mouette.Prepare

/-! ### keys (`utils.keyify`) -/

def keyE (e : Int × Int) : Int × Int := (min e.1 e.2, max e.1 e.2)

def insertNat (a : Nat) : List Nat → List Nat
  | [] => [a]
  | b :: l => if a ≤ b then a :: b :: l else b :: insertNat a l

/-- `keyify(face)`: the sorted tuple of the vertices (insertion sort: structural, so the kernel can evaluate it) -/
def keyF (f : List Nat) : List Nat := f.foldr insertNat []

/-! ### completion through a key set -/

/-- `for c in cands: if key(c) not in seen: seen.add(key(c)); store.append(c)` with
`seen = set(key(x) for x in store)` initially. -/
def completeBy {α κ : Type} [DecidableEq κ] (key : α → κ) (acc : List α) : List α → List α
  | [] => acc
  | c :: cs => if key c ∈ acc.map key then completeBy key acc cs else completeBy key (acc ++ [c]) cs

/-! ### cell face tables (normal form; `Generated.C02` holds what the source says, bridged in Props) -/

def tetFaces : List (List Nat) := [[1, 3, 2], [0, 2, 3], [3, 1, 0], [0, 1, 2]]
def hexFaces : List (List Nat) :=
  [[0, 1, 2, 3], [4, 5, 6, 7], [0, 3, 7, 4], [0, 1, 5, 4], [1, 2, 6, 5], [2, 3, 7, 6]]

def pick (c : List Nat) (table : List (List Nat)) : List (List Nat) :=
  table.map (fun row => row.map (fun i => c.getD i 0))

/-- faces of a cell in `_complete_faces_from_cells` (an unknown arity contributes nothing there) -/
def cellFacesC (c : List Nat) : List (List Nat) :=
  if c.length = 8 then pick c hexFaces else if c.length = 4 then pick c tetFaces else []

/-- faces of a cell in `_generate_cell_faces` (an unknown arity is an error there) -/
def cellFacesG (c : List Nat) : Option (List (List Nat)) :=
  if c.length = 4 then some (pick c tetFaces) else if c.length = 8 then some (pick c hexFaces) else none

/-! ### attributes -/

inductive Storage where
  | sparse (d : List (Nat × Int))
  | dense (vals : List Int)
  deriving Repr, DecidableEq, Inhabited

structure Attr where
  name : String
  dflt : Int
  st : Storage
  deriving Repr, DecidableEq, Inhabited

def lookup (d : List (Nat × Int)) (k : Nat) : Option Int :=
  match d with
  | [] => none
  | (k', v) :: r => if k' = k then some v else lookup r k

def Attr.read (a : Attr) (k : Nat) : Int :=
  match a.st with
  | .sparse d => (lookup d k).getD a.dflt
  | .dense vals => vals.getD k a.dflt

def Attr.hasKey (a : Attr) (k : Nat) : Bool :=
  match a.st with
  | .sparse d => (lookup d k).isSome
  | .dense vals => decide (k < vals.length)

/-! ### the raw container -/

structure Raw where
  verts : List (List Rat) := []
  edges : List (Int × Int) := []
  eattrs : List Attr := []
  faces : List (List Nat) := []
  fcElem : List Nat := []
  fcAdj : List Nat := []
  cells : List (List Nat) := []
  ccElem : List Nat := []
  ccAdj : List Nat := []
  cfElem : List Nat := []
  cfAdj : List Nat := []
  prepared : Bool := false
  deriving Repr, DecidableEq, Inhabited

structure Cfg where
  ce : Bool := true      -- config.complete_edges_from_faces
  cf : Bool := true      -- config.complete_faces_from_cells
  deriving Repr, DecidableEq

/-! ### stage: faces from cells -/

def completeFaces (r : Raw) : Raw :=
  if r.cells.isEmpty then r
  else { r with faces := completeBy keyF r.faces (r.cells.flatMap cellFacesC) }

/-! ### stage: edges from faces (+ hard_edges flag) -/

def sideAt (f : List Nat) (i : Nat) : Int × Int :=
  keyE ((f.getD i 0 : Nat), (f.getD ((i + 1) % f.length) 0 : Nat))

def faceSides (f : List Nat) : List (Int × Int) := (List.range f.length).map (sideAt f)

def hardName : String := "hard_edges"

def hasAttr (as : List Attr) (n : String) : Bool := as.any (fun a => a.name == n)

/-- `DataContainer.append` expands dense attributes with their default value -/
def expandAttr (k : Nat) (a : Attr) : Attr :=
  match a.st with
  | .dense v => { a with st := .dense (v ++ List.replicate k a.dflt) }
  | .sparse _ => a

def hardAttr (n : Nat) : Attr :=
  { name := hardName, dflt := 0, st := .sparse ((List.range n).map (fun i => (i, 1))) }

/-- `is_valid(a, b)` with `N = len(self.vertices)` -/
def validE (n : Nat) (e : Int × Int) : Bool :=
  e.1 != e.2 && decide (0 ≤ e.1) && decide (e.1 < (n : Int)) && decide (0 ≤ e.2) && decide (e.2 < (n : Int))

/-- the sides of the faces that are edges: sides of degenerate faces (repeated vertex, non-existent vertex) are skipped
by the completion (repaired code) -/
def validSides (n : Nat) (faces : List (List Nat)) : List (Int × Int) :=
  (faces.flatMap faceSides).filter (validE n)

def completeEdges (r : Raw) : Raw :=
  if r.faces.isEmpty then r
  else
    { r with
      edges := completeBy keyE r.edges (validSides r.verts.length r.faces),
      eattrs := (if hasAttr r.eattrs hardName then r.eattrs else r.eattrs ++ [hardAttr r.edges.length]).map
        (expandAttr ((completeBy keyE r.edges (validSides r.verts.length r.faces)).length - r.edges.length)) }

/-! ### stage: vertices -/

def padVertex (v : List Rat) : List Rat := if v.length < 3 then v ++ List.replicate (3 - v.length) 0 else v

def prepareVertices (r : Raw) : Raw := { r with verts := r.verts.map padVertex }

/-! ### stage: edge validity filter with attribute re-indexing -/


/-- indices (counted from `i`) of the valid edges, in order -/
def survIdx (n : Nat) : List (Int × Int) → Nat → List Nat
  | [], _ => []
  | e :: es, i => if validE n e then i :: survIdx n es (i + 1) else survIdx n es (i + 1)

/-- `new[k] = old[i]` for the `k`-th survivor `i`, only where `i in old` ("keep sparsity") -/
def reindexSparse (d : List (Nat × Int)) : List Nat → Nat → List (Nat × Int)
  | [], _ => []
  | i :: rest, k =>
    match lookup d i with
    | some v => (k, v) :: reindexSparse d rest (k + 1)
    | none => reindexSparse d rest (k + 1)

def reindexAttr (surv : List Nat) (a : Attr) : Attr :=
  match a.st with
  | .sparse d => { a with st := .sparse (reindexSparse d surv 0) }
  | .dense vals => { a with st := .dense (surv.map (fun i => vals.getD i a.dflt)) }

def prepareEdges (r : Raw) : Raw :=
  if r.edges.any (fun e => !validE r.verts.length e) then
    { r with edges := (r.edges.filter (validE r.verts.length)).map keyE,
             eattrs := r.eattrs.map (reindexAttr (survIdx r.verts.length r.edges 0)) }
  else { r with edges := r.edges.map keyE }

/-! ### stage: corner records -/

/-- owner list: element `i` repeated once per entry of row `i` -/
def ownersFrom : List (List Nat) → Nat → List Nat
  | [], _ => []
  | row :: rows, i => List.replicate row.length i ++ ownersFrom rows (i + 1)

def owners (rows : List (List Nat)) : List Nat := ownersFrom rows 0

def genFaceCorners (r : Raw) : Raw :=
  if r.fcElem.length = 0 ∨ r.fcElem.length ≠ (r.faces.map List.length).sum then
    { r with fcElem := r.faces.flatten, fcAdj := owners r.faces }
  else r

def genCellCorners (r : Raw) : Raw :=
  if r.ccElem.length = 0 ∨ r.ccAdj.length = 0 ∨ r.ccElem.length ≠ (r.cells.map List.length).sum
      ∨ r.ccAdj.length ≠ (r.cells.map List.length).sum then
    if r.ccAdj.length = 0 ∧ r.ccElem.length > 0 then
      -- "build only adjacency" as written in the code (it extends `_elem`); not reachable from prepare's own output
      { r with ccAdj := [], ccElem := r.ccElem ++ owners r.cells }
    else { r with ccElem := r.cells.flatten, ccAdj := owners r.cells }
  else r

/-- `face_id[key] = iF` for every face in order: the last index carrying the key -/
def lastIdx {κ : Type} [DecidableEq κ] (k : κ) : List κ → Nat → Option Nat
  | [], _ => none
  | x :: xs, i =>
    match lastIdx k xs (i + 1) with
    | some j => some j
    | none => if x = k then some i else none

/-- ids of the stored faces carrying the vertex sets of `fs`, in order; a face that is not stored (face completion
switched off) has no incidence to record and is skipped (`face_id.get(key) is None: continue`) -/
def idsOf (keys : List (List Nat)) (fs : List (List Nat)) : List Nat :=
  fs.filterMap (fun f => lastIdx (keyF f) keys 0)

def cellFaceIds (keys : List (List Nat)) : List (List Nat) → Except String (List (List Nat))
  | [] => .ok []
  | c :: cs =>
    match cellFacesG c with
    | none => .error "err:Other(UnboundLocalError)"
    | some fs =>
      match cellFaceIds keys cs with
      | .ok l => .ok (idsOf keys fs :: l)
      | .error e => .error e

/-- cell-face records are derived data: always rebuilt (repaired code) -/
def genCellFaces (r : Raw) : Except String Raw :=
  match cellFaceIds (r.faces.map keyF) r.cells with
  | .ok ids => .ok { r with cfElem := ids.flatten, cfAdj := owners ids }
  | .error e => .error e

/-! ### prepare -/

def dimensionality (r : Raw) : Nat :=
  if !r.cells.isEmpty then 3 else if !r.faces.isEmpty then 2 else if !r.edges.isEmpty then 1 else 0

/-- the record after the two completion stages -/
def completed (cfg : Cfg) (r : Raw) : Raw :=
  if cfg.ce then completeEdges (if cfg.cf then completeFaces r else r) else (if cfg.cf then completeFaces r else r)

def stages (cfg : Cfg) (r : Raw) : Raw :=
  genCellCorners (genFaceCorners (prepareEdges (prepareVertices (completed cfg r))))

def prepare (cfg : Cfg) (r : Raw) : Except String Raw :=
  if r.prepared then .ok r
  else
    match genCellFaces (stages cfg r) with
    | .ok r' => .ok { r' with prepared := true }
    | .error e => .error e

/-! ### typed meshes -/

/-- a built mesh: the class (0 PointCloud … 3 VolumeMesh) and the prepared data it shares -/
structure Built where
  dim : Nat
  raw : Raw
  deriving Repr, DecidableEq

/-- `_instanciate_raw_mesh_data(data, dim)` -/
def instantiate (cfg : Cfg) (r : Raw) (dim : Option Nat) : Except String Built :=
  match prepare cfg r with
  | .ok p => .ok ⟨max (dim.getD 0) (dimensionality p), p⟩
  | .error e => .error e

/-- `PointCloud(data)` … `VolumeMesh(data)` -/
def direct (cfg : Cfg) (r : Raw) (k : Nat) : Except String Built :=
  match prepare cfg r with
  | .ok p => .ok ⟨k, p⟩
  | .error e => .error e

/-- `RawMeshData(mesh)`: the containers the mesh object has, fresh ones otherwise; `_prepared` is lost -/
def rewrap (b : Built) : Raw :=
  let r := b.raw
  { verts := r.verts,
    edges := if 1 ≤ b.dim then r.edges else [],
    eattrs := if 1 ≤ b.dim then r.eattrs else [],
    faces := if 2 ≤ b.dim then r.faces else [],
    fcElem := if 2 ≤ b.dim then r.fcElem else [],
    fcAdj := if 2 ≤ b.dim then r.fcAdj else [],
    cells := if 3 ≤ b.dim then r.cells else [],
    ccElem := if 3 ≤ b.dim then r.ccElem else [],
    ccAdj := if 3 ≤ b.dim then r.ccAdj else [],
    cfElem := if 3 ≤ b.dim then r.cfElem else [],
    cfAdj := if 3 ≤ b.dim then r.cfAdj else [],
    prepared := false }

/-- `from_arrays(V, E, F, C, raw=True)`: 2-D padding and the `>= n_vert` range checks -/
def fromArrays (verts : List (List Rat)) (es : List (Int × Int)) (fs cs : List (List Nat)) : Except String Raw :=
  let n := verts.length
  if verts.any (fun v => v.length > 3) then .error "err:Other(Exception)"
  else if es.any (fun e => decide ((n : Int) ≤ e.1) || decide ((n : Int) ≤ e.2)) then .error "err:Other(Exception)"
  else if fs.any (fun f => f.any (fun v => decide (n ≤ v))) then .error "err:Other(Exception)"
  else if cs.any (fun c => c.any (fun v => decide (n ≤ v))) then .error "err:Other(Exception)"
  else .ok { verts := verts.map padVertex, edges := es, faces := fs, cells := cs }

end Mouette.Prepare
