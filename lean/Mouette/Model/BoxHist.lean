import Mouette.Model.AABB
/-
Heap model of the side effects observable through `AABB` and `Vec.normalized` (core Lean only).

* the heap is a list of arrays (`ref` = position); the caller's arrays are the first `ncaller` entries;
* a box is a pair of refs (`_p1`, `_p2`).  `mkWrap` is the constructor of the pinned tree (`Vec(p_min)` is a VIEW of
  the caller's array: the box points INTO the caller's arrays); `mkCopy` is the repaired constructor (fresh arrays);
* `pad` updates the two arrays of its box in place (`self._p1 -= pad; self._p2 += pad`);
* every other operation allocates its result (`np.maximum`, `np.minimum`, `np.min`, …) and reads only;
* `numpy.geterr()` is a 4-tuple of modes; `normalizedOriginal` is the `np.seterr(all='raise') … np.seterr(all='warn')`
  sequence of the pinned tree, `normalizedRepaired` the `with np.errstate(all='raise')` block.
-/
namespace Mouette.BoxHist
open Mouette.AABB Mouette.AABB.EQ

/-! ### numpy's floating-point error state -/

inductive Mode where
  | ignore | warn | raise
deriving DecidableEq, Repr

/-- (divide, over, under, invalid) -/
structure Err where
  divide : Mode
  over : Mode
  under : Mode
  invalid : Mode
deriving DecidableEq, Repr

def Err.default : Err := ⟨.warn, .warn, .ignore, .warn⟩
def Err.all (m : Mode) : Err := ⟨m, m, m, m⟩

/-- is the vector exactly zero (the only way `vec/nrm` raises on finite, non-tiny input) -/
def isZero (v : List Rat) : Bool := !v.isEmpty && v.all (· == 0)

/-- pinned tree: `seterr(all='raise')`; divide (raises on the zero vector, the state stays `raise`); `seterr(all='warn')`.
Returns the new error state and whether the call returned (`true`) or raised (`false`). -/
def normalizedOriginal (_e : Err) (v : List Rat) : Err × Bool :=
  if isZero v then (Err.all .raise, false) else (Err.all .warn, true)

/-- repaired: `with np.errstate(all='raise'): out = Vec(vec/nrm)` restores the caller's state on both paths -/
def normalizedRepaired (e : Err) (v : List Rat) : Err × Bool :=
  if isZero v then (e, false) else (e, true)

/-! ### heap, boxes -/

abbrev Heap := List (List EQ)

structure BoxRef where
  lo : Nat
  hi : Nat
deriving DecidableEq, Repr

structure State where
  heap : Heap
  boxes : List BoxRef
  err : Err
deriving Repr

def State.get (s : State) (r : Nat) : List EQ := s.heap.getD r []

def State.box (s : State) (b : BoxRef) : Box := ⟨s.get b.lo, s.get b.hi⟩

/-- allocate two fresh arrays and register the box that owns them -/
def State.allocBox (s : State) (bx : Box) : State :=
  { s with heap := s.heap ++ [bx.lo, bx.hi], boxes := s.boxes ++ [⟨s.heap.length, s.heap.length + 1⟩] }

/-- repaired constructor `AABB(p1, p2)`: copies -/
def mkCopy (s : State) (i j : Nat) : Option State :=
  if (s.get i).length = (s.get j).length then some (s.allocBox ⟨s.get i, s.get j⟩) else none

/-- constructor of the pinned tree: the box refers to the caller's arrays -/
def mkWrap (s : State) (i j : Nat) : Option State :=
  if (s.get i).length = (s.get j).length then some { s with boxes := s.boxes ++ [⟨i, j⟩] } else none

/-- `b.pad(p)`: in-place update of the two arrays of `b`, one after the other
(`self._p1 -= pad` then `self._p2 += pad`, each reading the CURRENT heap) -/
def padAt (s : State) (b : BoxRef) (p : List Rat) : Option State :=
  if p.length = (s.box b).dim then
    let p0 := p.map (fun x => Box.rmax x 0)
    let h1 := s.heap.set b.lo (List.zipWith (fun l x => l.addR (-x)) (s.heap.getD b.lo []) p0)
    let h2 := h1.set b.hi (List.zipWith (fun h x => h.addR x) (h1.getD b.hi []) p0)
    some { s with heap := h2 }
  else none

inductive Op where
  | mk (i j : Nat)
  | inf (d : Nat)
  | cube (d : Nat) (centered : Bool)
  | ofp (is : List Nat) (pad : Rat)
  | inter (a b : Nat)
  | union (a b : Nat)
  | doint (a b : Nat)
  | padf (b : Nat) (x : Rat)
  | padv (b : Nat) (i : Nat)
  | contains (b i : Nat)
  | project (b i : Nat)
  | dist (b i : Nat) (which : String)
  | empty (b : Nat)
  | center (b : Nat)
  | span (b : Nat)
  | get (b : Nat)
  | nrm (i : Nat)
deriving Repr

/-- finite part of a caller array (caller arrays are finite) -/
def ratsOf (l : List EQ) : List Rat := l.map Box.toRat

/-- box argument `b` of an operation: the `b mod #boxes`-th box created so far -/
def State.boxArg (s : State) (b : Nat) : Option BoxRef :=
  if s.boxes.length = 0 then none else s.boxes[b % s.boxes.length]?

inductive Res where
  | nobox
  | unit
  | errSize
  | errValue
  | errFloat
  | undef
  | bool (b : Bool)
  | box (b : Box)
  | vec (v : List EQ)
  | val (v : EQ)
  | sq (v : EQ)
deriving Repr

/-- one operation with constructor `mkc` (`mkCopy` = repaired, `mkWrap` = pinned) and `normalized` rule `nz` -/
def stepWith (mkc : State → Nat → Nat → Option State) (nz : Err → List Rat → Err × Bool)
    (s : State) : Op → State × Res
  | .mk i j => match mkc s i j with
      | some s' => (s', .box ⟨s.get i, s.get j⟩)
      | none => (s, .errSize)
  | .inf d => (s.allocBox (Box.infinite d), .box (Box.infinite d))
  | .cube d c =>
      let bx : Box := if c then Box.finBox (List.replicate d (-1/2)) (List.replicate d (1/2))
                      else Box.finBox (List.replicate d 0) (List.replicate d 1)
      (s.allocBox bx, .box bx)
  | .ofp is pad => match Box.ofPoints (is.map (fun i => ratsOf (s.get i))) pad with
      | some bx => (s.allocBox bx, .box bx)
      | none => (s, .errValue)
  | .inter a b => match s.boxArg a, s.boxArg b with
      | some ra, some rb => match Box.inter (s.box ra) (s.box rb) with
          | some bx => (s.allocBox bx, .box bx)
          | none => (s, .errSize)
      | _, _ => (s, .nobox)
  | .union a b => match s.boxArg a, s.boxArg b with
      | some ra, some rb => match Box.union (s.box ra) (s.box rb) with
          | some bx => (s.allocBox bx, .box bx)
          | none => (s, .errSize)
      | _, _ => (s, .nobox)
  | .doint a b => match s.boxArg a, s.boxArg b with
      | some ra, some rb => match Box.doIntersect (s.box ra) (s.box rb) with
          | some r => (s, .bool r)
          | none => (s, .errSize)
      | _, _ => (s, .nobox)
  | .padf b x => match s.boxArg b with
      | some rb => match padAt s rb (List.replicate (s.box rb).dim x) with
          | some s' => (s', .unit)
          | none => (s, .errSize)
      | none => (s, .nobox)
  | .padv b i => match s.boxArg b with
      | some rb => match padAt s rb (ratsOf (s.get i)) with
          | some s' => (s', .unit)
          | none => (s, .errSize)
      | none => (s, .nobox)
  | .contains b i => match s.boxArg b with
      | some rb => match (s.box rb).contains (ratsOf (s.get i)) with
          | some r => (s, .bool r)
          | none => (s, .errSize)
      | none => (s, .nobox)
  | .project b i => match s.boxArg b with
      | some rb => match (s.box rb).project (ratsOf (s.get i)) with
          | some v => (s, .vec v)
          | none => (s, .errSize)
      | none => (s, .nobox)
  | .dist b i which => match s.boxArg b with
      | some rb => match (s.box rb).distance (ratsOf (s.get i)) which with
          | some v => (s, if which = "l2" then .sq v else .val v)
          | none => (s, .errSize)
      | none => (s, .nobox)
  | .empty b => match s.boxArg b with
      | some rb => (s, .bool (s.box rb).isEmpty)
      | none => (s, .nobox)
  | .center b => match s.boxArg b with
      | some rb => match (s.box rb).center with
          | some v => (s, .vec (v.map fin))
          | none => (s, .undef)
      | none => (s, .nobox)
  | .span b => match s.boxArg b with
      | some rb => match (s.box rb).span with
          | some v => (s, .vec (v.map fin))
          | none => (s, .undef)
      | none => (s, .nobox)
  | .get b => match s.boxArg b with
      | some rb => (s, .box (s.box rb))
      | none => (s, .nobox)
  | .nrm i =>
      let r := nz s.err (ratsOf (s.get i))
      ({ s with err := r.1 }, if r.2 then .unit else .errFloat)

/-- the repaired code -/
def step := stepWith mkCopy normalizedRepaired
/-- the pinned tree -/
def stepOriginal := stepWith mkWrap normalizedOriginal

def init (arrs : List (List Rat)) : State := ⟨arrs.map (·.map fin), [], Err.default⟩

/-- run a history; returns the final state and, after every operation, (result, caller arrays, error state) -/
def runWith (stp : State → Op → State × Res) (ncaller : Nat) : State → List Op → State × List (Res × Heap × Err)
  | s, [] => (s, [])
  | s, op :: ops =>
    let r := stp s op
    let rest := runWith stp ncaller r.1 ops
    (rest.1, (r.2, r.1.heap.take ncaller, r.1.err) :: rest.2)

end Mouette.BoxHist
