import Mouette.Model.FrameField
/-
C18, round 3 — histories on one frame-field object / one mesh (core Lean only, added beside the other models):
 * the `run()` state machine of `base.py` (`initialized` / `smoothed` flags),
 * re-use of a mesh attribute by `flag_singularities` (cleared or not before it is filled again),
 * `_compute_attach_weight` after the eigenvalues were obtained (`eigsh` itself is not modelled).
-/
namespace Mouette.FFH
open Mouette.FF

/-! ## `run()` -/
structure St (α : Type) where
  initialized : Bool
  smoothed : Bool
  data : α

def fresh {α : Type} (d : α) : St α := { initialized := false, smoothed := false, data := d }

/-- `initialize()` of a concrete class: recompute, and set the flag iff the source does (`setsFlag`) -/
def initializeStep {α : Type} (setsFlag : Bool) (init : α → α) (s : St α) : St α :=
  { s with data := init s.data, initialized := s.initialized || setsFlag }

/-- `FrameField.run`: `if not initialized: initialize(); initialized = True`, `if not smoothed: optimize(); smoothed = True` -/
def run {α : Type} (init opt : α → α) (s : St α) : St α :=
  let s1 : St α := if s.initialized then s else { s with data := init s.data, initialized := true }
  if s1.smoothed then s1 else { s1 with data := opt s1.data, smoothed := true }

/-! ## attributes re-used by `flag_singularities` -/
/-- a sparse mesh attribute as the list of its writes; reading takes the last write, default 0 -/
abbrev Attr := List (Nat × Rat)

def lookup (a : Attr) (k : Nat) : Rat :=
  match a.reverse.find? (fun p => p.1 == k) with
  | some p => p.2
  | none => 0

/-- `if has_attribute(name): x = get_attribute(name); [x.clear()]  else: x = create_attribute(name)` followed by the writes of this call -/
def flagInto (cleared : Bool) (old : Option Attr) (writes : Attr) : Attr :=
  (match old with
   | none => []
   | some o => if cleared then [] else o) ++ writes

/-- the `fixed` face flags of `optimize`: start from all-False (`fresh`) or from what an earlier computation left on the mesh -/
def fixedFlagsInto (fresh : Bool) (old : Option (List Bool)) (n : Nat) (adj : List (Option Nat × Option Nat)) : List Bool :=
  let start : List Bool := match old with
    | none => List.replicate n false
    | some o => if fresh then List.replicate n false else o
  adj.foldl (fun fl p =>
    let fl := match p.1 with | some t => fl.set t true | none => fl
    match p.2 with | some t => fl.set t true | none => fl) start

/-! ## `_compute_attach_weight` once `eigs` is known -/
def attachThr : Rat := 1 / 1000000
def attachFail : Rat := 1 / 1000

def listMin : List Rat → Rat
  | [] => 0
  | [x] => x
  | x :: xs => let m := listMin xs; if m < x then m else x

/-- `eigs_non_zero = [e for e in eigs if abs(e) > 1e-6]; return fail_value if empty else abs(min(eigs_non_zero))` -/
def attachWeight (eigs : List Rat) : Rat :=
  let nz := eigs.filter (fun e => decide (attachThr < rabs e))
  if nz.isEmpty then attachFail else rabs (listMin nz)

/-- `alpha = self.smooth_attach_weight or self._compute_attach_weight(A)` (python `or`: a prescribed non-zero weight wins) -/
def alphaOf (given : Option Rat) (eigs : List Rat) : Rat :=
  match given with
  | some a => if a = 0 then attachWeight eigs else a
  | none => attachWeight eigs

end Mouette.FFH
