import Mouette.Model.Proto
import Mouette.Model.UnionFind
import Mouette.Model.PQueue
import Mouette.Model.BinHeap
/-
Protocol front-end for C20.
  `uf <nops> (a x | u x y | f x | c x y | k x)*`
     reply: after every op one record `[kind-specific answer];nE;nC;<partition>` where the
     partition is the list, per element in `_elts` order, of the *smallest element position* in its
     component (root identities are forgotten).
  `pq <nops> (p x <prio> | o | e)*`   prio ∈ `-inf | +inf | p/q`
     reply: per op `<answer>;<front>`: push → `-`; pop → `x:prio` of the item the heapq model hands out (`err:Index` on
     empty); empty? → 0/1; front = `x:prio` of `data[0]` after the operation, `-` when empty.
-/
namespace Mouette.DriveC20
open Mouette.Proto Mouette.UF

/-- driver-level operations: the model's `Op`s plus the two whole-structure queries `roots()` / `components()`,
which the model answers through `rootsList` (Lemmas: `roots_spec`, `components_spec`). -/
inductive DOp where
  | op (o : Op)
  | roots
  | components

def ufOp : P DOp := do
  let k ← tok
  match k with
  | "a" => do let x ← nat; pure (.op (.add x))
  | "u" => do let x ← nat; let y ← nat; pure (.op (.union x y))
  | "f" => do let x ← nat; pure (.op (.find x))
  | "c" => do let x ← nat; let y ← nat; pure (.op (.connected x y))
  | "k" => do let x ← nat; pure (.op (.component x))
  | "r" => pure .roots
  | "m" => pure .components
  | _ => failure

/-- canonical partition label: position of the first element having the same root -/
def partitionLabels (s : State) : List Nat :=
  let n := s.elts.length
  let roots := (List.range n).map (rootOf s)
  roots.map (fun r => roots.idxOf r)

def answer (s : State) : Op → String
  | .add _ => "-"
  | .union _ _ => "-"
  | .find x => match find s x with
      | none => "err:Value"
      | some (s', r) => -- forget identity: report position label of the root's class and rootness
        let isRoot := parent s'.par r == r
        s!"{(partitionLabels s).getD (s.elts.idxOf x) 0}:{fmtBool isRoot}"
  | .connected x y => match connected s x y with
      | none => "err:Value"
      | some (_, b) => fmtBool b
  | .component x => match component s x with
      | none => "err:Value"
      | some (_, l) => fmtNats (l.mergeSort (· ≤ ·))

def dedupNat (l : List Nat) : List Nat := l.foldl (fun acc x => if acc.contains x then acc else acc ++ [x]) []

/-- `roots()`: the set of root indices; reported as: how many, how many of them are really roots, and the sorted class
labels they stand for (identities forgotten) -/
def answerRoots (s : State) : State × String :=
  let (s1, rs) := rootsList s
  let ds := dedupNat rs
  let labs := partitionLabels s
  let rl := (ds.map (fun r => labs.getD r 0)).mergeSort (· ≤ ·)
  (s1, s!"{ds.length}:{(ds.filter (fun r => parent s1.par r == r)).length}:{fmtNats rl}")

/-- `components()`: one bucket per reported root, filled with the elements whose root it is; canonical form: each bucket
as sorted element ids, buckets sorted -/
def answerComponents (s : State) : State × String :=
  let (s1, rs) := rootsList s
  let ds := dedupNat rs
  let (s2, rs2) := rootsList s1
  let buckets := ds.map (fun r => ((s.elts.zip rs2).filterMap (fun (e, r') => if r' = r then some e else none)).mergeSort (· ≤ ·))
  let key (l : List Nat) : String := fmtNats l
  let sorted := (buckets.map key).mergeSort (fun a b => decide (a ≤ b))
  (s2, s!"{buckets.length}/{"/".intercalate sorted}")

def dstep (s : State) : DOp → State × String
  | .op o => (step s o, answer s o)
  | .roots => answerRoots s
  | .components => answerComponents s

def ufRun (ops : List DOp) : String :=
  let (_, out) := ops.foldl (fun (acc : State × List String) op =>
    let s := acc.1
    let (s', a) := dstep s op
    (s', acc.2 ++ [s!"{a};{s'.nElts};{s'.nComps};{s'.elts.length};{fmtNats (partitionLabels s')}"])) (init, [])
  " | ".intercalate out

def prio : P PQ.Prio := do
  let t ← tok
  if t = "-inf" then pure .negInf else if t = "+inf" then pure .posInf else
  match parseRat t with | some q => pure (.fin q) | none => failure

def fmtPrio : PQ.Prio → String
  | .negInf => "-inf" | .posInf => "+inf" | .fin q => fmtRat q

inductive QOp where | push (x : Nat) (w : PQ.Prio) | pop | empty

def qOp : P QOp := do
  let k ← tok
  match k with
  | "p" => do let x ← nat; let w ← prio; pure (.push x w)
  | "o" => pure .pop
  | "e" => pure .empty
  | _ => failure

def fmtItem (e : Nat × PQ.Prio) : String := s!"{e.1}:{fmtPrio e.2}"

/-- `front` of a heap (`self.data[0]`), `-` when empty -/
def fmtFront (d : List BinHeap.Item) : String := match d.head? with | some e => fmtItem e | none => "-"

/-- queue histories are run on the model of heapq (`Model/BinHeap.lean`, proved to satisfy the heap contract in
`Lemmas/BinHeap.lean`): every record is `<answer>;<front after the operation>`, a pop answers WHICH item came out
(`x:prio`), so that the tie-breaking order is compared with the implementation as well -/
def pqRun (ops : List QOp) : String :=
  let (_, out) := ops.foldl (fun (acc : List BinHeap.Item × List String) op =>
    match op with
    | .push x w => let d := BinHeap.heappush acc.1 (x, w); (d, acc.2 ++ [s!"-;{fmtFront d}"])
    | .pop => match BinHeap.heappop acc.1 with
        | none => (acc.1, acc.2 ++ [s!"err:Index;{fmtFront acc.1}"])
        | some (e, d) => (d, acc.2 ++ [s!"{fmtItem e};{fmtFront d}"])
    | .empty => (acc.1, acc.2 ++ [s!"{fmtBool (PQ.empty acc.1)};{fmtFront acc.1}"])) (([] : List BinHeap.Item), [])
  " | ".intercalate out

def handle (ts : List String) : Option String :=
  match ts with
  | "uf" :: r => (runP (listOf ufOp) r).map ufRun
  | "pq" :: r => (runP (listOf qOp) r).map pqRun
  | _ => none

end Mouette.DriveC20
