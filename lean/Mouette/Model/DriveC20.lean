import Mouette.Model.Proto
import Mouette.Model.UnionFind
import Mouette.Model.PQueue
/-
Protocol front-end for C20.
  `uf <nops> (a x | u x y | f x | c x y | k x)*`
     reply: after every op one record `[kind-specific answer];nE;nC;<partition>` where the
     partition is the list, per element in `_elts` order, of the *smallest element position* in its
     component (root identities are forgotten).
  `pq <nops> (p x <prio> | o | e)*`   prio ∈ `-inf | +inf | p/q`
     reply: per op: push → `-`; pop → `x:prio` of the model's canonical choice plus the multiset is
     re-derivable by the harness; `E` on empty; empty? → 0/1.
-/
namespace Mouette.DriveC20
open Mouette.Proto Mouette.UF

def ufOp : P Op := do
  let k ← tok
  match k with
  | "a" => do let x ← nat; pure (.add x)
  | "u" => do let x ← nat; let y ← nat; pure (.union x y)
  | "f" => do let x ← nat; pure (.find x)
  | "c" => do let x ← nat; let y ← nat; pure (.connected x y)
  | "k" => do let x ← nat; pure (.component x)
  | _ => failure

/-- canonical partition label: position of the first element having the same root -/
def partitionLabels (s : State) : List Nat :=
  let n := s.elts.length
  let roots := (List.range n).map (rootOf s)
  roots.map (fun r => roots.idxOf r)

def answer (s : State) : Op → String
  | .add _ => "-"
  | .union _ _ => "-"
  | .find x => match find s x with
      | none => "err:Value"
      | some (s', r) => -- forget identity: report position label of the root's class and rootness
        let isRoot := parent s'.par r == r
        s!"{(partitionLabels s).getD (s.elts.idxOf x) 0}:{fmtBool isRoot}"
  | .connected x y => match connected s x y with
      | none => "err:Value"
      | some (_, b) => fmtBool b
  | .component x => match component s x with
      | none => "err:Value"
      | some (_, l) => fmtNats (l.mergeSort (· ≤ ·))

def ufRun (ops : List Op) : String :=
  let (_, out) := ops.foldl (fun (acc : State × List String) op =>
    let s := acc.1
    let a := answer s op
    let s' := step s op
    (s', acc.2 ++ [s!"{a};{s'.nElts};{s'.nComps};{s'.elts.length};{fmtNats (partitionLabels s')}"])) (init, [])
  " | ".intercalate out

def prio : P PQ.Prio := do
  let t ← tok
  if t = "-inf" then pure .negInf else if t = "+inf" then pure .posInf else
  match parseRat t with | some q => pure (.fin q) | none => failure

def fmtPrio : PQ.Prio → String
  | .negInf => "-inf" | .posInf => "+inf" | .fin q => fmtRat q

inductive QOp where | push (x : Nat) (w : PQ.Prio) | pop | empty

def qOp : P QOp := do
  let k ← tok
  match k with
  | "p" => do let x ← nat; let w ← prio; pure (.push x w)
  | "o" => pure .pop
  | "e" => pure .empty
  | _ => failure

def pqRun (ops : List QOp) : String :=
  let (_, out) := ops.foldl (fun (acc : PQ.Queue × List String) op =>
    match op with
    | .push x w => (PQ.push acc.1 x w, acc.2 ++ ["-"])
    | .pop => match PQ.pop acc.1 with
        | none => (acc.1, acc.2 ++ ["err:Index"])
        | some (e, q') => (q', acc.2 ++ [s!"{fmtPrio e.2}"])
    | .empty => (acc.1, acc.2 ++ [fmtBool (PQ.empty acc.1)])) (([] : PQ.Queue), [])
  " | ".intercalate out

def handle (ts : List String) : Option String :=
  match ts with
  | "uf" :: r => (runP (listOf ufOp) r).map ufRun
  | "pq" :: r => (runP (listOf qOp) r).map pqRun
  | _ => none

end Mouette.DriveC20
