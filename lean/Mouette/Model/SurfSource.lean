import Mouette.Model.Surface
/-
Vocabulary of the C01 fragments TRANSLATED from `surface.py` / `linear.py` (`Generated/C01Src.lean`).  Core Lean only.
A dict cache is an association list with the most recent write first: `d[k] = v` is a cons, `d.get(k, None)` the first hit.
-/
namespace Mouette.SurfSource

abbrev FaceDict := List (List Nat × Nat)
abbrev EdgeDict := List ((Nat × Nat) × Nat)

def dictGet {κ} [BEq κ] (d : List (κ × Nat)) (k : κ) : Option Nat := (d.find? fun e => e.1 == k).map (·.2)

/-- `s.add(x)` on a Python set kept as the list of its elements in insertion order -/
def setAdd (s : List Nat) (x : Nat) : List Nat := if s.contains x then s else s ++ [x]

end Mouette.SurfSource
