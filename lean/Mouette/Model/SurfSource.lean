import Mouette.Model.Surface
/-
Vocabulary of the C01 fragments TRANSLATED from `surface.py` / `linear.py` (`Generated/C01Src.lean`).  Core Lean only.
A dict cache is an association list with the most recent write first: `d[k] = v` is a cons, `d.get(k, None)` the first hit.
-/
namespace Mouette.SurfSource

abbrev FaceDict := List (List Nat × Nat)
abbrev EdgeDict := List ((Nat × Nat) × Nat)

def dictGet {κ} [BEq κ] (d : List (κ × Nat)) (k : κ) : Option Nat := (d.find? fun e => e.1 == k).map (·.2)

/-- `s.add(x)` on a Python set kept as the list of its elements in insertion order -/
def setAdd (s : List Nat) (x : Nat) : List Nat := if s.contains x then s else s ++ [x]


/-! caches of `_compute_connectivity` -/
abbrev HEDict := List ((Nat × Nat) × List (Option Nat))   -- `_half_edges`: (u,v) ↦ [corner, previous, next, opposite, face, i, j]
abbrev CnDict := List (Nat × (Nat × Nat))                 -- `_Cn2he`
abbrev VFDict := List ((Nat × Nat) × Nat)                 -- `_adjVF2Cn`
abbrev FDict := List (Nat × Nat)                          -- `_adjF2Cn`
abbrev V2Cn := List (List Nat)                            -- `_adjV2Cn`: vertex ↦ its corners (a set filled in increasing order)

def dictHas {κ ν} [BEq κ] (d : List (κ × ν)) (k : κ) : Bool := d.any fun e => e.1 == k
def dictFind {κ ν} [BEq κ] (d : List (κ × ν)) (k : κ) : Option ν := (d.find? fun e => e.1 == k).map (·.2)
/-- `d[k]` where the source guarantees the key (it was inserted by the loop just above) -/
def dictGetD {κ} [BEq κ] (d : List (κ × Nat)) (k : κ) : Nat := (dictGet d k).getD 0
/-- `self._half_edges.get(k, [None])[0]` -/
def heGet0 (d : HEDict) (k : Nat × Nat) : Option Nat := (dictFind d k).bind fun e => e.getD 0 none
/-- `self._half_edges[k][i]` (a missing key is not modelled: the key comes out of `_Cn2he` / a membership test) -/
def heField (d : HEDict) (k : Nat × Nat) (i : Nat) : Option Nat := (dictFind d k).bind fun e => e.getD i none
/-- `self._half_edges[k][4:]` unpacked as a triple -/
def heInds (d : HEDict) (k : Nat × Nat) : Option Nat × Option Nat × Option Nat := (heField d k 4, heField d k 5, heField d k 6)
/-- `self._half_edges[k][3] = x` (in-place write into the entry list) -/
def heSetOpp (d : HEDict) (k : Nat × Nat) (x : Option Nat) : HEDict :=
  d.map fun e => if e.1 == k then (e.1, e.2.set 3 x) else e
def v2cnGet (t : V2Cn) (v : Nat) : List Nat := t.getD v []
def v2cnSet (t : V2Cn) (v : Nat) (l : List Nat) : V2Cn := t.set v l
/-- `self._adjV2Cn[v].add(c)` -/
def v2cnAdd (t : V2Cn) (v c : Nat) : V2Cn := t.set v (setAdd (t.getD v []) c)


/-! `_sort_vertex_neighborhoods` -/
abbrev IdxDict := List (Option Nat × Int)     -- `sort_index`: corner (or `None`) ↦ rank, most recent write first
abbrev VIdx := List (Nat × Option Int)        -- `sort_indexV`: vertex ↦ rank, `none` = `-inf`
def idxFind (d : IdxDict) (k : Option Nat) : Option Int := (d.find? fun e => e.1 == k).map (·.2)
/-- `sort_index[c]` (every corner of the vertex is a key from the start, with rank 0) -/
def idxGet (d : IdxDict) (k : Option Nat) : Int := (idxFind d k).getD 0
def vidxGet (d : VIdx) (k : Nat) : Option Int := ((d.find? fun e => e.1 == k).map (·.2)).getD none
/-- `len(sort_index)`: the number of distinct keys -/
def idxLen (d : IdxDict) : Nat := (d.map (·.1)).eraseDups.length
/-- `l.sort(key=…)`: Python's sort is stable, like `mergeSort` -/
def sortByKey {κ} (le : κ → κ → Bool) (key : Nat → κ) (l : List Nat) : List Nat := l.mergeSort fun a b => le (key a) (key b)

end Mouette.SurfSource
