import Mouette.Model.Proto
import Mouette.Model.Geom
import Mouette.Model.Operators
/-
Protocol front-end for C08 (stateless; one request = one mesh).

  `surf <nV> (x y z)* <nF> (3 a b c)* <nE> (a b)*`     triangulated surface
  `vol  <nV> (x y z)* <nC> (4 a b c d)* <nE> (a b)*`
  `poly <nV> (x y z)* <nE> (a b)*`

Reply: sections `name tok*` joined by ` | `.  Structural matrices are printed as entries; weights that are irrational
(cotangents, areas, lengths) are referred to by index and evaluated by the harness from the exact `cs`/`area2`/`len2` sections.
-/
namespace Mouette.DriveC08
open Mouette.Proto Mouette.Geom Mouette.Ops

def v3 : P V3 := do let x ← rat; let y ← rat; let z ← rat; pure ⟨x, y, z⟩
def pair : P (Nat × Nat) := do let a ← nat; let b ← nat; pure (a, b)
def sec (name body : String) : String := name ++ " " ++ body

def fmtS (l : List SEntry) : String :=
  " ".intercalate (toString l.length :: l.map (fun e => s!"{e.i} {e.j} {e.s} {e.c}"))
def fmtT (l : List Trip) : String :=
  " ".intercalate (toString l.length :: l.map (fun e => s!"{e.1} {e.2.1} {fmtRat e.2.2}"))
def fmtNested (l : List (List Nat)) : String := " ".intercalate (toString l.length :: l.map fmtNats)
def fmtPairs (l : List (Rat × Rat)) : String := fmtRats (l.flatMap (fun p => [p.1, p.2]))

def toF3 (f : Face) : F3 := (f.getD 0 0, f.getD 1 0, f.getD 2 0)
def natW (k : Nat) : Rat := (k : Rat)

def graphSecs (vs : List V3) (es : List (Nat × Nat)) : List String :=
  [ sec "len2" (fmtRats (es.map (fun e => dist2 (pt vs e.1) (pt vs e.2)))),
    sec "glap" (fmtT (graphLap es vs.length)),
    -- value printed = index of the edge whose weight is read
    sec "adj" (fmtT (adjacency natW es)),
    sec "v2e" (fmtT (vertexToEdge true es)) ]

def surf (vs : List V3) (fs : List Face) (es : List (Nat × Nat)) : String :=
  if !(isTriangular fs) then "err:nontri" else
  let f3 := fs.map toF3
  " | ".intercalate (graphSecs vs es ++
  [ sec "cs" (fmtPairs (fs.flatMap (triCotanCS vs))),
    sec "area2" (fmtRats (fs.map (fun f => triArea2 (pt vs (f.getD 0 0)) (pt vs (f.getD 1 0)) (pt vs (f.getD 2 0))))),
    sec "lap" (fmtS (lapS f3)),
    sec "ced" (fmtNested (es.map (cotanDiagCorners fs))),
    sec "nab" (" ".intercalate (toString es.length :: es.map (fun e =>
        let r := nablaRow fs e
        " ".intercalate (toString r.length :: r.map (fun p => s!"{p.1} {fmtRat p.2}"))))),
    sec "lapE" (fmtS (lapEdgesS es f3)),
    sec "v2f" (fmtT (vertexToFace fs)),
    -- value printed = index of the face whose area is read
    sec "mass" (fmtT (mass natW fs)),
    sec "massE" (fmtT (massEdges (fun t => 3 * natW t) fs es)),
    sec "grad" (" ".intercalate (toString f3.length :: f3.map (fun f =>
        let (lx2, n2, l) := gradFace vs fs f
        " ".intercalate ([fmtRat lx2, fmtRat n2] ++ l.flatMap (fun p => [fmtRat p.1, fmtRat p.2]))))) ])

def vol (vs : List V3) (cs : List (List Nat)) (es : List (Nat × Nat)) : String :=
  if !(cs.all (fun c => c.length == 4)) then "err:nontet" else
  " | ".intercalate (graphSecs vs es ++
  [ sec "vol" (fmtRats (cs.map (fun c => tetVolume (pt vs (c.getD 0 0)) (pt vs (c.getD 1 0)) (pt vs (c.getD 2 0)) (pt vs (c.getD 3 0))))),
    sec "mass" (fmtT (mass natW cs)),
    sec "ltet" (fmtT (lapTet cs)),
    sec "vlap" (" ".intercalate (toString es.length :: es.map (fun e =>
        let l := volLapTerms vs cs e
        " ".intercalate (toString l.length :: l.map (fun q => s!"{fmtRat q.1} {fmtRat q.2.1} {fmtRat q.2.2}"))))) ])

def surfP : P String := do
  let vs ← listOf v3; let fs ← listOf (listOf nat); let es ← listOf pair
  pure (surf vs fs es)
def volP : P String := do
  let vs ← listOf v3; let cs ← listOf (listOf nat); let es ← listOf pair
  pure (vol vs cs es)
def polyP : P String := do
  let vs ← listOf v3; let es ← listOf pair
  pure (" | ".intercalate (graphSecs vs es))

def handle (ts : List String) : Option String :=
  match ts with
  | "surf" :: r => runP surfP r
  | "vol" :: r => runP volP r
  | "poly" :: r => runP polyP r
  | _ => none

end Mouette.DriveC08
