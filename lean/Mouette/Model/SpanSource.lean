import Mouette.Model.Trees
import Mouette.Model.CutSource
/-
Vocabulary of the TRANSLATED `SingularityCutter._build_singularity_spanning_tree_no_features` (`Generated/C16Span.lean`, written by
`vlib/gen/c16_translate.py` on every run: the whole body is compared, after alpha-renaming of the locals, with the shape these
definitions encode; any other shape is a TranslateError). Core Lean only.

  `BORDER = -1`                                   a fresh node id `border` (parameter: any id that is not a vertex id)
  `path_btw_singus` (dict key -> path)            the list of keys in insertion order (`candKeys`) and a function `paths : key -> List Nat`;
                                                  `shortest_path` / `shortest_path_to_border` (C09) are not re-modelled here
  `compute_path_length`                           a parameter `len : key -> Rat`
  `path_lengths.sort()`                           not modelled: the Kruskal loop is stated for ANY list of entries (in particular the sorted one)
  `UnionFind(singul)`                             the C20/C10 hand model (`UF.State`); the theorems start from `Trees.ufInit n` (all ids `< n`,
                                                  `border < n`): elements that occur in no key stay singletons and do not influence the selection
-/
namespace Mouette.SpanSrc

/-- round 9 — state of the breadth-first traversal of the feature graph in `_build_singularity_spanning_tree_with_features`
(`Generated/C16SpanF.lean`): `visited` = the vertices whose flag `visited[v]` is True, in the order they were marked; `parent` = the
writes `parent[v] = prev`; `flags` = the pairs `(v, prev)` whose edge `edge_id(v, prev)` was flagged by the traversal; `queue` = the deque
of `(vertex, prev)` (`None` = `none`). `vertex_to_edges(v)` filtered by `feature_edges` and mapped by `other_edge_end(e, v)` is the
parameter `featNbrs`; the first part of the function (one `shortest_path_to_vertex_set` per singularity) is not re-modelled. -/
structure BSt where
  visited : List Nat
  parent  : List (Nat × Option Nat)
  flags   : List (Nat × Nat)
  queue   : List (Nat × Option Nat)

end Mouette.SpanSrc
