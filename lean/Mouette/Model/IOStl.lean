import Mouette.Model.IO
/-
C04 (round 3) — a model of the binary STL READER (`stl_reader.read`, external): the triangle soup of the file is turned
into an indexed mesh by merging identical points, vertices numbered in order of first appearance.  The property only
needs that the indexed mesh denotes the same soup (`soupOf`), which is what `Props/C04.stl_reader_soup` proves; the
harness compares soups as multisets (the numbering of stl_reader is not relied upon).
-/
namespace Mouette.IO
variable {C : Type} [DecidableEq C]

/-- index of `p` in `vs`, appending it when it is new -/
def addPt (vs : List (Pt C)) (p : Pt C) : List (Pt C) × Nat :=
  if p ∈ vs then (vs, vs.idxOf p) else (vs ++ [p], vs.length)

def mergeTris : List (Tri C) → List (Pt C) → List (Pt C) × List (List Nat)
  | [], vs => (vs, [])
  | t :: rest, vs =>
    let a := addPt vs t.1
    let b := addPt a.1 t.2.1
    let c := addPt b.1 t.2.2
    let r := mergeTris rest c.1
    (r.1, [a.2, b.2, c.2] :: r.2)

/-- `stl_reader.read` + `import_stl`: vertices = merged points, faces = index triples -/
def importStlMerged (cd : Codec C) (file : File) : Option (Raw C) :=
  (stlSoup cd file).map (fun ts => let r := mergeTris ts []; { verts := r.1, faces := r.2 })

/-- the triangle soup an indexed triangle mesh denotes -/
def soupOf (m : Raw C) : Option (List (Tri C)) :=
  mapOpt (fun f => match f with
    | [i, j, k] => (match m.verts[i]?, m.verts[j]?, m.verts[k]? with
        | some a, some b, some c => some (a, b, c)
        | _, _, _ => none)
    | _ => none) m.faces

end Mouette.IO
