import Mouette.Model.Proto
import Mouette.Model.Dijkstra
import Mouette.Model.PathMesh
/-
Protocol front-end for C09.
  `sp  <n> <m> (u v w)^m <start> <k> t^k`   reply: `ok (dist pathweight valid)^k` — per target the final label
        `distance[t]`, the exact weight of the model's back-tracked path and whether that path begins at start,
        ends at t and follows adjacencies — or `err:Key` if some target is not connected to start (the code reads
        `path[None]`), `err:Loop` if back-tracking ran out of fuel (never, by `path_valid`).
  `set <n> <m> (u v w)^m <start> <k> t^k`   reply: `ok <ind> <dist> <pathweight> <valid> <ind ∈ targets>` / `err:Key`.
  `border <n> <m> (u v w isborder)^m <start>`  reply as for `set` (the target set is `boundaryVertices` of the flagged
        edges), or `err:NoBorder` when no edge is flagged (the code raises "Mesh has no border").
  every request may end with `pm <k> (<len> v^len)^k` (the paths returned by the implementation, in dict order); the
  reply then ends with ` | V:<vertex ids> E:<a-b,...>` = `buildPath` of these paths.
Vertex ids must be `< n`, weights `≥ 0` (else `err:Value`: outside the statement's quantifier).
-/
namespace Mouette.DriveC09
open Mouette.Proto Mouette.Dijkstra

def edgeP : P (Nat × Nat × Rat) := do
  let u ← nat; let v ← nat; let w ← rat; pure (u, v, w)

structure Req where
  n : Nat
  edges : List (Nat × Nat × Rat)
  start : Nat
  targets : List Nat

def reqP : P Req := do
  let n ← nat
  let edges ← listOf edgeP
  let start ← nat
  let targets ← listOf nat
  pure { n, edges, start, targets }

def Req.wf (r : Req) : Bool :=
  r.edges.all (fun e => e.1 < r.n && e.2.1 < r.n && e.1 != e.2.1 && decide (0 ≤ e.2.2)) &&
  decide (r.start < r.n) && r.targets.all (· < r.n) && !r.targets.isEmpty

def validPath (adj : Adj) (start t : Nat) (p : List Nat) : Bool :=
  p.head? == some start && p.getLast? == some t && (pathWeight adj p).isSome

def spReply (r : Req) : String :=
  let adj := adjOf r.edges
  let (s, rs) := shortestPath PQ.pop adj r.n r.start r.targets
  if rs.any (· == .keyError) then "err:Key"
  else if rs.any (· == .outOfFuel) then "err:Loop"
  else
    let parts := (r.targets.zip rs).map (fun (t, res) =>
      match res with
      | .ok p =>
        let d := match s.dist t with | some d => fmtRat d | none => "inf"
        let pw := match pathWeight adj p with | some w => fmtRat w | none => "none"
        s!"{d} {pw} {fmtBool (validPath adj r.start t p)}"
      | _ => "?")
    " ".intercalate ("ok" :: parts)

def setReply (r : Req) : String :=
  let adj := adjOf r.edges
  match vertexSet PQ.pop adj r.n r.start r.targets with
  | (.ok p, ind) =>
    let s := run PQ.pop adj r.n r.start      -- independent labels of the plain graph (for the report only)
    let d := match s.dist ind with | some d => fmtRat d | none => "inf"
    let pw := match pathWeight adj p with | some w => fmtRat w | none => "none"
    s!"ok {ind} {d} {pw} {fmtBool (validPath adj r.start ind p)} {fmtBool (r.targets.contains ind)}"
  | (.keyError, _) => "err:Key"
  | (.outOfFuel, _) => "err:Loop"

structure BReq where
  n : Nat
  edges : List ((Nat × Nat × Rat) × Bool)
  start : Nat

def bedgeP : P ((Nat × Nat × Rat) × Bool) := do
  let e ← edgeP; let b ← bool; pure (e, b)

def breqP : P BReq := do
  let n ← nat
  let edges ← listOf bedgeP
  let start ← nat
  pure { n, edges, start }

def BReq.req (r : BReq) : Req :=
  { n := r.n, edges := r.edges.map (·.1), start := r.start,
    targets := boundaryVertices (r.edges.map (fun e => ((e.1.1, e.1.2.1), e.2))) }

def borderReply (r : BReq) : String :=
  let adj := adjOf (r.edges.map (·.1))
  match toBorder PQ.pop adj r.n r.start (r.edges.map (fun e => ((e.1.1, e.1.2.1), e.2))) with
  | none => "err:NoBorder"
  | some _ => setReply r.req        -- `toBorder = some (vertexSet … boundaryVertices)`; same report as `set`

/-- optional trailing `pm` section -/
def pmOptP : P (Option (List (List Nat))) := fun ts =>
  match ts with
  | "pm" :: rest => (listOf (listOf nat)).run rest |>.map (fun (x, r) => (some x, r))
  | _ => some (none, ts)

def pmReply : Option (List (List Nat)) → String
  | none => ""
  | some ps =>
    let (vs, es) := buildPath ps
    " | V:" ++ " ".intercalate (vs.map toString) ++ " E:" ++ ",".intercalate (es.map (fun e => s!"{e.1}-{e.2}"))

def handle (ts : List String) : Option String :=
  match ts with
  | "sp" :: rest => (runP (do let r ← reqP; let pm ← pmOptP; pure (r, pm)) rest).map
      (fun (r, pm) => (if r.wf then spReply r else "err:Value") ++ pmReply pm)
  | "set" :: rest => (runP (do let r ← reqP; let pm ← pmOptP; pure (r, pm)) rest).map
      (fun (r, pm) => (if r.wf then setReply r else "err:Value") ++ pmReply pm)
  | "border" :: rest => (runP (do let r ← breqP; let pm ← pmOptP; pure (r, pm)) rest).map
      (fun (r, pm) =>
        (if (r.edges.all (fun e => e.1.1 < r.n && e.1.2.1 < r.n && e.1.1 != e.1.2.1 && decide (0 ≤ e.1.2.2)) && decide (r.start < r.n))
          then borderReply r else "err:Value") ++ pmReply pm)
  | _ => none

end Mouette.DriveC09
