import Mouette.Model.Proto
import Mouette.Model.Dijkstra
/-
Protocol front-end for C09.
  `sp  <n> <m> (u v w)^m <start> <k> t^k`   reply: `ok (dist pathweight valid)^k` — per target the final label
        `distance[t]`, the exact weight of the model's back-tracked path and whether that path begins at start,
        ends at t and follows adjacencies — or `err:Key` if some target is not connected to start (the code reads
        `path[None]`), `err:Loop` if back-tracking ran out of fuel (never, by `path_valid`).
  `set <n> <m> (u v w)^m <start> <k> t^k`   reply: `ok <ind> <dist> <pathweight> <valid> <ind ∈ targets>` / `err:Key`.
Vertex ids must be `< n`, weights `≥ 0` (else `err:Value`: outside the statement's quantifier).
-/
namespace Mouette.DriveC09
open Mouette.Proto Mouette.Dijkstra

def edgeP : P (Nat × Nat × Rat) := do
  let u ← nat; let v ← nat; let w ← rat; pure (u, v, w)

structure Req where
  n : Nat
  edges : List (Nat × Nat × Rat)
  start : Nat
  targets : List Nat

def reqP : P Req := do
  let n ← nat
  let edges ← listOf edgeP
  let start ← nat
  let targets ← listOf nat
  pure { n, edges, start, targets }

def Req.wf (r : Req) : Bool :=
  r.edges.all (fun e => e.1 < r.n && e.2.1 < r.n && e.1 != e.2.1 && decide (0 ≤ e.2.2)) &&
  decide (r.start < r.n) && r.targets.all (· < r.n) && !r.targets.isEmpty

def validPath (adj : Adj) (start t : Nat) (p : List Nat) : Bool :=
  p.head? == some start && p.getLast? == some t && (pathWeight adj p).isSome

def spReply (r : Req) : String :=
  let adj := adjOf r.edges
  let (s, rs) := shortestPath PQ.pop adj r.n r.start r.targets
  if rs.any (· == .keyError) then "err:Key"
  else if rs.any (· == .outOfFuel) then "err:Loop"
  else
    let parts := (r.targets.zip rs).map (fun (t, res) =>
      match res with
      | .ok p =>
        let d := match s.dist t with | some d => fmtRat d | none => "inf"
        let pw := match pathWeight adj p with | some w => fmtRat w | none => "none"
        s!"{d} {pw} {fmtBool (validPath adj r.start t p)}"
      | _ => "?")
    " ".intercalate ("ok" :: parts)

def setReply (r : Req) : String :=
  let adj := adjOf r.edges
  match vertexSet PQ.pop adj r.n r.start r.targets with
  | (.ok p, ind) =>
    let s := run PQ.pop adj r.n r.start      -- independent labels of the plain graph (for the report only)
    let d := match s.dist ind with | some d => fmtRat d | none => "inf"
    let pw := match pathWeight adj p with | some w => fmtRat w | none => "none"
    s!"ok {ind} {d} {pw} {fmtBool (validPath adj r.start ind p)} {fmtBool (r.targets.contains ind)}"
  | (.keyError, _) => "err:Key"
  | (.outOfFuel, _) => "err:Loop"

def handle (ts : List String) : Option String :=
  match ts with
  | "sp" :: rest => (runP reqP rest).map (fun r => if r.wf then spReply r else "err:Value")
  | "set" :: rest => (runP reqP rest).map (fun r => if r.wf then setReply r else "err:Value")
  | _ => none

end Mouette.DriveC09
