import Mouette.Model.Proto
import Mouette.Model.MeshHeap
import Mouette.Model.MeshCopy
/-
Protocol front-end for C06.
  request: `<nops> op*` with
    new <nv> (x y z)* <nE> (<len> idx*)* <nF> (<len> idx*)* <nC> (<len> idx*)*
    copy i | merge <k> id* | translate i tx ty tz | scale i k (N | ox oy oz) | scalexyz i fx fy fz (N | ox oy oz)
    rotate i r11 … r33 (N | ox oy oz) | flatten i dim | normalize i (0|1) | toorigin i | edit i v c x
    copyx i (0|1 attrs) (0|1 connectivity) | cattr i | sattr i v x y z | eattr i v c x     (round 2)
  per mesh the record also carries `W (N | <n> (x y z)*)` (vertex attribute "w") and `K <own> <shared>` (its connectivity
  handler points back at itself / number of other meshes holding the same handler object)
  reply: ` | `-separated records, one per op: the whole state after the op,
    `<nmeshes> ( <dim> <nv> (x y z)* E <n> (<len> idx*)* F … C … )*`
-/
namespace Mouette.DriveC06
open Mouette.Proto Mouette.MeshHeap

def v3 : P V3 := do let x ← rat; let y ← rat; let z ← rat; pure ⟨x, y, z⟩
def optV3 : P (Option V3) := fun ts =>
  match ts with
  | "N" :: r => some (none, r)
  | _ => (do let v ← v3; pure (some v) : P (Option V3)) ts
def elts : P (List (List Nat)) := listOf (listOf nat)

def op : P Op := do
  let k ← tok
  match k with
  | "new" => do let vs ← listOf v3; let e ← elts; let f ← elts; let c ← elts; pure (.new vs e f c)
  | "copy" => do let i ← nat; pure (.copy i)
  | "merge" => do let ids ← listOf nat; pure (.merge ids)
  | "translate" => do let i ← nat; let t ← v3; pure (.translate i t)
  | "scale" => do let i ← nat; let k ← rat; let o ← optV3; pure (.scale i k o)
  | "scalexyz" => do let i ← nat; let fx ← rat; let fy ← rat; let fz ← rat; let o ← optV3; pure (.scaleXyz i fx fy fz o)
  | "rotate" => do let i ← nat; let a ← v3; let b ← v3; let c ← v3; let o ← optV3; pure (.rotate i ⟨a, b, c⟩ o)
  | "flatten" => do let i ← nat; let d ← nat; pure (.flatten i d)
  | "normalize" => do let i ← nat; let c ← bool; pure (.normalize i c)
  | "toorigin" => do let i ← nat; pure (.toOrigin i)
  | "edit" => do let i ← nat; let v ← nat; let c ← nat; let x ← rat; pure (.edit i v c x)
  | _ => failure

def opX : P OpX := fun ts =>
  match ts with
  | "copyx" :: r => (do let i ← nat; let a ← bool; let c ← bool; pure (OpX.copyX i a c) : P OpX) r
  | "cattr" :: r => (do let i ← nat; pure (OpX.createAttr i) : P OpX) r
  | "sattr" :: r => (do let i ← nat; let v ← nat; let x ← v3; pure (OpX.setAttr i v x) : P OpX) r
  | "eattr" :: r => (do let i ← nat; let v ← nat; let c ← nat; let x ← rat; pure (OpX.editAttr i v c x) : P OpX) r
  | _ => (do let o ← op; pure (OpX.base o) : P OpX) ts

def fmtV3 (v : V3) : String := s!"{fmtRat v.x} {fmtRat v.y} {fmtRat v.z}"
def fmtElts (l : List (List Nat)) : String := fmtList fmtNats l

def fmtMesh (h : Heap) (m : Mesh) : String :=
  s!"{m.dim} {fmtList fmtV3 (coords h m)} E {fmtElts m.edges} F {fmtElts m.faces} C {fmtElts m.cells}"

def fmtExtra (s : StateX) (idx : Nat) : String :=
  match s.extras[idx]? with
  | none => "W N K 0 0"
  | some e =>
    let w := match attrRows s.st.heap e with | none => "N" | some rows => fmtList fmtV3 rows
    let own := match s.conns[e.conn]? with | some c => decide (c.master = idx) | none => false
    let shared := ((List.range s.extras.length).filter (fun j => j != idx && (s.extras[j]?.map (·.conn)) == some e.conn)).length
    s!"W {w} K {fmtBool own} {shared}"

def fmtState (s : StateX) : String :=
  fmtList (fun (p : Nat × Mesh) => s!"{fmtMesh s.st.heap p.2} {fmtExtra s p.1}") (List.zip (List.range s.st.meshes.length) s.st.meshes)

def trace (ops : List OpX) : String :=
  let (_, out) := ops.foldl (fun (acc : StateX × List String) o =>
    let s' := stepX acc.1 o
    (s', acc.2 ++ [fmtState s'])) (initX, [])
  " | ".intercalate out

def handle (ts : List String) : Option String := (runP (listOf opX) ts).map trace

end Mouette.DriveC06
