import Mouette.Model.Proto
import Mouette.Model.Subdiv
/-
Protocol front-end for C13 (one request line = one scenario):
  `surf <nV> (x y z)* <nF> (<len> v*)* <nOps> op*`     ops: `fan f | tf f | tri | loop n | q3 | s6 n`
  `vol  <nV> (x y z)* <nC> (<len> v*)* <nOps> op*`     ops: `cfan c | fsp f`
  `poly <nV> (x y z)* <nE> (a b)*      <nOps> op*`     ops: `es e`
The input mesh is first prepared as the constructors of the mesh classes do (faces completed from cells,
edges completed from faces).  Reply:
  `ok V n (x y z)* E n (a b)* F n (len v*)* [C n (len v*)*] IN = corners k`   prepared result; `IN =`: the model of
        the repaired `__exit__` says the input object is the result
  `err:<Kind> <index of the failing operation>`
-/
namespace Mouette.DriveC13
open Mouette.Proto Mouette.Subdiv

def pt : P Pt := do let x ← rat; let y ← rat; let z ← rat; pure (x, y, z)
def natList : P (List Nat) := listOf nat
def pair : P (Nat × Nat) := do let a ← nat; let b ← nat; pure (a, b)

/-- one token of a scenario: an operation, or the boundary between two editing blocks (`__exit__` then a new
`__enter__` on the same mesh object) -/
inductive Tok where
  | op (o : Op)
  | boundary
  | sdb        -- `split_double_boundary_edges_triangles(mesh)`: a block of its own

def op : P Tok := do
  let k ← tok
  match k with
  | "fan" => do let f ← nat; pure (.op (.fan f))
  | "tf" => do let f ← nat; pure (.op (.triFace f))
  | "tri" => pure (.op .tri)
  | "loop" => do let n ← nat; pure (.op (.loop n))
  | "q3" => pure (.op .quads3)
  | "s6" => do let n ← nat; pure (.op (.sub6 n))
  | "cfan" => do let c ← nat; pure (.op (.cellFan c))
  | "fsp" => do let f ← nat; pure (.op (.faceSplit f))
  | "es" => do let e ← nat; pure (.op (.edgeSplit e))
  | "nb" => pure .boundary
  | "sdb" => pure .sdb
  | _ => failure

/-- a block: operations inside `with Editor(mesh)`, or one call of `split_double_boundary_edges_triangles` -/
inductive Blk where
  | ops (l : List Op)
  | sdb

def Blk.length : Blk → Nat
  | .ops l => l.length
  | .sdb => 1

/-- splits the token list into blocks -/
def toBlocks : List Tok → List Blk
  | [] => [.ops []]
  | .boundary :: r => .ops [] :: toBlocks r
  | .sdb :: r => match toBlocks r with          -- the request writes `sdb` alone between boundaries
    | .ops [] :: bs => .sdb :: bs
    | bs => .sdb :: bs
  | .op o :: r => match toBlocks r with
    | .ops b :: bs => .ops (o :: b) :: bs
    | bs => .ops [o] :: bs

/-- runs the blocks one after the other on the same mesh: after every block the mesh is prepared (the repaired
`__exit__` makes the caller's object the refined mesh, which the next block edits). `i0` counts operations globally. -/
def runBlocks (isPoly : Bool) (m : Raw) : List Blk → Nat → Raw × Option (Err × Nat)
  | [], _ => (m, none)
  | .ops b :: bs, i0 =>
    match runOps m b i0 with
    | (m', some e) => (m', some e)
    | (m', none) => runBlocks isPoly (if isPoly then m' else prepare m') bs (i0 + b.length)
  | .sdb :: bs, i0 =>
    match splitDoubleBoundary m with
    | .error e => (m, some (e, i0))
    | .ok m' => runBlocks isPoly (prepare m') bs (i0 + 1)

def fmtPt (p : Pt) : String := s!"{fmtRat p.1} {fmtRat p.2.1} {fmtRat p.2.2}"

def fmtErr : Err → String
  | .index => "err:Index" | .key => "err:Key" | .value => "err:Value" | .other => "err:Other(Exception)"

def fmtMesh (m : Raw) (withCells : Bool) : String :=
  let v := " ".intercalate (s!"V {m.verts.length}" :: m.verts.map fmtPt)
  let e := " ".intercalate (s!"E {m.edges.length}" :: m.edges.map (fun e => s!"{e.1} {e.2}"))
  let f := " ".intercalate (s!"F {m.faces.length}" :: m.faces.map fmtNats)
  let c := if withCells then " " ++ " ".intercalate (s!"C {m.cells.length}" :: m.cells.map fmtNats) else ""
  s!"{v} {e} {f}{c}"

def runScenario (m0 : Raw) (toks : List Tok) (withCells : Bool) (isPoly : Bool) : String :=
  let input := prepare m0
  match runBlocks isPoly input (toBlocks toks) 0 with
  | (_, some (e, i)) => s!"{fmtErr e} {i}"
  | (res, none) =>
    s!"ok {fmtMesh res withCells} IN = corners {cornerCount res}"

def surfReq : P String := do
  let vs ← listOf pt; let fs ← listOf natList; let ops ← listOf op
  pure (runScenario ⟨vs, [], fs, []⟩ ops false false)

def volReq : P String := do
  let vs ← listOf pt; let cs ← listOf natList; let ops ← listOf op
  pure (runScenario ⟨vs, [], [], cs⟩ ops true false)

def polyReq : P String := do
  let vs ← listOf pt; let es ← listOf pair; let ops ← listOf op
  pure (runScenario ⟨vs, es, [], []⟩ ops false true)

def handle (ts : List String) : Option String :=
  match ts with
  | "surf" :: r => runP surfReq r
  | "vol" :: r => runP volReq r
  | "poly" :: r => runP polyReq r
  | _ => none

end Mouette.DriveC13
