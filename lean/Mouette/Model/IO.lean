/-
C04 — token-level models of mouette's file codecs (mouette/mesh/io/{obj,off,tet,xyz,medit,stl}.py) and of
the re-wrap done by `mouette.mesh.save`.  Core Lean only.

A file is a list of non-empty token lines (`split()` of every line; blank lines dropped, which all the
importers modelled here do themselves or never meet in the files considered).  A token is a keyword, an
integer literal or the text of a floating point number.  Coordinates are an abstract type `C`; the
codec `cd` supplies `fmt : C → String` ('{}'.format(float64)) and `parse : String → Option C` (float()).
The theorems of Props/C04 assume `parse (fmt c) = some c` (trusted-base item T5, sampled by the harness).

`none` means "the Python code raises, or the input is outside the modelled domain" (the driver prints
`err`); the model never invents a default.
-/
namespace Mouette.IO

inductive Tok where
  | kw (s : String)
  | int (i : Int)
  | txt (s : String)
deriving DecidableEq, Repr, Inhabited

abbrev Line := List Tok
abbrev File := List Line

structure Codec (C : Type) where
  fmt : C → String
  parse : String → Option C
  /-- rounding to binary32 (struct.pack 'f'), used by STL only -/
  r32 : C → C
  zero : C

structure Raw (C : Type) where
  verts : List (C × C × C) := []
  edges : List (Nat × Nat) := []
  faces : List (List Nat) := []
  cells : List (List Nat) := []
  /-- keys of the `hard_edges` attribute of the edge container, `none` when the attribute is absent -/
  hard : Option (List Nat) := none
deriving DecidableEq, Repr

structure Cfg where
  exportEdges : Bool := true      -- config.export_edges_in_obj
  completeEdges : Bool := true    -- config.complete_edges_from_faces
deriving DecidableEq, Repr

variable {C : Type}

def Raw.empty : Raw C := {}

/-- RawMeshData._compute_dimensionality -/
def dim (m : Raw C) : Nat :=
  if m.cells ≠ [] then 3 else if m.faces ≠ [] then 2 else if m.edges ≠ [] then 1 else 0

/-! ### generic helpers -/

def mapOpt {α β} (f : α → Option β) : List α → Option (List β)
  | [] => some []
  | x :: xs =>
    match f x with
    | none => none
    | some y => match mapOpt f xs with
      | none => none
      | some ys => some (y :: ys)

def foldOpt {σ α} (f : σ → α → Option σ) : σ → List α → Option σ
  | s, [] => some s
  | s, x :: xs => match f s x with
    | none => none
    | some s' => foldOpt f s' xs

def num (cd : Codec C) (c : C) : Tok := .txt (cd.fmt c)

/-- `float(tok)` -/
def readNum (cd : Codec C) : Tok → Option C
  | .txt s => cd.parse s
  | .int i => cd.parse (toString i)
  | .kw _ => none

/-- `int(tok)` -/
def readInt : Tok → Option Int
  | .int i => some i
  | _ => none

/-- an index read by `int(tok)` and used as it is (0-based formats); negative = outside the domain -/
def readIdx0 : Tok → Option Nat
  | .int i => if 0 ≤ i then some i.toNat else none
  | _ => none

/-- `int(tok) - 1` (1-based formats); results below 0 are outside the domain -/
def readIdx1 : Tok → Option Nat
  | .int i => if 1 ≤ i then some (i - 1).toNat else none
  | _ => none

def idx0 (n : Nat) : Tok := .int (n : Int)
def idx1 (n : Nat) : Tok := .int ((n : Int) + 1)

/-- `utils.keyify(a,b)` -/
def keyify (e : Nat × Nat) : Nat × Nat := (min e.1 e.2, max e.1 e.2)

def coordLine (cd : Codec C) (v : C × C × C) : Line := [num cd v.1, num cd v.2.1, num cd v.2.2]

/-- `[float(u) for u in line]` for a line holding exactly three numbers -/
def readCoords (cd : Codec C) : Line → Option (C × C × C)
  | [a, b, c] =>
    match readNum cd a, readNum cd b, readNum cd c with
    | some x, some y, some z => some (x, y, z)
    | _, _, _ => none
  | _ => none

/-- an arity-prefixed 0-based record `n i1 … in` (off, tet) -/
def recLine (f : List Nat) : Line := idx0 f.length :: f.map idx0

/-- edges flagged in `hard_edges`: `for e in attr: mesh.edges[e]` -/
def hardEdges (m : Raw C) : List (Nat × Nat) :=
  match m.hard with
  | none => []
  | some h => h.filterMap (fun e => m.edges[e]?)

/-! ### obj.py -/

def vLine (cd : Codec C) (v : C × C × C) : Line := .kw "v" :: coordLine cd v
def lLine (e : Nat × Nat) : Line := [.kw "l", idx1 e.1, idx1 e.2]
def fLine (f : List Nat) : Line := .kw "f" :: f.map idx1

/-- obj.py:85-92 : which edges are written as `l a b` (repaired code: every edge when no face is written, i.e. when
a reader could not complete the edges from faces; the pinned tree tested the cached `dimensionality == 1`) -/
def objEdges (cfg : Cfg) (m : Raw C) : List (Nat × Nat) :=
  if cfg.exportEdges then
    (if !cfg.completeEdges || m.faces.isEmpty then m.edges else hardEdges m)
  else []

def exportObj (cd : Codec C) (cfg : Cfg) (m : Raw C) : File :=
  m.verts.map (vLine cd) ++ ((objEdges cfg m).map lLine ++ m.faces.map fLine)

/-- one iteration of the loop of `parse_obj_data` (normals / texture coordinates are out of scope) -/
def stepObj (cd : Codec C) (r : Raw C) (l : Line) : Option (Raw C) :=
  match l with
  | .kw k :: rest =>
    if k = "v" then
      match rest with
      | a :: b :: c :: _ =>
        match readNum cd a, readNum cd b, readNum cd c with
        | some x, some y, some z => some { r with verts := r.verts ++ [(x, y, z)] }
        | _, _, _ => none
      | _ => none
    else if k = "f" then
      match mapOpt readIdx1 rest with
      | some f => some { r with faces := r.faces ++ [f] }
      | none => none
    else if k = "l" then
      match rest with
      | a :: b :: _ =>
        match readIdx1 a, readIdx1 b with
        | some i, some j => some { r with edges := r.edges ++ [keyify (i, j)] }
        | _, _ => none
      | _ => none
    else if k = "vn" ∨ k = "vt" then none   -- out of scope
    else some r
  | _ => some r

def importObj (cd : Codec C) (file : File) : Option (Raw C) := foldOpt (stepObj cd) Raw.empty file

/-! ### off.py -/

def exportOff (cd : Codec C) (m : Raw C) : File :=
  [.kw "OFF"] :: [idx0 m.verts.length, idx0 m.faces.length, idx0 m.edges.length]
    :: (m.verts.map (coordLine cd) ++ m.faces.map recLine)

/-- one record of the loop `for _ in range(nf)` of `parse_off_data`: 3 → face, 4 → *cell*, other arities are
dropped silently (arity 2 compares strings: outside the modelled domain) -/
def stepOff (r : Raw C) (l : Line) : Option (Raw C) :=
  match l with
  | t :: rest =>
    match readInt t with
    | none => none
    | some nvi =>
      if nvi = 3 then
        match mapOpt readIdx0 (rest.take 3) with
        | some f => some { r with faces := r.faces ++ [f] }
        | none => none
      else if nvi = 4 then
        match mapOpt readIdx0 (rest.take 4) with
        | some c => some { r with cells := r.cells ++ [c] }
        | none => none
      else if nvi = 2 then none
      else some r
  | [] => none

def importOff (cd : Codec C) (file : File) : Option (Raw C) :=
  match file with
  | (.kw k :: _) :: [a, b, c] :: rest =>
    if k = "OFF" then
      match readIdx0 a, readIdx0 b, readInt c with
      | some nv, some nf, some _ =>
        if rest.length < nv + nf then none else
        match mapOpt (readCoords cd) (rest.take nv) with
        | none => none
        | some vs => foldOpt stepOff { verts := vs } ((rest.drop nv).take nf)
      | _, _, _ => none
    else none
  | _ => none

/-! ### tet.py -/

def exportTet (cd : Codec C) (m : Raw C) : File :=
  [idx0 m.verts.length, .kw "vertices"] :: [idx0 m.cells.length, .kw "tets"]
    :: (m.verts.map (coordLine cd) ++ m.cells.map recLine)

/-- `tuple(int(u) for u in get_line()[1:])` : the arity prefix is skipped, not interpreted -/
def readTetRec : Line → Option (List Nat)
  | _ :: ids => mapOpt readIdx0 ids
  | [] => some []

def importTet (cd : Codec C) (file : File) : Option (Raw C) :=
  match file with
  | (a :: _) :: (b :: _) :: rest =>
    match readIdx0 a, readIdx0 b with
    | some nv, some nc =>
      if rest.length < nv + nc then none else
      match mapOpt (readCoords cd) (rest.take nv), mapOpt readTetRec ((rest.drop nv).take nc) with
      | some vs, some cs => some { verts := vs, cells := cs }
      | _, _ => none
    | _, _ => none
  | _ => none

/-! ### xyz.py (without normals) -/

def exportXyz (cd : Codec C) (m : Raw C) : File := m.verts.map (coordLine cd)

def stepXyz (cd : Codec C) (r : Raw C) (l : Line) : Option (Raw C) :=
  match mapOpt (readNum cd) l with
  | none => none
  | some [_] => some r
  | some (x :: y :: z :: _) => some { r with verts := r.verts ++ [(x, y, z)] }
  | some _ => none

def importXyz (cd : Codec C) (file : File) : Option (Raw C) := foldOpt (stepXyz cd) Raw.empty file

/-! ### medit.py -/

/-- the element containers a medit block can feed -/
inductive Cont where | edges | faces | cells
deriving DecidableEq, Repr

/-- `(keyword, container, arity)` rows of the `elif line == …: parse_field(…)` dispatch of `import_medit`
(hand-written normal form; `Generated.C04Medit.rows` is re-extracted from the source on every run and a
bridge lemma in Props/C04 identifies the two). -/
def meditRows : List (String × Cont × Nat) :=
  [("Edges", .edges, 2), ("Triangles", .faces, 3), ("Quadrilaterals", .faces, 4),
   ("Tetrahedra", .cells, 4), ("Hexahedra", .cells, 8)]

def lookupRow (rows : List (String × Cont × Nat)) (k : String) : Option (Cont × Nat) :=
  match rows with
  | [] => none
  | (k', c, n) :: rest => if k = k' then some (c, n) else lookupRow rest k

def medVLine (cd : Codec C) (v : C × C × C) : Line := coordLine cd v ++ [.int 1]
def medRec (f : List Nat) : Line := f.map idx1 ++ [.int 1]

def block (kwd : String) (recs : List Line) : File :=
  if recs = [] then [] else [.kw kwd] :: [idx0 recs.length] :: recs

/-- medit.py:94-105 : `hard_edges` only when the attribute exists and faces or cells are written (repaired code) -/
def medEdges (m : Raw C) : List (Nat × Nat) :=
  match m.hard with
  | none => m.edges
  | some _ => if m.faces.isEmpty && m.cells.isEmpty then m.edges else hardEdges m

def ofArity (n : Nat) (l : List (List Nat)) : List (List Nat) := l.filter (fun f => f.length == n)

def exportMedit (cd : Codec C) (m : Raw C) : File :=
  [.kw "MeshVersionFormatted", .int 1] :: [.kw "Dimension", .int 3] ::
   ((if m.verts = [] then [] else [.kw "Vertices"] :: [idx0 m.verts.length] :: m.verts.map (medVLine cd))
    ++ ((if m.edges = [] then [] else [.kw "Edges"] :: [idx0 (medEdges m).length] :: (medEdges m).map (fun e => medRec [e.1, e.2]))
    ++ (block "Triangles" ((ofArity 3 m.faces).map medRec)
    ++ (block "Quadrilaterals" ((ofArity 4 m.faces).map medRec)
    ++ (block "Hexahedra" ((ofArity 8 m.cells).map medRec)
    ++ block "Tetrahedra" ((ofArity 4 m.cells).map medRec))))))

/-- reader state of `import_medit`: the deque loop re-expressed as a line-by-line automaton -/
inductive MedMode where
  | idle
  | done
  | count (what : Option (Cont × Nat))       -- next line is `int(data.popleft())`; `none` = Vertices
  | inBlock (what : Option (Cont × Nat)) (remaining : Nat)
deriving DecidableEq, Repr

def afterCount (what : Option (Cont × Nat)) (n : Nat) : MedMode :=
  if n = 0 then .idle else .inBlock what n

/-- `parse_field`: `[int(u)-1 for u in line][:nelem]` -/
def readField (nelem : Nat) (l : Line) : Option (List Nat) :=
  match mapOpt readInt l with
  | none => none
  | some is => mapOpt (fun (i : Int) => if 1 ≤ i then some (i - 1).toNat else none) (is.take nelem)

def pushElem (r : Raw C) (c : Cont) (e : List Nat) : Option (Raw C) :=
  match c with
  | .edges => match e with
    | [a, b] => some { r with edges := r.edges ++ [(a, b)] }
    | _ => none
  | .faces => some { r with faces := r.faces ++ [e] }
  | .cells => some { r with cells := r.cells ++ [e] }

def stepMedit (cd : Codec C) (rows : List (String × Cont × Nat)) (s : MedMode × Raw C) (l : Line) :
    Option (MedMode × Raw C) :=
  match s.1 with
  | .done => some s
  | .idle =>
    match l with
    | [.kw k] =>
      if k = "End" then some (.done, s.2)
      else if k = "Vertices" then some (.count none, s.2)
      else match lookupRow rows k with
        | some w => some (.count (some w), s.2)
        | none => some s
    | _ => some s
  | .count what =>
    match l with
    | [t] => match readIdx0 t with
      | some n => some (afterCount what n, s.2)
      | none => none
    | _ => none
  | .inBlock what (n + 1) =>
    match what with
    | none =>
      match l with
      | a :: b :: c :: _ =>
        match readNum cd a, readNum cd b, readNum cd c with
        | some x, some y, some z => some (afterCount none n, { s.2 with verts := s.2.verts ++ [(x, y, z)] })
        | _, _, _ => none
      | _ => none
    | some (c, k) =>
      match readField k l with
      | none => none
      | some e => match pushElem s.2 c e with
        | some r => some (afterCount (some (c, k)) n, r)
        | none => none
  | .inBlock _ 0 => none

def importMeditWith (cd : Codec C) (rows : List (String × Cont × Nat)) (file : File) : Option (Raw C) :=
  match foldOpt (stepMedit cd rows) (.idle, Raw.empty) file with
  | some (.idle, r) => some r
  | some (.done, r) => some r
  | _ => none      -- popleft on an empty deque

def importMedit (cd : Codec C) (file : File) : Option (Raw C) := importMeditWith cd meditRows file

/-- an INDEPENDENT medit writer (reference layout, written from the format definition, not from mouette): version 2,
reference column 0, blocks in another legal order (quadrilaterals, triangles, tetrahedra, hexahedra, all edges), and
the closing `End` keyword.  Used for the interoperability theorem `medit_reads_reference`. -/
def refMedRec (f : List Nat) : Line := f.map idx1 ++ [.int 0]

def refExportMedit (cd : Codec C) (m : Raw C) : File :=
  [.kw "MeshVersionFormatted", .int 2] :: [.kw "Dimension", .int 3] ::
   ((if m.verts = [] then [] else
      [.kw "Vertices"] :: [idx0 m.verts.length] :: m.verts.map (fun v => coordLine cd v ++ [.int 0]))
    ++ (block "Quadrilaterals" ((ofArity 4 m.faces).map refMedRec)
    ++ (block "Triangles" ((ofArity 3 m.faces).map refMedRec)
    ++ (block "Tetrahedra" ((ofArity 4 m.cells).map refMedRec)
    ++ (block "Hexahedra" ((ofArity 8 m.cells).map refMedRec)
    ++ (block "Edges" ((m.edges.map (fun e => [e.1, e.2])).map refMedRec)
    ++ [[.kw "End"]]))))))

/-! ### stl.py (binary writer; the reader `stl_reader` is external: modelled as "returns the triangle
soup of the file", vertex merging is not modelled) -/

abbrev Pt (C : Type) := C × C × C
abbrev Tri (C : Type) := Pt C × Pt C × Pt C

def r32pt (cd : Codec C) (p : Pt C) : Pt C := (cd.r32 p.1, cd.r32 p.2.1, cd.r32 p.2.2)

/-- `Binary_STL_Writer.write`: triangles as they are, quads as two triangles, anything else raises -/
def stlFaceTris (m : Raw C) (f : List Nat) : Option (List (Tri C)) :=
  match mapOpt (fun v => m.verts[v]?) f with
  | none => none
  | some [a, b, c] => some [(a, b, c)]
  | some [a, b, c, d] => some [(a, b, c), (c, d, a)]
  | some _ => none

def stlTris (m : Raw C) : Option (List (Tri C)) := (mapOpt (stlFaceTris m) m.faces).map List.flatten

def stlRec (cd : Codec C) (t : Tri C) : Line :=
  [num cd cd.zero, num cd cd.zero, num cd cd.zero] ++
  (coordLine cd (r32pt cd t.1) ++ (coordLine cd (r32pt cd t.2.1) ++ (coordLine cd (r32pt cd t.2.2) ++ [.int 0])))

def exportStl (cd : Codec C) (m : Raw C) : Option File :=
  match stlTris m with
  | none => none
  | some ts => some ([idx0 ts.length] :: ts.map (stlRec cd))

def readStlRec (cd : Codec C) : Line → Option (Tri C)
  | [_, _, _, a1, a2, a3, b1, b2, b3, c1, c2, c3, _] =>
    match readCoords cd [a1, a2, a3], readCoords cd [b1, b2, b3], readCoords cd [c1, c2, c3] with
    | some a, some b, some c => some (a, b, c)
    | _, _, _ => none
  | _ => none

/-- the triangle soup of a binary STL file -/
def stlSoup (cd : Codec C) (file : File) : Option (List (Tri C)) :=
  match file with
  | [t] :: rest =>
    match readIdx0 t with
    | some n => if rest.length = n then mapOpt (readStlRec cd) rest else none
    | none => none
  | _ => none

/-- soup → indexed mesh without vertex merging (`_import_stl_ascii` does exactly this) -/
def soupMesh (ts : List (Tri C)) : Raw C :=
  { verts := (ts.map (fun t => [t.1, t.2.1, t.2.2])).flatten,
    faces := (List.range ts.length).map (fun i => [3 * i, 3 * i + 1, 3 * i + 2]) }

def importStl (cd : Codec C) (file : File) : Option (Raw C) := (stlSoup cd file).map soupMesh

/-! ### the vocabulary table: what `load (save m)` must be, per format (before completion by `prepare`) -/

def restrictObj (cfg : Cfg) (m : Raw C) : Raw C :=
  { verts := m.verts, edges := (objEdges cfg m).map keyify, faces := m.faces }

def restrictOff (m : Raw C) : Raw C := { verts := m.verts, faces := m.faces }
def restrictTet (m : Raw C) : Raw C := { verts := m.verts, cells := m.cells }
def restrictXyz (m : Raw C) : Raw C := { verts := m.verts }

def restrictMedit (m : Raw C) : Raw C :=
  { verts := m.verts, edges := medEdges m,
    faces := ofArity 3 m.faces ++ ofArity 4 m.faces, cells := ofArity 8 m.cells ++ ofArity 4 m.cells }

/-- triangles of `m` as coordinate triples rounded to binary32 (STL vocabulary) -/
def restrictStlSoup (cd : Codec C) (m : Raw C) : Option (List (Tri C)) :=
  (mapOpt (fun f => match mapOpt (fun v => m.verts[v]?) f with
      | some [a, b, c] => some (r32pt cd a, r32pt cd b, r32pt cd c)
      | _ => none) (ofArity 3 m.faces))

/-! ### `mouette.mesh.save` : re-wrap + `ignore_elements`; `load`: class from the dimensionality -/

structure Ignore where
  edges : Bool := false
  faces : Bool := false
  cells : Bool := false
deriving DecidableEq, Repr

/-- mesh.py:82-92 (`DataContainer.clear` also drops the attributes of the container) -/
def applyIgnore (ig : Ignore) (m : Raw C) : Raw C :=
  { verts := m.verts,
    edges := if ig.edges then [] else m.edges,
    hard := if ig.edges then none else m.hard,
    faces := if ig.faces then [] else m.faces,
    cells := if ig.cells then [] else m.cells }

end Mouette.IO
