import Mouette.Model.UnionFind
/-
Model of `mouette/processing/cutting.py` (class `SingularityCutter`), core Lean only:

* `_build_cut_edges_tree`  : `cut_edges = set(id_edges) - evisited` (+ adjacency, derived here from the edge table)
* `_prune_edge_tree`       : FIFO leaf pruning that stops at singular vertices
* `_build_mesh_with_cuts`  : one vertex per corner, `UnionFind(range(3*|F|))`, union across uncut interior
                             edges (through `connectivity.direct_face`), `find` on every corner, compaction `imap`,
                             `order_verts`, `ref_vertex`.

The stages before (`shortest_path`, Kruskal on paths, dual Dijkstra) are not modelled: their result `evisited`
is an input. Edges are given by the table `E` (`mesh.edges`, pairs of vertex ids), faces by `F`.
-/
namespace Mouette.Cutting
open Mouette

abbrev Face := List Nat

/-! ### `_build_cut_edges_tree` -/

/-- `set(id_edges) - evisited`, kept in increasing id order (the code's set order is forgotten by the comparator). -/
def cutEdges0 (nE : Nat) (evisited : List Nat) : List Nat :=
  (List.range nE).filter (fun e => !evisited.contains e)

/-- other end of edge `e` seen from `A` (`none` if `A` is not an end of `e`) -/
def other (E : List (Nat × Nat)) (e A : Nat) : Option Nat :=
  match E[e]? with
  | some (a, b) => if a = A then some b else if b = A then some a else none
  | none => none

/-- ids of the cut edges incident to `A` (the model of `cut_adj[A]`, as edges) -/
def incident (E : List (Nat × Nat)) (cut : List Nat) (A : Nat) : List Nat :=
  cut.filter (fun e => (other E e A).isSome)

def degree (E : List (Nat × Nat)) (cut : List Nat) (A : Nat) : Nat := (incident E cut A).length

/-- `cut_adj[A]` as a list of neighbours -/
def adj (E : List (Nat × Nat)) (cut : List Nat) (A : Nat) : List Nat :=
  (incident E cut A).filterMap (fun e => other E e A)

/-! ### `_prune_edge_tree` -/

/-- initial queue: `for i in id_vertices: if len(cut_adj[i])==1 and i not in singularities` -/
def pruneInit (nV : Nat) (E : List (Nat × Nat)) (cut sing : List Nat) : List Nat :=
  (List.range nV).filter (fun i => degree E cut i == 1 && !sing.contains i)

/-- body of `for B in self.cut_adj[A]` for the edge `e = {A,B}`: remove it, enqueue `B` if it became a
non-singular leaf -/
def removeEdge (E : List (Nat × Nat)) (sing : List Nat) (A : Nat) (st : List Nat × List Nat) (e : Nat) :
    List Nat × List Nat :=
  let c' := st.1.erase e
  match other E e A with
  | some B => if degree E c' B == 1 && !sing.contains B then (c', st.2 ++ [B]) else (c', st.2)
  | none => (c', st.2)

/-- one iteration of the `while len(queue)>0` loop -/
def pruneStep (E : List (Nat × Nat)) (sing : List Nat) (st : List Nat × List Nat) : List Nat × List Nat :=
  match st.2 with
  | [] => st
  | A :: q => (incident E st.1 A).foldl (removeEdge E sing A) (st.1, q)

def pruneLoop (E : List (Nat × Nat)) (sing : List Nat) : Nat → List Nat × List Nat → List Nat × List Nat
  | 0, st => st
  | fuel + 1, st => match st.2 with
    | [] => st
    | _ :: _ => pruneLoop E sing fuel (pruneStep E sing st)

/-- `_prune_edge_tree`; returns the remaining cut edges and what is left of the queue (empty iff the fuel
`nV + |cut| + 1` sufficed; reported by the driver on every case). -/
def prune (nV : Nat) (E : List (Nat × Nat)) (cut sing : List Nat) : List Nat × List Nat :=
  pruneLoop E sing (nV + cut.length + 1) (cut, pruneInit nV E cut sing)

/-! ### `_build_mesh_with_cuts` -/

/-- `self._output_mesh.faces.append([kF+_i for _i in range(nF)])` -/
def cornerFacesFrom : Nat → List Face → List (List Nat)
  | _, [] => []
  | k, f :: fs => (List.range f.length).map (k + ·) :: cornerFacesFrom (k + f.length) fs

def cornerFaces (F : List Face) : List (List Nat) := cornerFacesFrom 0 F

/-- original vertex of every corner, in corner order (`vertices.append(pv)`; positions are represented by
the id of the original vertex they were copied from) -/
def cornerVerts (F : List Face) : List Nat := F.flatten

/-- `_half_edges[(P,Pnext)] = [.., iF, iV, (iV+1)%n]` for one face -/
def halfEdgesOfFace (iF : Nat) (f : Face) : List ((Nat × Nat) × (Nat × Nat × Nat)) :=
  (List.range f.length).map fun iV =>
    ((f.getD iV 0, f.getD ((iV + 1) % f.length) 0), (iF, iV, (iV + 1) % f.length))

def halfEdgesFrom : Nat → List Face → List ((Nat × Nat) × (Nat × Nat × Nat))
  | _, [] => []
  | i, f :: fs => halfEdgesOfFace i f ++ halfEdgesFrom (i + 1) fs

def halfEdges (F : List Face) := halfEdgesFrom 0 F

/-- `connectivity.direct_face(u,v,True)`: dict lookup, the last face written wins -/
def directFace (he : List ((Nat × Nat) × (Nat × Nat × Nat))) (u v : Nat) : Option (Nat × Nat × Nat) :=
  (he.reverse.find? (fun x => x.1 == (u, v))).map (·.2)

def corner (CF : List (List Nat)) (f i : Nat) : Option Nat := (CF[f]?).bind (·[i]?)

/-- `UnionFind(range(n))` -/
def ufRange (n : Nat) : UF.State := (List.range n).foldl UF.add UF.init

/-- the four corners joined across the edge `(a,b)`: `((c1,c2),(c3,c4))`; `none` models the `TypeError`
raised when one of the two half edges does not exist -/
def gluePairs (he : List ((Nat × Nat) × (Nat × Nat × Nat))) (CF : List (List Nat)) (ab : Nat × Nat) :
    Option ((Nat × Nat) × (Nat × Nat)) :=
  match directFace he ab.1 ab.2, directFace he ab.2 ab.1 with
  | some (f1, iA1, iB1), some (f2, iB2, iA2) =>
    match corner CF f1 iA1, corner CF f2 iA2, corner CF f1 iB1, corner CF f2 iB2 with
    | some c1, some c2, some c3, some c4 => some ((c1, c2), (c3, c4))
    | _, _, _, _ => none
  | _, _ => none

/-- all union pairs in the order the code performs them (`none`: TypeError somewhere) -/
def unionPairs (he : List ((Nat × Nat) × (Nat × Nat × Nat))) (CF : List (List Nat)) :
    List (Nat × Nat) → Option (List (Nat × Nat))
  | [] => some []
  | ab :: r => match gluePairs he CF ab, unionPairs he CF r with
    | some (p, q), some l => some (p :: q :: l)
    | _, _ => none

def applyUnions (s : UF.State) (ps : List (Nat × Nat)) : UF.State :=
  ps.foldl (fun s p => UF.union s p.1 p.2) s

/-- `[uf.find(v) for v in l]`, threading the mutation; `none` = ValueError -/
def findAll (s : UF.State) : List Nat → Option (UF.State × List Nat)
  | [] => some (s, [])
  | x :: xs => match UF.find s x with
    | none => none
    | some (s1, r) => match findAll s1 xs with
      | none => none
      | some (s2, rs) => some (s2, r :: rs)

def findFaces (s : UF.State) : List (List Nat) → Option (UF.State × List (List Nat))
  | [] => some (s, [])
  | f :: fs => match findAll s f with
    | none => none
    | some (s1, r) => match findFaces s1 fs with
      | none => none
      | some (s2, rs) => some (s2, r :: rs)

/-- `if v in imap: continue; imap[v]=i; i+=1` (`i = len(imap)` throughout) -/
def imapStep (m : List (Nat × Nat)) (v : Nat) : List (Nat × Nat) :=
  if (m.lookup v).isSome then m else m ++ [(v, m.length)]

def buildImap (faces1 : List (List Nat)) : List (Nat × Nat) := faces1.flatten.foldl imapStep []

/-- `[imap[v] for v in F]`; `none` = KeyError -/
def mapFace (m : List (Nat × Nat)) : List Nat → Option (List Nat)
  | [] => some []
  | v :: r => match m.lookup v, mapFace m r with
    | some k, some l => some (k :: l)
    | _, _ => none

def mapFaces (m : List (Nat × Nat)) : List (List Nat) → Option (List (List Nat))
  | [] => some []
  | f :: r => match mapFace m f, mapFaces m r with
    | some k, some l => some (k :: l)
    | _, _ => none

/-- `order_verts[imap[u]] = vertices[u]` for `u in range(len(vertices))` with `u in imap` (values of `imap`
are pairwise distinct, so slot `k` is written by the unique key mapped to `k`); `none` = slot left `None` -/
def orderVerts (m : List (Nat × Nat)) (cv : List Nat) : List (Option Nat) :=
  (List.range m.length).map fun k =>
    (m.find? (fun e => e.2 == k && decide (e.1 < cv.length))).map (fun e => cv.getD e.1 0)

/-- corners of original vertex `v` in increasing order (`duplicate_vertices[v]`) -/
def cornersOf (cv : List Nat) (v : Nat) : List Nat :=
  (List.range cv.length).filter (fun c => cv.getD c 0 == v)

/-- `ref_vertex[u] = v` : writes in the order of the code (`v` increasing), the last write wins -/
def refWrites (m : List (Nat × Nat)) (cs rs : List Nat) (cv : List Nat) : Option (List (Nat × Nat)) :=
  match cs, rs with
  | c :: cs', r :: rs' => match m.lookup r, refWrites m cs' rs' cv with
    | some k, some l => some ((k, cv.getD c 0) :: l)
    | _, _ => none
  | _, _ => some []

/-- dict read after a sequence of writes (last write wins) -/
def lastWrite (ws : List (Nat × Nat)) (k : Nat) : Option Nat := ws.reverse.lookup k

structure Out where
  faces : List (List Nat)          -- `output_mesh.faces`
  pos   : List (Option Nat)        -- per output vertex: original vertex whose position it carries
  ref   : List (Nat × Nat)         -- writes into `ref_vertex`, in order
  roots3 : List (List Nat)         -- `find` of every corner, face by face (first round)
  cs7    : List Nat                -- corners in the order of the second round of `find`
  roots7 : List Nat                -- second round of `find` results
deriving Repr

inductive Err where | type | value | key
deriving Repr, DecidableEq

/-- `_build_mesh_with_cuts`. `uncut` = the pairs `mesh.edges[e]` for `e in interior_edges`, `e not in cut_edges`,
in that order. -/
def build (nV : Nat) (F : List Face) (uncut : List (Nat × Nat)) : Except Err Out :=
  let CF := cornerFaces F
  let cv := cornerVerts F
  let he := halfEdges F
  match unionPairs he CF uncut with
  | none => .error .type
  | some ps =>
    let s1 := applyUnions (ufRange (3 * F.length)) ps
    match findFaces s1 CF with
    | none => .error .value
    | some (s2, faces1) =>
      let m := buildImap faces1
      match mapFaces m faces1 with
      | none => .error .key
      | some faces2 =>
        let cs := (List.range nV).flatMap (cornersOf cv)
        match findAll s2 cs with
        | none => .error .value
        | some (_, rs) =>
          match refWrites m cs rs cv with
          | none => .error .key
          | some ws => .ok { faces := faces2, pos := orderVerts m cv, ref := ws,
                             roots3 := faces1, cs7 := cs, roots7 := rs }

/-- the pairs handed to `build` (`for e in interior_edges: if e not in cut_edges`) -/
def uncutPairs (E : List (Nat × Nat)) (interior cut : List Nat) : List (Nat × Nat) :=
  (interior.filter (fun e => !cut.contains e)).map (fun e => E.getD e (0, 0))

/-- second-round roots agree with the first round (decidable side condition reported by the driver;
it is the hypothesis of `ref_vertex_total`) -/
def stableRoots (o : Out) : Bool :=
  (o.cs7.zip o.roots7).all (fun cr => o.roots3.flatten.getD cr.1 (cr.2 + 1) == cr.2)

end Mouette.Cutting
