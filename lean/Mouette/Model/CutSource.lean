import Mouette.Model.Cutting
/-
Vocabulary of the C16 TRANSLATED fragments (`Generated/C16Cut.lean`, written by `vlib/gen/c16_translate.py` from
`mouette/processing/cutting.py` on every run). Core Lean only.

The translator reads `SingularityCutter._build_cut_edges_tree`, `_prune_edge_tree`, the loops of `_build_mesh_with_cuts`
and the three `run` methods IMPERATIVELY and emits state-passing Lean functions. The primitives below are the meaning
given to the Python operations it recognises:

  `set(self.input_mesh.id_edges) - evisited`           `setDiff (idRange nE) evisited`
  `dict([(i,set()) for i in …id_vertices])`            `emptyAdj`                   (a total map vertex -> list; KeyError not modelled)
  `self.cut_adj[k].add(x)`                             `sadd adj k x`               (appended when absent)
  `self.cut_adj[k].remove(x)`                          `sremove adj k x`            (KeyError on an absent element is not modelled)
  `self.cut_adj[k] = set()`                            `sclear adj k`
  `len(self.cut_adj[k])`                               `(adj k).length`
  `for B in self.cut_adj[A]`                           fold over the list `adj A` AS IT WAS when the loop started
  `self.cut_edges.remove(e)`                           `cut.erase e`
  `self.input_mesh.edges[e]`                           `edgeEnds E e`
  `self.input_mesh.connectivity.edge_id(A,B)`          `edgeId E A B`
  `deque()`, `.append(x)`, `.popleft()`                `[]`, `q ++ [x]`, `(q.headD 0, q.tail)`
  `while len(queue)>0: body`                           recursion on a fuel argument (`nV + |cut| + 1`, as in the hand model;
                                                       `prune_queue_empty` proves the loop exits by its own condition)
  `[uf.find(v) for v in F]`                            `findAll uf F`               (state threaded left to right; `none` = ValueError)
  `[imap[v] for v in F]`                               `mapFace imap F`             (`none` = KeyError)
  `faces[i] = <list>` inside `for i,F in enumerate(faces)`   the new face list is accumulated in order
The order in which Python iterates a `set` is not modelled: sets are duplicate-free lists in insertion order.
-/
namespace Mouette.CutSrc
open Mouette.Cutting

/-- `cut_adj`: vertex -> set of neighbours -/
abbrev AdjMap := Nat → List Nat

def emptyAdj : AdjMap := fun _ => []

def sadd (m : AdjMap) (k x : Nat) : AdjMap :=
  fun v => if v = k then (if (m k).contains x then m k else m k ++ [x]) else m v

def sremove (m : AdjMap) (k x : Nat) : AdjMap := fun v => if v = k then (m k).erase x else m v

def sclear (m : AdjMap) (k : Nat) : AdjMap := fun v => if v = k then [] else m v

def idRange (n : Nat) : List Nat := List.range n

def setDiff (a b : List Nat) : List Nat := a.filter (fun e => !b.contains e)

def edgeEnds (E : List (Nat × Nat)) (e : Nat) : Nat × Nat := E.getD e (0, 0)

/-- `connectivity.edge_id(A,B)`: the id of the edge whose ends are `A` and `B` (0 when there is none: not modelled) -/
def edgeId (E : List (Nat × Nat)) (A B : Nat) : Nat :=
  ((List.range E.length).find? (fun e => other E e A == some B)).getD 0

/-- the attributes `cut_edges`, `cut_adj` of the cutter and the local `queue` of `_prune_edge_tree` -/
structure St where
  cut   : List Nat
  adj   : AdjMap
  queue : List Nat

/-! ### `__init__`: the argument `singularities` as an iterable -/

/-- an iterable over vertex ids: `items` = what iterating it yields NOW; `oneShot` = it is exhausted by one iteration (generator
expression, iterator, `map` / `filter` object) -/
structure Iter where
  items   : List Nat
  oneShot : Bool

/-- `[x for x in it]`, `set(it)`, `list(it)`: the items, and the iterable afterwards -/
def iterate (it : Iter) : List Nat × Iter := (it.items, if it.oneShot then { it with items := [] } else it)

/-- `set(l)`: duplicates collapse (iteration order of the set not modelled) -/
def setOf (l : List Nat) : List Nat := l.eraseDups

/-! ### `_build_mesh_with_cuts` -/

/-- `self._output_mesh.faces`, `.vertices` (as ids of the input vertex whose position is copied), `duplicate_vertices` and the
local `kF` -/
structure CornerSt where
  faces : List (List Nat)
  verts : List Nat
  dup   : List (Nat × Nat)      -- `duplicate_vertices`: the pairs (input vertex, corner) in the order they are added
  kF    : Nat

/-- `self._output_mesh.faces[f][i]` -/
def faceAt (CF : List (List Nat)) (f i : Nat) : Option Nat := corner CF f i

/-- `connectivity.direct_face(u,v,True)` on the half-edge table of the input faces -/
def directFaceOf (F : List Face) (u v : Nat) : Option (Nat × Nat × Nat) := directFace (halfEdges F) u v

/-- `imap` (dict, insertion order) and the local counter `i` -/
structure ImapSt where
  imap : List (Nat × Nat)
  i    : Nat

def dhas (m : List (Nat × Nat)) (k : Nat) : Bool := (m.lookup k).isSome
def dput (m : List (Nat × Nat)) (k v : Nat) : List (Nat × Nat) := m ++ [(k, v)]
/-- `imap[k]` (KeyError not modelled: every read is guarded or total in the source) -/
def dget (m : List (Nat × Nat)) (k : Nat) : Nat := (m.lookup k).getD 0

end Mouette.CutSrc
