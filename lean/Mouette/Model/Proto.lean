/-
Line protocol helpers (core Lean only): whitespace-separated tokens, integers in decimal,
rationals as `p/q` (or `p`), lists length-prefixed.
-/
namespace Mouette.Proto

abbrev P := StateT (List String) Option

def tok : P String := fun ts => match ts with | [] => none | t :: r => some (t, r)

def nat : P Nat := do let t ← tok; match t.toNat? with | some n => pure n | none => failure
def int : P Int := do let t ← tok; match t.toInt? with | some n => pure n | none => failure

def parseRat (t : String) : Option Rat :=
  match t.splitOn "/" with
  | [p] => p.toInt?.map (fun (i : Int) => (i : Rat))
  | [p, q] => do
      let pi ← p.toInt?
      let qn ← q.toNat?
      if qn = 0 then none else some ((pi : Rat) / (qn : Rat))
  | _ => none

def rat : P Rat := do let t ← tok; match parseRat t with | some q => pure q | none => failure

def bool : P Bool := do
  let t ← tok
  if t = "1" || t = "T" then pure true else if t = "0" || t = "F" then pure false else failure

partial def repeatP {α} (p : P α) : Nat → P (List α)
  | 0 => pure []
  | n+1 => do let x ← p; let xs ← repeatP p n; pure (x :: xs)

/-- length-prefixed list -/
def listOf {α} (p : P α) : P (List α) := do let n ← nat; repeatP p n

def eof : P Unit := fun ts => match ts with | [] => some ((), []) | _ => none

def runP {α} (p : P α) (ts : List String) : Option α :=
  match (do let x ← p; eof; pure x : P α) ts with
  | some (x, _) => some x
  | none => none

def fmtRat (q : Rat) : String :=
  if q.den = 1 then toString q.num else s!"{q.num}/{q.den}"

def fmtList {α} (f : α → String) (l : List α) : String :=
  " ".intercalate (toString l.length :: l.map f)

def fmtNats (l : List Nat) : String := fmtList toString l
def fmtInts (l : List Int) : String := fmtList toString l
def fmtRats (l : List Rat) : String := fmtList fmtRat l
def fmtBool (b : Bool) : String := if b then "1" else "0"
def fmtOptNat : Option Nat → String | none => "N" | some n => toString n

def optNat : P (Option Nat) := do
  let t ← tok
  if t = "N" then pure none else match t.toNat? with | some n => pure (some n) | none => failure

end Mouette.Proto
