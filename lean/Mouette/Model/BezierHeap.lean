import Mouette.Model.Bezier
/-
C19 round 3 — `de_casteljau` on an explicit heap, to express "evaluation does not change the control net".
Python: `coeffs = [x for x in P]` copies the *references* to the control points (shallow copy); the update
`coeffs[i] = t*coeffs[i+1] + (1-t)*coeffs[i]` computes a fresh array and re-binds slot `i` (`rebind = true`);
an update written with `*=` / `+=` would overwrite the cell the slot points to, i.e. a control point of the
curve (`rebind = false`, kept for the refutation). Core Lean only, executable.
-/
namespace Mouette.BezierHeap
open Mouette.Bezier

structure St where
  /-- one cell per array object (scalar model: one coordinate) -/
  heap : List Rat
  /-- the list object `coeffs`: slots holding references into `heap` -/
  coeffs : List Nat

/-- value read through slot `k` -/
def deref (s : St) (k : Nat) : Rat := s.heap.getD (s.coeffs.getD k 0) 0

/-- `coeffs[i] = <fresh value>` -/
def storeRebind (s : St) (i : Nat) (v : Rat) : St :=
  { heap := s.heap ++ [v], coeffs := s.coeffs.set i s.heap.length }

/-- `coeffs[i] *= a; coeffs[i] += b` (in place on the referenced cell) -/
def storeInPlace (s : St) (i : Nat) (v : Rat) : St :=
  { heap := s.heap.set (s.coeffs.getD i 0) v, coeffs := s.coeffs }

def store (rebind : Bool) (s : St) (i : Nat) (v : Rat) : St :=
  if rebind then storeRebind s i v else storeInPlace s i v

def inner (rebind : Bool) (t : Rat) (n : Nat) (s : St) : St :=
  (List.range n).foldl (fun s i => store rebind s i (lerp t (deref s i) (deref s (i + 1)))) s

def outer (rebind : Bool) (t : Rat) (order : Nat) (s : St) : St :=
  (List.range order).foldl (fun s j => inner rebind t (order - j) s) s

/-- `de_casteljau(P, t)` where `P` is a list of references into `heap` -/
def run (rebind : Bool) (t : Rat) (heap : List Rat) (P : List Nat) : St :=
  outer rebind t (P.length - 1) { heap := heap, coeffs := P }

def result (s : St) : Rat := deref s 0

/-- the values of the control points as seen through `P` -/
def values (heap : List Rat) (P : List Nat) : List Rat := P.map (fun r => heap.getD r 0)

/-- a history of evaluations on ONE object: the heap persists from one call to the next -/
def evalMany (rebind : Bool) (heap : List Rat) (P : List Nat) : List Rat → List Rat × List Rat
  | [] => ([], heap)
  | t :: ts =>
    let s := run rebind t heap P
    let r := evalMany rebind s.heap P ts
    (result s :: r.1, r.2)

end Mouette.BezierHeap

/-! ### numeric representation of control values -/
namespace Mouette.BezierHeap

/-- how a control coordinate was handed to the library; `val` is its exact value -/
inductive Num where
  | int (z : Int)          -- Python int / numpy integer
  | f32 (q : Rat)          -- numpy float32 (every finite float is a rational)
  | f64 (q : Rat)          -- Python float / numpy float64

def Num.val : Num → Rat
  | .int z => (z : Rat)
  | .f32 q => q
  | .f64 q => q

/-- `BezierCurve.evaluate` on a represented net: the model factors through the exact values -/
def evalCurveRepr (coords : List (List Num)) (t : Rat) : Option (List Rat) :=
  Mouette.Bezier.evalCurve (coords.map (fun P => P.map Num.val)) t

def evalPatchRepr (nets : List (List (List Num))) (u v : Rat) : Option (List Rat) :=
  Mouette.Bezier.evalPatch (nets.map (fun rows => rows.map (fun P => P.map Num.val))) u v

end Mouette.BezierHeap
