/-
Executable model of `mouette/mesh/subdivision.py` (C13), core Lean only.

A mesh under edition is the raw data the code works on (`RawMeshData`): vertex list (exact `Rat`
coordinates), edge list (pairs, smallest index first = `keyify`), face list, cell list.  Every
operation is transcribed as coded (in-place `set` at the index + appends; dict lookups with
last-write-wins; `prepare()`'s edge/face completion on exit).  Errors of the code are an enum.

The editing block (`with SurfaceSubdivision(mesh) as ed: ...`) shares its containers with the input
object until an operation *replaces* `self.mesh` (loop_subdivision, subdivide_triangles_3quads);
`Block` below models the two aliases, the shipped `__exit__` (pinned tree) and the repaired one.
-/
namespace Mouette.Subdiv

abbrev Pt := Rat × Rat × Rat

namespace Pt
def add (p q : Pt) : Pt := (p.1 + q.1, p.2.1 + q.2.1, p.2.2 + q.2.2)
def sub (p q : Pt) : Pt := (p.1 - q.1, p.2.1 - q.2.1, p.2.2 - q.2.2)
def smul (c : Rat) (p : Pt) : Pt := (c * p.1, c * p.2.1, c * p.2.2)
def divn (p : Pt) (n : Nat) : Pt := (p.1 / (n : Rat), p.2.1 / (n : Rat), p.2.2 / (n : Rat))
def zero : Pt := (0, 0, 0)
def cross (a b : Pt) : Pt :=
  (a.2.1 * b.2.2 - a.2.2 * b.2.1, a.2.2 * b.1 - a.1 * b.2.2, a.1 * b.2.1 - a.2.1 * b.1)
def dot (a b : Pt) : Rat := a.1 * b.1 + a.2.1 * b.2.1 + a.2.2 * b.2.2
end Pt

/-- `(pA + pB)/2` -/
def mid (p q : Pt) : Pt := (Pt.add p q).divn 2

def sumPts (ps : List Pt) : Pt := ps.foldr Pt.add Pt.zero

/-- `sum([...])/len(...)` -/
def bary (ps : List Pt) : Pt := (sumPts ps).divn ps.length

/-- `keyify(a,b)` -/
def keyify (a b : Nat) : Nat × Nat := if a ≤ b then (a, b) else (b, a)

/-- `keyify(face)`: sorted tuple -/
def insertSorted (x : Nat) : List Nat → List Nat
  | [] => [x]
  | y :: t => if x ≤ y then x :: y :: t else y :: insertSorted x t

def keyifyL (l : List Nat) : List Nat := l.foldr insertSorted []

inductive Err where
  | index | key | value | other
deriving DecidableEq, Repr

structure Raw where
  verts : List Pt
  edges : List (Nat × Nat)
  faces : List (List Nat)
  cells : List (List Nat)
deriving Repr

def Raw.empty : Raw := ⟨[], [], [], []⟩

/-- cyclic consecutive pairs `(f[k], f[(k+1)%n])`, k = 0..n-1 -/
def cycGo {α} (first : α) : List α → List (α × α)
  | [] => []
  | [x] => [(x, first)]
  | x :: y :: t => (x, y) :: cycGo first (y :: t)

def cycPairs {α} : List α → List (α × α)
  | [] => []
  | a :: t => cycGo a (a :: t)

/-- `[g(x) for x in l]` where `g` may raise (structural recursion, easier to reason about than `List.mapM`) -/
def mapE {α β} (g : α → Except Err β) : List α → Except Err (List β)
  | [] => .ok []
  | a :: t => match g a with
    | .error e => .error e
    | .ok b => match mapE g t with
      | .error e => .error e
      | .ok bs => .ok (b :: bs)

/-- `for x in l: state = g(state, x)` where `g` may raise -/
def foldE {σ α} (g : σ → α → Except Err σ) : σ → List α → Except Err σ
  | s, [] => .ok s
  | s, a :: t => match g s a with
    | .error e => .error e
    | .ok s' => foldE g s' t

def getPt (m : Raw) (a : Nat) : Except Err Pt :=
  match m.verts[a]? with | some p => .ok p | none => .error Err.index

def pts (m : Raw) (f : List Nat) : Except Err (List Pt) := mapE (getPt m) f

/-! ### surface operations -/

/-- `split_face_as_fan` -/
def splitFaceAsFan (m : Raw) (fid : Nat) : Except Err Raw :=
  match m.faces[fid]? with
  | none => throw .index
  | some f => do
    let ps ← pts m f
    let iV := m.verts.length
    match cycPairs f with
    | [] => throw .index
    | (a, b) :: rest =>
      pure { m with
        verts := m.verts ++ [bary ps]
        faces := m.faces.set fid [a, b, iV] ++ rest.map (fun ab => [ab.1, ab.2, iV])
        edges := m.edges ++ f.map (fun v => keyify v iV) }

/-- `triangulate_face` (repaired code: the quad cut also records the diagonal edge) -/
def triangulateFace (m : Raw) (fid : Nat) : Except Err Raw :=
  match m.faces[fid]? with
  | none => throw .index
  | some f =>
    match f with
    | [a, b, c, d] =>
      pure { m with faces := m.faces.set fid [a, b, d] ++ [[b, c, d]], edges := m.edges ++ [keyify b d] }
    | _ => if f.length < 4 then pure m else splitFaceAsFan m fid

/-- `triangulate`: `for f in range(len(faces))` (the range is fixed at loop start) -/
def triangulateFrom (m : Raw) : List Nat → Except Err Raw
  | [] => pure m
  | f :: fs =>
    match m.faces[f]? with
    | none => throw .index
    | some face =>
      if face.length ≠ 3 then do
        let m' ← triangulateFace m f
        triangulateFrom m' fs
      else triangulateFrom m fs

def triangulate (m : Raw) : Except Err Raw := triangulateFrom m (List.range m.faces.length)

def edgeMid (m : Raw) (e : Nat × Nat) : Except Err Pt :=
  match m.verts[e.1]?, m.verts[e.2]? with
  | some p, some q => .ok (mid p q)
  | _, _ => .error Err.index

def midpointsOf (m : Raw) : Except Err (List Pt) := mapE (edgeMid m) m.edges

/-- the dict `half` of the code: `for (A,B) in edges: half[keyify(A,B)] = C` with `C` counting up from `base`;
a lookup returns the *last* write for the key (dict semantics) -/
def halfLookup : List (Nat × Nat) → Nat → (Nat × Nat) → Option Nat
  | [], _, _ => none
  | e :: es, c, k =>
    match halfLookup es (c + 1) k with
    | some r => some r
    | none => if keyify e.1 e.2 = k then some c else none

/-- `half[keyify(a,b)]` (KeyError when absent); `h` = (edge list, first new index) -/
def getHalf (h : List (Nat × Nat) × Nat) (a b : Nat) : Except Err Nat :=
  match halfLookup h.1 h.2 (keyify a b) with
  | some c => .ok c
  | none => .error .key

/-- a Python `set` of keyified edges turned into a list: some duplicate-free order -/
def dedup {α} [BEq α] (l : List α) : List α := l.foldl (fun acc x => if acc.elem x then acc else acc ++ [x]) []

def loopFace (h : List (Nat × Nat) × Nat) (f : List Nat) : Except Err (List (List Nat) × List (Nat × Nat)) :=
  match f with
  | [a, b, c] => do
    let mab ← getHalf h a b
    let mbc ← getHalf h b c
    let mca ← getHalf h c a
    pure ([[mab, mbc, mca], [a, mab, mca], [b, mbc, mab], [c, mca, mbc]],
          [keyify a mab, keyify mab b, keyify b mbc, keyify mbc c, keyify c mca, keyify mca a,
           keyify mab mbc, keyify mbc mca, keyify mca mab])
  | _ => throw .value

/-- one pass of the `for _ in range(n)` body of `loop_subdivision` -/
def loopOnce (m : Raw) : Except Err Raw := do
  let mids ← midpointsOf m
  let h := (m.edges, m.verts.length)
  let parts ← mapE (loopFace h) m.faces
  pure { verts := m.verts ++ mids
         edges := dedup (parts.flatMap (·.2))
         faces := parts.flatMap (·.1)
         cells := [] }

def iterM {α} (f : α → Except Err α) : Nat → α → Except Err α
  | 0, a => pure a
  | n + 1, a => do let a' ← f a; iterM f n a'

/-- `loop_subdivision(n)` -/
def loopSubdivision (m : Raw) (n : Nat) : Except Err Raw := do
  let m ← triangulate m
  iterM loopOnce n m

def quadsFace (h : List (Nat × Nat) × Nat) (s : Nat) (f : List Nat) :
    Except Err (List (List Nat) × List (Nat × Nat)) :=
  match f with
  | [a, b, c] => do
    let mab ← getHalf h a b
    let mbc ← getHalf h b c
    let mca ← getHalf h c a
    pure ([[a, mab, s, mca], [b, mbc, s, mab], [c, mca, s, mbc]],
          [keyify a mab, keyify mab b, keyify b mbc, keyify mbc c, keyify c mca, keyify mca a,
           keyify mab s, keyify mbc s, keyify mca s])
  | _ => throw .value

/-- `enumerate` starting at `base` -/
def number {α} : Nat → List α → List (Nat × α)
  | _, [] => []
  | k, a :: t => (k, a) :: number (k + 1) t

def baryCentres (m : Raw) : Except Err (List Pt) :=
  mapE (fun f => do let ps ← pts m f; pure ((sumPts ps).divn 3)) m.faces

/-- `subdivide_triangles_3quads` (repaired code: the refined mesh gets its edges) -/
def quads3 (m : Raw) : Except Err Raw := do
  let m ← triangulate m
  let mids ← midpointsOf m
  let h := (m.edges, m.verts.length)
  let bs ← baryCentres m
  let base := m.verts.length + m.edges.length
  let parts ← mapE (fun sf => quadsFace h sf.1 sf.2) (number base m.faces)
  pure { verts := m.verts ++ mids ++ bs
         edges := dedup (parts.flatMap (·.2))
         faces := parts.flatMap (·.1)
         cells := [] }

/-- `subdivide_triangles_6(repeat)` -/
def sub6 (m : Raw) (rep : Nat) : Except Err Raw :=
  iterM (fun m => do let m ← quads3 m; triangulate m) rep m

/-! ### polyline -/

/-- `split_edge` (repaired code: the edge is replaced, not concatenated) -/
def splitEdge (m : Raw) (eid : Nat) : Except Err Raw :=
  match m.edges[eid]? with
  | none => throw .index
  | some (a, b) =>
    match m.verts[a]?, m.verts[b]? with
    | some pa, some pb =>
      let c := m.verts.length
      pure { m with verts := m.verts ++ [mid pa pb], edges := m.edges.set eid (keyify a c) ++ [keyify b c] }
    | _, _ => throw .index

/-! ### volume operations -/

/-- `split_cell_as_fan` -/
def splitCellAsFan (m : Raw) (cid : Nat) : Except Err Raw :=
  match m.cells[cid]? with
  | none => throw .index
  | some cell =>
    match cell with
    | [a, b, c, d] => do
      let ps ← pts m cell
      let ib := m.verts.length
      pure { m with
        verts := m.verts ++ [Pt.smul (1/4) (sumPts ps)]
        cells := m.cells.set cid [ib, b, c, d] ++ [[a, ib, c, d], [a, b, ib, d], [a, b, c, ib]] }
    | _ => pure m

def isSubset (f c : List Nat) : Bool := f.all (fun v => c.elem v)

/-- index of the first vertex of the cell that is not in the face -/
def oppIndex (f cell : List Nat) : Option Nat :=
  (List.range cell.length).find? (fun i => match cell[i]? with | some x => !(f.elem x) | none => false)

/-- the three cells obtained by putting the centre at every position but `iF` -/
def centreCells (cell : List Nat) (iF ic : Nat) : List (List Nat) :=
  ((List.range 4).filter (· ≠ iF)).map (fun i => cell.set i ic)

def splitOneCell (ic : Nat) (f : List Nat) (cells : List (List Nat)) (c : Nat) : Except Err (List (List Nat)) :=
  match cells[c]? with
  | none => throw .index
  | some cell =>
    if cell.length ≠ 4 then pure cells else
    match oppIndex f cell with
    | none => throw .index
    | some iF =>
      match centreCells cell iF ic with
      | [c0, c1, c2] => pure (cells.set c c0 ++ [c1, c2])
      | _ => throw .index

/-- cells of the current cell list that contain the face (list built before the loop starts) -/
def adjacentCells (m : Raw) (f : List Nat) : List Nat :=
  (List.range m.cells.length).filter (fun k => match m.cells[k]? with | some cell => isSubset f cell | none => false)

/-- `split_tet_from_face_center` (repaired code: adjacent cells are read from the current cell list) -/
def splitTetFromFaceCenter (m : Raw) (fid : Nat) : Except Err Raw :=
  match m.faces[fid]? with
  | none => throw .index
  | some f =>
    match f with
    | [a, b, c] => do
      let ps ← pts m f
      let ic := m.verts.length
      let cells ← foldE (splitOneCell ic f) m.cells (adjacentCells m f)
      pure { m with
        verts := m.verts ++ [(sumPts ps).divn 3]
        cells := cells
        faces := m.faces.set fid [a, b, ic] ++ [[ic, b, c], [a, ic, c]] }
    | _ => pure m

/-! ### `prepare()` : completion of faces from cells and of edges from faces -/

def tetFaces : List Nat → List (List Nat)
  | [v0, v1, v2, v3] => [[v1, v3, v2], [v0, v2, v3], [v3, v1, v0], [v0, v1, v2]]
  | _ => []

def completeFaces (m : Raw) : Raw :=
  let start : List (List Nat) × List (List Nat) := (m.faces.map keyifyL, m.faces)
  let r := (m.cells.flatMap tetFaces).foldl (fun (acc : List (List Nat) × List (List Nat)) f =>
    let k := keyifyL f
    if acc.1.elem k then acc else (acc.1 ++ [k], acc.2 ++ [f])) start
  { m with faces := r.2 }

def sidesKeyed (f : List Nat) : List (Nat × Nat) := (cycPairs f).map (fun ab => keyify ab.1 ab.2)

def completeEdges (m : Raw) : Raw :=
  let e0 := m.edges.map (fun e => keyify e.1 e.2)
  { m with edges := (m.faces.flatMap sidesKeyed).foldl (fun acc k => if acc.elem k then acc else acc ++ [k]) e0 }

def prepare (m : Raw) : Raw := completeEdges (completeFaces m)

/-- face corners generated by `prepare`: one per (face, vertex) -/
def cornerCount (m : Raw) : Nat := (m.faces.map List.length).sum

/-! ### the editing block -/

inductive Op where
  | fan (f : Nat) | triFace (f : Nat) | tri | loop (n : Nat) | quads3 | sub6 (n : Nat)
  | cellFan (c : Nat) | faceSplit (f : Nat) | edgeSplit (e : Nat)
deriving Repr

def applyOp (m : Raw) : Op → Except Err Raw
  | .fan f => splitFaceAsFan m f
  | .triFace f => triangulateFace m f
  | .tri => triangulate m
  | .loop n => loopSubdivision m n
  | .quads3 => quads3 m
  | .sub6 n => sub6 m n
  | .cellFan c => splitCellAsFan m c
  | .faceSplit f => splitTetFromFaceCenter m f
  | .edgeSplit e => splitEdge m e

/-- runs the operations; on an error reports the index of the failing operation and the state reached -/
def runOps (m : Raw) : List Op → Nat → Raw × Option (Err × Nat)
  | [], _ => (m, none)
  | op :: ops, i =>
    match applyOp m op with
    | .ok m' => runOps m' ops (i + 1)
    | .error e => (m, some (e, i))

/-- the part of an operation that mutates the shared containers in place, and whether it then rebinds
`self.mesh` to fresh containers -/
def Op.inPlacePart (m : Raw) : Op → Except Err Raw
  | .fan f => splitFaceAsFan m f
  | .triFace f => triangulateFace m f
  | .tri => triangulate m
  | .loop _ => triangulate m
  | .quads3 => triangulate m
  | .sub6 n => if n = 0 then pure m else triangulate m
  | .cellFan c => splitCellAsFan m c
  | .faceSplit f => splitTetFromFaceCenter m f
  | .edgeSplit e => splitEdge m e

def Op.replaces : Op → Bool
  | .loop n => n ≠ 0
  | .quads3 => true
  | .sub6 n => n ≠ 0
  | _ => false

/-- what an observer sees of a mesh object: its containers, the number of face corners, and the
face list its connectivity cache was computed from (`none` = nothing cached) -/
structure View where
  raw : Raw
  corners : Nat
  cache : Option (List (List Nat))
deriving Repr

/-- state of the block: `work` = `self.mesh`; `shared` = the containers the input object points to;
`detached` = an operation has rebound `self.mesh` -/
structure Block where
  work : Raw
  shared : Raw
  detached : Bool
  cache : Option (List (List Nat))

/-- `__enter__`: wrap sharing the containers, clear the (shared) corner container -/
def Block.enter (input : View) : Block := ⟨input.raw, input.raw, false, input.cache⟩

def Block.step (b : Block) (op : Op) : Except Err Block := do
  let w ← applyOp b.work op
  if b.detached then pure { b with work := w }
  else if op.replaces then do
    let s ← op.inPlacePart b.shared
    pure { b with work := w, shared := s, detached := true }
  else pure { b with work := w, shared := w }

def Block.run (b : Block) : List Op → Except Err Block
  | [] => pure b
  | op :: ops => do let b' ← b.step op; Block.run b' ops

/-- result object of the block -/
def Block.result (b : Block) : View := ⟨prepare b.work, cornerCount (prepare b.work), none⟩

/-- the input object after the *shipped* `__exit__` (pinned tree): its containers are the shared ones; the corner
container was cleared on enter and is refilled only if it is still the one `prepare` runs on; its
connectivity cache is whatever it was -/
def Block.inputShipped (b : Block) : View :=
  if b.detached then ⟨b.shared, 0, b.cache⟩ else ⟨prepare b.work, cornerCount (prepare b.work), b.cache⟩

/-- the input object after the *repaired* `__exit__`: re-initialised on the prepared data -/
def Block.inputFixed (b : Block) : View := b.result

/-- an object is coherent when its corners spell its faces and its cache (if any) was computed from its faces -/
def View.coherent (v : View) : Bool :=
  v.corners == cornerCount v.raw && (match v.cache with | none => true | some fs => fs == v.raw.faces)

/-! ### `split_double_boundary_edges_triangles` (round 5) -/

/-- `deg[a] += 1` -/
def bump (deg : List Nat) (a : Nat) : Except Err (List Nat) :=
  match deg[a]? with
  | some d => .ok (deg.set a (d + 1))
  | none => .error Err.index

/-- `deg = [0]*len(vertices); for (a,b) in edges: deg[a] += 1; deg[b] += 1` -/
def degrees (m : Raw) : Except Err (List Nat) :=
  foldE (fun deg e => match bump deg e.1 with | .error er => .error er | .ok d => bump d e.2)
    (List.replicate m.verts.length 0) m.edges

/-- the scan of one face: the first corner of degree < 2 raises ("Isolated vertex"), the first corner of degree 2 makes the
face a problem face (`break`), otherwise the face is left alone -/
def scanFace (deg : List Nat) : List Nat → Except Err Bool
  | [] => .ok false
  | v :: t =>
    match deg[v]? with
    | none => .error Err.index
    | some d => if d < 2 then .error Err.other else if d = 2 then .ok true else scanFace deg t

/-- indices (counted from `k`) of the flags that are set -/
def pbOf : Nat → List Bool → List Nat
  | _, [] => []
  | k, b :: t => (if b then [k] else []) ++ pbOf (k + 1) t

/-- `split_double_boundary_edges_triangles`: every face with a corner of degree 2 is split as a fan inside ONE editing block
(whose exit prepares the data); without such a face the mesh is returned as it is -/
def splitDoubleBoundary (m : Raw) : Except Err Raw :=
  match degrees m with
  | .error er => .error er
  | .ok deg =>
    match mapE (scanFace deg) m.faces with
    | .error er => .error er
    | .ok flags =>
      if pbOf 0 flags = [] then .ok m
      else match foldE splitFaceAsFan m (pbOf 0 flags) with
        | .error er => .error er
        | .ok m' => .ok (prepare m')

end Mouette.Subdiv
