import Mouette.Model.MeshHeap
/-
Extension of the mesh model (C06 round 2): the `copy_attributes` / `copy_connectivity` switches of `copy`.

Per mesh, next to the coordinates (Model/MeshHeap.lean, unchanged):
* one vertex attribute `"w"` (dense, 3 floats per vertex), as one heap cell per vertex row (abstraction of the rows of the
  attribute's matrix): `createAttr`, `setAttr` (`a[v] = val`), `editAttr` (`r = a[v]; r[c] = x`, a row VIEW: writes
  through);
* the identity of its connectivity handler object and the mesh that handler's back-reference `.mesh` points to.
`copyX i attrs conn` follows the repaired `copy`: coordinates always in fresh cells; attributes deep-copied iff
`copy_attributes`; the copy ALWAYS owns its connectivity handler (with `copy_connectivity` the caches are deep-copied
and the back-reference re-pointed to the copy). `legacyCopyX` is the code as it was: `copy_mesh.connectivity =
mesh.connectivity` (one handler object for two meshes, pointing at the source).
-/
namespace Mouette.MeshHeap

structure Conn where
  master : Nat
  deriving DecidableEq, Repr

structure MeshX where
  attr : Option (List Nat)
  conn : Nat
  deriving DecidableEq, Repr

structure StateX where
  st : State
  extras : List MeshX
  conns : List Conn

def initX : StateX := { st := init, extras := [], conns := [] }

inductive OpX where
  | base (op : Op)
  | copyX (i : Nat) (attrs conn : Bool)
  | createAttr (i : Nat)
  | setAttr (i v : Nat) (val : V3)
  | editAttr (i v c : Nat) (x : Rat)

/-- a mesh made by `new` / default `copy` / `merge` has no attribute and its own connectivity handler -/
def pushPlain (s : StateX) (st' : State) : StateX :=
  { st := st', extras := s.extras ++ [{ attr := none, conn := s.conns.length }],
    conns := s.conns ++ [{ master := s.st.meshes.length }] }

def attrRows (h : Heap) (e : MeshX) : Option (List V3) := e.attr.map (fun refs => refs.map (deref h))

def copyX (s : StateX) (i : Nat) (attrs : Bool) : StateX :=
  match s.st.meshes[i]?, s.extras[i]? with
  | some _, some e =>
    let st1 := copyMesh s.st i
    match e.attr, attrs with
    | some refs, true =>
      let (h2, rs) := alloc st1.heap (refs.map (deref s.st.heap))
      { st := { st1 with heap := h2 }, extras := s.extras ++ [{ attr := some rs, conn := s.conns.length }],
        conns := s.conns ++ [{ master := s.st.meshes.length }] }
    | _, _ => pushPlain s st1
  | _, _ => s

/-- `copy(..., copy_connectivity=True)` as it was written: the handler object of the source is assigned to the copy -/
def legacyCopyX (s : StateX) (i : Nat) : StateX :=
  match s.st.meshes[i]?, s.extras[i]? with
  | some _, some e =>
    { st := copyMesh s.st i, extras := s.extras ++ [{ attr := none, conn := e.conn }], conns := s.conns }
  | _, _ => s

def stepX (s : StateX) : OpX → StateX
  | .base op =>
    let st' := step s.st op
    if s.st.meshes.length < st'.meshes.length then pushPlain s st' else { s with st := st' }
  | .copyX i attrs _ => copyX s i attrs
  | .createAttr i =>
    match s.st.meshes[i]?, s.extras[i]? with
    | some m, some e =>
      let (h, refs) := alloc s.st.heap (List.replicate m.verts.length V3.zero)
      { s with st := { s.st with heap := h }, extras := s.extras.set i { e with attr := some refs } }
    | _, _ => s
  | .setAttr i v val =>
    match s.extras[i]? with
    | some e => match e.attr with
      | some refs => match refs[v]? with
        | some r => { s with st := { s.st with heap := s.st.heap.set r val } }
        | none => s
      | none => s
    | none => s
  | .editAttr i v c x =>
    match s.extras[i]? with
    | some e => match e.attr with
      | some refs => match refs[v]? with
        | some r => { s with st := { s.st with heap := s.st.heap.set r ((deref s.st.heap r).set c x) } }
        | none => s
      | none => s
    | none => s

def runX (s : StateX) (ops : List OpX) : StateX := ops.foldl stepX s

end Mouette.MeshHeap
