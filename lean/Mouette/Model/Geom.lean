/-
C07 — executable model of the geometric quantities of mouette (core Lean only, exact `Rat`).

Mirrors `mouette/geometry/geometry.py` and `mouette/attributes/attr_*.py`, `glob.py`, `interpolate.py`
*as coded*.  Square roots / atan2 are never evaluated here: the model outputs the rational
pre-transcendental quantities (squared lengths, squared areas, `(|BA×BC|², BA·BC)` pairs, unnormalised
normals) and the incidence *structure* of the weighted sums (which corners are subtracted in an angle
defect, which corner is read for a cotangent weight, ...); the harness applies `sqrt/atan2` at the end.
-/
namespace Mouette.Geom

@[ext] structure V3 where
  x : Rat
  y : Rat
  z : Rat
deriving Repr, DecidableEq

def V3.zero : V3 := ⟨0, 0, 0⟩
instance : Inhabited V3 := ⟨V3.zero⟩

def add (a b : V3) : V3 := ⟨a.x + b.x, a.y + b.y, a.z + b.z⟩
def sub (a b : V3) : V3 := ⟨a.x - b.x, a.y - b.y, a.z - b.z⟩
def smul (k : Rat) (a : V3) : V3 := ⟨k * a.x, k * a.y, k * a.z⟩
def dot (a b : V3) : Rat := a.x * b.x + a.y * b.y + a.z * b.z

/-- `geometry.cross`, with the operand order of the source (`B[0]*A[2] - B[2]*A[0]` for the middle one). -/
def cross (a b : V3) : V3 :=
  ⟨a.y * b.z - a.z * b.y, b.x * a.z - b.z * a.x, a.x * b.y - a.y * b.x⟩

def norm2 (a : V3) : Rat := dot a a
def dist2 (a b : V3) : Rat := norm2 (sub b a)

/-- `geometry.det_2x2` -/
def det2 (ax ay bx by_ : Rat) : Rat := ax * by_ - ay * bx

/-- `geometry.det_3x3(A,B,C)`: rule of Sarrus on the matrix whose ROWS are A, B, C. -/
def det3 (a b c : V3) : Rat :=
  a.x * b.y * c.z + a.y * b.z * c.x + a.z * b.x * c.y
    - a.x * b.z * c.y - a.y * b.x * c.z - a.z * b.y * c.x

/-- `(pA+pB)/2` -/
def mid (a b : V3) : V3 := smul (1 / 2) (add a b)

/-- square of `geometry.triangle_area` (= |AB × AC|² / 4) -/
def triArea2 (a b c : V3) : Rat := norm2 (cross (sub b a) (sub c a)) / 4

/-- the pair `(|BA × BC|², BA · BC)` from which `angle_3pts(A,B,C) = atan2(√·, ·)` and
`cotan(A,B,C) = · / √·` are computed -/
def cornerCS (a b c : V3) : Rat × Rat :=
  (norm2 (cross (sub a b) (sub c b)), dot (sub a b) (sub c b))

def vsum (ps : List V3) : V3 := ps.foldr add V3.zero

/-- `sum(points)/len(points)` -/
def bary (ps : List V3) : V3 := smul (1 / (ps.length : Rat)) (vsum ps)

/-- Circumcentre of the triangle `a b c` (closed form; equals what `geometry.circumcenter` constructs
through the face basis, perpendicular bisectors in the plane and the plane offset, see
`Props/C07.lean: circumcenter_equidistant_and_coplanar`). -/
def circumcenter (a b c : V3) : V3 :=
  let u := sub b a
  let v := sub c a
  let n := cross u v
  let w := cross (sub (smul (norm2 u) v) (smul (norm2 v) u)) n
  add a (smul (1 / (2 * norm2 n)) w)

/-- what the *unrepaired* `geometry.circumcenter` returned: the in-plane part only (the component along the
unit normal `Z` of the plane origin is dropped): `cc − (a·n) n / |n|²`. Kept for the refutation witness. -/
def circumcenterNoOffset (a b c : V3) : V3 :=
  let n := cross (sub b a) (sub c a)
  sub (circumcenter a b c) (smul (dot a n / norm2 n) n)

/-- signed `6·volume`: `det_3x3(pA-pD, pB-pD, pC-pD)` -/
def tetDet (a b c d : V3) : Rat := det3 (sub a d) (sub b d) (sub c d)

def absR (q : Rat) : Rat := if q < 0 then -q else q

/-- `abs(det)/6` -/
def tetVolume (a b c d : V3) : Rat := absR (tetDet a b c d) / 6

/-! ### 3×3 matrices (rigid motions) -/

structure M3 where
  r0 : V3
  r1 : V3
  r2 : V3
deriving Repr

def M3.apply (m : M3) (a : V3) : V3 := ⟨dot m.r0 a, dot m.r1 a, dot m.r2 a⟩
def M3.det (m : M3) : Rat := det3 m.r0 m.r1 m.r2
/-- column `j` -/
def M3.c0 (m : M3) : V3 := ⟨m.r0.x, m.r1.x, m.r2.x⟩
def M3.c1 (m : M3) : V3 := ⟨m.r0.y, m.r1.y, m.r2.y⟩
def M3.c2 (m : M3) : V3 := ⟨m.r0.z, m.r1.z, m.r2.z⟩

/-- `RᵀR = I` (columns orthonormal) as six equations -/
def M3.Orthogonal (m : M3) : Prop :=
  dot m.c0 m.c0 = 1 ∧ dot m.c1 m.c1 = 1 ∧ dot m.c2 m.c2 = 1 ∧
  dot m.c0 m.c1 = 0 ∧ dot m.c0 m.c2 = 0 ∧ dot m.c1 m.c2 = 0

/-- rotation from an integer quaternion `(a,b,c,d)` (Pythagorean quadruple construction used by the harness) -/
def quatRot (a b c d : Rat) : M3 :=
  let n := a*a + b*b + c*c + d*d
  ⟨⟨(a*a + b*b - c*c - d*d) / n, 2 * (b*c - a*d) / n, 2 * (b*d + a*c) / n⟩,
   ⟨2 * (b*c + a*d) / n, (a*a - b*b + c*c - d*d) / n, 2 * (c*d - a*b) / n⟩,
   ⟨2 * (b*d - a*c) / n, 2 * (c*d + a*b) / n, (a*a - b*b - c*c + d*d) / n⟩⟩

/-! ### mesh level -/

abbrev Face := List Nat

def pt (vs : List V3) (i : Nat) : V3 := vs.getD i V3.zero

def facePts (vs : List V3) (f : Face) : List V3 := f.map (pt vs)

/-- `face_area`: `(weight, terms)` with area `= weight · Σ √term`.
triangle: `triangle_area`; quad: `quad_area` (mean of the two diagonal splits); otherwise fan around the barycentre. -/
def faceAreaTerms (vs : List V3) (f : Face) : Rat × List Rat :=
  match facePts vs f with
  | [a, b, c] => (1, [triArea2 a b c])
  | [a, b, c, d] => (1 / 2, [triArea2 a b c, triArea2 a c d, triArea2 b c d, triArea2 b d a])
  | ps =>
    let n := ps.length
    let g := bary ps
    (1, (List.range n).map (fun i => triArea2 (ps.getD i V3.zero) (ps.getD ((i + 1) % n) V3.zero) g))

/-- `face_normals` before normalisation: cross product on the first three vertices -/
def faceNormalDir (vs : List V3) (f : Face) : V3 :=
  let a := pt vs (f.getD 0 0); let b := pt vs (f.getD 1 0); let c := pt vs (f.getD 2 0)
  cross (sub b a) (sub c a)

def faceBary (vs : List V3) (f : Face) : V3 := bary (facePts vs f)

/-- `corner_angles`: for corner `i` of the face, `angle_3pts(prev, v, next)` -/
def faceCornerCS (vs : List V3) (f : Face) : List (Rat × Rat) :=
  let n := f.length
  (List.range n).map (fun i =>
    cornerCS (pt vs (f.getD ((i + n - 1) % n) 0)) (pt vs (f.getD i 0)) (pt vs (f.getD ((i + 1) % n) 0)))

/-- `cotangent` (direct branch) on a triangle `(iA,iB,iC)`: the argument triples as coded
`cot[3i] = cotan(pC,pA,pB); cot[3i+1] = cotan(pA,pB,pC); cot[3i+2] = cotan(pB,pC,pA)` -/
def cotanArgs : List (Nat × Nat × Nat) := [(2, 0, 1), (0, 1, 2), (1, 2, 0)]

def triCotanCS (vs : List V3) (f : Face) : List (Rat × Rat) :=
  cotanArgs.map (fun (p, q, r) => cornerCS (pt vs (f.getD p 0)) (pt vs (f.getD q 0)) (pt vs (f.getD r 0)))

def isTriangular (faces : List Face) : Bool := faces.all (fun f => f.length == 3)

/-- local index of the directed side `a→b` in face `f` -/
def sideIndex (f : Face) (a b : Nat) : Option Nat :=
  let n := f.length
  (List.range n).find? (fun i => f.getD i 0 == a && f.getD ((i + 1) % n) 0 == b)

/-- `connectivity.direct_face(a,b,True)`: `(T, iA, iB)` -/
def directFaceAux : List Face → Nat → Nat → Nat → Option (Nat × Nat × Nat)
  | [], _, _, _ => none
  | f :: fs, t, a, b =>
    match sideIndex f a b with
    | some i => some (t, i, (i + 1) % f.length)
    | none => directFaceAux fs (t + 1) a b

def directFace (faces : List Face) (a b : Nat) : Option (Nat × Nat × Nat) := directFaceAux faces 0 a b

/-- the index expression of `cotan_weights`: `face_to_first_corner(T) + 3 - iA - iB` (triangle meshes: first corner `3T`) -/
def oppCorner (t iA iB : Nat) : Nat := 3 * t + 3 - iA - iB

/-- `cotan_weights`: corners whose cotangent (halved) is accumulated on edge `(a,b)` -/
def cotanWeightCorners (faces : List Face) (e : Nat × Nat) : List Nat :=
  (match directFace faces e.1 e.2 with | some (t, i, j) => [oppCorner t i j] | none => []) ++
  (match directFace faces e.2 e.1 with | some (t, j, i) => [oppCorner t i j] | none => [])

/-- the `face_corners` container: corner → vertex, corner → face -/
def cornerVerts (faces : List Face) : List Nat := faces.flatten
def cornerFacesAux : List Face → Nat → List Nat
  | [], _ => []
  | f :: fs, t => f.map (fun _ => t) ++ cornerFacesAux fs (t + 1)
def cornerFaces (faces : List Face) : List Nat := cornerFacesAux faces 0

def sides (f : Face) : List (Nat × Nat) :=
  let n := f.length
  (List.range n).map (fun i => (f.getD i 0, f.getD ((i + 1) % n) 0))

def allSides (faces : List Face) : List (Nat × Nat) := (faces.map sides).flatten

/-- boundary vertex: end point of a side whose opposite side is absent -/
def isBorderVertex (faces : List Face) (v : Nat) : Bool :=
  let ss := allSides faces
  ss.any (fun s => (s.1 == v || s.2 == v) && !(ss.contains (s.2, s.1)))

def indicesWhere (l : List Nat) (v : Nat) : List Nat :=
  (List.range l.length).filter (fun i => l.getD i 0 == v)

/-- `angle_defects` structure: `(k, corners)` meaning `defect = k·π − Σ angle[c]`;
interior: `k = 2`; border: `k = 1`, or `k = 0` and nothing subtracted when `zero_border`. -/
def angleDefectStruct (faces : List Face) (zeroBorder : Bool) (v : Nat) : Nat × List Nat :=
  let cs := indicesWhere (cornerVerts faces) v
  if isBorderVertex faces v then (if zeroBorder then (0, []) else (1, cs)) else (2, cs)

/-- `degree`: number of edges at the vertex -/
def degree (edges : List (Nat × Nat)) (v : Nat) : Nat :=
  (edges.filter (fun e => e.1 == v)).length + (edges.filter (fun e => e.2 == v)).length

/-- faces containing vertex `v` (`vertex_to_faces`, as a set) -/
def vertexFaces (faces : List Face) (v : Nat) : List Nat :=
  (List.range faces.length).filter (fun t => (faces.getD t []).contains v)

/-! ### interpolation -/

def rsum (l : List Rat) : Rat := l.foldr (· + ·) 0

/-- weighted mean `Σ wᵢ xᵢ / Σ wᵢ` (the shape of every weighting mode of `interpolate_faces_to_vertices`,
`average_corners_to_*`: uniform = all weights 1, area, angle) -/
def wmean (wx : List (Rat × Rat)) : Rat :=
  rsum (wx.map (fun p => p.1 * p.2)) / rsum (wx.map (fun p => p.1))

/-- `interpolate_vertices_to_faces` -/
def interpV2F (vals : List Rat) (f : Face) : Rat :=
  rsum (f.map (fun v => vals.getD v 0)) / (f.length : Rat)

/-- `interpolate_faces_to_vertices(weight='sum')` and `'uniform'` -/
def interpF2VSum (faces : List Face) (vals : List Rat) (v : Nat) : Rat :=
  rsum ((vertexFaces faces v).map (fun t => vals.getD t 0))
def interpF2VUniform (faces : List Face) (vals : List Rat) (v : Nat) : Rat :=
  interpF2VSum faces vals v / ((vertexFaces faces v).length : Rat)

end Mouette.Geom
