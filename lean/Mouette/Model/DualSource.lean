import Mouette.Model.Dijkstra
import Mouette.Model.CutSource
/-
Vocabulary of the TRANSLATED dual Dijkstra of C16 (`Generated/C16Dual.lean`, written by `vlib/gen/c16_translate.py` from
`SingularityCutter._build_dual_tree_no_features` on every run). Core Lean only.

  `fvisited` (ArrayAttribute(bool)), `path` (`[None ..]`), `dist` (`[inf ..]`)      total maps `Nat → _` with point update `Dijkstra.upd`;
                                                                                 `float("inf")` is `none` (as in the C09 model)
  `PriorityQueue()`, `.push(x, p)`, `.empty()`, `.get().x`                        the C20 queue model `PQ`; the heap's choice is the
                                                                                 parameter `pop` (contract `PopOK`, proved for `PQ.pop`)
  `self.input_mesh.connectivity.face_to_edges(F)`                                parameter `f2e`
  `self.input_mesh.connectivity.opposite_face(v1,v2,F)`                          parameter `opp`  (`None` = `none`)
  `forbidden_edges[e]`                                                          parameter `forbidden`
  `face_distance(f1,f2)` (= `distance(barycenters[f1], barycenters[f2])`)        parameter `fd` (non-negative: a Euclidean distance)
  `dist[a] + d`, `x > y`                                                        `Dijkstra.addW`, `Dijkstra.gt`
  `while not queue.empty(): iF = queue.get().x; body`                           `match pop s.queue with | none => exit | some (it, q) => ..`
                                                                                 on a fuel argument
  `{path[f] for f in id_faces if path[f] is not None}`                          `(idRange nF).filterMap s.path`
-/
namespace Mouette.DualSrc
open Mouette.PQ

structure DSt where
  visited : Nat → Bool
  path    : Nat → Option Nat      -- edge id that first/last improved the face
  dist    : Nat → Option Rat
  queue   : Queue

end Mouette.DualSrc
