import Mouette.Model.Geom
/-
C07/C08 — model of the name-keyed attribute caches of a mesh (core Lean only).

A geometric attribute `q` (face areas, corner angles, cotangents, face normals, cell volumes) is computed from the current
geometry by `f`; a persistent computation stores it in the mesh under a name; later functions follow the pattern
`if mesh.<container>.has_attribute(name): use it  else: compute it` (`total_area`, `angle_defects`, `cotan_weights`,
`vertex_normals`, `laplacian`, the mass matrices, ...).  Moving the vertices (`transform.translate/rotate/scale`, vertex
assignment) does NOT touch the stored attribute — exactly as coded.
-/
namespace Mouette.GeomCache

structure St (α β : Type) where
  geo : α
  cache : Option β

inductive Op (α : Type) where
  | compute                 -- persistent computation: recompute from the geometry and (over)write the stored attribute
  | read                    -- a function that uses the stored attribute when present, else computes
  | move (g : α → α)        -- the vertices are moved; the stored attribute is left as it is
  | drop                    -- the attribute is deleted

def step {α β : Type} (f : α → β) (s : St α β) : Op α → St α β × Option β
  | .compute => ({ s with cache := some (f s.geo) }, some (f s.geo))
  | .read => (s, some (match s.cache with | some c => c | none => f s.geo))
  | .move g => ({ s with geo := g s.geo }, none)
  | .drop => ({ s with cache := none }, none)

/-- run a history, collecting the values returned by `compute` and `read` -/
def run {α β : Type} (f : α → β) : St α β → List (Op α) → St α β × List β
  | s, [] => (s, [])
  | s, op :: ops =>
    let r := step f s op
    let rest := run f r.1 ops
    (rest.1, (match r.2 with | some v => [v] | none => []) ++ rest.2)

/-- the fresh values the same history would return if every `compute`/`read` recomputed from the current geometry -/
def fresh {α β : Type} (f : α → β) : α → List (Op α) → List β
  | _, [] => []
  | x, .compute :: ops => f x :: fresh f x ops
  | x, .read :: ops => f x :: fresh f x ops
  | x, .move g :: ops => fresh f (g x) ops
  | x, .drop :: ops => fresh f x ops

/-- the stored attribute, when present, is the attribute of the current geometry -/
def Consistent {α β : Type} (f : α → β) (s : St α β) : Prop := ∀ c, s.cache = some c → c = f s.geo

/-- all moves of the history leave `f` unchanged on geometries satisfying the invariant `I` (which they preserve) -/
def MovesPreserve {α β : Type} (f : α → β) (I : α → Prop) : List (Op α) → Prop
  | [] => True
  | .move g :: ops => (∀ x, I x → I (g x) ∧ f (g x) = f x) ∧ MovesPreserve f I ops
  | _ :: ops => MovesPreserve f I ops

open Mouette.Geom in
/-- all squared-area terms of the mesh (what `face_area` stores under the name 'area') -/
def areaAttr (faces : List Face) (vs : List V3) : List (Rat × List Rat) := faces.map (faceAreaTerms vs)
open Mouette.Geom in
/-- all corner `(cross², dot)` pairs of the mesh (what `corner_angles` / `cotangent` store under 'angles' / 'cotan') -/
def cornerAttr (faces : List Face) (vs : List V3) : List (List (Rat × Rat)) := faces.map (faceCornerCS vs)

end Mouette.GeomCache
