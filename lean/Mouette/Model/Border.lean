import Mouette.Model.Surface
/-
Executable model of mouette/processing/border.py (C15): `extract_border_cycle` (the walk as coded:
first ring neighbour, then "first neighbour that is a border vertex and is not the previous one",
at most `len(mesh.vertices)` steps), `extract_border_cycle_all`, `extract_boundary_of_surface`
(polyline edges re-indexed through `map_v2v`).  Built on `Model/Surface.lean` (sorted rings, border
classification, edge ids).  Core Lean only.
-/
namespace Mouette.Border
open Mouette.Surface

/-- the `for v in vertex_to_vertices(point2)` loop: new `(point1, point2)`; unchanged when no
    neighbour qualifies (the `for` falls through) -/
def nextBorder (S : Surf) (bv : List Nat) (p1 p2 : Nat) : Nat × Nat :=
  match (vertexToVertices S p2).find? (fun v => bv.contains v && v != p1) with
  | some v => (p2, v)
  | none => (p1, p2)

/-- the `while point2 != starting_point and nvisited < MAX_VISITED` loop, then the closing edge -/
def walk (S : Surf) (bv : List Nat) (start : Nat) :
    Nat → Nat → Nat → List Nat → List (Option Nat) → List Nat × List (Option Nat)
  | 0, p1, p2, vb, eb => (vb, eb ++ [edgeId S p1 p2])
  | fuel+1, p1, p2, vb, eb =>
    if p2 == start then (vb, eb ++ [edgeId S p1 p2])
    else
      let q := nextBorder S bv p1 p2
      walk S bv start fuel q.1 q.2 (vb ++ [p2]) (eb ++ [edgeId S p1 p2])

/-- `extract_border_cycle(mesh, start)`; `none` = raises (start not on the border / no neighbour) -/
def extractBorderCycle (S : Surf) (bv : List Nat) (start : Nat) : Option (List Nat × List (Option Nat)) :=
  if !(bv.contains start) then none
  else match vertexToVertices S start with
    | [] => none
    | p2 :: _ => some (walk S bv start S.nv start p2 [start] [])

/-- `extract_border_cycle_all`: boundary vertices in (ascending) order, skipping visited ones -/
def cyclesAll (S : Surf) (bv : List Nat) : List (List Nat × List (Option Nat)) :=
  (bv.foldl (fun (acc : List Nat × List (List Nat × List (Option Nat))) v =>
    if acc.1.contains v then acc
    else match extractBorderCycle S bv v with
      | none => acc
      | some c => (acc.1 ++ c.1, acc.2 ++ [c])) ([], [])).2

/-- `map_v2v`: consecutive new indices in the order the cycle vertices are met (a dict: the last
    write wins when a vertex is met twice) -/
def indexMap (vs : List Nat) : List (Nat × Nat) := vs.zipIdx.reverse
def lookupMap (m : List (Nat × Nat)) (v : Nat) : Option Nat := (m.find? fun e => e.1 == v).map (·.2)

/-- `extract_boundary_of_surface`: polyline edges `keyify(map[A], map[B])` for the surface edges of
    the cycles, the map, and the number of polyline vertices -/
def extractBoundary (S : Surf) (bv : List Nat) : Option (List (Nat × Nat) × List (Nat × Nat) × Nat) :=
  let cs := cyclesAll S bv
  let vs := cs.flatMap (·.1)
  let m := indexMap vs
  let es := cs.flatMap (·.2)
  (es.mapM fun (oe : Option Nat) => do
      let e ← oe
      let (ab : Nat × Nat) ← S.edges[e]?
      let a ← lookupMap m ab.1
      let b ← lookupMap m ab.2
      pure (key2 a b)).map fun pe => (pe, m, vs.length)

end Mouette.Border
