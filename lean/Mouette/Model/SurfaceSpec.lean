import Mouette.Model.Surface
/-! Specification vocabulary for C01 ("direct inspection of the face list") and the decidable hypothesis of
the theorems; core Lean only, so that the driver can evaluate the hypothesis on every generated input. -/
namespace Mouette.Surface

/-! ### the specification vocabulary -/

/-- face number `f` of the list (`[]` out of range) -/
abbrev fa (faces : Faces) (f : Nat) : List Nat := faces.getD f []

/-- `(u,v)` is the `i`-th directed side of face `f`: `F[i] = u`, `F[(i+1) % |F|] = v` -/
def IsSide (faces : Faces) (f i u v : Nat) : Prop :=
  f < faces.length ∧ i < (fa faces f).length ∧ (fa faces f).getD i 0 = u ∧
    (fa faces f).getD ((i+1) % (fa faces f).length) 0 = v

/-- orientation hypothesis of C01 (decidable): no directed side occurs twice in the face list -/
def Oriented (faces : Faces) : Prop :=
  (sides faces).Pairwise fun s t => ¬ (s.u = t.u ∧ s.v = t.v)

instance (faces : Faces) : Decidable (Oriented faces) := by unfold Oriented; infer_instance

end Mouette.Surface
