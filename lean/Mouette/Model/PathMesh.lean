import Mouette.Model.Dijkstra
/-
Model of the two remaining pieces of `mouette/processing/paths.py` (core Lean only):

* `build_path(mesh, paths)` (after the repair `k += len(l)`): the exported polyline. Its vertices are the mesh
  vertices of the paths, concatenated in the iteration order of the dict; its edges are `(k+i-1, k+i)` for
  `i in range(1, len(l))`, `k` being the running vertex count. The model keeps mesh vertex *ids* instead of
  coordinates (the coordinate lookup `mesh.vertices[l[i]]` is applied by the harness).
* `shortest_path_to_border`: `raise "Mesh has no border"` when there is no boundary vertex, else
  `shortest_path_to_vertex_set(mesh, start, mesh.boundary_vertices, …)[1]`. `boundary_vertices` is the set of end
  points of the edges flagged as border (`SurfaceMesh._compute_interior_boundary_vertices`); which edges are
  border edges is connectivity (C01) and comes in as a flag per edge.
-/
namespace Mouette.Dijkstra

/-- body of `for l in paths.values()`; state = ((vertices, edges), k) -/
def buildStep (acc : (List Nat × List (Nat × Nat)) × Nat) (l : List Nat) : (List Nat × List (Nat × Nat)) × Nat :=
  ((acc.1.1 ++ l, acc.1.2 ++ (List.range (l.length - 1)).map (fun i => (acc.2 + i, acc.2 + i + 1))),
   acc.2 + l.length)

/-- `build_path`: (vertex ids of the polyline, edges of the polyline) -/
def buildPath (paths : List (List Nat)) : List Nat × List (Nat × Nat) :=
  (paths.foldl buildStep (([], []), 0)).1

/-- `mesh.boundary_vertices` from the border flags of the edges -/
def boundaryVertices (edges : List ((Nat × Nat) × Bool)) : List Nat :=
  ((edges.filter (·.2)).flatMap (fun e => [e.1.1, e.1.2])).eraseDups

/-- `shortest_path_to_border`: `none` = `Exception("Mesh has no border")` -/
def toBorder (pop : Pop) (adj : Adj) (n start : Nat) (edges : List ((Nat × Nat) × Bool)) : Option (Res × Nat) :=
  let bv := boundaryVertices edges
  if bv.isEmpty then none else some (vertexSet pop adj n start bv)

end Mouette.Dijkstra
