import Mouette.Model.Prepare
/-
Vocabulary of the C02 TRANSLATED BODIES (`Generated/C02Bodies.lean`, written by `vlib/gen/c02_translate.py` from
`mouette/mesh/mesh_data.py` and `mouette/mesh/data_container.py` on every run). Core Lean only.

The translator reads each function body imperatively (statement order, loops, guards, index expressions, which container
is written, resets) and emits a state-passing Lean definition over the model's record `Raw` (`self` of a `RawMeshData`;
`VState` for `_prepare_vertices`, whose rows carry their numpy dtype kind). Every loop becomes a `foldl` whose step is a
separate definition `<f>_loop<k>`: parameters = the locals it reads, then the loop-carried state (the record, paired with
the locals the body rebinds), then the loop variable. The primitives below are the meaning given to the Python operations
the translator recognises:

  `self.faces` / `self.edges` / `self.cells` / `self.vertices`      `s.faces` / `s.edges` / `s.cells` / `s.verts`
  `self.face_corners._elem` / `._adj` (cell_corners, cell_faces)    `s.fcElem` / `s.fcAdj` (`cc…`, `cf…`)
  `len(self.face_corners)`                                          `s.fcElem.length`  (`CornerDataContainer.__len__`)
  `X.empty()`                                                       `X.isEmpty`
  `utils.keyify(a, b)` (two vertex indices)                         `keyify2 a b`      (= `keyE`, low index first)
  `utils.keyify(e)` (an edge row) / `utils.keyify(f)` (a row)       `keyE e` / `keyF f`
  `row[i]`                                                          `getN row i`
  `set([...])`, `k in st`, `st.add(k)`                              the list of keys, `setHas st k`, `setAdd st k`
  `d = dict()`, `d[k] = v`, `d.get(k, None)`                        `[]`, `dictSet d k v`, `dictGet d k` (last write wins)
  `X.append(v)` on a `DataContainer`                                the pair (rows, attributes) returned by the TRANSLATED
                                                                     `DataContainer.append` (`dataAppend`); `facesAppend` /
                                                                     `edgesAppend` are its hand-written normal forms
  `a._expand(k)`                                                    `expandAttr k a`
  `h = C.get_attribute(n)`, `isinstance(h, ArrayAttribute)`,        a handle is the name `n` into the attribute list of `C`:
  `h._default_value`, `i in h`, `h[i]`, `h[i] = v`                  `attrIsDense`, `attrDflt`, `attrHas`, `attrRead`, `econtAttrSet`
  `DataContainer(id="edges")`, `C.create_attribute(n, .., dense=d,  `([], [])`, `econtCreate C n d v`
     default_value=v)`
  `C.append(x, y)` on a corner container                            the pair of lists returned by the TRANSLATED
                                                                     `CornerDataContainer.append` (`cornerAppend`)
  `self.edges.has_attribute(n)`                                     `hasAttr s.eattrs n`
  `h = self.edges.create_attribute(n, bool)`                        `createFlagAttr s n` (sparse, default False); `h` is `n`
  `h[e] = True`                                                     `attrSet s h e 1`
  `a, b, … = C` followed by `[(a, b, c), …]`                        `pick C <table of positions>`
  `enumerate(X)`                                                    `enumerate X` (pairs `(index, element)`)
  `Vec(x)`                                                          `vecOf x` (identity on the row)
  `v.ndim`, `v.size`, `v.dtype.kind in "iub"`                       `v.ndim` (rows are 1-D), `v.size`, `kindIn v "iub"`
  `np.pad(v, (a, b))`, `v.astype(np.float64)`                       `npPad v a b`, `astypeFloat v`
-/
namespace Mouette.PrepSrc
open Mouette.Prepare

def keyify2 (a b : Nat) : Int × Int := keyE ((a : Int), (b : Int))

def getN (row : List Nat) (i : Nat) : Nat := row.getD i 0

def setHas {κ : Type} [DecidableEq κ] (st : List κ) (k : κ) : Bool := decide (k ∈ st)
def setAdd {κ : Type} (st : List κ) (k : κ) : List κ := k :: st

/-- a Python dict from face keys to face indices: association list, most recent binding first -/
abbrev FaceDict := List (List Nat × Nat)
def dictSet (d : FaceDict) (k : List Nat) (v : Nat) : FaceDict := (k, v) :: d
def dictGet (d : FaceDict) (k : List Nat) : Option Nat := d.lookup k

/-- reading a local that is only bound inside an `if/elif` without `else`: the unbound case (`UnboundLocalError`, or the value
left by an earlier loop iteration) is not modelled; the bridges carry the hypothesis under which every branch binds it -/
def orEmpty (o : Option (List (List Nat))) : List (List Nat) := o.getD []

def facesAppend (s : Raw) (f : List Nat) : Raw := { s with faces := s.faces ++ [f] }

def edgesAppend (s : Raw) (e : Int × Int) : Raw :=
  { s with edges := s.edges ++ [e], eattrs := s.eattrs.map (expandAttr 1) }

/-- `self._attr[name] = a` on the insertion-ordered dict of attributes: an existing binding is replaced in place, a new one
comes last -/
def attrDictSet (as : List Attr) (n : String) (a : Attr) : List Attr :=
  if hasAttr as n then as.map (fun b => if b.name == n then a else b) else as ++ [a]

/-- `create_attribute(name, bool)` on the edge container: a sparse attribute without any key, default `False` -/
def createFlagAttr (s : Raw) (name : String) : Raw :=
  { s with eattrs := s.eattrs ++ [{ name := name, dflt := 0, st := .sparse [] }] }

def sparseSet (d : List (Nat × Int)) (k : Nat) (v : Int) : List (Nat × Int) :=
  d.filter (fun p => p.1 != k) ++ [(k, v)]

def attrSetOne (name : String) (k : Nat) (v : Int) (a : Attr) : Attr :=
  if a.name == name then
    match a.st with
    | .sparse d => { a with st := .sparse (sparseSet d k v) }
    | .dense vals => { a with st := .dense (vals.set k v) }
  else a

/-- `h[k] = v` where `h` is the attribute called `name` of the edge container -/
def attrSet (s : Raw) (name : String) (k : Nat) (v : Int) : Raw :=
  { s with eattrs := s.eattrs.map (attrSetOne name k v) }

/-! ### the edge container being rebuilt by `_prepare_edges`, and reads through attribute handles -/

/-- a `DataContainer` of edges: its rows and its attributes -/
abbrev ECont := List (Int × Int) × List Attr

def edgeGet (l : List (Int × Int)) (i : Nat) : Int × Int := l.getD i (0, 0)

/-- `container.get_attribute(name)`: a dict lookup, names are unique -/
def findAttr (as : List Attr) (n : String) : Option Attr := as.find? (fun a => a.name == n)

/-- `isinstance(h, ArrayAttribute)` -/
def attrIsDense (as : List Attr) (n : String) : Bool :=
  match findAttr as n with
  | some a => (match a.st with | .dense _ => true | .sparse _ => false)
  | none => false

/-- `h._default_value` -/
def attrDflt (as : List Attr) (n : String) : Int := match findAttr as n with | some a => a.dflt | none => 0
/-- `i in h` -/
def attrHas (as : List Attr) (n : String) (k : Nat) : Bool := match findAttr as n with | some a => a.hasKey k | none => false
/-- `h[i]` -/
def attrRead (as : List Attr) (n : String) (k : Nat) : Int := match findAttr as n with | some a => a.read k | none => 0

/-- `c.create_attribute(name, type, elemsize, dense=d, default_value=v)` on a container that has no attribute of that name:
a dense attribute is allocated with one default slot per element present -/
def econtCreate (c : ECont) (n : String) (dense : Bool) (dflt : Int) : ECont :=
  (c.1, c.2 ++ [{ name := n, dflt := dflt, st := if dense then .dense (List.replicate c.1.length dflt) else .sparse [] }])

/-- `h[k] = v` where `h` is the attribute called `n` of the container `c` -/
def econtAttrSet (c : ECont) (n : String) (k : Nat) (v : Int) : ECont := (c.1, c.2.map (attrSetOne n k v))

/-! ### numpy arrays handed to `from_arrays` -/

/-- `np.pad(V, ((0, 0), (a, b)))`: every row padded with `a` zeros in front and `b` behind -/
def padCols (V : List (List Rat)) (a b : Nat) : List (List Rat) :=
  V.map (fun v => List.replicate a 0 ++ v ++ List.replicate b 0)
/-- `np.any(np.asarray(E) >= n)` / `> n` on an edge array, on a face or cell array -/
def anyEdgeGE (E : List (Int × Int)) (n : Nat) : Bool := E.any (fun e => decide ((n : Int) ≤ e.1) || decide ((n : Int) ≤ e.2))
def anyEdgeGT (E : List (Int × Int)) (n : Nat) : Bool := E.any (fun e => decide ((n : Int) < e.1) || decide ((n : Int) < e.2))
def anyRowGE (F : List (List Nat)) (n : Nat) : Bool := F.any (fun f => f.any (fun v => decide (n ≤ v)))
def anyRowGT (F : List (List Nat)) (n : Nat) : Bool := F.any (fun f => f.any (fun v => decide (n < v)))

def enumFrom {α : Type} : Nat → List α → List (Nat × α)
  | _, [] => []
  | i, x :: xs => (i, x) :: enumFrom (i + 1) xs

def enumerate {α : Type} (l : List α) : List (Nat × α) := enumFrom 0 l

/-! ### vertex rows with their dtype kind (`_prepare_vertices`) -/

structure VRow where
  kind : Char            -- numpy dtype kind: 'f' float, 'i' signed, 'u' unsigned, 'b' boolean
  xs : List Rat
  deriving Repr, DecidableEq, Inhabited

structure VState where
  verts : List VRow
  deriving Repr, DecidableEq

def vecOf (v : VRow) : VRow := v
def VRow.ndim (_ : VRow) : Nat := 1
def VRow.size (v : VRow) : Nat := v.xs.length
def kindIn (v : VRow) (kinds : String) : Bool := kinds.toList.contains v.kind
def npPad (v : VRow) (a b : Nat) : VRow := { v with xs := List.replicate a 0 ++ v.xs ++ List.replicate b 0 }
def astypeFloat (v : VRow) : VRow := { v with kind := 'f' }
def vget (l : List VRow) (i : Nat) : VRow := l.getD i default

end Mouette.PrepSrc
