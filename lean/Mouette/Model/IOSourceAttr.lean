/-
C04 (round 7) — vocabulary for the translation of `geogram_ascii.py: import_attribute`: a SPARSE attribute as mouette stores it
(explicitly written rows + a default value), and its dense read-out.  Core Lean only.

  `attr[i] = v` (scalar attribute)      `attr.set i [v]`
  `attr[i] = val` (vector attribute)    `attr.set i val`
  reading `attr[i]`                     `attr.get n i` : the stored row, or `n` copies of the default when nothing is stored
-/
namespace Mouette.IOS

/-- a sparse attribute over values `V`: default value and explicitly stored rows (most recent first) -/
structure SAttr (V : Type) where
  dflt : V
  rows : List (Nat × List V) := []
deriving Repr

variable {V : Type}

def SAttr.set (a : SAttr V) (i : Nat) (row : List V) : SAttr V := { a with rows := (i, row) :: a.rows }

/-- `attr[i]` for an attribute of `n` components per element -/
def SAttr.get (n : Nat) (a : SAttr V) (i : Nat) : List V := (a.rows.lookup i).getD (List.replicate n a.dflt)

end Mouette.IOS
