/-
C19 — executable model of `mouette/sampling.py` (core Lean only, exact `Rat`).

Every sampler is a *deterministic function of the random draws*, which are injected:
  * `g`   : the three `numpy.random.normal` draws of a direction,
  * `u`   : a `uniform[0,1)` draw,
  * `e/f` : the edge / face index returned by `numpy.random.choice`,
and of the irrational intermediate values, which are *recorded parameters* carrying a hypothesis:
  * `s`  with `s*s = g·g`       (`numpy.linalg.norm`),
  * `cb` with `cb*cb*cb = u`    (`numpy.cbrt`),
  * `sq` with `sq*sq = u1`      (`numpy.sqrt`),
  * edge lengths / face areas `w` (`w*w = |pA-pB|²`, `(2w)² = |cross|²`).
The model never evaluates a root. The model follows the code *after* the `fix:` commits of C19
(radial law `radius * cbrt(uniform(0,1))`, affine map applied in grid mode as well).
-/
namespace Mouette.Sampling

abbrev Pt := List Rat

/-! ### sample_AABB -/

/-- one coordinate of `box.mini + box.span * x` with `span = maxi - mini` (aabb.py: `span`). -/
def boxCoord (mini maxi x : Rat) : Rat := mini + (maxi - mini) * x

/-- `box.mini + box.span * x` for a whole point (numpy broadcasting is coordinatewise). -/
def boxMap : List Rat → List Rat → List Rat → List Rat
  | lo :: los, hi :: his, x :: xs => boxCoord lo hi x :: boxMap los his xs
  | _, _, _ => []

/-- `mode="uniform"`: `box.mini + box.span * random((n_pts, dim))`, one row of draws per point. -/
def aabbUniform (lo hi : List Rat) (us : List (List Rat)) : List Pt := us.map (boxMap lo hi)

/-- `numpy.linspace(0,1,res)[k]` -/
def linspace01 (res k : Nat) : Rat := if res ≤ 1 then 0 else (k : Rat) / ((res - 1 : Nat) : Rat)

/-- all index tuples of `{0..res-1}^d`, most significant digit first (C order of `numpy.ravel`). -/
def digitTuples (res : Nat) : Nat → List (List Nat)
  | 0 => [[]]
  | d + 1 => (List.range res).flatMap (fun k => (digitTuples res d).map (fun t => k :: t))

/-- `numpy.meshgrid(..., indexing='xy')` swaps the roles of the first two axes. -/
def xySwap : List Nat → List Nat
  | a :: b :: r => b :: a :: r
  | l => l

/-- `np.vstack(list(map(np.ravel, np.meshgrid(*Xdims)))).T` with `Xdims = dim × linspace(0,1,res)` -/
def unitGrid (d res : Nat) : List Pt :=
  (digitTuples res d).map (fun t => (xySwap t).map (linspace01 res))

/-- `mode="grid"` (repaired code): the unit grid mapped into the box. -/
def aabbGrid (lo hi : List Rat) (res : Nat) : List Pt :=
  (unitGrid lo.length res).map (boxMap lo hi)

/-- `mode="grid"` as coded in the pinned tree: the affine map is missing. Kept for the refutation. -/
def aabbGridPinned (lo _hi : List Rat) (res : Nat) : List Pt := unitGrid lo.length res

/-- `box.is_empty()` : `np.any(mini >= maxi)` -/
def boxEmpty : List Rat → List Rat → Bool
  | lo :: los, hi :: his => decide (hi ≤ lo) || boxEmpty los his
  | _, _ => false

/-- membership in the closed box, coordinate by coordinate -/
def InBox : List Rat → List Rat → List Rat → Prop
  | lo :: los, hi :: his, x :: xs => (lo ≤ x ∧ x ≤ hi) ∧ InBox los his xs
  | [], [], [] => True
  | _, _, _ => False

/-- a box the code accepts has `mini ≤ maxi` in every coordinate (in fact `<`, see `boxEmpty`) -/
def BoxLE : List Rat → List Rat → Prop
  | lo :: los, hi :: his => lo ≤ hi ∧ BoxLE los his
  | [], [] => True
  | _, _ => False

/-! ### sample_sphere / sample_ball (3-D, coordinates given one by one) -/

/-- `radius * (g / |g|) + center`, one coordinate; `s` is the recorded norm of `g`. -/
def sphereCoord (c r g s : Rat) : Rat := r * (g / s) + c

/-- repaired radial law: `R = radius * cbrt(uniform(0,1))`; point `= (g/|g|) * R + center`. -/
def ballCoord (c r g s cb : Rat) : Rat := (g / s) * (r * cb) + c

def dot3 (a b : Rat × Rat × Rat) : Rat := a.1 * b.1 + a.2.1 * b.2.1 + a.2.2 * b.2.2
def normSq3 (a : Rat × Rat × Rat) : Rat := dot3 a a

def spherePoint (c : Rat × Rat × Rat) (r : Rat) (g : Rat × Rat × Rat) (s : Rat) : Rat × Rat × Rat :=
  (sphereCoord c.1 r g.1 s, sphereCoord c.2.1 r g.2.1 s, sphereCoord c.2.2 r g.2.2 s)

def ballPoint (c : Rat × Rat × Rat) (r : Rat) (g : Rat × Rat × Rat) (s cb : Rat) : Rat × Rat × Rat :=
  (ballCoord c.1 r g.1 s cb, ballCoord c.2.1 r g.2.1 s cb, ballCoord c.2.2 r g.2.2 s cb)

def sub3 (a b : Rat × Rat × Rat) : Rat × Rat × Rat := (a.1 - b.1, a.2.1 - b.2.1, a.2.2 - b.2.2)

/-- pinned radial law `cbrt(uniform(0, radius))`: `cbv` is the recorded cube root of `radius*u`. -/
def ballCoordPinned (c g s cbv : Rat) : Rat := (g / s) * cbv + c

/-! ### probabilities handed to `numpy.random.choice` -/

def total (w : List Rat) : Rat := w.foldr (· + ·) 0

/-- `lengths /= np.sum(lengths)` / `areas /= np.sum(areas)` -/
def probs (w : List Rat) : List Rat := w.map (· / total w)

/-! ### sample_polyline -/

/-- `t*pA + (1-t)*pB`, one coordinate -/
def segCoord (t a b : Rat) : Rat := t * a + (1 - t) * b

def segPoint (t : Rat) : Pt → Pt → Pt
  | a :: as, b :: bs => segCoord t a b :: segPoint t as bs
  | _, _ => []

/-- `p` lies on the segment `[B, A]`: `p = B + l (A - B)` with `0 ≤ l ≤ 1`, coordinatewise -/
def OnSegment (A B p : Pt) : Prop :=
  ∃ l : Rat, 0 ≤ l ∧ l ≤ 1 ∧ p = List.zipWith (fun a b => b + l * (a - b)) A B

/-! ### sample_surface -/

/-- `wa*A + wb*B + wc*C`, coordinatewise -/
def comb3 (wa wb wc : Rat) : Pt → Pt → Pt → Pt
  | a :: as, b :: bs, c :: cs => (wa * a + wb * b + wc * c) :: comb3 wa wb wc as bs cs
  | _, _, _ => []

/-- `p` is a convex combination of the three corners -/
def InTriangle (A B C p : Pt) : Prop :=
  ∃ wa wb wc : Rat, 0 ≤ wa ∧ 0 ≤ wb ∧ 0 ≤ wc ∧ wa + wb + wc = 1 ∧ p = comb3 wa wb wc A B C


/-- `r1 = 1 - sqrt(u1); r2 = u2*(1-r1); pA + r1*(pB-pA) + r2*(pC-pA)`, one coordinate;
`sq` is the recorded `sqrt(u1)`. -/
def triCoord (sq u2 a b c : Rat) : Rat :=
  let r1 := 1 - sq
  let r2 := u2 * (1 - r1)
  a + r1 * (b - a) + r2 * (c - a)

def triPoint (sq u2 : Rat) : Pt → Pt → Pt → Pt
  | a :: as, b :: bs, c :: cs => triCoord sq u2 a b c :: triPoint sq u2 as bs cs
  | _, _, _ => []

/-- barycentric weights of the sampled point w.r.t. (pA, pB, pC) -/
def triWeights (sq u2 : Rat) : Rat × Rat × Rat := (sq * (1 - u2), 1 - sq, u2 * sq)

def cross3 (a b : Rat × Rat × Rat) : Rat × Rat × Rat :=
  (a.2.1 * b.2.2 - a.2.2 * b.2.1, a.2.2 * b.1 - a.1 * b.2.2, a.1 * b.2.1 - a.2.1 * b.1)

/-- un-normalised normal of a triangle as `face_normals` computes it: `cross(pB-pA, pC-pA)` -/
def triCross (a b c : Rat × Rat × Rat) : Rat × Rat × Rat := cross3 (sub3 b a) (sub3 c a)

/-- `sampled_normals = [normals[f] for f in sampled_faces]` -/
def sampledNormals {α} (dflt : α) (normals : List α) (fs : List Nat) : List α :=
  fs.map (fun f => normals.getD f dflt)

end Mouette.Sampling
