import Mouette.Model.Attr
/-
Vocabulary of the C05 TRANSLATED bodies (`Generated/C05Src.lean`, written by `vlib/gen/c05_translate.py` from
`mouette/mesh/mesh_attributes.py` and `mouette/mesh/data_container.py` on every run). Core Lean only.

The translator reads each method imperatively (statement order, guards, loops, which field / container is written) and
emits a state-passing definition  `args → Heap → Self → Except Err (R × Heap × Self)`  (`Cont` instead of `Self` for the
container methods). The primitives below are the MEANING given to the Python idioms the translator recognises:

  `self._data` of `Attribute`            `self.data.asDict`   (insertion-ordered dict key ↦ reference of the stored object)
  `self._data` of `ArrayAttribute`       `self.data.asRef`    (reference of the (n,k) array object)
  `key in self._data` / `self._data[key]`   `dictMem` / `dictGet`
  `self._data[key] = Vec(l)` (dict)      a NEW vector object is allocated and bound (`allocVec`, `dinsert`)
  `self._data[key] = Vec(l)` (array)     the components are copied into row `key` of the array object (`rowStore`)
  `self._data[key] = value` (scalar)     `scalarVal`: one-component row holding the (immutable) scalar
  `np.full(k, d, dtype=self.type.dtype)` `bcast k d`          (a scalar is repeated, a k-vector is taken as it is)
  `np.full((n,k), d, dtype=…)`           `npFull n k d`
  `np.concatenate((A, B))`               `A ++ B`  — a NEW array object once assigned to `self._data` (`allocMat`)
  `A[key,0]` under `elemsize==1`         `Res.byValue row`    (immutable scalar: no identity)
  `return self.default_value` (scalar)   boxed in a fresh one-component cell (`allocVec`): nobody else can reach it
  `A[key,:]`                             `Res.obj (.row ref key)`   (a VIEW of the array object)
  `type(x)` / `Attribute.Type(t)`        `pyType…` / `attrType` (ValueError on a non-scalar type)
  `list(value)`                          `pyList` (TypeError on a bare scalar)
  `raise Attribute.XError(..)`           `.error <Err>`
  `for x in l: <checks>`                 `forE l (fun x => …)`  (first exception wins)
  `for i,x in self._data.items(): out[i,:] = x`   `forItems … (fun out i r => npRowAssign out i (cellVec h r))` (local array)
  `for a in self._attr.values(): a.m(e)` `forAttrs` with dynamic dispatch on the class of `a` (`Self.cls`)
  values are stored after widening to the attribute's type (`castTo`), exactly as in Model/Attr.lean.
-/
namespace Mouette.AttrSrc
open Mouette.Attr

inductive Cls where
  | sparse | dense
  deriving DecidableEq, Repr, Inhabited

inductive Data where
  | unset
  | dict (d : List (Int × Nat))
  | array (r : Nat)
  deriving Inhabited

def Data.asDict : Data → List (Int × Nat)
  | .dict d => d
  | _ => []

def Data.asRef : Data → Nat
  | .array r => r
  | _ => 0

/-- the instance attributes of an `Attribute` / `ArrayAttribute` object -/
structure Self where
  cls : Cls
  type : Ty := .bool
  elemsize : Nat := 0
  dv : Option Scalar := none      -- `_default_value` as handed to `__init__` (None: implicit)
  nElem : Nat := 0
  data : Data := .unset
  deriving Inhabited

/-- a Python type object, as far as the attribute code distinguishes them -/
inductive PyType where
  | scalar (t : Ty)
  | list
  | noneType
  deriving DecidableEq, Repr

def pyType : InVal → PyType
  | .sc x => .scalar x.ty
  | .vec _ => .list

def pyTypeS (x : Scalar) : PyType := .scalar x.ty

def pyTypeO : Option Scalar → PyType
  | some x => .scalar x.ty
  | none => .noneType

/-- `Attribute.Type(t)` (aenum MultiValueEnum lookup) -/
def attrType : PyType → Except Err Ty
  | .scalar t => .ok t
  | _ => .error .value

/-- `list(value)` -/
def pyList : InVal → Except Err (List Scalar)
  | .vec l => .ok l
  | .sc _ => .error .typeError

/-- `for x in l: body` where the body only checks (may raise) -/
def forE {α : Type} : List α → (α → Except Err Unit) → Except Err Unit
  | [], _ => .ok ()
  | x :: t, f =>
    match f x with
    | .error e => .error e
    | .ok _ => forE t f

/-- what the `default_value` property evaluates to -/
inductive Dflt where
  | scalar (x : Scalar)
  | vector (l : Val)

/-- numpy broadcast of a fill value to one row of `k` components -/
def bcast (k : Nat) : Dflt → Val
  | .scalar x => List.replicate k x
  | .vector l => l

def npFull (rows k : Nat) (d : Dflt) : List Val := List.replicate rows (bcast k d)

def allocVec (h : Heap) (v : Val) : Heap × Nat := (h ++ [.vec v], h.length)
def allocMat (h : Heap) (m : List Val) : Heap × Nat := (h ++ [.mat m], h.length)

/-- result of `a[key]`: an object with identity, or an immutable scalar (content only) -/
inductive Res where
  | obj (hd : Handle)
  | byValue (v : Val)

def Res.val (h : Heap) : Res → Val
  | .obj (.whole r) => cellVec h r
  | .obj (.row arr i) => (cellMat h arr).getD i []
  | .byValue v => v

def dictMem (d : List (Int × Nat)) (key : Int) : Bool := (d.lookup key).isSome
def dictGet (d : List (Int × Nat)) (key : Int) : Nat := (d.lookup key).getD 0

/-- `Vec(l)` stored into an attribute of type `ty` -/
def vecOf (ty : Ty) (l : List Scalar) : Val := l.map (castTo ty)

/-- a bare scalar stored into an attribute of type `ty` (a list offered here is NOT stored component-wise) -/
def scalarVal (ty : Ty) : InVal → Val
  | .sc x => [castTo ty x]
  | .vec _ => []

/-- `A[key] = row` on the array object `r` (in place) -/
def rowStore (h : Heap) (r : Nat) (key : Int) (v : Val) : Heap :=
  h.set r (.mat ((cellMat h r).set key.toNat v))

/-- `for i, x in self._data.items(): acc = f(acc, i, x)` in dict (insertion) order; the first exception wins -/
def forItems {β : Type} : List (Int × Nat) → β → (β → Int → Nat → Except Err β) → Except Err β
  | [], acc, _ => .ok acc
  | (k, r) :: t, acc, f =>
    match f acc k r with
    | .error e => .error e
    | .ok acc' => forItems t acc' f

/-- `out[i,:] = x` on a LOCAL 2-D array (numpy: a negative row index wraps once, anything else outside is IndexError) -/
def npRowAssign (out : List Val) (i : Int) (x : Val) : Except Err (List Val) :=
  let idx : Int := if i < 0 then i + out.length else i
  if idx < 0 || (out.length : Int) ≤ idx then .error .index else .ok (out.set idx.toNat x)

/-- scalar default of a `Dflt` used by `self.default_value` when `elemsize == 1` -/
def Dflt.row1 : Dflt → Val
  | .scalar x => [x]
  | .vector l => l

/-- a numpy storage dtype, as far as `Type.dtype` distinguishes them: the value tuple of the enum member (its first entry is the
Python type itself: bool / int / float / complex) or the fixed-width unicode dtype `"<U32"` -/
inductive DType where
  | ofType (t : Ty)
  | u32
  deriving DecidableEq, Repr

/-- what a storage of that dtype can hold without loss: values of the type itself (strings: up to 32 characters — ASSUMPTIONS) -/
def DType.holds : DType → Ty → Bool
  | .ofType t, t' => decide (t = t' ∧ t ≠ .str)
  | .u32, t' => decide (t' = .str)

/-! container -/

/-- the instance attributes of a `DataContainer` -/
structure Cont where
  data : List Nat := []                   -- `_data` (the elements; only their number matters to the attributes)
  attr : List (String × Self) := []       -- `_attr` (insertion-ordered dict)
  id : String := ""                       -- `id` (a label, used in messages only)
  deriving Inhabited

def attrMem (d : List (String × Self)) (name : String) : Bool := (d.lookup name).isSome
def attrGet (d : List (String × Self)) (name : String) : Self := (d.lookup name).getD { cls := .sparse }

/-- `d[name] = a` keeping the insertion order -/
def attrSet : List (String × Self) → String → Self → List (String × Self)
  | [], name, a => [(name, a)]
  | (n', a') :: t, name, a => if n' = name then (name, a) :: t else (n', a') :: attrSet t name a

/-- `del d[name]` -/
def attrDel : List (String × Self) → String → List (String × Self)
  | [], _ => []
  | (n', a') :: t, name => if n' = name then t else (n', a') :: attrDel t name

/-- `for a in self._attr.values(): a.m(..)` — the heap is threaded through the calls, each object is updated in place -/
def forAttrs (h : Heap) : List (String × Self) → (Heap → Self → Except Err (Unit × Heap × Self)) →
    Except Err (Heap × List (String × Self))
  | [], _ => .ok (h, [])
  | (n, a) :: t, f =>
    match f h a with
    | .error e => .error e
    | .ok (_, h', a') =>
      match forAttrs h' t f with
      | .error e => .error e
      | .ok (h'', t') => .ok (h'', (n, a') :: t')

/-- a numpy array handed over by the caller (`register_array_as_attribute`): an OBJECT of the heap (a matrix cell; a 1-D array is
kept as rows of one component) with what the code asks about it -/
structure ArrIn where
  ref : Nat          -- the array object
  ty : Ty            -- `type(data[0,0].item())`: the attribute type of its items
  exact : Bool       -- its dtype IS the storage dtype of that type (float64 / int64 / bool …; not uint8 / int32 / float32)
  ndim : Nat         -- `len(data.shape)`
  k : Nat            -- `data.shape[1]` when `ndim = 2`
  deriving Inhabited

def ArrIn.rows (a : ArrIn) (h : Heap) : List Val := cellMat h a.ref
/-- `data.shape[0]` -/
def ArrIn.shape0 (a : ArrIn) (h : Heap) : Nat := (a.rows h).length
/-- `data.shape[1]` (IndexError on a 1-D array) -/
def ArrIn.shape1? (a : ArrIn) : Option Nat := if 2 ≤ a.ndim then some a.k else none
/-- `data[:, np.newaxis]`: a VIEW of the same object with one more axis of length 1 -/
def ArrIn.newaxis (a : ArrIn) : ArrIn := { a with ndim := a.ndim + 1, k := 1 }
/-- `data.astype(dtype_of ty, copy=False)`: the object itself when nothing has to be converted, else a NEW converted array -/
def astypeNoCopy (h : Heap) (a : ArrIn) (ty : Ty) : Heap × Nat :=
  if a.exact && decide (a.ty = ty) then (h, a.ref) else allocMat h ((a.rows h).map (fun r => r.map (castTo ty)))

/-- the right operand of `container += other` -/
inductive SeqKind where
  | list | tuple | set
  deriving DecidableEq, Repr

inductive Other where
  | seq (k : SeqKind) (l : List Nat)   -- a list / tuple / set of elements
  | cont (d : List Nat)         -- another DataContainer (its `_data`)
  | me                          -- the container itself (`c += c`)
  | junk                        -- anything else

/-- `isinstance(other, list)` etc. -/
def Other.isA : Other → SeqKind → Bool
  | .seq k _, k' => decide (k = k')
  | _, _ => false

def Other.isCont : Other → Bool
  | .cont _ => true
  | .me => true
  | _ => false

/-- `list(other)` / `len(other)` for a list, tuple or set operand -/
def Other.elems : Other → List Nat
  | .seq _ l => l
  | _ => []

/-- `other._data`, read NOW (for `c += c` it is the container's own, current `_data`) -/
def Other.dataOf (o : Other) (self : Cont) : List Nat :=
  match o with
  | .cont d => d
  | .me => self.data
  | _ => []

end Mouette.AttrSrc
