import Mouette.Model.Geom
/-
C08 — executable model of mouette's discrete differential operators (core Lean only, exact `Rat`).

Sparse matrices are triplet lists `(row, col, value)` with duplicate summation (`toFun`), which is what
`scipy.sparse.csc_matrix((coeffs,(rows,cols)))` denotes.  The assemblies mirror
`operators/laplacian_op.py`, `gradient_op.py`, `mass.py`, `adjacency.py` *as coded*.
Cotangents/areas are irrational, so an assembly is split in two:
  * its STRUCTURE `List SEntry` (row, col, integer factor, index of the weight that is read), executable,
    printed by the driver and compared entry by entry with the scipy matrix, and
  * `eval w` which plugs ANY weight function `w : Nat → Rat` in; the theorems quantify over every `w`,
    so they do not depend on how the cotangents were computed.
-/
namespace Mouette.Ops
open Mouette.Geom

abbrev Trip := Nat × Nat × Rat

/-- the matrix denoted by a triplet list: duplicates are summed -/
def toFun (T : List Trip) (i j : Nat) : Rat :=
  rsum (T.map (fun e => if e.1 = i ∧ e.2.1 = j then e.2.2 else 0))

/-- sum of the entries of row `i` -/
def rowSum (T : List Trip) (i : Nat) : Rat :=
  rsum (T.map (fun e => if e.1 = i then e.2.2 else 0))

/-- sum of all entries -/
def total (T : List Trip) : Rat := rsum (T.map (fun e => e.2.2))

/-- quadratic form `xᵀ M x` -/
def quad (T : List Trip) (x : Nat → Rat) : Rat := rsum (T.map (fun e => e.2.2 * x e.1 * x e.2.1))

/-- structural entry: value = `s · w c` -/
structure SEntry where
  i : Nat
  j : Nat
  s : Int
  c : Nat
deriving Repr, DecidableEq

def eval (w : Nat → Rat) (S : List SEntry) : List Trip := S.map (fun e => (e.i, e.j, (e.s : Rat) * w e.c))

/-- the four coefficients the code writes for one weighted edge `(i,j)`:
`(i,i,v) (j,j,v) (i,j,-v) (j,i,-v)` in that order (`laplacian_op.laplacian`, inner loop) -/
def edgeBlockS (i j c : Nat) : List SEntry := [⟨i, i, 1, c⟩, ⟨j, j, 1, c⟩, ⟨i, j, -1, c⟩, ⟨j, i, -1, c⟩]
def edgeBlock (i j : Nat) (v : Rat) : List Trip := [(i, i, v), (j, j, v), (i, j, -v), (j, i, -v)]

/-- `v · (e_i − e_j)(e_i − e_j)ᵀ` entrywise: the element stiffness contribution of a weighted edge -/
def ind (a b : Nat) : Rat := if a = b then 1 else 0
def stiffEntry (p q : Nat) (v : Rat) (i j : Nat) : Rat := v * (ind i p - ind i q) * (ind j p - ind j q)

abbrev F3 := Nat × Nat × Nat

/-- `laplacian`: for face `t = (p,q,r)` with `a,b,c = w(corner of p), w(corner of q), w(corner of r)`
the loop `for (i,j,v) in [(p,q,c),(q,r,a),(r,p,b)]` (12 coefficients per triangle) -/
def faceLapS (t : Nat) (f : F3) : List SEntry :=
  edgeBlockS f.1 f.2.1 (3 * t + 2) ++ edgeBlockS f.2.1 f.2.2 (3 * t) ++ edgeBlockS f.2.2 f.1 (3 * t + 1)

def lapSAux : List F3 → Nat → List SEntry
  | [], _ => []
  | f :: fs, t => faceLapS t f ++ lapSAux fs (t + 1)

def lapS (faces : List F3) : List SEntry := lapSAux faces 0

/-- the cotangent (w = cot/2) or uniform (w = 1/2) vertex Laplacian -/
def laplacian (w : Nat → Rat) (faces : List F3) : List Trip := eval w (lapS faces)

/-- independently assembled stiffness matrix `Σ_T Σ_{edges of T} w · (e_i − e_j)(e_i − e_j)ᵀ` (as a function) -/
def stiffnessAux (w : Nat → Rat) : List F3 → Nat → Nat → Nat → Rat
  | [], _, _, _ => 0
  | f :: fs, t, i, j =>
    stiffEntry f.1 f.2.1 (w (3 * t + 2)) i j + stiffEntry f.2.1 f.2.2 (w (3 * t)) i j
      + stiffEntry f.2.2 f.1 (w (3 * t + 1)) i j + stiffnessAux w fs (t + 1) i j
def stiffness (w : Nat → Rat) (faces : List F3) (i j : Nat) : Rat := stiffnessAux w faces 0 i j

/-- a weighted graph as `(i, j, v)` edges and the matrix `Σ v (e_i − e_j)(e_i − e_j)ᵀ` — the common shape of the dual
(`laplacian_triangles`), edge (`laplacian_edges`), volume (`volume_laplacian`) and cell (`laplacian_tetrahedra`) Laplacians -/
def blocks (es : List (Nat × Nat × Rat)) : List Trip := es.flatMap (fun e => edgeBlock e.1 e.2.1 e.2.2)

/-- `Nᵀ D N` for a matrix `N` given by sparse rows and a diagonal `D` (one weight per row), as the sum over rows of
`d · rowᵀ row` (`laplacian_triangles: Nabla_star @ D @ Nabla`) -/
def gramRow (d : Rat) (row : List (Nat × Rat)) : List Trip :=
  row.flatMap (fun a => row.map (fun b => (a.1, b.1, a.2 * d * b.2)))
def gram (rows : List (Rat × List (Nat × Rat))) : List Trip := rows.flatMap (fun r => gramRow r.1 r.2)

/-! ### connectivity-driven assemblies (edges are given as numbered by the mesh) -/

def nbrs (es : List (Nat × Nat)) (l : Nat) : List Nat :=
  (es.filter (fun e => e.1 == l)).map (·.2) ++ (es.filter (fun e => e.2 == l)).map (·.1)

/-- `graph_laplacian`: row `l` gets `(l,l,len(adj))` and `(l,b,-1)` for every neighbour `b` -/
def graphLapRow (es : List (Nat × Nat)) (l : Nat) : List Trip :=
  (l, l, ((nbrs es l).length : Rat)) :: (nbrs es l).map (fun b => (l, b, (-1 : Rat)))
def graphLap (es : List (Nat × Nat)) (n : Nat) : List Trip := (List.range n).flatMap (graphLapRow es)

/-- `adjacency_matrix`: `(a,b,w_e)` and `(b,a,w_e)` for edge `e = (a,b)` -/
def adjacencyAux (w : Nat → Rat) : List (Nat × Nat) → Nat → List Trip
  | [], _ => []
  | e :: es, k => (e.1, e.2, w k) :: (e.2, e.1, w k) :: adjacencyAux w es (k + 1)
def adjacency (w : Nat → Rat) (es : List (Nat × Nat)) : List Trip := adjacencyAux w es 0

/-- `vertex_to_edge_operator`: `mat[A,e] = ±1 (origin)`, `mat[B,e] = 1` -/
def vertexToEdgeAux (oriented : Bool) : List (Nat × Nat) → Nat → List Trip
  | [], _ => []
  | e :: es, k => (e.1, k, if oriented then -1 else 1) :: (e.2, k, 1) :: vertexToEdgeAux oriented es (k + 1)
def vertexToEdge (oriented : Bool) (es : List (Nat × Nat)) : List Trip := vertexToEdgeAux oriented es 0

/-- `vertex_to_face_operator`: `mat[iT,V] = 1/len(T)` -/
def vertexToFaceAux : List Face → Nat → List Trip
  | [], _ => []
  | f :: fs, t => f.map (fun v => (t, v, 1 / (f.length : Rat))) ++ vertexToFaceAux fs (t + 1)
def vertexToFace (faces : List Face) : List Trip := vertexToFaceAux faces 0

/-- lumped masses `area_weight_matrix` / `volume_weight_matrix`: `A[u] += ar[t]` for every vertex `u` of element `t` -/
def massAux (ar : Nat → Rat) : List Face → Nat → List Trip
  | [], _ => []
  | f :: fs, t => f.map (fun u => (u, u, ar t)) ++ massAux ar fs (t + 1)
def mass (ar : Nat → Rat) (elems : List Face) : List Trip := massAux ar elems 0

/-- `area_weight_matrix_faces` / `volume_weight_matrix_cells`: `diag(ar)` -/
def diagMass (ar : Nat → Rat) (n : Nat) : List Trip := (List.range n).map (fun t => (t, t, ar t))

/-- `edge_to_faces(A,B) = (direct_face(A,B), direct_face(B,A))` -/
def edgeFaces (faces : List Face) (e : Nat × Nat) : Option Nat × Option Nat :=
  ((directFace faces e.1 e.2).map (·.1), (directFace faces e.2 e.1).map (·.1))

/-- `area_weight_matrix_edges`: `area_edges[e] += area[T]/3` for the (≤2) faces of the edge: faces as a list -/
def edgeFaceList (faces : List Face) (e : Nat × Nat) : List Nat :=
  let p := edgeFaces faces e
  p.1.toList ++ p.2.toList
def massEdgesAux (ar : Nat → Rat) (faces : List Face) : List (Nat × Nat) → Nat → List Trip
  | [], _ => []
  | e :: es, k => (edgeFaceList faces e).map (fun t => (k, k, ar t / 3)) ++ massEdgesAux ar faces es (k + 1)
def massEdges (ar : Nat → Rat) (faces : List Face) (es : List (Nat × Nat)) : List Trip := massEdgesAux ar faces es 0

/-- `cotan_edge_diagonal`: corners whose cotangents are added for edge `(u,v)`:
`w = faces[T][3-uT-vT]`, `c = vertex_to_corner_in_face(w,T) = 3T + (3-uT-vT)` on both sides -/
def cotanDiagCorners (faces : List Face) (e : Nat × Nat) : List Nat :=
  (match directFace faces e.1 e.2 with | some (t, i, j) => [3 * t + (3 - i - j)] | none => []) ++
  (match directFace faces e.2 e.1 with | some (t, j, i) => [3 * t + (3 - i - j)] | none => [])

/-- `laplacian_triangles`: row of `Nabla` for edge `e`: `(T1,-1),(T2,+1)` when both faces exist, else empty -/
def nablaRow (faces : List Face) (e : Nat × Nat) : List (Nat × Rat) :=
  match edgeFaces faces e with
  | (some t1, some t2) => [(t1, -1), (t2, 1)]
  | _ => []

def edgeId (es : List (Nat × Nat)) (a b : Nat) : Nat :=
  (es.findIdx (fun e => (e.1 == a && e.2 == b) || (e.1 == b && e.2 == a)))

/-- `laplacian_edges`: for corner `cnr` (vertex `cur`, previous `prev`, next `nxt`): `e1 = edge(prev,cur)`, `e2 = edge(cur,nxt)`,
coefficients `(e1,e2,coeff) (e2,e1,coeff) (e1,e1,-coeff) (e2,e2,-coeff)` with `coeff = -2·w(cnr)` -/
def lapEdgesFace (es : List (Nat × Nat)) (t : Nat) (f : F3) : List SEntry :=
  let vs := [f.1, f.2.1, f.2.2]
  (List.range 3).flatMap (fun k =>
    let cur := vs.getD k 0; let prev := vs.getD ((k + 2) % 3) 0; let nxt := vs.getD ((k + 1) % 3) 0
    let e1 := edgeId es prev cur; let e2 := edgeId es cur nxt
    [⟨e1, e2, -2, 3 * t + k⟩, ⟨e2, e1, -2, 3 * t + k⟩, ⟨e1, e1, 2, 3 * t + k⟩, ⟨e2, e2, 2, 3 * t + k⟩])
def lapEdgesSAux (es : List (Nat × Nat)) : List F3 → Nat → List SEntry
  | [], _ => []
  | f :: fs, t => lapEdgesFace es t f ++ lapEdgesSAux es fs (t + 1)
def lapEdgesS (es : List (Nat × Nat)) (faces : List F3) : List SEntry := lapEdgesSAux es faces 0

/-! ### gradient -/

/-- border side: no opposite half-edge -/
def isBorderSide (faces : List Face) (a b : Nat) : Bool :=
  (directFace faces a b).isNone || (directFace faces b a).isNone

/-- `SurfaceConnectionFaces._initialize`: if the face has a feature (= border) edge, rotate `(A,B,C)` so that the first
feature edge is `(A,B)` (`utils.offset([A,B,C], argmax(feat))`) -/
def baseRotation (faces : List Face) (f : F3) : Nat :=
  if isBorderSide faces f.1 f.2.1 then 0
  else if isBorderSide faces f.2.1 f.2.2 then 1
  else if isBorderSide faces f.2.2 f.1 then 2 else 0

/-- unnormalised face basis after that rotation: `X' = pB − pA`, `n = X' × (pC − pA)`, `Y' = n × X'`
(`face_basis` normalises them: `X = X'/|X'|`, `Z = n/|n|`, `Y = Y'/(|n||X'|)`) -/
def faceBasis (vs : List V3) (faces : List Face) (f : F3) : V3 × V3 × V3 :=
  let l := [f.1, f.2.1, f.2.2]
  let k := baseRotation faces f
  let a := pt vs (l.getD k 0); let b := pt vs (l.getD ((k + 1) % 3) 0); let c := pt vs (l.getD ((k + 2) % 3) 0)
  let x := sub b a
  let n := cross x (sub c a)
  (x, cross n x, n)

/-- `gradient`: per face `(|X'|², |n|², [(Y'·(p_{k+1} − p_{k+2}), X'·(p_{k+2} − p_{k+1}))]_{k=0,1,2})`; the coefficient of vertex `k` is
`complex(yB−yC, xC−xB)/aT = (ry / (|X'||n|²), rx / (|X'||n|))` since `x = X'·p/|X'|`, `y = Y'·p/(|X'||n|)`, `aT = 2·area = |n|` -/
def gradFace (vs : List V3) (faces : List Face) (f : F3) : Rat × Rat × List (Rat × Rat) :=
  let (x, y, n) := faceBasis vs faces f
  let p := [pt vs f.1, pt vs f.2.1, pt vs f.2.2]
  (norm2 x, norm2 n, (List.range 3).map (fun k =>
    let q1 := p.getD ((k + 1) % 3) V3.zero; let q2 := p.getD ((k + 2) % 3) V3.zero
    (dot y (sub q1 q2), dot x (sub q2 q1))))

/-- the three hat-function gradients of the triangle as 3-D vectors: `∇φ_k = n × (p_{k+2} − p_{k+1}) / |n|²` -/
def hatGrad (a b c : V3) : V3 × V3 × V3 :=
  let n := cross (sub b a) (sub c a)
  let k := 1 / norm2 n
  (smul k (cross n (sub c b)), smul k (cross n (sub a c)), smul k (cross n (sub b a)))

/-! ### volumes -/

/-- cells adjacent to cell `c` through a shared triangular face (three common vertices) -/
def shareFace (c d : List Nat) : Bool := (c.filter (fun v => d.contains v)).length == 3
def cellNbrs (cells : List (List Nat)) (k : Nat) : List Nat :=
  (List.range cells.length).filter (fun m => m != k && shareFace (cells.getD k []) (cells.getD m []))

/-- `laplacian_tetrahedra`: `mat[c1,c1] += len(adj)`, `mat[c1,c2] -= 1` -/
def lapTetRow (cells : List (List Nat)) (k : Nat) : List Trip :=
  (k, k, ((cellNbrs cells k).length : Rat)) :: (cellNbrs cells k).map (fun m => (k, m, (-1 : Rat)))
def lapTet (cells : List (List Nat)) : List Trip := (List.range cells.length).flatMap (lapTetRow cells)

/-- `volume_laplacian`, per edge `(I,J)` and per incident cell with other vertices `(K,L)` (in the cell's order):
`(|KL|², n1·n2, |n1×n2|²)` with `n1 = (K−I)×(L−I)`, `n2 = (L−J)×(K−J)`; `omega += |KL|·|n1·n2|/|n1×n2|/6` -/
def volLapTerms (vs : List V3) (cells : List (List Nat)) (e : Nat × Nat) : List (Rat × Rat × Rat) :=
  (cells.filter (fun c => c.contains e.1 && c.contains e.2)).map (fun c =>
    let o := c.filter (fun x => x != e.1 && x != e.2)
    let k := pt vs (o.getD 0 0); let l := pt vs (o.getD 1 0)
    let i := pt vs e.1; let j := pt vs e.2
    let n1 := cross (sub k i) (sub l i)
    let n2 := cross (sub l j) (sub k j)
    (dist2 k l, dot n1 n2, norm2 (cross n1 n2)))

/-- Dirichlet energy `Σ_T Σ_{edges} w (x_i − x_j)²` (specification of the quadratic form of `laplacian`) -/
def dirichletAux (w : Nat → Rat) (x : Nat → Rat) : List F3 → Nat → Rat
  | [], _ => 0
  | f :: fs, t =>
    w (3 * t + 2) * (x f.1 - x f.2.1) ^ 2 + w (3 * t) * (x f.2.1 - x f.2.2) ^ 2
      + w (3 * t + 1) * (x f.2.2 - x f.1) ^ 2 + dirichletAux w x fs (t + 1)
def dirichlet (w : Nat → Rat) (x : Nat → Rat) (faces : List F3) : Rat := dirichletAux w x faces 0

/-- number of occurrences, as a rational -/
def cnt (l : List Nat) (j : Nat) : Rat := rsum (l.map (fun b => if b = j then 1 else 0))

/-- `Σ_t |elem_t| · ar t` -/
def weightedSizeAux (ar : Nat → Rat) : List Face → Nat → Rat
  | [], _ => 0
  | f :: fs, t => (f.length : Rat) * ar t + weightedSizeAux ar fs (t + 1)
def sumAr (ar : Nat → Rat) (n : Nat) : Rat := rsum ((List.range n).map ar)

end Mouette.Ops
