/-
Model of `mouette/utils/unionfind.py` (class `UnionFind`), core Lean only.

Elements are `Nat` ids (the harness maps each distinct hashable Python element to an id).
`_elts` is `elts`; the dict `_indx` is modelled by `elts.idxOf` (its invariant in the code is
`_indx[x] = position of x in _elts`); `_par`, `_siz` are lists; `n_elts`, `n_comps`, `_next` are the
three counters exactly as the code keeps them.

Out-of-range reads are totalised as "self-parent" (`par.getD i i`); the invariant `UF.Inv`
(Props/C20) shows they never happen on reachable states.
-/
namespace Mouette.UF

structure State where
  elts   : List Nat := []
  par    : List Nat := []
  siz    : List Nat := []
  next   : Nat := 0
  nElts  : Nat := 0
  nComps : Nat := 0
deriving Repr, DecidableEq

def init : State := {}

def State.mem (s : State) (x : Nat) : Bool := s.elts.contains x

/-- `add`: no-op when present. -/
def add (s : State) (x : Nat) : State :=
  if s.mem x then s else
  { elts := s.elts ++ [x], par := s.par ++ [s.next], siz := s.siz ++ [1],
    next := s.next + 1, nElts := s.nElts + 1, nComps := s.nComps + 1 }

/-- parent of `p` (`_par[p]`), totalised. -/
def parent (par : List Nat) (p : Nat) : Nat := par.getD p p

/-- The `while p != par[p]` loop of `find` with path halving; `fuel` bounds the iterations. -/
def findLoop (par : List Nat) : Nat → Nat → List Nat × Nat
  | 0, p => (par, p)
  | fuel+1, p =>
    let q := parent par p
    if q = p then (par, p) else
      findLoop (par.set p (parent par q)) fuel q

/-- `find x`: `none` models `ValueError` (absent element). Returns the new state (path halving
mutates `_par`) and the root index. Fuel `par.length` (shown sufficient under the invariant). -/
def find (s : State) (x : Nat) : Option (State × Nat) :=
  if s.mem x then
    let r := findLoop s.par s.par.length (s.elts.idxOf x)
    some ({ s with par := r.1 }, r.2)
  else none

def connected (s : State) (x y : Nat) : Option (State × Bool) :=
  match find s x with
  | none => none
  | some (s1, rx) =>
    match find s1 y with
    | none => none
    | some (s2, ry) => some (s2, rx == ry)

def union (s : State) (x y : Nat) : State :=
  let s := add s x
  let s := add s y
  match find s x with
  | none => s
  | some (s1, xr) =>
    match find s1 y with
    | none => s1
    | some (s2, yr) =>
      if xr = yr then s2
      else if s2.siz.getD xr 0 < s2.siz.getD yr 0 then
        { s2 with par := s2.par.set xr yr,
                  siz := s2.siz.set yr (s2.siz.getD yr 0 + s2.siz.getD xr 0),
                  nComps := s2.nComps - 1 }
      else
        { s2 with par := s2.par.set yr xr,
                  siz := s2.siz.set xr (s2.siz.getD xr 0 + s2.siz.getD yr 0),
                  nComps := s2.nComps - 1 }

/-- Roots of all elements in `_elts` order (threading the mutation like the code does). -/
def rootsList (s : State) : State × List Nat :=
  s.elts.foldl (fun (acc : State × List Nat) e =>
    match find acc.1 e with
    | none => acc
    | some (s', r) => (s', acc.2 ++ [r])) (s, [])

/-- one step of the generator `e for e in self._elts if self.find(e) == root` of `component` (every `find` may halve paths) -/
def compStep (root : Nat) (acc : State × List Nat) (e : Nat) : State × List Nat :=
  match find acc.1 e with
  | none => acc
  | some (s', r) => if r = root then (s', acc.2 ++ [e]) else (s', acc.2)

/-- `component x`, in the order of the code: membership guard, `root = find(x)`, then the elements (in `_elts` order)
whose `find` equals `root`. -/
def component (s : State) (x : Nat) : Option (State × List Nat) :=
  if s.mem x then
    match find s x with
    | none => none
    | some (s1, rx) => some (s1.elts.foldl (compStep rx) (s1, []))
  else none

/-- Operations of a history. -/
inductive Op where
  | add (x : Nat)
  | union (x y : Nat)
  | find (x : Nat)
  | connected (x y : Nat)
  | component (x : Nat)
deriving Repr, DecidableEq

/-- State transition of one operation (queries mutate through path halving). -/
def step (s : State) : Op → State
  | .add x => add s x
  | .union x y => union s x y
  | .find x => match find s x with | some (s', _) => s' | none => s
  | .connected x y => match connected s x y with | some (s', _) => s' | none => s
  | .component x => match component s x with | some (s', _) => s' | none => s

def run (ops : List Op) : State := ops.foldl step init

/-- Pure (non-mutating) root computation, used by specifications and observers. -/
def rootOf (s : State) (i : Nat) : Nat := (findLoop s.par s.par.length i).2

end Mouette.UF
