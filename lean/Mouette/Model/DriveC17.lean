import Mouette.Model.Proto
import Mouette.Model.Tutte
/-
Protocol front-end for C17.
  `tutte <nV> <nE> <F> <mode: circle|square|custom> <free> <bnd> <U | C <cot per corner>> <storage: V|C> <custom rows: list of (u v)>`
     reply: `err:Other(Exception)` when the gate rejects, `err:Singular` when the system is singular, else
       `<T n t_0 … | P n u_0 v_0 …> ; H <nI> <row>… ; S <n slots> <I<k>|B<k>|Z>… ; R<0/1>`
  `square <n>`  → `P n u_0 v_0 …`
-/
namespace Mouette.DriveC17
open Mouette.Proto Mouette.Tutte

def pairR : P (Rat × Rat) := do let a ← rat; let b ← rat; pure (a, b)

def fmtPairs (l : List (Rat × Rat)) : String :=
  " ".intercalate (("P" :: toString l.length :: l.map (fun p => s!"{fmtRat p.1} {fmtRat p.2}")))

def fmtSrc : Src → String
  | .free k => s!"I{k}"
  | .bnd k => s!"B{k}"
  | .zero => "Z"

def handle (ts : List String) : Option String :=
  match ts with
  | "square" :: r => do
      let n ← runP nat r
      pure (fmtPairs (squareBoundary n))
  | "tutte" :: r => do
      let (nV, nE, F, mode, free, bnd, cot, storage, custom) ← runP (do
        let nV ← nat; let nE ← nat; let F ← listOf (listOf nat); let mode ← tok
        let free ← listOf nat; let bnd ← listOf nat
        let ck ← tok
        let cot ← (if ck = "C" then (do let l ← listOf rat; pure (some l)) else pure none : P (Option (List Rat)))
        let storage ← tok
        let custom ← listOf pairR
        pure (nV, nE, F, mode, free, bnd, cot, storage, custom)) r
      if !gate nV nE F.length then pure "err:Other(Exception)" else
      let n := bnd.length
      let bdata := if mode = "circle" then " ".intercalate ("T" :: toString n :: (circleTurns n).map fmtRat)
        else if mode = "square" then fmtPairs (squareBoundary n) else fmtPairs custom
      let T := lapTriplets cot F
      match harmonicMatrix T free bnd with
      | none => pure "err:Singular"
      | some H =>
        let ws := writes free bnd
        let slots := if storage = "C" then cornerStore F.flatten ws else vertexStore nV ws
        let hs := " ".intercalate (H.map fmtRats)
        pure s!"{bdata} ; H {H.length} {hs} ; S {slots.length} {" ".intercalate (slots.map fmtSrc)} ; R{fmtBool (residualZero T free bnd H)}"
  | _ => none

end Mouette.DriveC17
