/-
Generic model of a class with lazily filled caches (C01, reusable for C03).

A class is described by a *guard table* (translated from the source by `vlib/gen/guardtable.py`):
every method is a list of events in source order

  * `read c`      `self._c` used as a value (subscript, `.get`, `in`, returned…): fails unless filled;
  * `write c`     `self._c = <not None>`;
  * `reset c`     `self._c = None`;
  * `test c ks`   `if self._c is None: self.k1(); self.k2()…` — fails when the attribute does not
                  exist (never assigned by `__init__`/`clear`), runs the functions `ks` when it is None;
  * `call f`      call of another method of the table (accessors call accessors, compute functions
                  call accessors, `super().m()` is a call of the parent's body).

Each event carries a flag `maybe`: the event sits under a condition the table does not interpret
(loop body, `if`, code after an early `return`, right operand of `and`/`or`, comprehension element).
A `maybe` event may or may not happen, independently of the others: the semantics is set-valued and
explores both, which over-approximates every real control flow.

A cache is `absent` (attribute never assigned), `empty` (None) or `filled`.  A filled cache holds the
value its compute function derives from the immutable mesh, so an answer is either the pure answer
or an exception: `answer` below.  Core Lean only (linked into the driver).
-/
namespace Mouette.Lazy

inductive CS where
  | absent | empty | filled
deriving DecidableEq, Repr, Inhabited

/-- the state of all caches, two bits per cache (0 absent, 1 empty, 2 filled); a `Nat` so that the
    kernel compares states with its built-in arithmetic when the closure check is decided -/
abbrev St := Nat

inductive Event where
  | read (c : Nat)
  | write (c : Nat)
  | reset (c : Nat)
  | test (c : Nat) (ks : List Nat)
  | call (f : Nat)
deriving DecidableEq, Repr, Inhabited

structure Table where
  ncaches : Nat
  bodies : List (List (Bool × Event))   -- function id ↦ body; the flag is `maybe`
  init : List Nat              -- constructors, run in this order on the all-absent state
  queries : List Nat           -- public methods (what a user can call, incl. `clear`)
  fuel : Nat                   -- bound on the call depth (a deeper recursion counts as a failure)
  rounds : Nat                 -- bound on the number of breadth-first rounds of `reach`
deriving Repr, Inhabited

def getC (st : St) (c : Nat) : CS :=
  let d := (st >>> (2*c)) % 4
  if d == 0 then .absent else if d == 1 then .empty else .filled
def code : CS → Nat
  | .absent => 0 | .empty => 1 | .filled => 2
def setC (st : St) (c : Nat) (v : CS) : St :=
  st - (((st >>> (2*c)) % 4) <<< (2*c)) + ((code v) <<< (2*c))

/-- possible outcomes of running a piece of code: states in which it returned normally, states in
    which an exception was raised -/
structure Out where
  ok : List St
  bad : List St
deriving Repr, Inhabited

def union (a b : List St) : List St := b.foldl (fun acc s => if acc.contains s then acc else acc ++ [s]) a

/-- continue every normal outcome of `o` with `f` -/
def bindOut (o : Out) (f : St → Out) : Out :=
  o.ok.foldl (fun acc s => let r := f s; { ok := union acc.ok r.ok, bad := union acc.bad r.bad })
    { ok := [], bad := o.bad }

/-- run function `f` from state `st` -/
def execFn (tbl : Table) : Nat → Nat → St → Out
  | 0, _, st => { ok := [], bad := [st] }
  | fuel+1, f, st =>
    (tbl.bodies.getD f []).foldl (fun (acc : Out) (me : Bool × Event) =>
      let one (s : St) : Out :=
        match me.2 with
        | .read c => if getC s c = .filled then { ok := [s], bad := [] } else { ok := [], bad := [s] }
        | .write c => { ok := [setC s c .filled], bad := [] }
        | .reset c => { ok := [setC s c .empty], bad := [] }
        | .test c ks =>
            match getC s c with
            | .absent => { ok := [], bad := [s] }
            | .filled => { ok := [s], bad := [] }
            | .empty => ks.foldl (fun (o : Out) k => bindOut o (execFn tbl fuel k)) { ok := [s], bad := [] }
        | .call g => execFn tbl fuel g s
      let r := bindOut acc one
      if me.1 then { ok := union acc.ok r.ok, bad := r.bad } else r) { ok := [st], bad := [] }

/-- one user-level call from one state -/
def step (tbl : Table) (st : St) (q : Nat) : Out := execFn tbl tbl.fuel q st

/-- one user-level call from a set of possible states; a raised exception leaves the object in the
    state it had when raised -/
def stepSet (tbl : Table) (S : List St) (q : Nat) : Out :=
  S.foldl (fun acc s => let r := step tbl s q; { ok := union acc.ok r.ok, bad := union acc.bad r.bad })
    { ok := [], bad := [] }

def after (o : Out) : List St := union o.ok o.bad

def initSet (tbl : Table) : List St :=
  tbl.init.foldl (fun S f => after (stepSet tbl S f)) [0]

/-- possible states after a history of calls on a freshly built object -/
def run (tbl : Table) (qs : List Nat) : List St :=
  qs.foldl (fun S q => after (stepSet tbl S q)) (initSet tbl)

/-- the answer to query `q` when the object is in one of the states `S`: the pure answer when no
    possible state raises, `none` otherwise -/
def answer {α} (pureAns : Nat → α) (tbl : Table) (S : List St) (q : Nat) : Option α :=
  if (stepSet tbl S q).bad.isEmpty then some (pureAns q) else none

/-! ### reachable states and the decidable well-guardedness check -/

/-- one breadth-first round: successors of the frontier that were not seen yet -/
def expand (tbl : Table) (seen frontier : List St) : List St × List St :=
  frontier.foldl (fun acc s =>
    tbl.queries.foldl (fun acc q =>
      (after (step tbl s q)).foldl (fun acc s' =>
        if acc.1.contains s' then acc else (acc.1 ++ [s'], s' :: acc.2)) acc) acc) (seen, [])

def reach (tbl : Table) : Nat → List St → List St → List St
  | 0, seen, _ => seen
  | _+1, seen, [] => seen
  | n+1, seen, fr => let r := expand tbl seen fr; reach tbl n r.1 r.2

def reachable (tbl : Table) : List St := reach tbl tbl.rounds (initSet tbl) (initSet tbl)

/-- `S` contains every possible fresh state, is closed under every public call, and no public call
    can fail in it -/
def closedOk (tbl : Table) (S : List St) : Bool :=
  (initSet tbl).all (fun s => S.contains s) &&
  S.all fun s => tbl.queries.all fun q =>
    (step tbl s q).bad.isEmpty && (step tbl s q).ok.all fun s' => S.contains s'

/-- no constructor can fail -/
def initOk (tbl : Table) : Bool :=
  (tbl.init.foldl (fun (acc : List St × Bool) f =>
      let r := stepSet tbl acc.1 f; (after r, acc.2 && r.bad.isEmpty)) ([0], true)).2

def WellGuarded (tbl : Table) : Bool :=
  initOk tbl && closedOk tbl (reachable tbl)

end Mouette.Lazy
