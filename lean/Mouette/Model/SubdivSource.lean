import Mouette.Model.Subdiv
/-
Vocabulary of the C13 TRANSLATED function bodies (`Generated/C13Src.lean`, written by `vlib/gen/c13_translate.py` from
`mouette/mesh/subdivision.py` on every run).  Core Lean only.

The translator reads each function of `subdivision.py` IMPERATIVELY (statement order, which container is written, loops,
guards, index expressions, dict / set writes) and emits a state-passing Lean function in the `Except Err` monad over the
raw containers `Raw` of the hand model.  The primitives below are the meaning given to the Python operations it recognises:

  `X[i]`  (container / list read)        `idx X i`            IndexError  -> `Err.index`
  `X[i] = v`                             `setAt X i v`        IndexError  -> `Err.index`
  `a, b, c = f`  (list of indices)       `unpack3 f`          ValueError  -> `Err.value`   (also `unpack4`)
  `X.append(v)` / `X += [..]`            `X ++ [v]` / `X ++ l`
  `d = dict()`, `d[k] = v`, `d[k]`       `[]`, `dset d k v`, `dgetE d k`   KeyError -> `Err.key`; last write wins
  `s = set()`, `s.add(x)`, `list(s)`     `[]`, `sadd s x`, `s`             (some duplicate-free order: insertion order)
  `sum([..])`                            `sumPts`            (exact rational arithmetic, order of summation forgotten)
  `P + Q`, `P / n`, `c * P`              `Pt.add`, `Pt.divn`, `Pt.smul`
  `for x in L: body`                     `foldE (fun state x => body) state L`   (state = the variables the body writes)
  `for i in range(..)` / `X.id_faces`    the same over `List.range' ..` / `List.range X.faces.length` (fixed at loop start)
  `for i, F in enumerate(X)`             the same over `number 0 X`
  `[c for c in X.id_cells if p(X.cells[c])]`   `filterIdx p X.cells`
  `S.issubset(C)`, `x not in S`          `isSubset S C`, `!(S.elem x)`            (`S = set(f)` is kept as the list `f`)
-/
namespace Mouette.SubdivSrc
open Mouette.Subdiv

/-- `X[i]` -/
def idx {α} (l : List α) (i : Nat) : Except Err α :=
  match l[i]? with | some x => .ok x | none => .error Err.index

/-- `X[i] = v` -/
def setAt {α} (l : List α) (i : Nat) (v : α) : Except Err (List α) :=
  if i < l.length then .ok (l.set i v) else .error Err.index

/-- `a, b, c = f` -/
def unpack3 : List Nat → Except Err (Nat × Nat × Nat)
  | [a, b, c] => .ok (a, b, c)
  | _ => .error Err.value

/-- `a, b, c, d = f` -/
def unpack4 : List Nat → Except Err (Nat × Nat × Nat × Nat)
  | [a, b, c, d] => .ok (a, b, c, d)
  | _ => .error Err.value

/-- a Python dict: association list, most recent binding first -/
abbrev Dict (κ : Type) := List (κ × Nat)

def dset {κ} (d : Dict κ) (k : κ) (v : Nat) : Dict κ := (k, v) :: d

/-- `d[k]` -/
def dgetE {κ} [BEq κ] (d : Dict κ) (k : κ) : Except Err Nat :=
  match d.lookup k with | some v => .ok v | none => .error Err.key

/-- `s.add(x)` on a Python set kept in insertion order -/
def sadd {α} [BEq α] (s : List α) (x : α) : List α := if s.elem x then s else s ++ [x]

/-- `[k for k in range(len(l)) if p(l[k])]` -/
def filterIdx {α} (p : α → Bool) (l : List α) : List Nat :=
  (List.range l.length).filter (fun k => match l[k]? with | some x => p x | none => false)

/-- what `__enter__` / `__exit__` / `__init__` of an editor do, step by step (translated as a list of steps) -/
inductive Step where
  | keepCaller          -- `self._input = mesh`
  | bindWork            -- `self.mesh = mesh`
  | wrapRaw             -- `self.mesh = RawMeshData(self.mesh)`   (shares the containers)
  | clear (what : String)   -- `self.mesh.<what>.clear()`
  | cellAdjacency       -- `self.conn = ...; self.conn._compute_cell_adj()`
  | prepare             -- `self.mesh.prepare()`
  | reinitCaller        -- `self._input.__init__(self.mesh)`
  | rebindCaller        -- `self.mesh = self._input`
  | other (what : String)
deriving Repr, DecidableEq

end Mouette.SubdivSrc
