import Mouette.Lemmas.CuttingThm
/-
Counting observables of `_build_mesh_with_cuts` used by the Euler-characteristic theorems of C16 and reported by the
driver on every case (core Lean only; `Lemmas/CuttingThm.lean` and what it imports are Mathlib-free).
-/
namespace Mouette.Cutting
open Mouette Mouette.UF

/-- number of unions of the sequence that join two distinct classes -/
def effCount (s : State) : List (Nat × Nat) → Nat
  | [] => 0
  | p :: ps => (if classOf s p.1 = classOf s p.2 then 0 else 1) + effCount (union s p.1 p.2) ps

/-- next corner inside the same triangle -/
def nxt (c : Nat) : Nat := 3 * (c / 3) + (c % 3 + 1) % 3

/-- from the union pairs `(A₁,A₂),(B₁,B₂)` of every uncut edge: the corners `(A₁, B₂)` at which its two sides start -/
def twins : List (Nat × Nat) → List (Nat × Nat)
  | p :: q :: l => (p.1, q.2) :: twins l
  | _ => []

/-- undirected key of a directed side -/
def ukey (p : Nat × Nat) : Nat × Nat := if p.1 ≤ p.2 then p else (p.2, p.1)

/-- undirected edge of the cut mesh carried by the side that starts at corner `c` -/
def sideKey (o : Out) (c : Nat) : Nat × Nat := ukey (newOf o c, newOf o (nxt c))

/-- decidable form of the hypotheses `hR`, `hdisj`, `sep` of `edge_count_partial` -/
def edgeHyp (o : Out) (nF : Nat) (tw : List (Nat × Nat)) : Bool :=
  let snds := tw.map Prod.snd
  let ks := (List.range (3 * nF)).map (fun a => (a, sideKey o a))
  decide snds.Nodup && tw.all (fun t => !snds.contains t.1) &&
  ks.all (fun x => ks.all (fun y =>
    !(x.2 == y.2) || x.1 == y.1 || tw.contains (x.1, y.1) || tw.contains (y.1, x.1)))

/-- `(V', effective unions, |uncut|, hypotheses hold)` for a successful build -/
def eulerReport (F : List Face) (uncut : List (Nat × Nat)) (o : Out) : Option (Nat × Nat × Nat × Bool) :=
  match unionPairs (halfEdges F) (cornerFaces F) uncut with
  | none => none
  | some ps => some (o.pos.length, effCount (ufRange (3 * F.length)) ps, uncut.length, edgeHyp o F.length (twins ps))

end Mouette.Cutting
