import Mouette.Model.Proto
import Mouette.Model.Trees
/-
Protocol front-end for C10.
  graph  := <n> (<deg> (nv k)^deg)^n <x> k^x        adjacency lists with connector ids, excluded connectors
  `bfs <root> <skipInf> graph`   reply `P:..|C:..|E:..|T:..|S:..|D:..|W:<leftover work>|H:<WF ∧ Sym hold>`
        parent table, children lists, edge list, BFS traversal, DFS traversal (node/parent), depths, and the
        number of work items left when the traversal fuel ran out (always 0, by `traverse_complete`)
  `mst <n> <root> <m> (a b w excl)^m`   reply `E:..|P:..|C:..` (children sorted: they come out of Python sets)
  `forest <skipInf> graph`       reply `R:roots|E:edges of all trees|T:BFS traversal of all trees`
-/
namespace Mouette.DriveC10
open Mouette.Proto Mouette.Trees

structure G where
  n : Nat
  adj : List (List (Nat × Nat))
  excl : List Nat

def pairP : P (Nat × Nat) := do let a ← nat; let b ← nat; pure (a, b)

def graphP : P G := do
  let n ← nat
  let adj ← repeatP (listOf pairP) n
  let excl ← listOf nat
  pure { n, adj, excl }

def G.cfg (g : G) : Cfg := { adj := fun u => g.adj.getD u [], excl := fun k => g.excl.contains k }

def G.wf (g : G) : Bool := g.adj.all (fun l => l.all (fun e => e.1 < g.n))

/-- the hypotheses of the theorems of Props/C10 on this input: neighbours in range (`WF`), undirected admissible
adjacency (`Sym`) -/
def G.hyp (g : G) : Bool :=
  g.wf && (List.range g.n).all (fun u => (nbrs g.cfg u).all (fun x => (nbrs g.cfg x).contains u))

def fmtOpt : Option Nat → String | none => "N" | some p => toString p
def sep (l : List String) : String := ",".intercalate l
def fmtPairs (l : List (Nat × Nat)) : String := sep (l.map (fun e => s!"{e.1}-{e.2}"))
def fmtTrav (l : List (Nat × Option Nat)) : String := sep (l.map (fun e => s!"{e.1}/{fmtOpt e.2}"))

def bfsReply (root : Nat) (skipInf : Bool) (g : G) : String :=
  let t := bfsTree g.cfg g.n root skipInf
  let ids := List.range g.n
  let tb := traverse true g.n t
  let td := traverse false g.n t
  s!"P:{sep (ids.map (fun v => fmtOpt (t.parent v)))}|C:{sep (ids.map (fun v => " ".intercalate ((t.children v).map toString)))}|E:{fmtPairs t.edges}|T:{fmtTrav tb.1}|S:{fmtTrav td.1}|D:{sep (ids.map (fun v => fmtOpt (t.depth v)))}|W:{tb.2.length + td.2.length}|H:{fmtBool g.hyp}"

def forestReply (skipInf : Bool) (g : G) : String :=
  let ts := forest g.cfg g.n skipInf
  let edges := ts.foldl (fun acc t => acc ++ t.edges) []
  let trv := ts.foldl (fun acc t => acc ++ (traverse true g.n t).1) []
  s!"R:{sep (ts.map (fun t => toString t.root))}|E:{fmtPairs edges}|T:{fmtTrav trv}|H:{fmtBool g.hyp}"

def edgeP : P ((Nat × Nat × Rat) × Bool) := do
  let a ← nat; let b ← nat; let w ← rat; let x ← bool; pure ((a, b, w), x)

def mstReply (n root : Nat) (es : List ((Nat × Nat × Rat) × Bool)) : String :=
  let adm := (es.filter (fun e => !e.2)).map (·.1)
  let (tes, o) := mst n root adm
  let ids := List.range n
  s!"E:{fmtPairs tes}|P:{sep (ids.map (fun v => fmtOpt (o.parent v)))}|C:{sep (ids.map (fun v => " ".intercalate (((o.children v).mergeSort (· ≤ ·)).map toString)))}|W:{o.queue.length}"

def handle (ts : List String) : Option String :=
  match ts with
  | "bfs" :: rest =>
    (runP (do let r ← nat; let k ← bool; let g ← graphP; pure (r, k, g)) rest).map
      (fun (r, k, g) => if g.wf && r < g.n then bfsReply r k g else "err:Index")
  | "forest" :: rest =>
    (runP (do let k ← bool; let g ← graphP; pure (k, g)) rest).map
      (fun (k, g) => if g.wf then forestReply k g else "err:Index")
  | "mst" :: rest =>
    (runP (do let n ← nat; let r ← nat; let es ← listOf edgeP; pure (n, r, es)) rest).map
      (fun (n, r, es) => if r < n && es.all (fun e => e.1.1 < n && e.1.2.1 < n) then mstReply n r es else "err:Index")
  | _ => none

end Mouette.DriveC10
