import Mouette.Model.AABB
/-
Model of `mouette/spatial/kdtree.py` (class `KDTree`), core Lean only.

* points are a function `P : Nat → Pt` (index ↦ coordinates, `Pt = List Rat`); all distances are SQUARED
  (the code compares `sqrt`s; `sqrt` is monotone, so every comparison is the same on squares).
* the tree is an inductive tree.  The code stores it flat (`self.nodes`, ids assigned in BFS order) and
  builds it with a FIFO queue; node numbering and the order in which cells are split are forgotten by
  the model (they are not observable through `query`, `query_radius` or the leaf partition).  The
  *stack* traversal of `query` is reproduced exactly by the recursion of `visit`: the pruning decision
  for both children is taken when the parent is popped, the nearer child is pushed first, hence the
  farther child (and all of its descendants) is processed first.
* the pivot (`_find_pivot`: median / median of a random sub-sample / a random element) is a PARAMETER
  `piv : Nat → List Rat → Rat` (heap-path id of the cell ↦ coordinates along the axis ↦ pivot): the
  theorems hold for every pivot function, i.e. for every strategy and every random choice.
* `splitIdx`, `canVisit` follow the REPAIRED code (fix: degenerate-split fallback; fix: prune only
  when k candidates are held).  `splitIdxOriginal`, `buildOriginal`, `visitOriginal` are the rules of
  the pinned tree, kept for the refutation theorems.
* the candidate heap of `query` (`PriorityQueue` keyed by `-distance`, trimmed to `k` entries by
  popping the farthest) is a list sorted by non-decreasing squared distance, truncated to `k`.
-/
namespace Mouette.KD
open Mouette.AABB Mouette.AABB.EQ

abbrev Pt := List Rat

def coord (p : Pt) (a : Nat) : Rat := p.getD a 0

/-- squared euclidean distance (`distance(A,B)**2`) -/
abbrev sqDist : Pt → Pt → Rat := Mouette.AABB.sqDistR

inductive Tree where
  | leaf (idx : List Nat) (box : Box)
  | node (axis : Nat) (split : Rat) (box : Box) (l r : Tree)
deriving Repr, DecidableEq

namespace Tree
def box : Tree → Box
  | leaf _ b => b
  | node _ _ b _ _ => b

/-- leaves, left to right -/
def leaves : Tree → List (List Nat × Box)
  | leaf idx b => [(idx, b)]
  | node _ _ _ l r => l.leaves ++ r.leaves

/-- all stored indices, left to right -/
def indices : Tree → List Nat
  | leaf idx _ => idx
  | node _ _ _ l r => l.indices ++ r.indices
end Tree

/-! ### construction -/

/-- `pts_ax <= pivot` / its complement: the split as coded in the pinned tree -/
def splitIdxOriginal (P : Nat → Pt) (axis : Nat) (pv : Rat) (idx : List Nat) : Rat × List Nat × List Nat :=
  (pv, idx.filter (fun i => decide (coord (P i) axis ≤ pv)), idx.filter (fun i => !decide (coord (P i) axis ≤ pv)))

def leAx (P : Nat → Pt) (axis : Nat) (i j : Nat) : Bool := decide (coord (P i) axis ≤ coord (P j) axis)

/-! numpy vocabulary of `_split_points`, on lists (positions = list positions) -/

/-- `self.points[pt_idx, axis]` -/
def takeAx (P : Nat → Pt) (idx : List Nat) (axis : Nat) : List Rat := idx.map (fun i => coord (P i) axis)
/-- `pts_ax <= pivot` (boolean mask) -/
def leMask (xs : List Rat) (pv : Rat) : List Bool := xs.map (fun x => decide (x ≤ pv))
/-- `mask.all()` / `mask.any()` -/
def maskAll (m : List Bool) : Bool := m.all id
def maskAny (m : List Bool) : Bool := m.any id
/-- `~mask` -/
def maskNot (m : List Bool) : List Bool := m.map not
/-- `np.argsort(xs, kind="stable")`: the positions, stably sorted by value (`List.mergeSort` is stable) -/
def argsortStable (xs : List Rat) : List Nat :=
  (List.range xs.length).mergeSort (fun a b => decide (xs.getD a 0 ≤ xs.getD b 0))
/-- `np.zeros(n, dtype=bool)` -/
def zerosBool (n : Nat) : List Bool := List.replicate n false
/-- `mask[pos] = True` (fancy-index store) -/
def maskSet (mask : List Bool) (pos : List Nat) : List Bool := pos.foldl (fun m p => m.set p true) mask
/-- `np.extract(mask, xs)`: the entries of `xs` at the positions where the mask holds, in the order of `xs` -/
def extract (mask : List Bool) (xs : List Nat) : List Nat := ((xs.zip mask).filter (fun p => p.2)).map (fun p => p.1)

/-- repaired split, as coded: `pts_ax <= pivot` mask; when the pivot does not separate the points, the mask of the
`size//2` positions of smallest coordinate (stable argsort) and split value = the largest coordinate among them.
Both halves keep the ORDER of `idx` (`np.extract`). -/
def splitIdx (P : Nat → Pt) (axis : Nat) (pv : Rat) (idx : List Nat) : Rat × List Nat × List Nat :=
  let xs := takeAx P idx axis
  let m := leMask xs pv
  if maskAll m || !(maskAny m) then
    let order := argsortStable xs
    let h := xs.length / 2
    let m' := maskSet (zerosBool xs.length) (order.take h)
    -- `pts_ax[order[half-1]]` (h ≥ 1 whenever a cell is split)
    (xs.getD (order.getD (h - 1) 0) 0, extract m' idx, extract (maskNot m') idx)
  else (pv, extract m idx, extract (maskNot m) idx)

def boxLess (b : Box) (axis : Nat) (sv : Rat) : Box := ⟨b.lo, b.hi.set axis (fin sv)⟩
def boxMore (b : Box) (axis : Nat) (sv : Rat) : Box := ⟨b.lo.set axis (fin sv), b.hi⟩

/-- generic construction, parameterised by the split rule; `fuel` bounds the depth -/
def buildWith (split : Nat → Rat → List Nat → Rat × List Nat × List Nat)
    (P : Nat → Pt) (dim leafSize : Nat) (piv : Nat → List Rat → Rat) :
    Nat → Nat → Nat → List Nat → Box → Option Tree
  | 0, _, _, _, _ => none
  | fuel + 1, path, axis, idx, box =>
    if idx.length ≤ leafSize then some (.leaf idx box)
    else
      let s := split axis (piv path (idx.map (fun i => coord (P i) axis))) idx
      let ax' := (axis + 1) % dim
      match buildWith split P dim leafSize piv fuel (2 * path) ax' s.2.1 (boxLess box axis s.1),
            buildWith split P dim leafSize piv fuel (2 * path + 1) ax' s.2.2 (boxMore box axis s.1) with
      | some l, some r => some (.node axis s.1 box l r)
      | _, _ => none

/-- the repaired construction -/
def build (P : Nat → Pt) (dim leafSize : Nat) (piv : Nat → List Rat → Rat) :=
  buildWith (splitIdx P) P dim leafSize piv

/-- the construction of the pinned tree -/
def buildOriginal (P : Nat → Pt) (dim leafSize : Nat) (piv : Nat → List Rat → Rat) :=
  buildWith (splitIdxOriginal P) P dim leafSize piv

/-- `KDTree(points, leafSize)`: root cell = all indices, axis 0, infinite box, path id 1 -/
def buildRoot (P : Nat → Pt) (n dim leafSize : Nat) (piv : Nat → List Rat → Rat) (fuel : Nat) : Option Tree :=
  build P dim leafSize piv fuel 1 0 (List.range n) (Box.infinite dim)

/-! ### k nearest neighbours -/

abbrev Cand := Rat × Nat

/-- insertion into the candidate list sorted by non-decreasing squared distance -/
def ins (c : Cand) : List Cand → List Cand
  | [] => [c]
  | y :: ys => if c.1 < y.1 then c :: y :: ys else y :: ins c ys

/-- `found.push(idx, -d)` followed by `while n_found > k: found.pop()` -/
def push (k : Nat) (c : Cand) (st : List Cand) : List Cand := (ins c st).take k

/-- `furthest_so_far` of the repaired code: the worst held distance once `k` candidates are held, else +∞ -/
def furthest (k : Nat) (st : List Cand) : EQ :=
  if st.length = k then (match st.getLast? with | some c => fin c.1 | none => pinf) else pinf

/-- `furthest_so_far` of the pinned tree: the worst held distance as soon as ONE candidate is held -/
def furthestOriginal (st : List Cand) : EQ :=
  match st.getLast? with | some c => fin c.1 | none => pinf

def visitLeaf (P : Nat → Pt) (q : Pt) (k : Nat) (idx : List Nat) (st : List Cand) : List Cand :=
  idx.foldl (fun s i => push k (sqDist (P i) q, i) s) st

def visitWith (far : List Cand → EQ) (P : Nat → Pt) (q : Pt) (k : Nat) : Tree → List Cand → List Cand
  | .leaf idx _, st => visitLeaf P q k idx st
  | .node _ _ _ l r, st =>
    let f := far st
    let dl := l.box.dist2 q
    let dr := r.box.dist2 q
    if dl ≤ dr then
      -- sorted → [(dl,left),(dr,right)]; right is pushed last, popped first
      let st1 := if dr < f then visitWith far P q k r st else st
      if dl < f then visitWith far P q k l st1 else st1
    else
      let st1 := if dl < f then visitWith far P q k l st else st
      if dr < f then visitWith far P q k r st1 else st1

def visit (P : Nat → Pt) (q : Pt) (k : Nat) := visitWith (furthest k) P q k
def visitOriginal (P : Nat → Pt) (q : Pt) (k : Nat) := visitWith furthestOriginal P q k

/-- `tree.query(q, k)`: candidates (squared distance, index) by non-decreasing distance -/
def knn (P : Nat → Pt) (t : Tree) (q : Pt) (k : Nat) : List Cand := visit P q k t []
def knnOriginal (P : Nat → Pt) (t : Tree) (q : Pt) (k : Nat) : List Cand := visitOriginal P q k t []

/-! ### radius query -/

/-- `tree.query_radius(q, r)` with `r2 = r²`, `r ≥ 0` -/
def radius (P : Nat → Pt) (q : Pt) (r2 : Rat) : Tree → List Nat
  | .leaf idx box => if fin r2 < box.dist2 q then [] else idx.filter (fun i => decide (sqDist (P i) q ≤ r2))
  | .node _ _ box l r => if fin r2 < box.dist2 q then [] else radius P q r2 l ++ radius P q r2 r

/-! ### invariants observed by the correspondence (decidable versions) -/

/-- every index of the subtree lies in the closed box of every cell above it -/
def boxesOk (P : Nat → Pt) : Tree → Bool
  | .leaf idx b => idx.all (fun i => Box.insideClosed b.lo b.hi (P i))
  | .node _ _ b l r => (l.indices ++ r.indices).all (fun i => Box.insideClosed b.lo b.hi (P i)) && boxesOk P l && boxesOk P r

def maxLeaf (t : Tree) : Nat := (t.leaves.map (fun l => l.1.length)).foldl Nat.max 0

/-- exact median as `np.median` (mean of the two middle values for an even count) -/
def median (cs : List Rat) : Rat :=
  let s := cs.mergeSort (fun a b => decide (a ≤ b))
  let n := s.length
  if n % 2 = 1 then s.getD (n / 2) 0 else (s.getD (n / 2 - 1) 0 + s.getD (n / 2) 0) / 2

end Mouette.KD
