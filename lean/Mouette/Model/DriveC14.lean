import Mouette.Model.Proto
import Mouette.Model.MeshCheck
import Mouette.Generated.C14
import Mouette.Generated.C14Solids
/-
Protocol front-end for C14. The face lists come from `Mouette.Generated.C14`, i.e. from the functional terms the
translator extracted from the *current* source of mouette/procedural/*.py.

  request : <generator> <int params…> <bool params…>
  reply   : nV ; F f1 f2 … (each face length-prefixed) ; inRange noUnused simple distinct dirNodup closed ; E border chi
  polylines (`chain_of_vertices n loop`, `vector_field n`): nV ; E a1 b1 a2 b2 …   (edges in order)
  round 4, whole translated bodies: `tetrahedron_full v`, `hexahedron_full c t v` (the three switches):
            <reply as above for the face container> ; cells <list> ; colors <[k, r, g, b] writes in execution order>
            `counts icosphere n` / `counts cylindrify nE N` : the translated count terms
-/
namespace Mouette.DriveC14
open Mouette.Proto Mouette.MeshCheck
open Mouette.Generated.C14 Mouette.Generated.C14Solids

def report (nV : Nat) (fs : List (List Nat)) : String :=
  let flags := [allInRange nV fs, noUnused nV fs, facesSimple fs, facesDistinct fs, dirEdgesNodup fs, closed fs]
  s!"{nV} ; {fmtList fmtNats fs} ; {" ".intercalate (flags.map fmtBool)} ; {numEdges fs} {numBorder fs} {euler nV fs}"

def handle (ts : List String) : Option String :=
  match ts with
  | "unit_grid" :: r => (runP (do let a ← nat; let b ← nat; let t ← bool; let u ← bool; pure (a, b, t, u)) r).map
      fun (a, b, t, u) => report (unit_gridNVerts a b t u) (unit_gridFaces a b t u)
  | "unit_triangle" :: r => (runP (do let a ← nat; let b ← nat; let u ← bool; pure (a, b, u)) r).map
      fun (a, b, u) => report (unit_triangleNVerts a b u) (unit_triangleFaces a b u)
  | "torus" :: r => (runP (do let a ← nat; let b ← nat; let t ← bool; pure (a, b, t)) r).map
      fun (a, b, t) => report (torusNVerts a b t) (torusFaces a b t)
  | "sphere_uv" :: r => (runP (do let a ← nat; let b ← nat; pure (a, b)) r).map
      fun (a, b) => report (sphere_uvNVerts a b) (sphere_uvFaces a b)
  | "cylinder" :: r => (runP (do let a ← nat; let t ← bool; pure (a, t)) r).map
      fun (a, t) => report (cylinderNVerts a t) (cylinderFaces a t)
  | "ring" :: r => (runP (do let a ← nat; let b ← nat; let t ← bool; pure (a, b, t)) r).map
      fun (a, b, t) => report (ringNVerts a b t) (ringFaces a b t)
  | "flat_ring" :: r => (runP (do let a ← nat; let b ← nat; pure (a, b)) r).map
      fun (a, b) => report (flat_ringNVerts a b) (flat_ringFaces a b)
  | ["tetrahedron"] => some (report tetrahedronNVerts tetrahedronFaces)
  | ["icosahedron"] => some (report icosahedronNVerts icosahedronFaces)
  | ["triangle"] => some (report triangleNVerts triangleFaces)
  | ["hexahedron", t] => if t = "1" then some (report hexahedronNVerts hexahedronFacesTri)
                         else some (report hexahedronNVerts hexahedronFacesQuad)
  | ["quad", t] => if t = "1" then some (report quadNVerts quadFacesTri) else some (report quadNVerts quadFacesQuad)
  | "chain_of_vertices" :: r => (runP (do let a ← nat; let l ← bool; pure (a, l)) r).map
      fun (a, l) => s!"{a} ; {fmtList (fun (e : Nat × Nat) => s!"{e.1} {e.2}") (chainEdges a l)}"
  | "vector_field" :: r => (runP (do let a ← nat; pure a) r).map
      fun a => s!"{vectorFieldVertsPer * a} ; {fmtList (fun (e : List Nat) => " ".intercalate (e.map toString)) (vectorFieldEdges a)}"
  | ["tetrahedron_full", v] =>
      let v := v == "1"
      some s!"{report tetrahedronNVerts (tetrahedronFacesAll v)} ; cells {fmtList fmtNats (tetrahedronCells v)} ; colors {fmtList fmtNats ([] : List (List Nat))}"
  | ["hexahedron_full", c, t, v] =>
      let c := c == "1"; let t := t == "1"; let v := v == "1"
      some s!"{report hexahedronNVerts (hexahedronFacesAll c t v)} ; cells {fmtList fmtNats (hexahedronCells c t v)} ; colors {fmtList fmtNats (hexahedronColorWrites c t v)}"
  | ["translated", _] => some "translated"     -- generators whose translated fragments are validated on the Python side only
  | ["counts", "icosphere", n] => some s!"{icosphereSteps n.toNat!}"
  | ["counts", "cylindrify", a, b] => some s!"{cylindrifyNVerts a.toNat! b.toNat!} {cylindrifyNFaces a.toNat! b.toNat!}"
  | ["dual_counts", a, b] => some s!"{dualNVerts a.toNat! b.toNat!} {dualNFaces a.toNat! b.toNat!}"
  | ["binding"] => some (" ".intercalate (hexa4ptsBinding.map fun (a, b) => s!"{a}->{b}"))
  | _ => none

end Mouette.DriveC14
