import Mouette.Model.IO
/-
C04 — model of mouette/mesh/io/geogram_ascii.py at chunk level.

A `.geogram_ascii` file is one datum per line; `[HEAD]`, `[ATTS]`, `[ATTR]` lines start a chunk.
`splitChunks`/`chunkOf` mirror the chunk detection and `Chunk.__init__`; `importChunks` mirrors the three
passes of `import_geogram_ascii` (sizes, facet_ptr/cell_ptr, elements + attributes); `exportChunks` mirrors
`export_geogram_ascii` (with the `facet_ptr` / `cell_ptr` blocks added by the fix commits).
Substring tests of the Python code (`"vertices" in txt`) are modelled by equality with the canonical quoted
names: files using other spellings are outside the modelled domain (`none`).
-/
namespace Mouette.IO.Geo
open Mouette.IO

variable {C : Type}

inductive Cont where
  | vertices | edges | facets | facetCorners | cells | cellCorners | cellFacets
deriving DecidableEq, Repr

def Cont.name : Cont → String
  | .vertices => "\"GEO::Mesh::vertices\""
  | .edges => "\"GEO::Mesh::edges\""
  | .facets => "\"GEO::Mesh::facets\""
  | .facetCorners => "\"GEO::Mesh::facet_corners\""
  | .cells => "\"GEO::Mesh::cells\""
  | .cellCorners => "\"GEO::Mesh::cell_corners\""
  | .cellFacets => "\"GEO::Mesh::cell_facets\""

def contOf (s : String) : Option Cont :=
  if s = Cont.name .vertices then some .vertices
  else if s = Cont.name .edges then some .edges
  else if s = Cont.name .facets then some .facets
  else if s = Cont.name .facetCorners then some .facetCorners
  else if s = Cont.name .cells then some .cells
  else if s = Cont.name .cellCorners then some .cellCorners
  else if s = Cont.name .cellFacets then some .cellFacets
  else none

/-- attribute value types that `export_attribute` can write (`Attribute.Type` Bool / Int / Float) -/
inductive AType where | bool | int | float
deriving DecidableEq, Repr

/-- `Attribute.Type.from_string` (quoted spellings) -/
def typeOf (s : String) : Option AType :=
  if s = "\"double\"" ∨ s = "\"float\"" then some .float
  else if s = "\"index_t\"" ∨ s = "\"int\"" ∨ s = "\"signed_index_t\"" then some .int
  else if s = "\"bool\"" then some .bool
  else none

/-- `to_string` + `byte_size` -/
def AType.header : AType → List Tok
  | .bool => [.kw "\"bool\"", .int 1]
  | .int => [.kw "\"int\"", .int 4]
  | .float => [.kw "\"double\"", .int 8]

inductive Chunk where
  | head
  | atts (cont : String) (n : Nat)
  | attr (cont name typ : String) (dim : Nat) (data : List Tok)
deriving DecidableEq, Repr

/-- a user attribute, dense: `vals` has `dim` tokens per element (bool → `int 0/1`, int → `int`, float → text) -/
structure GAttr where
  cont : Cont
  name : String          -- quoted, as in the file
  typ : AType
  dim : Nat
  vals : List Tok
deriving DecidableEq, Repr

structure GMesh (C : Type) where
  raw : Raw C := {}
  attrs : List GAttr := []
  /-- dense values of `cell_faces.adjacent_cell`, one per (cell, local facet) -/
  adj : List Nat := []
deriving DecidableEq, Repr

/-! ### file → chunks -/

def isHeader : Tok → Bool
  | .kw s => s == "[HEAD]" || s == "[ATTS]" || s == "[ATTR]"
  | _ => false

/-- every line must hold exactly one datum (the Python code converts whole lines) -/
def flatToks : File → Option (List Tok)
  | [] => some []
  | [t] :: rest => (flatToks rest).map (t :: ·)
  | _ :: _ => none

/-- lines before the first header are dropped; every header starts a new chunk.  Right-to-left: the first
component is the run of data lines not yet attached to a header. -/
def splitAux : List Tok → List Tok × List (List Tok)
  | [] => ([], [])
  | t :: rest =>
    let r := splitAux rest
    if isHeader t then ([], (t :: r.1) :: r.2) else (t :: r.1, r.2)

def splitChunks (ts : List Tok) : List (List Tok) := (splitAux ts).2

/-- `Chunk.__init__` -/
def chunkOf : List Tok → Option Chunk
  | .kw h :: rest =>
    if h = "[HEAD]" then some .head
    else if h = "[ATTS]" then
      match rest with
      | .kw c :: t :: _ => (readIdx0 t).map (Chunk.atts c)
      | _ => none
    else if h = "[ATTR]" then
      match rest with
      | .kw c :: .kw nm :: .kw ty :: sz :: d :: data =>
        match readInt sz, readIdx0 d with
        | some _, some dim => some (.attr c nm ty dim data)
        | _, _ => none
      | _ => none
    else none
  | _ => none

def parseFile (file : File) : Option (List Chunk) :=
  match flatToks file with
  | none => none
  | some ts => mapOpt chunkOf (splitChunks ts)

/-! ### import -/

abbrev Sizes := Cont → Nat

def sizesOf (chunks : List Chunk) : Sizes :=
  chunks.foldl (fun (s : Sizes) ch => match ch with
    | .atts c n => (match contOf c with
        | some k => fun k' => if k' = k then n else s k'
        | none => s)
    | _ => s) (fun _ => 0)

/-- consecutive differences `data[i+1] - data[i]` -/
def diffs : List Nat → List Nat
  | a :: b :: rest => (b - a) :: diffs (b :: rest)
  | _ => []

/-- sizes of the elements from a `*_ptr` attribute: `n-1` differences, then `nCorners - data[-1]` -/
def ptrSizes (n nCorners : Nat) (data : List Nat) : Option (List Nat) :=
  match data.getLast? with
  | none => none                                         -- chk.data[-1] on an empty list
  | some last =>
    if 2 ≤ n ∧ data.length < n then none                 -- chk.data[i+1] out of range
    else some ((diffs data).take (n - 1) ++ [nCorners - last])

def facetPtrName : String := "\"GEO::Mesh::facets::facet_ptr\""
def cellPtrName : String := "\"GEO::Mesh::cells::cell_ptr\""

/-- second pass: `(sizes, ptr)` lists for facets and for cells (`none` inside = no such chunk seen).
The cell branch follows the repaired code (`n_corner_in_cell.append`). -/
def ptrPass (sz : Sizes) (chunks : List Chunk) :
    Option ((List Nat × List Nat) × (List Nat × List Nat)) :=
  foldOpt (fun (s : (List Nat × List Nat) × (List Nat × List Nat)) ch =>
    match ch with
    | .attr _ nm ty _ data =>
      if nm = facetPtrName then
        match typeOf ty, mapOpt readIdx0 data with
        | some .int, some d =>
          match ptrSizes (sz .facets) (sz .facetCorners) d with
          | some l => some ((s.1.1 ++ l, d), s.2)
          | none => none
        | _, _ => none
      else if nm = cellPtrName then
        match typeOf ty, mapOpt readIdx0 data with
        | some .int, some d =>
          match ptrSizes (sz .cells) (sz .cellCorners) d with
          | some l => some (s.1, (s.2.1 ++ l, d))
          | none => none
        | _, _ => none
      else some s
    | _ => some s) (([], []), ([], [])) chunks

/-- "By convention, all faces are triangles / all cells are tetrahedra" -/
def defaultPtr (k n : Nat) (p : List Nat × List Nat) : List Nat × List Nat :=
  if p.1.length = 0 ∧ 0 < n then (List.replicate n k, (List.range n).map (fun i => k * i)) else p

/-- `[chk.data[ptr+_i] for _i in range(n)]` -/
def slice {α} (data : List α) (ptr n : Nat) : Option (List α) :=
  let s := (data.drop ptr).take n
  if s.length = n then some s else none

/-- `for i in range(nElems): n = sizes[i]; ptr = ptrs[i]; …` -/
def buildElems (data : List Nat) (nElems : Nat) (p : List Nat × List Nat) : Option (List (List Nat)) :=
  if p.1.length < nElems ∨ p.2.length < nElems then none
  else mapOpt (fun (q : Nat × Nat) => slice data q.2 q.1) ((p.1.zip p.2).take nElems)

def pairs : List Nat → Option (List (Nat × Nat))
  | [] => some []
  | a :: b :: rest => (pairs rest).map ((a, b) :: ·)
  | [_] => none

def triples {α} : List α → List (α × α × α)
  | a :: b :: c :: rest => (a, b, c) :: triples rest
  | _ => []

/-- `Chunk.__init__` converts the data of an attribute according to its type -/
def convVals (cd : Codec C) (t : AType) (data : List Tok) : Option (List Tok) :=
  match t with
  | .float => mapOpt (fun tk => (readNum cd tk).map (fun c => num cd c)) data
  | .int => mapOpt (fun tk => (readInt tk).map Tok.int) data
  | .bool => mapOpt (fun tk => (readInt tk).map (fun i => Tok.int (if i = 0 then 0 else 1))) data

/-- third pass -/
def stepImport (cd : Codec C) (sz : Sizes) (fp cp : List Nat × List Nat) (g : GMesh C) (ch : Chunk) :
    Option (GMesh C) :=
  match ch with
  | .head => some g
  | .atts _ _ => some g
  | .attr c nm ty dim data =>
    match contOf c, typeOf ty with
    | some k, some t =>
      if k = .vertices ∧ nm = "\"point\"" then
        if dim ≠ 3 then none else
        match mapOpt (readNum cd) data with
        | some cs => some { g with raw := { g.raw with verts := g.raw.verts ++ triples cs } }
        | none => none
      else if k = .edges ∧ nm = "\"GEO::Mesh::edges::edge_vertex\"" then
        if dim ≠ 2 then none else
        match mapOpt readIdx0 data with
        | some is =>
          (match pairs (is.take (2 * sz .edges)) with
           | some ps => if is.length < 2 * sz .edges then none
                        else some { g with raw := { g.raw with edges := g.raw.edges ++ ps } }
           | none => none)
        | none => none
      else if k = .facetCorners ∧ nm = "\"GEO::Mesh::facet_corners::corner_vertex\"" then
        if dim ≠ 1 then none else
        match mapOpt readIdx0 data with
        | some is =>
          (match buildElems is (sz .facets) fp with
           | some fs => some { g with raw := { g.raw with faces := g.raw.faces ++ fs } }
           | none => none)
        | none => none
      else if k = .cellCorners ∧ nm = "\"GEO::Mesh::cell_corners::corner_vertex\"" then
        if dim ≠ 1 then none else
        match mapOpt readIdx0 data with
        | some is =>
          (match buildElems is (sz .cells) cp with
           | some cs => some { g with raw := { g.raw with cells := g.raw.cells ++ cs } }
           | none => none)
        | none => none
      else if k = .cellFacets ∧ nm = "\"GEO::Mesh::cell_facets::adjacent_cell\"" then
        if dim ≠ 1 then none else
        match mapOpt readIdx0 data with
        | some is => some { g with adj := g.adj ++ is }
        | none => none
      else
        if dim = 0 then none else     -- len(chk.data)//chk.n_data
        match convVals cd t data with
        | some vs => some { g with attrs := g.attrs ++ [{ cont := k, name := nm, typ := t, dim := dim, vals := vs }] }
        | none => none
    | _, _ => none

def importChunks (cd : Codec C) (chunks : List Chunk) : Option (GMesh C) :=
  let sz := sizesOf chunks
  match ptrPass sz chunks with
  | none => none
  | some (fp, cp) =>
    foldOpt (stepImport cd sz (defaultPtr 3 (sz .facets) fp) (defaultPtr 4 (sz .cells) cp)) {} chunks

def importGeo (cd : Codec C) (file : File) : Option (GMesh C) :=
  match parseFile file with
  | none => none
  | some chunks => importChunks cd chunks

/-! ### export -/

def prefixSums : Nat → List (List Nat) → List Nat
  | _, [] => []
  | p, f :: rest => p :: prefixSums (p + f.length) rest

def attrChunk (a : GAttr) : Chunk :=
  .attr a.cont.name a.name (match a.typ with | .bool => "\"bool\"" | .int => "\"int\"" | .float => "\"double\"") a.dim a.vals

def userChunks (attrs : List GAttr) (k : Cont) : List Chunk :=
  (attrs.filter (fun a => a.cont == k)).map attrChunk

def flatPts (cd : Codec C) (vs : List (C × C × C)) : List Tok :=
  (vs.map (coordLine cd)).flatten

def exportChunks (cd : Codec C) (g : GMesh C) : List Chunk :=
  let m := g.raw
  [.head, .atts (Cont.name .vertices) m.verts.length,
   .attr (Cont.name .vertices) "\"point\"" "\"double\"" 3 (flatPts cd m.verts)]
  ++ userChunks g.attrs .vertices
  ++ (if m.edges = [] then [] else
      [.atts (Cont.name .edges) m.edges.length,
       .attr (Cont.name .edges) "\"GEO::Mesh::edges::edge_vertex\"" "\"index_t\"" 2
          (m.edges.map (fun e => [idx0 e.1, idx0 e.2])).flatten]
      ++ userChunks g.attrs .edges)
  ++ (if m.faces = [] then [] else
      [.atts (Cont.name .facets) m.faces.length]
      ++ (if m.faces.all (fun f => f.length == 3) then [] else
          [.attr (Cont.name .facets) facetPtrName "\"index_t\"" 1 ((prefixSums 0 m.faces).map idx0)])
      ++ userChunks g.attrs .facets
      ++ [.atts (Cont.name .facetCorners) m.faces.flatten.length,
          .attr (Cont.name .facetCorners) "\"GEO::Mesh::facet_corners::corner_vertex\"" "\"index_t\"" 1
            (m.faces.flatten.map idx0)]
      ++ userChunks g.attrs .facetCorners)
  ++ (if m.cells = [] then [] else
      [.atts (Cont.name .cells) m.cells.length]
      ++ (if m.cells.all (fun c => c.length == 4) then [] else
          [.attr (Cont.name .cells) cellPtrName "\"index_t\"" 1 ((prefixSums 0 m.cells).map idx0)])
      ++ userChunks g.attrs .cells
      ++ [.atts (Cont.name .cellCorners) m.cells.flatten.length,
          .attr (Cont.name .cellCorners) "\"GEO::Mesh::cell_corners::corner_vertex\"" "\"index_t\"" 1
            (m.cells.flatten.map idx0)]
      ++ userChunks g.attrs .cellCorners
      ++ [.atts (Cont.name .cellFacets) m.cells.flatten.length,
          .attr (Cont.name .cellFacets) "\"GEO::Mesh::cell_facets::adjacent_cell\"" "\"index_t\"" 1
            (g.adj.map idx0)])

def sizeTok (ty : String) : Tok :=
  if ty = "\"double\"" then .int 8 else if ty = "\"bool\"" then .int 1 else .int 4

/-- chunks → one datum per line -/
def chunkLines : Chunk → File
  | .head => [[.kw "[HEAD]"], [.kw "\"GEOGRAM\""], [.kw "\"1.0\""]]
  | .atts c n => [[.kw "[ATTS]"], [.kw c], [idx0 n]]
  | .attr c nm ty dim data =>
    [[.kw "[ATTR]"], [.kw c], [.kw nm], [.kw ty], [sizeTok ty], [idx0 dim]] ++ data.map (fun t => [t])

def exportGeo (cd : Codec C) (g : GMesh C) : File := ((exportChunks cd g).map chunkLines).flatten

/-- vocabulary of geogram_ascii: everything -/
def restrictGeo (g : GMesh C) : GMesh C := { raw := { g.raw with hard := none }, attrs := g.attrs, adj := g.adj }

end Mouette.IO.Geo
