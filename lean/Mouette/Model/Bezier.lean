/-
C19 — executable model of `mouette/splines/bezier.py` (core Lean only, exact `Rat`).

`de_casteljau` is modelled *as coded*: an in-place array whose first `order-j` entries are
overwritten in pass `j` (`coeffs[i] = t*coeffs[i+1] + (1-t)*coeffs[i]`), the tail keeps stale values,
the answer is `coeffs[0]`. `deC` is the textbook shrinking recursion; `Props/C19` proves they agree and
that both equal the Bernstein form. Control points are vectors; numpy arithmetic is coordinatewise, so
the model evaluates each coordinate list separately (`evalCurve` takes coordinate-major data).
-/
namespace Mouette.Bezier

/-- `t*b + (1-t)*a`  (`a = coeffs[i]`, `b = coeffs[i+1]`) -/
def lerp (t a b : Rat) : Rat := t * b + (1 - t) * a

/-- inner loop `for i in range(n): coeffs[i] = t*coeffs[i+1] + (1-t)*coeffs[i]` (in place) -/
def pass (t : Rat) : Nat → List Rat → List Rat
  | n + 1, a :: b :: r => lerp t a b :: pass t n (b :: r)
  | _, l => l

/-- outer loop: passes of sizes `k, k-1, …, 1` -/
def loop (t : Rat) : Nat → List Rat → List Rat
  | 0, l => l
  | k + 1, l => loop t k (pass t (k + 1) l)

/-- `de_casteljau(P,t)` without the range guard: `coeffs[0]` after the loops (0 for an empty list). -/
def deCasteljau (t : Rat) (P : List Rat) : Rat := (loop t (P.length - 1) P).headD 0

/-- the guard `if not 0 <= t <= 1: raise InvalidRangeArgumentError` -/
def inRange (t : Rat) : Bool := decide (0 ≤ t) && decide (t ≤ 1)

/-- `de_casteljau(P,t)` with its guard -/
def deCasteljau? (t : Rat) (P : List Rat) : Option Rat :=
  if inRange t then some (deCasteljau t P) else none

/-- textbook form: one shrinking step … -/
def step (t : Rat) : List Rat → List Rat
  | a :: b :: r => lerp t a b :: step t (b :: r)
  | _ => []

/-- … iterated `n` times, then the head -/
def deC (t : Rat) : Nat → List Rat → Rat
  | 0, l => l.headD 0
  | n + 1, l => deC t n (step t l)

/-- `BezierCurve.evaluate(t)`; `coords` is coordinate-major (one list of control values per axis) -/
def evalCurve (coords : List (List Rat)) (t : Rat) : Option (List Rat) :=
  if inRange t then some (coords.map (deCasteljau t)) else none

/-- `BezierPatch.evaluate(u,v)` for one coordinate: rows first (parameter `u`), then `v` -/
def evalPatch1 (rows : List (List Rat)) (u v : Rat) : Rat :=
  deCasteljau v (rows.map (deCasteljau u))

/-- `BezierPatch.evaluate(u,v)`; `nets` is coordinate-major (one matrix of control values per axis) -/
def evalPatch (nets : List (List (List Rat))) (u v : Rat) : Option (List Rat) :=
  if inRange u && inRange v then some (nets.map (fun rows => evalPatch1 rows u v)) else none

/-! ### Bernstein form (executable, for the driver's self-check) -/

def choose : Nat → Nat → Nat
  | _, 0 => 1
  | 0, _ + 1 => 0
  | n + 1, k + 1 => choose n k + choose n (k + 1)

def rpow (x : Rat) : Nat → Rat
  | 0 => 1
  | n + 1 => rpow x n * x

def bern (n i : Nat) (t : Rat) : Rat := (choose n i : Rat) * rpow t i * rpow (1 - t) (n - i)

/-! ### export index grids -/

/-- `numpy.linspace(0,1,n)[k]` -/
def linspace01 (n k : Nat) : Rat := if n ≤ 1 then 0 else (k : Rat) / ((n - 1 : Nat) : Rat)

/-- `as_polyline`: edges `(i, i+1)` for `i in range(npts-1)` -/
def polyEdge (i : Nat) : List Nat := [i, i + 1]
def polyEdges (npts : Nat) : List (List Nat) := (List.range (npts - 1)).map polyEdge

/-- position in the vertex container of the vertex evaluated at `(U[i], V[j])`
(`as_surface` appends in the order `for i in range(n1): for j in range(n2)`) -/
def vertexIndex (n2 i j : Nat) : Nat := i * n2 + j

/-- the loop nest of `as_surface` that appends vertices, as the list of `(i,j)` in append order -/
def gridPairs (n1 n2 : Nat) : List (Nat × Nat) :=
  (List.range n1).flatMap (fun i => (List.range n2).map (fun j => (i, j)))

/-- quad emitted for cell `(i,j)` (repaired code: row stride is the inner count `n2`) -/
def quad (n2 i j : Nat) : List Nat :=
  [vertexIndex n2 i j, vertexIndex n2 i (j + 1), vertexIndex n2 (i + 1) (j + 1), vertexIndex n2 (i + 1) j]

def surfFaces (n1 n2 : Nat) : List (List Nat) :=
  (List.range (n1 - 1)).flatMap (fun i => (List.range (n2 - 1)).map (fun j => quad n2 i j))

/-- pinned tree: row stride `n1` (wrong when `n1 ≠ n2`). Kept for the refutation. -/
def quadPinned (n1 i j : Nat) : List Nat :=
  [i * n1 + j, i * n1 + j + 1, (i + 1) * n1 + j + 1, (i + 1) * n1 + j]

end Mouette.Bezier
