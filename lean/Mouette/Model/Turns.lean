/-
Executable, EXACT models of the angle-reduction utilities of `mouette/utils/maths.py` in units of TURNS
(an angle `a` is represented by the rational `t` with `a = 2π·t`; multiples of `π/k` are rationals), core Lean only.

Python                               | model (turns)
-------------------------------------|-----------------------------------------------
`principal_angle(a)`                 | `principalTurn t`   : `u = t − ⌊t⌋; if u > 1/2 then u − 1 else u`
`angle_diff(a, b)`                   | `angleDiffTurn ta tb`: `((ta − tb + 1/2) mod 1) − 1/2`
`roots(c, n)` (normalised, arg c = 2π·t) | `rootTurns t n`  : `[(t + k)/n for k in range(n)]`
`cotan(A,B,C)`                       | `Prim.cotanPair` (dot, |cross|²) — see `Model/Prim.lean`
`Props/C12T.lean` links them to the real-number specifications of `Lemmas/AnglesR.lean`.
-/
namespace Mouette.Turns

/-- `t mod 1` (Python `%` with positive modulus) -/
def fractTurn (t : Rat) : Rat := t - (Rat.floor t : Rat)

def principalTurn (t : Rat) : Rat :=
  if 1 / 2 < fractTurn t then fractTurn t - 1 else fractTurn t

def angleDiffTurn (ta tb : Rat) : Rat := fractTurn (ta - tb + 1 / 2) - 1 / 2

def rootTurns (t : Rat) (n : Nat) : List Rat := (List.range n).map (fun (k : Nat) => (t + (k : Rat)) / (n : Rat))

end Mouette.Turns
