import Mouette.Model.PySrc
import Mouette.Model.Features
import Mouette.Model.SurfSource
/-
Vocabulary of the C15 feature-detector fragments TRANSLATED from `mouette/processing/features.py`
(`Generated/C15Feat.lean`).  Core Lean only.

The translated passes see the mesh through the calls they make; `FeatEnv` is that interface:
  `mesh.boundary_edges`                               `boundaryEdges`
  `enumerate(mesh.edges)`, `mesh.edges[e]`            `nEdges`, `edge`
  `mesh.edges.has_attribute("hard_edges")`, iteration over `get_attribute("hard_edges")`     `hasHard`, `hardIds`
  `mesh.connectivity.edge_to_faces(A,B)`              `edgeToFaces`
  `geometry.dot(self.fnormals[T1], self.fnormals[T2]) < t`     `dotLt T1 T2 t`  (a face normal is named by its face)
  `mesh.is_edge_on_border(A,B)`                       `isEdgeOnBorder`
`EnvMatches` says when such an interface presents the per-edge data `List EdgeInfo` the hand-written model
(`Model/Features.lean`) works on.
-/
namespace Mouette.FeatSource
open Mouette.Features Mouette.PySrc

structure FeatEnv where
  boundaryEdges : List Nat
  nEdges : Nat
  edge : Nat → Nat × Nat
  hasHard : Bool
  hardIds : List Nat
  edgeToFaces : Nat → Nat → Option Nat × Option Nat
  dotLt : Nat → Nat → Rat → Bool
  isEdgeOnBorder : Nat → Nat → Bool

/-- the interface presents the per-edge data `es` -/
structure EnvMatches (env : FeatEnv) (es : List EdgeInfo) : Prop where
  nEdges : env.nEdges = es.length
  border : env.boundaryEdges = (es.zipIdx.filter fun p => p.1.border).map (·.2)
  hard : (if env.hasHard then env.hardIds else []) = (es.zipIdx.filter fun p => p.1.hard).map (·.2)
  edge : ∀ (e : Nat) (x : EdgeInfo), es[e]? = some x → env.edge e = (x.a, x.b)
  faces : ∀ (e : Nat) (x : EdgeInfo), es[e]? = some x → env.edgeToFaces x.a x.b = (x.t1, x.t2)
  onBorder : ∀ (e : Nat) (x : EdgeInfo), es[e]? = some x → env.isEdgeOnBorder x.a x.b = x.border
  dot : ∀ (e : Nat) (x : EdgeInfo) (f1 f2 : Nat), es[e]? = some x → x.t1 = some f1 → x.t2 = some f2 → ∀ t, env.dotLt f1 f2 t = cosLt x.d x.q t

/-- the canonical interface of a list of per-edge data with pairwise different face pairs is not needed: any interface that
`EnvMatches` will do; this one serves the non-vacuity examples (edge `e` has end points `(2e, 2e+1)`, faces `(2e, 2e+1)`) -/
def demoEnv (es : List EdgeInfo) : FeatEnv :=
  { boundaryEdges := (es.zipIdx.filter fun p => p.1.border).map (·.2),
    nEdges := es.length,
    edge := fun e => match es[e]? with | some x => (x.a, x.b) | none => (0, 0),
    hasHard := true,
    hardIds := (es.zipIdx.filter fun p => p.1.hard).map (·.2),
    edgeToFaces := fun a _ => match es[a / 2]? with | some x => (x.t1, x.t2) | none => (none, none),
    dotLt := fun f1 _ t => match es[f1 / 2]? with | some x => cosLt x.d x.q t | none => false,
    isEdgeOnBorder := fun a _ => match es[a / 2]? with | some x => x.border | none => false }

/-! corner flagging -/
abbrev IntMap := List (Nat × Int)
abbrev AngleAttr := Unit

structure CornerEnv where
  vertexToFaces : Nat → List Nat          -- `mesh.connectivity.vertex_to_faces(v)`
  cornerInFace : Nat → Nat → Nat          -- `mesh.connectivity.vertex_to_corner_in_face(v, T)`
  angle : Nat → Rat                       -- `corner_angles(mesh)[c]`

def ratAbs (x : Rat) : Rat := if x < 0 then -x else x

/-- `IntMap` lookup, most recent write first (`Attribute(int)`: default 0) -/
def intGet (m : IntMap) (k : Nat) : Int := ((m.find? fun e => e.1 == k).map (·.2)).getD 0

/-- the angle sum the loop over `vertex_to_faces(v)` accumulates -/
def angleSum (cenv : CornerEnv) (v : Nat) : Rat :=
  (cenv.vertexToFaces v).foldl (fun s T => s + cenv.angle (cenv.cornerInFace v T)) 0

/-! `run()` containers -/
abbrev DegMap := List (Nat × Nat)             -- `feature_degrees` (Attribute(int), default 0): `Features.bump` is `+= 1`
abbrev LocDict := List (Nat × List Nat)       -- `local_feat_edges`, most recent write first
/-- `self.local_feat_edges[k].append(i)`: the list bound to `k` (most recent binding) gets `i` at its end -/
def locAppend : LocDict → Nat → Nat → LocDict
  | [], _, _ => []
  | (k', l) :: rest, k, i => if k' == k then (k', l ++ [i]) :: rest else (k', l) :: locAppend rest k i
def locGet (d : LocDict) (k : Nat) : Option (List Nat) := (d.find? fun e => e.1 == k).map (·.2)
/-- iterating an attribute used as a set of flagged keys: each key once, in the order it was first flagged -/
def boolKeys (m : Mouette.PySrc.BoolMap) : List Nat := m.foldl Mouette.SurfSource.setAdd []

end Mouette.FeatSource
