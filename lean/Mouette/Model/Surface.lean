/-
Executable model of `SurfaceMesh` connectivity (mouette/mesh/datatypes/surface.py, linear.py) and of
the part of `RawMeshData.prepare` it depends on (edges completed from faces, face corners).
Core Lean only.  Python dicts are lists searched from the most recent write (`find?` on the reversed
insertion list = last-write-wins); Python sets are kept in ascending order (the comparator forgets
the iteration order of sets, DESIGN 1.3).

Corner ids: `_adjVF2Cn[(F[i], f)]` is modelled as `offset f + i` (the position of the corner in the
`face_corners` container); the two coincide when a face has no repeated vertex, which `Manifold`
demands (theorem `vf2cn_eq` in Props/C01 for the lookup version used by `vertexToCornerInFace`).
-/
namespace Mouette.Surface

abbrev Faces := List (List Nat)

/-- number of corners before face `f` -/
def offset (faces : Faces) (f : Nat) : Nat := ((faces.take f).map List.length).sum

/-- `face_corners` container: (vertex, face) per corner, in face order -/
def faceCornersFrom (f : Nat) : Faces → List (Nat × Nat)
  | [] => []
  | F :: rest => F.map (fun v => (v, f)) ++ faceCornersFrom (f+1) rest
def faceCorners (faces : Faces) : List (Nat × Nat) := faceCornersFrom 0 faces

/-- one entry of the `_half_edges` dict: key `(u,v)` ↦ `[c, cp, cn, opp, f, i, j]` (opp is derived) -/
structure Side where
  u : Nat
  v : Nat
  c : Nat
  cp : Nat
  cn : Nat
  f : Nat
  i : Nat
  j : Nat
deriving DecidableEq, Repr, Inhabited

def mkSide (off : Nat) (F : List Nat) (f i : Nat) : Side :=
  let n := F.length
  { u := F.getD i 0, v := F.getD ((i+1) % n) 0, c := off + i, cp := off + (i + n - 1) % n,
    cn := off + (i+1) % n, f := f, i := i, j := (i+1) % n }

def sidesOfFace (off : Nat) (F : List Nat) (f : Nat) : List Side :=
  (List.range F.length).map (mkSide off F f)

/-- all half-edge entries in insertion order (`for iF,F in enumerate(faces): for iV in range(n)`) -/
def sidesFrom (off f : Nat) : Faces → List Side
  | [] => []
  | F :: rest => sidesOfFace off F f ++ sidesFrom (off + F.length) (f+1) rest
def sides (faces : Faces) : List Side := sidesFrom 0 0 faces

def key2 (a b : Nat) : Nat × Nat := if a ≤ b then (a, b) else (b, a)

/-- `_complete_edges_from_faces`: a side's key is appended when not yet in `edge_set` -/
def edgesOfKeys (keys : List (Nat × Nat)) : List (Nat × Nat) :=
  keys.foldl (fun acc e => if acc.contains e then acc else acc ++ [e]) []
def edgesOf (faces : Faces) : List (Nat × Nat) := edgesOfKeys ((sides faces).map fun s => key2 s.u s.v)

structure Surf where
  faces : Faces
  nv : Nat
  sidesR : List Side                 -- `_half_edges` / `_Cn2he`, most recent write first
  fc : List (Nat × Nat)              -- face_corners
  fcR : List ((Nat × Nat) × Nat)     -- `_adjVF2Cn`, most recent write first
  edges : List (Nat × Nat)
  edgesR : List ((Nat × Nat) × Nat)  -- `_edge_id`, most recent write first
  sortOn : Bool

def build (nv : Nat) (faces : Faces) (sortOn : Bool) : Surf :=
  let fc := faceCorners faces
  let edges := edgesOf faces
  { faces, nv, sidesR := (sides faces).reverse, fc, fcR := fc.zipIdx.reverse, edges,
    edgesR := edges.zipIdx.reverse, sortOn }

/-! ### half edges and corners -/

def lookupHE (sidesR : List Side) (u v : Nat) : Option Side :=
  sidesR.find? fun s => s.u == u && s.v == v

/-- `_Cn2he.get(C)` (we return the whole entry; the key is `(s.u, s.v)`) -/
def cn2he (sidesR : List Side) (c : Nat) : Option Side := sidesR.find? fun s => s.c == c

/-- field `[3]` of an entry after the opposite pass -/
def oppOf (sidesR : List Side) (s : Side) : Option Nat := (lookupHE sidesR s.v s.u).map (·.c)

def previousCorner (S : Surf) (c : Nat) : Option Nat := do
  let k ← cn2he S.sidesR c
  let s ← lookupHE S.sidesR k.u k.v
  pure s.cp

def nextCorner (S : Surf) (c : Nat) : Option Nat := do
  let k ← cn2he S.sidesR c
  let s ← lookupHE S.sidesR k.u k.v
  pure s.cn

def oppositeCorner (S : Surf) (c : Nat) : Option Nat := do
  let k ← cn2he S.sidesR c
  let s ← lookupHE S.sidesR k.u k.v
  oppOf S.sidesR s

def cornerToHalfEdge (S : Surf) (c : Nat) : Option (Nat × Nat) := (cn2he S.sidesR c).map fun s => (s.u, s.v)
def cornerToFace (S : Surf) (c : Nat) : Option Nat := (S.fc[c]?).map (·.2)
def halfEdgeToCorner (S : Surf) (u v : Nat) : Option Nat := (lookupHE S.sidesR u v).map (·.c)
def directFace (S : Surf) (u v : Nat) : Option Nat := (lookupHE S.sidesR u v).map (·.f)
def directFaceInds (S : Surf) (u v : Nat) : Option (Nat × Nat × Nat) :=
  (lookupHE S.sidesR u v).map fun s => (s.f, s.i, s.j)
def edgeToFaces (S : Surf) (u v : Nat) : Option Nat × Option Nat := (directFace S u v, directFace S v u)

def oppositeFace (S : Surf) (u v F : Nat) : Option Nat :=
  let F1 := directFace S u v
  let F2 := directFace S v u
  if F1 == some F then F2 else if F2 == some F then F1 else none

def oppositeFaceInds (S : Surf) (u v F : Nat) : Option (Nat × Nat × Nat) :=
  let r1 := directFaceInds S u v
  let r2 := directFaceInds S v u
  -- `F2, v2, u2 = direct_face(v,u,True)` ; returns `F2,u2,v2` resp. `F1,u1,v1`
  if r1.map (·.1) == some F then
    (match r2 with | some (f2, v2, u2) => some (f2, u2, v2) | none => none)
  else if r2.map (·.1) == some F then r1 else none

def faceOf (S : Surf) (f : Nat) : List Nat := S.faces.getD f []

def commonEdge (S : Surf) (f1 f2 : Nat) : Option (Nat × Nat) :=
  let F := faceOf S f1
  let n := F.length
  ((List.range n).find? fun i => oppositeFace S (F.getD i 0) (F.getD ((i+1) % n) 0) f1 == some f2).map
    fun i => key2 (F.getD i 0) (F.getD ((i+1) % n) 0)

def vertexToCornerInFace (S : Surf) (v f : Nat) : Option Nat :=
  (S.fcR.find? fun e => e.1 == (v, f)).map (·.2)

def inFaceIndex (S : Surf) (f v : Nat) : Option Nat := (faceOf S f).findIdx? (· == v)

/-- `_adjF2Cn[f]`: first corner whose face is `f` -/
def faceToFirstCorner (S : Surf) (f : Nat) : Option Nat := S.fc.findIdx? fun e => e.2 == f

def faceToCorners (S : Surf) (f : Nat) : Option (List Nat) :=
  (faceToFirstCorner S f).map fun c0 => (List.range (faceOf S f).length).map (c0 + ·)

def faceToFaces (S : Surf) (f : Nat) : Option (List Nat) :=
  (faceToCorners S f).map fun cs => cs.filterMap fun c => (oppositeCorner S c).bind (cornerToFace S)

/-! ### edges and faces identifiers -/

def edgeId (S : Surf) (u v : Nat) : Option Nat := (S.edgesR.find? fun e => e.1 == key2 u v).map (·.2)

def sortNat (l : List Nat) : List Nat := l.mergeSort (· ≤ ·)

/-- `_face_id[keyify(F)] = iF`, last write wins -/
def faceId (S : Surf) (vs : List Nat) : Option Nat :=
  (S.faces.zipIdx.reverse.find? fun e => sortNat e.1 == sortNat vs).map (·.2)

def faceToEdges (S : Surf) (f : Nat) : List (Option Nat) :=
  let F := faceOf S f
  let n := F.length
  (List.range n).map fun i => edgeId S (F.getD i 0) (F.getD ((i+1) % n) 0)

def edgeToVertices (S : Surf) (e : Nat) : Option (Nat × Nat) := S.edges[e]?
def otherEdgeEnd (S : Surf) (e v : Nat) : Option (Option Nat) :=
  (S.edges[e]?).map fun (a, b) => if v == a then some b else if v == b then some a else none

/-! ### vertex rings -/

/-- `_adjV2Cn[v]` before sorting (a set: ascending) -/
def cornersAt (S : Surf) (v : Nat) : List Nat := (S.fc.zipIdx.filter fun e => e.1.1 == v).map (·.2)

/-- `_adjV2V[v]` before sorting (a set: ascending) -/
def neighbours (S : Surf) (v : Nat) : List Nat :=
  sortNat (S.edges.filterMap fun (a, b) => if a == v then some b else if b == v then some a else none)

/-- first walk of `_sort_vertex_neighborhoods`: `Cn = opposite(previous(Cn))`, indices 0,-1,-2… ;
    returns the `sort_index` dict (latest write first) and `is_boundary` -/
def walkBack (S : Surf) : Nat → Nat → Int → List (Nat × Int) → List (Nat × Int) × Bool
  | 0, _, _, acc => (acc, false)
  | fuel+1, c, ind, acc =>
    let acc := (c, ind) :: acc
    match (previousCorner S c).bind (oppositeCorner S) with
    | none => (acc, true)
    | some c' => walkBack S fuel c' (ind - 1) acc

/-- second walk: `Cn = next(opposite(Cn))`, indices 0,1,2… -/
def walkFwd (S : Surf) : Nat → Nat → Int → List (Nat × Int) → List (Nat × Int)
  | 0, _, _, acc => acc
  | fuel+1, c, ind, acc =>
    let acc := (c, ind) :: acc
    match oppositeCorner S c with
    | none => acc
    | some o =>
      match nextCorner S o with
      | none => acc
      | some c' => walkFwd S fuel c' (ind + 1) acc

/-- the `sort_index` dict of vertex `v` and whether the first walk hit the border -/
def sortIndex (S : Surf) (v : Nat) : List (Nat × Int) × Bool :=
  match cornersAt S v with
  | [] => ([], false)
  | c0 :: rest =>
    let n := rest.length + 1
    let (acc, bd) := walkBack S n c0 0 []
    if bd then (walkFwd S n c0 0 acc, true) else (acc, false)

def keyOf (idx : List (Nat × Int)) (c : Nat) : Int := ((idx.find? fun e => e.1 == c).map (·.2)).getD 0

def vertexToCorners (S : Surf) (v : Nat) : List Nat :=
  let cs := cornersAt S v
  if S.sortOn then
    let idx := (sortIndex S v).1
    cs.mergeSort fun a b => keyOf idx a ≤ keyOf idx b
  else cs

/-- `sort_index.get(half_edge_to_corner(A,v), -inf)` ; `none` = -inf -/
def keyV (S : Surf) (idx : List (Nat × Int)) (a w : Nat) : Option Int :=
  (halfEdgeToCorner S a w).bind fun c => (idx.find? fun e => e.1 == c).map (·.2)

def leOptInt : Option Int → Option Int → Bool
  | none, _ => true
  | some _, none => false
  | some x, some y => x ≤ y

def vertexToVertices (S : Surf) (v : Nat) : List Nat :=
  let ns := neighbours S v
  if S.sortOn && !(cornersAt S v).isEmpty then
    let idx := (sortIndex S v).1
    ns.mergeSort fun a b => leOptInt (keyV S idx v a) (keyV S idx v b)
  else ns

def vertexToFaces (S : Surf) (v : Nat) : List (Option Nat) := (vertexToCorners S v).map (cornerToFace S)
def vertexToEdges (S : Surf) (v : Nat) : List (Option Nat) := (vertexToVertices S v).map (edgeId S v)

/-! ### border / interior -/

def isEdgeOnBorder (S : Surf) (u v : Nat) : Bool :=
  (edgeId S u v).isSome && ((directFace S u v).isNone || (directFace S v u).isNone)

def boundaryEdges (S : Surf) : List Nat :=
  (S.edges.zipIdx.filter fun e => isEdgeOnBorder S e.1.1 e.1.2).map (·.2)
def interiorEdges (S : Surf) : List Nat :=
  (S.edges.zipIdx.filter fun e => !isEdgeOnBorder S e.1.1 e.1.2).map (·.2)

/-- endpoints of the boundary edges, in the order they are added to the `_boundary_vertices` set -/
def borderEnds (S : Surf) : List Nat :=
  (boundaryEdges S).flatMap fun e => match S.edges[e]? with | some (a, b) => [a, b] | none => []
/-- the `_boundary_vertices` set: ascending, without repetition -/
def boundaryVertices (S : Surf) : List Nat :=
  (List.range S.nv).filter fun v => (borderEnds S).contains v
def isVertexOnBorder (S : Surf) (v : Nat) : Bool := (boundaryVertices S).contains v
def interiorVertices (S : Surf) : List Nat := (List.range S.nv).filter fun v => !isVertexOnBorder S v

def isTriangular (S : Surf) : Bool := S.faces.all (·.length == 3)
def isQuad (S : Surf) : Bool := S.faces.all (·.length == 4)

end Mouette.Surface
