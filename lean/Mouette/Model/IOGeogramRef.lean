import Mouette.Model.IOGeogram
/-
C04 (P1) — an INDEPENDENT geogram_ascii writer at chunk level (a specification, not a model of mouette):
all the [ATTS] chunks first, then the [ATTR] chunks; `facet_ptr` when the facets are not all triangles and
`cell_ptr` when the cells are not all tetrahedra (mixed arities allowed); no adjacency block.
-/
namespace Mouette.IO.Geo
open Mouette.IO
variable {C : Type}

def allLen (k : Nat) (l : List (List Nat)) : Bool := l.all (fun f => f.length == k)

def refExportChunks (cd : Codec C) (m : Raw C) : List Chunk :=
  [.head, .atts (Cont.name .vertices) m.verts.length]
  ++ (if m.edges = [] then [] else [.atts (Cont.name .edges) m.edges.length])
  ++ (if m.faces = [] then [] else
      [.atts (Cont.name .facets) m.faces.length, .atts (Cont.name .facetCorners) m.faces.flatten.length])
  ++ (if m.cells = [] then [] else
      [.atts (Cont.name .cells) m.cells.length, .atts (Cont.name .cellCorners) m.cells.flatten.length])
  ++ [.attr (Cont.name .vertices) "\"point\"" "\"double\"" 3 (flatPts cd m.verts)]
  ++ (if m.edges = [] then [] else
      [.attr (Cont.name .edges) "\"GEO::Mesh::edges::edge_vertex\"" "\"index_t\"" 2
          (m.edges.map (fun e => [idx0 e.1, idx0 e.2])).flatten])
  ++ (if m.faces = [] then [] else
      (if allLen 3 m.faces then [] else
        [.attr (Cont.name .facets) facetPtrName "\"index_t\"" 1 ((prefixSums 0 m.faces).map idx0)])
      ++ [.attr (Cont.name .facetCorners) "\"GEO::Mesh::facet_corners::corner_vertex\"" "\"index_t\"" 1
            (m.faces.flatten.map idx0)])
  ++ (if m.cells = [] then [] else
      (if allLen 4 m.cells then [] else
        [.attr (Cont.name .cells) cellPtrName "\"index_t\"" 1 ((prefixSums 0 m.cells).map idx0)])
      ++ [.attr (Cont.name .cellCorners) "\"GEO::Mesh::cell_corners::corner_vertex\"" "\"index_t\"" 1
            (m.cells.flatten.map idx0)])

/-- the `*_ptr` blocks are also kept by mouette's importer as integer attributes of the element set -/
def refPtrAttrs (m : Raw C) : List GAttr :=
  (if m.faces = [] ∨ allLen 3 m.faces = true then [] else
    [{ cont := .facets, name := facetPtrName, typ := .int, dim := 1, vals := (prefixSums 0 m.faces).map idx0 }])
  ++ (if m.cells = [] ∨ allLen 4 m.cells = true then [] else
    [{ cont := .cells, name := cellPtrName, typ := .int, dim := 1, vals := (prefixSums 0 m.cells).map idx0 }])

end Mouette.IO.Geo
