/-
Executable, decidable validity predicates on a polygon surface given as (number of vertices, face list).
Used (a) by `decide` theorems on translated literal tables, (b) by the protocol drivers to report what the
model thinks of a generated mesh. Core Lean only.
-/
namespace Mouette.MeshCheck

abbrev Face := List Nat

/-- directed sides of a face, cyclically: (f₀,f₁),(f₁,f₂),…,(fₙ₋₁,f₀) -/
def sides (f : Face) : List (Nat × Nat) :=
  match f with
  | [] => []
  | a :: _ => f.zip (f.tail ++ [a])

def dirEdges (fs : List Face) : List (Nat × Nat) := fs.flatMap sides

def allInRange (nV : Nat) (fs : List Face) : Bool := fs.all (fun f => f.all (· < nV))

def noUnused (nV : Nat) (fs : List Face) : Bool := (List.range nV).all (fun v => fs.any (·.contains v))

/-- every face has ≥ 3 pairwise distinct vertices -/
def facesSimple (fs : List Face) : Bool := fs.all (fun f => decide (3 ≤ f.length) && decide f.Nodup)

/-- same vertex set (structural, so that the kernel can evaluate it) -/
def sameSet (f g : Face) : Bool := f.all (g.contains ·) && g.all (f.contains ·)

/-- no two faces have the same vertex set -/
def facesDistinct : List Face → Bool
  | [] => true
  | f :: fs => fs.all (fun g => !sameSet f g) && facesDistinct fs

/-- every directed edge is used by at most one face (consistent orientation) -/
def dirEdgesNodup (fs : List Face) : Bool := decide (dirEdges fs).Nodup

/-- every directed edge has its opposite: closed surface -/
def closed (fs : List Face) : Bool := (dirEdges fs).all (fun e => (dirEdges fs).contains (e.2, e.1))

def undirected (e : Nat × Nat) : Nat × Nat := if e.1 ≤ e.2 then e else (e.2, e.1)

/-- structural de-duplication (keeps the last occurrence) -/
def dedup {α} [BEq α] (l : List α) : List α := l.foldr (fun x acc => if acc.contains x then acc else x :: acc) []

def numEdges (fs : List Face) : Nat := (dedup ((dirEdges fs).map undirected)).length

/-- number of border (unmatched) directed edges -/
def numBorder (fs : List Face) : Nat := ((dirEdges fs).filter (fun e => !(dirEdges fs).contains (e.2, e.1))).length

def euler (nV : Nat) (fs : List Face) : Int := (nV : Int) - (numEdges fs : Int) + (fs.length : Int)

/-- the table is a closed, consistently oriented surface without unused vertices / repeated faces -/
def closedOriented (nV : Nat) (fs : List Face) : Bool :=
  allInRange nV fs && noUnused nV fs && facesSimple fs && facesDistinct fs && dirEdgesNodup fs && closed fs

end Mouette.MeshCheck
