/-
Executable model of `FeatureEdgeDetector.run` (mouette/processing/features.py, C15), over exact
rationals.  Per edge the input is what the code reads: the two adjacent faces (`edge_to_faces`),
whether it is a border edge, whether it carries the `hard_edges` flag, and for an interior edge the
pair `(d, q)` = (dot product of the two normals used, product of their squared norms); unit normals
have `q = 1`.  `cos < t` is decided without square root: `d < 0 ∨ d² < t²·q` (for `t ≥ 0`).
Thresholds are parameters; the driver passes the ones translated from the source.  Core Lean only.
-/
namespace Mouette.Features

structure EdgeInfo where
  a : Nat
  b : Nat
  t1 : Option Nat
  t2 : Option Nat
  border : Bool
  hard : Bool
  d : Rat
  q : Rat
deriving Repr, Inhabited

structure Thresholds where
  sharp : Rat        -- `DOT_THRESHOLD` of `_add_sharp_angles_to_features`
  hardDelta : Rat    -- `DOT_THRESHOLD` of `_add_hard_edges_to_features` (compared with `1 - DOT_THRESHOLD`)
deriving Repr, Inhabited

/-- `cos(angle between the normals) < t`, for `t ≥ 0`, from the unnormalised dot product -/
def cosLt (d q t : Rat) : Bool := d < 0 || d * d < t * t * q

def interior (e : EdgeInfo) : Bool := e.t1.isSome && e.t2.isSome

/-- pass 1, `_add_hard_edges_to_features` -/
def hardPass (th : Thresholds) (onlyBorder : Bool) (es : List EdgeInfo) (flags : List Nat) : List Nat :=
  if onlyBorder then flags else
  es.zipIdx.foldl (fun fl (ei : EdgeInfo × Nat) =>
    if ei.1.hard && interior ei.1 && cosLt ei.1.d ei.1.q (1 - th.hardDelta) && !ei.1.border then fl ++ [ei.2] else fl) flags

/-- pass 2, `_add_sharp_angles_to_features` -/
def sharpPass (th : Thresholds) (onlyBorder : Bool) (es : List EdgeInfo) (flags : List Nat) : List Nat :=
  if onlyBorder then flags else
  es.zipIdx.foldl (fun fl (ei : EdgeInfo × Nat) =>
    if interior ei.1 && cosLt ei.1.d ei.1.q th.sharp then fl ++ [ei.2] else fl) flags

/-- pass 3, `_add_border_to_features` -/
def borderPass (es : List EdgeInfo) (flags : List Nat) : List Nat :=
  es.zipIdx.foldl (fun fl (ei : EdgeInfo × Nat) => if ei.1.border then fl ++ [ei.2] else fl) flags

/-- the keys of the `feature` attribute after the three passes (with repetitions: it is a dict) -/
def flagged (th : Thresholds) (onlyBorder : Bool) (es : List EdgeInfo) : List Nat :=
  borderPass es (sharpPass th onlyBorder es (hardPass th onlyBorder es []))

def isFeature (th : Thresholds) (onlyBorder : Bool) (es : List EdgeInfo) (e : Nat) : Bool :=
  (flagged th onlyBorder es).contains e

/-- `feature_edges` (a set: ascending) -/
def featureEdges (th : Thresholds) (onlyBorder : Bool) (es : List EdgeInfo) : List Nat :=
  (List.range es.length).filter (isFeature th onlyBorder es)

def incident (es : List EdgeInfo) (v e : Nat) : Bool :=
  match es[e]? with | some x => x.a == v || x.b == v | none => false

/-- `feature_vertices` (a set: ascending) -/
def featureVertices (nv : Nat) (es : List EdgeInfo) (fe : List Nat) : List Nat :=
  (List.range nv).filter fun v => fe.any (incident es v)

/-- `feature_degrees[A] += 1; feature_degrees[B] += 1` over the feature edges -/
def bump (deg : List (Nat × Nat)) (v : Nat) : List (Nat × Nat) :=
  match deg.find? (·.1 == v) with
  | some (_, k) => (v, k+1) :: deg
  | none => (v, 1) :: deg
def degStep (es : List EdgeInfo) (deg : List (Nat × Nat)) (e : Nat) : List (Nat × Nat) :=
  match es[e]? with | some x => bump (bump deg x.a) x.b | none => deg
def degrees (es : List EdgeInfo) (fe : List Nat) : List (Nat × Nat) := fe.foldl (degStep es) []
def degreeOf (deg : List (Nat × Nat)) (v : Nat) : Nat := ((deg.find? (·.1 == v)).map (·.2)).getD 0

/-- `local_feat_edges[v]`: positions in `vertex_to_edges(v)` of the feature edges -/
def localFeat (fe : List Nat) (v2e : List Nat) : List Nat :=
  (v2e.zipIdx.filter fun x => fe.contains x.1).map (·.2)

/-- Python `round` on an exact rational: nearest integer, ties to even -/
def roundHalfEven (x : Rat) : Int :=
  let f := x.floor
  let r := x - f
  if r < 1/2 then f else if 1/2 < r then f + 1 else if f % 2 == 0 then f else f + 1

/-- `_flag_corners` on `x = angle_v · corner_order / 2π` -/
def cornerOf (x : Rat) : Int :=
  if -1 < x && x < 1 then (if 0 ≤ x then 1 else -1) else roundHalfEven x

end Mouette.Features
