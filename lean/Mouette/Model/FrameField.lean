import Mouette.Generated.C18Consts
/-
C18 — executable model of the algebraic scaffolding of the surface frame fields
(`mouette/processing/framefield/{base,faces2d,vertex2d}.py`, `operators/laplacian_op.py`,
`utils/maths.py`). Core Lean only. Complex numbers are Gaussian rationals `Rat × Rat`; angles are
measured in *turns* (1 = 2π) so that no transcendental function is ever evaluated: `phase`, `atan2`,
`abs` (= sqrt) values are inputs supplied by the harness, and the model outputs exact rational
quantities. What is NOT modelled: `spsolve` / inverse power iteration (their result is an input and the
model computes the exact residual of the linear system instead).
-/
namespace Mouette.FF

/-! ## Gaussian rationals -/
abbrev Cpx := Rat × Rat

def czero : Cpx := (0, 0)
def cone : Cpx := (1, 0)
def cadd (a b : Cpx) : Cpx := (a.1 + b.1, a.2 + b.2)
def csub (a b : Cpx) : Cpx := (a.1 - b.1, a.2 - b.2)
def cneg (a : Cpx) : Cpx := (-a.1, -a.2)
def cmul (a b : Cpx) : Cpx := (a.1 * b.1 - a.2 * b.2, a.1 * b.2 + a.2 * b.1)
def cconj (a : Cpx) : Cpx := (a.1, -a.2)
def csmul (r : Rat) (a : Cpx) : Cpx := (r * a.1, r * a.2)
def cdivR (a : Cpx) (r : Rat) : Cpx := (a.1 / r, a.2 / r)
def normSq (a : Cpx) : Rat := a.1 * a.1 + a.2 * a.2
def ofReal (r : Rat) : Cpx := (r, 0)

/-- `z ** n` as repeated complex multiplication (the representation power of a frame) -/
def cpow (z : Cpx) : Nat → Cpx
  | 0 => cone
  | n + 1 => cmul z (cpow z n)

/-! ## per-element normalisation (`base.py: FrameField.normalize`)
`for i: if abs(var[i]) > 1e-10: var[i] /= abs(var[i])`; `r` is the value of `abs(var[i])` (a square root,
supplied from outside: hypothesis `r*r = normSq z` in the theorems). -/
def normThreshold : Rat := Generated.C18.normThreshold

def normalize1 (z : Cpx) (r : Rat) : Cpx := if normThreshold < r then cdivR z r else z

def normalizeAll : List Cpx → List Rat → List Cpx
  | z :: zs, r :: rs => normalize1 z r :: normalizeAll zs rs
  | zs, _ => zs

/-! ## constraint initialisation of the face-based field (`faces2d.py: _initialize_variables`)
`var = zeros(nF)`; for every feature edge and adjacent face `T`: `c = complex(edge·X, edge·Y)`,
`var[T] = (c/abs(c)) ** EXP` where `EXP` is what the source says (translated: `Generated.C18.constraintExponent order`).
A write is `(T, c, r)` with `r = abs(c)`. Later writes win (a face with two feature edges). -/
def constraintValue (order : Nat) (c : Cpx) (r : Rat) : Cpx :=
  cpow (cdivR c r) (Generated.C18.constraintExponent order)

def initFaces (order n : Nat) (writes : List (Nat × Cpx × Rat)) : List Cpx :=
  writes.foldl (fun var w => var.set w.1 (constraintValue order w.2.1 w.2.2)) (List.replicate n czero)

/-! ## constraint initialisation of the vertex-based field (`vertex2d.py: _initialize_variables`)
contributions `(vertex, u)` in code order, `u` the unit complex direction of the feature edge in the local
basis; `var[v] += u**order`, in the guarded branch (smooth_normals and even order) only when
`abs(var[v] + u**order) > 1e-10`, i.e. `normSq > 1e-20`. The normalisation of feature vertices that follows
needs a square root and is applied by the harness to the exact sums output here. -/
def initVerts (order n : Nat) (guarded : Bool) (contribs : List (Nat × Cpx)) : List Cpx :=
  contribs.foldl (fun var w =>
    let s := cadd (var.getD w.1 czero) (cpow w.2 order)
    if guarded && !(decide (Generated.C18.vertexGuardSq < normSq s)) then var else var.set w.1 s)
    (List.replicate n czero)

/-! ## fixed / free partition and the solve step (`optimize`) -/
/-- faces: `fixed[T] = True` for both faces of every feature edge (None on the border) -/
def fixedFlagsFaces (n : Nat) (adj : List (Option Nat × Option Nat)) : List Bool :=
  adj.foldl (fun fl p =>
    let fl := match p.1 with | some t => fl.set t true | none => fl
    match p.2 with | some t => fl.set t true | none => fl) (List.replicate n false)

/-- vertices: fixed iff in `feat.feature_vertices` -/
def fixedFlagsVerts (n : Nat) (featV : List Nat) : List Bool :=
  featV.foldl (fun fl v => fl.set v true) (List.replicate n false)

/-- `freeInds`, `fixedInds` in increasing order, as the two loops of the code build them -/
def freeInds (flags : List Bool) : List Nat := (List.range flags.length).filter (fun i => !(flags.getD i false))
def fixedInds (flags : List Bool) : List Nat := (List.range flags.length).filter (fun i => flags.getD i false)

/-- `var[freeInds] = res` -/
def scatter (var : List Cpx) : List Nat → List Cpx → List Cpx
  | i :: is, r :: rs => scatter (var.set i r) is rs
  | _, _ => var

/-! ## connection Laplacian, assembled from per-edge transports given as inputs -/
/-- one assembled contribution: real diagonal parts at `(i,i)`, `(j,j)`, complex off-diagonal parts -/
structure Entry where
  i : Nat
  j : Nat
  dii : Rat
  djj : Rat
  oij : Cpx
  oji : Cpx

/-- face-based (`laplacian_triangles`): row of `Nabla` for an interior edge is `-1` at `T1`, `t` at `T2`;
`L = Nabla^* D Nabla` with `D = diag(w)`. -/
def entryFace (t1 t2 : Nat) (w : Rat) (t : Cpx) : Entry :=
  { i := t1, j := t2, dii := w, djj := w * normSq t, oij := cneg (csmul w t), oji := cneg (csmul w (cconj t)) }

/-- vertex-based (`laplacian`): per half-edge `(i,j)` of a triangle with weight `v`:
`L[i,i]+=v, L[j,j]+=v, L[i,j] += -v*tij, L[j,i] += -v*tji`. -/
def entryVert (i j : Nat) (v : Rat) (tij tji : Cpx) : Entry :=
  { i := i, j := j, dii := v, djj := v, oij := cneg (csmul v tij), oji := cneg (csmul v tji) }

def contrib (e : Entry) (a b : Nat) : Cpx :=
  cadd (cadd (if a = e.i ∧ b = e.i then ofReal e.dii else czero)
             (if a = e.j ∧ b = e.j then ofReal e.djj else czero))
       (cadd (if a = e.i ∧ b = e.j then e.oij else czero)
             (if a = e.j ∧ b = e.i then e.oji else czero))

/-- coefficient `(a,b)` of the assembled matrix (duplicates are summed, as scipy does) -/
def coeff (es : List Entry) (a b : Nat) : Cpx :=
  es.foldr (fun e acc => cadd (contrib e a b) acc) czero

/-- scalar Laplacian assembled the same way (the `connection is None` branches) -/
def contribS (i j : Nat) (w : Rat) (a b : Nat) : Rat :=
  ((if a = i ∧ b = i then w else 0) + (if a = j ∧ b = j then w else 0))
  + ((if a = i ∧ b = j then -w else 0) + (if a = j ∧ b = i then -w else 0))

def coeffS (es : List (Nat × Nat × Rat)) (a b : Nat) : Rat :=
  es.foldr (fun e acc => contribS e.1 e.2.1 e.2.2 a b + acc) 0

/-- matrix–vector row: `(L x)[a]` restricted to the listed columns -/
def rowDot (es : List Entry) (a : Nat) (cols : List Nat) (x : List Cpx) : Cpx :=
  cols.foldl (fun acc b => cadd acc (cmul (coeff es a b) (x.getD b czero))) czero

/-! ## branch matching and holonomy sums of the face-based field (`flag_singularities`), in turns -/
/-- `angle_diff(a,b) = (a - b + π) % 2π - π`, in turns -/
def angleDiff (a b : Rat) : Rat :=
  let x := a - b + 1/2
  x - (x.floor : Rat) - 1/2

def rabs (x : Rat) : Rat := if x < 0 then -x else x

/-- first element of minimal absolute value (`np.argmin` on `abs_angles`) -/
def argminAbs : List Rat → Rat
  | [] => 0
  | [x] => x
  | x :: xs => let m := argminAbs xs; if rabs m < rabs x then m else x

/-- candidates `angle_diff(phase(u2) - a2, phase(u1_k) - a1)`, `u2` the 0-th root of `f2`, `u1_k` the k-th of `f1` -/
def candidates (n : Nat) (th1 a1 th2 a2 : Rat) : List Rat :=
  (List.range n).map (fun (k : Nat) => angleDiff (th2 / (n : Rat) - a2) ((th1 + (k : Rat)) / (n : Rat) - a1))

def edgeRot (n : Nat) (th1 a1 th2 a2 : Rat) : Rat := argminAbs (candidates n th1 a1 th2 a2)

/-- an edge `(a,b)` with its rotation -/
structure REdge where
  a : Nat
  b : Nat
  rot : Rat

/-- contribution of edge `e` to the sum at vertex `v`:
`angle += edge_rot[e] if u < v else -edge_rot[e]` with `u` the other end.
(`Generated.C18.signPlusWhenOtherLess` is the polarity read from the source.) -/
def edgeContrib (e : REdge) (v : Nat) : Rat :=
  let s : Rat := if Generated.C18.signPlusWhenOtherLess then 1 else -1
  if v = e.a then (if e.b < e.a then s * e.rot else -(s * e.rot))
  else if v = e.b then (if e.a < e.b then s * e.rot else -(s * e.rot))
  else 0

def vertexAngle (defect : Nat → Rat) (es : List REdge) (v : Nat) : Rat :=
  defect v + es.foldr (fun e acc => edgeContrib e v + acc) 0

def sumTo (f : Nat → Rat) : Nat → Rat
  | 0 => 0
  | n + 1 => sumTo f n + f n

def totalAngle (nv : Nat) (defect : Nat → Rat) (es : List REdge) : Rat :=
  sumTo (vertexAngle defect es) nv

/-- an interior edge with the data of the matching: faces are only identified through their `θ` -/
structure MEdge where
  a : Nat
  b : Nat
  th1 : Rat
  a1 : Rat
  th2 : Rat
  a2 : Rat

def MEdge.toR (n : Nat) (e : MEdge) : REdge := { a := e.a, b := e.b, rot := edgeRot n e.th1 e.a1 e.th2 e.a2 }

/-- the same signed sum with `rot` replaced by an arbitrary per-edge quantity -/
def signedSum (q : MEdge → Rat) (es : List MEdge) (v : Nat) : Rat :=
  es.foldr (fun e acc => edgeContrib { a := e.a, b := e.b, rot := q e } v + acc) 0

/-- Θ_v = Σ ±(θ_T2 − θ_T1): zero on a closed fan (telescoping) -/
def thetaSum (es : List MEdge) (v : Nat) : Rat := signedSum (fun e => e.th2 - e.th1) es v
/-- G_v = defect_v − Σ ±(a2 − a1): the purely geometric part, an integer number of turns at an interior vertex -/
def geomSum (defect : Nat → Rat) (es : List MEdge) (v : Nat) : Rat := defect v - signedSum (fun e => e.a2 - e.a1) es v
/-- index in the units of the code: `singuls[v] = angle * (2/π)` = `indexPerTurn * angle[turns]` -/
def indexOf (angleTurns : Rat) : Rat := Generated.C18.indexPerTurn * angleTurns

end Mouette.FF
