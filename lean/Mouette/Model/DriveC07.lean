import Mouette.Model.Proto
import Mouette.Model.Geom
/-
Protocol front-end for C07 (stateless; one request = one mesh).

  `surf <zb> <nV> (x y z)* <nF> (k v1..vk)* <nE> (a b)* <nVA> r* <nFA> r*`
  `vol  <nV> (x y z)* <nC> (a b c d)* <nE> (a b)*`
  `poly <nV> (x y z)* <nE> (a b)*`
  `rot a b c d x y z`     -> quaternion rotation applied to a point (harness self-check of its rational rotations)

Reply: sections `name tok*` joined by ` | `; every list is length-prefixed.
-/
namespace Mouette.DriveC07
open Mouette.Proto Mouette.Geom

def v3 : P V3 := do let x ← rat; let y ← rat; let z ← rat; pure ⟨x, y, z⟩
def pair : P (Nat × Nat) := do let a ← nat; let b ← nat; pure (a, b)

def fmtV3s (l : List V3) : String := fmtRats (l.flatMap (fun p => [p.x, p.y, p.z]))
def fmtPairs (l : List (Rat × Rat)) : String := fmtRats (l.flatMap (fun p => [p.1, p.2]))
def fmtNested (l : List (List Nat)) : String :=
  " ".intercalate (toString l.length :: l.map fmtNats)

def sec (name body : String) : String := name ++ " " ++ body

def edgeSecs (vs : List V3) (nV : Nat) (es : List (Nat × Nat)) : List String :=
  [ sec "len2" (fmtRats (es.map (fun e => dist2 (pt vs e.1) (pt vs e.2)))),
    sec "mid" (fmtV3s (es.map (fun e => mid (pt vs e.1) (pt vs e.2)))),
    sec "deg" (fmtNats ((List.range nV).map (degree es))) ]

def surf (zb : Bool) (vs : List V3) (fs : List Face) (es : List (Nat × Nat)) (va fa : List Rat) : String :=
  let nV := vs.length
  let tri := isTriangular fs
  let areas := fs.map (faceAreaTerms vs)
  let dfs := (List.range nV).map (angleDefectStruct fs zb)
  " | ".intercalate (edgeSecs vs nV es ++
  [ sec "area" (" ".intercalate (toString areas.length :: areas.map (fun (w, ts) => fmtRat w ++ " " ++ fmtRats ts))),
    sec "nrm" (fmtV3s (fs.map (faceNormalDir vs))),
    sec "bary" (fmtV3s (fs.map (faceBary vs))),
    sec "circ" (if tri then fmtV3s (fs.map (fun f => circumcenter (pt vs (f.getD 0 0)) (pt vs (f.getD 1 0)) (pt vs (f.getD 2 0))))
                else "err"),
    sec "cs" (fmtPairs (fs.flatMap (faceCornerCS vs))),
    sec "cot" (if tri then fmtPairs (fs.flatMap (triCotanCS vs)) else "err"),
    sec "cotw" (if tri then fmtNested (es.map (cotanWeightCorners fs)) else "err"),
    sec "v2f" (fmtNested ((List.range nV).map (vertexFaces fs))),
    sec "cnrv" (fmtNats (cornerVerts fs)),
    sec "cnrf" (fmtNats (cornerFaces fs)),
    sec "bnd" (fmtNats ((List.range nV).map (fun v => if isBorderVertex fs v then 1 else 0))),
    sec "dfs" (if tri then " ".intercalate (toString dfs.length :: dfs.map (fun (k, cs) => toString k ++ " " ++ fmtNats cs)) else "err"),
    sec "iv2f" (fmtRats (fs.map (interpV2F va))),
    sec "if2vs" (fmtRats ((List.range nV).map (interpF2VSum fs fa))),
    sec "if2vu" (fmtRats ((List.range nV).map (interpF2VUniform fs fa))),
    sec "gbary" (fmtV3s [bary vs]) ])

def vol (vs : List V3) (cs : List (List Nat)) (es : List (Nat × Nat)) : String :=
  let nV := vs.length
  let tet := cs.all (fun c => c.length == 4)
  " | ".intercalate (edgeSecs vs nV es ++
  [ sec "vol" (if tet then fmtRats (cs.map (fun c => tetVolume (pt vs (c.getD 0 0)) (pt vs (c.getD 1 0)) (pt vs (c.getD 2 0)) (pt vs (c.getD 3 0)))) else "err"),
    sec "cbary" (fmtV3s (cs.map (faceBary vs))),
    sec "gbary" (fmtV3s [bary vs]) ])

def surfP : P String := do
  let zb ← bool
  let vs ← listOf v3
  let fs ← listOf (listOf nat)
  let es ← listOf pair
  let va ← listOf rat
  let fa ← listOf rat
  pure (surf zb vs fs es va fa)

def volP : P String := do
  let vs ← listOf v3
  let cs ← listOf (listOf nat)
  let es ← listOf pair
  pure (vol vs cs es)

def polyP : P String := do
  let vs ← listOf v3
  let es ← listOf pair
  pure (" | ".intercalate (edgeSecs vs vs.length es ++ [sec "gbary" (fmtV3s [bary vs])]))

def rotP : P String := do
  let a ← rat; let b ← rat; let c ← rat; let d ← rat
  let p ← v3
  pure (fmtV3s [(quatRot a b c d).apply p])

def handle (ts : List String) : Option String :=
  match ts with
  | "surf" :: r => runP surfP r
  | "vol" :: r => runP volP r
  | "poly" :: r => runP polyP r
  | "rot" :: r => runP rotP r
  | _ => none

end Mouette.DriveC07
