import Mouette.Model.Proto
import Mouette.Model.FrameField
import Mouette.Model.FrameFieldV
/-
Protocol front-end for C18 (one request = one complete case, stateless).

  ff <f|v> <order> <n>
     LAP   faces: <k> (t1 t2 w t.re t.im)*            vertices: <k> (i j v tij.re tij.im tji.re tji.im)*
     PART  faces: <k> (T1|N T2|N)*                    vertices: <k> v*
     INIT  faces: <k> (T c.re c.im r)*                vertices: <guarded 0|1> <k> (v u.re u.im)*
     SOLVE <0|1> [ <n> (z.re z.im)*   <nfree> (res.re res.im)*   <n> r* ]
     IDX   <0|1> [ <nv> defect*  <nF> theta*  <nE> (a b T1|N T2|N a1 a2)* ]

  optionally followed (vertex-based runs, round 2) by
     VX <smooth_normals 0|1> INITV <k> (v u.re u.im)*  <k> featV*  <n> r*
        IDXV <n> theta*  <k> (u v t)*  <nE> (a b)*  <nF> (A B C)*
  with the extra reply sections
     initv <n> (re im)*
     idxv <nE> rot* ; <nF> curvature* ; <nF> faceAngle* ; <nF> order*faceAngle ; total ; sumCurvature ; borderTerm ; wf

reply (sections separated by ` | `):
     lap <k> (a b re im)* ; hermDev
     part <free list> ; <fixed list>
     init <n> (re im)*
     solve <n> (re im)* ; <n> normSq* ; <nfree> (res.re res.im)*          (or `solve -`)
     idx <nE> rot* ; <nv> angle* ; total ; sumDefect ; <nv> thetaSum* ; <nv> geomSum* ; <nv> J*   (or `idx -`)
-/
namespace Mouette.DriveC18
open Mouette.Proto Mouette.FF

def cpx : P Cpx := do let a ← rat; let b ← rat; pure (a, b)
def fmtCpx (z : Cpx) : String := s!"{fmtRat z.1} {fmtRat z.2}"
def fmtCpxs (l : List Cpx) : String := fmtList fmtCpx l

def entryF : P Entry := do
  let t1 ← nat; let t2 ← nat; let w ← rat; let t ← cpx
  pure (entryFace t1 t2 w t)

def entryV : P Entry := do
  let i ← nat; let j ← nat; let v ← rat; let tij ← cpx; let tji ← cpx
  pure (entryVert i j v tij tji)

def insertPair (l : List (Nat × Nat)) (p : Nat × Nat) : List (Nat × Nat) := if l.contains p then l else p :: l

def pairsOf (es : List Entry) : List (Nat × Nat) :=
  let ps := es.foldl (fun acc e => insertPair (insertPair (insertPair (insertPair acc (e.i, e.i)) (e.j, e.j)) (e.i, e.j)) (e.j, e.i)) []
  ps.mergeSort (fun p q => p.1 < q.1 || (p.1 == q.1 && p.2 ≤ q.2))

def table (es : List Entry) : List ((Nat × Nat) × Cpx) := (pairsOf es).map (fun p => (p, coeff es p.1 p.2))

def lookup (tb : List ((Nat × Nat) × Cpx)) (a b : Nat) : Cpx :=
  match tb.find? (fun x => x.1 == (a, b)) with | some x => x.2 | none => czero

def hermDev (tb : List ((Nat × Nat) × Cpx)) : Rat :=
  tb.foldl (fun m x => let d := normSq (csub x.2 (cconj (lookup tb x.1.2 x.1.1))); if m < d then d else m) 0

/-- `(L x)[a]` using the table (only stored columns contribute) -/
def rowTimes (tb : List ((Nat × Nat) × Cpx)) (a : Nat) (x : List Cpx) : Cpx :=
  tb.foldl (fun acc e => if e.1.1 = a then cadd acc (cmul e.2 (x.getD e.1.2 czero)) else acc) czero

structure Req where
  faces : Bool
  order : Nat
  n : Nat
  lap : List Entry
  flags : List Bool
  init : List Cpx
  solve : Option (List Cpx × List Cpx × List Rat)
  idx : Option (Nat × List Rat × List Rat × List (Nat × Nat × Option Nat × Option Nat × Rat × Rat))

def optN : P (Option Nat) := optNat

def req : P Req := do
  let el ← tok
  let faces ← (if el = "f" then pure true else if el = "v" then pure false else failure : P Bool)
  let order ← nat
  let n ← nat
  let lap ← if faces then listOf entryF else listOf entryV
  let flags ← if faces then do
      let adj ← listOf (do let a ← optN; let b ← optN; pure (a, b))
      pure (fixedFlagsFaces n adj)
    else do
      let fv ← listOf nat
      pure (fixedFlagsVerts n fv)
  let init ← if faces then do
      let ws ← listOf (do let t ← nat; let c ← cpx; let r ← rat; pure (t, c, r))
      pure (initFaces order n ws)
    else do
      let g ← bool
      let cs ← listOf (do let v ← nat; let u ← cpx; pure (v, u))
      pure (initVerts order n g cs)
  let hs ← bool
  let solve ← if hs then do
      let z ← listOf cpx; let res ← listOf cpx; let rs ← listOf rat
      pure (some (z, res, rs))
    else pure none
  let hi ← bool
  let idx ← if hi then do
      let nv ← nat
      let d ← repeatP rat nv
      let th ← listOf rat
      let es ← listOf (do let a ← nat; let b ← nat; let t1 ← optN; let t2 ← optN; let a1 ← rat; let a2 ← rat; pure (a, b, t1, t2, a1, a2))
      pure (some (nv, d, th, es))
    else pure none
  pure { faces, order, n, lap, flags, init, solve, idx }

def answer (r : Req) : String :=
  let tb := table r.lap
  let lapS := "lap " ++ fmtList (fun (x : (Nat × Nat) × Cpx) => s!"{x.1.1} {x.1.2} {fmtCpx x.2}") tb ++ " ; " ++ fmtRat (hermDev tb)
  let free := freeInds r.flags
  let fixed := fixedInds r.flags
  let partS := "part " ++ fmtNats free ++ " ; " ++ fmtNats fixed
  let initS := "init " ++ fmtCpxs r.init
  let solveS := match r.solve with
    | none => "solve -"
    | some (z, res, rs) =>
      let pre := scatter z free res
      let fin := normalizeAll pre rs
      let resid := free.map (fun a => rowTimes tb a pre)
      "solve " ++ fmtCpxs fin ++ " ; " ++ fmtRats (fin.map normSq) ++ " ; " ++ fmtCpxs resid
  let idxS := match r.idx with
    | none => "idx -"
    | some (nv, d, th, es) =>
      let defect := fun v => d.getD v 0
      let medges : List MEdge := es.filterMap (fun e =>
        match e with
        | (a, b, some t1, some t2, a1, a2) => some { a := a, b := b, th1 := th.getD t1 0, a1 := a1, th2 := th.getD t2 0, a2 := a2 }
        | _ => none)
      let rots : List Rat := es.map (fun e =>
        match e with
        | (_, _, some t1, some t2, a1, a2) => edgeRot r.order (th.getD t1 0) a1 (th.getD t2 0) a2
        | _ => 0)
      let redges := medges.map (MEdge.toR r.order)
      let vs := List.range nv
      let angles := vs.map (vertexAngle defect redges)
      let thS := vs.map (thetaSum medges)
      let gS := vs.map (geomSum defect medges)
      let js := vs.map (fun v => (r.order : Rat) * vertexAngle defect redges v - (r.order : Rat) * geomSum defect medges v - thetaSum medges v)
      "idx " ++ fmtRats rots ++ " ; " ++ fmtRats angles ++ " ; " ++ fmtRat (totalAngle nv defect redges)
        ++ " ; " ++ fmtRat (sumTo defect nv) ++ " ; " ++ fmtRats thS ++ " ; " ++ fmtRats gS ++ " ; " ++ fmtRats js
  " | ".intercalate [lapS, partS, initS, solveS, idxS]

/-! ### vertex-based extension (round 2) -/
open Mouette.FFV in
structure ReqV where
  smooth : Bool
  contribs : List (Nat × Cpx)
  featV : List Nat
  rs : List Rat
  theta : List Rat
  ts : List ((Nat × Nat) × Rat)
  edges : List (Nat × Nat)
  faces : List Mouette.FFV.Face

def reqV : P ReqV := do
  let t ← tok
  if t ≠ "VX" then failure
  let smooth ← bool
  let contribs ← listOf (do let v ← nat; let u ← cpx; pure (v, u))
  let featV ← listOf nat
  let rs ← listOf rat
  let theta ← listOf rat
  let ts ← listOf (do let u ← nat; let v ← nat; let t ← rat; pure ((u, v), t))
  let edges ← listOf (do let a ← nat; let b ← nat; pure (a, b))
  let faces ← listOf (do let a ← nat; let b ← nat; let c ← nat; pure ({ A := a, B := b, C := c } : Mouette.FFV.Face))
  pure { smooth, contribs, featV, rs, theta, ts, edges, faces }

open Mouette.FFV in
def answerV (order n : Nat) (r : ReqV) : String :=
  let init := initVertsFull order n r.smooth r.contribs r.featV r.rs
  let t := trOf r.ts
  let ves : List VEdge := r.edges.map (fun e =>
    { a := e.1, b := e.2, thA := r.theta.getD e.1 0, aA := t e.1 e.2, thB := r.theta.getD e.2 0, aB := t e.2 e.1 })
  let res := ves.map (VEdge.toRE order)
  let curv := r.faces.map (curvature t)
  let ang := r.faces.map (faceAngle res t)
  let total := sumF (faceAngle res t) r.faces
  let sc := sumF (curvature t) r.faces
  "initv " ++ fmtCpxs init ++ " | idxv " ++ fmtRats (res.map (·.r)) ++ " ; " ++ fmtRats curv ++ " ; " ++ fmtRats ang
    ++ " ; " ++ fmtRats (ang.map (fun a => (order : Rat) * a)) ++ " ; " ++ fmtRat total ++ " ; " ++ fmtRat sc
    ++ " ; " ++ fmtRat (borderTerm res r.faces) ++ " ; " ++ fmtBool (uniqueEdges res)

def reqX : P (Req × Option ReqV) := do
  let r ← req
  let rest ← get
  match rest with
  | [] => pure (r, none)
  | _ => do let v ← reqV; pure (r, some v)

def handle (ts : List String) : Option String :=
  match ts with
  | "ff" :: r => (runP reqX r).map (fun p =>
      match p.2 with
      | none => answer p.1
      | some v => answer p.1 ++ " | " ++ answerV p.1.order p.1.n v)
  | _ => none

end Mouette.DriveC18
