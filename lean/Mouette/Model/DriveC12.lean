import Mouette.Model.Proto
import Mouette.Model.BoxHist
import Mouette.Model.Prim
import Mouette.Model.Turns
/-
Protocol front-end for C12.

  `box <narr> (<len> coords…)* <nops> op*`        a history on caller arrays `0..narr-1` and boxes
      ops: `mk i j | inf d | cube d c | ofp <n> i… pad | inter a b | union a b | doint a b | padf b x | padv b i |
            contains b i | project b i | dist b i (l1|linf|l2) | empty b | center b | span b | get b | nrm i`
      reply, per op: `<result> ; <indices of caller arrays whose content differs from the start> ; <geterr code>`
  `prim <name> args…`                             one closed-form primitive, exact (`pangleT`, `adiffT`, `rootsT` take angles in TURNS)
-/
namespace Mouette.DriveC12
open Mouette.Proto Mouette.AABB Mouette.BoxHist Mouette.Prim

def fmtEQ : EQ → String
  | .ninf => "-inf" | .pinf => "+inf" | .fin q => fmtRat q

def fmtEQs (l : List EQ) : String := fmtList fmtEQ l

def fmtRes : Res → String
  | .nobox => "nobox"
  | .unit => "-"
  | .errSize => "err:Size"
  | .errValue => "err:Value"
  | .errFloat => "err:Other(FloatingPointError)"
  | .undef => "undef"
  | .bool b => fmtBool b
  | .box b => s!"B {fmtEQs b.lo} / {fmtEQs b.hi}"
  | .vec v => s!"V {fmtEQs v}"
  | .val v => fmtEQ v
  | .sq v => s!"sq:{fmtEQ v}"

def fmtMode : Mode → String
  | .ignore => "i" | .warn => "w" | .raise => "r"

def fmtErr (e : Err) : String := fmtMode e.divide ++ fmtMode e.over ++ fmtMode e.under ++ fmtMode e.invalid

def op : P Op := do
  let k ← tok
  match k with
  | "mk" => do let i ← nat; let j ← nat; pure (.mk i j)
  | "inf" => do let d ← nat; pure (.inf d)
  | "cube" => do let d ← nat; let c ← bool; pure (.cube d c)
  | "ofp" => do let is ← listOf nat; let pad ← rat; pure (.ofp is pad)
  | "inter" => do let a ← nat; let b ← nat; pure (.inter a b)
  | "union" => do let a ← nat; let b ← nat; pure (.union a b)
  | "doint" => do let a ← nat; let b ← nat; pure (.doint a b)
  | "padf" => do let b ← nat; let x ← rat; pure (.padf b x)
  | "padv" => do let b ← nat; let i ← nat; pure (.padv b i)
  | "contains" => do let b ← nat; let i ← nat; pure (.contains b i)
  | "project" => do let b ← nat; let i ← nat; pure (.project b i)
  | "dist" => do let b ← nat; let i ← nat; let w ← tok; pure (.dist b i w)
  | "empty" => do let b ← nat; pure (.empty b)
  | "center" => do let b ← nat; pure (.center b)
  | "span" => do let b ← nat; pure (.span b)
  | "get" => do let b ← nat; pure (.get b)
  | "nrm" => do let i ← nat; pure (.nrm i)
  | _ => failure

def boxHist : P String := do
  let arrs ← listOf (listOf rat)
  let ops ← listOf op
  let s0 := init arrs
  let n := arrs.length
  let out := (runWith step n s0 ops).2
  let recs := out.map (fun r =>
    let changed := (List.range n).filter (fun i => r.2.1.getD i [] != s0.heap.getD i [])
    s!"{fmtRes r.1} ; {fmtNats changed} ; {fmtErr r.2.2}")
  pure (" | ".intercalate recs)

def v2 : P V2 := do let x ← rat; let y ← rat; pure ⟨x, y⟩
def v3 : P V3 := do let x ← rat; let y ← rat; let z ← rat; pure ⟨x, y, z⟩
def fmtV2 (v : V2) : String := s!"V 2 {fmtRat v.x} {fmtRat v.y}"
def fmtV3 (v : V3) : String := s!"V 3 {fmtRat v.x} {fmtRat v.y} {fmtRat v.z}"

def prim : P String := do
  let k ← tok
  match k with
  | "cross" => do let a ← v3; let b ← v3; pure (fmtV3 (V3.cross a b))
  | "det2" => do let a ← v2; let b ← v2; pure (fmtRat (det2 a b))
  | "det3" => do let a ← v3; let b ← v3; let c ← v3; pure (fmtRat (det3 a b c))
  | "rot2" => do let v ← v2; let c ← rat; let s ← rat; pure (fmtV2 (rot2 v c s))
  | "rotax" => do let v ← v3; let u ← v3; let c ← rat; let s ← rat; pure (fmtV3 (rotAxis v u c s))
  | "circ" => do
      let a ← v3; let b ← v3; let c ← v3
      match circumcenter a b c with
      | some (ctr, n) => pure s!"{fmtV3 ctr} N {fmtV3 n}"
      | none => pure "degenerate"
  | "isect" => do
      let p1 ← v2; let d1 ← v2; let p2 ← v2; let d2 ← v2
      match intersect2 p1 d1 p2 d2 with
      | some p => pure (fmtV2 p)
      | none => pure "none"
  | "pplane" => do
      let p ← v3; let n ← v3; let o ← v3
      if V3.dot n n = 0 then pure "degenerate" else pure (fmtV3 (projectToPlane p n o))
  | "dseg" => do let p ← v2; let a ← v2; let b ← v2; pure s!"sq:{fmtRat (distSeg2 p a b)}"
  | "area2" => do let a ← v2; let b ← v2; let c ← v2; pure (fmtRat (area2 a b c))
  | "angle3" => do let a ← v3; let b ← v3; let c ← v3; let r := angle3 a b c; pure s!"A {fmtRat r.1} {fmtRat r.2}"
  | "sangle" => do
      let a ← v3; let b ← v3; let n ← v3
      let r := signedAngle a b n
      pure s!"S {r.1} {fmtRat r.2.1} {fmtRat r.2.2}"
  | "cotan" => do let a ← v3; let b ← v3; let c ← v3; let r := cotanPair a b c; pure s!"K {fmtRat r.1} {fmtRat r.2}"
  | "pangleT" => do let t ← rat; pure s!"T {fmtRat (Mouette.Turns.principalTurn t)}"
  | "adiffT" => do let a ← rat; let b ← rat; pure s!"T {fmtRat (Mouette.Turns.angleDiffTurn a b)}"
  | "rootsT" => do
      let t ← rat; let n ← nat
      pure s!"R {fmtRats (Mouette.Turns.rootTurns (Mouette.Turns.principalTurn t) n)}"
  | _ => failure

def handle (ts : List String) : Option String :=
  match ts with
  | "box" :: r => runP boxHist r
  | "prim" :: r => runP prim r
  | _ => none

end Mouette.DriveC12
