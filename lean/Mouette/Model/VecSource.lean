import Mouette.Model.BoxHist
import Mouette.Model.Prim
/-
Vocabulary for the definitions that `vlib/gen/c12_source.py: translate_vec` extracts from the BODIES of `Vec.*` (vector.py) and of
`norm`, `dot`, `distance`, `cotan`, `face_basis` (geometry.py) into `Generated/C12Vec.lean`.  Core Lean only.

Python                                   | here
-----------------------------------------|----------------------------------------------------------------------------
`np.dot(a, b)`                           | `vdot a b` (sum of componentwise products, truncating to the shorter operand)
`np.abs(x)`, `np.sum(x)`, `np.max(x)`    | `vabs`, `vsum`, `vmaxl` (`np.max` of an empty array raises; here 0)
`np.sqrt(q)`                             | `NVal.sqrt q`: the non-negative number whose SQUARE is `q` (no root is ever evaluated);
                                         |   a value computed without a root is `NVal.exact q`
`x.flatten()`, `Vec(x)`                  | identity on the values
`np.seterr(all=m)`                       | the error state becomes `Err.all m`
`with np.errstate(all=m): BODY`          | BODY runs in `Err.all m`; the state found before is restored on return AND on raise
`vec / nrm` inside it                    | raises exactly when the mode in force is `raise` for `invalid` or `divide` and `vec` is the
                                         |   zero vector (0/0); on non-zero finite input it does not raise
`Vec.normalized(v)` inside `cotan`/`face_basis` | a vector known UP TO A POSITIVE FACTOR: the translator tracks which factors a value has been
                                         |   divided by and accepts a quotient only when the factors cancel; `cotan` is then the pair
                                         |   `(BA·BC, |BA×BC|²)` (value `first/√second`), `face_basis` the three directions before normalisation
-/
namespace Mouette.VecS
open Mouette.BoxHist

inductive NVal where
  | sqrt (q : Rat)
  | exact (q : Rat)
deriving DecidableEq, Repr

/-- the rational that represents the value in the convention of `Model/AABB.lean` (l2 squared, l1 / l∞ exact) -/
def NVal.repr : NVal → Rat
  | .sqrt q => q
  | .exact q => q

def vdot (a b : List Rat) : Rat := (List.zipWith (· * ·) a b).foldr (· + ·) 0
def vabs (a : List Rat) : List Rat := a.map (fun x => if x < 0 then -x else x)
def vsum (a : List Rat) : Rat := a.foldr (· + ·) 0
def vmaxl (a : List Rat) : Rat := a.foldr (fun x m => if x ≤ m then m else x) 0
def vsub (a b : List Rat) : List Rat := List.zipWith (· - ·) a b

/-- does `vec / nrm` raise under the error state `e` (only 0/0 on the zero vector can) -/
def divRaises (e : Err) (v : List Rat) : Bool := isZero v && (e.invalid == .raise || e.divide == .raise)

end Mouette.VecS
