import Mouette.Model.Proto
import Mouette.Model.Cutting
import Mouette.Model.CuttingCount
/-
Protocol front-end for C16.
  `cut <nV> <F: list of lists> <E: list of pairs> <evisited: list> <sing: list> <interior: list>`
     reply: `<cut edges after pruning> ; Q<len of queue left> ; <cut_adj: per vertex sorted list> ; B <build>`
     where `<build>` is `err:Type|err:Value|err:Key` or
       `<faces: list of lists> ; <ref_vertex per output vertex (N = absent)> ; <pos per output vertex> ; S<stable 0/1>
        ; X <V'> <effective unions> <|uncut|> <edge hypotheses hold 0/1, - when 3F > 600 (not evaluated)>`
  `prune <nV> <E> <cut> <sing>`  → `<cut after pruning> ; Q<queue left>`
  `build <nV> <F> <uncut pairs>` → `<build>`
-/
namespace Mouette.DriveC16
open Mouette.Proto Mouette.Cutting

def pair : P (Nat × Nat) := do let a ← nat; let b ← nat; pure (a, b)

def fmtFaces (l : List (List Nat)) : String := fmtList fmtNats l

def fmtBuild (nV : Nat) (F : List (List Nat)) (uncut : List (Nat × Nat)) : String :=
  match build nV F uncut with
  | .error .type => "err:Type"
  | .error .value => "err:Value"
  | .error .key => "err:Key"
  | .ok o =>
    let nOut := o.pos.length
    let ref := (List.range nOut).map (fun k => fmtOptNat (lastWrite o.ref k))
    let x := match unionPairs (halfEdges F) (cornerFaces F) uncut with
      | none => "X -"
      | some ps =>
        let hyp := if 3 * F.length ≤ 600 then fmtBool (edgeHyp o F.length (twins ps)) else "-"
        s!"X {o.pos.length} {effCount (ufRange (3 * F.length)) ps} {uncut.length} {hyp}"
    s!"{fmtFaces o.faces} ; {" ".intercalate ref} ; {" ".intercalate (o.pos.map fmtOptNat)} ; S{fmtBool (stableRoots o)} ; {x}"

def fmtAdj (nV : Nat) (E : List (Nat × Nat)) (cut : List Nat) : String :=
  " ".intercalate ((List.range nV).map (fun v => fmtNats ((adj E cut v).mergeSort (· ≤ ·))))

def handle (ts : List String) : Option String :=
  match ts with
  | "cut" :: r => do
      let (nV, F, E, ev, sing, interior) ← runP (do
        let nV ← nat; let F ← listOf (listOf nat); let E ← listOf pair
        let ev ← listOf nat; let sing ← listOf nat; let interior ← listOf nat
        pure (nV, F, E, ev, sing, interior)) r
      let cut0 := cutEdges0 E.length ev
      let (cut, q) := prune nV E cut0 sing
      let b := fmtBuild nV F (uncutPairs E interior cut)
      pure s!"{fmtNats cut} ; Q{q.length} ; {fmtAdj nV E cut} ; B {b}"
  | "prune" :: r => do
      let (nV, E, cut0, sing) ← runP (do
        let nV ← nat; let E ← listOf pair; let c ← listOf nat; let sing ← listOf nat
        pure (nV, E, c, sing)) r
      let (cut, q) := prune nV E cut0 sing
      pure s!"{fmtNats cut} ; Q{q.length}"
  | "build" :: r => do
      let (nV, F, uncut) ← runP (do
        let nV ← nat; let F ← listOf (listOf nat); let u ← listOf pair
        pure (nV, F, u)) r
      pure (fmtBuild nV F uncut)
  | _ => none

end Mouette.DriveC16
