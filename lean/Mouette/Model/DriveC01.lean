import Mouette.Model.Proto
import Mouette.Model.Surface
import Mouette.Model.Lazy
import Mouette.Generated.C01Guards
import Mouette.Model.SurfaceSpec
import Mouette.Model.RingSpec
/-
Protocol front-end for C01.
  `h <sort> <nv> <nf> (<len> v…)* <nH> ( <nq> ( <name> <nargs> arg… )* )*`
     one mesh, `nH` histories, each run on a freshly built instance.  Reply: `wf:<0|1> ## ` (does the
     hypothesis `Oriented faces` ∧ faces without repeated vertex of the theorems hold) then histories joined by
     ` || `, answers joined by ` | `.  Every query first goes through the lazy-cache machine of
     `Model/Lazy.lean` instantiated with the guard table translated from the source
     (`Generated/C01Guards.lean`): when the machine says the call raises, the answer is `err:Uninit`,
     when it cannot tell (conditional code) `?<pure answer>`, otherwise the pure answer of `Model/Surface.lean`.
  Ring answers are canonicalised as in DESIGN 1.3: sorting on + interior vertex → rotated so that the
  smallest element comes first; sorting on + border vertex → exact; sorting off → ascending.
-/
namespace Mouette.DriveC01
open Mouette.Proto Mouette.Surface

structure Query where
  name : String
  args : List Nat

def query : P Query := do
  let n ← tok
  let a ← listOf nat
  pure { name := n, args := a }

def rotateMin (l : List Nat) : List Nat :=
  match l.min? with
  | none => l
  | some m => let k := l.idxOf m; l.drop k ++ l.take k

def canonRing (S : Surf) (v : Nat) (l : List Nat) : List Nat :=
  if S.sortOn then (if (sortIndex S v).2 then l else rotateMin l) else sortNat l

def fmtOptRing (S : Surf) (v : Nat) (l : List (Option Nat)) : String :=
  if l.all Option.isSome then fmtNats (canonRing S v (l.filterMap id)) else fmtList fmtOptNat l

def fmtPair : Option (Nat × Nat) → String
  | none => "N N"
  | some (a, b) => s!"{a} {b}"

def fmtTriple : Option (Nat × Nat × Nat) → String
  | none => "N N N"
  | some (a, b, c) => s!"{a} {b} {c}"

def arg (q : Query) (i : Nat) : Nat := q.args.getD i 0

/-- the pure answer (direct function of the face list) in canonical text form.  `bv` is
`boundaryVertices S`, computed once per request: `bv.contains v` is `isVertexOnBorder S v` and the
filter below is `interiorVertices S`, by unfolding. -/
def pureAnswer (S : Surf) (bv : List Nat) (q : Query) : Option String :=
  let a := arg q
  match q.name, q.args.length with
  | "clear", 0 => some "-"
  | "m.clear_boundary_data", 0 => some "-"
  | "edge_id", 2 => some (fmtOptNat (edgeId S (a 0) (a 1)))
  | "other_edge_end", 2 => some (match otherEdgeEnd S (a 0) (a 1) with | none => "err:Index" | some r => fmtOptNat r)
  | "edge_to_vertices", 1 => some (match edgeToVertices S (a 0) with | none => "err:Index" | some (x, y) => s!"{x} {y}")
  | "vertex_to_vertices", 1 => some (fmtNats (canonRing S (a 0) (vertexToVertices S (a 0))))
  | "vertex_to_edges", 1 => some (fmtOptRing S (a 0) (vertexToEdges S (a 0)))
  | "vertex_to_faces", 1 => some (fmtOptRing S (a 0) (vertexToFaces S (a 0)))
  | "vertex_to_corners", 1 => some (fmtNats (canonRing S (a 0) (vertexToCorners S (a 0))))
  | "vertex_to_corner_in_face", 2 => some (fmtOptNat (vertexToCornerInFace S (a 0) (a 1)))
  | "previous_corner", 1 => some (fmtOptNat (previousCorner S (a 0)))
  | "next_corner", 1 => some (fmtOptNat (nextCorner S (a 0)))
  | "opposite_corner", 1 => some (fmtOptNat (oppositeCorner S (a 0)))
  | "corner_to_half_edge", 1 => some (fmtPair (cornerToHalfEdge S (a 0)))
  | "corner_to_face", 1 => some (match cornerToFace S (a 0) with | none => "err:Index" | some f => toString f)
  | "half_edge_to_corner", 2 => some (fmtOptNat (halfEdgeToCorner S (a 0) (a 1)))
  | "direct_face", 2 => some (fmtOptNat (directFace S (a 0) (a 1)))
  | "direct_face_inds", 2 => some (fmtTriple (directFaceInds S (a 0) (a 1)))
  | "edge_to_faces", 2 => some (let r := edgeToFaces S (a 0) (a 1); s!"{fmtOptNat r.1} {fmtOptNat r.2}")
  | "opposite_face", 3 => some (fmtOptNat (oppositeFace S (a 0) (a 1) (a 2)))
  | "opposite_face_inds", 3 => some (fmtTriple (oppositeFaceInds S (a 0) (a 1) (a 2)))
  | "common_edge", 2 => some (fmtPair (commonEdge S (a 0) (a 1)))
  | "face_to_vertices", 1 => some (fmtNats (faceOf S (a 0)))
  | "in_face_index", 2 => some (fmtOptNat (inFaceIndex S (a 0) (a 1)))
  | "face_to_edges", 1 => some (fmtList fmtOptNat (faceToEdges S (a 0)))
  | "face_to_first_corner", 1 => some (match faceToFirstCorner S (a 0) with | none => "err:Key" | some c => toString c)
  | "face_to_corners", 1 => some (match faceToCorners S (a 0) with | none => "err:Key" | some l => fmtNats l)
  | "face_to_faces", 1 => some (match faceToFaces S (a 0) with | none => "err:Key" | some l => fmtNats (sortNat l))
  | "m.is_edge_on_border", 2 => some (fmtBool (isEdgeOnBorder S (a 0) (a 1)))
  | "m.is_vertex_on_border", 1 => some (fmtBool (bv.contains (a 0)))
  | "m.boundary_edges", 0 => some (fmtNats (boundaryEdges S))
  | "m.interior_edges", 0 => some (fmtNats (interiorEdges S))
  | "m.boundary_vertices", 0 => some (fmtNats bv)
  | "m.interior_vertices", 0 => some (fmtNats ((List.range S.nv).filter fun v => !(bv.contains v)))
  | "m.is_triangular", 0 => some (fmtBool (isTriangular S))
  | "m.is_quad", 0 => some (fmtBool (isQuad S))
  | "face_id", _ => some (fmtOptNat (faceId S q.args))
  | _, _ => none

def stripInds (s : String) : String :=
  if s.endsWith "_inds" then (s.dropEnd 5).toString else s

/-- name of the method in the translated guard table -/
def lazyName (n : String) : String :=
  if n.startsWith "m." then "mesh." ++ (n.drop 2).toString else "conn." ++ stripInds n

def lazyId (n : String) : Option Nat :=
  (Mouette.Generated.C01.queryNames.find? fun e => e.1 == lazyName n).map (·.2)

/-- the driver follows the SET of possible states; reply `err:Uninit` when the call raises in every
possible state, the pure answer when it raises in none, `?<answer>` when the table cannot tell -/
def runHistory (S : Surf) (bv : List Nat) (qs : List Query) : Option (List String) :=
  let tbl := Mouette.Generated.C01.table
  let rec go (st : List Mouette.Lazy.St) : List Query → Option (List String)
    | [] => some []
    | q :: rest => do
      -- `other`: another, different mesh object is built and queried in between; nothing of THIS object is touched
      if q.name == "other" then
        let tl ← go st rest
        return ("-" :: tl)
      let fid ← lazyId q.name
      let ans ← pureAnswer S bv q
      let r := Mouette.Lazy.stepSet tbl st fid
      let tl ← go (Mouette.Lazy.after r) rest
      pure ((if r.bad.isEmpty then ans else if r.ok.isEmpty then "err:Uninit" else "?" ++ ans) :: tl)
  go (Mouette.Lazy.initSet tbl) qs

def request : P (Bool × Nat × Faces × List (List Query)) := do
  let s ← bool
  let nv ← nat
  let faces ← listOf (listOf nat)
  let hs ← listOf (listOf query)
  pure (s, nv, faces, hs)

def handle (ts : List String) : Option String :=
  match ts with
  | "h" :: r => do
      let (s, nv, faces, hs) ← runP request r
      let S := build nv faces s
      let bv := boundaryVertices S
      let outs ← hs.mapM (runHistory S bv)
      -- `wf:` = the decidable hypothesis of the theorems of Props/C01 holds on this input
      let St := build nv faces true
      let wf := decide (Mouette.Surface.Oriented faces) && (faces.all fun F => decide F.Nodup) &&
        (List.range nv).all (umbrellaB St)   -- umbrella condition at every vertex (hypothesis of `ring_sorted`)
      pure (s!"wf:{fmtBool wf} ## " ++ " || ".intercalate (outs.map fun l => " | ".intercalate l))
  | "wg" :: [] => some (fmtBool (Mouette.Lazy.WellGuarded Mouette.Generated.C01.table))
  | _ => none

end Mouette.DriveC01
