import Mouette.Model.MeshHeap
import Mouette.Model.MeshCopy
/-
Vocabulary of the C06 TRANSLATED bodies (`Generated/C06Src.lean`, written by `vlib/gen/c06_translate.py` from
`mouette/geometry/transform.py` and `mouette/mesh/mesh.py::merge` on every run). Core Lean only.

A transform takes the mesh by reference and returns it: it is compiled to  `mi → args → State → State`  (`mi` = index of
the mesh in the model's state). Meaning of the Python idioms the translator recognises:

  `for i in mesh.id_vertices: body`     `(idVertices s mi).foldl (fun s i => body) s`   (the range is evaluated ONCE, before)
  `mesh.vertices[i]` (read)             `vertexAt s mi i`     current content of the object bound at index i
  `mesh.vertices[i] = e`                `setVertex s mi i e`  REBINDING: a new object is allocated and bound at index i
  `mesh.vertices[i][c] = x`             `editVertex s mi i c x`   IN-PLACE update of the object bound at index i
  `if orig is None: orig = e`           `match orig with | some v => v | none => e`
  `AABB.of_mesh(mesh)`                  `coordsOf s mi` (the box is a function of the coordinates: `bbMin`, `center`, `maxSpan`)
  `sum(mesh.vertices)` / `len(..)`      `sumV (coordsOf s mi)` / `nVerts s mi`
  `f(g(mesh, a), b)`                    `f mi b (g mi a s)`   (both return the mesh they were given)
  `hasattr(m, "edges")` in `merge`      `hasKind`: an absent container reads as the empty list in the model
  `copy`: every `copy_mesh.<path> = f(mesh.<path>)` (with its `hasattr` guard, per branch of `copy_attributes`) becomes one
  `CopyField` row, in statement order; `copyByTables` gives the tables their meaning in the model (see below)
-/
namespace Mouette.MeshSrc
open Mouette.MeshHeap

def nVerts (s : State) (mi : Nat) : Nat :=
  match s.meshes[mi]? with
  | some m => m.verts.length
  | none => 0

def idVertices (s : State) (mi : Nat) : List Nat := List.range (nVerts s mi)

def vertexAt (s : State) (mi i : Nat) : V3 :=
  match s.meshes[mi]? with
  | some m => deref s.heap (m.verts.getD i 0)
  | none => V3.zero

def setVertex (s : State) (mi i : Nat) (v : V3) : State :=
  match s.meshes[mi]? with
  | some m => { heap := s.heap ++ [v], meshes := s.meshes.set mi { m with verts := m.verts.set i s.heap.length } }
  | none => s

def coordsOf (s : State) (mi : Nat) : List V3 :=
  match s.meshes[mi]? with
  | some m => coords s.heap m
  | none => []

/-- `hasattr(m, kind)`: an absent container and an empty one are the same list in the model -/
def hasKind (l : List (List Nat)) : Bool := !l.isEmpty

/-- `[tuple((off+u for u in e)) for e in l]` -/
def shiftBy (off : Nat) (l : List (List Nat)) : List (List Nat) := l.map (fun e => e.map (fun u => off + u))

/-! ### `from_arrays`, `reorder_vertices` (round 6) -/

/-- a float array handed over by the caller: only its VALUES matter here, because the translator insists on a copying form
(`np.array(V)`) before the rows are stored (anything else is refused) -/
structure ArrV where
  cols : Nat
  rows : List (List Rat)

/-- an index array (`E`, `F`, `C`) -/
structure ArrI where
  cols : Nat
  rows : List (List Nat)

/-- `np.pad(V, ((0,0),(0,n)))`: `n` zero columns on the right -/
def ArrV.padRight (v : ArrV) (n : Nat) : ArrV := { cols := v.cols + n, rows := v.rows.map (fun r => r ++ List.replicate n 0) }
/-- the rows as coordinate vectors (used once the array has 3 columns) -/
def ArrV.toV3 (v : ArrV) : List V3 := v.rows.map (fun r => ⟨r.getD 0 0, r.getD 1 0, r.getD 2 0⟩)
/-- `np.any(np.asarray(E) >= n)` -/
def ArrI.anyGe (e : ArrI) (n : Nat) : Bool := e.rows.any (fun r => r.any (fun u => decide (n ≤ u)))

/-- the raw mesh under construction (`m = RawMeshData()`; `m.vertices += …` stores NEW vector objects: values only) -/
structure RawAcc where
  verts : List V3 := []
  edges : List (List Nat) := []
  faces : List (List Nat) := []
  cells : List (List Nat) := []

/-- `_instanciate_raw_mesh_data(m)` / `return m`: the mesh enters the state with its coordinates in FRESH cells -/
def instanciate (s : State) (m : RawAcc) : State := newMesh s m.verts m.edges m.faces m.cells

/-- `np.argsort(p)` for a permutation `p` of `0..n-1`: the inverse permutation -/
def argsortPerm (p : List Nat) : List Nat := (List.range p.length).map (fun j => p.idxOf j)

/-! ### raw mesh data, typed meshes, loaders, procedural producers (round 7) -/

/-- a `RawMeshData` OBJECT: its containers are lists of REFERENCES to vector objects — the same record as a typed mesh, which is
built around the very same containers (`Mesh.__init__`: `self.vertices = data.vertices`, …) -/
abbrev Raw := Mesh

def Raw.empty : Raw := { verts := [], edges := [], faces := [], cells := [] }

/-- where a vector object stored by a producer comes from -/
inductive Prov where
  | fresh      -- `Vec(x, y, z)`, an arithmetic expression, a function result: a NEW array
  | copy       -- `Vec(v.copy())`, `np.array(v)`: a new array with the values of an existing one
  | alias      -- an object that is (or is a view of) a vector already stored somewhere
  deriving DecidableEq, Repr

/-- MEANING of a producer's table of vertex-store sites: when no site stores an alias, the produced mesh has its `pts` in FRESH
cells (`newMesh`); otherwise nothing is claimed (state returned unchanged) -/
def producerByTable (sites : List (String × Prov)) (pts : List V3) (e f c : List (List Nat)) (s : State) : State :=
  if sites.all (fun p => p.2 != .alias) then newMesh s pts e f c else s

/-- what a file reader returns (`read_by_extension`): a raw mesh whose vectors were built while parsing — NEW objects
(the readers themselves belong to C04) -/
def readFile (s : State) (vs : List V3) (e f c : List (List Nat)) : State := newMesh s vs e f c

/-- what `_prepare_vertices` stores back at index `iv` (round 8): a VIEW of the object already stored there (`Vec(x)` of an array:
same memory — the model's cell is the same) or a NEW array (`np.pad`, `astype`: padded / converted values; the model's cells already
hold three rationals, so the coordinates are the same) -/
inductive VRef where
  | view
  | new
  deriving DecidableEq, Repr

def storeVRef (s : State) (mi i : Nat) : VRef → State
  | .view => s
  | .new => setVertex s mi i (vertexAt s mi i)

/-! ### `copy`: the statement tables (round 5) -/

/-- how the right-hand side of `copy_mesh.<path> = …` is obtained from `mesh.<path>` -/
inductive CopyHow where
  | deep        -- `deepcopy(mesh.path)`
  | deepMemo    -- `deepcopy(mesh.path, {id(mesh): copy_mesh})`: deep copy whose back-reference to the source is re-pointed to the copy
  | shallow     -- `list(..)`, `copy.copy(..)`, a slice …: a new outer object sharing its items
  | ref         -- the object itself
  deriving DecidableEq, Repr

/-- one assignment `copy_mesh.<target> = <how>(mesh.<source>)` under the guard `hasattr(mesh, "<guard>")` ("" = unguarded) -/
structure CopyField where
  target : String
  source : String
  how : CopyHow
  guard : String
  deriving DecidableEq, Repr

def deepOf (tbl : List CopyField) (path guard : String) : Bool :=
  tbl.any (fun f => f.target == path && f.source == path && f.how == .deep && f.guard == guard)

/-- the data fields of the containers of a mesh (coordinates, element tuples, corner tables) with the guard they exist under -/
def dataPaths : List (String × String) :=
  [("vertices._data", ""), ("edges._data", "edges"), ("faces._data", "faces"), ("face_corners._elem", "faces"),
   ("face_corners._adj", "faces"), ("cells._data", "cells"), ("cell_corners._elem", "cells"), ("cell_corners._adj", "cells"),
   ("cell_faces._elem", "cells"), ("cell_faces._adj", "cells")]

/-- the containers themselves (data AND attributes) -/
def contPaths : List (String × String) :=
  [("vertices", ""), ("edges", "edges"), ("faces", "faces"), ("face_corners", "faces"), ("cells", "cells"),
   ("cell_corners", "cells"), ("cell_faces", "cells")]

/-- MEANING of the statement tables of `copy` in the mesh model. `fresh`: the copy starts as a new empty mesh of the same class.
When every data field is deep-copied in the data branch and every container in the attribute branch, the result is the model's
`copyX` provided the connectivity handler goes through `deepcopy` with the re-pointing memo; a handler taken by reference is the
pre-repair `legacyCopyX`; tables that leave a field shared / uncopied are not a copy at all (state returned unchanged). -/
def copyByTables (fresh : Bool) (attrB dataB conn : List CopyField) (s : Mouette.MeshHeap.StateX) (i : Nat) (attrs : Bool) :
    Mouette.MeshHeap.StateX :=
  if fresh && dataPaths.all (fun p => deepOf dataB p.1 p.2) && contPaths.all (fun p => deepOf attrB p.1 p.2) then
    if conn.all (fun f => f.how == .deepMemo) then Mouette.MeshHeap.copyX s i attrs else Mouette.MeshHeap.legacyCopyX s i
  else s

end Mouette.MeshSrc
