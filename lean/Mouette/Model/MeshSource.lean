import Mouette.Model.MeshHeap
/-
Vocabulary of the C06 TRANSLATED bodies (`Generated/C06Src.lean`, written by `vlib/gen/c06_translate.py` from
`mouette/geometry/transform.py` and `mouette/mesh/mesh.py::merge` on every run). Core Lean only.

A transform takes the mesh by reference and returns it: it is compiled to  `mi → args → State → State`  (`mi` = index of
the mesh in the model's state). Meaning of the Python idioms the translator recognises:

  `for i in mesh.id_vertices: body`     `(idVertices s mi).foldl (fun s i => body) s`   (the range is evaluated ONCE, before)
  `mesh.vertices[i]` (read)             `vertexAt s mi i`     current content of the object bound at index i
  `mesh.vertices[i] = e`                `setVertex s mi i e`  REBINDING: a new object is allocated and bound at index i
  `mesh.vertices[i][c] = x`             `editVertex s mi i c x`   IN-PLACE update of the object bound at index i
  `if orig is None: orig = e`           `match orig with | some v => v | none => e`
  `AABB.of_mesh(mesh)`                  `coordsOf s mi` (the box is a function of the coordinates: `bbMin`, `center`, `maxSpan`)
  `sum(mesh.vertices)` / `len(..)`      `sumV (coordsOf s mi)` / `nVerts s mi`
  `f(g(mesh, a), b)`                    `f mi b (g mi a s)`   (both return the mesh they were given)
  `hasattr(m, "edges")` in `merge`      `hasKind`: an absent container reads as the empty list in the model
-/
namespace Mouette.MeshSrc
open Mouette.MeshHeap

def nVerts (s : State) (mi : Nat) : Nat :=
  match s.meshes[mi]? with
  | some m => m.verts.length
  | none => 0

def idVertices (s : State) (mi : Nat) : List Nat := List.range (nVerts s mi)

def vertexAt (s : State) (mi i : Nat) : V3 :=
  match s.meshes[mi]? with
  | some m => deref s.heap (m.verts.getD i 0)
  | none => V3.zero

def setVertex (s : State) (mi i : Nat) (v : V3) : State :=
  match s.meshes[mi]? with
  | some m => { heap := s.heap ++ [v], meshes := s.meshes.set mi { m with verts := m.verts.set i s.heap.length } }
  | none => s

def coordsOf (s : State) (mi : Nat) : List V3 :=
  match s.meshes[mi]? with
  | some m => coords s.heap m
  | none => []

/-- `hasattr(m, kind)`: an absent container and an empty one are the same list in the model -/
def hasKind (l : List (List Nat)) : Bool := !l.isEmpty

/-- `[tuple((off+u for u in e)) for e in l]` -/
def shiftBy (off : Nat) (l : List (List Nat)) : List (List Nat) := l.map (fun e => e.map (fun u => off + u))

end Mouette.MeshSrc
