/-
Model of `mouette/processing/parametrization/tutte.py` (class `TutteEmbedding`) and of the part of
`mouette/operators/laplacian_op.py: laplacian` it uses. Core Lean only, exact `Rat`.

* `_initialize_boundary`: square mode by sequential array writes (four corners, four loops); circle mode as the
  fraction of a full turn `i/n` (the harness applies `cos/sin(2π·)`); custom mode passes the given rows through.
* `laplacian`: the COO triplets the code hands to `csc_matrix` (duplicates are summed by scipy).
* the partition `freeInds / bndInds`, the system `L_II u = -L_IB u_B`, solved exactly by Gauss–Jordan; by linearity the
  model returns the matrix `H = -L_II⁻¹ L_IB` (one row per free vertex, one column per border vertex): `u_I = H u_B`.
* storage: per vertex, or per corner through `vertex_to_corners`.
* the gate `euler_characteristic(mesh) != 1`.
-/
namespace Mouette.Tutte

/-! ### `_initialize_boundary`, SQUARE -/

/-- `corners = [0, n//4, n//2, (3*n)//4]` -/
def sqCorners (n : Nat) : List Nat := [0, n / 4, n / 2, (3 * n) / 4]

/-- the `range(a, b)` of the four loops, as `(a, b)` -/
def sideRange (n : Nat) : Nat → Nat × Nat
  | 0 => (1, n / 4)
  | 1 => (n / 4 + 1, n / 2)
  | 2 => (n / 2 + 1, (3 * n) / 4)
  | _ => ((3 * n) / 4 + 1, n)

/-- first value of the running index `i` in each loop (`range(1, …)`, `enumerate(…, 1)`) -/
def sideStart : Nat → Nat
  | _ => 1

/-- `4*i/n` -/
def ramp (n i : Nat) : Rat := 4 * (i : Rat) / (n : Rat)
/-- `1-4*i/n` -/
def rampDown (n i : Nat) : Rat := 1 - 4 * (i : Rat) / (n : Rat)

/-- `for k, v in enumerate(range(a, a+len)): A[v] = g k` -/
def loopSet (A : List Rat) (a len : Nat) (g : Nat → Rat) : List Rat :=
  (List.range len).foldl (fun A k => A.set (a + k) (g k)) A

/-- one loop of the square branch over side `s`, writing `g i` with the running index `i` -/
def sideLoop (A : List Rat) (n s : Nat) (g : Nat → Rat) : List Rat :=
  loopSet A (sideRange n s).1 ((sideRange n s).2 - (sideRange n s).1) (fun k => g (k + sideStart s))

def squareU (n : Nat) : List Rat :=
  let U := List.replicate n (0 : Rat)
  let c := sqCorners n
  let U := (((U.set (c.getD 0 0) 0).set (c.getD 1 0) 1).set (c.getD 2 0) 1).set (c.getD 3 0) 0
  let U := sideLoop U n 0 (ramp n)
  let U := sideLoop U n 1 (fun _ => 1)
  let U := sideLoop U n 2 (rampDown n)
  U

def squareV (n : Nat) : List Rat :=
  let V := List.replicate n (0 : Rat)
  let c := sqCorners n
  let V := (((V.set (c.getD 0 0) 0).set (c.getD 1 0) 0).set (c.getD 2 0) 1).set (c.getD 3 0) 1
  let V := sideLoop V n 1 (ramp n)
  let V := sideLoop V n 2 (fun _ => 1)
  let V := sideLoop V n 3 (rampDown n)
  V

def squareBoundary (n : Nat) : List (Rat × Rat) := (squareU n).zip (squareV n)

/-- CIRCLE: fraction of the full turn of border vertex `i` (`2*pi*i/n`) -/
def circleTurns (n : Nat) : List Rat := (List.range n).map (fun (i : Nat) => (i : Rat) / (n : Rat))

/-! ### Laplacian triplets -/

abbrev Triplet := Nat × Nat × Rat

/-- the four COO entries written for the pair `(i, j)` with coefficient `v` -/
def edgeTriplets (i j : Nat) (v : Rat) : List Triplet := [(i, i, v), (j, j, v), (i, j, -v), (j, i, -v)]

/-- one triangle `(p,q,r)` with half cotangents `a,b,c` at `p,q,r`: `[(p,q,c),(q,r,a),(r,p,b)]` -/
def faceTriplets (p q r : Nat) (a b c : Rat) : List Triplet :=
  edgeTriplets p q c ++ edgeTriplets q r a ++ edgeTriplets r p b

/-- `laplacian(mesh, cotan)`; `cot = none` is the uniform case `a,b,c = 0.5,0.5,0.5`, otherwise `cot[3*iT+k]/2` -/
def lapTripletsFrom (cot : Option (List Rat)) : Nat → List (List Nat) → List Triplet
  | _, [] => []
  | iT, f :: fs =>
    let w (k : Nat) : Rat := match cot with
      | none => 1 / 2
      | some l => l.getD (3 * iT + k) 0 / 2
    faceTriplets (f.getD 0 0) (f.getD 1 0) (f.getD 2 0) (w 0) (w 1) (w 2) ++ lapTripletsFrom cot (iT + 1) fs

def lapTriplets (cot : Option (List Rat)) (F : List (List Nat)) : List Triplet := lapTripletsFrom cot 0 F

/-- matrix entry: duplicates are summed -/
def entry (T : List Triplet) (r c : Nat) : Rat :=
  (T.filter (fun t => t.1 == r && t.2.1 == c)).foldl (fun s t => s + t.2.2) 0

/-- sum of row `r` -/
def rowSum (T : List Triplet) (r : Nat) : Rat :=
  ((T.filter (fun t => t.1 == r)).map (fun t => t.2.2)).sum

/-- `(L u)_r` -/
def mulRow (T : List Triplet) (u : Nat → Rat) (r : Nat) : Rat :=
  ((T.filter (fun t => t.1 == r)).map (fun t => t.2.2 * u t.2.1)).sum

/-! ### exact solve -/

def rowSub (r p : List Rat) (k : Rat) : List Rat := List.zipWith (fun a b => a - k * b) r p

/-- one Gauss–Jordan step on column `k` (first non-zero pivot at or below row `k`); `none` = singular -/
def gjStep (M : List (List Rat)) (k : Nat) : Option (List (List Rat)) :=
  match (List.range M.length).find? (fun i => decide (k ≤ i) && (M.getD i []).getD k 0 != 0) with
  | none => none
  | some p =>
    let rowp := M.getD p []
    let rowk := M.getD k []
    let M1 := (M.set p rowk).set k rowp
    let piv := rowp.getD k 0
    let prow := rowp.map (· / piv)
    some (M1.mapIdx (fun i r => if i = k then prow else rowSub r prow (r.getD k 0)))

def gaussJordan (n : Nat) (M : List (List Rat)) : Option (List (List Rat)) :=
  (List.range n).foldlM gjStep M

/-- `H = -L_II⁻¹ L_IB`: rows indexed by `free`, columns by `bnd` -/
def harmonicMatrix (T : List Triplet) (free bnd : List Nat) : Option (List (List Rat)) :=
  let aug := free.map (fun r =>
    let Tr := T.filter (fun t => t.1 == r)
    free.map (fun c => entry Tr r c) ++ bnd.map (fun b => - entry Tr r b))
  (gaussJordan free.length aug).map (fun M => M.map (fun row => row.drop free.length))

/-- exact check that `H` solves the system: for every free row `r`, `Σ_c L[r][free c] H[c][b] + L[r][bnd b] = 0` -/
def residualZero (T : List Triplet) (free bnd : List Nat) (H : List (List Rat)) : Bool :=
  (free.all fun r =>
    let Tr := T.filter (fun t => t.1 == r)
    (List.range bnd.length).all fun bi =>
      ((free.zip H).map (fun (c, hrow) => entry Tr r c * hrow.getD bi 0)).sum + entry Tr r (bnd.getD bi 0) == 0)

/-! ### storage -/

/-- where the value of a slot comes from -/
inductive Src where
  | free (k : Nat)   -- `U[k], V[k]`
  | bnd (k : Nat)    -- `Ubnd[k], Vbnd[k]`
  | zero             -- never written (dense attribute default)
deriving Repr, DecidableEq

/-- the writes `(vertex, source)` in the order of the code: `enumerate(freeInds)` then `enumerate(bndInds)` -/
def writes (free bnd : List Nat) : List (Nat × Src) :=
  (free.zipIdx.map (fun (v, i) => (v, Src.free i))) ++ (bnd.zipIdx.map (fun (v, i) => (v, Src.bnd i)))

/-- `self.uvs[v] = …` on a dense vertex attribute of size `nV` -/
def vertexStore (nV : Nat) (ws : List (Nat × Src)) : List Src :=
  ws.foldl (fun A w => A.set w.1 w.2) (List.replicate nV Src.zero)

/-- `for c in vertex_to_corners(v): self.uvs[c] = …` on a dense corner attribute; `cv` = vertex of every corner -/
def cornerStore (cv : List Nat) (ws : List (Nat × Src)) : List Src :=
  ws.foldl (fun A w => (List.range cv.length).foldl (fun A c => if cv.getD c 0 = w.1 then A.set c w.2 else A) A)
    (List.replicate cv.length Src.zero)

/-! ### the gate -/

/-- `euler_characteristic(mesh) != 1` → rejected -/
def gate (nV nE nF : Nat) : Bool := (nV : Int) - (nE : Int) + (nF : Int) == 1

/-! ### exact orientation predicate (certificate checker used by the oracle) -/

def orient2d (a b c : Rat × Rat) : Rat := (b.1 - a.1) * (c.2 - a.2) - (c.1 - a.1) * (b.2 - a.2)

end Mouette.Tutte
