import Mouette.Model.Proto
import Mouette.Model.Surface
import Mouette.Model.Border
import Mouette.Model.BorderSpec
import Mouette.Model.Features
import Mouette.Generated.C15Thresholds
import Mouette.Model.FeatRuns
import Mouette.Generated.C15Run
/-
Protocol front-end for C15.
  `b <nv> <nf> (<len> v…)* <nstarts> s…`
      reply  `wf:<0|1> ## <cycle from s1> | … || <all cycles, canonical> || <boundary polyline, canonical>`
      a cycle is `<k v…> ; <k e…>`; canonical cycles are rotated (direction kept) so that the smallest
      vertex comes first and sorted; the polyline is `<#vertices> ; <k a b …>` = its edges mapped back
      to surface vertex pairs, sorted.
  `f <nv> <nf> (<len> v…)* <nruns> (<same_detector> <only_border> <normals_injected> <nE> (<hard> <d> <q>)*)* <nv> (<x>|N)*`
      a HISTORY of detector runs on one mesh object (the last one is the run observed; earlier ones were made
      with the same detector object or with another one); per run: whether the caller wrote a `normals` attribute just
      before it (then `(d,q)` are those of that attribute, else those of the geometry the mesh has at that moment);
      per run and canonical edge: hard flag and `(d,q)` of
      Model/Features.lean; per vertex `x = angle·order/2π` (last run).  The model threads the mesh's `feature`
      attribute and the detector's containers through the runs (Model/FeatRuns.lean) with the reset flags
      translated from the source (Generated/C15Run.lean).
      reply  `<feature edges> ; <feature vertices> ; <degrees> ; <local edges per vertex, as sorted edge
      ids, `/`-separated> ; <corner per vertex>`
-/
namespace Mouette.DriveC15
open Mouette.Proto Mouette.Surface Mouette.Border Mouette.Features

def rotateMin (l : List Nat) : List Nat :=
  match l.min? with
  | none => l
  | some m => let k := l.idxOf m; l.drop k ++ l.take k

def insertSorted (le : α → α → Bool) (x : α) : List α → List α
  | [] => [x]
  | y :: ys => if le x y then x :: y :: ys else y :: insertSorted le x ys
def isort (le : α → α → Bool) (l : List α) : List α := l.foldr (insertSorted le) []

def fmtCycle (c : List Nat × List (Option Nat)) : String := s!"{fmtNats c.1} ; {fmtList fmtOptNat c.2}"

def pairLe (x y : Nat × Nat) : Bool := x.1 < y.1 || (x.1 == y.1 && x.2 ≤ y.2)

def border (nv : Nat) (faces : Faces) (starts : List Nat) : String :=
  let S := build nv faces true
  let bv := boundaryVertices S
  -- `if len(mesh.boundary_vertices)==0 : return []` comes before the starting point is looked at
  let per := starts.map fun s => if bv.isEmpty then "empty" else match extractBorderCycle S bv s with
    | none => "err:Other(Exception)"
    | some c => fmtCycle c
  let all := (cyclesAll S bv).map fun c => rotateMin c.1
  let allS := isort (fun a b => a.headD 0 ≤ b.headD 0) all
  let allStr := " ; ".intercalate (toString allS.length :: allS.map fmtNats)
  let bnd := match extractBoundary S bv with
    | none => "err"
    | some ((pe : List (Nat × Nat)), (m : List (Nat × Nat)), (n : Nat)) =>
      let inv (i : Nat) : Nat := ((m.find? fun (e : Nat × Nat) => e.2 == i).map (fun (e : Nat × Nat) => e.1)).getD 0
      let back := isort pairLe (pe.map fun (ab : Nat × Nat) => key2 (inv ab.1) (inv ab.2))
      s!"{n} ; {fmtNats (back.flatMap fun (ab : Nat × Nat) => [ab.1, ab.2])}"
  -- `wf:` = the decidable hypotheses of `border_cycle_correct` (Props/C15Border) hold on this input
  s!"wf:{fmtBool (borderWfB faces nv)} ## {" | ".intercalate per} || {allStr} || {bnd}"

def optRat : P (Option Rat) := do
  let t ← tok
  if t = "N" then pure none else match parseRat t with | some q => pure (some q) | none => failure

def edgeIn : P (Bool × Rat × Rat) := do
  let h ← bool
  let d ← rat
  let q ← rat
  pure (h, d, q)

/-- one run of the history: was it made with the final detector object, `only_border`, per-edge inputs -/
def runIn : P (Bool × Bool × Bool × List (Bool × Rat × Rat)) := do
  let sd ← bool
  let ob ← bool
  let inj ← bool
  let ein ← listOf edgeIn
  pure (sd, ob, inj, ein)

def features (nv : Nat) (faces : Faces) (runs : List (Bool × Bool × Bool × List (Bool × Rat × Rat)))
    (xs : List (Option Rat)) : String :=
  let S := build nv faces true
  let th := Mouette.Generated.C15.thresholds
  let fl := Mouette.Generated.C15.runFlags
  let mk (ein : List (Bool × Rat × Rat)) : List EdgeInfo := (S.edges.zip ein).map fun (ab, h, d, q) =>
    let tf := edgeToFaces S ab.1 ab.2
    { a := ab.1, b := ab.2, t1 := tf.1, t2 := tf.2, border := isEdgeOnBorder S ab.1 ab.2, hard := h, d := d, q := q }
  let hist := runs.map fun (sd, ob, inj, ein) => (sd, ({ onlyBorder := ob, inj := inj, es := mk ein } : RunInput))
  -- the state after all the runs, on a mesh and a detector that were fresh before the first one
  let st := runHistory fl th nv RunState.fresh hist
  let flags := st.featE.getD []
  let fe := sortNat st.det.fe
  let fv := sortNat st.det.fv
  let loc := fv.map fun v =>
    let v2e := (vertexToEdges S v).filterMap id
    let idx := localFeat flags v2e
    fmtNats (sortNat (idx.map fun i => v2e.getD i 0))
  let cor := fv.map fun v => match xs.getD v none with
    | none => "N"
    | some x => toString (cornerOf x)
  s!"{fmtNats fe} ; {fmtNats fv} ; {fmtNats (fv.map (degreeOf st.det.deg))} ; {" / ".intercalate loc} ; {" ".intercalate cor}"

def handle (ts : List String) : Option String :=
  match ts with
  | "b" :: r => do
      let (nv, faces, starts) ← runP (do let nv ← nat; let f ← listOf (listOf nat); let s ← listOf nat; pure (nv, f, s)) r
      pure (border nv faces starts)
  | "f" :: r => do
      let (nv, faces, runs, xs) ← runP (do
        let nv ← nat; let f ← listOf (listOf nat)
        let runs ← listOf runIn; let xs ← listOf optRat; pure (nv, f, runs, xs)) r
      pure (features nv faces runs xs)
  | _ => none

end Mouette.DriveC15
