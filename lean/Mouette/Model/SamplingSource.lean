import Mouette.Model.SamplingWrap
/-
C19 round 4 — vocabulary of the WHOLE-FUNCTION translation of `mouette/sampling.py` and of the `AABB` accessors
(`Generated/C19Fn.lean`, written by `vlib/gen/c19_fn_translate.py` from the working tree on every run). Core Lean only.

The translator reads each sampler imperatively, statement by statement, and emits one Lean definition per Python
function: every assignment is a `let` (re-assignment shadows), `if` duplicates the continuation, `raise`/`return` end a
path (`Res.raised` / `Res.ok`), `for i,x in enumerate(xs)` is a `foldl` over `xs.zipIdx` whose state is the output
buffer, and every numpy expression is typed (scalar / 1-D row / 2-D array / (n,1) column) and mapped to the
broadcasting primitive below.  The meaning given to the Python / numpy operations the translator recognises:

  `np.vstack([np.random.normal(0.,1.,size=n)]*3 written out).T`   `normalDirs g n`      (row i = the 3 draws of point i)
  `np.linalg.norm(a, axis=1, keepdims=True)`                      `rowNorms nrm a`      (`nrm` injected, hypothesis-bearing)
  `a / col`, `a * col`           (n,d) with (n,1)                 `divCol a col`, `mulCol a col`
  `s * a`, `a * s`               scalar with (n,d)                `scale s a`
  `a + row`, `row + a`           (n,d) with (d,)                  `addRow a row`
  `a * row`, `row * a`                                            `mulRow a row`
  `np.random.uniform(lo,hi,n).reshape((n,1))`                     `uniformCol u lo hi n` (`u i` the uniform[0,1) draw)
  `np.cbrt(col)`, `s * col`                                       `colMap cbrt col`, `colScale s col`
  `random((n,d))`                                                 `randomArr x n d`
  `np.zeros((n,3))`                                               `zeros n 3`
  `buf[i,:] = row`                                                `setRow buf i row`
  `t*p`, `p+q`, `p-q` on points                                   `smul t p`, `vadd p q`, `vsub p q`
  `(mesh.vertices[_v] for _v in mesh.edges[e])`                   `corner V (E.getD e []) k`   (k-th unpacked name)
  `np.linspace(0,1,res)`                                          `linspaceV res`
  `np.vstack(list(map(np.ravel, np.meshgrid(*Xdims)))).T`         `meshgridPts Xdims`
  `x /= np.sum(x)`                                                `normalise x`
  `PointCloud()`, `.vertices += list(a)`, attribute "normals"     `PC.new`, `PC.addVerts`, `PC.setNormals`
  `from_arrays(points)`                                           `fromArrays points`  (zero padding to 3 columns)
Out-of-range / negative indices are totalised (`getD`); they do not occur on the guarded paths.
-/
namespace Mouette.SamplingSrc
open Mouette.Sampling Mouette.SamplingWrap

abbrev Row := List Rat
abbrev Arr := List (List Rat)

/-- outcome of a call: an exception class name, or the returned value -/
inductive Res (α : Type) where
  | raised (exc : String)
  | ok (v : α)
deriving Repr, DecidableEq

def normalDirs (g : Nat → Row) (n : Nat) : Arr := (List.range n).map g
def rowNorms (nrm : Row → Rat) (a : Arr) : List Rat := a.map nrm
def divCol (a : Arr) (s : List Rat) : Arr := List.zipWith (fun row x => row.map (· / x)) a s
def mulCol (a : Arr) (s : List Rat) : Arr := List.zipWith (fun row x => row.map (· * x)) a s
def scale (r : Rat) (a : Arr) : Arr := a.map (fun row => row.map (r * ·))
def addRow (a : Arr) (c : Row) : Arr := a.map (fun row => List.zipWith (· + ·) row c)
def mulRow (a : Arr) (c : Row) : Arr := a.map (fun row => List.zipWith (· * ·) row c)
def uniformCol (u : Nat → Rat) (lo hi : Rat) (n : Nat) : List Rat := (List.range n).map (fun i => lo + (hi - lo) * u i)
def colScale (r : Rat) (s : List Rat) : List Rat := s.map (r * ·)
def colMap (f : Rat → Rat) (s : List Rat) : List Rat := s.map f
def randomArr (x : Nat → Nat → Rat) (n d : Nat) : Arr := (List.range n).map (fun i => (List.range d).map (x i))
def zeros (n d : Nat) : Arr := List.replicate n (List.replicate d 0)
def setRow (a : Arr) (i : Nat) (r : Row) : Arr := a.set i r
def smul (t : Rat) (p : Row) : Row := p.map (t * ·)
def vadd (p q : Row) : Row := List.zipWith (· + ·) p q
def vsub (p q : Row) : Row := List.zipWith (· - ·) p q
def vdivS (p : Row) (s : Rat) : Row := p.map (· / s)
def vge (p q : Row) : List Bool := List.zipWith (fun a b => decide (a ≥ b)) p q
def anyB (l : List Bool) : Bool := l.any id
/-- `mesh.vertices[c[k]]` for the `k`-th name unpacked from `(mesh.vertices[_v] for _v in c)` -/
def corner (V : Arr) (c : List Nat) (k : Nat) : Row := V.getD (c.getD k 0) []
def sumL (w : List Rat) : Rat := total w
def normalise (w : List Rat) : List Rat := w.map (· / sumL w)
def linspaceV (res : Nat) : List Rat := (List.range res).map (linspace01 res)
/-- the unit grid built from `d` copies of one axis: all index tuples in C order, first two axes swapped (`indexing='xy'`) -/
def meshgridPts (axes : List (List Rat)) : Arr :=
  match axes with
  | [] => []
  | a :: _ => (digitTuples a.length axes.length).map (fun t => (xySwap t).map (fun k => a.getD k 0))

/-- a `PointCloud` under construction: its vertex container and the data of the dense attribute "normals" -/
structure PC (N : Type) where
  verts : Arr := []
  normals : Option (List N) := none

def PC.new {N} : PC N := {}
def PC.addVerts {N} (p : PC N) (a : Arr) : PC N := { p with verts := p.verts ++ a }
def PC.setNormals {N} (p : PC N) (n : List N) : PC N := { p with normals := some n }
def PC.out {N} (p : PC N) : Out N := .cloud p.verts p.normals
def fromArrays (a : Arr) : Out Unit := .cloud (a.map pad3) none

end Mouette.SamplingSrc
