import Mouette.Model.UnionFind
/-
Vocabulary of the C20 TRANSLATED fragments (`Generated/C20UF.lean`, written by `vlib/gen/c20_translate.py` from
`mouette/utils/unionfind.py` on every run). Core Lean only.

The translator reads each method of `UnionFind` imperatively and emits a state-passing Lean function over `St`:
the model's state record PLUS the dict `_indx` (which the hand model abstracts into `elts.idxOf`). The primitives
below are the meaning given to the Python operations the translator recognises:

  `self._elts.append(e)`        `{ s with elts := s.elts ++ [e] }`        (same for `_par`, `_siz`)
  `self._indx[k] = v`           `{ s with indx := dset s.indx k v }`
  `k in self._indx`             `dmem s.indx k`
  `self._indx[k]`               `dget s.indx k`       (KeyError is not modelled: every read is guarded in the source)
  `self._par[i]`                `parent s.par i`      (out-of-range read totalised as self-parent, as in the model)
  `self._siz[i]`                `sizAt s.siz i`       (out-of-range read totalised as 0, as in the model)
  `self._par[i] = v`            `{ s with par := s.par.set i v }`
  `set(<generator>)`            `setOf <list>`        (duplicates collapse; iteration order is not modelled)
  `raise …`                     `none`                (the exception class is recorded in a descriptor table)
  `while c: body`               recursion on a fuel argument, called with fuel `s.par.length`
                                (`find_terminates_source`: the loop exits by its own condition within that fuel)
-/
namespace Mouette.UFS
open Mouette.UF

/-- a Python dict with `Nat` keys and values: association list, most recent binding first -/
abbrev Dict := List (Nat × Nat)

def dmem (d : Dict) (k : Nat) : Bool := (d.lookup k).isSome
def dget (d : Dict) (k : Nat) : Nat := (d.lookup k).getD 0
def dset (d : Dict) (k v : Nat) : Dict := (k, v) :: d

def sizAt (siz : List Nat) (i : Nat) : Nat := siz.getD i 0

def setOf (l : List Nat) : List Nat := l.eraseDups

/-- the attributes of a `UnionFind` instance, as `__init__` creates them -/
structure St where
  elts   : List Nat := []
  indx   : Dict := []
  par    : List Nat := []
  siz    : List Nat := []
  next   : Nat := 0
  nElts  : Nat := 0
  nComps : Nat := 0
deriving Repr, DecidableEq

/-- forgetting `_indx` gives the hand model's state -/
def St.toState (g : St) : State :=
  { elts := g.elts, par := g.par, siz := g.siz, next := g.next, nElts := g.nElts, nComps := g.nComps }

/-- exception classes named by the `raise` statements of the source -/
inductive PyExc where
  | valueError | keyError | indexError | typeError | other
deriving Repr, DecidableEq

/-- where an attribute lives: in the instance's own `__dict__` (created by an assignment `self.a = …` in `__init__`)
or in the class body (one object shared by every instance that never rebinds it) -/
inductive AttrHome where
  | instance
  | classBody
deriving Repr, DecidableEq

end Mouette.UFS
