import Mouette.Model.UnionFind
/-
Vocabulary of the C20 TRANSLATED fragments (`Generated/C20UF.lean`, written by `vlib/gen/c20_translate.py` from
`mouette/utils/unionfind.py` on every run). Core Lean only.

The translator reads each method of `UnionFind` imperatively and emits a state-passing Lean function over `St`:
the model's state record PLUS the dict `_indx` (which the hand model abstracts into `elts.idxOf`). The primitives
below are the meaning given to the Python operations the translator recognises:

  `self._elts.append(e)`        `{ s with elts := s.elts ++ [e] }`        (same for `_par`, `_siz`)
  `self._indx[k] = v`           `{ s with indx := dset s.indx k v }`
  `k in self._indx`             `dmem s.indx k`
  `self._indx[k]`               `dget s.indx k`       (KeyError is not modelled: every read is guarded in the source)
  `self._par[i]`                `parent s.par i`      (out-of-range read totalised as self-parent, as in the model)
  `self._siz[i]`                `sizAt s.siz i`       (out-of-range read totalised as 0, as in the model)
  `self._par[i] = v`            `{ s with par := s.par.set i v }`
  `set(<generator>)`            `setOf <list>`        (duplicates collapse; iteration order is not modelled: first occurrence)
  `self._elts[i]`               `eltAt s.elts i`
  `d[k]` (local dict)           `dlookup d k`         (`none` = KeyError: these reads are NOT guarded in the source)
  `dict((k, v) for i, r in enumerate(l))`   `dictOf ((enumerate l).map …)`  (a later pair with the same key wins)
  `[[] for _ in l]`             `l.map (fun _ => [])`
  `L[i].append(e)` (local list of lists)    `bucketAppend L i e`  (`none` = IndexError)
  `for e in self._elts: body`   a fold over `s.elts` carrying (state, the mutated local container), `none` once raised
  `D = {}` (local)              `([] : DictS)`        insertion-ordered dict of sets
  `D.setdefault(k, set()).add(e)`           `dsAdd D k e`
  `for c in D.values(): C.update({x: c for x in c})`   fold of `dsUpdate C (c.map (x ↦ (x, c)))` over `dsValues D`
  `self._elts[i] = x`           `{ s with elts := s.elts.set i x }`
  `self._siz[a] < self._siz[b]` in `union`  `sizCmp (sizAt …) (sizAt …)`, `sizCmp` extracted with the operator the source uses
  `raise …`                     `none`                (the exception class is recorded in a descriptor table)
  `while c: body`               recursion on a fuel argument, called with fuel `s.par.length`
                                (`find_terminates_source`: the loop exits by its own condition within that fuel)
-/
namespace Mouette.UFS
open Mouette.UF

/-- a Python dict with `Nat` keys and values: association list, most recent binding first -/
abbrev Dict := List (Nat × Nat)

def dmem (d : Dict) (k : Nat) : Bool := (d.lookup k).isSome
def dget (d : Dict) (k : Nat) : Nat := (d.lookup k).getD 0
def dset (d : Dict) (k v : Nat) : Dict := (k, v) :: d

def sizAt (siz : List Nat) (i : Nat) : Nat := siz.getD i 0

def setOf (l : List Nat) : List Nat := l.eraseDups

/-- `self._elts[i]` (the only reads are guarded by `0 <= i < _next`; totalised as 0) -/
def eltAt (l : List Nat) (i : Nat) : Nat := l.getD i 0

/-- `d[k]` on a LOCAL dict (not guarded in the source): `none` = KeyError -/
def dlookup (d : Dict) (k : Nat) : Option Nat := d.lookup k

def enumerateFrom : Nat → List Nat → List (Nat × Nat)
  | _, [] => []
  | k, a :: l => (k, a) :: enumerateFrom (k + 1) l

/-- `enumerate(l)`: the pairs `(position, value)` -/
def enumerate (l : List Nat) : List (Nat × Nat) := enumerateFrom 0 l

/-- `dict(pairs)`: a later pair with the same key wins -/
def dictOf (ps : List (Nat × Nat)) : Dict := ps.foldl (fun d p => dset d p.1 p.2) []

/-- `L[i].append(e)` on a local list of lists: `none` = IndexError -/
def bucketAppend : List (List Nat) → Nat → Nat → Option (List (List Nat))
  | [], _, _ => none
  | b :: bs, 0, e => some ((b ++ [e]) :: bs)
  | b :: bs, i + 1, e => (bucketAppend bs i e).map (fun r => b :: r)

/-- a LOCAL Python dict `Nat -> set` (or `Nat -> shared set object`): association list in INSERTION order (what `.values()`
iterates), each value a duplicate-free list in insertion order (iteration order of a Python set is not modelled) -/
abbrev DictS := List (Nat × List Nat)

/-- `s.add(e)` on a set -/
def setAdd (l : List Nat) (e : Nat) : List Nat := if l.contains e then l else l ++ [e]

/-- `d.setdefault(k, set()).add(e)` -/
def dsAdd : DictS → Nat → Nat → DictS
  | [], k, e => [(k, [e])]
  | (k', v) :: d, k, e => if k' = k then (k', setAdd v e) :: d else (k', v) :: dsAdd d k e

/-- `d.values()` -/
def dsValues (d : DictS) : List (List Nat) := d.map Prod.snd

/-- `d[k] = v` (an existing key keeps its position) -/
def dsSet : DictS → Nat → List Nat → DictS
  | [], k, v => [(k, v)]
  | (k', v') :: d, k, v => if k' = k then (k', v) :: d else (k', v') :: dsSet d k v

/-- `d.update(pairs)` -/
def dsUpdate (d : DictS) (ps : List (Nat × List Nat)) : DictS := ps.foldl (fun d p => dsSet d p.1 p.2) d

/-- the attributes of a `UnionFind` instance, as `__init__` creates them -/
structure St where
  elts   : List Nat := []
  indx   : Dict := []
  par    : List Nat := []
  siz    : List Nat := []
  next   : Nat := 0
  nElts  : Nat := 0
  nComps : Nat := 0
deriving Repr, DecidableEq

/-- forgetting `_indx` gives the hand model's state -/
def St.toState (g : St) : State :=
  { elts := g.elts, par := g.par, siz := g.siz, next := g.next, nElts := g.nElts, nComps := g.nComps }

/-- exception classes named by the `raise` statements of the source -/
inductive PyExc where
  | valueError | keyError | indexError | typeError | other
deriving Repr, DecidableEq

/-- where an attribute lives: in the instance's own `__dict__` (created by an assignment `self.a = …` in `__init__`)
or in the class body (one object shared by every instance that never rebinds it) -/
inductive AttrHome where
  | instance
  | classBody
deriving Repr, DecidableEq

end Mouette.UFS
