import Mouette.Model.IOSource
import Mouette.Model.IOGeogram
/-
C04 (round 8) — vocabulary for the translation of `geogram_ascii.py: export_attribute` and `is_chunk_header`.  Core Lean only.

  `attr.type`, `attr.elemsize`                      `a.typ`, `a.dim`
  `'{}'.format(attr[i])` / `f"{attr[i][j]}"`        `a.fmt i 0` / `a.fmt i j`     (text of component j of element i)
  `f"{int(attr[i][j])}"`                            `a.asInt i j`                 (bool written as 0 / 1)
  `"\"{x}\""` (a value between double quotes)       `quoted x`                    (one token, the quotes included)
  `attr.type.to_string()`, `attr.type.byte_size()`  `typeString`, `byteSize`      (the tables translated into Generated/C04Tables.lean)
-/
namespace Mouette.IOS
open Mouette.IO Mouette.IO.Geo

/-- what `export_attribute` reads of an attribute -/
structure AView where
  typ : AType
  dim : Nat
  fmt : Nat → Nat → Tok
  asInt : Nat → Nat → Tok

def quoted (s : String) : Tok := .kw ("\"" ++ s ++ "\"")

def typeString : AType → String
  | .bool => "bool" | .int => "int" | .float => "double"

def byteSize : AType → Nat
  | .bool => 1 | .int => 4 | .float => 8

/-- the view of a dense model attribute (its `vals` already hold 0 / 1 for bool, the integer, or the float text) -/
def viewOf (g : GAttr) : AView :=
  { typ := g.typ, dim := g.dim,
    fmt := fun i j => g.vals.getD (g.dim * i + j) (.int 0),
    asInt := fun i j => g.vals.getD (g.dim * i + j) (.int 0) }

end Mouette.IOS
