import Mouette.Model.Proto
import Mouette.Model.Sampling
import Mouette.Model.Bezier
/-
Protocol front-end for C19 (tokens after the `C19` prefix → one reply line).

  sphere cx cy cz r n (gx gy gz s)*n
  ball   cx cy cz r n (gx gy gz s u cb)*n
  box    <mode> <pc> d lo*d hi*d res n (u*d)*n
  polyline nV (x y z)*nV nE (a b L)*nE n (e t)*n
  surface  nV (x y z)*nV nF (a b c A)*nF <wantNormals> n (f u1 sq u2)*n
  curve  d m (m values)*d nt t*nt
  patch  d R C ((C values)*R)*d nq (u v)*nq
  cpoly  d m (m values)*d <custom:0/1> k  [t*k if custom]
  psurf  d R C ((C values)*R)*d n1 n2

Replies start with `ok` or with an error token of the enum. Recorded irrational parameters (`s`, `cb`,
`sq`, `L`, `A`) come with a trailing `hyp <k>` = number of draws on which the hypothesis of the
containment theorems (`s*s = g·g`, `cb³ = u`, `sq² = u1`, `L² = |pA-pB|²`, `(2A)² = |cross|²`) holds
*exactly*; on the others it holds up to float rounding, which the harness checks.
-/
namespace Mouette.DriveC19
open Mouette.Proto Mouette.Sampling Mouette.Bezier

def rat3 : P (Rat × Rat × Rat) := do let x ← rat; let y ← rat; let z ← rat; pure (x, y, z)
def fmt3 (p : Rat × Rat × Rat) : String := s!"{fmtRat p.1} {fmtRat p.2.1} {fmtRat p.2.2}"
def fmtPt (p : List Rat) : String := " ".intercalate (p.map fmtRat)
def join (l : List String) : String := " ".intercalate (l.filter (· ≠ ""))

def errRange : String := "err:Other(InvalidRangeArgumentError)"

/-! sphere / ball -/
def sphereReq : P String := do
  let c ← rat3; let r ← rat
  let draws ← listOf (do let g ← rat3; let s ← rat; pure (g, s))
  let pts := draws.map (fun (g, s) => spherePoint c r g s)
  let hyp := (draws.filter (fun (g, s) => s * s == normSq3 g && s != 0)).length
  pure (join ["ok", toString pts.length, "3", join (pts.map fmt3), "hyp", toString hyp])

def ballReq : P String := do
  let c ← rat3; let r ← rat
  let draws ← listOf (do let g ← rat3; let s ← rat; let u ← rat; let cb ← rat; pure (g, s, u, cb))
  let pts := draws.map (fun (g, s, _, cb) => ballPoint c r g s cb)
  let hyp := (draws.filter (fun (g, s, u, cb) => s * s == normSq3 g && s != 0 && cb * cb * cb == u)).length
  pure (join ["ok", toString pts.length, "3", join (pts.map fmt3), "hyp", toString hyp])

/-! box -/
def boxReq : P String := do
  let mode ← tok; let pc ← bool; let d ← nat
  let lo ← repeatP rat d; let hi ← repeatP rat d
  let res ← nat
  let us ← listOf (repeatP rat d)
  if mode ≠ "uniform" && mode ≠ "grid" then pure "err:Other(InvalidArgumentValueError)" else
  if boxEmpty lo hi then pure "err:Other(Exception)" else
  if d > 3 && pc then pure "err:Value" else
  let pts := if mode = "uniform" then aabbUniform lo hi us else aabbGrid lo hi res
  pure (join ["ok", toString pts.length, toString d, join (pts.map fmtPt)])

/-! polyline / surface -/
def getPt (V : List (Rat × Rat × Rat)) (i : Nat) : Rat × Rat × Rat := V.getD i (0, 0, 0)
def toL (p : Rat × Rat × Rat) : List Rat := [p.1, p.2.1, p.2.2]

def polylineReq : P String := do
  let V ← listOf rat3
  let E ← listOf (do let a ← nat; let b ← nat; let L ← rat; pure (a, b, L))
  let draws ← listOf (do let e ← nat; let t ← rat; pure (e, t))
  if draws.any (fun (e, _) => e ≥ E.length) then pure "err:Index" else
  let ps := if E.length > 1 then probs (E.map (fun (_, _, L) => L)) else []
  let pts := draws.map (fun (e, t) =>
    let (a, b, _) := E.getD e (0, 0, 0)
    segPoint t (toL (getPt V a)) (toL (getPt V b)))
  let hyp := (E.filter (fun (a, b, L) => L * L == normSq3 (sub3 (getPt V a) (getPt V b)) && decide (0 ≤ L))).length
  pure (join ["ok", "probs", fmtRats ps, "pts", toString pts.length, "3", join (pts.map fmtPt), "hyp", toString hyp])

def surfaceReq : P String := do
  let V ← listOf rat3
  let F ← listOf (do let a ← nat; let b ← nat; let c ← nat; let A ← rat; pure (a, b, c, A))
  let wantN ← bool
  let draws ← listOf (do let f ← nat; let u1 ← rat; let sq ← rat; let u2 ← rat; pure (f, u1, sq, u2))
  if draws.any (fun (f, _) => f ≥ F.length) then pure "err:Index" else
  let ps := probs (F.map (fun (_, _, _, A) => A))
  let tri (f : Nat) := let (a, b, c, _) := F.getD f (0, 0, 0, 0); (getPt V a, getPt V b, getPt V c)
  let pts := draws.map (fun (f, _, sq, u2) =>
    let (a, b, c) := tri f
    triPoint sq u2 (toL a) (toL b) (toL c))
  let normals := F.map (fun (a, b, c, _) => triCross (getPt V a) (getPt V b) (getPt V c))
  let sn := if wantN then sampledNormals (0, 0, 0) normals (draws.map (·.1)) else []
  let hypA := (F.filter (fun (a, b, c, A) =>
    (2 * A) * (2 * A) == normSq3 (triCross (getPt V a) (getPt V b) (getPt V c)) && decide (0 ≤ A))).length
  let hypS := (draws.filter (fun (_, u1, sq, _) => sq * sq == u1 && decide (0 ≤ sq))).length
  pure (join ["ok", "probs", fmtRats ps, "pts", toString pts.length, "3", join (pts.map fmtPt),
              "nrm", toString sn.length, join (sn.map fmt3), "hyp", toString hypA, toString hypS])

/-! Bézier -/
def coordsP (d m : Nat) : P (List (List Rat)) := repeatP (repeatP rat m) d
def netsP (d r c : Nat) : P (List (List (List Rat))) := repeatP (repeatP (repeatP rat c) r) d

def fmtEval : Option (List Rat) → String
  | none => errRange
  | some p => join ["p", fmtPt p]

def curveReq : P String := do
  let d ← nat; let m ← nat
  let coords ← coordsP d m
  let ts ← listOf rat
  pure (join ("ok" :: toString ts.length :: ts.map (fun t => fmtEval (evalCurve coords t))))

def patchReq : P String := do
  let d ← nat; let r ← nat; let c ← nat
  let nets ← netsP d r c
  let qs ← listOf (do let u ← rat; let v ← rat; pure (u, v))
  pure (join ("ok" :: toString qs.length :: qs.map (fun (u, v) => fmtEval (evalPatch nets u v))))

def cpolyReq : P String := do
  let d ← nat; let m ← nat
  let coords ← coordsP d m
  let custom ← bool; let k ← nat
  let ts ← if custom then repeatP rat k else pure ((List.range k).map (Bezier.linspace01 k))
  if ts.any (fun t => !inRange t) then pure errRange else
  let vs := ts.map (fun t => join [fmtRat t, fmtPt (coords.map (deCasteljau t))])
  let es := polyEdges ts.length
  pure (join ["ok", "V", toString vs.length, join vs, "E", toString es.length, join (es.map (fun e => fmtPt (e.map (fun (n : Nat) => (n : Rat)))))])

def psurfReq : P String := do
  let d ← nat; let r ← nat; let c ← nat
  let nets ← netsP d r c
  let n1 ← nat; let n2 ← nat
  let vs := (gridPairs n1 n2).map (fun (i, j) =>
    let u := Bezier.linspace01 n1 i; let v := Bezier.linspace01 n2 j
    join [fmtRat u, fmtRat v, fmtPt (nets.map (fun rows => evalPatch1 rows u v))])
  let fs := surfFaces n1 n2
  pure (join ["ok", "V", toString vs.length, join vs, "F", toString fs.length, join (fs.map (fun f => " ".intercalate (f.map toString)))])

def handle (ts : List String) : Option String :=
  match ts with
  | "sphere" :: r => runP sphereReq r
  | "ball" :: r => runP ballReq r
  | "box" :: r => runP boxReq r
  | "polyline" :: r => runP polylineReq r
  | "surface" :: r => runP surfaceReq r
  | "curve" :: r => runP curveReq r
  | "patch" :: r => runP patchReq r
  | "cpoly" :: r => runP cpolyReq r
  | "psurf" :: r => runP psurfReq r
  | _ => none

end Mouette.DriveC19
