import Mouette.Model.Proto
import Mouette.Model.Attr
import Mouette.Model.AttrHandles
import Mouette.Model.AttrMulti
/-
Protocol front-end for C05.
  request:  `<n0> <nops> op*`   with
     create <ty> <k> <N|scalar> | delete | cclear | set <i> S <scalar> | set <i> V <n> <scalar>* | get <i>
     | mut <i> <c> <scalar> | append | extl <n> | extc <m> | exts | clear | arr
     | hold <i> | muth <h> <c> <scalar> | setfr <i> <j> | setsh (S <scalar> | V <n> <scalar>*) <nkeys> <key>*
     scalar ::= b:0|1  i:<int>  f:<p/q>  c:<p/q>,<p/q>  s:<chars>
  reply:  `<sparse trace> || <dense trace>`; a trace is ` | `-separated records `<obs>;<container size>;<len(attr)|->`
     obs ::= - | S <scalar> | V <k> <scalar>* | A <rows> <k> <scalar>* | err:<Kind>
-/
namespace Mouette.DriveC05
open Mouette.Proto Mouette.Attr

def parseTy : String → Option Ty
  | "bool" => some .bool | "int" => some .int | "float" => some .float | "complex" => some .complex
  | "str" => some .str | _ => none

def parseScalar (t : String) : Option Scalar :=
  let body := (t.drop 2).toString
  if t.startsWith "b:" then (if body = "1" then some (.b true) else if body = "0" then some (.b false) else none)
  else if t.startsWith "i:" then body.toInt?.map .i
  else if t.startsWith "f:" then (parseRat body).map .f
  else if t.startsWith "c:" then
    match body.splitOn "," with
    | [re, im] => do let a ← parseRat re; let b ← parseRat im; pure (.c a b)
    | _ => none
  else if t.startsWith "s:" then some (.s body)
  else none

def scalar : P Scalar := do let t ← tok; match parseScalar t with | some x => pure x | none => failure
def ty : P Ty := do let t ← tok; match parseTy t with | some x => pure x | none => failure

def op : P Op := do
  let k ← tok
  match k with
  | "create" => do
      let t ← ty; let k ← nat; let d ← tok
      if d = "N" then pure (.create t k none) else
        match parseScalar d with | some x => pure (.create t k (some x)) | none => failure
  | "delete" => pure .delete
  | "cclear" => pure .cclear
  | "set" => do
      let i ← int; let sh ← tok
      if sh = "S" then do let x ← scalar; pure (.set i (.sc x))
      else if sh = "V" then do let l ← listOf scalar; pure (.set i (.vec l))
      else failure
  | "get" => do let i ← int; pure (.get i)
  | "mut" => do let i ← int; let c ← nat; let x ← scalar; pure (.upd i c x)
  | "append" => pure .append
  | "extl" => do let n ← nat; pure (.extendList n)
  | "extc" => do let n ← nat; pure (.extendCont n)
  | "exts" => pure .extendSelf
  | "clear" => pure .clear
  | "arr" => pure .asArray
  | _ => failure

def inVal : P InVal := do
  let sh ← tok
  if sh = "S" then do let x ← scalar; pure (.sc x)
  else if sh = "V" then do let l ← listOf scalar; pure (.vec l)
  else failure

/-- extended operations; everything else is a base operation -/
def op2 : P Op2 := fun ts =>
  match ts with
  | "hold" :: r => (do let i ← int; pure (Op2.hold i) : P Op2) r
  | "muth" :: r => (do let h ← nat; let c ← nat; let x ← scalar; pure (Op2.updH h c x) : P Op2) r
  | "setfr" :: r => (do let i ← int; let j ← int; pure (Op2.setFromRead i j) : P Op2) r
  | "setsh" :: r => (do let v ← inVal; let keys ← listOf int; pure (Op2.setShared v keys) : P Op2) r
  | _ => (do let o ← op; pure (Op2.base o) : P Op2) ts

def fmtScalar : Scalar → String
  | .b v => if v then "b:1" else "b:0"
  | .i v => s!"i:{v}"
  | .f v => s!"f:{fmtRat v}"
  | .c re im => s!"c:{fmtRat re},{fmtRat im}"
  | .s v => s!"s:{v}"

def fmtErr : Err → String
  | .oob => "err:OutOfBounds" | .index => "err:Index" | .type => "err:Type" | .size => "err:Size"
  | .value => "err:Value" | .typeError => "err:Other(TypeError)" | .dfltType => "err:DefaultType"
  | .noAttr => "err:Other(Exception)"

def fmtObs (k : Nat) : Obs → String
  | .ok => "-"
  | .val v => if k = 1 then s!"S {fmtScalar (v.getD 0 (.s "?"))}" else "V " ++ fmtList fmtScalar v
  | .arr rows => " ".intercalate (["A", toString rows.length, toString k] ++ (rows.flatten.map fmtScalar))
  | .err e => fmtErr e

def record (before : State) (o : Obs) (after : State) : String :=
  -- the arity used for printing is the one of the attribute the operation was applied to
  let k := match before.attr, after.attr with
    | some a, _ => a.k
    | none, some a => a.k
    | none, none => 1
  let ln := match after.attr with | some a => toString (attrLen a) | none => "-"
  s!"{fmtObs k o};{after.size};{ln}"

def trace (dense : Bool) (n0 : Nat) (ops : List Op2) : String :=
  let (_, out) := ops.foldl (fun (acc : State2 × List String) op =>
    let (s', o) := step2 dense acc.1 op
    (s', acc.2 ++ [record acc.1.st o s'.st])) (init2 n0, [])
  " | ".intercalate out

/-! round 3: `multi <n0> <K> <nops> (on <a> <op> | cont <op>)*` — several attributes on one container; record:
`<obs>;<container size>;<len(attr 0)|->,<len(attr 1)|->,…` -/
def opM : P OpM := fun ts =>
  match ts with
  | "on" :: r => (do let a ← nat; let o ← op; pure (OpM.on a o) : P OpM) r
  | "cont" :: r => (do let o ← op; pure (OpM.cont o) : P OpM) r
  | _ => none

def recordM (before : StateM) (o : OpM) (obs : Obs) (after : StateM) : String :=
  let k := match o with
    | .on a _ => (match (before.sts[a]?.bind (·.attr)), (after.sts[a]?.bind (·.attr)) with
        | some x, _ => x.k
        | none, some x => x.k
        | none, none => 1)
    | .cont _ => 1
  let size := match after.sts with | st :: _ => st.size | [] => 0
  let lens := ",".intercalate (after.sts.map (fun st => match st.attr with | some a => toString (attrLen a) | none => "-"))
  s!"{fmtObs k obs};{size};{lens}"

def traceM (n0 K : Nat) (ops : List OpM) : String :=
  let (_, out) := ops.foldl (fun (acc : StateM × List String) o =>
    let (s', obs) := stepM acc.1 o
    (s', acc.2 ++ [recordM acc.1 o obs s'])) (initM n0 K, [])
  " | ".intercalate out

def handleMulti (ts : List String) : Option String :=
  (runP (do let n0 ← nat; let k ← nat; let ops ← listOf opM; pure (n0, k, ops)) ts).map (fun (n0, k, ops) => traceM n0 k ops)

def handle (ts : List String) : Option String :=
  match ts with
  | "multi" :: r => handleMulti r
  | _ =>
    (runP (do let n0 ← nat; let ops ← listOf op2; pure (n0, ops)) ts).map
      (fun (n0, ops) => trace false n0 ops ++ " || " ++ trace true n0 ops)

end Mouette.DriveC05
