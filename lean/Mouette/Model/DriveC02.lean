import Mouette.Model.Proto
import Mouette.Model.Prepare
import Mouette.Lemmas.C02Rows
import Mouette.Lemmas.C02Histories
/-
Protocol front-end for C02.
  `prep <ce> <cf> <raw|arrays> <inst|direct> <k|N> <once|twice|reprep|rewrap|rewrapinst>
        V <n> (<len> <rat>*)*  E <n> (<a> <b>)*  A <k> (<name> <s|d> <dflt|N> <n> (<i> <v>)*)*
        F <n> (<len> <v>*)*  C <n> (<len> <v>*)*`
        after the build token: `all | numpy | none` = for which uniform row container types the row-typed model
        `prepareR` (Lemmas/C02Rows) reports the container type of every stored row of the first build
  reply: `cls:<Class>;V:…;E:…;A:…;F:…;FC:…;C:…;CC:…;CF:…` (sections the class has) or an `err:` token, followed by
         `;K:<kind>=E<l|t|n per edge>F<… per face>C<… per cell>,…` (or `K:-`).
-/
namespace Mouette.DriveC02
open Mouette.Proto Mouette.Prepare

def expect (s : String) : P Unit := do let t ← tok; if t = s then pure () else failure

def optInt : P (Option Int) := do
  let t ← tok
  if t = "N" then pure none else match t.toInt? with | some n => pure (some n) | none => failure

structure AttrIn where
  name : String
  dense : Bool
  dflt : Option Int
  items : List (Nat × Int)

def attrIn : P AttrIn := do
  let name ← tok
  let k ← tok
  let d ← optInt
  let items ← listOf (do let i ← nat; let v ← int; pure (i, v))
  if k = "d" then pure ⟨name, true, d, items⟩ else if k = "s" then pure ⟨name, false, d, items⟩ else failure

def mkAttr (nE : Nat) (a : AttrIn) : Attr :=
  let dv := a.dflt.getD 0
  if a.dense then
    { name := a.name, dflt := dv, st := .dense ((List.range nE).map (fun i => (lookup a.items i).getD dv)) }
  else { name := a.name, dflt := dv, st := .sparse a.items }

structure Req where
  cfg : Cfg
  arrays : Bool
  inst : Bool
  k : Option Nat
  build : String
  kinds : String
  verts : List (List Rat)
  edges : List (Int × Int)
  attrs : List AttrIn
  faces : List (List Nat)
  cells : List (List Nat)
  -- second phase of the `append` history: switches of the second construction, appended elements
  cfg2 : Cfg := {}
  v2 : List (List Rat) := []
  e2 : List (Int × Int) := []
  f2 : List (List Nat) := []
  c2 : List (List Nat) := []

def phase2 : P (Cfg × List (List Rat) × List (Int × Int) × List (List Nat) × List (List Nat)) := do
  expect "P"
  let ce ← bool
  let cf ← bool
  expect "V"; let v ← listOf (listOf rat)
  expect "E"; let e ← listOf (do let a ← int; let b ← int; pure (a, b))
  expect "F"; let f ← listOf (listOf nat)
  expect "C"; let c ← listOf (listOf nat)
  pure (⟨ce, cf⟩, v, e, f, c)

def req : P Req := do
  let ce ← bool
  let cf ← bool
  let via ← tok
  let kind ← tok
  let k ← optNat
  let build ← tok
  let kinds ← tok
  expect "V"; let verts ← listOf (listOf rat)
  expect "E"; let edges ← listOf (do let a ← int; let b ← int; pure (a, b))
  expect "A"; let attrs ← listOf attrIn
  expect "F"; let faces ← listOf (listOf nat)
  expect "C"; let cells ← listOf (listOf nat)
  let (cfg2, v2, e2, f2, c2) ← if build = "append" then phase2 else pure (({} : Cfg), [], [], [], [])
  if (via = "raw" || via = "arrays") && (kind = "inst" || kind = "direct") then
    pure ⟨⟨ce, cf⟩, via = "arrays", kind = "inst", k, build, kinds, verts, edges, attrs, faces, cells, cfg2, v2, e2, f2, c2⟩
  else failure

def className : Nat → String
  | 0 => "PointCloud" | 1 => "PolyLine" | 2 => "SurfaceMesh" | _ => "VolumeMesh"

def fmtAttr (a : Attr) : String :=
  match a.st with
  | .dense v => s!"{a.name} d {a.dflt} {fmtInts v}"
  | .sparse d =>
    let d' := d.mergeSort (fun x y => decide (x.1 ≤ y.1))
    s!"{a.name} s {a.dflt} " ++ " ".intercalate (toString d'.length :: d'.map (fun kv => s!"{kv.1} {kv.2}"))

def fmtBuilt (b : Built) : String :=
  let r := b.raw
  let secs := [s!"cls:{className b.dim}",
    "V:" ++ " ".intercalate (toString r.verts.length :: r.verts.map fmtRats)]
  let secs := if 1 ≤ b.dim then
      let as := r.eattrs.mergeSort (fun x y => decide (x.name ≤ y.name))
      secs ++ ["E:" ++ " ".intercalate (toString r.edges.length :: r.edges.map (fun e => s!"{e.1} {e.2}")),
               "A:" ++ " ".intercalate (toString as.length :: as.map fmtAttr)]
    else secs
  let secs := if 2 ≤ b.dim then
      secs ++ ["F:" ++ " ".intercalate (toString r.faces.length :: r.faces.map fmtNats),
               "FC:" ++ fmtNats r.fcElem ++ " " ++ fmtNats r.fcAdj]
    else secs
  let secs := if 3 ≤ b.dim then
      secs ++ ["C:" ++ " ".intercalate (toString r.cells.length :: r.cells.map fmtNats),
               "CC:" ++ fmtNats r.ccElem ++ " " ++ fmtNats r.ccAdj,
               "CF:" ++ fmtNats r.cfElem ++ " " ++ fmtNats r.cfAdj]
    else secs
  ";".intercalate secs

def construct (q : Req) (r : Raw) : Except String Built :=
  if q.inst then instantiate q.cfg r q.k else direct q.cfg r (q.k.getD 0)

def run (q : Req) : Except String Built := do
  let r0 ← if q.arrays then fromArrays q.verts q.edges q.faces q.cells
           else pure { verts := q.verts, edges := q.edges, faces := q.faces, cells := q.cells }
  let r0 := { r0 with eattrs := q.attrs.map (mkAttr q.edges.length) }
  let b1 ← construct q r0
  match q.build with
  | "once" => pure b1
  | "twice" => construct q b1.raw
  | "reprep" => do let p ← prepare q.cfg b1.raw; pure ⟨b1.dim, p⟩
  | "rewrap" => direct q.cfg (rewrap b1) b1.dim
  | "rewrapinst" => instantiate q.cfg (rewrap b1) (some b1.dim)
  | "two:0" => direct q.cfg b1.raw 0
  | "two:1" => direct q.cfg b1.raw 1
  | "two:2" => direct q.cfg b1.raw 2
  | "two:3" => direct q.cfg b1.raw 3
  | "append" => direct q.cfg2 (appendElems b1 q.v2 q.e2 q.f2 q.c2) b1.dim
  | "saveload:obj" => instantiate q.cfg (saveLoadView true q.cfg b1) none
  | "saveload:mesh" => instantiate q.cfg (saveLoadView false q.cfg b1) none
  | _ => .error "bad-request"

/-- the raw data handed to `prepare` (before the first build), with its attributes -/
def raw0 (q : Req) : Except String Raw := do
  let r0 ← if q.arrays then fromArrays q.verts q.edges q.faces q.cells
           else pure { verts := q.verts, edges := q.edges, faces := q.faces, cells := q.cells }
  pure { r0 with eattrs := q.attrs.map (mkAttr q.edges.length) }

def mkRow {β : Type} (k : String) (v : β) : Row β :=
  if k = "tuple" then .tuple v else if k = "numpy" then .nparray v else .list v

def kindChar {β : Type} : Row β → String
  | .list _ => "l" | .tuple _ => "t" | .nparray _ => "n"

/-- container types of the stored rows of the first build when every input row has container type `k`
(row-typed model `prepareR`); only the containers the class has -/
def kindsOf (q : Req) (k : String) : String :=
  match raw0 q with
  | .error e => e
  | .ok r0 =>
    match construct q r0 with
    | .error e => e
    | .ok b1 =>
      let x0 : RawR := { verts := r0.verts, edges := r0.edges.map (mkRow k), eattrs := r0.eattrs,
                         faces := r0.faces.map (mkRow k), cells := r0.cells.map (mkRow k) }
      match prepareR q.cfg x0 with
      | .error e => e
      | .ok y =>
        "E" ++ (if 1 ≤ b1.dim then String.join (y.edges.map kindChar) else "-") ++
        "F" ++ (if 2 ≤ b1.dim then String.join (y.faces.map kindChar) else "-") ++
        "C" ++ (if 3 ≤ b1.dim then String.join (y.cells.map kindChar) else "-")

def kindSection (q : Req) : String :=
  let ks := if q.kinds = "all" then ["list", "tuple", "numpy"] else if q.kinds = "numpy" then ["numpy"] else []
  if ks.isEmpty then "K:-" else "K:" ++ ",".intercalate (ks.map (fun k => k ++ "=" ++ kindsOf q k))

def handle (ts : List String) : Option String :=
  match ts with
  | "prep" :: r => (runP req r).map (fun q =>
      (match run q with | .ok b => fmtBuilt b | .error e => e) ++ ";" ++ kindSection q)
  | _ => none

end Mouette.DriveC02
