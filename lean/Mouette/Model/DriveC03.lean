import Mouette.Model.Proto
import Mouette.Model.Volume
import Mouette.Model.VolLazy
import Mouette.Generated.C03
/-
Protocol front-end for C03.

`vol <sorted:0|1> <nV> (x y z)* <edges: LL> <faces: LL> <cells: LL> <pairs: LL> <cf: LL> <cv: LL>`
   (`LL` = length-prefixed list of length-prefixed lists of naturals; coordinates are `p/q`)
   reply: sections `NAME payload` joined by ` ; ` — raw model answers in the code's own order; the
   Python comparator canonicalises both sides (sets sorted, rings up to rotation/reversal …).

`lazy <n> (q_1 … q_n)`  a history of accessor names / `clear` on a fresh volume connectivity, run
   through the guard-table state machine built from the *translated* table
   (`Generated.C03.volumeGuards`); reply: per step `ok` / `err:Attribute` / `err:NoneRead`.
-/
namespace Mouette.DriveC03
open Mouette.Proto Mouette.Vol

def pt : P Pt := do let x ← rat; let y ← rat; let z ← rat; pure ⟨x, y, z⟩
def ll : P (List (List Nat)) := listOf (listOf nat)

def fmtLL (l : List (List Nat)) : String := " ".intercalate (toString l.length :: l.map fmtNats)
def fmtOptList : Option (List Nat) → String | none => "E" | some l => fmtNats l
def fmtOL (l : List (Option (List Nat))) : String := " ".intercalate (toString l.length :: l.map fmtOptList)
def fmtON (l : List (Option Nat)) : String := " ".intercalate (toString l.length :: l.map fmtOptNat)

def pair2 (l : List Nat) : Nat × Nat := (l.getD 0 0, l.getD 1 0)

def volReply (sorted : Bool) (m : Mesh) (pairs cf cv : List (List Nat)) : String :=
  let k := m.conn
  let ecf := (List.range m.nE).map (k.edgeToCellFace sorted)
  let rE := m.raisesEdgeRaw || ecf.any Option.isNone
  let bf := k.boundaryFaces
  let bvl := k.boundaryVertexList
  let v2c := (buckets m.nV m.v2cPairs).map List.eraseDups
  let secs : List String := [
    s!"wf {fmtBool m.conforming} {fmtBool m.nondegenerate}",
    s!"raises {fmtBool m.raisesCellAdj} {fmtBool m.raisesAdjacentCell} {fmtBool m.raisesVertexToCell} {fmtBool rE}",
    "F2C " ++ fmtLL ((List.range m.nF).map k.faceToCells),
    "C2F " ++ fmtLL ((List.range m.nC).map m.cellToFace),
    "C2C " ++ fmtLL ((List.range m.nC).map k.cellToCell),
    "V2C " ++ fmtLL v2c,
    "E2C " ++ (if rE then "err" else fmtOL (ecf.map (·.map (·.1)))),
    "E2F " ++ (if rE then "err" else fmtOL (ecf.map (·.map (·.2)))),
    "C2E " ++ (if rE then "err" else fmtLL ((List.range m.nC).map m.cellToEdge)),
    "OFS " ++ fmtLL ((List.range m.nC).map fun c => (m.cellToFace c).map fun f =>
                (k.otherFaceSide c f).getD m.nC),
    "BF " ++ fmtNats bf, "IF " ++ fmtNats k.interiorFaces,
    "BV " ++ fmtNats k.boundaryVertices, "IV " ++ fmtNats k.interiorVertices,
    "BE " ++ (if rE then "err" else fmtNats k.boundaryEdges),
    "IE " ++ (if rE then "err" else fmtNats k.interiorEdges),
    "BS " ++ fmtOL k.boundarySurface,
    "BVL " ++ fmtNats bvl,
    "VM " ++ fmtNats (bvl.map fun v =>
                if (Conn.enumM2B bvl v).bind (Conn.enumB2M bvl) == some v then 1 else 0),
    "FM " ++ fmtNats (bf.map fun f =>
                if (Conn.enumM2B bf f).bind (Conn.enumB2M bf) == some f then 1 else 0),
    "EM " ++ (if rE then "err" else fmtNats (k.edgeMapRoundTrip.map fun b => if b then 1 else 0)),
    "NBE " ++ toString k.boundarySurfaceEdges.length,
    "CF " ++ fmtON (pairs.map fun p => m.commonFace (pair2 p).1 (pair2 p).2),
    "ICF " ++ fmtON (cf.map fun p => m.inCellFaceIndex (pair2 p).1 (pair2 p).2),
    "ICI " ++ fmtON (cv.map fun p => m.inCellIndex (pair2 p).1 (pair2 p).2),
    "DET " ++ fmtInts ((List.range m.nC).map fun c =>
                let d := m.cellDet c; if d > 0 then 1 else if d < 0 then -1 else 0)
  ]
  " ; ".intercalate secs

def volReq : P String := do
  let sorted ← bool
  let verts ← listOf pt
  let edges ← ll
  let faces ← ll
  let cells ← ll
  let pairs ← ll
  let cf ← ll
  let cv ← ll
  pure (volReply sorted ⟨verts, edges, faces, cells⟩ pairs cf cv)

open Mouette in
/-- a history over two independent objects (the connectivity and the mesh-level caches): names prefixed `mesh.`
go to the second machine -/
def runNames2 (tc tm : VolLazy.Table) (qs : List String) : List String :=
  let step := fun (acc : VolLazy.State × VolLazy.State × List String) (q : String) =>
    if q.startsWith "mesh." then
      let i := tm.methodNames.idxOf (q.drop 5).toString
      if tm.alphabet.contains i then
        let r := tm.stepQ acc.2.1 i
        (acc.1, r.1, acc.2.2 ++ [VolLazy.fmtOutcome r.2])
      else (acc.1, acc.2.1, acc.2.2 ++ ["bad-name"])
    else
      let i := tc.methodNames.idxOf q
      if tc.alphabet.contains i then
        let r := tc.stepQ acc.1 i
        (r.1, acc.2.1, acc.2.2 ++ [VolLazy.fmtOutcome r.2])
      else (acc.1, acc.2.1, acc.2.2 ++ ["bad-name"])
  (qs.foldl step (tc.fresh.1, tm.fresh.1, [])).2.2


def lazyReq : P String := do
  let qs ← listOf tok
  pure (" ".intercalate (runNames2 Mouette.Generated.C03.volumeGuards Mouette.Generated.C03.meshGuards qs))

def handle (ts : List String) : Option String :=
  match ts with
  | "vol" :: r => runP volReq r
  | "lazy" :: r => runP lazyReq r
  | _ => none

end Mouette.DriveC03
