import Mouette.Lemmas.C19Sampling
import Mouette.Lemmas.C19Bezier
import Mouette.Lemmas.C19Bernstein
import Mouette.Generated.C19Surf
import Mouette.Generated.C19Poly
import Mouette.Generated.C19Ball
import Mouette.Generated.C19Box
/-
C19 — samplers stay on their domain; Bézier evaluation matches the Bernstein form.

Theorems about `Model/Sampling.lean` and `Model/Bezier.lean`, for ALL draws / boxes / dimensions / control
lists / sample counts, and bridge lemmas to the fragments re-extracted from the source on every run
(`Generated/C19*.lean`). Irrational functions (`norm`, `cbrt`, `sqrt`) are parameters with a hypothesis.
Not covered by a theorem (trusted base / correspondence only): the distribution of numpy's generators,
float rounding, the glue around the modelled statements (mesh containers, attribute plumbing).
-/
namespace Mouette.Props.C19
open Mouette.Sampling Mouette.Bezier Mouette.Lemmas.C19 Finset

/-! ## sample_AABB -/

/-- the guard `box.is_empty()` guarantees the hypothesis `BoxLE` of the containment theorems -/
theorem box_guard_gives_BoxLE (lo hi : List Rat) (hl : lo.length = hi.length) (h : boxEmpty lo hi = false) :
    BoxLE lo hi := boxEmpty_false_boxLE lo hi hl h

/-- uniform mode: for every box of every dimension and every row of draws in `[0,1)`, the point is in the box -/
theorem box_uniform_contained (lo hi : List Rat) (us : List (List Rat)) (hb : BoxLE lo hi)
    (hu : ∀ u ∈ us, u.length = lo.length ∧ ∀ x ∈ u, 0 ≤ x ∧ x < 1) :
    ∀ p ∈ aabbUniform lo hi us, InBox lo hi p := by
  intro p hp
  obtain ⟨u, hu', rfl⟩ := List.mem_map.mp hp
  obtain ⟨h1, h2⟩ := hu u hu'
  exact boxMap_inBox lo hi u hb h1 (fun x hx => ⟨(h2 x hx).1, le_of_lt (h2 x hx).2⟩)

/-- grid mode (repaired code): every grid point is in the box, for every box, dimension and resolution -/
theorem box_grid_contained (lo hi : List Rat) (res : Nat) (hb : BoxLE lo hi) :
    ∀ p ∈ aabbGrid lo hi res, InBox lo hi p := by
  intro p hp
  obtain ⟨x, hx, rfl⟩ := List.mem_map.mp hp
  obtain ⟨h1, h2⟩ := unitGrid_mem lo.length res x hx
  exact boxMap_inBox lo hi x hb h1 h2

/-- grid mode returns `res^d` points (`res = round(n^(1/d))` is an input of the model) -/
theorem box_grid_count (lo hi : List Rat) (res : Nat) : (aabbGrid lo hi res).length = res ^ lo.length := by
  simp [aabbGrid, unitGrid, digitTuples_length]

/-- uniform mode returns one point per row of draws -/
theorem box_uniform_count (lo hi : List Rat) (us : List (List Rat)) : (aabbUniform lo hi us).length = us.length := by
  simp [aabbUniform]

/-- the grid spans the whole box: for `res ≥ 2` the first/last axis values are mapped to `mini`/`maxi` -/
theorem box_grid_spans (lo hi : Rat) (res : Nat) (h : 2 ≤ res) :
    boxCoord lo hi (Sampling.linspace01 res 0) = lo ∧ boxCoord lo hi (Sampling.linspace01 res (res - 1)) = hi := by
  have h1 : ¬ res ≤ 1 := by omega
  have hpos : ((res - 1 : Nat) : Rat) ≠ 0 := by
    have : (1 : Nat) ≤ res - 1 := by omega
    have : (0 : Rat) < ((res - 1 : Nat) : Rat) := by exact_mod_cast this
    exact ne_of_gt this
  simp only [Sampling.linspace01, h1, if_false, boxCoord]
  constructor
  · simp
  · rw [div_self hpos]; ring

/-- REFUTED for the pinned tree (grid mode without the affine map): box `[2,3]`, `res = 2` -/
theorem pinned_grid_law_refuted :
    ¬ (∀ p ∈ aabbGridPinned [2] [3] 2, InBox [2] [3] p) := by
  intro h
  have hm : [(0 : Rat)] ∈ aabbGridPinned [2] [3] 2 := by decide +kernel
  have := h [0] hm
  norm_num [InBox] at this

/-! ## sample_sphere / sample_ball -/

/-- every sphere sample is at squared distance `r²` of the centre, given `s = |g| ≠ 0` -/
theorem sphere_on_sphere (c g : Rat × Rat × Rat) (r s : Rat) (hs : s * s = normSq3 g) (h0 : s ≠ 0) :
    normSq3 (sub3 (spherePoint c r g s) c) = r * r := by
  obtain ⟨c1, c2, c3⟩ := c
  obtain ⟨g1, g2, g3⟩ := g
  simp only [normSq3, dot3, sub3, spherePoint, sphereCoord] at hs ⊢
  field_simp
  linear_combination (r ^ 2) * hs.symm

/-- a recorded cube root of a number of `[0,1]` lies in `[0,1]` -/
theorem cbrt_unit_interval {cb u : Rat} (h : cb * cb * cb = u) (h0 : 0 ≤ u) (h1 : u ≤ 1) : 0 ≤ cb ∧ cb ≤ 1 :=
  cbrt_unit h h0 h1

/-- every ball sample (law `r·∛u`, `0 ≤ u ≤ 1`) is within `r` of the centre: `|p-c|² ≤ r²`, any radius, any centre -/
theorem ball_in_ball (c g : Rat × Rat × Rat) (r s u cb : Rat) (hs : s * s = normSq3 g) (h0 : s ≠ 0)
    (hc : cb * cb * cb = u) (hu0 : 0 ≤ u) (hu1 : u ≤ 1) :
    normSq3 (sub3 (ballPoint c r g s cb) c) ≤ r * r := by
  obtain ⟨hc0, hc1⟩ := cbrt_unit hc hu0 hu1
  obtain ⟨c1, c2, c3⟩ := c
  obtain ⟨g1, g2, g3⟩ := g
  have key : normSq3 (sub3 (ballPoint (c1, c2, c3) r (g1, g2, g3) s cb) (c1, c2, c3)) = (r * cb) * (r * cb) := by
    simp only [normSq3, dot3, sub3, ballPoint, ballCoord] at hs ⊢
    field_simp
    linear_combination (r ^ 2 * cb ^ 2) * hs.symm
  rw [key]
  have : cb * cb ≤ 1 := by nlinarith
  nlinarith [mul_nonneg (mul_self_nonneg r) (sub_nonneg.mpr this)]

/-- … and the boundary is reached exactly when `∛u = 1` (the law covers the whole ball) -/
theorem ball_reaches_boundary (c g : Rat × Rat × Rat) (r s : Rat) (hs : s * s = normSq3 g) (h0 : s ≠ 0) :
    normSq3 (sub3 (ballPoint c r g s 1) c) = r * r := by
  obtain ⟨c1, c2, c3⟩ := c
  obtain ⟨g1, g2, g3⟩ := g
  simp only [normSq3, dot3, sub3, ballPoint, ballCoord] at hs ⊢
  field_simp
  linear_combination (r ^ 2) * hs.symm

/-- REFUTED for the pinned radial law `∛(uniform(0,r))`: `r = 1/8`, draw `u = 1/8`, `∛(r·u) = 1/4`, direction `(1,0,0)` -/
theorem pinned_ball_law_refuted :
    ((1 : Rat) / 4) * (1 / 4) * (1 / 4) = (1 / 8) * (1 / 8) ∧
    ¬ (normSq3 (sub3 (ballCoordPinned 0 1 1 (1 / 4), ballCoordPinned 0 0 1 (1 / 4), ballCoordPinned 0 0 1 (1 / 4)) (0, 0, 0))
        ≤ (1 / 8 : Rat) * (1 / 8)) := by
  constructor
  · norm_num
  · norm_num [normSq3, dot3, sub3, ballCoordPinned]

/-! ## probabilities handed to numpy.random.choice -/

theorem probs_sum_one (w : List Rat) (h : total w ≠ 0) : total (probs w) = 1 := by
  unfold probs
  rw [total_map_div, div_self h]

theorem probs_nonneg (w : List Rat) (h : ∀ x ∈ w, 0 ≤ x) : ∀ p ∈ probs w, 0 ≤ p := by
  intro p hp
  obtain ⟨x, hx, rfl⟩ := List.mem_map.mp hp
  exact div_nonneg (h x hx) (total_nonneg w h)

/-- `p_i · Σw = w_i`: the vector is proportional to the lengths / areas -/
theorem probs_proportional (w : List Rat) (h : total w ≠ 0) (i : Nat) :
    (probs w)[i]? = (w[i]?).map (fun x => x / total w) ∧
    ∀ p x, (probs w)[i]? = some p → w[i]? = some x → p * total w = x := by
  have h1 : (probs w)[i]? = (w[i]?).map (fun x => x / total w) := by simp [probs]
  refine ⟨h1, ?_⟩
  intro p x hp hx
  rw [h1, hx] at hp
  simp only [Option.map_some, Option.some.injEq] at hp
  rw [← hp, div_mul_cancel₀ _ h]

/-! ## sample_polyline / sample_surface -/

/-- for every `t ∈ [0,1]` the sampled point lies on the chosen edge -/
theorem polyline_point_on_edge (t : Rat) (A B : Pt) (h0 : 0 ≤ t) (h1 : t ≤ 1) (hl : A.length = B.length) :
    OnSegment A B (segPoint t A B) :=
  ⟨t, h0, h1, segPoint_eq t A B hl⟩

/-- for all draws `u1, u2 ∈ [0,1]` (with `sq = √u1`) the sampled point is a convex combination of the
corners of the chosen face: barycentric weights `(√u1(1-u2), 1-√u1, u2√u1)`, all `≥ 0`, sum `1` -/
theorem surface_point_barycentric (sq u1 u2 : Rat) (A B C : Pt) (hs : sq * sq = u1) (hs0 : 0 ≤ sq)
    (hu1 : u1 ≤ 1) (h20 : 0 ≤ u2) (h21 : u2 ≤ 1) :
    InTriangle A B C (triPoint sq u2 A B C) := by
  have hs1 : sq ≤ 1 := sqrt_unit hs hs0 hu1
  refine ⟨sq * (1 - u2), 1 - sq, u2 * sq, ?_, ?_, ?_, ?_, triPoint_eq sq u2 A B C⟩
  · exact mul_nonneg hs0 (by linarith)
  · linarith
  · exact mul_nonneg h20 hs0
  · ring

/-- the normal attached to sample `i` is the normal of the face drawn for sample `i` -/
theorem sampled_normal_is_face_normal {α} (d : α) (normals : List α) (fs : List Nat) (i : Nat) :
    (sampledNormals d normals fs)[i]? = (fs[i]?).map (fun f => normals.getD f d) := by
  simp [sampledNormals]

/-- `cross(pB-pA, pC-pA)` is orthogonal to both edge vectors of the face -/
theorem face_normal_orthogonal (a b c : Rat × Rat × Rat) :
    dot3 (triCross a b c) (sub3 b a) = 0 ∧ dot3 (triCross a b c) (sub3 c a) = 0 := by
  obtain ⟨a1, a2, a3⟩ := a
  obtain ⟨b1, b2, b3⟩ := b
  obtain ⟨c1, c2, c3⟩ := c
  constructor <;> simp only [dot3, triCross, cross3, sub3] <;> ring

/-! ## Bézier evaluation -/

/-- the in-place double loop of `de_casteljau` (stale tail entries included) computes the textbook recursion -/
theorem deCasteljau_eq_deC (t : Rat) (P : List Rat) : deCasteljau t P = deC t (P.length - 1) P :=
  deCasteljau_eq_deC' t P

/-- **Bernstein form**: `de_casteljau(P,t) = Σ_{i=0}^{n} C(n,i) t^i (1-t)^(n-i) P_i`, every degree, every `t` -/
theorem deCasteljau_eq_bernstein (t : Rat) (P : List Rat) :
    deCasteljau t P = ∑ i ∈ range (P.length - 1 + 1), (((P.length - 1).choose i : Nat) : Rat) * t ^ i * (1 - t) ^ (P.length - 1 - i) * P.getD i 0 := by
  rw [deCasteljau_eq_bernsteinSum]
  rfl

/-- the same with Mathlib's `bernsteinPolynomial`: `de_casteljau(P,t) = Σ_i (bernsteinPolynomial ℚ n i)(t) · P_i` -/
theorem deCasteljau_eq_mathlib_bernstein (t : Rat) (P : List Rat) :
    deCasteljau t P = ∑ i ∈ range (P.length - 1 + 1), (bernsteinPolynomial ℚ (P.length - 1) i).eval t * P.getD i 0 := by
  rw [deCasteljau_eq_bernsteinSum]
  unfold bernsteinSum
  apply sum_congr rfl
  intro i _
  rw [bernstein_eq_mathlib]

/-- end-point interpolation at `t = 0` -/
theorem deCasteljau_zero (P : List Rat) : deCasteljau 0 P = P.getD 0 0 := by
  cases P with
  | nil => simp [deCasteljau, loop]
  | cons a P => rw [deCasteljau_eq_deC']; exact deC_zero _ _ (by simp)

/-- end-point interpolation at `t = 1` -/
theorem deCasteljau_one (P : List Rat) : deCasteljau 1 P = P.getD (P.length - 1) 0 := by
  cases P with
  | nil => simp [deCasteljau, loop]
  | cons a P => rw [deCasteljau_eq_deC']; exact deC_one _ _ (by simp)

/-- convex hull, part 1: Bernstein weights are non-negative on `[0,1]` -/
theorem bernstein_nonneg (n i : Nat) (t : Rat) (h0 : 0 ≤ t) (h1 : t ≤ 1) :
    0 ≤ ((n.choose i : Nat) : Rat) * t ^ i * (1 - t) ^ (n - i) := bernstein_nonneg' n i h0 h1

/-- convex hull, part 2: Bernstein weights sum to one (binomial theorem) -/
theorem bernstein_sum_one (n : Nat) (t : Rat) :
    ∑ i ∈ range (n + 1), ((n.choose i : Nat) : Rat) * t ^ i * (1 - t) ^ (n - i) = 1 := bernstein_sum_one' n t

/-- convex hull, consequence: on `[0,1]` the value stays between the extreme control values (apply it to any
linear functional of vector control points: de Casteljau is linear in `P`) -/
theorem deCasteljau_between (t lo hi : Rat) (P : List Rat) (h0 : 0 ≤ t) (h1 : t ≤ 1) (hne : P ≠ [])
    (hP : ∀ x ∈ P, lo ≤ x ∧ x ≤ hi) : lo ≤ deCasteljau t P ∧ deCasteljau t P ≤ hi :=
  deCasteljau_between' t lo hi P h0 h1 hne hP

/-- `BezierCurve.evaluate` (all coordinates): Bernstein form of every coordinate list -/
theorem curve_eq_bernstein (coords : List (List Rat)) (t : Rat) (h0 : 0 ≤ t) (h1 : t ≤ 1) :
    evalCurve coords t = some (coords.map (fun P => bernsteinSum (P.length - 1) t P)) := by
  have : inRange t = true := by simp [inRange, h0, h1]
  simp only [evalCurve, this, if_true]
  congr 1
  apply List.map_congr_left
  intro P _
  exact deCasteljau_eq_bernsteinSum t P

/-- parameters outside `[0,1]` are rejected, parameters inside are accepted -/
theorem evaluate_rejects (t : Rat) (P : List Rat) (coords : List (List Rat)) :
    ((t < 0 ∨ 1 < t) → deCasteljau? t P = none ∧ evalCurve coords t = none) ∧
    ((0 ≤ t ∧ t ≤ 1) → deCasteljau? t P = some (deCasteljau t P) ∧ evalCurve coords t = some (coords.map (deCasteljau t))) := by
  constructor
  · intro h
    have : inRange t = false := by
      unfold inRange
      rcases h with h | h
      · simp [not_le.mpr h]
      · simp [not_le.mpr h]
    simp [deCasteljau?, evalCurve, this]
  · intro h
    have : inRange t = true := by simp [inRange, h.1, h.2]
    simp [deCasteljau?, evalCurve, this]

theorem patch_rejects (nets : List (List (List Rat))) (u v : Rat) (h : u < 0 ∨ 1 < u ∨ v < 0 ∨ 1 < v) :
    evalPatch nets u v = none := by
  have : (inRange u && inRange v) = false := by
    unfold inRange
    rcases h with h | h | h | h <;> simp [not_le.mpr h]
  simp [evalPatch, this]

/-- tensor-product Bernstein form of `BezierPatch.evaluate(u,v)` (rows with `u`, then `v`) -/
theorem patch_eq_bernstein (rows : List (List Rat)) (u v : Rat) :
    evalPatch1 rows u v =
      ∑ i ∈ range (rows.length - 1 + 1), bernstein (rows.length - 1) i v *
        ∑ j ∈ range ((rows.getD i []).length - 1 + 1),
          bernstein ((rows.getD i []).length - 1) j u * (rows.getD i []).getD j 0 := by
  unfold evalPatch1
  rw [deCasteljau_eq_bernsteinSum, List.length_map]
  unfold bernsteinSum
  apply sum_congr rfl
  intro i _
  rw [getD_map_default (deCasteljau u) (deCasteljau_nil u), deCasteljau_eq_bernsteinSum]
  rfl

/-- corner interpolation of the patch -/
theorem patch_corner_00 (rows : List (List Rat)) : evalPatch1 rows 0 0 = (rows.getD 0 []).getD 0 0 := by
  unfold evalPatch1
  rw [deCasteljau_zero, getD_map_default (deCasteljau 0) (deCasteljau_nil 0), deCasteljau_zero]

theorem patch_corner_11 (rows : List (List Rat)) :
    evalPatch1 rows 1 1 = (rows.getD (rows.length - 1) []).getD ((rows.getD (rows.length - 1) []).length - 1) 0 := by
  unfold evalPatch1
  rw [deCasteljau_one, List.length_map, getD_map_default (deCasteljau 1) (deCasteljau_nil 1), deCasteljau_one]

/-! ## export index grids -/

/-- every index of every quad of `as_surface(n1,n2)` is a valid vertex index, for ALL `(n1,n2)` -/
theorem surface_indices_in_range (n1 n2 i j : Nat) (hi : i < n1 - 1) (hj : j < n2 - 1) :
    ∀ k ∈ quad n2 i j, k < n1 * n2 := quad_lt hi hj

theorem surface_faces_in_range (n1 n2 : Nat) : ∀ f ∈ surfFaces n1 n2, ∀ k ∈ f, k < n1 * n2 := by
  intro f hf
  simp only [surfFaces, List.mem_flatMap, List.mem_range, List.mem_map] at hf
  obtain ⟨i, hi, j, hj, rfl⟩ := hf
  exact quad_lt hi hj

/-- distinct grid positions have distinct vertex indices -/
theorem vertexIndex_injective (n2 i j i' j' : Nat) (hj : j < n2) (hj' : j' < n2)
    (h : vertexIndex n2 i j = vertexIndex n2 i' j') : i = i' ∧ j = j' := vertexIndex_inj hj hj' h

/-- grid consistency: the vertex stored at index `i*n2+j` is the one evaluated at `(U[i], V[j])`,
i.e. the `(i*n2+j)`-th iteration of the vertex loop nest is `(i,j)`; and there are `n1*n2` vertices -/
theorem gridPairs_index (n1 n2 i j : Nat) (hi : i < n1) (hj : j < n2) :
    (gridPairs n1 n2)[vertexIndex n2 i j]? = some (i, j) ∧ (gridPairs n1 n2).length = n1 * n2 :=
  ⟨gridPairs_getElem? n1 n2 i j hi hj, gridPairs_length n1 n2⟩

/-- hence the quad of cell `(i,j)` joins the vertices of grid positions (i,j),(i,j+1),(i+1,j+1),(i+1,j) -/
theorem quad_grid_consistent (n1 n2 i j : Nat) (hi : i < n1 - 1) (hj : j < n2 - 1) :
    (quad n2 i j).map (fun k => (gridPairs n1 n2)[k]?) =
      [some (i, j), some (i, j + 1), some (i + 1, j + 1), some (i + 1, j)] := by
  simp only [quad, List.map_cons, List.map_nil]
  rw [gridPairs_getElem? n1 n2 i j (by omega) (by omega), gridPairs_getElem? n1 n2 i (j + 1) (by omega) (by omega),
    gridPairs_getElem? n1 n2 (i + 1) (j + 1) (by omega) (by omega), gridPairs_getElem? n1 n2 (i + 1) j (by omega) (by omega)]

/-- REFUTED for the pinned tree (row stride `n1`): `as_surface(5,3)`, cell `(3,1)` has index 22 ≥ 15 -/
theorem pinned_surface_index_refuted : ¬ (∀ k ∈ quadPinned 5 3 1, k < 5 * 3) := by decide

/-- the exports never hit the range guard: every `linspace(0,1,n)[k]`, `k < n`, is an accepted parameter -/
theorem export_params_in_range (n k : Nat) (hk : k < n) : inRange (Bezier.linspace01 n k) = true := by
  have hm : 0 ≤ Bezier.linspace01 n k ∧ Bezier.linspace01 n k ≤ 1 := by
    have := linspace01_mem (res := n) (k := k) hk
    simpa [Bezier.linspace01, Sampling.linspace01] using this
  simp [inRange, hm.1, hm.2]

/-- `as_polyline`: the edges are the chain `(i,i+1)`, `i < npts-1`, all indices `< npts` -/
theorem polyline_indices_in_range (npts : Nat) :
    (polyEdges npts).length = npts - 1 ∧ (∀ e ∈ polyEdges npts, ∀ k ∈ e, k < npts) ∧
    ∀ i, i < npts - 1 → (polyEdges npts)[i]? = some [i, i + 1] := by
  refine ⟨by simp [polyEdges], ?_, ?_⟩
  · intro e he k hk
    simp only [polyEdges, List.mem_map, List.mem_range] at he
    obtain ⟨i, hi, rfl⟩ := he
    simp only [polyEdge, List.mem_cons, List.mem_nil_iff, or_false] at hk
    omega
  · intro i hi
    simp [polyEdges, polyEdge, hi]

/-! ## bridges: the fragments extracted from the source (`Generated/C19*.lean`) equal the model -/

theorem bridge_surfQuad (n1 n2 i j : Nat) : Mouette.Generated.C19.surfQuad n1 n2 i j = quad n2 i j := by
  simp only [Mouette.Generated.C19.surfQuad, quad, vertexIndex]
  first
    | rfl
    | (simp only [List.cons.injEq, and_true, true_and]; (repeat' constructor) <;> ring)

theorem bridge_surfRanges (n1 n2 : Nat) :
    Mouette.Generated.C19.surfVertRangeI n1 n2 = n1 ∧ Mouette.Generated.C19.surfVertRangeJ n1 n2 = n2 ∧
    Mouette.Generated.C19.surfFaceRangeI n1 n2 = n1 - 1 ∧ Mouette.Generated.C19.surfFaceRangeJ n1 n2 = n2 - 1 := by
  simp [Mouette.Generated.C19.surfVertRangeI, Mouette.Generated.C19.surfVertRangeJ,
    Mouette.Generated.C19.surfFaceRangeI, Mouette.Generated.C19.surfFaceRangeJ]

/-- the edge loop runs over all sampled positions (`len_points`), whatever `n_pts` -/
theorem bridge_polyEdge (n_pts len_points i : Nat) :
    Mouette.Generated.C19.polyEdgeRange n_pts len_points = len_points - 1 ∧
    Mouette.Generated.C19.polyEdge i = polyEdge i := by
  simp [Mouette.Generated.C19.polyEdgeRange, Mouette.Generated.C19.polyEdge, polyEdge]

/-- operation order of `sample_ball`: `(g/|g|) * (radius * cbrt(u)) + center` with `u` the unit uniform draw -/
theorem bridge_ballCoord (cbrt : Rat → Rat) (center radius g nrm u : Rat) :
    Mouette.Generated.C19.ballCoord cbrt center radius g nrm u = ballCoord center radius g nrm (cbrt u) := by
  simp only [Mouette.Generated.C19.ballCoord, ballCoord]
  first
    | rfl
    | (ring_nf; done)
    | (ring_nf; simp only [one_mul, mul_one, zero_add, add_zero, sub_zero]; ring_nf)

theorem bridge_aabbUniform (mini maxi x : Rat) :
    Mouette.Generated.C19.aabbUniformCoord mini maxi x = boxCoord mini maxi x := by
  simp only [Mouette.Generated.C19.aabbUniformCoord, Mouette.Generated.C19.span, boxCoord]
  try ring

theorem bridge_aabbGrid (mini maxi x : Rat) :
    Mouette.Generated.C19.aabbGridCoord mini maxi x = boxCoord mini maxi x := by
  simp only [Mouette.Generated.C19.aabbGridCoord, Mouette.Generated.C19.span, boxCoord]
  try ring

/-! ## the same statements, literally on the expressions extracted from the source -/

/-- `sample_ball` as written in the source: for ANY cube-root function (`cbrt x ^3 = x`), any centre, radius,
direction `g` with norm `nrm`, and draw `0 ≤ u ≤ 1`, the three returned coordinates are within `radius` of the centre -/
theorem ball_in_ball_source (cbrt : Rat → Rat) (hcb : ∀ x, cbrt x * cbrt x * cbrt x = x)
    (c g : Rat × Rat × Rat) (radius nrm u : Rat) (hs : nrm * nrm = normSq3 g) (h0 : nrm ≠ 0) (hu0 : 0 ≤ u) (hu1 : u ≤ 1) :
    normSq3 (sub3 (Mouette.Generated.C19.ballCoord cbrt c.1 radius g.1 nrm u,
                   Mouette.Generated.C19.ballCoord cbrt c.2.1 radius g.2.1 nrm u,
                   Mouette.Generated.C19.ballCoord cbrt c.2.2 radius g.2.2 nrm u) c) ≤ radius * radius := by
  simp only [bridge_ballCoord]
  exact ball_in_ball c g radius nrm u (cbrt u) hs h0 (hcb u) hu0 hu1

/-- `sample_AABB` as written in the source, both modes: a coordinate computed from `x ∈ [0,1]` stays in `[mini, maxi]` -/
theorem box_contained_source (mini maxi x : Rat) (h : mini ≤ maxi) (h0 : 0 ≤ x) (h1 : x ≤ 1) :
    (mini ≤ Mouette.Generated.C19.aabbUniformCoord mini maxi x ∧ Mouette.Generated.C19.aabbUniformCoord mini maxi x ≤ maxi) ∧
    (mini ≤ Mouette.Generated.C19.aabbGridCoord mini maxi x ∧ Mouette.Generated.C19.aabbGridCoord mini maxi x ≤ maxi) := by
  rw [bridge_aabbUniform, bridge_aabbGrid]
  exact ⟨boxCoord_mem h h0 h1, boxCoord_mem h h0 h1⟩

/-- `as_surface` as written in the source: inside the face loops every emitted index is below the number of
vertices appended by the vertex loops, for ALL `(n1,n2)` -/
theorem surface_indices_in_range_source (n1 n2 i j : Nat)
    (hi : i < Mouette.Generated.C19.surfFaceRangeI n1 n2) (hj : j < Mouette.Generated.C19.surfFaceRangeJ n1 n2) :
    ∀ k ∈ Mouette.Generated.C19.surfQuad n1 n2 i j,
      k < Mouette.Generated.C19.surfVertRangeI n1 n2 * Mouette.Generated.C19.surfVertRangeJ n1 n2 := by
  obtain ⟨e1, e2, e3, e4⟩ := bridge_surfRanges n1 n2
  rw [bridge_surfQuad, e1, e2]
  rw [e3] at hi; rw [e4] at hj
  exact quad_lt hi hj

/-- `as_polyline` as written in the source: every edge index is below the number of sampled positions -/
theorem polyline_indices_in_range_source (n_pts len_points i : Nat)
    (hi : i < Mouette.Generated.C19.polyEdgeRange n_pts len_points) :
    ∀ k ∈ Mouette.Generated.C19.polyEdge i, k < len_points := by
  obtain ⟨e1, e2⟩ := bridge_polyEdge n_pts len_points i
  rw [e1] at hi
  rw [e2]
  intro k hk
  simp only [polyEdge, List.mem_cons, List.mem_nil_iff, or_false] at hk
  omega

/-! ## non-vacuity: the hypotheses are satisfiable on concrete non-trivial data -/

example : BoxLE [2, 0, 0] [3, 3, 1] ∧ boxEmpty [2, 0, 0] [3, 3, 1] = false := by
  refine ⟨by norm_num [BoxLE], by decide +kernel⟩
example : aabbGrid [2, 0] [3, 3] 2 = [[2, 0], [3, 0], [2, 3], [3, 3]] := by decide +kernel
example : InBox [2, 0] [3, 3] [3, 0] := by norm_num [InBox]
-- sphere/ball hypotheses: g = (1,2,2), s = 3; u = 1/8, cbrt = 1/2
example : (3 : Rat) * 3 = normSq3 (1, 2, 2) ∧ (3 : Rat) ≠ 0 ∧ ((1 : Rat) / 2) * (1 / 2) * (1 / 2) = 1 / 8 := by
  norm_num [normSq3, dot3]
example : spherePoint (1, 2, 3) 2 (1, 2, 2) 3 = (5 / 3, 10 / 3, 13 / 3) := by norm_num [spherePoint, sphereCoord]
example : total [1, 2, 5] ≠ 0 ∧ probs [1, 2, 5] = [1 / 8, 1 / 4, 5 / 8] := by
  norm_num [total, probs]
example : segPoint (1 / 4) [1, 0, 0] [0, 1, 0] = [1 / 4, 3 / 4, 0] := by norm_num [segPoint, segCoord]
example : triPoint (1 / 2) (1 / 2) [0, 0] [1, 0] [0, 1] = [1 / 2, 1 / 4] := by norm_num [triPoint, triCoord]
example : deCasteljau (1 / 2) [0, 2, 1] = 5 / 4 := by norm_num [deCasteljau, loop, pass, lerp]
example : inRange (3 / 2) = false ∧ inRange (1 / 2) = true := by constructor <;> norm_num [inRange]
example : surfFaces 2 3 = [[0, 1, 4, 3], [1, 2, 5, 4]] := by decide
example : gridPairs 2 3 = [(0, 0), (0, 1), (0, 2), (1, 0), (1, 1), (1, 2)] := by decide
example : polyEdges 4 = [[0, 1], [1, 2], [2, 3]] := by decide

end Mouette.Props.C19
