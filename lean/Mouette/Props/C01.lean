import Mouette.Model.Surface
import Mouette.Model.Lazy
import Mouette.Model.DriveC01
import Mouette.Generated.C01Guards
import Mouette.Lemmas.Lazy
import Mouette.Lemmas.Surface
/-!
# C01 — surface connectivity answers agree with the face list; histories of lazy queries

Part 1 (histories).  Generic theorems about the lazy-cache machine of `Model/Lazy.lean`, then their
instance on the guard table that `vlib/props/c01.py` re-extracts from `surface.py`/`linear.py` on every
run (`Generated/C01Guards.lean`); the instance is decided by the kernel on that finite table.
-/
namespace Mouette.Props.C01
open Mouette.Lazy

/-- **Histories.** For every guard table that passes the decidable closure check, after EVERY finite
history of public calls on a freshly built object — whatever the uninterpreted conditions (`maybe`
events) evaluate to along the way: `run` is the set of all possible states — every public query
returns normally and its answer is the pure answer (no bound on the length of the history). -/
theorem lazy_history_independent {α} (pureAns : Nat → α) (tbl : Table) (h : WellGuarded tbl = true)
    (qs : List Nat) (hqs : ∀ q ∈ qs, q ∈ tbl.queries) (q : Nat) (hq : q ∈ tbl.queries) :
    answer pureAns tbl (run tbl qs) q = some (pureAns q) := by
  have hmem := run_mem_closed (wellGuarded_closed h) qs hqs
  have hg := stepSet_good (wellGuarded_closed h) hq (run tbl qs) hmem
  unfold answer
  have : (stepSet tbl (run tbl qs) q).bad = [] := List.eq_nil_iff_forall_not_mem.mpr hg.1
  rw [this]; rfl

/-- the answers do not depend on the order/history at all: two histories give the same answer -/
theorem lazy_order_independent {α} (pureAns : Nat → α) (tbl : Table) (h : WellGuarded tbl = true)
    (qs qs' : List Nat) (hqs : ∀ q ∈ qs, q ∈ tbl.queries) (hqs' : ∀ q ∈ qs', q ∈ tbl.queries)
    (q : Nat) (hq : q ∈ tbl.queries) :
    answer pureAns tbl (run tbl qs) q = answer pureAns tbl (run tbl qs') q := by
  rw [lazy_history_independent pureAns tbl h qs hqs q hq, lazy_history_independent pureAns tbl h qs' hqs' q hq]

/-- a query on a freshly built object never fails where the same query succeeds after other queries -/
theorem fresh_never_worse {α} (pureAns : Nat → α) (tbl : Table) (h : WellGuarded tbl = true)
    (qs : List Nat) (_hqs : ∀ q ∈ qs, q ∈ tbl.queries) (q : Nat) (hq : q ∈ tbl.queries)
    (_ : (answer pureAns tbl (run tbl qs) q).isSome) :
    (answer pureAns tbl (run tbl []) q).isSome := by
  rw [lazy_history_independent pureAns tbl h [] (by simp) q hq]; rfl

set_option maxRecDepth 100000 in
/-- the guard table translated from the CURRENT source is well guarded (finite table: `decide`) -/
theorem generated_table_wellguarded : WellGuarded Mouette.Generated.C01.table = true := by
  decide +kernel

/-- instance: every public method of `SurfaceMesh` / `SurfaceMesh.connectivity` (including `clear`
and `clear_boundary_data`), in every order and any number of times -/
theorem surface_history_independent {α} (pureAns : Nat → α) (qs : List Nat)
    (hqs : ∀ q ∈ qs, q ∈ Mouette.Generated.C01.table.queries) (q : Nat)
    (hq : q ∈ Mouette.Generated.C01.table.queries) :
    answer pureAns Mouette.Generated.C01.table (run Mouette.Generated.C01.table qs) q = some (pureAns q) :=
  lazy_history_independent pureAns _ generated_table_wellguarded qs hqs q hq

/-! non-vacuity and sensitivity of the check: a two-cache class `__init__: a=b=None`,
`compute: a=…; b=…`, `get_a: if a is None: compute(); read a`, `get_b: read b` (guard missing) -/
def miniBad : Table :=
  { ncaches := 2, bodies := [[(false, .reset 0), (false, .reset 1)], [(false, .write 0), (false, .write 1)],
      [(false, .test 0 [1]), (false, .read 0)], [(false, .read 1)]],
    init := [0], queries := [2, 3], fuel := 4, rounds := 4 }
def miniGood : Table :=
  { miniBad with bodies := [[(false, .reset 0), (false, .reset 1)], [(false, .write 0), (false, .write 1)],
      [(false, .test 0 [1]), (false, .read 0)], [(false, .test 1 [1]), (false, .read 1)]] }
/-- `get_a` fills the caches only under a condition (`if x: compute()`), `get_b` reads `b` unguarded
    after calling it: flattening would accept this, the set-valued semantics does not -/
def miniMaybe : Table :=
  { miniBad with bodies := [[(false, .reset 0), (false, .reset 1)], [(false, .write 0), (false, .write 1)],
      [(true, .call 1)], [(false, .call 2), (false, .read 1)]] }

example : WellGuarded miniGood = true := by decide
example : WellGuarded miniBad = false := by decide
example : WellGuarded miniMaybe = false := by decide
/-- the defect shape of the pinned `half_edge_to_corner`: fails fresh, succeeds after another query -/
example : answer id miniBad (run miniBad []) 3 = none ∧ answer id miniBad (run miniBad [2]) 3 = some 3 := by decide
example : Mouette.Generated.C01.table.queries.length > 30 := by decide


/-!
Part 2 (answers).  `build nv faces so` is the model of a prepared `SurfaceMesh` (`Model/Surface.lean`,
built like the code: half-edge dictionary filled face by face, last write wins, opposite pass).
The specification is direct inspection of the face list: `IsSide faces f i u v` says that `(u,v)` is the
`i`-th directed side of face `f`; corner `(f,i)` has id `offset faces f + i`.
Hypothesis `Oriented faces` (decidable): no directed side occurs twice.  Sizes are unbounded.
-/
section answers
open Mouette.Surface
variable {faces : Faces} (nv : Nat) (so : Bool)

/-- the `_half_edges` dictionary receives exactly one entry per (face, position) -/
theorem mem_sides_iff {s : Side} :
    s ∈ sides faces ↔ ∃ f i, f < faces.length ∧ i < (fa faces f).length ∧
      s = mkSide (offset faces f) (fa faces f) f i := mem_sides

/-- `direct_face(u,v)` is the face having `(u,v)` as a directed side … -/
theorem directFace_eq_spec (hO : Oriented faces) (u v f : Nat) :
    directFace (build nv faces so) u v = some f ↔ ∃ i, IsSide faces f i u v := by
  have hS : (build nv faces so).sidesR = (sides faces).reverse := rfl
  unfold directFace
  rw [hS, Option.map_eq_some_iff]
  constructor
  · rintro ⟨s, hs, rfl⟩
    obtain ⟨hmem, hu, hv⟩ := (lookupHE_eq_some hO).mp hs
    obtain ⟨f, i, hf, hi, rfl⟩ := mem_sides.mp hmem
    exact ⟨i, hf, hi, hu, hv⟩
  · rintro ⟨i, hf, hi, hu, hv⟩
    exact ⟨mkSide (offset faces f) (fa faces f) f i,
      (lookupHE_eq_some hO).mpr ⟨mem_sides.mpr ⟨f, i, hf, hi, rfl⟩, hu, hv⟩, rfl⟩

/-- … and `None` exactly when no face has that directed side (no hypothesis needed) -/
theorem directFace_none_spec (u v : Nat) :
    directFace (build nv faces so) u v = none ↔ ∀ f i, ¬ IsSide faces f i u v := by
  have hS : (build nv faces so).sidesR = (sides faces).reverse := rfl
  unfold directFace
  rw [hS, Option.map_eq_none_iff, lookupHE_eq_none]
  constructor
  · rintro h f i ⟨hf, hi, hu, hv⟩
    exact h _ (mem_sides.mpr ⟨f, i, hf, hi, rfl⟩) ⟨hu, hv⟩
  · rintro h s hs ⟨hu, hv⟩
    obtain ⟨f, i, hf, hi, rfl⟩ := mem_sides.mp hs
    exact h f i ⟨hf, hi, hu, hv⟩

/-- `direct_face(u,v,return_inds=True)` = the face and the local indices `i`, `(i+1) % n` -/
theorem directFaceInds_eq_spec (hO : Oriented faces) (u v f i j : Nat) :
    directFaceInds (build nv faces so) u v = some (f, i, j) ↔
      IsSide faces f i u v ∧ j = (i+1) % (fa faces f).length := by
  have hS : (build nv faces so).sidesR = (sides faces).reverse := rfl
  unfold directFaceInds
  rw [hS, Option.map_eq_some_iff]
  constructor
  · rintro ⟨s, hs, heq⟩
    obtain ⟨hmem, hu, hv⟩ := (lookupHE_eq_some hO).mp hs
    obtain ⟨f', i', hf, hi, rfl⟩ := mem_sides.mp hmem
    simp only [mkSide, Prod.mk.injEq] at heq
    obtain ⟨rfl, rfl, rfl⟩ := heq
    exact ⟨⟨hf, hi, hu, hv⟩, rfl⟩
  · rintro ⟨⟨hf, hi, hu, hv⟩, rfl⟩
    exact ⟨mkSide (offset faces f) (fa faces f) f i,
      (lookupHE_eq_some hO).mpr ⟨mem_sides.mpr ⟨f, i, hf, hi, rfl⟩, hu, hv⟩, rfl⟩

/-- `half_edge_to_corner(u,v)` = the corner `(f,i)` whose outgoing side is `(u,v)` -/
theorem halfEdgeToCorner_eq_spec (hO : Oriented faces) (u v c : Nat) :
    halfEdgeToCorner (build nv faces so) u v = some c ↔
      ∃ f i, IsSide faces f i u v ∧ c = offset faces f + i := by
  have hS : (build nv faces so).sidesR = (sides faces).reverse := rfl
  unfold halfEdgeToCorner
  rw [hS, Option.map_eq_some_iff]
  constructor
  · rintro ⟨s, hs, rfl⟩
    obtain ⟨hmem, hu, hv⟩ := (lookupHE_eq_some hO).mp hs
    obtain ⟨f, i, hf, hi, rfl⟩ := mem_sides.mp hmem
    exact ⟨f, i, ⟨hf, hi, hu, hv⟩, rfl⟩
  · rintro ⟨f, i, ⟨hf, hi, hu, hv⟩, rfl⟩
    exact ⟨mkSide (offset faces f) (fa faces f) f i,
      (lookupHE_eq_some hO).mpr ⟨mem_sides.mpr ⟨f, i, hf, hi, rfl⟩, hu, hv⟩, rfl⟩

/-- `edge_to_faces(u,v)` = (face with side `(u,v)`, face with side `(v,u)`) -/
theorem edgeToFaces_eq_spec (hO : Oriented faces) (u v : Nat) :
    (∀ f, (edgeToFaces (build nv faces so) u v).1 = some f ↔ ∃ i, IsSide faces f i u v) ∧
    (∀ g, (edgeToFaces (build nv faces so) u v).2 = some g ↔ ∃ j, IsSide faces g j v u) :=
  ⟨fun f => directFace_eq_spec nv so hO u v f, fun g => directFace_eq_spec nv so hO v u g⟩

/-- `corner_to_half_edge(c)` for the corner `(f,i)`: `(F[i], F[(i+1) % n])` (no hypothesis needed) -/
theorem cornerToHalfEdge_eq_spec {f i : Nat} (hf : f < faces.length) (hi : i < (fa faces f).length) :
    cornerToHalfEdge (build nv faces so) (offset faces f + i) =
      some ((fa faces f).getD i 0, (fa faces f).getD ((i+1) % (fa faces f).length) 0) := by
  have hS : (build nv faces so).sidesR = (sides faces).reverse := rfl
  unfold cornerToHalfEdge
  rw [hS, cn2he_eq_some hf hi]
  rfl

private theorem lookup_own (hO : Oriented faces) {f i : Nat} (hf : f < faces.length)
    (hi : i < (fa faces f).length) :
    lookupHE (sides faces).reverse (mkSide (offset faces f) (fa faces f) f i).u
      (mkSide (offset faces f) (fa faces f) f i).v = some (mkSide (offset faces f) (fa faces f) f i) :=
  (lookupHE_eq_some hO).mpr ⟨mem_sides.mpr ⟨f, i, hf, hi, rfl⟩, rfl, rfl⟩

/-- `next_corner (f,i) = (f, (i+1) % n)` -/
theorem next_eq_spec (hO : Oriented faces) {f i : Nat} (hf : f < faces.length) (hi : i < (fa faces f).length) :
    nextCorner (build nv faces so) (offset faces f + i) =
      some (offset faces f + (i+1) % (fa faces f).length) := by
  have hS : (build nv faces so).sidesR = (sides faces).reverse := rfl
  unfold nextCorner
  rw [hS, cn2he_eq_some hf hi]
  simp only [Option.bind_eq_bind, Option.bind_some, lookup_own hO hf hi]
  rfl

/-- `previous_corner (f,i) = (f, (i-1) mod n)` -/
theorem prev_eq_spec (hO : Oriented faces) {f i : Nat} (hf : f < faces.length) (hi : i < (fa faces f).length) :
    previousCorner (build nv faces so) (offset faces f + i) =
      some (offset faces f + (i + (fa faces f).length - 1) % (fa faces f).length) := by
  have hS : (build nv faces so).sidesR = (sides faces).reverse := rfl
  unfold previousCorner
  rw [hS, cn2he_eq_some hf hi]
  simp only [Option.bind_eq_bind, Option.bind_some, lookup_own hO hf hi]
  rfl

/-- `opposite_corner (f,i)` = the corner `(g,j)` with `G[j] = F[i+1]`, `G[j+1] = F[i]`, `None` if there
is none (border side) -/
theorem opposite_eq_spec (hO : Oriented faces) {f i : Nat} (hf : f < faces.length)
    (hi : i < (fa faces f).length) (c' : Nat) :
    oppositeCorner (build nv faces so) (offset faces f + i) = some c' ↔
      ∃ g j, IsSide faces g j ((fa faces f).getD ((i+1) % (fa faces f).length) 0) ((fa faces f).getD i 0) ∧
        c' = offset faces g + j := by
  have hS : (build nv faces so).sidesR = (sides faces).reverse := rfl
  rw [← halfEdgeToCorner_eq_spec nv so hO]
  unfold oppositeCorner halfEdgeToCorner oppOf
  rw [hS, cn2he_eq_some hf hi]
  simp only [Option.bind_eq_bind, Option.bind_some, lookup_own hO hf hi]
  rfl

/-- `corner_to_face (f,i) = f` -/
theorem cornerToFace_eq_spec {f i : Nat} (hf : f < faces.length) (hi : i < (fa faces f).length) :
    cornerToFace (build nv faces so) (offset faces f + i) = some f := by
  have hS : (build nv faces so).fc = faceCornersFrom 0 faces := rfl
  unfold cornerToFace
  rw [hS, faceCornersFrom_getElem? hf hi]
  simp

/-- `face_to_corners(f)` is the contiguous block `offset f, …, offset f + n - 1` -/
theorem faceToCorners_contiguous {f : Nat} (hf : f < faces.length) (hpos : 0 < (fa faces f).length) :
    faceToCorners (build nv faces so) f =
      some ((List.range (fa faces f).length).map (offset faces f + ·)) := by
  have hS : (build nv faces so).fc = faceCornersFrom 0 faces := rfl
  have h := faceCornersFrom_findIdx? (f0 := 0) hf hpos
  unfold faceToCorners faceToFirstCorner faceOf
  rw [hS]
  simp only [Nat.zero_add] at h
  rw [h]
  rfl

/-- core step of `opposite_eq_spec`, as an equation: the opposite corner of `(f,i)` is the corner of the
reversed half-edge -/
theorem opposite_eq_halfEdge (hO : Oriented faces) {f i : Nat} (hf : f < faces.length)
    (hi : i < (fa faces f).length) :
    oppositeCorner (build nv faces so) (offset faces f + i) =
      halfEdgeToCorner (build nv faces so) ((fa faces f).getD ((i+1) % (fa faces f).length) 0)
        ((fa faces f).getD i 0) := by
  have hS : (build nv faces so).sidesR = (sides faces).reverse := rfl
  unfold oppositeCorner halfEdgeToCorner oppOf
  rw [hS, cn2he_eq_some hf hi]
  simp only [Option.bind_eq_bind, Option.bind_some, lookup_own hO hf hi]
  rfl

/-- the face of the corner that starts half-edge `(u,v)` is `direct_face(u,v)` (no hypothesis) -/
theorem halfEdge_corner_face (u v : Nat) :
    (halfEdgeToCorner (build nv faces so) u v).bind (cornerToFace (build nv faces so)) =
      directFace (build nv faces so) u v := by
  have hS : (build nv faces so).sidesR = (sides faces).reverse := rfl
  unfold halfEdgeToCorner directFace
  rw [hS]
  cases h : lookupHE (sides faces).reverse u v with
  | none => rfl
  | some s =>
    have hm := List.mem_reverse.mp (List.mem_of_find?_eq_some h)
    obtain ⟨g, j, hg, hj, rfl⟩ := mem_sides.mp hm
    simp only [Option.map_some, Option.bind_some]
    exact cornerToFace_eq_spec nv so hg hj

/-- **faces around a face** (P1): `face_to_faces(f)` lists, side by side, the face on the other side of
each side of `f` (`direct_face` of the reversed side), skipping border sides -/
theorem faceToFaces_eq_spec (hO : Oriented faces) {f : Nat} (hf : f < faces.length)
    (hpos : 0 < (fa faces f).length) :
    faceToFaces (build nv faces so) f =
      some ((List.range (fa faces f).length).filterMap fun i =>
        directFace (build nv faces so) ((fa faces f).getD ((i+1) % (fa faces f).length) 0) ((fa faces f).getD i 0)) := by
  unfold faceToFaces
  rw [faceToCorners_contiguous nv so hf hpos]
  simp only [Option.map_some, Option.some.injEq, List.filterMap_map]
  apply filterMap_congr'
  intro i hi
  have hi' : i < (fa faces f).length := List.mem_range.mp hi
  simp only [Function.comp]
  rw [opposite_eq_halfEdge nv so hO hf hi', halfEdge_corner_face]

/-- `vertex_to_corner_in_face(v,f)` (dictionary `_adjVF2Cn`, last write wins) is the corner `(f,i)` with
`F[i] = v` when the face has no repeated vertex (part of `Manifold`); this also justifies modelling the
corner ids of the half-edge table by `offset f + i` -/
theorem vf2cn_eq {f i : Nat} (hf : f < faces.length) (hi : i < (fa faces f).length)
    (hnd : (fa faces f).Nodup) :
    vertexToCornerInFace (build nv faces so) ((fa faces f).getD i 0) f = some (offset faces f + i) := by
  have hS : (build nv faces so).fcR = (faceCornersFrom 0 faces).zipIdx.reverse := rfl
  unfold vertexToCornerInFace
  rw [hS]
  have hget := faceCornersFrom_getElem? (f0 := 0) hf hi
  simp only [Nat.zero_add] at hget
  have hsome : ((faceCornersFrom 0 faces).zipIdx.reverse.find?
      fun e => e.1 == ((fa faces f).getD i 0, f)).isSome := by
    rw [List.find?_isSome]
    exact ⟨(((fa faces f).getD i 0, f), offset faces f + i),
      List.mem_reverse.mpr (List.mem_zipIdx_iff_getElem?.mpr hget), by simp⟩
  obtain ⟨x, hx⟩ := Option.isSome_iff_exists.mp hsome
  have hp := List.find?_some hx
  have hm := List.mem_zipIdx_iff_getElem?.mp (List.mem_reverse.mp (List.mem_of_find?_eq_some hx))
  simp only [beq_iff_eq] at hp
  rw [hp] at hm
  obtain ⟨k, j, hk, hj, hc, hv, hg⟩ := faceCornersFrom_getElem?_inv hm
  have hkf : k = f := by omega
  subst hkf
  have hij : j = i := by
    have h1 : (fa faces k)[j]? = (fa faces k)[i]? := by
      rw [List.getElem?_eq_getElem hj, List.getElem?_eq_getElem hi]
      have a1 : (fa faces k).getD j 0 = (fa faces k)[j] := getD_eq_getElem hj
      have a2 : (fa faces k).getD i 0 = (fa faces k)[i] := getD_eq_getElem hi
      rw [← a1, ← a2, hv]
    exact (List.getElem?_inj hj hnd).mp h1
  rw [hx]
  simp only [Option.map_some, Option.some.injEq]
  rw [hc, hij]

/-- `mesh.edges` (completed from the faces) lists every undirected side `keyify(u,v)` exactly once -/
theorem edges_eq_spec :
    (∀ e, e ∈ (build nv faces so).edges ↔ ∃ f i u v, IsSide faces f i u v ∧ e = key2 u v) ∧
    (build nv faces so).edges.Nodup :=
  ⟨fun _ => mem_edgesOf, nodup_edgesOf faces⟩

/-- `edge_id(u,v) = e` exactly when `edges[e]` is the sorted pair of `u`,`v` (so `edge_id(u,v) =
edge_id(v,u)`, and `None` for a pair that is no side of any face) -/
theorem edgeId_eq_spec (u v e : Nat) :
    edgeId (build nv faces so) u v = some e ↔ (build nv faces so).edges[e]? = some (key2 u v) :=
  find_zipIdx_reverse (nodup_edgesOf faces) (key2 u v) e

/-- `face_id(vs)`: a face whose vertex set (sorted) is that of `vs`; `None` exactly when there is none
(when two faces have the same vertex set the dictionary keeps the last one) -/
theorem faceId_eq_spec (vs : List Nat) :
    (∀ f, faceId (build nv faces so) vs = some f → f < faces.length ∧ sortNat (fa faces f) = sortNat vs) ∧
    (faceId (build nv faces so) vs = none ↔ ∀ f, f < faces.length → sortNat (fa faces f) ≠ sortNat vs) := by
  have hS : (build nv faces so).faces = faces := rfl
  unfold faceId
  rw [hS]
  constructor
  · intro f h
    obtain ⟨x, hx, rfl⟩ := Option.map_eq_some_iff.mp h
    have hp := List.find?_some hx
    have hm := List.mem_zipIdx_iff_getElem?.mp (List.mem_reverse.mp (List.mem_of_find?_eq_some hx))
    simp only [beq_iff_eq] at hp
    have hlt : x.2 < faces.length := by
      rcases Nat.lt_or_ge x.2 faces.length with h1 | h1
      · exact h1
      · rw [List.getElem?_eq_none h1] at hm; cases hm
    refine ⟨hlt, ?_⟩
    have : fa faces x.2 = x.1 := by simp [fa, List.getD, hm]
    rw [this]; exact hp
  · rw [Option.map_eq_none_iff, List.find?_eq_none]
    constructor
    · intro h f hf heq
      have hm : (faces[f], f) ∈ faces.zipIdx.reverse :=
        List.mem_reverse.mpr (List.mem_zipIdx_iff_getElem?.mpr (by simp [hf]))
      have := h _ hm
      simp only [beq_iff_eq] at this
      apply this
      have h2 : fa faces f = faces[f] := by simp [fa, List.getD, hf]
      rw [← h2]; exact heq
    · intro h x hx
      have hm := List.mem_zipIdx_iff_getElem?.mp (List.mem_reverse.mp hx)
      have hlt : x.2 < faces.length := by
        rcases Nat.lt_or_ge x.2 faces.length with h1 | h1
        · exact h1
        · rw [List.getElem?_eq_none h1] at hm; cases hm
      have h2 : fa faces x.2 = x.1 := by simp [fa, List.getD, hm]
      simp only [beq_iff_eq]
      rw [← h2]; exact h x.2 hlt

/-- `is_edge_on_border(u,v)`: an edge of the mesh with a face on exactly… at most one side -/
theorem isEdgeOnBorder_spec (u v : Nat) :
    isEdgeOnBorder (build nv faces so) u v = true ↔
      (∃ e : Nat, (build nv faces so).edges[e]? = some (key2 u v)) ∧
      ((∀ f i, ¬ IsSide faces f i u v) ∨ (∀ f i, ¬ IsSide faces f i v u)) := by
  unfold isEdgeOnBorder
  rw [Bool.and_eq_true, Bool.or_eq_true, Option.isSome_iff_exists, Option.isNone_iff_eq_none,
    Option.isNone_iff_eq_none, directFace_none_spec, directFace_none_spec]
  constructor
  · rintro ⟨⟨e, he⟩, h⟩; exact ⟨⟨e, (edgeId_eq_spec nv so u v e).mp he⟩, h⟩
  · rintro ⟨⟨e, he⟩, h⟩; exact ⟨⟨e, (edgeId_eq_spec nv so u v e).mpr he⟩, h⟩

end answers

section border
open Mouette.Surface
variable (S : Surf)

/-- **Border partition of the edges**: `boundary_edges ++ interior_edges` is a permutation of all edge
ids, `boundary_edges` are exactly the ids whose edge is on the border, `interior_edges` the others,
and the two lists are disjoint. -/
theorem border_partition :
    (boundaryEdges S ++ interiorEdges S).Perm (List.range S.edges.length) ∧
    (∀ e, e ∈ boundaryEdges S ↔ ∃ a b, S.edges[e]? = some (a, b) ∧ isEdgeOnBorder S a b = true) ∧
    (∀ e, e ∈ interiorEdges S ↔ ∃ a b, S.edges[e]? = some (a, b) ∧ isEdgeOnBorder S a b = false) ∧
    (∀ e, e ∈ boundaryEdges S → e ∉ interiorEdges S) := by
  have h2 : ∀ e, e ∈ boundaryEdges S ↔ ∃ a b, S.edges[e]? = some (a, b) ∧ isEdgeOnBorder S a b = true := by
    intro e
    unfold boundaryEdges
    rw [mem_zipIdx_filter]
    constructor
    · rintro ⟨⟨a, b⟩, hx, hp⟩; exact ⟨a, b, hx, hp⟩
    · rintro ⟨a, b, hx, hp⟩; exact ⟨(a, b), hx, hp⟩
  have h3 : ∀ e, e ∈ interiorEdges S ↔ ∃ a b, S.edges[e]? = some (a, b) ∧ isEdgeOnBorder S a b = false := by
    intro e
    unfold interiorEdges
    rw [mem_zipIdx_filter]
    constructor
    · rintro ⟨⟨a, b⟩, hx, hp⟩; exact ⟨a, b, hx, by simpa using hp⟩
    · rintro ⟨a, b, hx, hp⟩; exact ⟨(a, b), hx, by simpa using hp⟩
  refine ⟨zipIdx_filter_partition S.edges _, h2, h3, ?_⟩
  intro e hb hi
  obtain ⟨a, b, hx, hp⟩ := (h2 e).mp hb
  obtain ⟨a', b', hx', hp'⟩ := (h3 e).mp hi
  rw [hx] at hx'
  cases hx'
  rw [hp] at hp'
  cases hp'

/-- **Border partition of the vertices**: `is_vertex_on_border v ↔ v ∈ boundary_vertices`; the boundary
vertices are exactly the end points of the boundary edges; `boundary_vertices ++ interior_vertices` is a
permutation of all vertex ids. -/
theorem vertex_border_iff :
    (∀ v, isVertexOnBorder S v = true ↔ v ∈ boundaryVertices S) ∧
    (∀ v, v ∈ boundaryVertices S ↔ v < S.nv ∧ ∃ e ∈ boundaryEdges S, ∃ a b,
        S.edges[e]? = some (a, b) ∧ (v = a ∨ v = b)) ∧
    (boundaryVertices S ++ interiorVertices S).Perm (List.range S.nv) := by
  have h1 : ∀ v, isVertexOnBorder S v = true ↔ v ∈ boundaryVertices S := by
    intro v; unfold isVertexOnBorder; exact List.contains_iff_mem
  refine ⟨h1, ?_, ?_⟩
  · intro v
    unfold boundaryVertices borderEnds
    simp only [List.mem_filter, List.mem_range, List.contains_iff_mem, List.mem_flatMap]
    constructor
    · rintro ⟨hv, e, he, hm⟩
      refine ⟨hv, e, he, ?_⟩
      cases hx : S.edges[e]? with
      | none => rw [hx] at hm; simp at hm
      | some ab =>
        obtain ⟨a, b⟩ := ab
        rw [hx] at hm
        simp only [List.mem_cons, List.not_mem_nil, or_false] at hm
        exact ⟨a, b, rfl, hm⟩
    · rintro ⟨hv, e, he, a, b, hx, hm⟩
      refine ⟨hv, e, he, ?_⟩
      rw [hx]
      simp only [List.mem_cons, List.not_mem_nil, or_false]
      exact hm
  · have hmem : ∀ v, v < S.nv → ((borderEnds S).contains v = decide (v ∈ boundaryVertices S)) := by
      intro v hv
      unfold boundaryVertices
      cases hc : (borderEnds S).contains v
      · have : ¬ v ∈ List.filter (fun v => (borderEnds S).contains v) (List.range S.nv) := by
          simp only [List.mem_filter, List.mem_range, not_and]
          intro _; rw [hc]; simp
        exact (decide_eq_false this).symm
      · have : v ∈ List.filter (fun v => (borderEnds S).contains v) (List.range S.nv) := by
          simp only [List.mem_filter, List.mem_range]
          exact ⟨hv, hc⟩
        exact (decide_eq_true this).symm
    have hcongr : interiorVertices S =
        (List.range S.nv).filter fun v => !(decide (v ∈ boundaryVertices S)) := by
      unfold interiorVertices
      apply List.filter_congr
      intro v hv
      unfold isVertexOnBorder
      cases hb : (boundaryVertices S).contains v
      · have : ¬ v ∈ boundaryVertices S := fun hm => by rw [List.contains_iff_mem.mpr hm] at hb; cases hb
        simp [this]
      · have : v ∈ boundaryVertices S := List.contains_iff_mem.mp hb
        simp [this]
    have hb : boundaryVertices S = (List.range S.nv).filter fun v => decide (v ∈ boundaryVertices S) := by
      conv => lhs; unfold boundaryVertices
      apply List.filter_congr
      intro v hv
      exact hmem v (List.mem_range.mp hv)
    rw [hcongr]
    conv => lhs; lhs; rw [hb]
    exact List.filter_append_perm _ _

end border

/-! non-vacuity: two triangles sharing an edge satisfy the hypothesis; a flipped pair does not -/
example : Mouette.Surface.Oriented [[0, 1, 2], [2, 1, 3]] := by decide
example : ¬ Mouette.Surface.Oriented [[0, 1, 2], [1, 2, 3]] := by decide
example : Mouette.Surface.directFace (Mouette.Surface.build 4 [[0, 1, 2], [2, 1, 3]] true) 1 2 = some 0 := by decide
example : Mouette.Surface.oppositeCorner (Mouette.Surface.build 4 [[0, 1, 2], [2, 1, 3]] true) 1 = some 3 := by decide

end Mouette.Props.C01
