import Mouette.Model.FeatRuns
import Mouette.Generated.C15Run
import Mouette.Generated.C15Thresholds
import Mouette.Lemmas.FeatRuns
import Mouette.Props.C15
/-!
# C15 (part 3) — histories of detector runs on one mesh / one detector object

`Model/FeatRuns.lean` threads through the runs what persists: the keys of the mesh's edge attribute
`feature` and the detector's containers.  The two resets of `FeatureEdgeDetector.run` (`self.clear()`
first; `.clear()` of an existing `feature` attribute) are re-read from the source on every run
(`Generated/C15Run.lean`).
-/
namespace Mouette.Props.C15
open Mouette.Features

/-- the resets are present in the CURRENT source (translated fragment; a lost `.clear()` or `self.clear()`
makes this false, a refactored branch makes the translator refuse) -/
theorem generated_run_resets :
    Mouette.Generated.C15.runFlags = { selfClear := true, edgeClear := true } := by decide

/-- **the n-th run equals the first run on a fresh mesh**: after ANY history of earlier runs on the same mesh
object (with the same detector object or others, any options, any normals), the state produced by the last
run — the mesh attribute and all the detector's containers — is the one a fresh mesh and a fresh detector
give; and that is the stateless model of `feature_set_exact` & co. -/
theorem nth_run_eq_fresh (nv : Nat) (st : RunState) (hist : List (Bool × RunInput)) (inp : RunInput) :
    runHistory Mouette.Generated.C15.runFlags Mouette.Generated.C15.thresholds nv st (hist ++ [(true, inp)]) =
      runOn Mouette.Generated.C15.runFlags Mouette.Generated.C15.thresholds nv RunState.fresh inp := by
  have h := generated_run_resets
  exact runHistory_last (by rw [h]) (by rw [h]) _ nv inp hist st

/-- the run on a fresh mesh is the stateless model: `feature_edges`, `feature_vertices`, `feature_degrees`
are the functions the other C15 theorems speak about -/
theorem fresh_run_is_stateless (nv : Nat) (inp : RunInput) :
    let r := runOn Mouette.Generated.C15.runFlags Mouette.Generated.C15.thresholds nv RunState.fresh inp
    r.det.fe = featureEdges Mouette.Generated.C15.thresholds inp.onlyBorder inp.es ∧
    r.det.fv = featureVertices nv inp.es (featureEdges Mouette.Generated.C15.thresholds inp.onlyBorder inp.es) ∧
    r.det.deg = degrees inp.es (featureEdges Mouette.Generated.C15.thresholds inp.onlyBorder inp.es) := by
  have h := runOn_fresh Mouette.Generated.C15.runFlags Mouette.Generated.C15.thresholds nv inp
  exact ⟨h.2.1, h.2.2.1, h.2.2.2.1⟩

/-- consequence: whatever ran before, the feature edges of the last run are exactly border ∪ sharp ∪ hard -/
theorem feature_set_exact_after_history (nv : Nat) (st : RunState) (hist : List (Bool × RunInput))
    (inp : RunInput) (e : Nat) :
    e ∈ (runHistory Mouette.Generated.C15.runFlags Mouette.Generated.C15.thresholds nv st
          (hist ++ [(true, inp)])).det.fe ↔
      ∃ x, inp.es[e]? = some x ∧
        (x.border = true ∨
         (inp.onlyBorder = false ∧ interior x = true ∧ cosLt x.d x.q (1/2) = true) ∨
         (inp.onlyBorder = false ∧ x.hard = true ∧ interior x = true ∧ cosLt x.d x.q (4/5) = true ∧ x.border = false)) := by
  rw [nth_run_eq_fresh, (fresh_run_is_stateless nv inp).1]
  exact feature_set_exact inp.onlyBorder inp.es e

/-! sensitivity / non-vacuity: without the `.clear()` of the attribute an interior edge flagged by an earlier
run survives a later `only_border` run; with it, it does not -/
def demoEdges : List EdgeInfo :=
  [{ a := 0, b := 1, t1 := some 0, t2 := none, border := true, hard := false, d := 0, q := 1 },
   { a := 1, b := 2, t1 := some 0, t2 := some 1, border := false, hard := false, d := 0, q := 1 }]
example : (runHistory { selfClear := true, edgeClear := false } Mouette.Generated.C15.thresholds 3 RunState.fresh
    [(false, { onlyBorder := false, es := demoEdges }), (true, { onlyBorder := true, es := demoEdges })]).det.fe = [0, 1] := by
  decide +kernel
example : (runHistory { selfClear := true, edgeClear := true } Mouette.Generated.C15.thresholds 3 RunState.fresh
    [(false, { onlyBorder := false, es := demoEdges }), (true, { onlyBorder := true, es := demoEdges })]).det.fe = [0] := by
  decide +kernel

end Mouette.Props.C15
