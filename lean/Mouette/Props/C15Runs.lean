import Mouette.Model.FeatRuns
import Mouette.Generated.C15Run
import Mouette.Generated.C15Thresholds
import Mouette.Lemmas.FeatRuns
import Mouette.Props.C15
/-!
# C15 (part 3) — histories of detector runs on one mesh / one detector object

`Model/FeatRuns.lean` threads through the runs what persists: the keys of the mesh's edge attribute
`feature` and the detector's containers.  The two resets of `FeatureEdgeDetector.run` (`self.clear()`
first; `.clear()` of an existing `feature` attribute) are re-read from the source on every run
(`Generated/C15Run.lean`).
-/
namespace Mouette.Props.C15
open Mouette.Features

/-- the resets are present in the CURRENT source, and the normals `run` computes itself are a private temporary
(`face_normals(mesh, persistent=False)`): translated fragment; a lost `.clear()` / `self.clear()` or a persistent
`face_normals` makes this false, a refactored branch makes the translator refuse -/
theorem generated_run_resets :
    Mouette.Generated.C15.runFlags = { selfClear := true, edgeClear := true, normalsPersistent := false } := by decide

/-- **the n-th run equals the first run on a fresh mesh**: after ANY history of earlier runs on the same mesh
object (same detector object or others, any options, any geometry the mesh had at those moments — the vertices may
have been moved between the runs), the state produced by the last run is the one a fresh mesh with the CURRENT
geometry and a fresh detector give.  Side condition on what the CALLER did with the face attribute `normals`:
nobody wrote one (`inj = false` throughout: every run computes from the geometry of its moment), or the caller
wrote one just before the last run (then that one is used). -/
theorem nth_run_eq_fresh (nv : Nat) (st : RunState) (hst : st.normals = none) (hist : List (Bool × RunInput))
    (inp : RunInput) (hn : (∀ r ∈ hist, r.2.inj = false) ∨ inp.inj = true) :
    runHistory Mouette.Generated.C15.runFlags Mouette.Generated.C15.thresholds nv st (hist ++ [(true, inp)]) =
      runOn Mouette.Generated.C15.runFlags Mouette.Generated.C15.thresholds nv RunState.fresh inp := by
  have h := generated_run_resets
  exact runHistory_last (by rw [h]) (by rw [h]) (by rw [h]) _ nv inp hist st hst hn

/-- the run on a fresh mesh is the stateless model: `feature_edges`, `feature_vertices`, `feature_degrees`
are the functions the other C15 theorems speak about -/
theorem fresh_run_is_stateless (nv : Nat) (inp : RunInput) :
    let r := runOn Mouette.Generated.C15.runFlags Mouette.Generated.C15.thresholds nv RunState.fresh inp
    r.det.fe = featureEdges Mouette.Generated.C15.thresholds inp.onlyBorder inp.es ∧
    r.det.fv = featureVertices nv inp.es (featureEdges Mouette.Generated.C15.thresholds inp.onlyBorder inp.es) ∧
    r.det.deg = degrees inp.es (featureEdges Mouette.Generated.C15.thresholds inp.onlyBorder inp.es) := by
  have h := runOn_fresh Mouette.Generated.C15.runFlags Mouette.Generated.C15.thresholds nv inp
  exact ⟨h.2.1, h.2.2.1, h.2.2.2.1⟩

/-- consequence: whatever ran before (and wherever the vertices were then), the feature edges of the last run are
exactly border ∪ sharp ∪ hard for the normals of the last run -/
theorem feature_set_exact_after_history (nv : Nat) (st : RunState) (hst : st.normals = none)
    (hist : List (Bool × RunInput)) (inp : RunInput) (hn : (∀ r ∈ hist, r.2.inj = false) ∨ inp.inj = true) (e : Nat) :
    e ∈ (runHistory Mouette.Generated.C15.runFlags Mouette.Generated.C15.thresholds nv st
          (hist ++ [(true, inp)])).det.fe ↔
      ∃ x, inp.es[e]? = some x ∧
        (x.border = true ∨
         (inp.onlyBorder = false ∧ interior x = true ∧ cosLt x.d x.q (1/2) = true) ∨
         (inp.onlyBorder = false ∧ x.hard = true ∧ interior x = true ∧ cosLt x.d x.q (4/5) = true ∧ x.border = false)) := by
  rw [nth_run_eq_fresh nv st hst hist inp hn, (fresh_run_is_stateless nv inp).1]
  exact feature_set_exact inp.onlyBorder inp.es e

/-! sensitivity / non-vacuity -/
def demoEdges (d : Rat) : List EdgeInfo :=
  [{ a := 0, b := 1, t1 := some 0, t2 := none, border := true, hard := false, d := 0, q := 1 },
   { a := 1, b := 2, t1 := some 0, t2 := some 1, border := false, hard := false, d := d, q := 1 }]
/-- without the `.clear()` of the attribute an interior edge flagged by an earlier run survives an `only_border` run -/
example : (runHistory { selfClear := true, edgeClear := false, normalsPersistent := false } Mouette.Generated.C15.thresholds 3
    RunState.fresh [(false, { onlyBorder := false, inj := false, es := demoEdges 0 }),
                    (true, { onlyBorder := true, inj := false, es := demoEdges 0 })]).det.fe = [0, 1] := by
  decide +kernel
example : (runHistory { selfClear := true, edgeClear := true, normalsPersistent := false } Mouette.Generated.C15.thresholds 3
    RunState.fresh [(false, { onlyBorder := false, inj := false, es := demoEdges 0 }),
                    (true, { onlyBorder := true, inj := false, es := demoEdges 0 })]).det.fe = [0] := by
  decide +kernel
/-- with persistent normals a fold (cos 0) detected by a first run is still reported after the strip was flattened
(cos 1); with the private temporary it is not -/
example : (runHistory { selfClear := true, edgeClear := true, normalsPersistent := true } Mouette.Generated.C15.thresholds 3
    RunState.fresh [(false, { onlyBorder := false, inj := false, es := demoEdges 0 }),
                    (true, { onlyBorder := false, inj := false, es := demoEdges 1 })]).det.fe = [0, 1] := by
  decide +kernel
example : (runHistory Mouette.Generated.C15.runFlags Mouette.Generated.C15.thresholds 3
    RunState.fresh [(false, { onlyBorder := false, inj := false, es := demoEdges 0 }),
                    (true, { onlyBorder := false, inj := false, es := demoEdges 1 })]).det.fe = [0] := by
  decide +kernel

end Mouette.Props.C15
