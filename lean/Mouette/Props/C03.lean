import Mouette.Model.Volume
import Mouette.Model.MeshCheck
import Mouette.Generated.C03
import Mouette.Lemmas.VolKey
import Mouette.Lemmas.VolBuckets
import Mouette.Lemmas.VolOrient
import Mouette.Lemmas.VolLazyInv
import Mouette.Lemmas.VolLazyClear
import Mouette.Lemmas.VolLazyWorld
import Mouette.Lemmas.VolSpec
import Mouette.Lemmas.VolConforming
import Mouette.Lemmas.VolBorder
import Mouette.Lemmas.VolEdge
import Mouette.Lemmas.VolEdgeMap
import Mouette.Lemmas.VolRing
import Mouette.Lemmas.VolFaceRing
import Mouette.Lemmas.VolClosed
import Mouette.Lemmas.VolClosedSurface
import Mouette.Lemmas.VolAux
/-!
# C03 — volume connectivity answers agree with the cell list; boundary extraction

Theorems about the executable model `Mouette.Vol` (`Model/Volume.lean`), the guard-table machine
`Mouette.VolLazy` and the fragments translated from the source (`Generated/C03.lean`).
-/
namespace Mouette.Props.C03
open Mouette.Vol Mouette.VolLazy
namespace G
export Mouette.Generated.C03 (adjTable subFace cellAdjLen cellAdjRange completedTable cellFacesTable
  bcOrientArgs bcOrientKeep bcOrientFlip sbOrientArgs sbOrientKeep sbOrientFlip volumeGuards initAttrs clearAttrs
  clearId meshGuards meshinitAttrs walkLoops edgeMapDomain boundaryMapsRebound)
end G

/-! ## 1. Translated fragments (finite tables: `decide`) -/

/-- the face table of `_compute_adjacent_cell` is the model's `tetTable` -/
theorem adjTable_eq_model : G.adjTable = Mesh.tetTable := by decide

/-- `F = C[:i] + C[i+1:]` (or the same sub-list written as a comprehension), `for i in range(4)`, under `len(C)==4`:
on 4-vertex cells the translated expression is the model's `subFace` -/
theorem subFace_eq_model :
    (∀ a b c d i, i < 4 → G.subFace [a, b, c, d] i = Mesh.subFace [a, b, c, d] i) ∧ G.cellAdjRange = 4 ∧ G.cellAdjLen = 4 := by
  refine ⟨?_, by decide, by decide⟩
  intro a b c d i hi
  have : i = 0 ∨ i = 1 ∨ i = 2 ∨ i = 3 := by omega
  rcases this with rfl | rfl | rfl | rfl <;>
    first
    | rfl
    | simp [Mouette.Generated.C03.subFace, Mesh.subFace, List.range, List.range.loop, List.filter]

/-- row `i` of the table does not contain local vertex `i` and consists of the three others -/
theorem adjTable_row_omits_index :
    ∀ i < 4, i ∉ G.adjTable.getD i [] ∧ (G.adjTable.getD i []).length = 3 ∧ (G.adjTable.getD i []).Nodup
      ∧ ∀ j ∈ G.adjTable.getD i [], j < 4 := by decide

/-- the i-th face used by `cell_to_cell` (`_compute_adjacent_cell`) has the same vertex set as the i-th
face used by `cell_to_face` (`_compute_cell_adj`: `C[:i]+C[i+1:]`) -/
theorem adjTable_agrees_with_slices :
    ∀ i < 4, key (G.adjTable.getD i []) = G.subFace [0, 1, 2, 3] i := by decide

/-- `mesh_data.py` completes faces from cells with the same table (both of its copies) -/
theorem completedTable_eq_adjTable : G.completedTable = G.adjTable ∧ G.cellFacesTable = G.adjTable := by decide

/-- the four triangles of the table form a closed, consistently oriented surface on 4 vertices (every
directed edge once, its opposite once) -/
theorem completedTable_consistently_oriented :
    (Mouette.MeshCheck.allInRange 4 G.completedTable && Mouette.MeshCheck.noUnused 4 G.completedTable
      && Mouette.MeshCheck.facesSimple G.completedTable && Mouette.MeshCheck.dirEdgesNodup G.completedTable
      && Mouette.MeshCheck.closed G.completedTable) = true := by decide

/-- interpretation of a translated orientation rule: arguments `pX − pY` of `det_3x3` as index pairs into
`[pA,pB,pC,pD]`, the triple kept when the determinant is `> 0`, the triple taken otherwise -/
def interpRule (args : List (List Nat)) (keep flip : List Nat) (P : List Pt) (ids : List Nat) : List Nat :=
  let z : Pt := ⟨0, 0, 0⟩
  let v := args.map fun a => (P.getD (a.getD 0 0) z).sub (P.getD (a.getD 1 0) z)
  if 0 < det3 (v.getD 0 z) (v.getD 1 z) (v.getD 2 z) then keep.map (ids.getD · 0) else flip.map (ids.getD · 0)

/-- `_BoundaryConnectivity._extract_surface_boundary` applies the model's rule -/
theorem bcOrient_rule_eq_model (pa pb pc pd : Pt) (a b c : Nat) :
    interpRule G.bcOrientArgs G.bcOrientKeep G.bcOrientFlip [pa, pb, pc, pd] [a, b, c]
      = if 0 < det3 (pa.sub pd) (pb.sub pd) (pc.sub pd) then [a, b, c] else [a, c, b] := by
  simp [interpRule, G.bcOrientArgs, G.bcOrientKeep, G.bcOrientFlip, Mouette.Generated.C03.bcOrientArgs,
    Mouette.Generated.C03.bcOrientKeep, Mouette.Generated.C03.bcOrientFlip]

/-- `extract_boundary_of_volume` applies the same test; its flipped triple is the reversed face, a
rotation of the model's `(a,c,b)` -/
theorem sbOrient_rule_eq_model (pa pb pc pd : Pt) (a b c : Nat) :
    interpRule G.sbOrientArgs G.sbOrientKeep G.sbOrientFlip [pa, pb, pc, pd] [a, b, c]
      = (if 0 < det3 (pa.sub pd) (pb.sub pd) (pc.sub pd) then [a, b, c] else [c, b, a])
    ∧ [c, b, a] = [a, c, b].rotate 1 := by
  refine ⟨?_, rfl⟩
  simp [interpRule, Mouette.Generated.C03.sbOrientArgs,
    Mouette.Generated.C03.sbOrientKeep, Mouette.Generated.C03.sbOrientFlip]

/-- `_sort_edge_neighborhoods`: two `while True` walks per edge; BOTH restart from the first cell of `_adjE2C[e]` with
zeroed counters; the first counts faces/cells upwards (+1), the second downwards (−1); each stops on
`nextC is None or nextC in keys_cell` — exactly the model's `sortEdge` (`walk … c0 p1`, `walk … c0 p2`, keys
`enumFrom1 · 1` / `enumFrom1 · (-1)`) -/
theorem walkLoops_eq_model : G.walkLoops = [[1, 1, 1], [1, -1, -1]] := by decide

/-- the edge index maps of `_BoundaryConnectivity` are built over `complete_mesh.boundary_edges`, without filter —
the model's `m2bEdgeTable` maps over `boundaryEdges` -/
theorem edgeMapDomain_eq_model : G.edgeMapDomain = "boundary_edges" := by decide

/-- no state at class level in the connectivity hierarchy (the translator refuses any class-body assignment in
`VolumeMesh`, its `_Connectivity`, its `_BoundaryConnectivity`, `SurfaceMesh._Connectivity`, `PolyLine._Connectivity`), and
the six volume↔boundary index maps are rebound to fresh `dict()`s on `self` whenever a boundary connectivity is built:
they are per-instance state -/
theorem boundary_maps_are_instance_state :
    G.boundaryMapsRebound = ["b2m_edge", "b2m_face", "b2m_vertex", "m2b_edge", "m2b_face", "m2b_vertex"] := by decide

/-! ## 2. Lazy caches: no history of queries can read a missing or `None` cache -/

/-- Generic: a well-guarded table is safe for EVERY history (any length, any order, `clear` included). -/
theorem history_safe (t : Table) (h : t.wellGuarded = true) (qs : List Nat) (hq : ∀ q ∈ qs, q ∈ t.alphabet) :
    t.fresh.2 = .ok ∧ ∀ o ∈ t.run t.fresh.1 qs, o = .ok :=
  t.history_safe_of_wellGuarded h qs hq

/-- the table translated from `volume.py`/`surface.py`/`linear.py` is well guarded -/
theorem volumeGuards_wellGuarded : G.volumeGuards.wellGuarded = true := by decide +kernel

/-- every cache attribute of the hierarchy is created by `__init__` (and reset by `clear`) -/
theorem volumeGuards_init_covers_caches :
    (List.range G.volumeGuards.nAttr).all (fun x => G.initAttrs.contains x && G.clearAttrs.contains x) = true
    ∧ G.volumeGuards.fresh.1.all (· == 1) = true := by decide +kernel

/-- hence: for every history of public queries on a fresh `VolumeMesh.connectivity`, no query fails -/
theorem volume_history_safe (qs : List Nat) (hq : ∀ q ∈ qs, q ∈ G.volumeGuards.alphabet) :
    ∀ o ∈ G.volumeGuards.run G.volumeGuards.fresh.1 qs, o = .ok :=
  (history_safe _ volumeGuards_wellGuarded qs hq).2

/-! ### Round 3: used objects — `clear()` and the mesh-level caches -/

/-- `clear()` of the translated table resets every cache: from EVERY reachable state it leads to the state right
after the constructor (a `clear` that forgets a cache breaks this `decide`) -/
theorem volumeGuards_clear_restores_fresh : G.volumeGuards.clearResets G.clearId = true := by decide +kernel

/-- Generic: after ANY history of public queries followed by `clear()`, the object is in the fresh state, so the
queries that follow behave exactly as the same queries on a freshly built object (the n-th run on a used object
equals the first run on a fresh one) -/
theorem history_after_clear_eq_fresh (t : Table) (h : t.wellGuarded = true) {c : Nat} (hc : t.clearResets c = true)
    (qs qs' : List Nat) (hq : ∀ q ∈ qs, q ∈ t.alphabet) :
    t.finalState t.fresh.1 (qs ++ [c]) = t.fresh.1
    ∧ t.run (t.finalState t.fresh.1 (qs ++ [c])) qs' = t.run t.fresh.1 qs' :=
  ⟨t.finalState_clear h hc qs hq, t.run_after_clear h hc qs qs' hq⟩

theorem volume_history_after_clear (qs qs' : List Nat) (hq : ∀ q ∈ qs, q ∈ G.volumeGuards.alphabet) :
    G.volumeGuards.run (G.volumeGuards.finalState G.volumeGuards.fresh.1 (qs ++ [G.clearId])) qs'
      = G.volumeGuards.run G.volumeGuards.fresh.1 qs' :=
  (history_after_clear_eq_fresh _ volumeGuards_wellGuarded volumeGuards_clear_restores_fresh qs qs' hq).2

/-- **instances are isolated** (a world of two objects of any guard table): in every interleaving of queries on two
instances, each instance's outcomes are those of its own queries run alone — using another mesh never changes what a
mesh answers. (The model has no state outside the object; `boundary_maps_are_instance_state` ties that to the source.) -/
theorem instances_isolated (t : Table) (sa sb : State) (h : List (Who × Nat)) :
    Table.outcomesOf .a (t.runWorld (sa, sb) h) = t.run sa (Table.queriesOf .a h)
    ∧ Table.outcomesOf .b (t.runWorld (sa, sb) h) = t.run sb (Table.queriesOf .b h) :=
  t.instances_isolated sa sb h

/-- hence two volume connectivities used side by side, in any interleaving, never fail -/
theorem volume_two_instances_safe (h : List (Who × Nat)) (hq : ∀ p ∈ h, p.2 ∈ G.volumeGuards.alphabet) :
    ∀ o ∈ G.volumeGuards.runWorld (G.volumeGuards.fresh.1, G.volumeGuards.fresh.1) h, o.2 = .ok := by
  intro o ho
  obtain ⟨ha, hb⟩ := instances_isolated G.volumeGuards G.volumeGuards.fresh.1 G.volumeGuards.fresh.1 h
  have hmemq : ∀ w, ∀ q ∈ Table.queriesOf w h, q ∈ G.volumeGuards.alphabet := by
    intro w q hqm
    simp only [Table.queriesOf, List.mem_filterMap] at hqm
    obtain ⟨p, hp, hpe⟩ := hqm
    split at hpe
    · cases hpe; exact hq p hp
    · cases hpe
  rcases o with ⟨w, oc⟩
  cases w with
  | a =>
    have : oc ∈ Table.outcomesOf .a (G.volumeGuards.runWorld (G.volumeGuards.fresh.1, G.volumeGuards.fresh.1) h) := by
      simp only [Table.outcomesOf, List.mem_filterMap]; exact ⟨(.a, oc), ho, by simp⟩
    rw [ha] at this
    exact volume_history_safe _ (hmemq .a) oc this
  | b =>
    have : oc ∈ Table.outcomesOf .b (G.volumeGuards.runWorld (G.volumeGuards.fresh.1, G.volumeGuards.fresh.1) h) := by
      simp only [Table.outcomesOf, List.mem_filterMap]; exact ⟨(.b, oc), ho, by simp⟩
    rw [hb] at this
    exact volume_history_safe _ (hmemq .b) oc this

/-- the border/boundary caches of `VolumeMesh` itself (`boundary_faces`, …, `is_vertex_on_border`, `is_edge_on_border`,
`enable_boundary_connectivity`; table translated from the class body, properties included): every history of its
public accessors succeeds, and `__init__` creates every attribute the class ever stores -/
theorem meshGuards_wellGuarded : G.meshGuards.wellGuarded = true := by decide +kernel

theorem meshGuards_init_covers_attrs :
    (List.range G.meshGuards.nAttr).all (fun x => G.meshinitAttrs.contains x) = true := by decide +kernel

theorem mesh_history_safe (qs : List Nat) (hq : ∀ q ∈ qs, q ∈ G.meshGuards.alphabet) :
    ∀ o ∈ G.meshGuards.run G.meshGuards.fresh.1 qs, o = .ok :=
  (history_safe _ meshGuards_wellGuarded qs hq).2

example : ["boundary_faces", "interior_edges", "is_edge_on_border", "enable_boundary_connectivity", "boundary_mesh"].all
    (fun n => G.meshGuards.alphabet.contains (G.meshGuards.methodNames.idxOf n)) = true := by decide

/-- non-vacuity: the alphabet is not empty and the machine does detect a missing attribute
(a table whose `__init__` forgets a guarded cache is rejected) -/
example : 17 ≤ G.volumeGuards.alphabet.length := by decide
/-- the alphabet is the full public API: the inherited surface / polyline accessors are part of it -/
example : ["half_edge_to_corner", "vertex_to_vertices", "opposite_corner", "face_to_faces", "edge_to_face", "clear"].all
    (fun n => G.volumeGuards.alphabet.contains (G.volumeGuards.methodNames.idxOf n)) = true := by decide
example : (Table.wellGuarded ⟨["x"], ["__init__", "get", "compute"],
    [[], [.guard 0 2, .read 0], [.write 0]], 0, [1], 5⟩) = false := by decide
example : (Table.wellGuarded ⟨["x"], ["__init__", "get", "compute"],
    [[.writeNone 0], [.guard 0 2, .read 0], [.write 0]], 0, [1], 5⟩) = true := by decide

/-! ## 3. Orientation of the boundary surface (exact rational arithmetic; `ring`) -/

/-- the code's test `det_3x3(pA−pD, pB−pD, pC−pD) > 0` is exactly "the triangle (A,B,C) points away from D":
`det(pA−pD,pB−pD,pC−pD) = ((pB−pA)×(pC−pA))·(pA−pD)` -/
theorem outward_iff_det (pa pb pc pd : Pt) :
    det3 (pa.sub pd) (pb.sub pd) (pc.sub pd) = outwardValue pa pb pc pd
    ∧ (0 < det3 (pa.sub pd) (pb.sub pd) (pc.sub pd) ↔ 0 < outwardValue pa pb pc pd) := by
  refine ⟨det3_eq_outwardValue pa pb pc pd, ?_⟩
  rw [det3_eq_outwardValue]

/-- every face put in the boundary surface (by `_BoundaryConnectivity` and, since the repair, by
`extract_boundary_of_volume`) points away from the fourth vertex of its cell — for EITHER orientation of
the cell — provided the tetrahedron is not flat -/
theorem oriented_face_outward (k : Conn) {f c0 : Nat} {rest : List Nat} {a b c d : Nat}
    (hc : k.faceToCells f = c0 :: rest) (hf : k.m.face f = [a, b, c])
    (hd : Conn.fourth (k.m.cell c0) [a, b, c] = some d)
    (hnd : det3 ((k.m.pt a).sub (k.m.pt d)) ((k.m.pt b).sub (k.m.pt d)) ((k.m.pt c).sub (k.m.pt d)) ≠ 0) :
    ∃ x y z, k.orientedFace f = some [x, y, z] ∧ [x, y, z].Perm [a, b, c]
      ∧ 0 < outwardValue (k.m.pt x) (k.m.pt y) (k.m.pt z) (k.m.pt d) :=
  orientedFace_outward k hc hf hd hnd

/-- the completed-face table (rows `(v1,v3,v2),(v0,v2,v3),(v3,v1,v0),(v0,v1,v2)`, row `i` opposite `v_i`):
every row has outwardness `−det(p1−p0,p2−p0,p3−p0)`.  Hence for a POSITIVELY oriented cell all four
completed faces point INWARD (and outward for a negative one): copying them, as the standalone extractor did
before the repair, gives an inward surface exactly when "all cells are positively oriented". -/
theorem completedTable_inward_of_positive (p0 p1 p2 p3 : Pt) :
    (∀ i < 4, let P := [p0, p1, p2, p3]; let r := G.completedTable.getD i []; let z : Pt := ⟨0, 0, 0⟩
        outwardValue (P.getD (r.getD 0 0) z) (P.getD (r.getD 1 0) z) (P.getD (r.getD 2 0) z) (P.getD i z)
          = - det3 (p1.sub p0) (p2.sub p0) (p3.sub p0))
    ∧ (0 < det3 (p1.sub p0) (p2.sub p0) (p3.sub p0) →
        outwardValue p1 p3 p2 p0 < 0 ∧ outwardValue p0 p2 p3 p1 < 0 ∧ outwardValue p3 p1 p0 p2 < 0
          ∧ outwardValue p0 p1 p2 p3 < 0) := by
  constructor
  · intro i hi
    have : i = 0 ∨ i = 1 ∨ i = 2 ∨ i = 3 := by omega
    rcases this with rfl | rfl | rfl | rfl
    · exact table_row0 p0 p1 p2 p3
    · exact table_row1 p0 p1 p2 p3
    · exact table_row2 p0 p1 p2 p3
    · exact table_row3 p0 p1 p2 p3
  · intro h
    rw [table_row0, table_row1, table_row2, table_row3]
    refine ⟨?_, ?_, ?_, ?_⟩ <;> linarith

/-! ## 4. Connectivity answers = direct inspection of the cell list
Hypothesis `Conforming m` (`Lemmas/VolConforming.lean`; the driver reports the decidable flag
`m.conforming` for every generated mesh, and `conforming_of_flag` derives the hypothesis from it). -/

theorem conforming_of_flag {m : Mesh} (h : m.conforming = true) : Conforming m := Mouette.Vol.conforming_of_flag h

/-- **face → cells**: `c ∈ face_to_cells(f)` iff stored face `f` is cell `c` minus one of its vertices -/
theorem faceToCells_eq_spec {m : Mesh} (h : Conforming m) {f c : Nat} (hf : f < m.nF) :
    c ∈ m.conn.faceToCells f ↔ c < m.nC ∧ ∃ i < 4, (m.face f).Perm ((m.cell c).eraseIdx i) :=
  faceToCells_spec h.faceKeys hf

/-- **cell → faces**: `cell_to_face(c)` has 4 entries and the i-th one is the stored face whose vertices are
the cell minus its i-th vertex (the face opposite the i-th vertex) -/
theorem cellToFace_opposite {m : Mesh} (h : Conforming m) {c i : Nat} (hc : c < m.nC) (hi : i < 4) :
    (m.cellToFace c).length = 4 ∧
    ∃ f, f < m.nF ∧ (m.cellToFace c)[i]? = some f ∧ (m.face f).Perm ((m.cell c).eraseIdx i) :=
  ⟨cellToFace_length c, cellToFace_spec h.faceKeys h.faceFound hc hi⟩

/-- **cell → cells**: `c' ∈ cell_to_cell(c)` iff `c' ≠ c` is a cell sharing a vertex triple with `c` -/
theorem cellToCell_eq_spec {m : Mesh} (h : Conforming m) {c c' : Nat} (hc : c < m.nC) :
    c' ∈ m.conn.cellToCell c ↔
      c' ≠ c ∧ c' < m.nC ∧ ∃ i < 4, ∃ j < 4, ((m.cell c).eraseIdx i).Perm ((m.cell c').eraseIdx j) := by
  rw [cellToCell_spec h.cell4 h.atMostTwo hc]
  constructor
  · rintro ⟨hne, f, h1, h2⟩
    have hf : f < m.nF := (mem_faceToCells.1 h1).1
    obtain ⟨_, i, hi, hp⟩ := (faceToCells_spec h.faceKeys hf).1 h1
    obtain ⟨hc', j, hj, hp'⟩ := (faceToCells_spec h.faceKeys hf).1 h2
    exact ⟨hne, hc', i, hi, j, hj, hp.symm.trans hp'⟩
  · rintro ⟨hne, hc', i, hi, j, hj, hp⟩
    obtain ⟨f, hf, _, hpf⟩ := cellToFace_spec h.faceKeys h.faceFound hc hi
    exact ⟨hne, f, (faceToCells_spec h.faceKeys hf).2 ⟨hc, i, hi, hpf⟩,
      (faceToCells_spec h.faceKeys hf).2 ⟨hc', j, hj, hpf.trans hp⟩⟩

/-- **vertex → cells**: `c ∈ vertex_to_cell(v)` iff `v` is a vertex of cell `c`; each cell once -/
theorem vertexToCell_eq_spec {m : Mesh} {v c : Nat} (hv : v < m.nV) :
    (c ∈ m.vertexToCell v ↔ c < m.nC ∧ v ∈ m.cell c) ∧ (m.vertexToCell v).Nodup :=
  vertexToCell_spec hv

/-! ## 5. Border / interior classification -/

/-- **border faces** are exactly the stored faces lying in exactly one cell -/
theorem border_faces_iff_one_cell {m : Mesh} (h : Conforming m) {f : Nat} :
    f ∈ m.conn.boundaryFaces ↔ f < m.nF ∧ ∃ c, m.conn.faceToCells f = [c] := by
  rw [mem_boundaryFaces]
  constructor
  · rintro ⟨hf, hl⟩
    refine ⟨hf, ?_⟩
    have hne := faceToCells_ne_nil h hf
    cases hm : m.conn.faceToCells f with
    | nil => exact absurd hm hne
    | cons a t =>
      cases t with
      | nil => exact ⟨a, rfl⟩
      | cons b t2 => rw [hm] at hl; simp at hl; omega
  · rintro ⟨hf, c, hc⟩
    exact ⟨hf, by rw [hc]; simp⟩

/-- border and interior faces partition the face ids (no repetition, disjoint, exhaustive) -/
theorem face_partition (k : Conn) :
    (k.boundaryFaces ++ k.interiorFaces).Perm (List.range k.m.nF)
    ∧ (∀ f, ¬ (f ∈ k.boundaryFaces ∧ f ∈ k.interiorFaces))
    ∧ k.boundaryFaces.Nodup ∧ k.interiorFaces.Nodup := face_partition_lemma k

theorem vertex_partition (k : Conn) :
    (k.boundaryVertices ++ k.interiorVertices).Perm (List.range k.m.nV)
    ∧ (∀ v, ¬ (v ∈ k.boundaryVertices ∧ v ∈ k.interiorVertices))
    ∧ k.boundaryVertices.Nodup ∧ k.interiorVertices.Nodup := vertex_partition_lemma k

theorem edge_partition (k : Conn) :
    (k.boundaryEdges ++ k.interiorEdges).Perm (List.range k.m.nE)
    ∧ (∀ e, ¬ (e ∈ k.boundaryEdges ∧ e ∈ k.interiorEdges))
    ∧ k.boundaryEdges.Nodup ∧ k.interiorEdges.Nodup := edge_partition_lemma k

/-- **border vertices** are the vertices of the border faces; `is_vertex_on_border` agrees with the list -/
theorem boundaryVertices_eq_spec (k : Conn) {v : Nat} :
    (v ∈ k.boundaryVertices ↔ v < k.m.nV ∧ ∃ f ∈ k.boundaryFaces, v ∈ k.m.face f)
    ∧ (k.isVertexOnBorder v = true ↔ ∃ f ∈ k.boundaryFaces, v ∈ k.m.face f)
    ∧ (v ∈ k.interiorVertices ↔ v < k.m.nV ∧ ¬ ∃ f ∈ k.boundaryFaces, v ∈ k.m.face f) :=
  ⟨mem_boundaryVertices k, isVertexOnBorder_iff k, mem_interiorVertices k⟩

/-- **border edges** are the sides of the border faces; `is_edge_on_border` agrees with the list -/
theorem boundaryEdges_eq_spec (k : Conn) {e : Nat} :
    (e ∈ k.boundaryEdges ↔ e < k.m.nE ∧ ∃ f ∈ k.boundaryFaces, e ∈ k.m.faceToEdges f)
    ∧ (k.isEdgeOnBorder e = true ↔ ∃ f ∈ k.boundaryFaces, e ∈ k.m.faceToEdges f)
    ∧ (∀ f, e ∈ k.m.faceToEdges f ↔ ∃ i < (k.m.face f).length,
        k.m.edgeIdD ((k.m.face f).getD i 0) ((k.m.face f).getD ((i + 1) % (k.m.face f).length) 0) = e) :=
  ⟨mem_boundaryEdges k, isEdgeOnBorder_iff k, fun _ => mem_faceToEdges⟩

/-! ## 6. Boundary surface and index maps -/

/-- vertex maps volume ↔ boundary are mutually inverse, and defined exactly on the vertices of border faces -/
theorem boundary_vertex_maps_inverse (k : Conn) {v i : Nat} :
    (k.m2bVertex v = some i ↔ k.b2mVertex i = some v)
    ∧ ((k.m2bVertex v).isSome ↔ ∃ f ∈ k.boundaryFaces, v ∈ k.m.face f) := by
  refine ⟨enumM2B_eq_some (boundaryVertexList_nodup k), ?_⟩
  unfold Conn.m2bVertex
  rw [enumM2B_isSome_iff, mem_boundaryVertexList]

/-- face maps volume ↔ boundary are mutually inverse, and defined exactly on the border faces -/
theorem boundary_face_maps_inverse (k : Conn) {f i : Nat} :
    (k.m2bFace f = some i ↔ k.b2mFace i = some f) ∧ ((k.m2bFace f).isSome ↔ f ∈ k.boundaryFaces) := by
  refine ⟨enumM2B_eq_some (face_partition_lemma k).2.2.1, ?_⟩
  unfold Conn.m2bFace
  rw [enumM2B_isSome_iff]

/-- the boundary surface consists of exactly the border faces: one triangle per border face, in the order of
`boundary_faces`, each a permutation of the stored face (no exception is raised on the way) -/
theorem boundary_faces_exactly_border {m : Mesh} (h : Conforming m) :
    m.conn.boundarySurface.length = m.conn.boundaryFaces.length
    ∧ ∀ (i f : Nat), m.conn.boundaryFaces[i]? = some f →
        ∃ F : List Nat, m.conn.boundarySurface[i]? = some (some F) ∧ F.Perm (m.face f) := by
  refine ⟨boundarySurface_length _, ?_⟩
  intro i f hf
  have hmem : f ∈ m.conn.boundaryFaces := List.mem_of_getElem? hf
  have hlt : f < m.nF := ((mem_boundaryFaces _).1 hmem).1
  obtain ⟨F, hF, hp⟩ := orientedFace_total h hlt
  exact ⟨F, by rw [boundarySurface_getElem?, hf]; simp [hF], hp⟩


/-- edge maps volume ↔ boundary: every border edge `e` has an image `m2b_edge[e]` among the edges of the boundary
surface, and `b2m_edge[m2b_edge[e]] = e` (so `m2b_edge` is injective and `b2m_edge` is its inverse) -/
theorem boundary_edge_maps_inverse {m : Mesh} (h : Conforming m) (hEK : (m.edges.map key).Nodup) :
    (∀ e ∈ m.conn.boundaryEdges, ∃ be, idOf m.conn.boundarySurfaceEdges (key (m.edge e)) = some be)
    ∧ (∀ b ∈ m.conn.edgeMapRoundTrip, b = true)
    ∧ m.conn.edgeMapRoundTrip.length = m.conn.boundaryEdges.length :=
  ⟨fun _ he => m2bEdge_isSome h he, edgeMapRoundTrip_all h hEK, by simp [Conn.edgeMapRoundTrip, Conn.m2bEdgeTable]⟩

theorem edgeKeys_of_flag {m : Mesh} (h : m.conforming = true) : (m.edges.map key).Nodup := Mouette.Vol.edgeKeys_of_flag h

/-! ## 6b. Edge → faces / cells -/

/-- **edge → faces, edge → cells as sets** (either setting of `config.sort_neighborhoods`): `edge_to_face(e)` lists
exactly the stored faces having `e` as a side, `edge_to_cell(e)` exactly the cells of those faces, each once;
the rotational sort only permutes the unsorted dictionaries. -/
theorem edge_to_cell_face_sets_eq_spec {m : Mesh} {sorted : Bool} {e : Nat} {cs fs : List Nat}
    (h : m.conn.edgeToCellFace sorted e = some (cs, fs)) :
    (∀ f, f ∈ fs ↔ e < m.nE ∧ f < m.nF ∧ e ∈ m.faceToEdges f)
    ∧ (∀ c, c ∈ cs ↔ ∃ f, (e < m.nE ∧ f < m.nF ∧ e ∈ m.faceToEdges f) ∧ c ∈ m.conn.faceToCells f)
    ∧ cs.Nodup := by
  obtain ⟨hc, hf⟩ := edgeToCellFace_perm m.conn h
  refine ⟨fun f => ?_, fun c => ?_, ?_⟩
  · rw [hf.mem_iff, mem_e2f]
  · rw [hc.mem_iff, mem_e2cRaw]
    constructor
    · rintro ⟨f, hf', hcf⟩; exact ⟨f, mem_e2f.1 hf', hcf⟩
    · rintro ⟨f, hf', hcf⟩; exact ⟨f, mem_e2f.2 hf', hcf⟩
  · exact hc.nodup_iff.2 (e2cRaw_nodup _ _)

/-- **rotational order, partial** (`edge_ring_sorted_partial`). Each of the two walks of `_sort_edge_neighborhoods`
around the edge `(A,B)` produces a chain: every crossed face is a stored face with vertex set `{A,B,p}` (it contains
the edge), every face that is really crossed lies in exactly the two consecutive cells, the entered cells are
pairwise distinct and new, and there is one more face than entered cells.

Full statement `edge_ring_sorted` (NOT proved here; checked by the oracle / correspondence on every generated mesh,
up to rotation and reversal): under `Conforming m` and the edge-umbrella hypothesis (the cells around `e` form one
fan or one cycle through faces containing `e`), if `edgeToCellFace true e = some (cs, fs)` then consecutive cells of
`cs` share a face containing `e`, consecutive faces of `fs` bound a common cell, the sequence is cyclic for an
interior edge and runs from border face to border face for a border edge. What is missing is the composition of the
two chains through the stable sort by walk keys. -/
theorem edge_ring_sorted_partial {m : Mesh} (h : Conforming m) (A B fuel c p : Nat) (seen cs fs : List Nat)
    (hw : m.conn.walk A B fuel c p seen = some (cs, fs)) :
    WalkChain m.conn A B c cs fs ∧ (∀ x ∈ cs, x ∉ seen) ∧ cs.Nodup ∧ fs.length = cs.length + 1
    ∧ (∀ q face, m.faceId [A, B, q] = some face → (m.face face).Perm [A, B, q])
    ∧ (∀ c1 f c2, m.conn.otherFaceSide c1 f = some c2 →
        c1 ∈ m.conn.faceToCells f ∧ c2 ∈ m.conn.faceToCells f ∧ (m.conn.faceToCells f).length = 2) := by
  obtain ⟨h1, h2, h3, h4⟩ := walk_chain m.conn A B fuel c p seen cs fs hw
  exact ⟨h1, h2, h3, h4, fun q face hq => ((faceId_eq_some_iff h.faceKeys).1 hq).2, fun _ _ _ ho => otherFaceSide_some ho⟩

/-- **rotational order of `edge_to_cell`** (P1, cells). If the two walks of `_sort_edge_neighborhoods` around the edge
`e = (A,B)` reach every cell around `e` (edge-umbrella hypothesis `hcover`: the cells around `e` form one fan or one
cycle), then the sorted answer is exactly: backward walk reversed, start cell, forward walk; both walks are
`WalkChain`s (consecutive cells lie on the two sides of a stored face containing `A` and `B`), and no cell repeats.
(The same statement for `edge_to_face`, whose closing face gets its key overwritten, is not proved:
oracle/correspondence only.) -/
theorem edge_to_cell_rotational_order (k : Conn) {e A B c0 p1 p2 : Nat} {rest cs1 fs1 cs2 fs2 : List Nat}
    (hedge : k.m.edge e = [A, B]) (hraw : k.e2cRaw e = c0 :: rest)
    (hpiv : (k.m.cell c0).filter (fun x => x != A && x != B) = [p1, p2])
    (hw1 : k.walk A B (k.m.nC + 1) c0 p1 [c0] = some (cs1, fs1))
    (hw2 : k.walk A B (k.m.nC + 1) c0 p2 (cs1.reverse ++ [c0]) = some (cs2, fs2))
    (hcover : (k.e2cRaw e).Perm (cs2.reverse ++ c0 :: cs1)) :
    (∃ fs, k.sortEdge e = some (cs2.reverse ++ c0 :: cs1, fs))
    ∧ WalkChain k A B c0 cs1 fs1 ∧ WalkChain k A B c0 cs2 fs2 ∧ (c0 :: cs1 ++ cs2).Nodup :=
  sortEdge_cells_order k hedge hraw hpiv hw1 hw2 hcover

/-! ## 6c. Round 2: closed boundary, rotational order of `edge_to_face`, auxiliary accessors -/

/-- **the extracted boundary surface is closed** (`∂∂ = 0 mod 2`). For any two distinct vertices `u v`: the number of
border faces of the volume containing both, and the number of triangles of the extracted boundary surface containing
both, are equal and EVEN — every undirected edge of the boundary surface lies in an even number of boundary faces.
(Counting argument: in each tetrahedron `{u,v}` lies in exactly 2 of the 4 faces; a face in two cells is counted twice.) -/
theorem boundary_closed {m : Mesh} (h : Conforming m) {u v : Nat} (huv : u ≠ v) :
    (m.conn.boundaryFaces.filter fun f => hasEdge (m.face f) u v).length % 2 = 0
    ∧ m.conn.surfaceEdgeDegree u v = (m.conn.boundaryFaces.filter fun f => hasEdge (m.face f) u v).length
    ∧ m.conn.surfaceEdgeDegree u v % 2 = 0 :=
  ⟨border_faces_with_edge_even h huv, surfaceEdgeDegree_eq h u v, surface_closed h huv⟩

/-- **exactly two** under edge-manifoldness of the boundary surface (the decidable predicate
`Conn.boundaryEdgeManifold`: no edge of the surface lies in more than two of its triangles): every side of every
triangle of the boundary surface is shared by exactly two triangles. -/
theorem boundary_closed_exactly_two {m : Mesh} (h : Conforming m) (hman : m.conn.boundaryEdgeManifold = true)
    {F : List Nat} (hF : F ∈ m.conn.surfaceFaces) {i : Nat} (hi : i < F.length) :
    m.conn.surfaceEdgeDegree (F.getD i 0) (F.getD ((i + 1) % F.length) 0) = 2 :=
  surface_closed_exactly_two h hman hF hi

/-- `face_to_cells(f)` lists every incident cell exactly once (in increasing order of cell id) -/
theorem faceToCells_each_once {m : Mesh} (h : Conforming m) {f : Nat} (hf : f < m.nF) :
    (m.conn.faceToCells f).Nodup
    ∧ m.conn.faceToCells f = (List.range m.nC).filter fun c => (m.cellToFace c).contains f :=
  ⟨faceToCells_nodup h hf, faceToCells_eq_filter h hf⟩

/-- **other_face_side(c, f)** = the cell `c' ≠ c` on the other side of stored face `f`; `None` iff there is none
(border face, or `c` not on `f`) -/
theorem other_face_side_eq_spec {m : Mesh} (h : Conforming m) {c f c' : Nat} (hf : f < m.nF) :
    m.conn.otherFaceSide c f = some c' ↔ c ≠ c' ∧ c ∈ m.conn.faceToCells f ∧ c' ∈ m.conn.faceToCells f :=
  otherFaceSide_spec h hf

/-- **common_face(c1, c2)** = the stored face whose vertices are the three vertices shared by the two cells; `None`
when the cells do not share exactly three vertices -/
theorem common_face_eq_spec {m : Mesh} (h : Conforming m) {c1 c2 f : Nat} (hc1 : c1 < m.nC) :
    m.commonFace c1 c2 = some f ↔
      ((m.cell c1).filter fun v => (m.cell c2).contains v).length = 3
      ∧ f < m.nF ∧ (m.face f).Perm ((m.cell c1).filter fun v => (m.cell c2).contains v) :=
  commonFace_spec h hc1

/-- **in_cell_index(c, v)** = the position of `v` in the cell; `None` iff `v` is not a vertex of the cell -/
theorem in_cell_index_eq_spec {m : Mesh} (h : Conforming m) {c : Nat} (hc : c < m.nC) (v : Nat) :
    (∀ i, m.inCellIndex c v = some i ↔ ∃ hi : i < (m.cell c).length, (m.cell c)[i] = v)
    ∧ (m.inCellIndex c v = none ↔ v ∉ m.cell c) :=
  inCellIndex_spec m c v (h.cellNodup c hc)

/-- **in_cell_face_index(c, f)** = the unique local index `i` with: stored face `f` = the cell minus its `i`-th vertex;
`None` iff `f` is not a face of the cell (consistent with `cell_to_face`: `cellToFace_opposite`) -/
theorem in_cell_face_index_eq_spec {m : Mesh} (h : Conforming m) {c f : Nat} (hc : c < m.nC) (hf : f < m.nF) :
    (∀ i, m.inCellFaceIndex c f = some i ↔ i < 4 ∧ (m.face f).Perm ((m.cell c).eraseIdx i))
    ∧ (m.inCellFaceIndex c f = none ↔ ∀ i < 4, ¬ (m.face f).Perm ((m.cell c).eraseIdx i)) :=
  inCellFaceIndex_spec h hc hf

/-- **cell_to_edge(c)** = the stored edges joining two vertices of the cell -/
theorem cell_to_edge_eq_spec {m : Mesh} (hEK : (m.edges.map key).Nodup) {c e : Nat} :
    e ∈ m.cellToEdge c ↔ e < m.nE ∧ ∃ i < (m.cell c).length, ∃ j < i,
      (m.edge e).Perm [(m.cell c).getD i 0, (m.cell c).getD j 0] :=
  cellToEdge_spec hEK

/-- **rotational order of `edge_to_face`, border edge** (open fan): if the faces crossed by the two walks are pairwise
distinct and are all the stored faces around `e`, the sorted answer is: backward walk reversed, then forward walk
(both `WalkChain`s, see `edge_ring_sorted_partial`) -/
theorem edge_to_face_order_open (k : Conn) {e A B c0 p1 p2 : Nat} {rest cs1 fs1 cs2 fs2 : List Nat}
    (hedge : k.m.edge e = [A, B]) (hraw : k.e2cRaw e = c0 :: rest)
    (hpiv : (k.m.cell c0).filter (fun x => x != A && x != B) = [p1, p2])
    (hw1 : k.walk A B (k.m.nC + 1) c0 p1 [c0] = some (cs1, fs1))
    (hw2 : k.walk A B (k.m.nC + 1) c0 p2 (cs1.reverse ++ [c0]) = some (cs2, fs2))
    (hcover : (k.e2f.getD e []).Perm (fs2.reverse ++ fs1)) (hnd : (fs1 ++ fs2).Nodup) :
    (∃ cs, k.sortEdge e = some (cs, fs2.reverse ++ fs1))
    ∧ WalkChain k A B c0 cs1 fs1 ∧ WalkChain k A B c0 cs2 fs2 :=
  ⟨sortEdge_faces_open k hedge hraw hpiv hw1 hw2 hcover hnd,
   (walk_chain k A B _ _ _ _ _ _ hw1).1, (walk_chain k A B _ _ _ _ _ _ hw2).1⟩

/-- **rotational order of `edge_to_face`, interior edge** (closed ring): the forward walk crosses `fs ++ [g]` and comes
back to the start cell; the backward walk stops at once on the same face `g`, whose key is overwritten; the sorted
answer is `g :: fs`, a rotation of the ring crossed by the forward walk -/
theorem edge_to_face_order_ring (k : Conn) {e A B c0 p1 p2 g : Nat} {rest cs1 fs cs2 : List Nat}
    (hedge : k.m.edge e = [A, B]) (hraw : k.e2cRaw e = c0 :: rest)
    (hpiv : (k.m.cell c0).filter (fun x => x != A && x != B) = [p1, p2])
    (hw1 : k.walk A B (k.m.nC + 1) c0 p1 [c0] = some (cs1, fs ++ [g]))
    (hw2 : k.walk A B (k.m.nC + 1) c0 p2 (cs1.reverse ++ [c0]) = some (cs2, [g]))
    (hcover : (k.e2f.getD e []).Perm (g :: fs)) (hnd : (g :: fs).Nodup) :
    (∃ cs, k.sortEdge e = some (cs, g :: fs)) ∧ WalkChain k A B c0 cs1 (fs ++ [g]) :=
  ⟨sortEdge_faces_ring k hedge hraw hpiv hw1 hw2 hcover hnd, (walk_chain k A B _ _ _ _ _ _ hw1).1⟩

/-! ## 7. Non-vacuity: a concrete conforming mesh (two tetrahedra glued along a face) -/

def twoTets : Mesh :=
  { verts := [⟨0,0,0⟩, ⟨1,0,0⟩, ⟨0,1,0⟩, ⟨0,0,1⟩, ⟨1,1,1⟩],
    edges := [[1,3],[1,2],[2,3],[0,2],[0,3],[0,1],[3,4],[2,4],[1,4]],
    faces := [[1,3,2],[0,2,3],[3,1,0],[0,1,2],[2,4,3],[1,3,4],[4,2,1]],
    cells := [[0,1,2,3],[1,2,3,4]] }

example : twoTets.conforming = true := by decide +kernel
example : Conforming twoTets := conforming_of_flag (by decide +kernel)
example : twoTets.conn.faceToCells 0 = [0, 1] ∧ twoTets.conn.cellToCell 0 = [1] := by decide +kernel
example : twoTets.conn.boundaryFaces = [1, 2, 3, 4, 5, 6] ∧ twoTets.conn.interiorFaces = [0] := by decide +kernel
/-- the hypotheses of `edge_to_cell_rotational_order` are satisfiable: edge 1 = (1,2) of `twoTets` -/
example : ∃ fs, twoTets.conn.sortEdge 1 = some ([1, 0], fs) :=
  (edge_to_cell_rotational_order twoTets.conn (e := 1) (A := 1) (B := 2) (c0 := 0) (p1 := 0) (p2 := 3)
    (rest := [1]) (cs1 := []) (fs1 := [3]) (cs2 := [1]) (fs2 := [0, 6])
    (by decide +kernel) (by decide +kernel) (by decide +kernel) (by decide +kernel) (by decide +kernel)
    (by
      have h : twoTets.conn.e2cRaw 1 = [0, 1] := by decide +kernel
      rw [h]; exact List.Perm.swap 1 0 [])).1
example : twoTets.conn.walk 1 2 3 0 0 [0] = some ([], [3]) ∧ twoTets.conn.walk 1 2 3 0 3 [0] = some ([1], [0, 6]) := by
  decide +kernel

/-- three tetrahedra around the interior edge (0,1) -/
def ring3 : Mesh :=
  { verts := [⟨0,0,-1⟩, ⟨0,0,1⟩, ⟨1,0,0⟩, ⟨-1,1,0⟩, ⟨-1,-1,0⟩],
    edges := [[1,3],[2,3],[1,2],[0,2],[0,3],[0,1],[1,4],[3,4],[0,4],[2,4]],
    faces := [[1,3,2],[0,2,3],[3,1,0],[0,1,2],[1,4,3],[0,3,4],[4,1,0],[1,2,4],[0,4,2]],
    cells := [[0,1,2,3],[0,1,3,4],[0,1,4,2]] }

example : ring3.conforming = true ∧ twoTets.conn.boundaryEdgeManifold = true ∧ ring3.conn.boundaryEdgeManifold = true := by
  decide +kernel
example : ring3.conn.surfaceEdgeDegree 0 2 = 2 ∧ ring3.conn.surfaceEdgeDegree 0 1 = 0 ∧ twoTets.conn.surfaceEdgeDegree 1 2 = 2 := by
  decide +kernel
/-- the hypotheses of `edge_to_face_order_ring` are satisfiable: interior edge 5 = (0,1) of `ring3` -/
example : ∃ cs, ring3.conn.sortEdge 5 = some (cs, [2, 3, 6]) :=
  (edge_to_face_order_ring ring3.conn (e := 5) (A := 0) (B := 1) (c0 := 0) (p1 := 2) (p2 := 3) (g := 2)
    (rest := [1, 2]) (cs1 := [2, 1]) (fs := [3, 6]) (cs2 := [])
    (by decide +kernel) (by decide +kernel) (by decide +kernel) (by decide +kernel) (by decide +kernel)
    (by have h : ring3.conn.e2f.getD 5 [] = [2, 3, 6] := by decide +kernel
        rw [h])
    (by decide)).1
/-- … and of `edge_to_face_order_open`: border edge 1 = (1,2) of `twoTets` -/
example : ∃ cs, twoTets.conn.sortEdge 1 = some (cs, [6, 0, 3]) :=
  (edge_to_face_order_open twoTets.conn (e := 1) (A := 1) (B := 2) (c0 := 0) (p1 := 0) (p2 := 3)
    (rest := [1]) (cs1 := []) (fs1 := [3]) (cs2 := [1]) (fs2 := [0, 6])
    (by decide +kernel) (by decide +kernel) (by decide +kernel) (by decide +kernel) (by decide +kernel)
    (by have h : twoTets.conn.e2f.getD 1 [] = [0, 3, 6] := by decide +kernel
        rw [h]; decide)
    (by decide)).1
example : twoTets.conn.otherFaceSide 0 0 = some 1 ∧ twoTets.commonFace 0 1 = some 0 ∧ twoTets.inCellFaceIndex 1 0 = some 3
    ∧ twoTets.inCellIndex 1 4 = some 3 ∧ twoTets.cellToEdge 0 = [5, 3, 1, 4, 0, 2] := by decide +kernel

end Mouette.Props.C03
