import Mouette.Generated.C14Verts
import Mouette.Lemmas.GridIndex
import Mathlib.Tactic.Ring
import Mathlib.Tactic.LinearCombination
import Mathlib.Tactic.Linarith
import Mathlib.Tactic.FieldSimp
import Mathlib.Tactic.Positivity
import Mathlib.Algebra.Order.Field.Basic
/-!
# C14 (round 3) — geometry of the TRANSLATED vertex expressions, for all parameters

`Mouette.Generated.C14Verts` is produced on every run by `vlib/pyverts.py` from the vertex-emitting code of
`mouette/procedural/{flat,shapes,rings}.py` (and `rotate_2d`, `rotate_around_axis` of `geometry/rotations.py`): positions are
expressions over an arbitrary field `K` with uninterpreted `cos sin : K → K`, `pi : K` (and `normalize`, `fmin`, `fmax`, float
guards as opaque parameters); radii, centres and end points appear under the names the source gives them. The only facts
assumed about the uninterpreted functions are stated as hypotheses (`cos² + sin² = 1`; `normalize` returns a unit multiple).
Each emitted vertex is a named point function applied to the loop indices, and `*_vertex_index` theorems say at which list
position it lands — the index arithmetic the face loops rely on ("vertex i·n + j is the point (i, j)").
-/
namespace Mouette.Props.C14
open Mouette.Generated.C14Verts Mouette.GridIndex

section field
variable {K : Type} [Field K]

/-! ## torus -/

/-- vertex `i * minor_segments + j` of the torus is the point emitted at loop indices (i, j) -/
theorem torus_vertex_index (cos sin : K → K) (pi : K) (M N : Nat) (t : Bool) (R r : K) (i j : Nat) (hi : i < M) (hj : j < N) :
    (torusVerts cos sin pi M N t R r)[i * N + j]? = some (torusPt0 cos sin pi M N t R r i j) ∧
    (torusVerts cos sin pi M N t R r).length = M * N := by
  unfold torusVerts
  exact ⟨getElem?_grid M N _ i j hi hj, length_grid M N _⟩

/-- every emitted point lies on the torus of the NAMED radii: (x²+y²+z²+R²−r²)² = 4R²(x²+y²), and z² ≤ … via
x²+y² = (R + r cos v)² — for all segment counts and radii -/
theorem torus_point_on_torus (cos sin : K → K) (pi : K) (hcs : ∀ a, cos a ^ 2 + sin a ^ 2 = 1) (M N : Nat) (t : Bool)
    (R r : K) (i j : Nat) :
    let p := torusPt0 cos sin pi M N t R r i j
    (p.1 ^ 2 + p.2.1 ^ 2 + p.2.2 ^ 2 + R ^ 2 - r ^ 2) ^ 2 = 4 * R ^ 2 * (p.1 ^ 2 + p.2.1 ^ 2) := by
  unfold torusPt0
  extract_lets u v                       -- the two angles; every later local (x, y, z, helpers) is inlined
  have hu := hcs u
  have hv := hcs v
  clear_value u v
  simp +zetaDelta only []
  linear_combination ((R + r * cos v)^2 * (((R + r * cos v)^2 * (cos u^2 + sin u^2 - 1) + r^2 * (cos v^2 + sin v^2 - 1)) + 4 * R * (R + r * cos v)) - 4 * R^2 * (R + r * cos v)^2) * hu + (r^2 * (((R + r * cos v)^2 * (cos u^2 + sin u^2 - 1) + r^2 * (cos v^2 + sin v^2 - 1)) + 4 * R * (R + r * cos v))) * hv

theorem torus_on_torus_all (cos sin : K → K) (pi : K) (hcs : ∀ a, cos a ^ 2 + sin a ^ 2 = 1) (M N : Nat) (t : Bool)
    (R r : K) : ∀ p ∈ torusVerts cos sin pi M N t R r,
    (p.1 ^ 2 + p.2.1 ^ 2 + p.2.2 ^ 2 + R ^ 2 - r ^ 2) ^ 2 = 4 * R ^ 2 * (p.1 ^ 2 + p.2.1 ^ 2) := by
  intro p hp
  simp only [torusVerts, List.mem_flatMap, List.mem_range, List.mem_cons, List.mem_nil_iff, or_false] at hp
  obtain ⟨i, _, j, _, rfl⟩ := hp
  exact torus_point_on_torus cos sin pi hcs M N t R r i j

/-! ## uv sphere -/

theorem sphere_uv_vertex_index (cos sin : K → K) (pi : K) (a b : Nat) (r : K) (c : K × K × K) :
    (sphere_uvVerts cos sin pi a b r c)[0]? = some (sphere_uvPt0 cos sin pi a b r c) ∧
    (∀ i j, i < a → j < b → (sphere_uvVerts cos sin pi a b r c)[1 + (i * b + j)]? = some (sphere_uvPt1 cos sin pi a b r c i j)) ∧
    (sphere_uvVerts cos sin pi a b r c)[1 + a * b]? = some (sphere_uvPt2 cos sin pi a b r c) ∧
    (sphere_uvVerts cos sin pi a b r c).length = a * b + 2 := by
  unfold sphere_uvVerts
  refine ⟨rfl, ?_, ?_, ?_⟩
  · intro i j hi hj
    rw [List.singleton_append, List.getElem?_cons, if_neg (by omega), Nat.add_sub_cancel_left,
      List.getElem?_append_left (by rw [length_grid]; have := Nat.mul_le_mul_right b (show i + 1 ≤ a by omega); rw [Nat.succ_mul] at this; omega)]
    exact getElem?_grid a b _ i j hi hj
  · rw [List.singleton_append, List.getElem?_cons, if_neg (by omega), Nat.add_sub_cancel_left,
      List.getElem?_append_right (by rw [length_grid])]
    simp
  · rw [List.length_append, List.length_append, length_grid]; simp; omega

/-- every vertex of `sphere_uv` is at squared distance radius² from the centre — both honoured as named -/
theorem sphere_uv_on_sphere_all (cos sin : K → K) (pi : K) (hcs : ∀ t, cos t ^ 2 + sin t ^ 2 = 1) (a b : Nat) (r : K)
    (c : K × K × K) : ∀ p ∈ sphere_uvVerts cos sin pi a b r c,
    (p.1 - c.1) ^ 2 + (p.2.1 - c.2.1) ^ 2 + (p.2.2 - c.2.2) ^ 2 = r ^ 2 := by
  intro p hp
  simp only [sphere_uvVerts, List.mem_append, List.mem_flatMap, List.mem_range, List.mem_cons, List.mem_nil_iff, or_false] at hp
  rcases hp with rfl | ⟨i, _, j, _, rfl⟩ | rfl
  · simp only [sphere_uvPt0]; ring
  · unfold sphere_uvPt1
    extract_lets phi theta               -- the two angles; every later local is inlined
    have h1 := hcs phi
    have h2 := hcs theta
    clear_value phi theta
    simp +zetaDelta only []
    linear_combination (r ^ 2 * sin phi ^ 2) * h2 + r ^ 2 * h1
  · simp only [sphere_uvPt2]; ring


/-! ## unit grid (indexing) -/

/-- vertex `i * nv + j` of `unit_grid` is the point emitted at (i, j) -/
theorem unit_grid_vertex_index (cos sin : K → K) (pi : K) (nu nv : Nat) (t u : Bool) (i j : Nat) (hi : i < nu) (hj : j < nv) :
    (unit_gridVerts cos sin pi nu nv t u)[i * nv + j]? = some (unit_gridPt0 cos sin pi nu nv t u i j) ∧
    (unit_gridVerts cos sin pi nu nv t u).length = nu * nv := by
  unfold unit_gridVerts
  exact ⟨getElem?_grid nu nv _ i j hi hj, length_grid nu nv _⟩


/-! ## ring -/

/-- `ring`: vertex 0 is the apex computed by the bisection (opaque here); every other vertex lies on the unit circle of the
plane z = 0; the loop index i emits the rim vertex at angle 2·i·π/N -/
theorem ring_rim_on_unit_circle (cos sin : K → K) (pi : K) (fmin fmax : K → K → K) (hcs : ∀ t, cos t ^ 2 + sin t ^ 2 = 1)
    (apex : K × K × K) (N c : Nat) (o : Bool) (defect : K) :
    (ringVerts cos sin pi fmin fmax apex N c o defect)[0]? = some apex ∧
    (∀ k p, 1 ≤ k → (ringVerts cos sin pi fmin fmax apex N c o defect)[k]? = some p → p.1 ^ 2 + p.2.1 ^ 2 = 1 ∧ p.2.2 = 0) ∧
    (∀ i, ringPt2 cos sin pi fmin fmax apex N c o defect i =
      (cos (((2 * i : Nat) : K) * pi / (N : K)), sin (((2 * i : Nat) : K) * pi / (N : K)), 0)) := by
  refine ⟨?_, ?_, fun i => rfl⟩
  · simp [ringVerts]
  · intro k p hk h
    obtain ⟨k', rfl⟩ : ∃ k', k = k' + 1 := ⟨k - 1, by omega⟩
    simp only [ringVerts, List.singleton_append, List.set_cons_zero, List.getElem?_cons_succ] at h
    have hm := List.mem_of_getElem? h
    simp only [List.mem_cons, List.mem_append, List.mem_flatMap, List.mem_range'_1, List.mem_nil_iff, or_false] at hm
    rcases hm with rfl | ⟨i, _, rfl⟩ | hm
    · simp [ringPt1]
    · simp only [ringPt2]
      exact ⟨hcs _, trivial⟩
    · cases o
      · simp at hm
      · simp only [if_true, List.mem_cons, List.mem_nil_iff, or_false] at hm
        subst hm; simp [ringPt3]

/-- the open ring closes with a copy of the first rim vertex -/
theorem ring_open_last_is_first (cos sin : K → K) (pi : K) (fmin fmax : K → K → K) (apex : K × K × K) (N c : Nat) (defect : K) :
    ringPt3 cos sin pi fmin fmax apex N c true defect = ringPt1 cos sin pi fmin fmax apex N c true defect := rfl

/-! ## flat ring -/

/-- the rim direction of `flat_ring` stays on the unit circle of the plane z = 0, for every iteration -/
theorem flat_ring_rim_unit (cos sin : K → K) (pi : K) (fmin fmax : K → K → K) (hcs : ∀ t, cos t ^ 2 + sin t ^ 2 = 1)
    (N c : Nat) (defect : K) (k : Nat) :
    (flat_ringState0 cos sin pi fmin fmax N c defect k).1 ^ 2 + (flat_ringState0 cos sin pi fmin fmax N c defect k).2.1 ^ 2 = 1 ∧
    (flat_ringState0 cos sin pi fmin fmax N c defect k).2.2 = 0 := by
  induction k with
  | zero => simp [flat_ringState0]
  | succ k ih =>
    rw [flat_ringState0]
    extract_lets md df d0 ang
    beta_reduce
    extract_lets res d2
    refine ⟨?_, rfl⟩
    have h := hcs ang
    simp only [d2, res, rotate_2d]
    linear_combination (cos ang ^ 2 + sin ang ^ 2) * ih.1 + h

/-- each iteration turns the rim direction by the same angle `ang`, with `N · ang = 2π − clamp(defect)`: the apex of the
flat ring sees the total angle 2π − defect per cover, i.e. has the requested angle defect -/
theorem flat_ring_angle (cos sin : K → K) (pi : K) (fmin fmax : K → K → K) (N c : Nat) (defect : K) (hN : (N : K) ≠ 0) :
    ∃ ang : K, (N : K) * ang = 2 * pi - fmax (fmin defect (2 * pi - 1 / 100)) 0 ∧
      ∀ k, flat_ringState0 cos sin pi fmin fmax N c defect (k + 1) =
        ((rotate_2d cos sin pi (flat_ringState0 cos sin pi fmin fmax N c defect k) ang).1,
         (rotate_2d cos sin pi (flat_ringState0 cos sin pi fmin fmax N c defect k) ang).2.1, 0) := by
  refine ⟨(2 * pi - fmax (fmin defect (2 * pi - 1 / 100)) 0) / (N : K), by field_simp, fun k => rfl⟩

/-- vertex 0 is the apex at the origin, vertex 1 the direction (1,0,0), vertex i+2 the direction after i+1 turns -/
theorem flat_ring_vertex_index (cos sin : K → K) (pi : K) (fmin fmax : K → K → K) (N c : Nat) (defect : K) :
    (flat_ringVerts cos sin pi fmin fmax N c defect)[0]? = some (0, 0, 0) ∧
    (flat_ringVerts cos sin pi fmin fmax N c defect)[1]? = some (1, 0, 0) ∧
    (∀ i, i < N * c → (flat_ringVerts cos sin pi fmin fmax N c defect)[i + 2]? =
      some (flat_ringState0 cos sin pi fmin fmax N c defect (i + 1))) ∧
    (flat_ringVerts cos sin pi fmin fmax N c defect).length = N * c + 2 := by
  refine ⟨rfl, rfl, ?_, ?_⟩
  · intro i hi
    simp only [flat_ringVerts, List.singleton_append, List.getElem?_cons_succ]
    have := getElem?_flatMap_const (N * c) 1 (fun i => [flat_ringPt2 cos sin pi fmin fmax N c defect i
      (flat_ringState0 cos sin pi fmin fmax N c defect i)]) (by intro i; rfl) i 0 hi (by omega)
    simp only [Nat.mul_one, Nat.add_zero] at this
    rw [this]; rfl
  · simp only [flat_ringVerts, List.singleton_append, List.length_cons]
    rw [length_row]


/-! ## cylinder -/

/-- `rotate_around_axis` (Rodrigues' matrix, as translated from geometry/rotations.py) keeps a unit vector orthogonal to
the unit axis unit and orthogonal to the axis — whatever the early-exit guard decides -/
theorem rotate_around_axis_unit_orth (cos sin : K → K) (pi : K) (normalize : K × K × K → K × K × K)
    (g : K → K × K × K → Bool) (hcs : ∀ t, cos t ^ 2 + sin t ^ 2 = 1) (inp ax : K × K × K) (angle : K)
    (hidem : normalize ax = ax) (ha : ax.1 ^ 2 + ax.2.1 ^ 2 + ax.2.2 ^ 2 = 1)
    (ht : inp.1 * ax.1 + inp.2.1 * ax.2.1 + inp.2.2 * ax.2.2 = 0) (hn : inp.1 ^ 2 + inp.2.1 ^ 2 + inp.2.2 ^ 2 = 1) :
    let r := rotate_around_axis cos sin pi normalize g inp ax angle
    r.1 * ax.1 + r.2.1 * ax.2.1 + r.2.2 * ax.2.2 = 0 ∧ r.1 ^ 2 + r.2.1 ^ 2 + r.2.2 ^ 2 = 1 := by
  unfold rotate_around_axis
  extract_lets c s axis out u v w r
  have hax : axis = ax := hidem
  have h := hcs angle
  simp only [r]
  split
  · exact ⟨ht, hn⟩
  · simp only [u, v, w, hax, c, s]
    obtain ⟨x, y, z⟩ := inp
    obtain ⟨a, b, d⟩ := ax
    simp only at ha ht hn ⊢
    constructor
    · linear_combination (cos angle + (1 - cos angle) * (a * a + b * b + d * d)) * ht
    · linear_combination ((x * a + y * b + z * d) * (-(sin angle) ^ 2 + (1 - cos angle) ^ 2 * (a ^ 2 + b ^ 2 + d ^ 2) + 2 * cos angle * (1 - cos angle))) * ht + (sin angle ^ 2 * (x ^ 2 + y ^ 2 + z ^ 2)) * ha + (cos angle ^ 2 + sin angle ^ 2) * hn + h

/-- `cylinder`: the ring vertex emitted for end point `P` and index `i` lies in the plane through `P` orthogonal to the
axis, at squared distance radius² from `P` (hence from the axis): radius and end points honoured as named.
Hypotheses on the abstract `normalize`: it returns a multiple of its argument; the normalised axis is a unit vector and a
fixed point of `normalize`; the normalised tangent is a unit vector (the tangent chosen by the guard is non-zero). -/
theorem cylinder_ring_point (cos sin : K → K) (pi : K) (normalize : K × K × K → K × K × K) (g0 : K × K × K → Bool)
    (g1 : K → K × K × K → Bool) (hcs : ∀ t, cos t ^ 2 + sin t ^ 2 = 1) (N : Nat) (fc : Bool) (radius : K)
    (P1 P2 P : K × K × K) (i : Nat)
    (hcol : ∀ v : K × K × K, ∃ k : K, normalize v = (k * v.1, k * v.2.1, k * v.2.2)) :
    let a := normalize (P2.1 - P1.1, P2.2.1 - P1.2.1, P2.2.2 - P1.2.2)
    let t3 := normalize (if g0 (a.2.1, -a.1, 0) = true then (0, a.2.2, -a.2.1) else (a.2.1, -a.1, 0))
    a.1 ^ 2 + a.2.1 ^ 2 + a.2.2 ^ 2 = 1 → normalize a = a → t3.1 ^ 2 + t3.2.1 ^ 2 + t3.2.2 ^ 2 = 1 →
    let p := cylinderPt0 cos sin pi normalize g0 g1 N fc radius P1 P2 P i
    (p.1 - P.1) * a.1 + (p.2.1 - P.2.1) * a.2.1 + (p.2.2 - P.2.2) * a.2.2 = 0 ∧
    (p.1 - P.1) ^ 2 + (p.2.1 - P.2.1) ^ 2 + (p.2.2 - P.2.2) ^ 2 = radius ^ 2 := by
  intro a t3 ha hidem ht3
  unfold cylinderPt0
  extract_lets t t2 t3' res Pi p
  have e3 : t3' = t3 := rfl
  have hort : t3.1 * a.1 + t3.2.1 * a.2.1 + t3.2.2 * a.2.2 = 0 := by
    obtain ⟨k, hk⟩ := hcol (if g0 (a.2.1, -a.1, 0) = true then (0, a.2.2, -a.2.1) else (a.2.1, -a.1, 0))
    show (normalize _).1 * a.1 + (normalize _).2.1 * a.2.1 + (normalize _).2.2 * a.2.2 = 0
    rw [hk]
    split <;> (simp only []; ring)
  have hr := rotate_around_axis_unit_orth cos sin pi normalize g1 hcs t3 a
    ((((2 : K) * pi) * ((i : Nat) : K)) / ((N : Nat) : K)) hidem ha hort ht3
  simp only at hr
  have hres : res = rotate_around_axis cos sin pi normalize g1 t3 a ((((2 : K) * pi) * ((i : Nat) : K)) / ((N : Nat) : K)) := rfl
  rw [← hres] at hr
  simp only [p, Pi]
  constructor
  · linear_combination radius * hr.1
  · linear_combination radius ^ 2 * hr.2


/-- vertex i is the i-th point of the ring around P1, vertex N+i the i-th point of the ring around P2, and with caps the
vertices 2N and 2N+1 are the end points P1 and P2 themselves (the indices the face loops use) -/
theorem cylinder_vertex_index (cos sin : K → K) (pi : K) (normalize : K × K × K → K × K × K) (g0 : K × K × K → Bool)
    (g1 : K → K × K × K → Bool) (N : Nat) (fc : Bool) (radius : K) (P1 P2 : K × K × K) :
    (∀ i, i < N → (cylinderVerts cos sin pi normalize g0 g1 N fc radius P1 P2)[i]? =
        some (cylinderPt0 cos sin pi normalize g0 g1 N fc radius P1 P2 P1 i) ∧
      (cylinderVerts cos sin pi normalize g0 g1 N fc radius P1 P2)[N + i]? =
        some (cylinderPt0 cos sin pi normalize g0 g1 N fc radius P1 P2 P2 i)) ∧
    (fc = true → (cylinderVerts cos sin pi normalize g0 g1 N fc radius P1 P2)[2 * N]? = some P1 ∧
      (cylinderVerts cos sin pi normalize g0 g1 N fc radius P1 P2)[2 * N + 1]? = some P2) := by
  constructor
  · intro i hi
    simp only [cylinderVerts, List.flatMap_cons, List.flatMap_nil, List.append_nil, List.append_assoc]
    constructor
    · rw [List.getElem?_append_left (by rw [length_row]; exact hi)]
      exact getElem?_row N _ i hi
    · rw [List.getElem?_append_right (by rw [length_row]; omega), length_row, Nat.add_sub_cancel_left,
        List.getElem?_append_left (by rw [length_row]; exact hi)]
      exact getElem?_row N _ i hi
  · intro h
    subst h
    simp only [cylinderVerts, List.flatMap_cons, List.flatMap_nil, List.append_nil, List.append_assoc, if_true]
    constructor
    · rw [List.getElem?_append_right (by rw [length_row]; omega), length_row,
        List.getElem?_append_right (by rw [length_row]; omega), length_row]
      have : 2 * N - N - N = 0 := by omega
      rw [this]; rfl
    · rw [List.getElem?_append_right (by rw [length_row]; omega), length_row,
        List.getElem?_append_right (by rw [length_row]; omega), length_row]
      have : 2 * N + 1 - N - N = 1 := by omega
      rw [this]; rfl
end field

section ordered
variable {K : Type} [Field K] [LinearOrder K] [IsStrictOrderedRing K]

/-- `linspace(0, 1, n)[i]` as the translator spells it: in [0, 1], 0 at i = 0, 1 at i = n − 1 -/
theorem lin01 (n i : Nat) (hn : 2 ≤ n) (hi : i < n) :
    let x : K := (0 : K) + (((1 : K) - (0 : K)) * ((i : Nat) : K)) / (((n : Nat) : K) - (1 : K))
    0 ≤ x ∧ x ≤ 1 ∧ (i = 0 → x = 0) ∧ (i = n - 1 → x = 1) := by
  intro x
  have hn' : (0 : K) < (n : K) - 1 := by
    have : (2 : K) ≤ (n : K) := by exact_mod_cast hn
    linarith
  have hi' : (i : K) ≤ (n : K) - 1 := by
    have : (i : K) + 1 ≤ (n : K) := by exact_mod_cast hi
    linarith
  have hi0 : (0 : K) ≤ (i : K) := by exact_mod_cast Nat.zero_le i
  refine ⟨?_, ?_, ?_, ?_⟩
  · simp only [x]; rw [zero_add, sub_zero, one_mul]; exact div_nonneg hi0 hn'.le
  · simp only [x]; rw [zero_add, sub_zero, one_mul, div_le_iff₀ hn']; linarith
  · intro h; simp [x, h]
  · intro h
    have : (i : K) = (n : K) - 1 := by
      rw [h, Nat.cast_sub (by omega)]; simp
    simp only [x]; rw [zero_add, sub_zero, one_mul, this, div_self hn'.ne']

/-- the grid points lie in the unit square of the plane z = 0, and the four corners are grid points -/
theorem unit_grid_in_unit_square (cos sin : K → K) (pi : K) (nu nv : Nat) (t u : Bool) (hu : 2 ≤ nu) (hv : 2 ≤ nv) :
    (∀ p ∈ unit_gridVerts cos sin pi nu nv t u, 0 ≤ p.1 ∧ p.1 ≤ 1 ∧ 0 ≤ p.2.1 ∧ p.2.1 ≤ 1 ∧ p.2.2 = 0) ∧
    unit_gridPt0 cos sin pi nu nv t u 0 0 = (0, 0, 0) ∧ unit_gridPt0 cos sin pi nu nv t u (nu - 1) 0 = (1, 0, 0) ∧
    unit_gridPt0 cos sin pi nu nv t u 0 (nv - 1) = (0, 1, 0) ∧ unit_gridPt0 cos sin pi nu nv t u (nu - 1) (nv - 1) = (1, 1, 0) := by
  have c0 := fun n hn => (lin01 (K := K) n 0 hn (by omega)).2.2.1 rfl
  have c1 := fun n hn => (lin01 (K := K) n (n - 1) hn (by omega)).2.2.2 rfl
  refine ⟨?_, ?_, ?_, ?_, ?_⟩
  · intro p hp
    simp only [unit_gridVerts, List.mem_flatMap, List.mem_range, List.mem_cons, List.mem_nil_iff, or_false] at hp
    obtain ⟨i, hi, j, hj, rfl⟩ := hp
    have a := lin01 (K := K) nu i hu hi
    have b := lin01 (K := K) nv j hv hj
    exact ⟨a.1, a.2.1, b.1, b.2.1, rfl⟩
  · simp only [unit_gridPt0, Prod.mk.injEq]; exact ⟨c0 nu hu, c0 nv hv, trivial⟩
  · simp only [unit_gridPt0, Prod.mk.injEq]; exact ⟨c1 nu hu, c0 nv hv, trivial⟩
  · simp only [unit_gridPt0, Prod.mk.injEq]; exact ⟨c0 nu hu, c1 nv hv, trivial⟩
  · simp only [unit_gridPt0, Prod.mk.injEq]; exact ⟨c1 nu hu, c1 nv hv, trivial⟩

/-- `linspace(1, 0, n)[j]` as the translator spells it: in [0, 1] -/
theorem lin10 (n j : Nat) (hn : 2 ≤ n) (hj : j < n) :
    let y : K := (1 : K) + (((0 : K) - (1 : K)) * ((j : Nat) : K)) / (((n : Nat) : K) - (1 : K))
    0 ≤ y ∧ y ≤ 1 ∧ (j = 0 → y = 1) ∧ (j = n - 1 → y = 0) := by
  intro y
  have h := lin01 (K := K) n j hn hj
  have hn' : ((n : K) - 1) ≠ 0 := by
    have : (2 : K) ≤ (n : K) := by exact_mod_cast hn
    intro c; linarith
  have e : y = 1 - ((0 : K) + (((1 : K) - (0 : K)) * ((j : Nat) : K)) / (((n : Nat) : K) - (1 : K))) := by
    simp only [y]; field_simp; ring
  simp only at h
  refine ⟨by rw [e]; linarith [h.2.1], by rw [e]; linarith [h.1], ?_, ?_⟩
  · intro c; rw [e, h.2.2.1 c]; ring
  · intro c; rw [e, h.2.2.2 c]; ring

/-- `unit_triangle`: every vertex lies in the unit square of the plane z = 0; the first vertex is the corner (0, 1) -/
theorem unit_triangle_in_unit_square (cos sin : K → K) (pi : K) (nu nv : Nat) (u : Bool) (hu : 2 ≤ nu) (hv : 2 ≤ nv) :
    (∀ p ∈ unit_triangleVerts cos sin pi nu nv u, 0 ≤ p.1 ∧ p.1 ≤ 1 ∧ 0 ≤ p.2.1 ∧ p.2.1 ≤ 1 ∧ p.2.2 = 0) ∧
    unit_trianglePt0 cos sin pi nu nv u 0 0 = (0, 1, 0) ∧ unit_trianglePt0 cos sin pi nu nv u (nv - 1) 0 = (0, 0, 0) ∧
    (nu = nv → unit_trianglePt0 cos sin pi nu nv u (nv - 1) (nu - 1) = (1, 0, 0)) := by
  refine ⟨?_, ?_, ?_, ?_⟩
  · intro p hp
    simp only [unit_triangleVerts, List.mem_flatMap, List.mem_range, List.mem_cons, List.mem_nil_iff, or_false] at hp
    obtain ⟨j, hj, i, hi, rfl⟩ := hp
    have hir := (List.takeWhile_sublist _).subset hi
    rw [List.mem_range] at hir
    have a := lin01 (K := K) nu i hu hir
    have b := lin10 (K := K) nv j hv hj
    exact ⟨a.1, a.2.1, b.1, b.2.1, rfl⟩
  · simp only [unit_trianglePt0, Prod.mk.injEq]
    exact ⟨(lin01 (K := K) nu 0 hu (by omega)).2.2.1 rfl, (lin10 (K := K) nv 0 hv (by omega)).2.2.1 rfl, trivial⟩
  · simp only [unit_trianglePt0, Prod.mk.injEq]
    exact ⟨(lin01 (K := K) nu 0 hu (by omega)).2.2.1 rfl, (lin10 (K := K) nv (nv - 1) hv (by omega)).2.2.2 rfl, trivial⟩
  · intro _
    simp only [unit_trianglePt0, Prod.mk.injEq]
    exact ⟨(lin01 (K := K) nu (nu - 1) hu (by omega)).2.2.2 rfl, (lin10 (K := K) nv (nv - 1) hv (by omega)).2.2.2 rfl, trivial⟩

end ordered

/-! non-vacuity: the hypotheses are satisfiable (ℚ with the constant "cos = 1, sin = 0" satisfies cos² + sin² = 1) -/
example : ∃ (cos sin : ℚ → ℚ), (∀ t, cos t ^ 2 + sin t ^ 2 = 1) ∧
    (torusVerts cos sin 3 3 4 false 2 1).length = 12 ∧ (sphere_uvVerts cos sin 3 2 3 1 (0, 0, 0)).length = 8 :=
  ⟨fun _ => 1, fun _ => 0, by intro t; norm_num, by simp [torus_vertex_index (K := ℚ) _ _ _ 3 4 false 2 1 0 0 (by omega) (by omega)],
    (sphere_uv_vertex_index (K := ℚ) _ _ _ 2 3 1 (0, 0, 0)).2.2.2⟩

end Mouette.Props.C14
