import Mouette.Lemmas.C09HeapQ
import Mouette.Props.C09Heap
/-
C09, round 7: the heap operations the Dijkstra loops perform are those of CPython's Lib/heapq.py AS WRITTEN (translated from
the interpreter's own stdlib file into Generated/C09HeapQ.lean). With these bridges the hand model Model/BinHeap.lean is no
longer trusted to be heapq: what remains trusted is that the C accelerator `_heapq` computes what Lib/heapq.py computes, and
the translator.
-/
namespace Mouette.Props.C09
open Mouette.Dijkstra Mouette.PQ Mouette.BinHeap
open Mouette.Generated

/-- `heapq.heappush` / `heapq.heappop` of Lib/heapq.py (`_siftdown`, `_siftup` included: hole formulation) are the model's -/
theorem heapq_is_model : HeapQ.heappush = heappush ∧ HeapQ.heappop = heappop := ⟨heapq_heappush_eq, heapq_heappop_eq⟩

theorem heapq_siftdown_is_bubbleUp (heap : List Item) (pos : Nat) (hp : pos < heap.length) :
    HeapQ.siftdown heap 0 pos = bubbleUp heap pos := siftdown_eq_bubbleUp heap pos hp

/-- the queue class as translated calls exactly these -/
theorem queue_calls_heapq (d : List Item) (x : Nat) (w : Prio) :
    C20PQ.push d x w = HeapQ.heappush d (x, w) ∧ C20PQ.get_ d = HeapQ.heappop d ∧ C20PQ.pop_ d = HeapQ.heappop d := by
  rw [heapq_heappush_eq, heapq_heappop_eq]
  exact ⟨rfl, rfl, rfl⟩

/-- consequently Lib/heapq.py as written keeps the heap invariant and pops a pending item of minimum priority: the pop
contract, for heapq's own code -/
theorem heapq_pop_ok {h : List Item} (hh : IsHeap h) {e : Item} {h' : List Item} (hp : HeapQ.heappop h = some (e, h')) :
    PopOk h e h' ∧ IsHeap h' := by
  rw [heapq_heappop_eq] at hp
  exact ⟨heappop_ok hh hp, heappop_heap hh hp⟩

theorem heapq_push_heap {h : List Item} (hh : IsHeap h) (x : Item) :
    IsHeap (HeapQ.heappush h x) ∧ (HeapQ.heappush h x).Perm (x :: h) := by
  rw [heapq_heappush_eq]
  exact ⟨heappush_heap hh x, heappush_perm h x⟩

/-- non-vacuity: heapq.py as translated on a small heap (priorities 1 2 3 2): pop returns the root, the last item sinks -/
example : HeapQ.heappop [(0, .fin 1), (1, .fin 2), (2, .fin 3), (3, .fin 2)] =
    some ((0, .fin 1), [(1, .fin 2), (3, .fin 2), (2, .fin 3)]) := by decide +kernel
example : HeapQ.heappush [(0, .fin 1), (1, .fin 2), (2, .fin 3)] (3, .fin 0) =
    [(3, .fin 0), (0, .fin 1), (2, .fin 3), (1, .fin 2)] := by decide +kernel
example : HeapQ.heappop [] = none := by decide

end Mouette.Props.C09
