import Mouette.Generated.C12Rot
import Mouette.Lemmas.FloatOpsR
import Mouette.Props.C12
/-!
# C12 (round 7) - the WHOLE bodies of `rotate_2d` and `rotate_around_axis`, as the source defines them now

`vlib/gen/c12_source.py: translate_rot` re-extracts the two bodies of `mouette/geometry/rotations.py` into `Generated/C12Rot.lean`
(`math.cos`/`math.sin` = fields of `F : FloatOps ℚ`, `Vec.normalized` = the parameter `N`, the early return of `rotate_around_axis`
kept).  Bridges to the Rodrigues models (`rotate2d_bridge`, `rotateAroundAxis_bridge`) and the three clauses of the statement on the
extracted bodies: isometry, the axis is fixed, rotations about one axis compose ADDITIVELY in the angle - under the single
hypothesis `F.TrigLaws` (unit circle + addition formulas; implied by `FloatOps.Exact`) and `|N a|² = 1`.
The early return (`|angle| < 1e-12` or a degenerate axis: the input is returned unchanged) is an isometry that fixes the axis too; it
composes additively only up to that threshold, so the composition clause is stated for angles outside it.
-/
set_option linter.unusedSimpArgs false
namespace Mouette.Props.C12Rt
open Mouette Mouette.Prim
open Mouette.Generated

theorem rotate2d_bridge (F : FloatOps ℚ) (v : V2) (a : ℚ) : C12Rot.rotate2d F v a = rot2 v (F.cos a) (F.sin a) := by
  -- by `ring` on the two components: commuted / re-associated products in the source are accepted
  first
    | rfl
    | (simp only [C12Rot.rotate2d, rot2, V2.mk.injEq]; constructor <;> ring)

/-- the guard of the early return of `rotate_around_axis` -/
def early (N : V3 → V3) (ax : V3) (a : ℚ) : Prop := rabs a < eps12 ∨ V3.norm2 (N ax) < eps12 * eps12

instance (N : V3 → V3) (ax : V3) (a : ℚ) : Decidable (early N ax a) := by unfold early; infer_instance

theorem rotateAroundAxis_bridge (F : FloatOps ℚ) (N : V3 → V3) (inp ax : V3) (a : ℚ) :
    C12Rot.rotateAroundAxis F N inp ax a = if early N ax a then inp else rotAxis inp (N ax) (F.cos a) (F.sin a) := by
  unfold C12Rot.rotateAroundAxis early
  -- by cases on the two tests of the guard (either operand order) and `ring` on the three Rodrigues rows
  by_cases h1 : rabs a < eps12 <;> by_cases h2 : V3.norm2 (N ax) < eps12 * eps12
  all_goals (simp only [eps12] at h1 h2)
  all_goals (try simp only [h1, h2, decide_true, decide_false, Bool.or_true, Bool.true_or, Bool.or_false, Bool.or_self, if_true,
      Bool.false_eq_true, if_false, or_true, true_or, or_false, or_self, eps12])
  all_goals (try (first | rfl | (simp only [rotAxis, V3.mk.injEq]; refine ⟨?_, ?_, ?_⟩ <;> ring)))

/-- **`rotate_2d` is an isometry** (norms and dot products are kept) -/
theorem rotate_2d_source_isometry (F : FloatOps ℚ) (hF : F.TrigLaws) (v w : V2) (a : ℚ) :
    V2.norm2 (C12Rot.rotate2d F v a) = V2.norm2 v ∧
    V2.dot (C12Rot.rotate2d F v a) (C12Rot.rotate2d F w a) = V2.dot v w := by
  simp only [rotate2d_bridge]
  exact Mouette.Props.C12.rot2_isometry v w _ _ (hF.unit a)

/-- **`rotate_2d` composes additively**: rotating by `a` then by `b` is rotating by `a + b` -/
theorem rotate_2d_source_compose (F : FloatOps ℚ) (hF : F.TrigLaws) (v : V2) (a b : ℚ) :
    C12Rot.rotate2d F (C12Rot.rotate2d F v a) b = C12Rot.rotate2d F v (a + b) := by
  simp only [rotate2d_bridge, Mouette.Props.C12.rot2_compose, hF.cos_add, hF.sin_add]

/-- **`rotate_around_axis` is an isometry** (both branches) -/
theorem rotate_around_axis_source_isometry (F : FloatOps ℚ) (hF : F.TrigLaws) (N : V3 → V3) (inp ax : V3) (a : ℚ)
    (hN : V3.norm2 (N ax) = 1) : V3.norm2 (C12Rot.rotateAroundAxis F N inp ax a) = V3.norm2 inp := by
  rw [rotateAroundAxis_bridge]
  split
  · rfl
  · exact Mouette.Props.C12.rotAxis_isometry inp (N ax) _ _ (hF.unit a) hN

theorem rotAxis_smul (l : ℚ) (v u : V3) (c s : ℚ) : rotAxis (V3.smul l v) u c s = V3.smul l (rotAxis v u c s) := by
  simp only [rotAxis, V3.smul, V3.mk.injEq]
  refine ⟨?_, ?_, ?_⟩ <;> ring

/-- **`rotate_around_axis` fixes its axis**: a vector along the (un-normalised) axis is returned unchanged, whatever the angle -/
theorem rotate_around_axis_source_fixes_axis (F : FloatOps ℚ) (N : V3 → V3) (ax : V3) (a l : ℚ)
    (hN : V3.norm2 (N ax) = 1) (hax : ax = V3.smul l (N ax)) : C12Rot.rotateAroundAxis F N ax ax a = ax := by
  rw [rotateAroundAxis_bridge]
  split
  · rfl
  · conv_lhs => rw [hax]
    have hn : N (V3.smul l (N ax)) = N ax := by rw [← hax]
    rw [hn, rotAxis_smul, Mouette.Props.C12.rotAxis_fixes_axis (N ax) _ _ hN, ← hax]

/-- **rotations about the same axis compose additively** (angles outside the early-return threshold) -/
theorem rotate_around_axis_source_compose (F : FloatOps ℚ) (hF : F.TrigLaws) (N : V3 → V3) (v ax : V3) (a b : ℚ)
    (hN : V3.norm2 (N ax) = 1) (ha : ¬ early N ax a) (hb : ¬ early N ax b) (hab : ¬ early N ax (a + b)) :
    C12Rot.rotateAroundAxis F N (C12Rot.rotateAroundAxis F N v ax a) ax b = C12Rot.rotateAroundAxis F N v ax (a + b) := by
  simp only [rotateAroundAxis_bridge, if_neg ha, if_neg hb, if_neg hab]
  rw [Mouette.Props.C12.rotAxis_compose v (N ax) _ _ _ _ hN, hF.cos_add, hF.sin_add]

/-- non-vacuity: a quarter turn (cos = 0, sin = 1 at the angle 1, exact) about the z axis -/
example : C12Rot.rotateAroundAxis ⟨0, fun _ _ => 0, fun _ => 0, fun _ => 1⟩ id ⟨1, 2, 3⟩ ⟨0, 0, 1⟩ 1 = ⟨-2, 1, 3⟩ := by decide +kernel
example : C12Rot.rotateAroundAxis ⟨0, fun _ _ => 0, fun _ => 0, fun _ => 1⟩ id ⟨1, 2, 3⟩ ⟨0, 0, 1⟩ 0 = ⟨1, 2, 3⟩ := by decide +kernel
example : C12Rot.rotate2d ⟨0, fun _ _ => 0, fun _ => 0, fun _ => 1⟩ ⟨1, 2⟩ 1 = ⟨-2, 1⟩ := by decide +kernel

end Mouette.Props.C12Rt
