import Mouette.Lemmas.GaussBonnet
import Mouette.Lemmas.Handshake
import Mouette.Generated.C18Consts
import Mathlib.Tactic.Ring
import Mathlib.Tactic.Linarith
import Mathlib.Tactic.FieldSimp
/-
C18 over ℝ — the index-sum clause at full strength for the face-based field: the holonomy sums of `flag_singularities`, scaled by
the documented `2/π`, add up to `4 χ` on every oriented triangulated manifold surface, for ANY edge rotations.
Ingredients: C07's discrete Gauss–Bonnet (`Σ_v defect_v = 2π χ`, proved for the angles the code computes) and the telescoping of the
signed edge contributions (each edge adds `+rot` at one end and `−rot` at the other, with the polarity READ FROM THE SOURCE:
`Generated.C18.signPlusWhenOtherLess`).  The scale is the translated `indexPerTurn / (2π)`.
What this does not say: the flagged set leaves out sums below `ZERO_THRESHOLD` (each such vertex contributes < 1e-3·2/π to the total).
-/
namespace Mouette.Props.C18Real
open Mouette.Geom Mouette.GeomR
open Finset

noncomputable section

/-- `angle += edge_rot[e] if u<v else -edge_rot[e]` (u the other end), as a function of the vertex, for one edge `(a, b)` with rotation `r` -/
def contribR (e : Nat × Nat × ℝ) (v : Nat) : ℝ :=
  let s : ℝ := if Mouette.Generated.C18.signPlusWhenOtherLess then 1 else -1
  if v = e.1 then (if e.2.1 < e.1 then s * e.2.2 else -(s * e.2.2))
  else if v = e.2.1 then (if e.1 < e.2.1 then s * e.2.2 else -(s * e.2.2))
  else 0

/-- the holonomy sum of vertex `v` (radians) -/
def holonomyR (defect : Nat → ℝ) (es : List (Nat × Nat × ℝ)) (v : Nat) : ℝ := defect v + (es.map (fun e => contribR e v)).sum

/-- `singuls[v] = angle * A / pi` with the translated `A` (`indexPerTurn = 2A`) -/
def indexR (angle : ℝ) : ℝ := angle * ((Mouette.Generated.C18.indexPerTurn : ℚ) : ℝ) / (2 * Real.pi)

theorem contribR_sum (e : Nat × Nat × ℝ) (nV : Nat) (hab : e.1 ≠ e.2.1) (ha : e.1 < nV) (hb : e.2.1 < nV) :
    ∑ v ∈ range nV, contribR e v = 0 := by
  obtain ⟨a, b, r⟩ := e
  simp only at hab ha hb
  have hsplit : ∀ v, contribR (a, b, r) v
      = (if v = a then (if b < a then (if Mouette.Generated.C18.signPlusWhenOtherLess then (1 : ℝ) else -1) * r else -((if Mouette.Generated.C18.signPlusWhenOtherLess then (1 : ℝ) else -1) * r)) else 0)
      + (if v = b then (if a < b then (if Mouette.Generated.C18.signPlusWhenOtherLess then (1 : ℝ) else -1) * r else -((if Mouette.Generated.C18.signPlusWhenOtherLess then (1 : ℝ) else -1) * r)) else 0) := by
    intro v
    unfold contribR
    by_cases h1 : v = a
    · subst h1
      simp [hab]
    · by_cases h2 : v = b
      · subst h2
        simp [h1]
      · simp [h1, h2]
  simp only [hsplit, Finset.sum_add_distrib, Finset.sum_ite_eq', Finset.mem_range, ha, hb, if_true]
  rcases Nat.lt_or_gt_of_ne hab with h | h
  · have h' : ¬ b < a := Nat.not_lt.mpr (Nat.le_of_lt h)
    simp [h, h']
  · have h' : ¬ a < b := Nat.not_lt.mpr (Nat.le_of_lt h)
    simp [h, h']

/-- telescoping over ℝ: `Σ_v holonomy_v = Σ_v defect_v` for any rotations on any edge list without self loops -/
theorem holonomy_total (nV : Nat) (defect : Nat → ℝ) (es : List (Nat × Nat × ℝ))
    (hmesh : ∀ e ∈ es, e.1 ≠ e.2.1 ∧ e.1 < nV ∧ e.2.1 < nV) :
    ∑ v ∈ range nV, holonomyR defect es v = ∑ v ∈ range nV, defect v := by
  unfold holonomyR
  rw [Finset.sum_add_distrib]
  suffices h : ∑ v ∈ range nV, (es.map (fun e => contribR e v)).sum = 0 by rw [h, add_zero]
  induction es with
  | nil => simp
  | cons e es ih =>
    simp only [List.map_cons, List.sum_cons, Finset.sum_add_distrib]
    have he := hmesh e (by simp)
    rw [contribR_sum e nV he.1 he.2.1 he.2.2, ih (fun x hx => hmesh x (List.mem_cons_of_mem _ hx)), add_zero]

/-- **index total = 4 χ** (face-based field, any order, any rotations): on an oriented triangulated manifold surface whose border is a
union of cycles, with the angle defects the code computes, the scaled holonomy sums of ALL vertices add up to `4 (V − E + F)`. -/
theorem index_total_four_chi (vs : List V3) (faces : List Face) (edges : List (Nat × Nat)) (nV : Nat)
    (hm : TriMesh faces nV) (hnd : NonDegenerate vs faces) (ho : Mouette.Ops.OrientedTriangulation faces)
    (he : Mouette.Ops.EdgesAreSides faces edges) (hfrom : Mouette.Ops.EdgesFromSides faces edges)
    (hcycle : nBorderV faces nV = (Mouette.Ops.borderEdges faces edges).length)
    (es : List (Nat × Nat × ℝ)) (hmesh : ∀ e ∈ es, e.1 ≠ e.2.1 ∧ e.1 < nV ∧ e.2.1 < nV) :
    ∑ v ∈ range nV, indexR (holonomyR (defectR faces (meshAngle vs faces)) es v)
      = 4 * (((nV : Int) - (edges.length : Int) + (faces.length : Int) : Int) : ℝ) := by
  have hGB := Mouette.GeomR.gauss_bonnet vs faces nV edges.length (Mouette.Ops.borderEdges faces edges).length _ hm hnd
    (Mouette.Ops.handshake_of_manifold faces edges ho he hfrom) hcycle rfl
  have hT := holonomy_total nV (defectR faces (meshAngle vs faces)) es hmesh
  unfold indexR
  rw [← Finset.sum_div, ← Finset.sum_mul, hT, hGB]
  have hpi : Real.pi ≠ 0 := Real.pi_ne_zero
  have hq : ((Mouette.Generated.C18.indexPerTurn : ℚ) : ℝ) = 4 := by
    unfold Mouette.Generated.C18.indexPerTurn; norm_num
  rw [hq]
  field_simp

/-- closed surfaces: same statement from `2E = 3F` and no border vertex (no orientation hypothesis needed) -/
theorem index_total_four_chi_closed (vs : List V3) (faces : List Face) (nV E : Nat) (χ : Int)
    (hm : TriMesh faces nV) (hnd : NonDegenerate vs faces) (hand : 3 * faces.length + 0 = 2 * E) (hclosed : nBorderV faces nV = 0)
    (hχ : χ = (nV : Int) - (E : Int) + (faces.length : Int))
    (es : List (Nat × Nat × ℝ)) (hmesh : ∀ e ∈ es, e.1 ≠ e.2.1 ∧ e.1 < nV ∧ e.2.1 < nV) :
    ∑ v ∈ range nV, indexR (holonomyR (defectR faces (meshAngle vs faces)) es v) = 4 * (χ : ℝ) := by
  have hGB := Mouette.GeomR.gauss_bonnet vs faces nV E 0 χ hm hnd hand hclosed hχ
  have hT := holonomy_total nV (defectR faces (meshAngle vs faces)) es hmesh
  unfold indexR
  rw [← Finset.sum_div, ← Finset.sum_mul, hT, hGB]
  have hpi : Real.pi ≠ 0 := Real.pi_ne_zero
  have hq : ((Mouette.Generated.C18.indexPerTurn : ℚ) : ℝ) = 4 := by
    unfold Mouette.Generated.C18.indexPerTurn; norm_num
  rw [hq]
  field_simp

end

/-! ## non-vacuity: the boundary of a tetrahedron with one rotated edge (χ = 2, total 8) -/
example : TriMesh tetFaces 4 := by decide
example : nBorderV tetFaces 4 = 0 := by decide
example : ∀ e ∈ [((0 : Nat), (1 : Nat), (1 : ℝ))], e.1 ≠ e.2.1 ∧ e.1 < 4 ∧ e.2.1 < 4 := by
  intro e he; simp at he; subst he; decide

end Mouette.Props.C18Real
