import Mouette.Props.C09
import Mouette.Lemmas.PathMeshLemmas
/-
C09, remaining observables: the exported path polyline (`build_path`, as repaired) and
`shortest_path_to_border`. Models in `Mouette/Model/PathMesh.lean`.
-/
namespace Mouette.Props.C09
open Mouette.Dijkstra Mouette.PQ

/-- `build_path_spec`: for every list of paths (dict order) the polyline's vertex list is the concatenation of the
paths; its edges are exactly the consecutive index pairs of every path, offset by the number of vertices of the
paths before it, and these indices address the consecutive vertices `l[i]`, `l[i+1]` of that path; there are
`Σ (len − 1)` edges. -/
theorem build_path_spec (ps : List (List Nat)) :
    (buildPath ps).1 = ps.flatten ∧
    (∀ A l B i, ps = A ++ l :: B → i + 1 < l.length →
      (A.flatten.length + i, A.flatten.length + i + 1) ∈ (buildPath ps).2 ∧
      (buildPath ps).1[A.flatten.length + i]? = l[i]? ∧ (buildPath ps).1[A.flatten.length + i + 1]? = l[i + 1]?) ∧
    (∀ e ∈ (buildPath ps).2, ∃ A l B i, ps = A ++ l :: B ∧ i + 1 < l.length ∧
      e = (A.flatten.length + i, A.flatten.length + i + 1)) ∧
    (buildPath ps).2.length = (ps.map (fun l => l.length - 1)).sum := by
  rw [buildPath_eq]
  refine ⟨rfl, ?_, ?_, length_segs ps 0⟩
  · intro A l B i hps hi
    refine ⟨(mem_segs ps 0 _).mpr ⟨A, l, B, i, hps, hi, by simp⟩, ?_, ?_⟩
    · simp only; rw [hps]; exact flatten_lookup A l B i (by omega)
    · simp only; rw [hps, Nat.add_assoc]; exact flatten_lookup A l B (i + 1) hi
  · intro e he
    obtain ⟨A, l, B, i, h1, h2, h3⟩ := (mem_segs ps 0 e).mp he
    exact ⟨A, l, B, i, h1, h2, by simpa using h3⟩

/-- `path_mesh_segments_are_edges`: when every path is a valid edge path (which `path_valid` /
`vertex_set_path_valid` guarantee for the paths the queries return), every segment of the exported polyline joins
two mesh vertices that are adjacent in the mesh. -/
theorem path_mesh_segments_are_edges {adj : Adj} (ps : List (List Nat))
    (hvalid : ∀ l ∈ ps, ∃ a t W, PathW adj a t l W) :
    ∀ e ∈ (buildPath ps).2, ∃ x y w, (buildPath ps).1[e.1]? = some x ∧ (buildPath ps).1[e.2]? = some y ∧
      (y, w) ∈ adj x := by
  intro e he
  obtain ⟨_, h2, h3, _⟩ := build_path_spec ps
  obtain ⟨A, l, B, i, hps, hi, rfl⟩ := h3 e he
  obtain ⟨a, t, W, hp⟩ := hvalid l (by rw [hps]; simp)
  obtain ⟨x, y, w, hx, hy, hw⟩ := hp.consecutive i hi
  obtain ⟨_, g1, g2⟩ := h2 A l B i hps hi
  exact ⟨x, y, w, by rw [g1, hx], by rw [g2, hy], hw⟩

theorem mem_boundaryVertices {edges : List ((Nat × Nat) × Bool)} {v : Nat} :
    v ∈ boundaryVertices edges ↔ ∃ e ∈ edges, e.2 = true ∧ (v = e.1.1 ∨ v = e.1.2) := by
  unfold boundaryVertices
  rw [List.mem_eraseDups, List.mem_flatMap]
  constructor
  · rintro ⟨e, he, hv⟩
    obtain ⟨h1, h2⟩ := List.mem_filter.mp he
    exact ⟨e, h1, h2, by simpa using hv⟩
  · rintro ⟨e, he, h2, hv⟩
    exact ⟨e, List.mem_filter.mpr ⟨he, h2⟩, by simpa using hv⟩

/-- the model raises "Mesh has no border" exactly when no edge is flagged as a border edge -/
theorem border_none_iff {pop : Pop} {adj : Adj} {n start : Nat} (edges : List ((Nat × Nat) × Bool)) :
    toBorder pop adj n start edges = none ↔ ∀ e ∈ edges, e.2 = false := by
  unfold toBorder
  simp only
  constructor
  · intro h e he
    split at h
    · rename_i hb
      have hnil : boundaryVertices edges = [] := by simpa using hb
      cases h2 : e.2 with
      | false => rfl
      | true =>
        have : e.1.1 ∈ boundaryVertices edges := mem_boundaryVertices.mpr ⟨e, he, h2, Or.inl rfl⟩
        rw [hnil] at this; simp at this
    · simp at h
  · intro h
    have hnil : boundaryVertices edges = [] := by
      apply List.eq_nil_iff_forall_not_mem.mpr
      intro v hv
      obtain ⟨e, he, h2, _⟩ := mem_boundaryVertices.mp hv
      rw [h e he] at h2; simp at h2
    rw [hnil]; rfl

/-- `border_path_nearest`: `shortest_path_to_border` returns a valid duplicate-free edge path from `start` that ends
at an end point of a border edge, and no edge path from `start` to any boundary vertex is lighter. -/
theorem border_path_nearest {pop : Pop} {adj : Adj} {n start : Nat} (hpop : PopOK pop) (hnn : NonNeg adj)
    (hwf : WF adj n) (hs : start < n) (edges : List ((Nat × Nat) × Bool))
    (hedges : ∀ e ∈ edges, e.1.1 < n ∧ e.1.2 < n)
    (hconn : ∃ t ∈ boundaryVertices edges, ∃ l W, PathW adj start t l W) :
    ∃ p ind d, toBorder pop adj n start edges = some (.ok p, ind) ∧
      (∃ e ∈ edges, e.2 = true ∧ (ind = e.1.1 ∨ ind = e.1.2)) ∧
      p.head? = some start ∧ p.getLast? = some ind ∧ PathW adj start ind p d ∧ p.Nodup ∧
      ∀ t ∈ boundaryVertices edges, ∀ l' W', PathW adj start t l' W' → d ≤ W' := by
  have ht : ∀ t ∈ boundaryVertices edges, t < n := by
    intro t htm
    obtain ⟨e, he, _, hv⟩ := mem_boundaryVertices.mp htm
    rcases hv with rfl | rfl
    · exact (hedges e he).1
    · exact (hedges e he).2
  obtain ⟨p, ind, d, h1, h2, h3, h4, h5, h6⟩ := vertex_set_path_valid hpop hnn hwf hs ht hconn
  obtain ⟨p', ind', d', h1', _, h3', h4', _⟩ := vertex_set_nearest hpop hnn hwf hs ht hconn
  rw [h1] at h1'
  simp only [Prod.mk.injEq, Res.ok.injEq] at h1'
  obtain ⟨rfl, rfl⟩ := h1'
  refine ⟨p, ind, d', ?_, mem_boundaryVertices.mp h2, h3, h4, h3', h6, h4'⟩
  unfold toBorder
  simp only
  have hne : (boundaryVertices edges).isEmpty = false := by
    obtain ⟨t, htm, _⟩ := hconn
    cases hb : boundaryVertices edges with
    | nil => rw [hb] at htm; simp at htm
    | cons _ _ => rfl
  rw [hne, h1]
  simp

/-! ### non-vacuity (tests of the model) -/

/-- two paths from the same start: the second path's segment is `(3,4)`, not `(0,1)` (the repaired defect) -/
example : buildPath [[0, 1, 2], [0, 3]] = ([0, 1, 2, 0, 3], [(0, 1), (1, 2), (3, 4)]) := by decide
example : (buildPath [[7], [], [4, 5]]).2 = [(1, 2)] := by decide
/-- on the example graph of Props/C09 with the edge 2–3 flagged as border: the nearest boundary vertex is 2 -/
example : toBorder PQ.pop (adjOf exEdges) 6 0 [((0, 1), false), ((2, 3), true), ((4, 5), true)]
    = some (.ok [0, 1, 2], 2) := by decide +kernel
example : toBorder PQ.pop (adjOf exEdges) 6 0 [((0, 1), false)] = none := by decide +kernel

end Mouette.Props.C09
