import Mouette.Props.C03Order
/-!
# C03 (round 6) — from the volume-side flag `faceCover` to edge-manifoldness of the boundary surface

`Props/C03.lean: boundary_closed_exactly_two` needs `Conn.boundaryEdgeManifold` (no edge of the extracted surface lies in more
than two of its triangles), a predicate about the SURFACE.  Here it is derived from a predicate about the VOLUME: for every
stored edge, the two walks of `_sort_edge_neighborhoods` cross every stored face around it (`faceCover`, decidable, evaluated
per edge).  Hence: `faceCover` everywhere ⇒ every side of every boundary triangle lies in EXACTLY two boundary triangles.
-/
namespace Mouette.Props.C03Manifold
open Mouette.Vol Mouette.Props.C03Source Mouette.Props.C03Order

/-- what `faceCover` gives: at most two candidates for the border faces around the edge -/
theorem faceCover_spec (k : Conn) {e : Nat} (h : faceCover k e = true) :
    ∃ W : List Nat, W.length ≤ 2 ∧ ∀ f ∈ k.e2f.getD e [], k.isFaceOnBorder f = true → f ∈ W := by
  unfold faceCover at h
  cases hd : umbrellaData k e with
  | none => rw [hd] at h; cases h
  | some d =>
    obtain ⟨A, B, c0, cs1, fs1, cs2, fs2⟩ := d
    rw [hd] at h
    obtain ⟨rest, p1, p2, _, _, _, hw1, hw2⟩ := umbrellaData_spec hd
    simp only at h
    rw [List.all_eq_true] at h
    have h1 := (walkChain_dropLast_interior (walk_chain k A B _ _ _ _ _ _ hw1).1).2
    have h2 := (walkChain_dropLast_interior (walk_chain k A B _ _ _ _ _ _ hw2).1).2
    refine ⟨(fs1 ++ fs2).filter k.isFaceOnBorder, ?_, ?_⟩
    · rw [List.filter_append, List.length_append]
      have a := filter_le_one_of_dropLast h1
      have b := filter_le_one_of_dropLast h2
      omega
    · intro f hm hb
      have := h f hm
      simp only [Bool.or_eq_true, List.contains_iff_mem] at this
      exact List.mem_filter.2 ⟨List.mem_append.2 this, hb⟩

/-- two distinct vertices of a triangle are cyclically consecutive, in one direction or the other -/
theorem tri_consecutive {F : List Nat} (h3 : F.length = 3) {a b : Nat} (ha : a ∈ F) (hb : b ∈ F) (hab : a ≠ b) :
    ∃ j < 3, (F.getD j 0 = a ∧ F.getD ((j + 1) % 3) 0 = b) ∨ (F.getD j 0 = b ∧ F.getD ((j + 1) % 3) 0 = a) := by
  match F, h3 with
  | [x, y, z], _ =>
    simp only [List.mem_cons, List.not_mem_nil, or_false] at ha hb
    rcases ha with rfl | rfl | rfl <;> rcases hb with rfl | rfl | rfl
    · exact absurd rfl hab
    · exact ⟨0, by omega, Or.inl ⟨rfl, rfl⟩⟩
    · exact ⟨2, by omega, Or.inr ⟨rfl, rfl⟩⟩
    · exact ⟨0, by omega, Or.inr ⟨rfl, rfl⟩⟩
    · exact absurd rfl hab
    · exact ⟨1, by omega, Or.inl ⟨rfl, rfl⟩⟩
    · exact ⟨2, by omega, Or.inl ⟨rfl, rfl⟩⟩
    · exact ⟨1, by omega, Or.inr ⟨rfl, rfl⟩⟩
    · exact absurd rfl hab

theorem edgeIdD_comm (m : Mesh) (u v : Nat) : m.edgeIdD u v = m.edgeIdD v u := by
  unfold Mesh.edgeIdD Mesh.edgeId; rw [key_pair_comm]

/-- every side of every stored face has a stored edge (third conjunct of the decidable flag `edgesComplete`) -/
theorem edge_found_of_flag {m : Mesh} (h : m.conforming = true) {f : Nat} (hf : f < m.nF) {i : Nat} (hi : i < (m.face f).length) :
    m.edgeIdD ((m.face f).getD i 0) ((m.face f).getD ((i + 1) % (m.face f).length) 0) < m.nE := by
  unfold Mesh.conforming Mesh.edgesComplete at h
  simp only [Bool.and_eq_true, List.all_eq_true, List.mem_range] at h
  have := h.2.2 (m.face f) (face_mem hf) i hi
  unfold Mesh.edgeIdD
  cases hid : m.edgeId ((m.face f).getD i 0) ((m.face f).getD ((i + 1) % (m.face f).length) 0) with
  | none => rw [hid] at this; cases this
  | some e => exact idOf_lt hid

/-- a stored face having the two distinct vertices `a b` is one of the stored faces around the stored edge `edge_id(a, b)` -/
theorem mem_e2f_of_hasEdge {m : Mesh} (hflag : m.conforming = true) {f a b : Nat} (hf : f < m.nF) (hab : a ≠ b)
    (he : hasEdge (m.face f) a b = true) :
    m.edgeIdD a b < m.nE ∧ f ∈ m.conn.e2f.getD (m.edgeIdD a b) [] := by
  have h := conforming_of_flag hflag
  unfold hasEdge at he
  simp only [Bool.and_eq_true, List.contains_iff_mem] at he
  obtain ⟨j, hj, hcase⟩ := tri_consecutive (h.face3 f hf) he.1 he.2 hab
  have hl : (m.face f).length = 3 := h.face3 f hf
  have hfound := edge_found_of_flag hflag hf (i := j) (by omega)
  rw [hl] at hfound
  have hid : m.edgeIdD ((m.face f).getD j 0) ((m.face f).getD ((j + 1) % 3) 0) = m.edgeIdD a b := by
    rcases hcase with ⟨h1, h2⟩ | ⟨h1, h2⟩
    · rw [h1, h2]
    · rw [h1, h2, edgeIdD_comm]
  rw [hid] at hfound
  refine ⟨hfound, mem_e2f.2 ⟨hfound, hf, mem_faceToEdges.2 ⟨j, by omega, ?_⟩⟩⟩
  rw [hl]; exact hid

/-- **`faceCover` on every stored edge ⇒ the boundary surface is edge-manifold** (`Conn.boundaryEdgeManifold`, the hypothesis
of `boundary_closed_exactly_two`): around the stored edge joining two vertices of a boundary triangle, the border faces are
among the two last faces of the walks -/
theorem boundaryEdgeManifold_of_faceCover {m : Mesh} (hflag : m.conforming = true)
    (hcov : ∀ e < m.nE, faceCover m.conn e = true) : m.conn.boundaryEdgeManifold = true := by
  have h := conforming_of_flag hflag
  unfold Conn.boundaryEdgeManifold
  rw [List.all_eq_true]
  intro E hE
  rw [decide_eq_true_eq]
  obtain ⟨F, hF, i, hi, hkey⟩ := mem_surfaceEdges.1 hE
  obtain ⟨f, hfb, hof⟩ := mem_surfaceFaces.1 hF
  have hf : f < m.nF := ((mem_boundaryFaces _).1 hfb).1
  have hperm : F.Perm (m.face f) := orientedFace_perm _ hof
  have hl : F.length = 3 := by rw [hperm.length_eq]; exact h.face3 f hf
  have hnd : F.Nodup := hperm.nodup_iff.2 (face_nodup h hf)
  -- the two end points of the side
  have hi3 : i < 3 := by omega
  have hj3 : (i + 1) % F.length < F.length := Nat.mod_lt _ (by omega)
  set a := F.getD i 0 with ha
  set b := F.getD ((i + 1) % F.length) 0 with hb
  have haF : a = F[i] := by rw [ha, List.getD_eq_getElem?_getD, List.getElem?_eq_getElem hi]; rfl
  have hbF : b = F[(i + 1) % F.length] := by rw [hb, List.getD_eq_getElem?_getD, List.getElem?_eq_getElem hj3]; rfl
  have hab : a ≠ b := by
    rw [haF, hbF]
    intro heq
    have := (List.Nodup.getElem_inj_iff hnd).1 heq
    rw [hl] at this
    omega
  have hamem : a ∈ m.face f := hperm.mem_iff.1 (by rw [haF]; exact List.getElem_mem _)
  have hbmem : b ∈ m.face f := hperm.mem_iff.1 (by rw [hbF]; exact List.getElem_mem _)
  -- the degree of the pair, whatever the order `key` puts it in
  have hdeg : ∀ u v, (u = a ∧ v = b) ∨ (u = b ∧ v = a) → m.conn.surfaceEdgeDegree u v ≤ 2 := by
    intro u v huv
    have hsym : m.conn.surfaceEdgeDegree u v = m.conn.surfaceEdgeDegree a b := by
      rcases huv with ⟨rfl, rfl⟩ | ⟨rfl, rfl⟩
      · rfl
      · rw [surfaceEdgeDegree_eq h, surfaceEdgeDegree_eq h]
        congr 1; apply List.filter_congr; intro g _; exact hasEdge_comm _ _ _
    rw [hsym, surfaceEdgeDegree_eq h]
    have he0 : hasEdge (m.face f) a b = true := by
      unfold hasEdge; simp [List.contains_iff_mem, hamem, hbmem]
    obtain ⟨hlt, _⟩ := mem_e2f_of_hasEdge hflag hf hab he0
    obtain ⟨W, hW, hWm⟩ := faceCover_spec m.conn (hcov _ hlt)
    have hsub : ∀ g ∈ m.conn.boundaryFaces.filter (fun g => hasEdge (m.face g) a b), g ∈ W := by
      intro g hg
      obtain ⟨hgb, hge⟩ := List.mem_filter.1 hg
      obtain ⟨hgf, hgborder⟩ := (mem_boundaryFaces _).1 hgb
      exact hWm g (mem_e2f_of_hasEdge hflag hgf hab hge).2 (by
        unfold Conn.isFaceOnBorder; simpa using hgborder)
    have hnd' : (m.conn.boundaryFaces.filter (fun g => hasEdge (m.face g) a b)).Nodup :=
      (face_partition_lemma m.conn).2.2.1.sublist List.filter_sublist
    exact Nat.le_trans (List.subperm_of_subset hnd' hsub).length_le hW
  -- `E = key [a, b]` is `[a, b]` or `[b, a]`
  rw [← hkey, key_pair]
  split
  · exact hdeg _ _ (Or.inr ⟨rfl, rfl⟩)
  · exact hdeg _ _ (Or.inl ⟨rfl, rfl⟩)

/-- **every side of every boundary triangle lies in exactly two boundary triangles**, from the decidable volume-side
predicate alone (the surface-side hypothesis of `boundary_closed_exactly_two` is discharged) -/
theorem boundary_closed_exactly_two_of_faceCover {m : Mesh} (hflag : m.conforming = true)
    (hcov : ∀ e < m.nE, faceCover m.conn e = true)
    {F : List Nat} (hF : F ∈ m.conn.surfaceFaces) {i : Nat} (hi : i < F.length) :
    m.conn.surfaceEdgeDegree (F.getD i 0) (F.getD ((i + 1) % F.length) 0) = 2 :=
  Mouette.Props.C03.boundary_closed_exactly_two (conforming_of_flag hflag) (boundaryEdgeManifold_of_faceCover hflag hcov) hF hi

/-- the hypothesis as one decidable flag on the mesh -/
def allFaceCover (m : Mesh) : Bool := (List.range m.nE).all fun e => faceCover m.conn e

theorem manifold_of_allFaceCover {m : Mesh} (hflag : m.conforming = true) (h : allFaceCover m = true) :
    m.conn.boundaryEdgeManifold = true :=
  boundaryEdgeManifold_of_faceCover hflag (fun e he => by
    unfold allFaceCover at h; rw [List.all_eq_true] at h; exact h e (List.mem_range.2 he))

/-- non-vacuity: the flag holds on `twoTets` and `ring3` and fails on `edgeGlued` (whose surface is indeed not edge-manifold) -/
example : allFaceCover Mouette.Props.C03.twoTets = true ∧ allFaceCover Mouette.Props.C03.ring3 = true
    ∧ allFaceCover edgeGlued = false ∧ edgeGlued.conn.boundaryEdgeManifold = false := by decide +kernel
example : Mouette.Props.C03.ring3.conn.boundaryEdgeManifold = true :=
  manifold_of_allFaceCover (by decide +kernel) (by decide +kernel)

end Mouette.Props.C03Manifold
