import Mouette.Lemmas.SubdivSource4
import Mouette.Lemmas.SubdivComponents5
import Mouette.Lemmas.SubdivBorder3
import Mouette.Lemmas.SubdivUmbrella
import Mouette.Lemmas.SubdivSource6
import Mouette.Props.C13
/-!
# C13 (round 4) - the theorems of `Props/C13.lean` transferred to what the SOURCE says now

`vlib/gen/c13_translate.py` re-extracts, on every run, the BODY of every operation of `mouette/mesh/subdivision.py`
(`split_edge`, `split_face_as_fan`, `triangulate_face`, `triangulate`, `loop_subdivision`, `subdivide_triangles_3quads`,
`subdivide_triangles_6`, `split_cell_as_fan`, `split_tet_from_face_center`) into state-passing Lean definitions
(`Generated/C13Src.lean`: statement order, loops as folds, guards, index expressions, which container is written, dict and
set writes), and the steps of `__init__` / `__enter__` / `__exit__` of both editors into step lists.  This file proves

* BRIDGES `*_follows_source`: each extracted definition computes what the hand model computes, for ALL meshes (the surface
  operations that go through the fan under `FacesGe2`: every face has at least two corners - the fan reads `f[0]`, `f[1]`);
* the TRANSFER `apply_op_follows_source` / `run_ops_follows_source`: any sequence of operations of a block run on the
  extracted definitions reaches the hand model's state (every operation keeps `FacesGe2`), so every theorem of
  `Props/C13.lean` now speaks about the source; the headline ones are restated on the extracted definitions
  (`*_source`);
* the editing-block PROTOCOL from the translated step lists: `enter_follows_source`, `exit_follows_source` (dropping the
  re-initialisation step gives the refuted shipped behaviour: `exit_without_reinit_is_shipped`), and the history theorems
  `exception_inside_block` (an operation raising inside the block: `__exit__` still leaves the caller's object coherent,
  equal to the refined mesh of the operations that completed) and `nested_blocks_outer_exit_wins`.
A semantic change of the source makes a bridge fail (broken obligation -> failing-input search); an unrecognised shape
makes the translator return `ok: False`.
-/
namespace Mouette.Props.C13Source
open Mouette.Subdiv Mouette.SubdivSrc
open Mouette.Generated

/-! ## bridges: one per translated function -/

theorem split_edge_follows_source (m : Raw) (e : Nat) : C13Src.splitEdge m e = splitEdge m e :=
  splitEdge_bridge m e

/-- `split_edge` ends by clearing the connectivity of the polyline it was given (the object is edited in place) -/
theorem split_edge_clears_connectivity : C13Src.splitEdgeEffects = ["connectivity.clear"] := rfl

theorem split_face_as_fan_follows_source (m : Raw) (fid : Nat) (h2 : ∀ f, m.faces[fid]? = some f → 2 ≤ f.length) :
    C13Src.splitFaceAsFan m fid = splitFaceAsFan m fid :=
  splitFaceAsFan_bridge m fid h2

theorem triangulate_face_follows_source (m : Raw) (fid : Nat) (h2 : ∀ f, m.faces[fid]? = some f → 2 ≤ f.length) :
    C13Src.triangulateFace m fid = triangulateFace m fid :=
  triangulateFace_bridge m fid h2

/-- the loop `for f in self.mesh.id_faces: if len(self.mesh.faces[f]) != 3: self.triangulate_face(f)` -/
theorem triangulate_follows_source (m : Raw) (h2 : FacesGe2 m) : C13Src.triangulate m = triangulate m :=
  triangulate_bridge m h2

/-- `triangulate()` first, then `n` passes; each pass: fresh data, edge loop filling `half` with the running length of the
new vertex container, face loop appending the four sub-triangles and adding their nine sides to the set, edge list = the set -/
theorem loop_subdivision_follows_source (m : Raw) (n : Nat) (h2 : FacesGe2 m) :
    C13Src.loopSubdivision m n = loopSubdivision m n :=
  loopSubdivision_bridge m n h2

theorem subdivide_triangles_3quads_follows_source (m : Raw) (h2 : FacesGe2 m) : C13Src.quads3 m = quads3 m :=
  quads3_bridge m h2

theorem subdivide_triangles_6_follows_source (m : Raw) (n : Nat) (h2 : FacesGe2 m) : C13Src.sub6 m n = sub6 m n :=
  sub6_bridge m n h2

theorem split_cell_as_fan_follows_source (m : Raw) (cid : Nat) : C13Src.splitCellAsFan m cid = splitCellAsFan m cid :=
  splitCellAsFan_bridge m cid

/-- the loop over the cells containing the face (read from the CURRENT cell list), the opposite corner, the inner
`for i in range(4)` -/
theorem split_tet_from_face_center_follows_source (m : Raw) (fid : Nat) :
    C13Src.splitTetFromFaceCenter m fid = splitTetFromFaceCenter m fid :=
  splitTetFromFaceCenter_bridge m fid

/-- round 5: `split_double_boundary_edges_triangles` - the degree count over the edge list (`deg[a] += 1`), the scan of every
face (`raise` on a corner of degree < 2, `break` at the first corner of degree 2), the editing block fanning the problem faces -/
theorem split_double_boundary_follows_source (m : Raw) (h2 : FacesGe2 m) :
    C13Src.splitDoubleBoundary m = splitDoubleBoundary m :=
  splitDoubleBoundary_bridge m h2

theorem split_double_boundary_opens_a_block : C13Src.splitDoubleBoundaryEffects = ["block:SurfaceSubdivision"] := rfl

/-! ## the transfer -/

theorem apply_op_follows_source (m : Raw) (op : Op) (h2 : FacesGe2 m) : srcApplyOp m op = applyOp m op :=
  srcApplyOp_eq m op h2

/-- every operation, `prepare()` and hence every block keeps the hypothesis of the bridges -/
theorem faces_ge2_invariant (m m' : Raw) (op : Op) (h : applyOp m op = .ok m') (h2 : FacesGe2 m) :
    FacesGe2 m' ∧ FacesGe2 (prepare m') :=
  ⟨applyOp_facesGe2 m m' op h h2, prepare_facesGe2 m' (applyOp_facesGe2 m m' op h h2)⟩

/-- ANY sequence of operations of a block, run on the bodies translated from the source, reaches the state (or the error
and its position) the hand model reaches -/
theorem run_ops_follows_source (m : Raw) (ops : List Op) (i : Nat) (h2 : FacesGe2 m) : srcRunOps m ops i = runOps m ops i :=
  srcRunOps_eq ops m i h2

/-! ## headline theorems restated on the extracted definitions -/

theorem area_preserved_block_source (m m' : Raw) (ops : List Op) (hs : ∀ op ∈ ops, op.isSurface = true) (hwf : WF m)
    (h2 : FacesGe2 m) (h : srcRunOps m ops 0 = (m', none)) : totalArea2 m' = totalArea2 m ∧ WF m' := by
  rw [run_ops_follows_source m ops 0 h2] at h
  exact Mouette.Props.C13.area_preserved_block m m' ops hs hwf h

theorem old_vertices_unchanged_source (m0 m' : Raw) (ops : List Op) (h2 : FacesGe2 m0)
    (h : srcRunOps (prepare m0) ops 0 = (m', none)) :
    ∀ i, i < m0.verts.length → (prepare m').verts[i]? = m0.verts[i]? := by
  rw [run_ops_follows_source _ ops 0 (prepare_facesGe2 m0 h2)] at h
  exact Mouette.Props.C13.old_vertices_unchanged m0 m' ops h

theorem counts_source (m m' : Raw) (h2 : FacesGe2 m) :
    (∀ fid, C13Src.splitFaceAsFan m fid = .ok m' → ∃ f, m.faces[fid]? = some f ∧ m'.verts.length = m.verts.length + 1 ∧
        m'.faces.length = m.faces.length + (f.length - 1) ∧ m'.edges.length = m.edges.length + f.length) ∧
    (C13Src.triangulate m = .ok m' → m'.faces.length = triCount m) ∧
    (C13Src.loopSubdivision m 1 = .ok m' → m'.faces.length = 4 * triCount m ∧ ∀ f ∈ m'.faces, f.length = 3) ∧
    (C13Src.quads3 m = .ok m' → m'.faces.length = 3 * triCount m ∧ ∀ f ∈ m'.faces, f.length = 4) ∧
    (∀ eid, C13Src.splitEdge m eid = .ok m' → m'.verts.length = m.verts.length + 1 ∧ m'.edges.length = m.edges.length + 1) := by
  refine ⟨?_, ?_, ?_, ?_, ?_⟩
  · intro fid h
    rw [split_face_as_fan_follows_source m fid (fun f hf => h2 f (List.mem_of_getElem? hf))] at h
    obtain ⟨f, hf, _, hv, hfa, he, _⟩ := fan_counts' m m' fid h
    exact ⟨f, hf, hv, hfa, he⟩
  · intro h
    rw [triangulate_follows_source m h2] at h
    exact (Mouette.Props.C13.triangulate_counts m m' h).2.1
  · intro h
    rw [loop_subdivision_follows_source m 1 h2] at h
    exact (Mouette.Props.C13.loop_counts m m').2 h
  · intro h
    rw [subdivide_triangles_3quads_follows_source m h2] at h
    obtain ⟨_, _, _, h3, h4⟩ := Mouette.Props.C13.quads3_counts m m' h
    exact ⟨h3, h4⟩
  · intro eid h
    rw [split_edge_follows_source] at h
    obtain ⟨_, _, _, hv, he, _⟩ := Mouette.Props.C13.split_edge_counts m m' eid h
    exact ⟨hv, he⟩

/-! ## the editing-block protocol, from the translated step lists -/

/-- `__init__` keeps the caller's object (`self._input`) and starts with it as working mesh -/
theorem init_follows_source : C13Src.surfInit = [.bindWork, .keepCaller] ∧ C13Src.volInit = [.bindWork, .keepCaller] := ⟨rfl, rfl⟩

/-- `__enter__` = wrap the caller's object as raw data SHARING its containers, then clear the corner containers
(face corners; for volumes also cell corners and cell faces, after the cell adjacency has been computed): exactly
`Block.enter` of the two-alias model -/
theorem enter_follows_source (input : View) :
    (runEnter C13Src.surfEnter input).block = some (Block.enter input) ∧ (runEnter C13Src.surfEnter input).cleared = ["face_corners"] ∧
    (runEnter C13Src.volEnter input).block = some (Block.enter input) ∧
    (runEnter C13Src.volEnter input).cleared = ["face_corners", "cell_corners", "cell_faces"] ∧
    (runEnter C13Src.volEnter input).adjacency = true := ⟨rfl, rfl, rfl, rfl, rfl⟩

/-- `__exit__` = prepare, re-initialise the caller's object on the prepared data, rebind: the model's repaired exit -/
theorem exit_follows_source (b : Block) : runExit C13Src.surfExit b = b.inputFixed ∧ runExit C13Src.volExit b = b.inputFixed :=
  ⟨rfl, rfl⟩

/-- without the re-initialisation step the caller's object is the one of the shipped `__exit__`, refuted in
`Props.C13.input_object_state_shipped_refuted` -/
theorem exit_without_reinit_is_shipped (b : Block) : runExit [.prepare, .rebindCaller] b = b.inputShipped := rfl

/-- `input_object_state` on the translated protocol: for EVERY operation sequence run on the translated bodies -/
theorem input_object_state_source (input : View) (ops : List Op) (b : Block) (h2 : FacesGe2 input.raw)
    (h : (Block.enter input).run ops = .ok b) :
    runExit C13Src.surfExit b = b.result ∧ (runExit C13Src.surfExit b).coherent = true ∧ (runExit C13Src.surfExit b).cache = none ∧
    srcRunOps input.raw ops 0 = (b.work, none) := by
  obtain ⟨h1, h3, h4, h5⟩ := Mouette.Props.C13.input_object_state input ops b h
  refine ⟨h1, h3, h4, ?_⟩
  rw [run_ops_follows_source _ ops 0 h2]; exact h5

/-- **An exception inside the block.** Whatever operation raises (the failing operation taken as atomic), Python still
runs `__exit__`: the caller's object is then the prepared mesh of the operations that completed - coherent, nothing
cached, never half-updated - whatever had been cached on it before. -/
theorem exception_inside_block (input : View) (ops : List Op) (b : Block) (r : Option Err)
    (h : Block.runPartial (Block.enter input) ops = (b, r)) :
    (runExit C13Src.surfExit b).coherent = true ∧ (runExit C13Src.surfExit b).cache = none ∧
    ∃ done, done <+: ops ∧ (Block.enter input).run done = .ok b ∧ runOps input.raw done 0 = (b.work, none) ∧
      (runExit C13Src.surfExit b).raw = prepare b.work ∧ (r = none → done = ops) := by
  obtain ⟨done, hd1, hd2, hd3⟩ := Block.runPartial_prefix ops _ b r h
  obtain ⟨_, h3, h4, h5⟩ := Mouette.Props.C13.input_object_state input done b hd2
  exact ⟨h3, h4, done, hd1, hd2, h5, rfl, hd3⟩

/-- **Nested blocks on one object.** Whatever an inner block (or anything else) did to the caller's object while the
outer block (in any state `b`) was open - any containers, any corner count, any cache: the view `mid` - the outer `__exit__` re-initialises
the object on the OUTER working mesh: the outer exit wins and the object is coherent.  (Refinements made by an inner
block after the outer one has rebound `self.mesh` are therefore not in the final object: not covered by the property,
whose quantifier is over the operations of ONE block.) -/
theorem nested_blocks_outer_exit_wins (mid : View) (b : Block) :
    runExit C13Src.surfExit { b with cache := mid.cache, shared := mid.raw } = b.result ∧
    (runExit C13Src.surfExit { b with cache := mid.cache, shared := mid.raw }).coherent = true := by
  refine ⟨rfl, ?_⟩
  simp [runExit, exitStep, C13Src.surfExit, View.coherent]

/-! ## round 4: the quad cut of `triangulate_face` (orientation, border sides, components)

FULL STATEMENT for `triangulate` on every oriented manifold polygon surface is FALSE (open finding
`C13/triangulate/non-regular-complex`, refuted in `Props.C13.triangulate_non_regular_refuted`).  What holds, for EVERY mesh:
the directed sides of the result are those of the input plus both orientations of the diagonal; hence, exactly when the
diagonal B-D is not already a side of the surface (regular complexes), consistent orientation and the border sides are
preserved; the connected components are preserved unconditionally. -/

theorem manifold_preserved_quad_cut (m m' : Raw) (fid a b c d : Nat) (hf : m.faces[fid]? = some [a, b, c, d])
    (h : triangulateFace m fid = .ok m') :
    (dirSides m').Perm (dirSides m ++ [(b, d), (d, b)]) ∧
    (OrientedSides m → b ≠ d → (b, d) ∉ dirSides m → (d, b) ∉ dirSides m → OrientedSides m') :=
  ⟨quad_dirSides_perm m m' fid a b c d hf h, fun ho hbd h1 h2 => quad_oriented m m' fid a b c d hf h ho hbd h1 h2⟩

theorem border_preserved_quad_cut (m m' : Raw) (fid a b c d : Nat) (hf : m.faces[fid]? = some [a, b, c, d])
    (h : triangulateFace m fid = .ok m') (h1 : (b, d) ∉ dirSides m) (h2 : (d, b) ∉ dirSides m) (x : Nat × Nat)
    (hx : x ∈ dirSides m') : (x.2, x.1) ∉ dirSides m' ↔ (x ∈ dirSides m ∧ (x.2, x.1) ∉ dirSides m) :=
  quad_border m m' fid a b c d hf h h1 h2 x hx

/-- the quad cut never changes the connected components (the ends of the new diagonal were connected through the quad) -/
theorem components_preserved_quad_cut (m m' : Raw) (fid a b c d : Nat) (hf : m.faces[fid]? = some [a, b, c, d])
    (h : triangulateFace m fid = .ok m') (x y : Nat) : Conn m' x y ↔ Conn m x y :=
  quad_components m m' fid a b c d hf h x y

/-- the same on the body translated from the source -/
theorem quad_cut_source (m m' : Raw) (fid a b c d : Nat) (hf : m.faces[fid]? = some [a, b, c, d])
    (h : C13Src.triangulateFace m fid = .ok m') :
    (dirSides m').Perm (dirSides m ++ [(b, d), (d, b)]) ∧ ∀ x y, Conn m' x y ↔ Conn m x y := by
  rw [triangulate_face_follows_source m fid (fun f hf' => by rw [hf] at hf'; cases hf'; simp)] at h
  exact ⟨quad_dirSides_perm m m' fid a b c d hf h, quad_components m m' fid a b c d hf h⟩

/-! ## round 5: `split_double_boundary_edges_triangles` and the components through the fan -/

/-- what the function returns, on the body translated from the source: the mesh itself when no face has a corner of degree 2,
otherwise the prepared result of ONE block of fan splits (so every theorem about blocks applies): same total vector area,
well-formed, original vertices in place -/
theorem split_double_boundary_source (m m' : Raw) (h2 : FacesGe2 m) (hwf : WF m) (hc : m.cells = [])
    (h : C13Src.splitDoubleBoundary m = .ok m') :
    (m' = m ∨ ∃ pb m1, pb ≠ [] ∧ runOps m (pb.map Op.fan) 0 = (m1, none) ∧ m' = prepare m1) ∧
    totalArea2 m' = totalArea2 m ∧ ∃ extra, m'.verts = m.verts ++ extra := by
  rw [split_double_boundary_follows_source m h2] at h
  rcases sdb_spec m m' h with rfl | ⟨pb, m1, hpb, hr, hcells, rfl⟩
  · exact ⟨Or.inl rfl, rfl, [], by simp⟩
  · have ha := Mouette.Props.C13.area_preserved_block m m1 (pb.map Op.fan)
      (by intro op hop; obtain ⟨f, _, rfl⟩ := List.mem_map.mp hop; rfl) hwf hr
    have hpre := (runOps_prefix (pb.map Op.fan) m m1 0 hr)
    refine ⟨Or.inr ⟨pb, m1, hpb, hr, rfl⟩, ?_, ?_⟩
    · have hf : (prepare m1).faces = m1.faces := prepare_faces_of_no_cells m1 (by rw [hcells, hc])
      have : totalArea2 (prepare m1) = totalArea2 m1 := by simp only [totalArea2, hf, prepare_verts]
      rw [this]; exact ha.1
    · obtain ⟨extra, he⟩ := hpre
      exact ⟨extra, by rw [prepare_verts]; exact he⟩

/-- `split_double_boundary_edges_triangles` keeps the original vertices and their connected components (body translated
from the source; any well-formed polygon surface) -/
theorem components_preserved_split_double_boundary (m m' : Raw) (h2 : FacesGe2 m) (hwf : WF m) (hc : m.cells = [])
    (h : C13Src.splitDoubleBoundary m = .ok m') : CompPres m m' := by
  rw [split_double_boundary_follows_source m h2] at h
  exact sdb_components m m' hwf hc h

/-- the fan split: two old vertices are connected in the result iff they were connected in the input; the new vertex is
connected to every corner of the split face: the connected components are in bijection -/
theorem components_preserved_fan (m m' : Raw) (fid : Nat) (hwf : WF m) (h : splitFaceAsFan m fid = .ok m') :
    (∀ x y, x < m.verts.length → y < m.verts.length → (Conn m' x y ↔ Conn m x y)) ∧
    ∃ f, m.faces[fid]? = some f ∧ ∀ v ∈ f, Conn m' m.verts.length v :=
  fan_components m m' fid hwf h

/-- `triangulate_face` (no-op, quad cut or fan) and `triangulate`, on EVERY well-formed polygon mesh - regular complex or
not, so also on the witness of the open finding: the original vertices are kept and two of them are connected in the
result iff they were connected in the input (the number of connected components is what the property says) -/
theorem components_preserved_triangulate (m m' : Raw) (hwf : WF m) :
    (∀ fid, triangulateFace m fid = .ok m' → CompPres m m') ∧ (triangulate m = .ok m' → CompPres m m') ∧
    (FacesGe2 m → C13Src.triangulate m = .ok m' → CompPres m m') := by
  refine ⟨fun fid h => triFace_components m m' fid hwf h, fun h => triangulateFrom_components _ m m' hwf h, ?_⟩
  intro h2 h
  rw [triangulate_follows_source m h2] at h
  exact triangulateFrom_components _ m m' hwf h

/-! ## round 6: the 1→3 quads refinement (orientation, border sides, components) and the components through 1→6

On a triangle mesh `subdivide_triangles_3quads` is `quads3Core` (no triangulation needed: `quads3_tri`).  Its directed sides
are the halves of the directed sides of the input and, per face, both orientations of the three spokes midpoint - barycentre. -/

/-- 1→3 quads preserves "every directed side occurs in at most one face" (consistent orientation, at most two faces per
edge) - no hypothesis on how the faces of the input meet -/
theorem manifold_preserved_quads3 (m m' : Raw) (h3 : ∀ f ∈ m.faces, f.length = 3) (h : quads3 m = .ok m') (hes : EdgesSorted m)
    (ho : OrientedSides m) : OrientedSides m' :=
  q3_oriented m m' (quads3_tri m m' h3 h) hes ho

/-- 1→3 quads: a directed side of the result has no opposite iff it is one of the two halves (u → m_uv), (m_uv → v) of a
directed side (u → v) of the input that has no opposite: the border sides double, the spokes are interior -/
theorem border_preserved_quads3 (m m' : Raw) (h3 : ∀ f ∈ m.faces, f.length = 3) (h : quads3 m = .ok m') (hes : EdgesSorted m)
    (x : Nat × Nat) (hx : x ∈ dirSides m') :
    (x.2, x.1) ∉ dirSides m' ↔
      ∃ u v mu, (u, v) ∈ dirSides m ∧ (v, u) ∉ dirSides m ∧
        halfLookup m.edges m.verts.length (keyify u v) = some mu ∧ (x = (u, mu) ∨ x = (mu, v)) :=
  q3_border m m' (quads3_tri m m' h3 h) hes x hx

/-- 1→3 quads and 1→6: the original vertices are kept and two of them are connected in the result iff they were in the
input; after 1→3 quads every end of a side is connected to an original vertex (so the components are in bijection) -/
theorem components_preserved_quads3_sub6 (m m' : Raw) (h3 : ∀ f ∈ m.faces, f.length = 3) (hes : EdgesSorted m) :
    (quads3 m = .ok m' → CompPres m m' ∧ ∀ z w, Adj m' z w → ∃ c, c < m.verts.length ∧ Conn m' w c) ∧
    (WF m → sub6 m 1 = .ok m' → CompPres m m') :=
  ⟨fun h => q3_components m m' (quads3_tri m m' h3 h) hes, fun hwf h => sub6_components m m' h3 hes hwf h⟩

/-- `triangulate` on a quad mesh adds, as a multiset, both orientations of every cut diagonal to the directed sides; so the
result is consistently oriented IFF sides and diagonals are pairwise distinct (it fails exactly when a diagonal is already a
side or is cut twice: the open finding `C13/triangulate/non-regular-complex`) -/
theorem manifold_quads_triangulate_iff (m m' : Raw) (hq : ∀ f ∈ m.faces, f.length = 4) (h : triangulate m = .ok m') :
    (dirSides m').Perm (dirSides m ++ (List.range m.faces.length).flatMap (fun i => diagOf m.faces[i]?)) ∧
    (OrientedSides m' ↔ (dirSides m ++ (List.range m.faces.length).flatMap (fun i => diagOf m.faces[i]?)).Nodup) := by
  refine ⟨?_, triangulate_quads_oriented_iff m m' hq h⟩
  refine tri_quads_perm _ m m' List.nodup_range ?_ h
  intro i hi
  have hlt : i < m.faces.length := List.mem_range.mp hi
  have h4 := hq m.faces[i] (List.getElem_mem hlt)
  rcases hfe : m.faces[i] with _ | ⟨a, _ | ⟨b, _ | ⟨c, _ | ⟨d, _ | ⟨e, t⟩⟩⟩⟩⟩ <;> rw [hfe] at h4 <;> simp at h4
  exact ⟨a, b, c, d, by rw [List.getElem?_eq_getElem hlt, hfe]⟩

/-- 1→6 on a triangle mesh, PARTIAL.  FULL STATEMENT (not proved): `OrientedSides m → SharesAtMostOne m → OrientedSides m'`
and the border sides of `m'` are the halves of the border sides of `m`.  Proved: the intermediate 1→3 quads mesh `m1` is
consistently oriented, and `m'` is consistently oriented iff the sides of `m1` and the corner-to-corner diagonals
(midpoint - midpoint) of its quads are pairwise distinct (a decidable criterion; the oracle checks manifoldness of every 1→6 result directly) -/
theorem manifold_preserved_sub6_partial (m m' : Raw) (h3 : ∀ f ∈ m.faces, f.length = 3) (hes : EdgesSorted m)
    (ho : OrientedSides m) (h : sub6 m 1 = .ok m') :
    ∃ m1, quads3 m = .ok m1 ∧ OrientedSides m1 ∧
      (OrientedSides m' ↔ (dirSides m1 ++ (List.range m1.faces.length).flatMap (fun i => diagOf m1.faces[i]?)).Nodup) := by
  simp only [sub6, iterM_one, bind, Except.bind] at h
  cases h1 : quads3 m with
  | error e => simp [h1] at h
  | ok m1 =>
    simp only [h1] at h
    obtain ⟨_, _, _, _, h4⟩ := Mouette.Props.C13.quads3_counts m m1 h1
    exact ⟨m1, rfl, manifold_preserved_quads3 m m1 h3 h1 hes ho, triangulate_quads_oriented_iff m1 m' h4 h⟩

/-- **1→6 at full strength** (round 7): on a triangle mesh whose faces are consistently oriented and share at most one edge
pairwise, `subdivide_triangles_6(1)` yields a consistently oriented mesh (every directed side in at most one face), and a
directed side of the result has no opposite iff it is one of the two halves (u → m_uv), (m_uv → v) of a directed side
(u → v) of the input that has no opposite: the border sides double, spokes and diagonals are interior -/
theorem manifold_preserved_sub6 (m m' : Raw) (h3 : ∀ f ∈ m.faces, f.length = 3) (hes : EdgesSorted m)
    (ho : OrientedSides m) (hS : SharesAtMostOne m) (h : sub6 m 1 = .ok m') :
    OrientedSides m' ∧ ∀ x ∈ dirSides m', ((x.2, x.1) ∉ dirSides m' ↔
      ∃ u v mu, (u, v) ∈ dirSides m ∧ (v, u) ∉ dirSides m ∧
        halfLookup m.edges m.verts.length (keyify u v) = some mu ∧ (x = (u, mu) ∨ x = (mu, v))) := by
  obtain ⟨m1, h1, _, hiff⟩ := manifold_preserved_sub6_partial m m' h3 hes ho h
  have hc := quads3_tri m m1 h3 h1
  have hnd := q3_sides_diags_nodup m m1 hc hes ho hS
  refine ⟨hiff.mpr hnd, ?_⟩
  intro x hx
  have h4 : ∀ f ∈ m1.faces, f.length = 4 := (Mouette.Props.C13.quads3_counts m m1 h1).choose_spec.2.2.2
  have ht : triangulate m1 = .ok m' := by
    simp only [sub6, iterM_one, bind, Except.bind, h1] at h; exact h
  have hperm := (manifold_quads_triangulate_iff m1 m' h4 ht).1
  have hsw : ∀ y ∈ (List.range m1.faces.length).flatMap (fun i => diagOf m1.faces[i]?),
      (y.2, y.1) ∈ (List.range m1.faces.length).flatMap (fun i => diagOf m1.faces[i]?) := by
    intro y hy
    obtain ⟨i, hi, hyi⟩ := List.mem_flatMap.mp hy
    exact List.mem_flatMap.mpr ⟨i, hi, diagOf_swap _ y hyi⟩
  rw [cuts_border _ _ _ hperm hnd hsw x hx]
  constructor
  · rintro ⟨hx1, hno⟩
    exact (q3_border m m1 hc hes x hx1).mp hno
  · intro hb
    obtain ⟨u, v, mu, huv, hnv, hl, hxe⟩ := hb
    have hx1 : x ∈ dirSides m1 := by
      obtain ⟨f, hf, hfuv⟩ := List.mem_flatMap.mp huv
      obtain ⟨i, hi⟩ := mem_number_of_mem m.faces (m.verts.length + m.edges.length) f hf
      exact (mem_dirSides_q3 m m1 hc hes x).mpr ⟨(i, f), hi, Or.inl ⟨u, v, mu, hfuv, hl, hxe⟩⟩
    exact ⟨hx1, (q3_border m m1 hc hes x hx1).mpr ⟨u, v, mu, huv, hnv, hl, hxe⟩⟩

/-- **border loops through 1→3 quads and 1→6** (round 7).  For both refinements of a triangle mesh (1→6 under the hypotheses
of `manifold_preserved_sub6`): every border side of the result is a half of exactly one border side of the input; the two
halves of a border side follow each other and the second half is followed by the first half of the successor side, and
there is no other succession; walks along the border lift (two steps per step) and project.  Hence "lies on the same border
loop" is the same relation on both sides: the border loops are in bijection, a loop of k sides becoming one of 2k. -/
theorem border_loops_preserved_quads3_sub6 (m m' : Raw) (h3 : ∀ f ∈ m.faces, f.length = 3) (hes : EdgesSorted m)
    (hcase : quads3 m = .ok m' ∨ (OrientedSides m ∧ SharesAtMostOne m ∧ sub6 m 1 = .ok m')) :
    (∀ x, IsBorder m' x ↔ ∃ s, HalfOfBorder m x s) ∧
    (∀ x s s', HalfOfBorder m x s → HalfOfBorder m x s' → s = s') ∧
    (∀ x y, IsSucc m' x y →
      (∃ u v mu, IsBorder m (u, v) ∧ halfLookup m.edges m.verts.length (keyify u v) = some mu ∧ x = (u, mu) ∧ y = (mu, v)) ∨
      (∃ u v w mu mw, IsSucc m (u, v) (v, w) ∧ halfLookup m.edges m.verts.length (keyify u v) = some mu ∧
        halfLookup m.edges m.verts.length (keyify v w) = some mw ∧ x = (mu, v) ∧ y = (v, mw))) ∧
    (∀ s t mu mt, Relation.ReflTransGen (IsSucc m) s t →
        halfLookup m.edges m.verts.length (keyify s.1 s.2) = some mu →
        halfLookup m.edges m.verts.length (keyify t.1 t.2) = some mt →
        Relation.ReflTransGen (IsSucc m') (s.1, mu) (t.1, mt)) ∧
    (∀ x y s t, Relation.ReflTransGen (IsSucc m') x y → HalfOfBorder m x s → HalfOfBorder m y t →
        Relation.ReflTransGen (IsSucc m) s t) := by
  have hb : BorderHalves m m' := by
    rcases hcase with h | ⟨ho, hS, h⟩
    · exact q3_borderHalves m m' (quads3_tri m m' h3 h) hes
    · simp only [sub6, iterM_one, bind, Except.bind] at h
      cases h1 : quads3 m with
      | error e => simp [h1] at h
      | ok m1 =>
        simp only [h1] at h
        exact sub6_borderHalves m m1 m' (quads3_tri m m1 h3 h1) h hes ho hS
  exact ⟨hb.1, fun x s s' h1 h2 => side_unique m hes x s s' h1 h2,
    fun x y hs => gen_succ_cases m m' hb hes x y hs,
    fun s t mu mt hw hl hlt => gen_loop_walk_lift m m' hb hes s t hw mu mt hl hlt,
    fun x y s t hw hs ht => gen_loop_walk_project m m' hb hes x y hw s t hs ht⟩

/-- **border loops through the fan and the quad cut** (round 8): the border sides of the result ARE the border sides of the
input (for the quad cut: when the diagonal is not already a side), so the successor relation along the border and the walks
along it are literally the same: same border loops, same number, same lengths -/
theorem border_loops_preserved_fan_quad_cut (m m' : Raw) :
    (∀ fid, WF m → splitFaceAsFan m fid = .ok m' →
      (∀ x, IsBorder m' x ↔ IsBorder m x) ∧ (∀ x y, IsSucc m' x y ↔ IsSucc m x y) ∧
      (∀ x y, Relation.ReflTransGen (IsSucc m') x y ↔ Relation.ReflTransGen (IsSucc m) x y)) ∧
    (∀ fid a b c d, m.faces[fid]? = some [a, b, c, d] → triangulateFace m fid = .ok m' → (b, d) ∉ dirSides m → (d, b) ∉ dirSides m →
      (∀ x, IsBorder m' x ↔ IsBorder m x) ∧ (∀ x y, IsSucc m' x y ↔ IsSucc m x y) ∧
      (∀ x y, Relation.ReflTransGen (IsSucc m') x y ↔ Relation.ReflTransGen (IsSucc m) x y)) := by
  constructor
  · intro fid hwf h
    have hb := fan_border_eq m m' fid hwf h
    exact ⟨hb, succ_of_border_eq m m' hb, walk_of_border_eq m m' hb⟩
  · intro fid a b c d hf h h1 h2
    have hb := quad_border_eq m m' fid a b c d hf h h1 h2
    exact ⟨hb, succ_of_border_eq m m' hb, walk_of_border_eq m m' hb⟩

/-- **the vertex umbrella condition through `split_face_as_fan`** (round 9).  A corner at `v` goes from `p` to `q` when a face
has the consecutive sides (p → v), (v → q); the corners are the edges of the link of `v`.
(1) The corners at the NEW vertex are exactly the reversed directed sides of the split face, so its link is the boundary
cycle of the face: one closed fan, connected.  (2) At an OLD vertex the corners of the other faces are kept and the corner
(p → v → q) of the split face is replaced by (p → v → new), (new → v → q); so every link walk of the input lifts: the fan of
an old vertex stays one fan.  (Faces without a degenerate side.) -/
theorem umbrella_preserved_fan (m m' : Raw) (fid : Nat) (hwf : WF m) (hn : ∀ f ∈ m.faces, ∀ s ∈ cycPairs f, s.1 ≠ s.2)
    (h : splitFaceAsFan m fid = .ok m') :
    ∃ f, m.faces[fid]? = some f ∧
      (∀ p q, Corner m' m.verts.length p q ↔ (q, p) ∈ cycPairs f) ∧
      (∀ u ∈ f, ∀ w ∈ f, LinkConn m' m.verts.length u w) ∧
      (∀ v p q, v < m.verts.length → (Corner m' v p q ↔
        (∃ j g, j ≠ fid ∧ m.faces[j]? = some g ∧ (p, v) ∈ cycPairs g ∧ (v, q) ∈ cycPairs g) ∨
        (q = m.verts.length ∧ (p, v) ∈ cycPairs f) ∨ (p = m.verts.length ∧ (v, q) ∈ cycPairs f))) ∧
      (∀ v a b, v < m.verts.length → LinkConn m v a b → LinkConn m' v a b) := by
  obtain ⟨f, hf, h1⟩ := fan_new_vertex_corners m m' fid hwf h
  obtain ⟨f2, hf2, h2⟩ := fan_new_vertex_umbrella m m' fid hwf h
  obtain ⟨f3, hf3, h3⟩ := fan_old_vertex_corners m m' fid hwf hn h
  have e2 : f2 = f := Option.some.inj (hf2.symm.trans hf)
  have e3 : f3 = f := Option.some.inj (hf3.symm.trans hf)
  subst e2; subst e3
  exact ⟨_, hf, h1, h2, h3, fun v a b hv hc => fan_old_vertex_umbrella m m' fid hwf hn h v hv a b hc⟩

/-- the same three facts on the body translated from the source -/
theorem quads3_source (m m' : Raw) (h3 : ∀ f ∈ m.faces, f.length = 3) (hes : EdgesSorted m) (ho : OrientedSides m)
    (h : C13Src.quads3 m = .ok m') : OrientedSides m' ∧ CompPres m m' := by
  rw [subdivide_triangles_3quads_follows_source m (fun f hf => by have := h3 f hf; omega)] at h
  exact ⟨manifold_preserved_quads3 m m' h3 h hes ho, (q3_components m m' (quads3_tri m m' h3 h) hes).1⟩

/-- `X.id_faces` etc. are `range(len(X.faces))`, which is what the body translator iterates (`List.range X.faces.length`) -/
theorem id_ranges_follow_source :
    ∀ p ∈ [("id_vertices", "vertices"), ("id_edges", "edges"), ("id_faces", "faces"), ("id_cells", "cells")], p ∈ C13Src.idRanges := by
  decide

/-! ## non-vacuity: the translated bodies run, and agree with the model, on concrete meshes -/

example : FacesGe2 pentagon ∧ FacesGe2 witnessMesh := by constructor <;> (unfold FacesGe2; decide)
example : ∃ m', C13Src.splitFaceAsFan pentagon 0 = .ok m' ∧ m'.faces.length = 6 ∧ m'.edges.length = pentagon.edges.length + 5 :=
  ⟨_, rfl, by decide, by decide⟩
example : ∃ m', C13Src.triangulate pentagon = .ok m' ∧ m'.faces.length = 6 := ⟨_, rfl, by decide⟩
example : ∃ m', C13Src.loopSubdivision witnessMesh 1 = .ok m' ∧ m'.faces.length = 8 ∧
    m'.edges.length = 2 * witnessMesh.edges.length + 3 * witnessMesh.faces.length := ⟨_, rfl, by decide, by decide⟩
example : ∃ m', C13Src.quads3 witnessMesh = .ok m' ∧ m'.faces.length = 6 ∧ m'.verts.length = 4 + 5 + 2 := ⟨_, rfl, by decide, by decide⟩
example : ∃ m', C13Src.sub6 witnessMesh 1 = .ok m' ∧ m'.faces.length = 12 := ⟨_, rfl, by decide⟩
example : ∃ m', C13Src.splitCellAsFan oneTet 0 = .ok m' ∧ m'.cells.length = 4 := ⟨_, rfl, by decide⟩
example : ∃ m', C13Src.splitTetFromFaceCenter twoTets 0 = .ok m' ∧ m'.cells.length = 6 ∧ m'.faces.length = twoTets.faces.length + 2 :=
  ⟨_, rfl, by decide, by decide⟩
example : C13Src.splitFaceAsFan pentagon 7 = .error Err.index ∧ C13Src.loopSubdivision { pentagon with edges := [] } 1 = .error Err.key :=
  ⟨rfl, rfl⟩
-- split_double_boundary_edges_triangles: a single triangle is an ear (every corner has degree 2): it is fanned
example : ∃ m', C13Src.splitDoubleBoundary (prepare ⟨[(0,0,0),(1,0,0),(0,1,0)], [], [[0,1,2]], []⟩) = .ok m' ∧ m'.faces.length = 3 ∧
    m'.verts.length = 4 := ⟨_, rfl, by decide, by decide⟩
-- ... and a mesh without ear is returned as it is; a mesh with an isolated edge end raises `Exception`
example : C13Src.splitDoubleBoundary witnessMesh = .ok witnessMesh ∨ ∃ m', C13Src.splitDoubleBoundary witnessMesh = .ok m' ∧ m'.faces.length > 2 := by
  first | exact Or.inl rfl | exact Or.inr ⟨_, rfl, by decide⟩
example : C13Src.splitDoubleBoundary ⟨[(0,0,0),(1,0,0),(0,1,0)], [(0,1)], [[0,1,2]], []⟩ = .error Err.other := rfl
example : WF nonRegularWitness ∧ ∃ m', triangulate nonRegularWitness = .ok m' ∧ m'.faces.length = 6 := ⟨by unfold WF; decide, _, rfl, by decide⟩
example : (∀ f ∈ witnessMesh.faces, f.length = 3) ∧ EdgesSorted witnessMesh ∧ OrientedSides witnessMesh ∧
    ∃ m', quads3 witnessMesh = .ok m' ∧ (dirSides m').length = 24 ∧ OrientedSides m' := ⟨by decide, by decide, by decide, _, rfl, by decide, by decide⟩
example : SharesAtMostOne witnessMesh := by decide
-- 1→6 on the two-triangle witness: the criterion of `manifold_preserved_sub6_partial` holds, the result is oriented
example : ∃ m', sub6 witnessMesh 1 = .ok m' ∧ (dirSides m').length = 36 ∧ OrientedSides m' := ⟨_, rfl, by decide, by decide⟩
-- the pentagon has a border loop of five sides, before and after the fan
example : IsBorder pentagon (0, 1) ∧ ∃ m', splitFaceAsFan pentagon 0 = .ok m' ∧ (0, 1) ∈ dirSides m' ∧ (1, 0) ∉ dirSides m' :=
  ⟨⟨by decide, by decide⟩, _, rfl, by decide, by decide⟩
-- umbrella: the hypotheses hold on the pentagon mesh (6 vertices); after the fan the new vertex 6 has the corner
-- (1 → 6 → 0), and the old vertex 1 has the two corners (0 → 1 → 6), (6 → 1 → 2) in place of (0 → 1 → 2)
example : (∀ f ∈ pentagon.faces, ∀ s ∈ cycPairs f, s.1 ≠ s.2) ∧ Corner pentagon 1 0 2 ∧
    ∃ m', splitFaceAsFan pentagon 0 = .ok m' ∧ [1, 2, 6] ∈ m'.faces ∧ [0, 1, 6] ∈ m'.faces ∧
      (1, 6) ∈ cycPairs [0, 1, 6] ∧ (6, 0) ∈ cycPairs [0, 1, 6] :=
  ⟨by decide, ⟨[0, 1, 2, 3, 4], by decide, by decide, by decide⟩, _, rfl, by decide, by decide, by decide, by decide⟩
-- the quad cut on a regular complex: the hypotheses of `manifold_preserved_quad_cut` are satisfiable
example : ∃ m', triangulateFace ⟨[(0,0,0),(1,0,0),(1,1,0),(0,1,0)], [(0,1),(1,2),(2,3),(0,3)], [[0,1,2,3]], []⟩ 0 = .ok m' ∧
    m'.faces = [[0,1,3],[1,2,3]] ∧ (1, 3) ∉ dirSides ⟨[], [], [[0,1,2,3]], []⟩ ∧ (3, 1) ∉ dirSides ⟨[], [], [[0,1,2,3]], []⟩ :=
  ⟨_, rfl, rfl, by decide, by decide⟩
-- an exception inside a block: the second operation raises, the first one is in the caller's object
example : ∃ b, Block.runPartial (Block.enter ⟨pentagon, 5, some pentagon.faces⟩) [.fan 0, .fan 99, .tri] = (b, some Err.index) ∧
    (runExit C13Src.surfExit b).raw.faces.length = 6 ∧ (runExit C13Src.surfExit b).coherent = true := ⟨_, rfl, by decide, by decide⟩

end Mouette.Props.C13Source
