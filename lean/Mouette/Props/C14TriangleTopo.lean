import Mouette.Props.C14Euler
import Mouette.Props.C14Triangle
/-!
# C14 (round 3) — `unit_triangle(nu, nv)` for ALL nu ≥ nv ≥ 2 is an oriented disk

(nv-1)² faces, directed sides pairwise distinct, exactly 3(nv-1) unmatched sides which are the sides of ONE polygon (the
perimeter), V − E + F = 1. Theorems are about the translated term `unit_triangleFaces`
(re-addressed by `unit_triangleFaces_addressed`).

Vertices in row/column coordinates: `tv r c = tri r + c` (row r holds the columns 0 … r); `tv` is injective on c ≤ r.
-/
namespace Mouette.Props.C14
open Mouette.Generated.C14 Mouette.MeshCheck Mouette.ListCount Mouette.EdgeCount

/-! ## triangular numbers -/

theorem two_tri (n : Nat) : 2 * tri n = n * (n + 1) := by
  induction n with
  | zero => rfl
  | succ n ih =>
    rw [tri_succ]
    have h : (n + 1) * (n + 1 + 1) = n * (n + 1) + 2 * (n + 1) := by
      rw [Nat.mul_add, Nat.mul_one, Nat.succ_mul, Nat.mul_comm 2]; omega
    omega

/-- vertex in row `r`, column `c` (meaningful for `c ≤ r`) -/
def tv (r c : Nat) : Nat := tri r + c

theorem tv_inj {r c r' c' : Nat} (h : tv r c = tv r' c') (hc : c ≤ r) (hc' : c' ≤ r') : r = r' ∧ c = c' := by
  unfold tv at h
  have hr : r = r' := by
    rcases Nat.lt_trichotomy r r' with l | e | l
    · have := tri_mono (show r + 1 ≤ r' from l); have := tri_succ r; omega
    · exact e
    · have := tri_mono (show r' + 1 ≤ r from l); have := tri_succ r'; omega
  subst hr
  exact ⟨rfl, by omega⟩

theorem tv_succ_row (r c : Nat) : tv (r + 1) c = tv r c + r + 1 := by
  unfold tv; rw [tri_succ]; omega

theorem tv_succ_col (r c : Nat) : tv r (c + 1) = tv r c + 1 := rfl

/-! ## sums -/

theorem sum_range_odd (n : Nat) : ((List.range n).map (fun j => 2 * j + 1)).sum = n * n := by
  induction n with
  | zero => rfl
  | succ n ih =>
    rw [List.range_succ, List.map_append, List.sum_append, ih]
    simp only [List.map_cons, List.map_nil, List.sum_cons, List.sum_nil]
    have : (n + 1) * (n + 1) = n * n + 2 * n + 1 := by
      rw [Nat.add_mul, Nat.mul_add, Nat.mul_one, Nat.one_mul]; omega
    omega

theorem sum_map_flatMap {α β} (l : List α) (f : α → List β) (g : β → Nat) :
    ((l.flatMap f).map g).sum = (l.map (fun a => ((f a).map g).sum)).sum := by
  induction l with
  | nil => rfl
  | cons a t ih => simp only [List.flatMap_cons, List.map_append, List.sum_append, List.map_cons, List.sum_cons, ih]

theorem sum_range_indicator_w (n k : Nat) (c : Nat → Nat) (hk : k < n) :
    ((List.range n).map (fun i => if i = k then c i else 0)).sum = c k := by
  induction n with
  | zero => omega
  | succ n ih =>
    rw [List.range_succ, List.map_append, List.sum_append]
    by_cases h : k = n
    · subst h
      have : ((List.range k).map (fun i => if i = k then c i else 0)) = (List.range k).map (fun _ => 0) := by
        apply List.map_congr_left; intro a ha; rw [List.mem_range] at ha; rw [if_neg (by omega)]
      rw [this, sum_map_const]; simp
    · rw [ih (by omega)]; simp; omega

theorem takeWhile_all_false {α} (l : List α) (p : α → Bool) (hp : ∀ x, p x = false) : l.takeWhile p = [] := by
  cases l with
  | nil => rfl
  | cons a t => rw [List.takeWhile_cons, hp a]; rfl

/-! ## addresses -/

/-- addresses (row j, position i, down?) of the faces of `unit_triangle(nu, nv)`, in the order of the loop nest -/
def triAddr (nv : Nat) : List (Nat × Nat × Bool) :=
  (List.range (nv - 1)).flatMap fun j => (List.range (j + 1)).flatMap fun i =>
    (if i < j then [(j, i, true)] else []) ++ [(j, i, false)]

/-- "up" triangle (j,i): (j,i) → (j+1,i) → (j+1,i+1); "down" triangle (j,i), i < j: (j,i) → (j+1,i+1) → (j,i+1) -/
def triFace (a : Nat × Nat × Bool) : List Nat :=
  if a.2.2 = true then [tv a.1 a.2.1, tv (a.1 + 1) (a.2.1 + 1), tv a.1 (a.2.1 + 1)]
  else [tv a.1 a.2.1, tv (a.1 + 1) a.2.1, tv (a.1 + 1) (a.2.1 + 1)]

theorem mem_triAddr (nv : Nat) (a : Nat × Nat × Bool) :
    a ∈ triAddr nv ↔ a.1 + 1 < nv ∧ a.2.1 ≤ a.1 ∧ (a.2.2 = true → a.2.1 < a.1) := by
  obtain ⟨j, i, d⟩ := a
  simp only [triAddr, List.mem_flatMap, List.mem_range, List.mem_append, List.mem_cons, List.mem_nil_iff, or_false,
    Prod.mk.injEq]
  constructor
  · rintro ⟨j', hj', i', hi', h | h⟩
    · by_cases c : i' < j'
      · simp only [c, if_true, List.mem_cons, Prod.mk.injEq, List.mem_nil_iff, or_false] at h
        obtain ⟨rfl, rfl, rfl⟩ := h
        exact ⟨by omega, by omega, fun _ => c⟩
      · simp [c] at h
    · obtain ⟨rfl, rfl, rfl⟩ := h
      exact ⟨by omega, by omega, by simp⟩
  · rintro ⟨h1, h2, h3⟩
    refine ⟨j, by omega, i, by omega, ?_⟩
    cases d
    · right; exact ⟨rfl, rfl, rfl⟩
    · left; simp [h3 rfl]

theorem nodup_triAddr (nv : Nat) : (triAddr nv).Nodup := by
  apply nodup_flatMap_of _ _ List.nodup_range
  · intro j _
    apply nodup_flatMap_of _ _ List.nodup_range
    · intro i _
      by_cases c : i < j <;> simp [c]
    · intro i _ i' _ x h1 h2
      have e1 : x.2.1 = i := by
        by_cases c : i < j <;>
          simp only [c, if_true, if_false, List.mem_append, List.mem_cons, List.mem_nil_iff, or_false, false_or] at h1
        · rcases h1 with rfl | rfl <;> rfl
        · rw [h1]
      have e2 : x.2.1 = i' := by
        by_cases c : i' < j <;>
          simp only [c, if_true, if_false, List.mem_append, List.mem_cons, List.mem_nil_iff, or_false, false_or] at h2
        · rcases h2 with rfl | rfl <;> rfl
        · rw [h2]
      omega
  · intro j _ j' _ x h1 h2
    simp only [List.mem_flatMap, List.mem_range, List.mem_append, List.mem_cons, List.mem_nil_iff, or_false] at h1 h2
    obtain ⟨i, _, h1⟩ := h1
    obtain ⟨i', _, h2⟩ := h2
    have e1 : x.1 = j := by
      rcases h1 with h1 | h1
      · by_cases c : i < j
        · simp only [c, if_true, List.mem_cons, List.mem_nil_iff, or_false] at h1; rw [h1]
        · simp [c] at h1
      · rw [h1]
    have e2 : x.1 = j' := by
      rcases h2 with h2 | h2
      · by_cases c : i' < j'
        · simp only [c, if_true, List.mem_cons, List.mem_nil_iff, or_false] at h2; rw [h2]
        · simp [c] at h2
      · rw [h2]
    omega

theorem length_triAddr (nv : Nat) : (triAddr nv).length = (nv - 1) * (nv - 1) := by
  unfold triAddr
  rw [length_flatMap_range_sum _ _ (fun j => 2 * j + 1), sum_range_odd]
  intro j _
  rw [List.range_succ, List.flatMap_append, List.length_append, length_flatMap_const (List.range j) _ 2]
  · simp; omega
  · intro i hi
    rw [List.mem_range] at hi
    simp [hi]

/-- the translated loop nest, with the `takeWhile` bounds resolved (needs nv ≤ nu) -/
theorem unit_triangleFaces_addressed (nu nv : Nat) (u : Bool) (h : nv ≤ nu) :
    unit_triangleFaces nu nv u = (triAddr nv).map triFace := by
  have key : unit_triangleFaces nu nv u = (List.range (nv - 1)).flatMap (fun j => (List.range (j + 1)).flatMap (fun i =>
      (if i < j then [triFace (j, i, true)] else []) ++ [triFace (j, i, false)])) := by
    rw [unit_triangleFaces_norm]; unfold unit_triangleFacesCanon
    simp only []
    rcases Nat.eq_zero_or_pos nv with rfl | hpos
    · rfl
    obtain ⟨n, rfl⟩ : ∃ n, nv = n + 1 := ⟨nv - 1, by omega⟩
    rw [List.range_succ, List.flatMap_append, Nat.add_sub_cancel]
    simp only [List.flatMap_cons, List.flatMap_nil, List.append_nil]
    rw [takeWhile_all_false _ _ (by intro i; simp), List.flatMap_nil, List.append_nil]
    apply flatMap_congr_on
    intro j hj
    rw [List.mem_range] at hj
    rw [takeWhile_range_le nu j _ (by intro i; simp; omega) (by omega)]
    apply flatMap_congr_on
    intro i hi
    have t1 := tri_succ j
    have e : j * (j + 1) / 2 = tri j := rfl
    simp only [triFace, tv, e, if_true, Bool.false_eq_true, if_false]
    by_cases c : i < j
    · simp only [c, if_true, List.cons_append, List.nil_append, List.cons.injEq, and_true, true_and]
      omega
    · simp only [c, if_false, List.nil_append, List.cons.injEq, and_true, true_and]
      omega
  rw [key]
  simp only [triAddr, List.map_flatMap, List.map_append, List.map_cons, List.map_nil]
  apply flatMap_congr_on
  intro j _
  apply flatMap_congr_on
  intro i _
  by_cases c : i < j <;> simp [c]

/-- (nv-1)² faces whenever nu ≥ nv -/
theorem unit_triangle_nfaces (nu nv : Nat) (u : Bool) (h : nv ≤ nu) :
    (unit_triangleFaces nu nv u).length = (nv - 1) * (nv - 1) := by
  rw [unit_triangleFaces_addressed nu nv u h, List.length_map, length_triAddr]

/-! ## sides, orientation -/

theorem sides_triFace_up (j i : Nat) : sides (triFace (j, i, false)) =
    [(tv j i, tv (j + 1) i), (tv (j + 1) i, tv (j + 1) (i + 1)), (tv (j + 1) (i + 1), tv j i)] := rfl

theorem sides_triFace_down (j i : Nat) : sides (triFace (j, i, true)) =
    [(tv j i, tv (j + 1) (i + 1)), (tv (j + 1) (i + 1), tv j (i + 1)), (tv j (i + 1), tv j i)] := rfl

/-- the sides of each face are pairwise distinct and non-degenerate -/
theorem tri_face_sides (a : Nat × Nat × Bool) :
    (sides (triFace a)).Nodup ∧ ∀ e ∈ sides (triFace a), e.1 ≠ e.2 := by
  obtain ⟨j, i, d⟩ := a
  have t1 := tri_succ j
  cases d <;>
  simp only [sides_triFace_up, sides_triFace_down, tv, List.nodup_cons, List.mem_cons, Prod.mk.injEq, List.mem_nil_iff,
      or_false, not_or, not_and, List.nodup_nil, and_true, not_false_eq_true, forall_eq_or_imp, forall_eq, ne_eq] <;>
  omega

/-- consistent orientation: a directed side lies in at most one face -/
theorem unit_triangle_oriented (nv : Nat) : ∀ a ∈ triAddr nv, ∀ b ∈ triAddr nv, ∀ e,
    e ∈ sides (triFace a) → e ∈ sides (triFace b) → a = b := by
  intro a ha b hb e h1 h2
  obtain ⟨j, i, d⟩ := a
  obtain ⟨j', i', d'⟩ := b
  obtain ⟨p, q⟩ := e
  simp only [mem_triAddr] at ha hb
  obtain ⟨ha1, ha2, ha3⟩ := ha
  obtain ⟨hb1, hb2, hb3⟩ := hb
  cases d <;> cases d' <;>
  simp only [sides_triFace_up, sides_triFace_down, List.mem_cons, Prod.mk.injEq, List.mem_nil_iff, or_false,
    forall_const, Bool.false_eq_true, false_imp_iff] at h1 h2 ha3 hb3 <;>
  rcases h1 with ⟨rfl, rfl⟩ | ⟨rfl, rfl⟩ | ⟨rfl, rfl⟩ <;>
  rcases h2 with ⟨e1, e2⟩ | ⟨e1, e2⟩ | ⟨e1, e2⟩ <;>
  (have c1 := tv_inj e1 (by omega) (by omega)
   have c2 := tv_inj e2 (by omega) (by omega)
   first
   | (exfalso; omega)
   | (simp only [Prod.mk.injEq, and_true]; omega))

/-! ## matched and unmatched sides -/

theorem mem_dirEdges_tri (nv p q : Nat) :
    (p, q) ∈ dirEdges ((triAddr nv).map triFace) ↔ ∃ j i, j + 1 < nv ∧ i ≤ j ∧
      ((p = tv j i ∧ q = tv (j + 1) i) ∨ (p = tv (j + 1) i ∧ q = tv (j + 1) (i + 1)) ∨
       (p = tv (j + 1) (i + 1) ∧ q = tv j i) ∨
       (i < j ∧ ((p = tv j i ∧ q = tv (j + 1) (i + 1)) ∨ (p = tv (j + 1) (i + 1) ∧ q = tv j (i + 1)) ∨
          (p = tv j (i + 1) ∧ q = tv j i)))) := by
  rw [mem_dirEdges_map]
  constructor
  · rintro ⟨⟨j, i, d⟩, ha, he⟩
    simp only [mem_triAddr] at ha
    obtain ⟨ha1, ha2, ha3⟩ := ha
    refine ⟨j, i, ha1, ha2, ?_⟩
    cases d <;>
    simp only [sides_triFace_up, sides_triFace_down, List.mem_cons, Prod.mk.injEq, List.mem_nil_iff, or_false,
      forall_const] at he ha3
    · rcases he with h | h | h
      · exact Or.inl h
      · exact Or.inr (Or.inl h)
      · exact Or.inr (Or.inr (Or.inl h))
    · exact Or.inr (Or.inr (Or.inr ⟨ha3, he⟩))
  · rintro ⟨j, i, hj, hi, h⟩
    rcases h with h | h | h | ⟨c, h⟩
    · exact ⟨(j, i, false), (mem_triAddr nv _).mpr ⟨hj, hi, by simp⟩, by simp [sides_triFace_up, h]⟩
    · exact ⟨(j, i, false), (mem_triAddr nv _).mpr ⟨hj, hi, by simp⟩, by simp [sides_triFace_up, h]⟩
    · exact ⟨(j, i, false), (mem_triAddr nv _).mpr ⟨hj, hi, by simp⟩, by simp [sides_triFace_up, h]⟩
    · refine ⟨(j, i, true), (mem_triAddr nv _).mpr ⟨hj, hi, fun _ => c⟩, ?_⟩
      simp only [sides_triFace_down, List.mem_cons, Prod.mk.injEq, List.mem_nil_iff, or_false]
      exact h

/-- up-triangle (j,i): the side on the left edge (i = 0), on the bottom row (j = nv-2), on the hypotenuse (i = j) is
unmatched, every other side is matched -/
theorem tri_up_facts (nv j i : Nat) (hj : j + 1 < nv) (hi : i ≤ j) :
    ((tv (j + 1) i, tv j i) ∈ dirEdges ((triAddr nv).map triFace) ↔ i ≠ 0) ∧
    ((tv (j + 1) (i + 1), tv (j + 1) i) ∈ dirEdges ((triAddr nv).map triFace) ↔ j + 2 ≠ nv) ∧
    ((tv j i, tv (j + 1) (i + 1)) ∈ dirEdges ((triAddr nv).map triFace) ↔ i ≠ j) := by
  refine ⟨?_, ?_, ?_⟩ <;> rw [mem_dirEdges_tri] <;> constructor
  · rintro ⟨j', i', hj', hi', h⟩
    rcases h with ⟨e1, e2⟩ | ⟨e1, e2⟩ | ⟨e1, e2⟩ | ⟨c, ⟨e1, e2⟩ | ⟨e1, e2⟩ | ⟨e1, e2⟩⟩ <;>
    (have c1 := tv_inj e1 (by omega) (by omega)
     have c2 := tv_inj e2 (by omega) (by omega)
     omega)
  · intro h
    refine ⟨j, i - 1, hj, by omega, Or.inr (Or.inr (Or.inr ⟨by omega, Or.inr (Or.inl ?_)⟩))⟩
    rw [show i - 1 + 1 = i by omega]; exact ⟨rfl, rfl⟩
  · rintro ⟨j', i', hj', hi', h⟩
    rcases h with ⟨e1, e2⟩ | ⟨e1, e2⟩ | ⟨e1, e2⟩ | ⟨c, ⟨e1, e2⟩ | ⟨e1, e2⟩ | ⟨e1, e2⟩⟩ <;>
    (have c1 := tv_inj e1 (by omega) (by omega)
     have c2 := tv_inj e2 (by omega) (by omega)
     omega)
  · intro h
    exact ⟨j + 1, i, by omega, by omega, Or.inr (Or.inr (Or.inr ⟨by omega, Or.inr (Or.inr ⟨rfl, rfl⟩)⟩))⟩
  · rintro ⟨j', i', hj', hi', h⟩
    rcases h with ⟨e1, e2⟩ | ⟨e1, e2⟩ | ⟨e1, e2⟩ | ⟨c, ⟨e1, e2⟩ | ⟨e1, e2⟩ | ⟨e1, e2⟩⟩ <;>
    (have c1 := tv_inj e1 (by omega) (by omega)
     have c2 := tv_inj e2 (by omega) (by omega)
     omega)
  · intro h
    exact ⟨j, i, hj, hi, Or.inr (Or.inr (Or.inr ⟨by omega, Or.inl ⟨rfl, rfl⟩⟩))⟩

/-- all three sides of a down-triangle are matched -/
theorem tri_down_facts (nv j i : Nat) (hj : j + 1 < nv) (hi : i < j) :
    (tv (j + 1) (i + 1), tv j i) ∈ dirEdges ((triAddr nv).map triFace) ∧
    (tv j (i + 1), tv (j + 1) (i + 1)) ∈ dirEdges ((triAddr nv).map triFace) ∧
    (tv j i, tv j (i + 1)) ∈ dirEdges ((triAddr nv).map triFace) := by
  refine ⟨?_, ?_, ?_⟩ <;> rw [mem_dirEdges_tri]
  · exact ⟨j, i, hj, by omega, Or.inr (Or.inr (Or.inl ⟨rfl, rfl⟩))⟩
  · exact ⟨j, i + 1, hj, by omega, Or.inl ⟨rfl, rfl⟩⟩
  · refine ⟨j - 1, i, by omega, by omega, Or.inr (Or.inl ?_)⟩
    rw [show j - 1 + 1 = j by omega]; exact ⟨rfl, rfl⟩

/-! ## border count -/

theorem filter_length3 {α} (p : α → Bool) (a b c : α) : ([a, b, c].filter p).length =
    (if p a = true then 1 else 0) + (if p b = true then 1 else 0) + (if p c = true then 1 else 0) := by
  cases ha : p a <;> cases hb : p b <;> cases hc : p c <;> simp [ha, hb, hc]

/-- number of unmatched sides of the face with address `a` -/
def triBeta (nv : Nat) (a : Nat × Nat × Bool) : Nat :=
  if a.2.2 = true then 0
  else (if a.2.1 = 0 then 1 else 0) + (if a.1 + 2 = nv then 1 else 0) + (if a.2.1 = a.1 then 1 else 0)

theorem tri_face_border (nv : Nat) (a : Nat × Nat × Bool) (ha : a ∈ triAddr nv) :
    ((sides (triFace a)).filter
      (fun e => !(dirEdges ((triAddr nv).map triFace)).contains (e.2, e.1))).length = triBeta nv a := by
  obtain ⟨j, i, d⟩ := a
  simp only [mem_triAddr] at ha
  obtain ⟨hj, hi, hd⟩ := ha
  cases d
  · obtain ⟨f1, f2, f3⟩ := tri_up_facts nv j i hj hi
    rw [sides_triFace_up, filter_length3]
    simp only [triBeta, Bool.false_eq_true, if_false, Bool.not_eq_true', List.contains_eq_mem, decide_eq_false_iff_not,
      f1, f2, f3, Decidable.not_not]
  · obtain ⟨g1, g2, g3⟩ := tri_down_facts nv j i hj (hd rfl)
    rw [sides_triFace_down, filter_length3]
    simp [triBeta, g1, g2, g3]

theorem sum_triBeta (nv : Nat) (hv : 2 ≤ nv) : ((triAddr nv).map (triBeta nv)).sum = 3 * (nv - 1) := by
  unfold triAddr
  rw [sum_map_flatMap]
  have inner : ∀ j ∈ List.range (nv - 1),
      (((List.range (j + 1)).flatMap fun i => (if i < j then [(j, i, true)] else []) ++ [(j, i, false)]).map
        (triBeta nv)).sum = 2 + (if j = nv - 2 then j + 1 else 0) := by
    intro j hj
    rw [List.mem_range] at hj
    rw [sum_map_flatMap]
    have e : ∀ i ∈ List.range (j + 1),
        (((if i < j then [(j, i, true)] else []) ++ [(j, i, false)]).map (triBeta nv)).sum =
          ((if i = 0 then 1 else 0) + (if j + 2 = nv then 1 else 0)) + (if i = j then 1 else 0) := by
      intro i _
      by_cases c : i < j <;> simp [c, triBeta]
    rw [List.map_congr_left e, sum_map_add, sum_map_add, sum_range_indicator (j + 1) 0 (by omega),
      sum_range_indicator (j + 1) j (by omega), sum_map_const, List.length_range]
    by_cases c : j = nv - 2
    · rw [if_pos c, if_pos (by omega)]; omega
    · rw [if_neg c, if_neg (by omega)]; omega
  rw [List.map_congr_left inner, sum_map_add, sum_map_const, sum_range_indicator_w (nv - 1) (nv - 2) _ (by omega),
    List.length_range]
  omega

theorem sum_sizes_tri (nv : Nat) :
    ((triAddr nv).map (fun a => (triFace a).length)).sum = (triAddr nv).length * 3 := by
  apply sum_map_const_on
  intro a _
  obtain ⟨j, i, d⟩ := a
  cases d <;> rfl

/-- `unit_triangle(nu, nv)`, nu ≥ nv ≥ 2: consistently oriented, exactly 3(nv-1) unmatched sides, V − E + F = 1 -/
theorem unit_triangle_euler (nu nv : Nat) (u : Bool) (h : nv ≤ nu) (hv : 2 ≤ nv) :
    (dirEdges (unit_triangleFaces nu nv u)).Nodup ∧ numBorder (unit_triangleFaces nu nv u) = 3 * (nv - 1) ∧
    euler (unit_triangleNVerts nu nv u) (unit_triangleFaces nu nv u) = 1 := by
  rw [unit_triangleFaces_addressed nu nv u h, unit_triangle_nverts nu nv u h]
  have hA := nodup_triAddr nv
  have hs : ∀ a ∈ triAddr nv, (sides (triFace a)).Nodup := fun a _ => (tri_face_sides a).1
  have hl : ∀ a ∈ triAddr nv, ∀ e ∈ sides (triFace a), e.1 ≠ e.2 := fun a _ => (tri_face_sides a).2
  have hor := unit_triangle_oriented nv
  have hbd : numBorder ((triAddr nv).map triFace) = 3 * (nv - 1) := by
    rw [numBorder_addressed _ _ (triBeta nv) (tri_face_border nv), sum_triBeta nv hv]
  refine ⟨dirEdges_nodup_addressed _ _ hA hs hor, hbd, ?_⟩
  apply euler_addressed _ _ _ hA hs hor hl (3 * (nv - 1)) hbd
  rw [sum_sizes_tri, length_triAddr]
  obtain ⟨n, rfl⟩ : ∃ n, nv = n + 1 := ⟨nv - 1, by omega⟩
  have e2 : (n + 1) * (n + 1 + 1) / 2 = tri (n + 1) := rfl
  have t1 := two_tri (n + 1)
  have h2 : (n + 1) * (n + 1 + 1) = n * n + 3 * n + 2 := by
    rw [Nat.add_mul, Nat.mul_add, Nat.mul_add, Nat.mul_one, Nat.one_mul]; omega
  rw [e2, Nat.add_sub_cancel]
  generalize tri (n + 1) = T at t1
  generalize n * n = N at h2
  push_cast
  omega

/-! ## the border is one loop: the perimeter -/

/-- the perimeter of the triangle with side n = nv-1: down the left edge (0,0) … (n-1,0), along the bottom row
(n,0) … (n,n-1), back up the hypotenuse (n,n) … (1,1) -/
def triRimG (n k : Nat) : Nat :=
  if k < n then tv k 0 else if k < 2 * n then tv n (k - n) else tv (3 * n - k) (3 * n - k)

def triRim (nv : Nat) : List Nat := (List.range (3 * (nv - 1))).map (triRimG (nv - 1))

theorem tv_congr {r c r' c' : Nat} (hr : r = r') (hc : c = c') : tv r c = tv r' c' := by rw [hr, hc]

theorem triRimG_left (n k : Nat) (h : k < n) : triRimG n k = tv k 0 := by
  unfold triRimG; rw [if_pos h]

theorem triRimG_bottom (n k : Nat) (h1 : n ≤ k) (h2 : k < 2 * n) : triRimG n k = tv n (k - n) := by
  unfold triRimG; rw [if_neg (by omega), if_pos h2]

theorem triRimG_hyp (n k : Nat) (h : 2 * n ≤ k) : triRimG n k = tv (3 * n - k) (3 * n - k) := by
  unfold triRimG; rw [if_neg (by omega), if_neg (by omega)]

/-- position `k` of the perimeter and its successor, in row/column coordinates -/
theorem triRim_step (n k : Nat) (hk : k < 3 * n) :
    (k < n → triRimG n k = tv k 0 ∧ triRimG n ((k + 1) % (3 * n)) = tv (k + 1) 0) ∧
    (n ≤ k → k < 2 * n → triRimG n k = tv n (k - n) ∧ triRimG n ((k + 1) % (3 * n)) = tv n (k - n + 1)) ∧
    (2 * n ≤ k → triRimG n k = tv (3 * n - k) (3 * n - k) ∧
      triRimG n ((k + 1) % (3 * n)) = tv (3 * n - k - 1) (3 * n - k - 1)) := by
  have a := succ_mod_cases (3 * n) k hk
  refine ⟨?_, ?_, ?_⟩
  · intro h
    refine ⟨triRimG_left n k h, ?_⟩
    have e : (k + 1) % (3 * n) = k + 1 := by omega
    rw [e]
    by_cases c : k + 1 < n
    · exact triRimG_left n _ c
    · rw [triRimG_bottom n _ (by omega) (by omega)]; exact tv_congr (by omega) (by omega)
  · intro h1 h2
    refine ⟨triRimG_bottom n k h1 h2, ?_⟩
    have e : (k + 1) % (3 * n) = k + 1 := by omega
    rw [e]
    by_cases c : k + 1 < 2 * n
    · rw [triRimG_bottom n _ (by omega) c]; exact tv_congr rfl (by omega)
    · rw [triRimG_hyp n _ (by omega)]; exact tv_congr (by omega) (by omega)
  · intro h
    refine ⟨triRimG_hyp n k h, ?_⟩
    rcases a with ⟨e, _⟩ | ⟨e, _⟩ <;> rw [e]
    · rw [triRimG_hyp n _ (by omega)]; exact tv_congr (by omega) (by omega)
    · rw [triRimG_left n _ (by omega)]; exact tv_congr (by omega) (by omega)

theorem nodup_triRim (nv : Nat) : (triRim nv).Nodup := by
  unfold triRim
  generalize nv - 1 = n
  rw [List.nodup_iff_pairwise_ne, List.pairwise_map]
  apply List.Pairwise.imp_of_mem _ List.nodup_range
  intro a b ha hb hab h
  rw [List.mem_range] at ha hb
  obtain ⟨a1, a2, a3⟩ := triRim_step n a ha
  obtain ⟨b1, b2, b3⟩ := triRim_step n b hb
  rcases Nat.lt_or_ge a n with ca | ca
  · rw [(a1 ca).1] at h
    rcases Nat.lt_or_ge b n with cb | cb
    · rw [(b1 cb).1] at h; have := tv_inj h (by omega) (by omega); omega
    · rcases Nat.lt_or_ge b (2 * n) with cb' | cb'
      · rw [(b2 cb cb').1] at h; have := tv_inj h (by omega) (by omega); omega
      · rw [(b3 cb').1] at h; have := tv_inj h (by omega) (by omega); omega
  · rcases Nat.lt_or_ge a (2 * n) with ca' | ca'
    · rw [(a2 ca ca').1] at h
      rcases Nat.lt_or_ge b n with cb | cb
      · rw [(b1 cb).1] at h; have := tv_inj h (by omega) (by omega); omega
      · rcases Nat.lt_or_ge b (2 * n) with cb' | cb'
        · rw [(b2 cb cb').1] at h; have := tv_inj h (by omega) (by omega); omega
        · rw [(b3 cb').1] at h; have := tv_inj h (by omega) (by omega); omega
    · rw [(a3 ca').1] at h
      rcases Nat.lt_or_ge b n with cb | cb
      · rw [(b1 cb).1] at h; have := tv_inj h (by omega) (by omega); omega
      · rcases Nat.lt_or_ge b (2 * n) with cb' | cb'
        · rw [(b2 cb cb').1] at h; have := tv_inj h (by omega) (by omega); omega
        · rw [(b3 cb').1] at h; have := tv_inj h (by omega) (by omega); omega

/-- `unit_triangle(nu, nv)`, nu ≥ nv ≥ 2: the unmatched sides are exactly the sides of ONE polygon with 3(nv-1) vertices,
the perimeter (one border loop: a disk) -/
theorem unit_triangle_loop (nu nv : Nat) (u : Bool) (h : nv ≤ nu) (hv : 2 ≤ nv) :
    BorderLoops (unit_triangleFaces nu nv u) [triRim nv] ∧ (triRim nv).length = 3 * (nv - 1) := by
  rw [unit_triangleFaces_addressed nu nv u h]
  refine ⟨⟨?_, by simp, ?_⟩, by simp [triRim]⟩
  · intro cc hc
    simp only [List.mem_cons, List.mem_nil_iff, or_false] at hc
    subst hc
    exact nodup_triRim nv
  · rintro ⟨p, q⟩
    simp only [List.mem_cons, List.mem_nil_iff, or_false, exists_eq_left, triRim, mem_sides_map_range, Prod.mk.injEq]
    obtain ⟨n, rfl⟩ : ∃ n, nv = n + 1 := ⟨nv - 1, by omega⟩
    rw [Nat.add_sub_cancel]
    constructor
    · rintro ⟨h1, h2⟩
      rw [mem_dirEdges_tri] at h1
      obtain ⟨j, i, hj, hi, hh⟩ := h1
      obtain ⟨f1, f2, f3⟩ := tri_up_facts (n + 1) j i hj hi
      rcases hh with ⟨hp, hq⟩ | ⟨hp, hq⟩ | ⟨hp, hq⟩ | ⟨c, hh⟩
      · rw [hp, hq] at h2 ⊢
        have i0 : i = 0 := by
          by_cases c : i = 0
          · exact c
          · exact absurd (f1.mpr c) h2
        subst i0
        obtain ⟨s1, _, _⟩ := triRim_step n j (by omega)
        exact ⟨j, by omega, (s1 (by omega)).1.symm, (s1 (by omega)).2.symm⟩
      · rw [hp, hq] at h2 ⊢
        have j0 : j + 2 = n + 1 := by
          by_cases c : j + 2 = n + 1
          · exact c
          · exact absurd (f2.mpr c) h2
        obtain ⟨_, s2, _⟩ := triRim_step n (n + i) (by omega)
        obtain ⟨e1, e2⟩ := s2 (by omega) (by omega)
        refine ⟨n + i, by omega, ?_, ?_⟩
        · rw [e1]; exact tv_congr (by omega) (by omega)
        · rw [e2]; exact tv_congr (by omega) (by omega)
      · rw [hp, hq] at h2 ⊢
        have ij : i = j := by
          by_cases c : i = j
          · exact c
          · exact absurd (f3.mpr c) h2
        obtain ⟨_, _, s3⟩ := triRim_step n (3 * n - (j + 1)) (by omega)
        obtain ⟨e1, e2⟩ := s3 (by omega)
        refine ⟨3 * n - (j + 1), by omega, ?_, ?_⟩
        · rw [e1]; exact tv_congr (by omega) (by omega)
        · rw [e2]; exact tv_congr (by omega) (by omega)
      · exfalso
        obtain ⟨g1, g2, g3⟩ := tri_down_facts (n + 1) j i hj c
        rcases hh with ⟨hp, hq⟩ | ⟨hp, hq⟩ | ⟨hp, hq⟩ <;> rw [hp, hq] at h2
        · exact h2 g1
        · exact h2 g2
        · exact h2 g3
    · rintro ⟨k, hk, hp, hq⟩
      rw [hp, hq]
      obtain ⟨s1, s2, s3⟩ := triRim_step n k hk
      rcases Nat.lt_or_ge k n with c1 | c1
      · obtain ⟨e1, e2⟩ := s1 c1
        obtain ⟨f1, f2, f3⟩ := tri_up_facts (n + 1) k 0 (by omega) (by omega)
        rw [e1, e2]
        refine ⟨?_, fun hh => (f1.mp hh) rfl⟩
        rw [mem_dirEdges_tri]
        exact ⟨k, 0, by omega, by omega, Or.inl ⟨rfl, rfl⟩⟩
      · rcases Nat.lt_or_ge k (2 * n) with c2 | c2
        · obtain ⟨e1, e2⟩ := s2 c1 c2
          obtain ⟨f1, f2, f3⟩ := tri_up_facts (n + 1) (n - 1) (k - n) (by omega) (by omega)
          rw [e1, e2]
          rw [show n - 1 + 1 = n by omega] at f2
          refine ⟨?_, fun hh => (f2.mp hh) (by omega)⟩
          rw [mem_dirEdges_tri]
          refine ⟨n - 1, k - n, by omega, by omega, Or.inr (Or.inl ?_)⟩
          rw [show n - 1 + 1 = n by omega]; exact ⟨rfl, rfl⟩
        · obtain ⟨e1, e2⟩ := s3 c2
          obtain ⟨f1, f2, f3⟩ := tri_up_facts (n + 1) (3 * n - k - 1) (3 * n - k - 1) (by omega) (by omega)
          rw [e1, e2]
          rw [show 3 * n - k - 1 + 1 = 3 * n - k by omega] at f3
          refine ⟨?_, fun hh => (f3.mp hh) rfl⟩
          rw [mem_dirEdges_tri]
          refine ⟨3 * n - k - 1, 3 * n - k - 1, by omega, by omega, Or.inr (Or.inr (Or.inl ?_))⟩
          rw [show 3 * n - k - 1 + 1 = 3 * n - k by omega]; exact ⟨rfl, rfl⟩

/-- everything together: an oriented disk -/
theorem unit_triangle_disk (nu nv : Nat) (u : Bool) (h : nv ≤ nu) (hv : 2 ≤ nv) :
    (unit_triangleFaces nu nv u).length = (nv - 1) * (nv - 1) ∧
    (dirEdges (unit_triangleFaces nu nv u)).Nodup ∧ numBorder (unit_triangleFaces nu nv u) = 3 * (nv - 1) ∧
    euler (unit_triangleNVerts nu nv u) (unit_triangleFaces nu nv u) = 1 ∧
    BorderLoops (unit_triangleFaces nu nv u) [triRim nv] :=
  ⟨unit_triangle_nfaces nu nv u h, (unit_triangle_euler nu nv u h hv).1, (unit_triangle_euler nu nv u h hv).2.1,
    (unit_triangle_euler nu nv u h hv).2.2, (unit_triangle_loop nu nv u h hv).1⟩

/-! ## non-vacuity -/

example : (unit_triangleFaces 5 4 false).length = 9 ∧ numBorder (unit_triangleFaces 5 4 false) = 9 ∧
    euler (unit_triangleNVerts 5 4 false) (unit_triangleFaces 5 4 false) = 1 := by decide +kernel

example : triRim 4 = [0, 1, 3, 6, 7, 8, 9, 5, 2] := by decide +kernel

end Mouette.Props.C14
